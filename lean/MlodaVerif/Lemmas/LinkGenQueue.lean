import MlodaVerif.Lemmas.LinkGenBase
/-! # Bridge, group C: the queue functions of the link-ordering code

The machine translation (`Gen/LinkOrderGen.lean`) of `ResolveComputeFrameworks.resolve_trekked_links`,
`ResolveComputeFrameworks.order_queue_by_trekker_order` and `ResolveLinks.add_links_to_queue` against the hand-written
`LinkOrder.resolveTrekked`, `LinkOrder.orderQueue`, `LinkOrder.addLinks` (`Model/LinkOrder.lean`) through the abstractions of
`Lemmas/LinkGenBase.lean`.

Technique: each generated function is first shown EQUAL (by `rfl`) to a composition of `forIn` loops over NAMED loop bodies
(`Queue.resBody`, `Queue.outerB` / `midB` / `depB` / `srch1B` / `srch2B`, `Queue.addOuterB` / `addMidB` / `addInnerB`); every loop is then
characterised by induction on its list.  The search loops with `break` and the flag `breaker` are the model's `firstMissing`
(`Queue.srch1_spec`, `Queue.srch2_spec`); the `continue`s are `ForInStep.yield`.  Main theorems (namespace `LinkGen`): `resolve_bridge`,
`order_queue_bridge`, `add_links_unfold`, `add_links_loop`; everything else lives in `LinkGen.Queue`. -/
namespace LinkGen
open LinkOrder PyRt Gen.LinkOrderGen

namespace Queue

/-! ### `resolve_trekked_links` -/

def resBody (c : PSet) (x : PKey) (s : Rcf.RcfSelf × PSet) : Except PyExc (ForInStep (Rcf.RcfSelf × PSet)) :=
  if x.1.jointype == jtRight then
    if c.has x.2.2 then .ok (.yield (s.1, s.2.add x.2.2))
    else if c.has x.2.1 then
      .ok (.yield ({ to_invert_trekker_collection := s.1.to_invert_trekker_collection ++ [x] }, s.2.add x.2.2))
    else .ok (.yield s)
  else if decide (x.1.jointype < jtCount) then
    if c.has x.2.1 && c.has x.2.2 then .ok (.yield (s.1, s.2.add x.2.1))
    else if c.has x.2.1 then .ok (.yield (s.1, s.2.add x.2.1))
    else if c.has x.2.2 then
      .ok (.yield ({ to_invert_trekker_collection := s.1.to_invert_trekker_collection ++ [x] }, s.2.add x.2.2))
    else .ok (.yield s)
  else .error (.valueError "This jointype is not implemented: {}. Possible types are: {}")

theorem resolve_unfold (self : Rcf.RcfSelf) (t : List PKey) (c : PSet) :
    Rcf.resolve_trekked_links self t c =
      (forIn t (self, []) (resBody c)).bind (fun v =>
        if !(PSet.truthy v.2) then .error (.valueError "No new compute frameworks have been found.") else .ok (v.2, v.1)) := by
  rfl

theorem resolve_loop (L : Links) (c : PSet) (t : List PKey) (hc : ∀ k ∈ t, CanonK L k) (self : Rcf.RcfSelf) (new : PSet) :
    mapV (forIn t (self, new) (resBody c)) (fun v => (v.2, v.1.to_invert_trekker_collection.map absK))
      = liftM (resolveLoop (fun n => jtOf (L.link n).jointype) c (t.map absK)
          (new, self.to_invert_trekker_collection.map absK)) := by
  induction t generalizing self new with
  | nil => rfl
  | cons k r ih =>
    have hk : CanonK L k := hc k (by simp)
    have hr : ∀ k ∈ r, CanonK L k := fun k' h' => hc k' (by simp [h'])
    have hj : (L.link (absK k).link).jointype = k.1.jointype := by
      have : L.link k.1.uuid = k.1 := hk
      simp [absK, this]
    simp only [List.forIn_cons, List.map_cons, resolveLoop, hj, bind, Except.bind]
    by_cases h1 : k.1.jointype = jtRight
    · have hjt : jtOf k.1.jointype = .right := by simp [jtOf, h1]
      rw [hjt]
      simp only [resBody, h1, beq_self_eq_true, if_true, PSet.has, absK]
      by_cases h2 : k.2.2 ∈ c
      · simp only [h2, decide_true, if_true]
        exact ih hr _ _
      · by_cases h3 : k.2.1 ∈ c
        · simp only [h2, h3, decide_true, decide_false, if_true, if_false, Bool.false_eq_true]
          have := ih hr { to_invert_trekker_collection := self.to_invert_trekker_collection ++ [k] } (PSet.add new k.2.2)
          simpa [absK, add_eq] using this
        · simp only [h2, h3, decide_false, if_false, Bool.false_eq_true]
          exact ih hr _ _
    · have h1' : (k.1.jointype == jtRight) = false := by simp [h1]
      by_cases h4 : k.1.jointype < jtCount
      · have hjt : jtOf k.1.jointype = .other := by simp [jtOf, h1, h4]
        rw [hjt]
        simp only [resBody, h1', h4, decide_true, if_true, if_false, Bool.false_eq_true, PSet.has, absK]
        by_cases h2 : k.2.1 ∈ c
        · by_cases h3 : k.2.2 ∈ c
          · simp only [h2, h3, decide_true, Bool.and_self, if_true, and_self]
            exact ih hr _ _
          · simp only [h2, h3, decide_true, decide_false, Bool.and_false, if_true, if_false, Bool.false_eq_true, and_false]
            exact ih hr _ _
        · by_cases h3 : k.2.2 ∈ c
          · simp only [h2, h3, decide_true, decide_false, Bool.false_and, if_true, if_false, Bool.false_eq_true, false_and]
            have := ih hr { to_invert_trekker_collection := self.to_invert_trekker_collection ++ [k] } (PSet.add new k.2.2)
            simpa [absK, add_eq] using this
          · simp only [h2, h3, decide_false, Bool.false_and, if_false, Bool.false_eq_true, false_and]
            exact ih hr _ _
      · have hjt : jtOf k.1.jointype = .invalid := by simp [jtOf, h1, h4]
        rw [hjt]
        simp only [resBody, h1', h4, decide_false, if_false, Bool.false_eq_true]
        rfl

/-! ### `add_links_to_queue`: loop bodies and their pure versions -/

def addInnerB (u : Nat) (k : PKey) (link_id : Nat) (s : List Gen.LinkOrderGen.QItem × List PKey) :
    Except PyExc (ForInStep (List Gen.LinkOrderGen.QItem × List PKey)) :=
  if u == link_id then .ok (.yield (s.1 ++ [Gen.LinkOrderGen.QItem.link k], PyList.addE s.2 k)) else .ok (.yield s)

def addMidB (h : SHeap) (u : Nat) (x : PKey × Nat) (s : List Gen.LinkOrderGen.QItem × List PKey) :
    Except PyExc (ForInStep (List Gen.LinkOrderGen.QItem × List PKey)) :=
  if decide (x.1 ∈ s.2) then .ok (.yield s)
  else (forIn (SHeap.get h x.2) s (addInnerB u x.1)).bind (fun v => .ok (.yield v))

def addOuterB (ordered : KDict PKey Nat) (h : SHeap) (u : Nat) (s : List Gen.LinkOrderGen.QItem × List PKey) :
    Except PyExc (ForInStep (List Gen.LinkOrderGen.QItem × List PKey)) :=
  (forIn ordered s (addMidB h u)).bind (fun v => .ok (.yield (v.1 ++ [Gen.LinkOrderGen.QItem.uuid u], v.2)))

theorem add_links_unfold0 (self : RL.RLSelf) (h : SHeap) :
    RL.add_links_to_queue self h =
      (Trk.get_ordered_data self.link_trekker h).bind (fun v =>
        (forIn self.queue ([], []) (addOuterB v.1 v.2.1)).bind (fun v1 =>
          .ok (v1.1, v.2.1, { self with link_trekker := v.2.2 }))) := by
  rfl

def addInner (u : Nat) (k : PKey) (st : List Gen.LinkOrderGen.QItem × List PKey) (link_id : Nat) :
    List Gen.LinkOrderGen.QItem × List PKey :=
  if u == link_id then (st.1 ++ [Gen.LinkOrderGen.QItem.link k], PyList.addE st.2 k) else st

def addMid (h : SHeap) (u : Nat) (st : List Gen.LinkOrderGen.QItem × List PKey) (e : PKey × Nat) :
    List Gen.LinkOrderGen.QItem × List PKey :=
  if e.1 ∈ st.2 then st else (SHeap.get h e.2).foldl (addInner u e.1) st

def addOuter (ordered : KDict PKey Nat) (h : SHeap) (st : List Gen.LinkOrderGen.QItem × List PKey) (u : Nat) :
    List Gen.LinkOrderGen.QItem × List PKey :=
  ((ordered.foldl (addMid h u) st).1 ++ [Gen.LinkOrderGen.QItem.uuid u], (ordered.foldl (addMid h u) st).2)

theorem addOuterB_eq (ordered : KDict PKey Nat) (h : SHeap) (u : Nat) (s : List Gen.LinkOrderGen.QItem × List PKey) :
    addOuterB ordered h u s = .ok (.yield (addOuter ordered h s u)) := by
  unfold addOuterB
  rw [PyRt.forIn_yield_spec ordered (addMidB h u) (fun e st => addMid h u st e)]
  · rfl
  · intro e st
    unfold addMidB addMid
    by_cases hm : e.1 ∈ st.2
    · simp [hm]
    · simp only [hm, decide_false, if_false, Bool.false_eq_true]
      rw [PyRt.forIn_yield_spec _ (addInnerB u e.1) (fun l st => addInner u e.1 st l)]
      · rfl
      · intro l st'
        unfold addInnerB addInner
        split <;> rfl

theorem addInner_foldl_notin (u : Nat) (k : PKey) (l : List Nat) (hu : u ∉ l)
    (st : List Gen.LinkOrderGen.QItem × List PKey) : l.foldl (addInner u k) st = st := by
  induction l generalizing st with
  | nil => rfl
  | cons a r ih =>
    have ha : (u == a) = false := by simp at hu; simp [hu.1]
    simp only [List.foldl_cons, addInner, ha, Bool.false_eq_true, if_false]
    exact ih (fun hm => hu (List.mem_cons_of_mem _ hm)) st

theorem addInner_foldl (u : Nat) (k : PKey) (l : List Nat) (hl : l.Nodup)
    (st : List Gen.LinkOrderGen.QItem × List PKey) (hk : k ∉ st.2) :
    l.foldl (addInner u k) st = if u ∈ l then (st.1 ++ [Gen.LinkOrderGen.QItem.link k], st.2 ++ [k]) else st := by
  induction l generalizing st with
  | nil => simp
  | cons a r ih =>
    rw [List.nodup_cons] at hl
    by_cases ha : u = a
    · subst ha
      simp only [List.foldl_cons, addInner, beq_self_eq_true, if_true, List.mem_cons, true_or, PyList.addE, hk, if_false]
      exact addInner_foldl_notin u k r hl.1 _
    · have ha' : (u == a) = false := by simp [ha]
      simp only [List.foldl_cons, addInner, ha', Bool.false_eq_true, if_false, List.mem_cons, ha, false_or]
      exact ih hl.2 st hk

theorem mem_map_absK (L : Links) (k : PKey) (l : List PKey) (hk : CanonK L k) (hl : ∀ x ∈ l, CanonK L x) :
    absK k ∈ l.map absK ↔ k ∈ l := by
  constructor
  · intro hm
    obtain ⟨x, hx, e⟩ := List.mem_map.mp hm
    rw [← absK_inj L x k (hl x hx) hk e]; exact hx
  · intro hm; exact List.mem_map_of_mem hm

theorem addMid_foldl (L : Links) (h : SHeap) (hn : ∀ r, (SHeap.get h r).Nodup) (u : Nat) (ordered : KDict PKey Nat)
    (hc : ∀ e ∈ ordered, CanonK L e.1) (st : List Gen.LinkOrderGen.QItem × List PKey) (hj : ∀ k ∈ st.2, CanonK L k) :
    ((ordered.foldl (addMid h u) st).1.map absQ, (ordered.foldl (addMid h u) st).2.map absK)
        = addLinksFor u (absView ordered h) (st.1.map absQ, st.2.map absK)
      ∧ ∀ k ∈ (ordered.foldl (addMid h u) st).2, CanonK L k := by
  induction ordered generalizing st with
  | nil => exact ⟨rfl, hj⟩
  | cons e r ih =>
    have he : CanonK L e.1 := hc e (by simp)
    have hr : ∀ e' ∈ r, CanonK L e'.1 := fun e' h' => hc e' (by simp [h'])
    simp only [List.foldl_cons, absView, List.map_cons, addLinksFor]
    have hmem := mem_map_absK L e.1 st.2 he hj
    by_cases hm : e.1 ∈ st.2
    · have hm' : absK e.1 ∈ st.2.map absK := hmem.mpr hm
      simp only [addMid, hm, if_true]
      rw [if_pos hm']
      exact ih hr st hj
    · have hm' : absK e.1 ∉ st.2.map absK := fun x => hm (hmem.mp x)
      rw [if_neg hm']
      simp only [addMid, hm, if_false]
      rw [addInner_foldl u e.1 _ (hn e.2) st hm]
      by_cases hu : u ∈ SHeap.get h e.2
      · rw [if_pos hu, if_pos hu]
        have := ih hr (st.1 ++ [Gen.LinkOrderGen.QItem.link e.1], st.2 ++ [e.1]) (by
          intro k hk; rcases List.mem_append.mp hk with hk | hk
          · exact hj k hk
          · simp at hk; rw [hk]; exact he)
        simpa [absQ, absView] using this
      · rw [if_neg hu, if_neg hu]
        exact ih hr st hj

theorem addOuter_foldl (L : Links) (h : SHeap) (hn : ∀ r, (SHeap.get h r).Nodup) (ordered : KDict PKey Nat)
    (hc : ∀ e ∈ ordered, CanonK L e.1) (queue : List Nat) (st : List Gen.LinkOrderGen.QItem × List PKey)
    (hj : ∀ k ∈ st.2, CanonK L k) :
    (queue.foldl (addOuter ordered h) st).1.map absQ
      = (addLinksLoop (absView ordered h) queue (st.1.map absQ, st.2.map absK)).1 := by
  induction queue generalizing st with
  | nil => rfl
  | cons u r ih =>
    simp only [List.foldl_cons, addLinksLoop]
    obtain ⟨e1, e2⟩ := addMid_foldl L h hn u ordered hc st hj
    rw [← e1]
    have := ih (addOuter ordered h st u) e2
    rw [this]
    simp [addOuter, absQ]

/-! ### `order_queue_by_trekker_order` -/

abbrev GEl := Gen.LinkOrderGen.PEl
/-- loop state of `order_queue_by_trekker_order`: (`new_planned_queue`, `link_already_added`, `issue_collector`) -/
abbrev OQSt := List GEl × PSet × KDict Nat (List GEl)

def srch1B (h : SHeap) (added : PSet) (u : Nat) (p : GEl) (x : Nat × Nat) (s : KDict Nat (List GEl) × Bool) :
    Except PyExc (ForInStep (KDict Nat (List GEl) × Bool)) :=
  if SHeap.has h x.2 u then
    if !(PSet.has added x.1) then .ok (.done (KDict.addAt s.1 x.1 p, true))
    else .ok (.yield s)
  else .ok (.yield s)

def srch2B (h : SHeap) (added : PSet) (u : Nat) (x : Nat × Nat) (s : Bool) : Except PyExc (ForInStep Bool) :=
  if SHeap.has h x.2 u then
    if !(PSet.has added x.1) then .ok (.done true)
    else .ok (.yield s)
  else .ok (.yield s)

def depB (orders : KDict Nat Nat) (h : SHeap) (dep : GEl) (s : List GEl × PSet × Bool) :
    Except PyExc (ForInStep (List GEl × PSet × Bool)) :=
  (PEl.linkUuid dep).bind fun v =>
    (forIn orders false (srch2B h s.2.1 v)).bind fun v2 =>
      if !v2 then .ok (.yield (s.1 ++ [dep], PSet.add s.2.1 v, v2)) else .ok (.yield (s.1, s.2.1, v2))

def midB (orders : KDict Nat Nat) (h : SHeap) (ords : Nat → List GEl) (p : GEl) (x : Nat × List GEl)
    (s : List GEl × PSet × Bool) : Except PyExc (ForInStep (List GEl × PSet × Bool)) :=
  (PEl.linkUuid p).bind fun v =>
    if v == x.1 then
      (forIn (Gen.LinkOrderGen.iterSet (ords x.1) x.2) s (depB orders h)).bind fun w => .ok (.yield w)
    else .ok (.yield s)

def outerB (orders : KDict Nat Nat) (h : SHeap) (ords : Nat → List GEl) (x : Nat × GEl) (s : OQSt) :
    Except PyExc (ForInStep OQSt) :=
  if PEl.isLink x.2 then
    (PEl.linkUuid x.2).bind fun v =>
      (forIn orders (s.2.2, false) (srch1B h s.2.1 v x.2)).bind fun v1 =>
        if v1.2 then .ok (.yield (s.1, s.2.1, v1.1))
        else if PEl.isLink x.2 then
          (forIn v1.1 (s.1 ++ [x.2], PSet.add s.2.1 v, v1.2) (midB orders h ords x.2)).bind fun w =>
            .ok (.yield (w.1, w.2.1, v1.1))
        else .ok (.yield (s.1 ++ [x.2], PSet.add s.2.1 v, v1.1))
  else if PEl.isLink x.2 then
    (forIn s.2.2 (s.1 ++ [x.2], s.2.1, false) (midB orders h ords x.2)).bind fun w =>
      .ok (.yield (w.1, w.2.1, s.2.2))
  else .ok (.yield (s.1 ++ [x.2], s.2.1, s.2.2))

theorem order_queue_unfold (q : List GEl) (s : Trk.TrekkerSelf) (h : SHeap) (ords : Nat → List GEl) :
    Rcf.order_queue_by_trekker_order q s h ords =
      (forIn (PyList.enumerate q) ([], [], []) (outerB s.order h ords)).bind fun v => .ok v.1 := by
  rfl

/-! #### the two search loops -/

theorem srch1_spec (h : SHeap) (added : PSet) (u : Nat) (p : GEl) (orders : KDict Nat Nat) (iss : KDict Nat (List GEl)) :
    forIn orders (iss, false) (srch1B h added u p) =
      .ok (match firstMissing (absOrder orders h) added u with
        | some k => (KDict.addAt iss k p, true)
        | none => (iss, false)) := by
  induction orders with
  | nil => rfl
  | cons e r ih =>
    simp only [List.forIn_cons, absOrder, List.map_cons, firstMissing, srch1B, SHeap.has, PSet.has, bind, Except.bind]
    by_cases h1 : u ∈ SHeap.get h e.2
    · by_cases h2 : e.1 ∈ added
      · simp only [h1, h2, decide_true, if_true, Bool.not_true, Bool.false_eq_true, if_false, not_true, and_false]
        exact ih
      · simp only [h1, h2, decide_true, decide_false, if_true, Bool.not_false, not_false_eq_true, and_self]
        rfl
    · simp only [h1, decide_false, Bool.false_eq_true, if_false, false_and]
      exact ih

theorem srch2_spec (h : SHeap) (added : PSet) (u : Nat) (orders : KDict Nat Nat) :
    forIn orders false (srch2B h added u) = .ok (firstMissing (absOrder orders h) added u).isSome := by
  induction orders with
  | nil => rfl
  | cons e r ih =>
    simp only [List.forIn_cons, absOrder, List.map_cons, firstMissing, srch2B, SHeap.has, PSet.has, bind, Except.bind]
    by_cases h1 : u ∈ SHeap.get h e.2
    · by_cases h2 : e.1 ∈ added
      · simp only [h1, h2, decide_true, if_true, Bool.not_true, Bool.false_eq_true, if_false, not_true, and_false]
        exact ih
      · simp only [h1, h2, decide_true, decide_false, if_true, Bool.not_false, not_false_eq_true, and_self]
        rfl
    · simp only [h1, decide_false, Bool.false_eq_true, if_false, false_and]
      exact ih

/-! #### the issue collector: link entries ↦ keys -/

/-- the key of a link entry -/
def pkey : GEl → Key
  | .link k => absK k
  | .fg _ => ⟨0, 0, 0⟩

/-- a canonical link entry -/
def IsCL (L : Links) (d : GEl) : Prop := ∃ k, d = .link k ∧ CanonK L k

theorem absP_of_isCL {L : Links} {d : GEl} (hd : IsCL L d) : absP d = .link (pkey d) := by
  obtain ⟨k, rfl, _⟩ := hd; rfl

theorem linkUuid_of_isCL {L : Links} {d : GEl} (hd : IsCL L d) : PEl.linkUuid d = .ok (pkey d).link := by
  obtain ⟨k, rfl, _⟩ := hd; rfl

theorem conc_pkey {L : Links} {d : GEl} (hd : IsCL L d) : Gen.LinkOrderGen.PEl.link (concK L (pkey d)) = d := by
  obtain ⟨k, rfl, hk⟩ := hd
  simp [pkey, concK_absK L k hk]

theorem pkey_conc (L : Links) (y : Key) : pkey (Gen.LinkOrderGen.PEl.link (concK L y)) = y := by
  simp [pkey, absK_concK]

theorem isCL_conc (L : Links) (y : Key) : IsCL L (Gen.LinkOrderGen.PEl.link (concK L y)) := ⟨_, rfl, canon_concK L y⟩

theorem pkey_inj {L : Links} {d d' : GEl} (hd : IsCL L d) (hd' : IsCL L d') (e : pkey d = pkey d') : d = d' := by
  rw [← conc_pkey hd, ← conc_pkey hd', e]

theorem mem_map_pkey {L : Links} {d : GEl} {l : List GEl} (hd : IsCL L d) (hl : ∀ x ∈ l, IsCL L x) :
    pkey d ∈ l.map pkey ↔ d ∈ l := by
  constructor
  · intro hm
    obtain ⟨x, hx, e⟩ := List.mem_map.mp hm
    rw [← pkey_inj (hl x hx) hd e]; exact hx
  · intro hm; exact List.mem_map_of_mem hm

theorem nodup_of_map {α β : Type} (f : α → β) (l : List α) (hn : (l.map f).Nodup) : l.Nodup := by
  unfold List.Nodup at *
  rw [List.pairwise_map] at hn
  exact hn.imp (fun hne e => hne (by rw [e]))

/-- `iterSet` of the translation against the model's -/
theorem iterSet_map (L : Links) (ordM : List Key) (deps : List GEl) (hd : ∀ x ∈ deps, IsCL L x) :
    (Gen.LinkOrderGen.iterSet (ordM.map (fun key => Gen.LinkOrderGen.PEl.link (concK L key))) deps).map pkey
        = LinkOrder.iterSet ordM (deps.map pkey)
      ∧ ∀ x ∈ Gen.LinkOrderGen.iterSet (ordM.map (fun key => Gen.LinkOrderGen.PEl.link (concK L key))) deps, IsCL L x := by
  have hback : (ordM.map (fun key => Gen.LinkOrderGen.PEl.link (concK L key))).map pkey = ordM := by
    rw [List.map_map]
    conv => rhs; rw [← List.map_id ordM]
    apply List.map_congr_left
    intro y _
    exact pkey_conc L y
  unfold Gen.LinkOrderGen.iterSet LinkOrder.iterSet
  have hiff : ((ordM.map (fun key => Gen.LinkOrderGen.PEl.link (concK L key))).Nodup
        ∧ (∀ x ∈ ordM.map (fun key => Gen.LinkOrderGen.PEl.link (concK L key)), x ∈ deps)
        ∧ (∀ x ∈ deps, x ∈ ordM.map (fun key => Gen.LinkOrderGen.PEl.link (concK L key))))
      ↔ (ordM.Nodup ∧ (∀ x ∈ ordM, x ∈ deps.map pkey) ∧ (∀ x ∈ deps.map pkey, x ∈ ordM)) := by
    constructor
    · rintro ⟨h1, h2, h3⟩
      refine ⟨nodup_of_map _ _ h1, ?_, ?_⟩
      · intro y hy
        have := h2 _ (List.mem_map_of_mem (f := fun key => Gen.LinkOrderGen.PEl.link (concK L key)) hy)
        have := List.mem_map_of_mem (f := pkey) this
        rwa [pkey_conc] at this
      · intro y hy
        obtain ⟨d, hdm, rfl⟩ := List.mem_map.mp hy
        obtain ⟨y', hy', e⟩ := List.mem_map.mp (h3 d hdm)
        rw [← e, pkey_conc]; exact hy'
    · rintro ⟨h1, h2, h3⟩
      refine ⟨nodup_of_map pkey _ (by rw [hback]; exact h1), ?_, ?_⟩
      · intro x hx
        obtain ⟨y, hy, rfl⟩ := List.mem_map.mp hx
        obtain ⟨d, hdm, e⟩ := List.mem_map.mp (h2 y hy)
        rw [← e, conc_pkey (hd d hdm)]; exact hdm
      · intro d hdm
        have := h3 _ (List.mem_map_of_mem (f := pkey) hdm)
        have := List.mem_map_of_mem (f := fun key => Gen.LinkOrderGen.PEl.link (concK L key)) this
        rwa [conc_pkey (hd d hdm)] at this
  by_cases hA : ((ordM.map (fun key => Gen.LinkOrderGen.PEl.link (concK L key))).Nodup
        ∧ (∀ x ∈ ordM.map (fun key => Gen.LinkOrderGen.PEl.link (concK L key)), x ∈ deps)
        ∧ (∀ x ∈ deps, x ∈ ordM.map (fun key => Gen.LinkOrderGen.PEl.link (concK L key))))
  · rw [if_pos hA, if_pos (hiff.mp hA)]
    refine ⟨hback, ?_⟩
    intro x hx
    obtain ⟨y, _, rfl⟩ := List.mem_map.mp hx
    exact isCL_conc L y
  · rw [if_neg hA, if_neg (fun hB => hA (hiff.mpr hB))]
    exact ⟨rfl, hd⟩


/-! #### the loop over the dependent links -/

theorem dep_loop (L : Links) (orders : KDict Nat Nat) (h : SHeap) (deps : List GEl) (hd : ∀ x ∈ deps, IsCL L x)
    (s : List GEl × PSet × Bool) :
    ∃ s', forIn deps s (depB orders h) = .ok s' ∧
      (s'.1.map absP, s'.2.1) = readd (absOrder orders h) (deps.map pkey) (s.1.map absP, s.2.1) := by
  induction deps generalizing s with
  | nil => exact ⟨s, rfl, rfl⟩
  | cons d r ih =>
    have hd1 : IsCL L d := hd d (by simp)
    have hr : ∀ x ∈ r, IsCL L x := fun x hx => hd x (by simp [hx])
    simp only [List.forIn_cons, depB, linkUuid_of_isCL hd1, srch2_spec, Except.bind, bind, List.map_cons, readd]
    cases hf : firstMissing (absOrder orders h) s.2.1 (pkey d).link with
    | some k =>
      simp only [Option.isSome_some, Bool.not_true, Bool.false_eq_true, if_false]
      exact ih hr _
    | none =>
      simp only [Option.isSome_none, Bool.not_false, if_true]
      obtain ⟨s', e1, e2⟩ := ih hr (s.1 ++ [d], PSet.add s.2.1 (pkey d).link, false)
      refine ⟨s', e1, ?_⟩
      rw [e2]
      simp [absP_of_isCL hd1, add_eq]

/-! #### the loop over the issue collector -/

/-- the issue collector as the model holds it -/
def absIss (iss : KDict Nat (List GEl)) : List (Nat × List Key) := iss.map (fun e => (e.1, e.2.map pkey))

theorem mid_loop_notin (orders : KDict Nat Nat) (h : SHeap) (ords : Nat → List GEl) (k : PKey) (iss : KDict Nat (List GEl))
    (hk : k.1.uuid ∉ iss.map (·.1)) (s : List GEl × PSet × Bool) :
    forIn iss s (midB orders h ords (.link k)) = .ok s := by
  induction iss generalizing s with
  | nil => rfl
  | cons e r ih =>
    simp only [List.map_cons, List.mem_cons, not_or] at hk
    have hne : (k.1.uuid == e.1) = false := by simp [hk.1]
    simp only [List.forIn_cons, midB, PEl.linkUuid, Except.bind, bind, hne, Bool.false_eq_true, if_false]
    exact ih hk.2 s

theorem mid_loop (L : Links) (orders : KDict Nat Nat) (h : SHeap) (ordsM : Nat → List Key) (k : PKey)
    (iss : KDict Nat (List GEl)) (hn : (iss.map (·.1)).Nodup) (hi : ∀ e ∈ iss, ∀ d ∈ e.2, IsCL L d)
    (s : List GEl × PSet × Bool) :
    ∃ s', forIn iss s (midB orders h (fun k => (ordsM k).map (fun key => Gen.LinkOrderGen.PEl.link (concK L key))) (.link k))
        = .ok s' ∧
      (s'.1.map absP, s'.2.1) = match dget (absIss iss) k.1.uuid with
        | none => (s.1.map absP, s.2.1)
        | some deps => readd (absOrder orders h) (LinkOrder.iterSet (ordsM k.1.uuid) deps) (s.1.map absP, s.2.1) := by
  induction iss generalizing s with
  | nil => exact ⟨s, rfl, rfl⟩
  | cons e r ih =>
    rw [List.map_cons, List.nodup_cons] at hn
    have hr : ∀ e' ∈ r, ∀ d ∈ e'.2, IsCL L d := fun e' he' => hi e' (by simp [he'])
    by_cases he : k.1.uuid = e.1
    · have hbeq : (k.1.uuid == e.1) = true := by simp [he]
      obtain ⟨hm, hcl⟩ := iterSet_map L (ordsM e.1) e.2 (hi e (by simp))
      obtain ⟨s1, e1, e2⟩ := dep_loop L orders h _ hcl s
      refine ⟨s1, ?_, ?_⟩
      · simp only [List.forIn_cons, midB, PEl.linkUuid, Except.bind, bind, hbeq, if_true, e1]
        exact mid_loop_notin orders h _ k r (by rw [he]; exact hn.1) s1
      · rw [e2, hm]
        simp [absIss, dget, he]
    · have hbeq : (k.1.uuid == e.1) = false := by simp [he]
      obtain ⟨s1, e1, e2⟩ := ih hn.2 hr s
      refine ⟨s1, ?_, ?_⟩
      · simp only [List.forIn_cons, midB, PEl.linkUuid, Except.bind, bind, hbeq, Bool.false_eq_true, if_false]
        exact e1
      · rw [e2]
        have : ¬ e.1 = k.1.uuid := fun x => he x.symm
        simp [absIss, dget, this]

/-! #### `issue_collector[k].add(p)` -/

/-- the invariant of the issue collector: a dict (pairwise different keys) of sets of canonical link entries -/
def IssInv (L : Links) (iss : KDict Nat (List GEl)) : Prop :=
  (iss.map (·.1)).Nodup ∧ ∀ e ∈ iss, ∀ d ∈ e.2, IsCL L d

theorem keys_absIss (iss : KDict Nat (List GEl)) : dkeys (absIss iss) = iss.map (·.1) := by
  simp [dkeys, absIss, List.map_map, Function.comp_def]

theorem addAt_abs (L : Links) (iss : KDict Nat (List GEl)) (k : Nat) (p : GEl) (hp : IsCL L p) (hi : IssInv L iss) :
    absIss (KDict.addAt iss k p) = issueAdd (absIss iss) k (pkey p) ∧ IssInv L (KDict.addAt iss k p) := by
  unfold KDict.addAt issueAdd
  rw [keys_absIss]
  by_cases hk : k ∈ iss.map (·.1)
  · have hk' : k ∈ KDict.keys iss := hk
    rw [if_pos hk', if_pos hk]
    refine ⟨?_, ?_, ?_⟩
    · simp only [absIss, dmodify, List.map_map]
      apply List.map_congr_left
      intro e he
      simp only [Function.comp_def]
      by_cases hek : e.1 = k
      · simp only [hek, if_true]
        have := mem_map_pkey hp (hi.2 e he)
        by_cases hm : p ∈ e.2
        · rw [if_pos hm, if_pos (this.mpr hm)]
        · rw [if_neg hm, if_neg (fun x => hm (this.mp x))]; simp
      · simp only [hek, if_false]
    · have : (iss.map (fun e => if e.1 = k then (e.1, if p ∈ e.2 then e.2 else e.2 ++ [p]) else e)).map (·.1)
          = iss.map (·.1) := by
        rw [List.map_map]; apply List.map_congr_left; intro e _; simp only [Function.comp_def]; split <;> rfl
      rw [this]; exact hi.1
    · intro e' he' d hd
      obtain ⟨e, he, rfl⟩ := List.mem_map.mp he'
      by_cases hek : e.1 = k
      · simp only [hek, if_true] at hd
        by_cases hm : p ∈ e.2
        · rw [if_pos hm] at hd; exact hi.2 e he d hd
        · rw [if_neg hm] at hd
          rcases List.mem_append.mp hd with hd | hd
          · exact hi.2 e he d hd
          · simp at hd; rw [hd]; exact hp
      · simp only [hek, if_false] at hd; exact hi.2 e he d hd
  · have hk' : k ∉ KDict.keys iss := hk
    rw [if_neg hk', if_neg hk]
    refine ⟨by simp [absIss], ?_, ?_⟩
    · rw [List.map_append, List.nodup_append]
      refine ⟨hi.1, by simp, ?_⟩
      intro a ha b hb
      simp at hb; rw [hb]; intro e; exact hk (e ▸ ha)
    · intro e he d hd
      rcases List.mem_append.mp he with he | he
      · exact hi.2 e he d hd
      · simp at he; rw [he] at hd; simp at hd; rw [hd]; exact hp


/-! #### one element of the planned queue, the whole loop -/

/-- the loop state as the model holds it -/
def absSt (s : OQSt) : OQ := { out := s.1.map absP, added := s.2.1, issues := absIss s.2.2 }

theorem outer_step (L : Links) (orders : KDict Nat Nat) (h : SHeap) (ordsM : Nat → List Key) (x : Nat × GEl)
    (hx : CanonP L x.2) (s : OQSt) (hi : IssInv L s.2.2) :
    ∃ s', outerB orders h (fun k => (ordsM k).map (fun key => Gen.LinkOrderGen.PEl.link (concK L key))) x s
        = .ok (.yield s') ∧ IssInv L s'.2.2 ∧
      absSt s' = oqStep (absOrder orders h) ordsM (absSt s) (absP x.2) := by
  obtain ⟨n, p⟩ := x
  cases p with
  | fg i =>
    refine ⟨(s.1 ++ [.fg i], s.2.1, s.2.2), rfl, hi, ?_⟩
    simp [absSt, oqStep, absP]
  | link k =>
    have hk : CanonK L k := hx
    have hcl : IsCL L (.link k) := ⟨k, rfl, hk⟩
    simp only [outerB, Gen.LinkOrderGen.PEl.isLink, if_true, Gen.LinkOrderGen.PEl.linkUuid, Except.bind, srch1_spec, absP, oqStep, absSt]
    have hu : (absK k).link = k.1.uuid := rfl
    rw [hu]
    cases hf : firstMissing (absOrder orders h) s.2.1 k.1.uuid with
    | some k' =>
      obtain ⟨ea, ei⟩ := addAt_abs L s.2.2 k' (.link k) hcl hi
      refine ⟨(s.1, s.2.1, KDict.addAt s.2.2 k' (.link k)), by simp, ei, ?_⟩
      simp only [ea]; rfl
    | none =>
      obtain ⟨s1, e1, e2⟩ := mid_loop L orders h ordsM k s.2.2 hi.1 hi.2
        (s.1 ++ [.link k], PSet.add s.2.1 k.1.uuid, false)
      refine ⟨(s1.1, s1.2.1, s.2.2), ?_, hi, ?_⟩
      · simp only [Bool.false_eq_true, if_false, e1]
      · have e2a := congrArg Prod.fst e2
        have e2b := congrArg Prod.snd e2
        simp only at e2a e2b
        simp only [e2a, e2b]
        cases hg : dget (absIss s.2.2) k.1.uuid with
        | none => simp [absP, add_eq]
        | some deps => simp [absP, add_eq]


theorem outer_loop (L : Links) (orders : KDict Nat Nat) (h : SHeap) (ordsM : Nat → List Key) (l : List (Nat × GEl))
    (hl : ∀ x ∈ l, CanonP L x.2) (s : OQSt) (hi : IssInv L s.2.2) :
    ∃ s', forIn l s (outerB orders h (fun k => (ordsM k).map (fun key => Gen.LinkOrderGen.PEl.link (concK L key))))
        = .ok s' ∧
      absSt s' = (l.map (fun x => absP x.2)).foldl (oqStep (absOrder orders h) ordsM) (absSt s) := by
  induction l generalizing s with
  | nil => exact ⟨s, rfl, rfl⟩
  | cons x r ih =>
    obtain ⟨s1, e1, i1, a1⟩ := outer_step L orders h ordsM x (hl x (by simp)) s hi
    obtain ⟨s2, e2, a2⟩ := ih (fun y hy => hl y (by simp [hy])) s1 i1
    refine ⟨s2, ?_, ?_⟩
    · simp only [List.forIn_cons, e1, bind, Except.bind]
      exact e2
    · rw [a2, a1]; rfl

theorem enumerate_map_snd {α : Type} (l : List α) : (PyList.enumerate l).map (·.2) = l := by
  unfold PyList.enumerate
  exact List.map_snd_zip (by simp)

end Queue
open Queue

/-! ## main theorems -/

/-- `resolve_trekked_links` against `resolveTrekked`; the model's jointype view of a link uuid is read off the link table
(for a canonical key `(L.link k.1.uuid).jointype = k.1.jointype`) -/
theorem resolve_bridge (L : Links) (self : Rcf.RcfSelf) (trekked : List PKey) (cfws : PSet)
    (hc : ∀ k ∈ trekked, CanonK L k) :
    mapV (Rcf.resolve_trekked_links self trekked cfws) (fun r => (r.1, r.2.to_invert_trekker_collection.map absK))
      = liftM (resolveTrekked (fun n => jtOf (L.link n).jointype) (trekked.map absK) cfws
          (self.to_invert_trekker_collection.map absK)) := by
  rw [resolve_unfold]
  have key := resolve_loop L cfws trekked hc self []
  unfold resolveTrekked
  revert key
  cases forIn trekked (self, ([] : PSet)) (resBody cfws) with
  | error e =>
    intro key
    cases hm : resolveLoop (fun n => jtOf (L.link n).jointype) cfws (trekked.map absK)
        ([], self.to_invert_trekker_collection.map absK) with
    | error e' => rw [hm] at key; simpa [Except.bind, mapV, liftM] using key
    | ok v => rw [hm] at key; simp [mapV, liftM] at key
  | ok v =>
    intro key
    cases hm : resolveLoop (fun n => jtOf (L.link n).jointype) cfws (trekked.map absK)
        ([], self.to_invert_trekker_collection.map absK) with
    | error e' => rw [hm] at key; simp [mapV, liftM] at key
    | ok w =>
      rw [hm] at key
      simp only [mapV_ok, liftM_ok, Except.ok.injEq] at key
      subst key
      simp only [Except.bind, PSet.truthy]
      cases hv : v.2 with
      | nil => simp; rfl
      | cons a b => simp

/-- `order_queue_by_trekker_order` against the model's `orderQueue` (no `WF` needed): the planned queue holds canonical link entries,
the iteration orders of the sets of `issue_collector` are given as lists of model keys -/
theorem order_queue_bridge (L : Links) (q : List Gen.LinkOrderGen.PEl) (s : Trk.TrekkerSelf) (h : SHeap) (ordsM : Nat → List Key)
    (hq : ∀ p ∈ q, CanonP L p) :
    mapV (Rcf.order_queue_by_trekker_order q s h
        (fun k => (ordsM k).map (fun key => Gen.LinkOrderGen.PEl.link (concK L key)))) (·.map absP)
      = .ok (orderQueue (absOrder s.order h) ordsM (q.map absP)) := by
  rw [order_queue_unfold]
  have hl : ∀ x ∈ PyList.enumerate q, CanonP L x.2 := by
    intro x hx
    apply hq
    rw [← enumerate_map_snd q]
    exact List.mem_map_of_mem hx
  obtain ⟨s', e1, a1⟩ := outer_loop L s.order h ordsM (PyList.enumerate q) hl ([], [], [])
    ⟨List.nodup_nil, by simp⟩
  rw [e1]
  simp only [Except.bind, mapV_ok, orderQueue]
  have hm : (PyList.enumerate q).map (fun x => absP x.2) = q.map absP := by
    conv => rhs; rw [← enumerate_map_snd q]
    rw [List.map_map]; rfl
  rw [hm] at a1
  have : absSt ([], [], []) = ({} : OQ) := rfl
  rw [this] at a1
  rw [← a1]
  rfl

/-- the three nested loops of `add_links_to_queue` on `ordered = get_ordered_data()` (handles into the heap `h`) -/
def addLoopPy (ordered : KDict PKey Nat) (h : SHeap) (queue : List Nat) : List Gen.LinkOrderGen.QItem :=
  (queue.foldl (addOuter ordered h) ([], [])).1

/-- the generated `add_links_to_queue` is `get_ordered_data` followed by the pure loop `addLoopPy` -/
theorem add_links_unfold (self : RL.RLSelf) (h : SHeap) :
    RL.add_links_to_queue self h =
      (Trk.get_ordered_data self.link_trekker h) >>= fun r =>
        .ok (addLoopPy r.1 r.2.1 self.queue, r.2.1, { self with link_trekker := r.2.2 }) := by
  rw [add_links_unfold0]
  show _ = Except.bind _ _
  congr 1
  funext v
  rw [PyRt.forIn_yield_spec self.queue (addOuterB v.1 v.2.1) (fun u st => addOuter v.1 v.2.1 st u)
    (fun a s => addOuterB_eq v.1 v.2.1 a s)]
  rfl

/-- the loop of the translation against the model's, when the sets of the heap are duplicate-free and the keys of `ordered` canonical -/
theorem add_links_loop (L : Links) (ordered : KDict PKey Nat) (h : SHeap) (queue : List Nat)
    (hn : ∀ r, (SHeap.get h r).Nodup) (hc : ∀ e ∈ ordered, CanonK L e.1) :
    (addLoopPy ordered h queue).map absQ = addLinks (absView ordered h) queue := by
  unfold addLoopPy addLinks
  exact addOuter_foldl L h hn ordered hc queue ([], []) (by simp)

namespace Queue

/-! ## closed examples (non-vacuity) -/

/-- a link table: link `n` has jointype `n % 7` (`2` = RIGHT, `6` = not a member of `JoinType`) -/
def exL : Links := ⟨fun n => ⟨n, n % 7, 0, 0⟩, fun _ => rfl⟩

def exK (n l r : Nat) : PKey := (exL.link n, l, r)

example : CanonK exL (exK 2 10 11) := rfl

example : Rcf.resolve_trekked_links ⟨[]⟩ [exK 2 10 11, exK 1 12 10] [10]
    = .ok ([11, 10], ⟨[exK 2 10 11, exK 1 12 10]⟩) := by decide

example : resolveTrekked (fun n => jtOf (exL.link n).jointype) [absK (exK 2 10 11), absK (exK 1 12 10)] [10] []
    = .ok ([11, 10], [absK (exK 2 10 11), absK (exK 1 12 10)]) := by decide

example : Rcf.resolve_trekked_links ⟨[]⟩ [exK 6 10 11] [10]
    = .error (.valueError "This jointype is not implemented: {}. Possible types are: {}") := by decide

/-- `order = {2: {1}}`: link 1 waits for link 2 -/
def exS : Trk.TrekkerSelf := { data := [], data_ordered := [], order := [(2, 0)] }

example : Rcf.order_queue_by_trekker_order [.link (exK 1 10 11), .fg 5, .link (exK 2 11 12)] exS [[1]]
      (fun _ => [])
    = .ok [.fg 5, .link (exK 2 11 12), .link (exK 1 10 11)] := by decide

example : orderQueue (absOrder exS.order [[1]]) (fun _ => []) [.link (absK (exK 1 10 11)), .fg 5, .link (absK (exK 2 11 12))]
    = [.fg 5, .link (absK (exK 2 11 12)), .link (absK (exK 1 10 11))] := by decide

example : addLoopPy [(exK 1 10 11, 0), (exK 2 11 12, 1)] [[7], [7, 8]] [8, 7]
    = [.link (exK 2 11 12), .uuid 8, .link (exK 1 10 11), .uuid 7] := by decide

/-- the hypothesis "the sets of the heap are duplicate-free" of `add_links_loop` is needed: on a "set" that lists an element twice the
translated loop `for link_id in link_uuids: if uuid == link_id` fires twice (the model reads it as a membership test) - not a state
of the real code, where a `set` never repeats an element -/
theorem add_links_loop_needs_nodup :
    (addLoopPy [(exK 1 10 11, 0)] [[7, 7]] [7]).map absQ ≠ addLinks (absView [(exK 1 10 11, 0)] [[7, 7]]) [7] := by decide

/-- the hypothesis "the keys are canonical" of `add_links_loop` is needed: two different link records with one uuid are two keys for the
translation (`already_joined` holds records) and one key for the model -/
theorem add_links_loop_needs_canon :
    (addLoopPy [((⟨1, 0, 0, 0⟩, 10, 11), 0), ((⟨1, 3, 0, 0⟩, 10, 11), 1)] [[7], [7]] [7]).map absQ
      ≠ addLinks (absView [((⟨1, 0, 0, 0⟩, 10, 11), 0), ((⟨1, 3, 0, 0⟩, 10, 11), 1)] [[7], [7]]) [7] := by decide

end Queue

end LinkGen
