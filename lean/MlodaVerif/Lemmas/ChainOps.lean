import MlodaVerif.Lemmas.ChainParse
/-! Per-operation facts: for every vocabulary operation `op` of a modelled group, its rendered suffix is matched by the
group's own pattern, is read back to exactly `op.params`, contains no `&`, no `__` and does not start with `_`.
Finite vocabularies are discharged by `decide` over the whole generated table; the window size is an arbitrary positive
number and handled by the general lemmas on `Nat.toDigits`. -/
open Gen.Chain

namespace Chain

structure SufFacts (g : Group) (op : Op) : Prop where
  sufok : sufOk op.suffix = true
  matched : ∃ caps, matchToks g.toks op.suffix = some caps ∧ (opCfg g.toks caps op.suffix).isSome = true
  noAmp : ∀ c ∈ op.suffix, c ≠ '&'
  params : ∀ s : Str, s ≠ [] → extractParams g emptyOpts (s ++ chainSep ++ op.suffix) = .ok op.params

theorem isChained_rendered (s suf : Str) : isChained (s ++ chainSep ++ suf) = true := hasInfix_mid chainSep s suf

theorem contains_iff_mem {l : List Str} {t : Str} : l.contains t = true ↔ t ∈ l := by simp

/-! ### single-parameter groups : `<t><literal>` -/

/-- closed facts about `t ++ lit` for every `t` of a vocabulary -/
def closed1 (g : Group) (vocab : String) (lit : String) (strip : Bool) : Bool :=
  (vocabOf g vocab).all fun t =>
    let suf := t ++ lit.toList
    sufOk suf && (matchToks g.toks suf == some [some t]) && suf.all (· != '&') &&
      (!strip || stripChars ['_'] (removeAll lit.toList t) == t)

theorem closed1_elim {g : Group} {vocab lit : String} {strip : Bool} (h : closed1 g vocab lit strip = true) {t : Str}
    (ht : (vocabOf g vocab).contains t = true) :
    sufOk (t ++ lit.toList) = true ∧ matchToks g.toks (t ++ lit.toList) = some [some t] ∧ (∀ c ∈ t ++ lit.toList, c ≠ '&') ∧
      (strip = true → stripChars ['_'] (removeAll lit.toList t) = t) := by
  simp only [closed1, List.all_eq_true] at h
  have := h t (contains_iff_mem.mp ht)
  simp only [Bool.and_eq_true, beq_iff_eq, List.all_eq_true, bne_iff_ne, Bool.or_eq_true, Bool.not_eq_true'] at this
  obtain ⟨⟨⟨h1, h2⟩, h3⟩, h4⟩ := this
  refine ⟨h1, h2, h3, ?_⟩
  intro hs; rcases h4 with h4 | h4
  · simp [hs] at h4
  · exact h4

theorem aggr_closed : closed1 gAggregatedFeatureGroup "AGGREGATION_TYPES" "_aggr" false = true := by decide
theorem miss_closed : closed1 gMissingValueFeatureGroup "IMPUTATION_METHODS" "_imputed" false = true := by decide
theorem cent_closed : closed1 gNodeCentralityFeatureGroup "CENTRALITY_TYPES" "_centrality" false = true := by decide
theorem geo_closed : closed1 gGeoDistanceFeatureGroup "DISTANCE_TYPES" "_distance" true = true := by decide
theorem scal_closed : closed1 gScalingFeatureGroup "SUPPORTED_SCALERS" "_scaled" true = true := by decide

/-! unfolding `extractParams` at a concrete table entry (the `if g.name == …` chain evaluates) -/

theorem extractParams_aggr (o : Opts) (name : Str) : extractParams gAggregatedFeatureGroup o name =
    (do
      let r ← parseFeatureName chainSep [gAggregatedFeatureGroup.toks] name
      match r with
      | some (some t, _) => return [.s t]
      | _ => let p ← optStrParam o "aggregation_type" "no-aggregation-type"; return [p]) := by rfl

theorem extractParams_cent (o : Opts) (name : Str) : extractParams gNodeCentralityFeatureGroup o name =
    (do
      let r ← parseFeatureName chainSep [gNodeCentralityFeatureGroup.toks] name
      match r with
      | some (some t, _) =>
        if (vocabOf gNodeCentralityFeatureGroup "CENTRALITY_TYPES").contains t then return [.s t]
        else let p ← optStrParam o "centrality_type" "no-centrality-type"; return [p]
      | _ => let p ← optStrParam o "centrality_type" "no-centrality-type"; return [p]) := by rfl

theorem extractParams_miss (o : Opts) (name : Str) : extractParams gMissingValueFeatureGroup o name =
    (do
    if isChained name then
      let r ← parseFeatureName chainSep [gMissingValueFeatureGroup.toks] name
      match r with
      | some (some m, _) =>
        if (vocabOf gMissingValueFeatureGroup "IMPUTATION_METHODS").contains m then return [.s m] else throw (Err.value "unsupported-imputation-method")
      | _ => throw (Err.value "invalid-missing-value-name")
    else
      match o.get "imputation_method".toList with
      | .none => throw (Err.value "no-imputation-method")
      | .str m => if (vocabOf gMissingValueFeatureGroup "IMPUTATION_METHODS").contains m then return [.s m] else throw (Err.value "unsupported-imputation-method")
      | v => if v.hashable then throw (Err.value "unsupported-imputation-method") else throw (Err.type "unhashable")) := by rfl

theorem extractParams_geo (o : Opts) (name : Str) : extractParams gGeoDistanceFeatureGroup o name =
    typeFromNameOrOption gGeoDistanceFeatureGroup o name "_distance" "DISTANCE_TYPES" "distance_type" := by rfl

theorem extractParams_scal (o : Opts) (name : Str) : extractParams gScalingFeatureGroup o name =
    typeFromNameOrOption gScalingFeatureGroup o name "_scaled" "SUPPORTED_SCALERS" "scaler_type" := by rfl

theorem typeFromName_rendered (g : Group) (o : Opts) (s suf t : Str) (lit vocab key : String)
    (hp : parseFeatureName chainSep [g.toks] (s ++ chainSep ++ suf) = .ok (some (some t, s)))
    (hstrip : stripChars ['_'] (removeAll lit.toList t) = t) (hv : (vocabOf g vocab).contains t = true) :
    typeFromNameOrOption g o (s ++ chainSep ++ suf) lit vocab key = .ok [.s t] := by
  unfold typeFromNameOrOption
  rw [isChained_rendered]
  simp only [if_true]
  rw [hp]
  simp only [bind, Except.bind, hstrip, hv, if_true]
  rfl

theorem sufFacts_aggr (t : Str) (ht : (vocabOf gAggregatedFeatureGroup "AGGREGATION_TYPES").contains t = true) :
    SufFacts gAggregatedFeatureGroup ⟨0, [.s t]⟩ := by
  have hsuf : (Op.suffix ⟨0, [.s t]⟩) = t ++ "_aggr".toList := by
    simp [Op.suffix, groupAt, groups, gAggregatedFeatureGroup, renderToks, hasGroups, Param.render]
  obtain ⟨h1, h2, h3, _⟩ := closed1_elim aggr_closed ht
  have hcfg : opCfg gAggregatedFeatureGroup.toks [some t] (t ++ "_aggr".toList) = some t := by
    simp [opCfg, hasGroups, gAggregatedFeatureGroup]
  refine ⟨by rw [hsuf]; exact h1, ⟨[some t], by rw [hsuf]; exact h2, by rw [hsuf, hcfg]; rfl⟩, by rw [hsuf]; exact h3, ?_⟩
  intro s hs
  rw [hsuf, extractParams_aggr, parseFeatureName_append gAggregatedFeatureGroup.toks s _ _ hs h1 h2, hcfg]
  rfl

theorem sufFacts_cent (t : Str) (ht : (vocabOf gNodeCentralityFeatureGroup "CENTRALITY_TYPES").contains t = true) :
    SufFacts gNodeCentralityFeatureGroup ⟨7, [.s t]⟩ := by
  have hsuf : (Op.suffix ⟨7, [.s t]⟩) = t ++ "_centrality".toList := by
    simp [Op.suffix, groupAt, groups, gNodeCentralityFeatureGroup, renderToks, hasGroups, Param.render]
  obtain ⟨h1, h2, h3, _⟩ := closed1_elim cent_closed ht
  have hcfg : opCfg gNodeCentralityFeatureGroup.toks [some t] (t ++ "_centrality".toList) = some t := by
    simp [opCfg, hasGroups, gNodeCentralityFeatureGroup]
  refine ⟨by rw [hsuf]; exact h1, ⟨[some t], by rw [hsuf]; exact h2, by rw [hsuf, hcfg]; rfl⟩, by rw [hsuf]; exact h3, ?_⟩
  intro s hs
  rw [hsuf, extractParams_cent, parseFeatureName_append gNodeCentralityFeatureGroup.toks s _ _ hs h1 h2, hcfg]
  simp only [bind, Except.bind, ht, if_true]
  rfl

theorem sufFacts_miss (t : Str) (ht : (vocabOf gMissingValueFeatureGroup "IMPUTATION_METHODS").contains t = true) :
    SufFacts gMissingValueFeatureGroup ⟨6, [.s t]⟩ := by
  have hsuf : (Op.suffix ⟨6, [.s t]⟩) = t ++ "_imputed".toList := by
    simp [Op.suffix, groupAt, groups, gMissingValueFeatureGroup, renderToks, hasGroups, Param.render]
  obtain ⟨h1, h2, h3, _⟩ := closed1_elim miss_closed ht
  have hcfg : opCfg gMissingValueFeatureGroup.toks [some t] (t ++ "_imputed".toList) = some t := by
    simp [opCfg, hasGroups, gMissingValueFeatureGroup]
  refine ⟨by rw [hsuf]; exact h1, ⟨[some t], by rw [hsuf]; exact h2, by rw [hsuf, hcfg]; rfl⟩, by rw [hsuf]; exact h3, ?_⟩
  intro s hs
  rw [hsuf, extractParams_miss, isChained_rendered]
  simp only [if_true]
  rw [parseFeatureName_append gMissingValueFeatureGroup.toks s _ _ hs h1 h2, hcfg]
  simp only [bind, Except.bind, ht, if_true]
  rfl

theorem sufFacts_geo (t : Str) (ht : (vocabOf gGeoDistanceFeatureGroup "DISTANCE_TYPES").contains t = true) :
    SufFacts gGeoDistanceFeatureGroup ⟨5, [.s t]⟩ := by
  have hsuf : (Op.suffix ⟨5, [.s t]⟩) = t ++ "_distance".toList := by
    simp [Op.suffix, groupAt, groups, gGeoDistanceFeatureGroup, renderToks, hasGroups, Param.render]
  obtain ⟨h1, h2, h3, h4⟩ := closed1_elim geo_closed ht
  have hcfg : opCfg gGeoDistanceFeatureGroup.toks [some t] (t ++ "_distance".toList) = some t := by
    simp [opCfg, hasGroups, gGeoDistanceFeatureGroup]
  refine ⟨by rw [hsuf]; exact h1, ⟨[some t], by rw [hsuf]; exact h2, by rw [hsuf, hcfg]; rfl⟩, by rw [hsuf]; exact h3, ?_⟩
  intro s hs
  rw [hsuf, extractParams_geo]
  apply typeFromName_rendered _ _ _ _ t _ _ _ _ (h4 rfl) ht
  rw [parseFeatureName_append gGeoDistanceFeatureGroup.toks s _ _ hs h1 h2, hcfg]

theorem sufFacts_scal (t : Str) (ht : (vocabOf gScalingFeatureGroup "SUPPORTED_SCALERS").contains t = true) :
    SufFacts gScalingFeatureGroup ⟨8, [.s t]⟩ := by
  have hsuf : (Op.suffix ⟨8, [.s t]⟩) = t ++ "_scaled".toList := by
    simp [Op.suffix, groupAt, groups, gScalingFeatureGroup, renderToks, hasGroups, Param.render]
  obtain ⟨h1, h2, h3, h4⟩ := closed1_elim scal_closed ht
  have hcfg : opCfg gScalingFeatureGroup.toks [some t] (t ++ "_scaled".toList) = some t := by
    simp [opCfg, hasGroups, gScalingFeatureGroup]
  refine ⟨by rw [hsuf]; exact h1, ⟨[some t], by rw [hsuf]; exact h2, by rw [hsuf, hcfg]; rfl⟩, by rw [hsuf]; exact h3, ?_⟩
  intro s hs
  rw [hsuf, extractParams_scal]
  apply typeFromName_rendered _ _ _ _ t _ _ _ _ (h4 rfl) ht
  rw [parseFeatureName_append gScalingFeatureGroup.toks s _ _ hs h1 h2, hcfg]

/-! ### text cleaning : the constant suffix `cleaned_text` -/

theorem extractParams_text (o : Opts) (name : Str) : extractParams gTextCleaningFeatureGroup o name =
    (let ops := o.get "cleaning_operations".toList
     let asList : PV → Except Err (List Param) := fun v =>
       match v with
       | .tuple l | .list l | .fset l | .set l =>
         l.mapM fun e => match e with | .str s => .ok (Param.s s) | _ => .error (.unmodelled "non-str-operation")
       | .str s => .ok (s.map fun c => Param.s [c])
       | _ => .error (.unmodelled "operations-type")
     if isChained name then (if ops.truthy then asList ops else .ok [])
     else if ops.isNone then .error (.value "no-operations") else asList ops) := by rfl

theorem extractParams_window (o : Opts) (name : Str) (f u : Str) (n : Nat)
    (h : parseTimeWindowPrefix gTimeWindowFeatureGroup name = .ok (f, n, u)) :
    extractParams gTimeWindowFeatureGroup o name = .ok [.s f, .n n, .s u] := by
  have : extractParams gTimeWindowFeatureGroup o name =
      (match parseTimeWindowPrefix gTimeWindowFeatureGroup name with
       | .ok (f, n, u) => .ok [.s f, .n n, .s u]
       | .error _ => extractParams gTimeWindowFeatureGroup o name) := by
    rw [h]
    unfold extractParams
    simp only [show (gTimeWindowFeatureGroup.name == "AggregatedFeatureGroup".toList) = false from by decide,
      show (gTimeWindowFeatureGroup.name == "MissingValueFeatureGroup".toList) = false from by decide,
      show (gTimeWindowFeatureGroup.name == "TimeWindowFeatureGroup".toList) = true from by decide, h]
    rfl
  rw [this, h]

theorem sufFacts_text : SufFacts gTextCleaningFeatureGroup ⟨10, []⟩ := by
  have hsuf : (Op.suffix ⟨10, []⟩) = "cleaned_text".toList := by decide
  have h1 : sufOk "cleaned_text".toList = true := by decide
  have h2 : matchToks gTextCleaningFeatureGroup.toks "cleaned_text".toList = some [] := by decide
  refine ⟨by rw [hsuf]; exact h1, ⟨[], by rw [hsuf]; exact h2, by decide⟩, by rw [hsuf]; decide, ?_⟩
  intro s hs
  rw [hsuf, extractParams_text, isChained_rendered]
  rfl

/-! ### time windows : `<f>_<n>_<u>_window` for every positive `n` -/

def wordsOk (l : List Str) : Bool := l.all fun w => !w.isEmpty && w.all fun c => isWordChar c && c != '_' && c != '&'

theorem window_words : wordsOk (vocabOf gTimeWindowFeatureGroup "WINDOW_FUNCTIONS") = true ∧
    wordsOk (vocabOf gTimeWindowFeatureGroup "TIME_UNITS") = true := by decide

theorem wordsOk_elim {l : List Str} (h : wordsOk l = true) {w : Str} (hw : l.contains w = true) :
    w ≠ [] ∧ (∀ c ∈ w, isWordChar c = true) ∧ (∀ c ∈ w, c ≠ '_') ∧ (∀ c ∈ w, c ≠ '&') := by
  simp only [wordsOk, List.all_eq_true] at h
  have := h w (contains_iff_mem.mp hw)
  simp only [Bool.and_eq_true, Bool.not_eq_true', List.all_eq_true, bne_iff_ne] at this
  refine ⟨?_, fun c hc => (this.2 c hc).1.1, fun c hc => (this.2 c hc).1.2, fun c hc => (this.2 c hc).2⟩
  intro hnil; subst hnil; simp at this

theorem digit_ne_amp {c : Char} (h : c.isDigit = true) : c ≠ '&' := by
  intro hc; subst hc; simp [Char.isDigit] at h

theorem digit_ne_us {c : Char} (h : c.isDigit = true) : c ≠ '_' := by
  intro hc; subst hc; simp [Char.isDigit] at h

theorem digit_isWord {c : Char} (h : c.isDigit = true) : isWordChar c = true := by
  simp [isWordChar, Char.isAlphanum, h]

def winSuffix (f ds u : Str) : Str := f ++ ('_' :: (ds ++ ('_' :: (u ++ "_window".toList))))

theorem tryLens_cap_head (f : Str → Option Caps) (s : Str) (k : Nat) (c : Caps) (h : tryLens f true s k = some c) :
    ∃ w c', c = some w :: c' := by
  induction k with
  | zero => simp [tryLens] at h
  | succ k ih =>
    unfold tryLens at h
    split at h
    · simp only [if_true, Option.some.injEq] at h; exact ⟨_, _, h.symm⟩
    · exact ih h

theorem hasInfix_sep2_word_us (w rest : Str) (hw : ∀ c ∈ w, c ≠ '_') (hne : w ≠ []) :
    hasInfix sep2 ('_' :: (w ++ rest)) = hasInfix sep2 rest := by
  rw [hasInfix_sep2_us_cons, hasInfix_sep2_append_of_no_us w rest hw]
  cases w with
  | nil => exact absurd rfl hne
  | cons c w =>
    have : c ≠ '_' := hw c (by simp)
    simp [this]

theorem sufFacts_window (f u : Str) (n : Int) (hn : 0 < n)
    (hf : (vocabOf gTimeWindowFeatureGroup "WINDOW_FUNCTIONS").contains f = true)
    (hu : (vocabOf gTimeWindowFeatureGroup "TIME_UNITS").contains u = true) :
    SufFacts gTimeWindowFeatureGroup ⟨11, [.s f, .n n, .s u]⟩ := by
  obtain ⟨hfne, hfw, hfu, hfa⟩ := wordsOk_elim window_words.1 hf
  obtain ⟨hune, huw, huu, hua⟩ := wordsOk_elim window_words.2 hu
  let ds := Nat.toDigits 10 n.toNat
  have hdne : ds ≠ [] := Nat.toDigits_ne_nil
  have hdd : ∀ c ∈ ds, c.isDigit = true := fun c hc => Nat.isDigit_of_mem_toDigits (by decide) (by decide) hc
  have hsuf : (Op.suffix ⟨11, [.s f, .n n, .s u]⟩) = winSuffix f ds u := by
    simp [Op.suffix, groupAt, groups, gTimeWindowFeatureGroup, renderToks, hasGroups, Param.render, winSuffix, ds]
  -- no `__`, does not start with `_`
  have hhead : (winSuffix f ds u).head? ≠ some '_' := by
    cases f with
    | nil => exact absurd rfl hfne
    | cons c f' =>
      have : c ≠ '_' := hfu c (by simp)
      simp [winSuffix, this]
  have hinf : hasInfix sep2 (winSuffix f ds u) = false := by
    unfold winSuffix
    rw [hasInfix_sep2_append_of_no_us f _ hfu, hasInfix_sep2_word_us ds _ (fun c hc => digit_ne_us (hdd c hc)) hdne,
      hasInfix_sep2_word_us u _ huu hune]
    decide
  have hok : sufOk (winSuffix f ds u) = true := by
    simp only [sufOk, Bool.and_eq_true, Bool.not_eq_true', hinf, and_true]
    cases hh : (winSuffix f ds u).head? == some '_' with
    | false => rfl
    | true => exact absurd (by simpa using hh) hhead
  -- the pattern matches
  have hsome : (matchToks gTimeWindowFeatureGroup.toks (winSuffix f ds u)).isSome = true := by
    simp only [gTimeWindowFeatureGroup, winSuffix]
    apply matchToks_word_isSome f _ _ _ hfne hfw
    rw [show ('_' :: (ds ++ '_' :: (u ++ "_window".toList))) = ['_'] ++ (ds ++ '_' :: (u ++ "_window".toList)) from rfl,
      matchToks_lit_append]
    simp only [Option.isSome_map]
    apply matchToks_digits_isSome ds _ _ _ hdne hdd
    rw [show ('_' :: (u ++ "_window".toList)) = ['_'] ++ (u ++ "_window".toList) from rfl, matchToks_lit_append]
    simp only [Option.isSome_map]
    apply matchToks_word_isSome u _ _ _ hune huw
    decide
  obtain ⟨caps, hcaps⟩ := Option.isSome_iff_exists.mp hsome
  have hcfg : (opCfg gTimeWindowFeatureGroup.toks caps (winSuffix f ds u)).isSome = true := by
    have hc' := hcaps
    simp only [gTimeWindowFeatureGroup, matchToks] at hc'
    obtain ⟨w, c', hwc⟩ := tryLens_cap_head _ _ _ _ hc'
    subst hwc
    simp [opCfg, hasGroups, gTimeWindowFeatureGroup]
  have hnoamp : ∀ c ∈ winSuffix f ds u, c ≠ '&' := by
    intro c hc
    simp only [winSuffix, List.mem_append, List.mem_cons] at hc
    rcases hc with hc | hc | hc | hc | hc | hc
    · exact hfa c hc
    · subst hc; decide
    · exact digit_ne_amp (hdd c hc)
    · subst hc; decide
    · exact hua c hc
    · revert hc; revert c; decide
  refine ⟨by rw [hsuf]; exact hok, ⟨caps, by rw [hsuf]; exact hcaps, by rw [hsuf]; exact hcfg⟩, by rw [hsuf]; exact hnoamp, ?_⟩
  intro s hs
  rw [hsuf]
  -- `parse_time_window_prefix` reads the three parts back
  have hrs : rsplitOnce sep2 (s ++ chainSep ++ winSuffix f ds u) = some (s, winSuffix f ds u) := by
    rw [chainSep_eq]; exact rsplitOnce_append s _ hok
  have hsplit : splitOn '_' (winSuffix f ds u) = [f, ds, u, "window".toList] := by
    unfold winSuffix
    rw [show "_window".toList = '_' :: "window".toList from rfl]
    rw [splitOn_append '_' f _ hfu, splitOn_append '_' ds _ (fun c hc => digit_ne_us (hdd c hc)), splitOn_append '_' u _ huu]
    rfl
  have hdig : isAllDigits ds = true := by
    simp only [isAllDigits, Bool.and_eq_true, Bool.not_eq_true', List.all_eq_true]
    exact ⟨by cases hd : ds with | nil => exact absurd hd hdne | cons _ _ => rfl, hdd⟩
  have hval : Nat.ofDigitChars 10 ds 0 = n.toNat := Nat.ofDigitChars_toDigits (by decide) (by decide)
  have hpos : n.toNat ≠ 0 := by omega
  have hcast : ((n.toNat : Nat) : Int) = n := Int.toNat_of_nonneg (by omega)
  have hptw : parseTimeWindowPrefix gTimeWindowFeatureGroup (s ++ chainSep ++ winSuffix f ds u) = .ok (f, n.toNat, u) := by
    have hf' : (vocabOf gTimeWindowFeatureGroup "WINDOW_FUNCTIONS").contains f = true := hf
    have hu' : (vocabOf gTimeWindowFeatureGroup "TIME_UNITS").contains u = true := hu
    simp only [parseTimeWindowPrefix, hrs, hsplit]
    simp [contains_iff_mem.mp hf', contains_iff_mem.mp hu', hdig, hval, hpos]
  rw [extractParams_window _ _ f u n.toNat hptw, hcast]

end Chain

namespace Chain

/-! ### every vocabulary operation has the suffix facts -/

theorem single_of_match {c : Str → Bool} {ps : List Param}
    (h : (match ps with | [.s t] => c t | _ => false) = true) : ∃ t, ps = [.s t] ∧ c t = true := by
  match ps, h with
  | [.s t], h => exact ⟨t, rfl, h⟩
  | [], h => simp at h
  | [.n _], h => simp at h
  | _ :: _ :: _, h => simp at h

theorem triple_of_match {c : Str → Int → Str → Bool} {ps : List Param}
    (h : (match ps with | [.s f, .n n, .s u] => c f n u | _ => false) = true) :
    ∃ f n u, ps = [.s f, .n n, .s u] ∧ c f n u = true := by
  match ps, h with
  | [.s f, .n n, .s u], h => exact ⟨f, n, u, rfl, h⟩
  | [], h => simp at h
  | [_], h => simp at h
  | [_, _], h => simp at h
  | _ :: _ :: _ :: _ :: _, h => simp at h
  | [.n _, _, _], h => simp at h
  | [.s _, .s _, _], h => simp at h
  | [.s _, .n _, .n _], h => simp at h

theorem opParamsOk_aggr (ps : List Param) : opParamsOk gAggregatedFeatureGroup ps =
    (match ps with | [.s t] => (vocabOf gAggregatedFeatureGroup "AGGREGATION_TYPES").contains t | _ => false) := by rfl
theorem opParamsOk_miss (ps : List Param) : opParamsOk gMissingValueFeatureGroup ps =
    (match ps with | [.s t] => (vocabOf gMissingValueFeatureGroup "IMPUTATION_METHODS").contains t | _ => false) := by rfl
theorem opParamsOk_cent (ps : List Param) : opParamsOk gNodeCentralityFeatureGroup ps =
    (match ps with | [.s t] => (vocabOf gNodeCentralityFeatureGroup "CENTRALITY_TYPES").contains t | _ => false) := by rfl
theorem opParamsOk_geo (ps : List Param) : opParamsOk gGeoDistanceFeatureGroup ps =
    (match ps with | [.s t] => (vocabOf gGeoDistanceFeatureGroup "DISTANCE_TYPES").contains t | _ => false) := by rfl
theorem opParamsOk_scal (ps : List Param) : opParamsOk gScalingFeatureGroup ps =
    (match ps with | [.s t] => (vocabOf gScalingFeatureGroup "SUPPORTED_SCALERS").contains t | _ => false) := by rfl
theorem opParamsOk_text (ps : List Param) : opParamsOk gTextCleaningFeatureGroup ps = ps.isEmpty := by rfl
theorem opParamsOk_window (ps : List Param) : opParamsOk gTimeWindowFeatureGroup ps =
    (match ps with
     | [.s f, .n n, .s u] => (vocabOf gTimeWindowFeatureGroup "WINDOW_FUNCTIONS").contains f && decide (0 < n) &&
         (vocabOf gTimeWindowFeatureGroup "TIME_UNITS").contains u
     | _ => false) := by rfl

theorem groupAt_ge (n : Nat) : groupAt (n + 12) = none := by
  unfold groupAt
  apply List.getElem?_eq_none
  simp [groups]

theorem ok_unmodelled (i : Nat) (g : Group) (hg : groupAt i = some g) (hm : modelled g = false) (ps : List Param) :
    ¬ (match groupAt (Op.mk i ps).gid with
       | some g => modelled g && opParamsOk g (Op.mk i ps).params
       | none => false) = true := by
  show ¬ (match groupAt i with | some g => modelled g && opParamsOk g ps | none => false) = true
  rw [hg]; simp [hm]

theorem ok_params (i : Nat) (g : Group) (hg : groupAt i = some g) (ps : List Param)
    (h : (match groupAt (Op.mk i ps).gid with
       | some g => modelled g && opParamsOk g (Op.mk i ps).params
       | none => false) = true) : opParamsOk g ps = true := by
  have h' : (match groupAt i with | some g => modelled g && opParamsOk g ps | none => false) = true := h
  rw [hg] at h'
  simp only [Bool.and_eq_true] at h'
  exact h'.2

/-- **every well-formed operation** (any window size) has the suffix facts of its group -/
theorem sufFacts_of_ok (op : Op) (h : op.ok = true) :
    ∃ g, groupAt op.gid = some g ∧ modelled g = true ∧ SufFacts g op := by
  obtain ⟨gid, ps⟩ := op
  unfold Op.ok at h
  match gid, h with
  | 0, h =>
    refine ⟨gAggregatedFeatureGroup, (by decide : groupAt 0 = some gAggregatedFeatureGroup), by decide, ?_⟩
    have h' : opParamsOk gAggregatedFeatureGroup ps = true := ok_params 0 gAggregatedFeatureGroup (by decide) ps h
    rw [opParamsOk_aggr] at h'
    obtain ⟨t, rfl, ht⟩ := single_of_match h'
    exact sufFacts_aggr t ht
  | 1, h => exact absurd h (ok_unmodelled 1 gClusteringFeatureGroup (by decide) (by decide) ps)
  | 2, h => exact absurd h (ok_unmodelled 2 gDimensionalityReductionFeatureGroup (by decide) (by decide) ps)
  | 3, h => exact absurd h (ok_unmodelled 3 gEncodingFeatureGroup (by decide) (by decide) ps)
  | 4, h => exact absurd h (ok_unmodelled 4 gForecastingFeatureGroup (by decide) (by decide) ps)
  | 5, h =>
    refine ⟨gGeoDistanceFeatureGroup, (by decide : groupAt 5 = some gGeoDistanceFeatureGroup), by decide, ?_⟩
    have h' : opParamsOk gGeoDistanceFeatureGroup ps = true := ok_params 5 gGeoDistanceFeatureGroup (by decide) ps h
    rw [opParamsOk_geo] at h'
    obtain ⟨t, rfl, ht⟩ := single_of_match h'
    exact sufFacts_geo t ht
  | 6, h =>
    refine ⟨gMissingValueFeatureGroup, (by decide : groupAt 6 = some gMissingValueFeatureGroup), by decide, ?_⟩
    have h' : opParamsOk gMissingValueFeatureGroup ps = true := ok_params 6 gMissingValueFeatureGroup (by decide) ps h
    rw [opParamsOk_miss] at h'
    obtain ⟨t, rfl, ht⟩ := single_of_match h'
    exact sufFacts_miss t ht
  | 7, h =>
    refine ⟨gNodeCentralityFeatureGroup, (by decide : groupAt 7 = some gNodeCentralityFeatureGroup), by decide, ?_⟩
    have h' : opParamsOk gNodeCentralityFeatureGroup ps = true := ok_params 7 gNodeCentralityFeatureGroup (by decide) ps h
    rw [opParamsOk_cent] at h'
    obtain ⟨t, rfl, ht⟩ := single_of_match h'
    exact sufFacts_cent t ht
  | 8, h =>
    refine ⟨gScalingFeatureGroup, (by decide : groupAt 8 = some gScalingFeatureGroup), by decide, ?_⟩
    have h' : opParamsOk gScalingFeatureGroup ps = true := ok_params 8 gScalingFeatureGroup (by decide) ps h
    rw [opParamsOk_scal] at h'
    obtain ⟨t, rfl, ht⟩ := single_of_match h'
    exact sufFacts_scal t ht
  | 9, h => exact absurd h (ok_unmodelled 9 gSklearnPipelineFeatureGroup (by decide) (by decide) ps)
  | 10, h =>
    refine ⟨gTextCleaningFeatureGroup, (by decide : groupAt 10 = some gTextCleaningFeatureGroup), by decide, ?_⟩
    have h' : opParamsOk gTextCleaningFeatureGroup ps = true := ok_params 10 gTextCleaningFeatureGroup (by decide) ps h
    rw [opParamsOk_text] at h'
    have : ps = [] := by cases ps <;> simp_all
    subst this
    exact sufFacts_text
  | 11, h =>
    refine ⟨gTimeWindowFeatureGroup, (by decide : groupAt 11 = some gTimeWindowFeatureGroup), by decide, ?_⟩
    have h' : opParamsOk gTimeWindowFeatureGroup ps = true := ok_params 11 gTimeWindowFeatureGroup (by decide) ps h
    rw [opParamsOk_window] at h'
    obtain ⟨f, n, u, rfl, hc⟩ := triple_of_match h'
    simp only [Bool.and_eq_true, decide_eq_true_eq] at hc
    exact sufFacts_window f u n hc.1.2 hc.1.1 hc.2
  | n + 12, h => simp [groupAt_ge n] at h

end Chain
