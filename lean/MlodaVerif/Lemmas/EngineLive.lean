import MlodaVerif.Lemmas.EngineSafe
/-! # Liveness side: everything that has to be collected is represented in the collection -/
namespace EngineColl
open Graph (Dict dget dset sadd)

/-- key of the filter feature made from the matched filter `m` -/
def filterKey (w : World) (g : Nat) (m : Filt) : Key := { m.key with name := w.setName g m.key }

theorem filterFeat_key (w : World) (g : Nat) (m : Filt) (u : Nat) : (filterFeat w g m u).key = filterKey w g m := rfl

/-- key of the index feature `create_index_feature` makes for a processed feature with key `k` -/
def indexKey (w : World) (g : Nat) (k : Key) (ix : List Name) : Except Err Key :=
  match ix with
  | [] => .error .emptyIndex
  | n :: _ =>
    let k0 : Key := { name := n, grp := k.grp, ctx := k.ctx, dom := k.dom, cfw := some [getCfw w k.cfw], dtype := none, child := none }
    .ok { k0 with name := w.setName g k0 }

theorem indexFeat_key {w : World} {g : Nat} {f xf : Feat} {ix : List Name} {u : Nat} (h : indexFeat w g f ix u = .ok xf) :
    indexKey w g f.key ix = .ok xf.key := by
  unfold indexFeat at h
  unfold indexKey
  cases ix with
  | nil => simp at h
  | cons n rest =>
    simp only [Except.ok.injEq] at h
    subst h
    rfl

theorem indexFeat_of_key {w : World} {g : Nat} {f : Feat} {k : Key} {ix : List Name} (u : Nat) (h : indexKey w g f.key ix = .ok k) :
    ∃ xf, indexFeat w g f ix u = .ok xf ∧ xf.key = k := by
  unfold indexKey at h
  unfold indexFeat
  cases ix with
  | nil => simp at h
  | cons n rest =>
    simp only [Except.ok.injEq] at h
    subst h
    exact ⟨_, rfl, rfl⟩

/-- the non-auxiliary entries: flagged as requested or carrying `child_options` (dependencies) -/
def Expanded (f : Feat) : Prop := f.req = true ∨ f.key.child ≠ none

/-- every input feature of the entry `(g, k)` is represented in the collection -/
def InputsRep (w : World) (L : Option (List Link)) (coll : List (Nat × Feat)) (g : Nat) (k : Key) : Prop :=
  ∀ ts t u t' g' f', w.inputs g k = some ts → t ∈ ts → mkInput k t u = .ok t' → prepare w L t' = .ok (g', f') →
    inColl coll g' f'.key = true

/-- every filter feature / linked-index feature of the processed feature `(g, k)` is represented in the collection -/
def AuxRep (w : World) (L : Option (List Link)) (coll : List (Nat × Feat)) (g : Nat) (k : Key) : Prop :=
  (∀ m, FilterMatch w g k m → inColl coll g (filterKey w g m) = true) ∧
  (∀ ix xk, IndexMatch w L g ix → indexKey w g k ix = .ok xk → inColl coll g xk = true)

theorem InputsRep.mono {w : World} {L : Option (List Link)} {a b : St} (h : Ext a b) {g : Nat} {k : Key}
    (hr : InputsRep w L a.coll g k) : InputsRep w L b.coll g k := by
  intro ts t u t' g' f' h1 h2 h3 h4
  exact h.inColl (hr ts t u t' g' f' h1 h2 h3 h4)

theorem AuxRep.mono {w : World} {L : Option (List Link)} {a b : St} (h : Ext a b) {g : Nat} {k : Key}
    (hr : AuxRep w L a.coll g k) : AuxRep w L b.coll g k :=
  ⟨fun m hm => h.inColl (hr.1 m hm), fun ix xk hm hk => h.inColl (hr.2 ix xk hm hk)⟩

/-- after a fold of monotone steps, what each step established still holds -/
theorem foldlM_post {α β ε : Type} (f : β → α → Except ε β) (R : β → β → Prop) (Q : α → β → Prop)
    (hrefl : ∀ b, R b b) (htrans : ∀ a b c, R a b → R b c → R a c)
    (hstep : ∀ s a s', f s a = .ok s' → R s s' ∧ Q a s') (hmono : ∀ a s s', R s s' → Q a s → Q a s') :
    ∀ (l : List α) (b b' : β), l.foldlM f b = .ok b' → R b b' ∧ ∀ a ∈ l, Q a b' := by
  intro l
  induction l with
  | nil => intro b b' h; rw [foldlM_nil_ok] at h; subst h; exact ⟨hrefl _, by simp⟩
  | cons a l ih =>
    intro b b' h
    rw [foldlM_cons_ok] at h
    obtain ⟨b1, h1, h2⟩ := h
    obtain ⟨r1, q1⟩ := hstep b a b1 h1
    obtain ⟨r2, q2⟩ := ih b1 b' h2
    refine ⟨htrans _ _ _ r1 r2, ?_⟩
    intro x hx
    rw [List.mem_cons] at hx
    rcases hx with rfl | hx
    · exact hmono _ _ _ r2 q1
    · exact q2 x hx

theorem addFilterOne_ext {w : World} {g : Nat} {f : Feat} {cu : Option Nat} {s s' : St} {m : Filt}
    (h : addFilterOne w g f cu s m = .ok s') : Ext s s' ∧ inColl s'.coll g (filterKey w g m) = true := by
  unfold addFilterOne at h
  simp only at h
  cases ha : addFeature w { s with next := s.next + 1, gfc := gfcAdd s.gfc (g, f.key.name) ({ m.key with name := w.setName g m.key }, m.tp) } g
      { key := { m.key with name := w.setName g m.key }, req := false, uuid := s.next, link := none } cu false with
  | error e => rw [ha] at h; simp at h
  | ok r =>
    obtain ⟨s2, b⟩ := r
    rw [ha] at h
    simp only [Except.ok.injEq] at h
    subst h
    refine ⟨Ext.trans ⟨⟨[], by simp⟩, by simp only; omega⟩ (addFeature_ext ha), ?_⟩
    exact addFeature_inColl ha

theorem addFilters_complete {w : World} {st : St} {g : Nat} {f : Feat} {cu : Option Nat} {st' : St}
    (h : addFilters w st g f cu = .ok st') : ∀ m, FilterMatch w g f.key m → inColl st'.coll g (filterKey w g m) = true := by
  intro m ⟨fl, flt, hfl, hflt, hmf⟩
  unfold addFilters at h
  rw [hfl] at h
  simp only at h
  cases hms : matchedFilters w g f.key fl [] with
  | error e => rw [hms] at h; simp at h
  | ok ms =>
    rw [hms] at h
    simp only at h
    cases ho : applyOrd (w.matchOrd st.nmatch) ms with
    | none => rw [ho] at h; simp at h
    | some ms' =>
      rw [ho] at h
      simp only at h
      have hm1 : m ∈ ms := matchedFilters_complete hms flt hflt m hmf
      have hm2 : m ∈ ms' := applyOrd_mem_rev ho m hm1
      have := foldlM_post (addFilterOne w g f cu) Ext (fun m s => inColl s.coll g (filterKey w g m) = true)
        Ext.refl (fun _ _ _ => Ext.trans) (fun s a s' hh => addFilterOne_ext hh) (fun a s s' hr hq => hr.inColl hq) ms' _ _ h
      exact this.2 m hm2

theorem addIndexOne_ext {w : World} {g : Nat} {f : Feat} {cu : Option Nat} {ix : List Name} {s s' : St}
    (h : addIndexOne w g f cu ix s = .ok s') : Ext s s' ∧ ∀ xk, indexKey w g f.key ix = .ok xk → inColl s'.coll g xk = true := by
  unfold addIndexOne at h
  cases hxf : indexFeat w g f ix s.next with
  | error e => rw [hxf] at h; simp at h
  | ok xf =>
    rw [hxf] at h
    simp only at h
    cases ha : addFeature w { s with next := s.next + 1 } g xf cu true with
    | error e => rw [ha] at h; simp at h
    | ok r =>
      obtain ⟨s2, b⟩ := r
      rw [ha] at h
      simp only [Except.ok.injEq] at h
      subst h
      refine ⟨Ext.trans ⟨⟨[], by simp⟩, by simp only; omega⟩ (addFeature_ext ha), ?_⟩
      intro xk hxk
      rw [indexFeat_key hxf] at hxk
      simp only [Except.ok.injEq] at hxk
      subst hxk
      exact addFeature_inColl ha

theorem addIndexLink_ext {w : World} {g : Nat} {f : Feat} {cu : Option Nat} {ix : List Name} {s s' : St} {l : Link}
    (h : addIndexLink w g f cu ix s l = .ok s') :
    Ext s s' ∧ (((l.lg = g ∧ l.li = ix) ∨ (l.rg = g ∧ l.ri = ix)) → ∀ xk, indexKey w g f.key ix = .ok xk → inColl s'.coll g xk = true) := by
  unfold addIndexLink at h
  by_cases hL : l.lg = g ∧ l.li = ix
  · rw [if_pos hL] at h
    cases h1 : addIndexOne w g f cu ix s with
    | error e => rw [h1] at h; simp at h
    | ok sa =>
      rw [h1] at h
      simp only at h
      obtain ⟨e1, q1⟩ := addIndexOne_ext h1
      by_cases hR : l.rg = g ∧ l.ri = ix
      · rw [if_pos hR] at h
        obtain ⟨e2, q2⟩ := addIndexOne_ext h
        exact ⟨Ext.trans e1 e2, fun _ => q2⟩
      · rw [if_neg hR] at h
        simp only [Except.ok.injEq] at h
        subst h
        exact ⟨e1, fun _ => q1⟩
  · rw [if_neg hL] at h
    simp only at h
    by_cases hR : l.rg = g ∧ l.ri = ix
    · rw [if_pos hR] at h
      obtain ⟨e2, q2⟩ := addIndexOne_ext h
      exact ⟨e2, fun _ => q2⟩
    · rw [if_neg hR] at h
      simp only [Except.ok.injEq] at h
      subst h
      refine ⟨Ext.refl _, ?_⟩
      intro hc
      rcases hc with hc | hc
      · exact absurd hc hL
      · exact absurd hc hR

theorem addIndexes_complete {w : World} {st : St} {g : Nat} {f : Feat} {cu : Option Nat} {st' : St}
    (h : addIndexes w st g f cu = .ok st') :
    ∀ ix xk, IndexMatch w st.links g ix → indexKey w g f.key ix = .ok xk → inColl st'.coll g xk = true := by
  intro ix xk ⟨ixs, ls, l, hix, hl, hixm, hlm, hside⟩ hxk
  unfold addIndexes at h
  rw [hix] at h
  simp only at h
  rw [hl] at h
  simp only at h
  have houter := foldlM_post (fun s ix => ls.foldlM (addIndexLink w g f cu ix) s) Ext
    (fun ix s => (∃ l ∈ ls, (l.lg = g ∧ l.li = ix) ∨ (l.rg = g ∧ l.ri = ix)) →
      ∀ xk, indexKey w g f.key ix = .ok xk → inColl s.coll g xk = true)
    Ext.refl (fun _ _ _ => Ext.trans)
    (fun s ix s' hh => by
      have hinner := foldlM_post (addIndexLink w g f cu ix) Ext
        (fun l s => ((l.lg = g ∧ l.li = ix) ∨ (l.rg = g ∧ l.ri = ix)) → ∀ xk, indexKey w g f.key ix = .ok xk → inColl s.coll g xk = true)
        Ext.refl (fun _ _ _ => Ext.trans) (fun s l s' hh => addIndexLink_ext hh)
        (fun l s s' hr hq hc xk hk => hr.inColl (hq hc xk hk)) ls _ _ hh
      refine ⟨hinner.1, ?_⟩
      intro ⟨l, hl1, hl2⟩ xk hk
      exact hinner.2 l hl1 hl2 xk hk)
    (fun ix s s' hr hq hex xk hk => hr.inColl (hq hex xk hk)) ixs _ _ h
  exact houter.2 ix hixm ⟨l, hlm, hside⟩ xk hxk

/-! ## links stay what they are when no feature carries a link -/

theorem addFilters_links {w : World} {st : St} {g : Nat} {f : Feat} {cu : Option Nat} {st' : St}
    (h : addFilters w st g f cu = .ok st') : st'.links = st.links := by
  apply addFilters_inv (I := fun s => s.links = st.links) h rfl
  · intro s hs; exact hs
  · intro s m s2 b hs _ ha
    rw [addFeature_links ha rfl]; exact hs

theorem addIndexes_links {w : World} {st : St} {g : Nat} {f : Feat} {cu : Option Nat} {st' : St}
    (h : addIndexes w st g f cu = .ok st') : st'.links = st.links := by
  apply addIndexes_inv (I := fun s => s.links = st.links) h rfl
  intro s ix xf s2 b hs _ hxf ha
  rw [addFeature_links ha (indexFeat_link hxf).1]; exact hs

theorem Run.links_const {w : World} (hw : PlainWorld w) {st : St} {cu : Option Nat} {fs : List Feat} {st' : St}
    (h : Run w st cu fs st') (hnl : ∀ f ∈ fs, f.link = none) : st'.links = st.links := by
  induction h with
  | nil st cu => rfl
  | @leaf st st1 st3 st4 st5 cu f f3 g added rest hp ha hl hf hi hr ih =>
    have h1 : st1.links = st.links := addFeature_links ha (by rw [(prepare_fields hp).1]; exact hnl f List.mem_cons_self)
    rw [ih (fun x hx => hnl x (List.mem_cons_of_mem _ hx)), addIndexes_links hi, addFilters_links hf, h1]
  | @node st st1 st2 st3 st4 st5 cu f f3 g t ts fs rest hp ha hin hm hc hf hi hr ihc ihr =>
    have h1 : st1.links = st.links := addFeature_links ha (by rw [(prepare_fields hp).1]; exact hnl f List.mem_cons_self)
    have h2 : st2.links = st1.links := by
      apply ihc
      intro x hx
      obtain ⟨t', ht', u, _, _, hmk⟩ := mkInputs_mem hm x hx
      rw [(mkInput_fields hmk).1]; exact hw.inputs_nolink g f3.key _ t' hin ht'
    rw [ihr (fun x hx => hnl x (List.mem_cons_of_mem _ hx)), addIndexes_links hi, addFilters_links hf, h2, h1]

/-! ## auxiliary entries are not `Expanded` -/

theorem matchFilter_fields {w : World} {g : Nat} {f : Key} {flt m : Filt} (h : matchFilter w g f flt = .ok (some m)) :
    m.key.child = flt.key.child ∧ m.tp = flt.tp ∧ m.key.name = flt.key.name ∧ m.key.dtype = flt.key.dtype := by
  unfold matchFilter at h
  simp only at h
  split at h
  · simp at h
  · split at h
    · simp at h
    · simp at h
    · split at h
      · simp at h
      · simp only [Except.ok.injEq, Option.some.injEq] at h
        subst h
        exact ⟨rfl, rfl, rfl, rfl⟩

theorem filterMatch_not_expanded {w : World} (hw : PlainWorld w) {g : Nat} {k : Key} {m : Filt} (hm : FilterMatch w g k m) (u : Nat) :
    ¬ Expanded (filterFeat w g m u) := by
  obtain ⟨fl, flt, hfl, hflt, hmf⟩ := hm
  intro hx
  rcases hx with hx | hx
  · simp [filterFeat] at hx
  · apply hx
    show m.key.child = none
    rw [(matchFilter_fields hmf).1]
    exact hw.filters_plain fl flt hfl hflt

theorem addFilters_new {w : World} (hw : PlainWorld w) {st : St} {g : Nat} {f : Feat} {cu : Option Nat} {st' : St}
    (h : addFilters w st g f cu = .ok st') : ∀ e ∈ st'.coll, e ∈ st.coll ∨ ¬ Expanded e.2 := by
  apply addFilters_inv (I := fun s => ∀ e ∈ s.coll, e ∈ st.coll ∨ ¬ Expanded e.2) h (fun e he => Or.inl he)
  · intro s hs; exact hs
  · intro s m s2 b hs hm ha e he
    rcases addFeature_cases ha with ⟨_, _, rfl⟩ | ⟨_, _, hc, _⟩
    · simp only [List.mem_append, List.mem_singleton] at he
      rcases he with he | rfl
      · exact hs e he
      · exact Or.inr (filterMatch_not_expanded hw hm _)
    · rw [hc] at he; exact hs e he

theorem addIndexes_new {w : World} {st : St} {g : Nat} {f : Feat} {cu : Option Nat} {st' : St}
    (h : addIndexes w st g f cu = .ok st') : ∀ e ∈ st'.coll, e ∈ st.coll ∨ ¬ Expanded e.2 := by
  apply addIndexes_inv (I := fun s => ∀ e ∈ s.coll, e ∈ st.coll ∨ ¬ Expanded e.2) h (fun e he => Or.inl he)
  intro s ix xf s2 b hs _ hxf ha e he
  rcases addFeature_cases ha with ⟨_, _, rfl⟩ | ⟨_, _, hc, _⟩
  · simp only [List.mem_append, List.mem_singleton] at he
    rcases he with he | rfl
    · exact hs e he
    · right
      have hx := indexFeat_link hxf
      intro hexp
      rcases hexp with hexp | hexp
      · rw [hx.2.1] at hexp; simp at hexp
      · exact hexp hx.2.2.2
  · rw [hc] at he; exact hs e he

/-! ## the main induction -/

theorem prepare_key_congr {w : World} {L : Option (List Link)} {a b : Feat} {g : Nat} {f' : Feat} (hk : a.key = b.key)
    (h : prepare w L a = .ok (g, f')) : prepare w L b = .ok (g, { b with key := f'.key }) := by
  have := (prepare_fields h).2.2.2
  rw [hk] at this
  exact prepare_of_prepareK this

theorem Run.live {w : World} {L : Option (List Link)} (hw : PlainWorld w) {st : St} {cu : Option Nat} {fs : List Feat} {st' : St}
    (h : Run w st cu fs st') (hl : st.links = L) (hnl : ∀ f ∈ fs, f.link = none) :
    (∀ f ∈ fs, ∀ g f3, prepare w L f = .ok (g, f3) → inColl st'.coll g f3.key = true ∧ AuxRep w L st'.coll g f3.key) ∧
    (∀ e ∈ st'.coll, e ∉ st.coll → Expanded e.2 → InputsRep w L st'.coll e.1 e.2.key ∧ AuxRep w L st'.coll e.1 e.2.key) := by
  induction h with
  | nil st cu => exact ⟨by simp, fun e he hne => absurd he hne⟩
  | @leaf st st1 st3 st4 st5 cu f f3 g added rest hp ha hlf hf hi hr ih =>
    have hfl : f3.link = none := by rw [(prepare_fields hp).1]; exact hnl f List.mem_cons_self
    have l1 : st1.links = L := by rw [addFeature_links ha hfl]; exact hl
    have l3 : st3.links = L := by rw [addFilters_links hf]; exact l1
    have l4 : st4.links = L := by rw [addIndexes_links hi]; exact l3
    obtain ⟨ih1, ih2⟩ := ih l4 (fun x hx => hnl x (List.mem_cons_of_mem _ hx))
    rw [hl] at hp
    have e13 : Ext st1 st3 := addFilters_ext hf
    have e34 : Ext st3 st4 := addIndexes_ext hi
    have e45 : Ext st4 st5 := hr.ext
    have hin5 : inColl st5.coll g f3.key = true := e45.inColl (e34.inColl (e13.inColl (addFeature_inColl ha)))
    have haux5 : AuxRep w L st5.coll g f3.key := by
      refine ⟨fun m hm => e45.inColl (e34.inColl (addFilters_complete hf m hm)), ?_⟩
      intro ix xk hm hk
      rw [← l3] at hm
      exact e45.inColl (addIndexes_complete hi ix xk hm hk)
    refine ⟨?_, ?_⟩
    · intro x hx gx fx hpx
      rw [List.mem_cons] at hx
      rcases hx with rfl | hx
      · rw [hp] at hpx
        simp only [Except.ok.injEq, Prod.mk.injEq] at hpx
        obtain ⟨rfl, rfl⟩ := hpx
        exact ⟨hin5, haux5⟩
      · exact ih1 x hx gx fx hpx
    · intro e he hne hex
      by_cases h4 : e ∈ st4.coll
      · -- added by this feature itself
        have h3 : e ∈ st3.coll := by
          rcases addIndexes_new hi e h4 with h | h
          · exact h
          · exact absurd hex h
        have h1 : e ∈ st1.coll := by
          rcases addFilters_new hw hf e h3 with h | h
          · exact h
          · exact absurd hex h
        rcases addFeature_cases ha with ⟨hb, _, rfl⟩ | ⟨_, _, hc, _⟩
        · simp only [List.mem_append, List.mem_singleton] at h1
          rcases h1 with h1 | rfl
          · exact absurd h1 hne
          · refine ⟨?_, haux5⟩
            intro ts t u t' g' f' hin ht _ _
            rcases hlf with hlf | hlf | hlf
            · rw [hb] at hlf; simp at hlf
            · rw [hlf] at hin; simp at hin
            · rw [hlf] at hin
              simp only [Option.some.injEq] at hin
              subst hin
              simp at ht
        · rw [hc] at h1; exact absurd h1 hne
      · exact ih2 e he h4 hex
  | @node st st1 st2 st3 st4 st5 cu f f3 g t ts fs rest hp ha hin hm hc hf hi hr ihc ihr =>
    have hfl : f3.link = none := by rw [(prepare_fields hp).1]; exact hnl f List.mem_cons_self
    have l1 : st1.links = L := by rw [addFeature_links ha hfl]; exact hl
    have hfsl : ∀ x ∈ fs, x.link = none := by
      intro x hx
      obtain ⟨t', ht', u, _, _, hmk⟩ := mkInputs_mem hm x hx
      rw [(mkInput_fields hmk).1]; exact hw.inputs_nolink g f3.key _ t' hin ht'
    have l2 : st2.links = L := by rw [hc.links_const hw hfsl]; exact l1
    have l3 : st3.links = L := by rw [addFilters_links hf]; exact l2
    have l4 : st4.links = L := by rw [addIndexes_links hi]; exact l3
    obtain ⟨ic1, ic2⟩ := ihc l1 hfsl
    obtain ⟨ir1, ir2⟩ := ihr l4 (fun x hx => hnl x (List.mem_cons_of_mem _ hx))
    rw [hl] at hp
    have e12 : Ext st1 st2 := Ext.trans ⟨⟨[], by simp⟩, by simp only; omega⟩ hc.ext
    have e23 : Ext st2 st3 := addFilters_ext hf
    have e34 : Ext st3 st4 := addIndexes_ext hi
    have e45 : Ext st4 st5 := hr.ext
    have e25 : Ext st2 st5 := Ext.trans e23 (Ext.trans e34 e45)
    have hin5 : inColl st5.coll g f3.key = true := e25.inColl (e12.inColl (addFeature_inColl ha))
    have haux5 : AuxRep w L st5.coll g f3.key := by
      refine ⟨fun m hm => e45.inColl (e34.inColl (addFilters_complete hf m hm)), ?_⟩
      intro ix xk hm hk
      rw [← l3] at hm
      exact e45.inColl (addIndexes_complete hi ix xk hm hk)
    refine ⟨?_, ?_⟩
    · intro x hx gx fx hpx
      rw [List.mem_cons] at hx
      rcases hx with rfl | hx
      · rw [hp] at hpx
        simp only [Except.ok.injEq, Prod.mk.injEq] at hpx
        obtain ⟨rfl, rfl⟩ := hpx
        exact ⟨hin5, haux5⟩
      · exact ir1 x hx gx fx hpx
    · intro e he hne hex
      by_cases h4 : e ∈ st4.coll
      · have h3 : e ∈ st3.coll := by
          rcases addIndexes_new hi e h4 with h | h
          · exact h
          · exact absurd hex h
        have h2 : e ∈ st2.coll := by
          rcases addFilters_new hw hf e h3 with h | h
          · exact h
          · exact absurd hex h
        by_cases h1 : e ∈ st1.coll
        · rcases addFeature_cases ha with ⟨_, _, rfl⟩ | ⟨hb, _⟩
          · simp only [List.mem_append, List.mem_singleton] at h1
            rcases h1 with h1 | rfl
            · exact absurd h1 hne
            · refine ⟨?_, haux5⟩
              intro ts' t' u t'' g' f' hin' ht' hmk hpt
              rw [hin] at hin'
              simp only [Option.some.injEq] at hin'
              subst hin'
              obtain ⟨x, hx, u0, hmk0⟩ := mkInputs_complete hm t' ht'
              have hmk1 := mkInput_uuid_indep hmk0 u
              rw [hmk] at hmk1
              simp only [Except.ok.injEq] at hmk1
              have hk : t''.key = x.key := by rw [hmk1]
              have hpx := prepare_key_congr hk hpt
              exact e25.inColl (ic1 x hx g' _ hpx).1
          · simp at hb
        · obtain ⟨q1, q2⟩ := ic2 e h2 h1 hex
          exact ⟨q1.mono e25, q2.mono e25⟩
      · exact ir2 e he h4 hex

end EngineColl
