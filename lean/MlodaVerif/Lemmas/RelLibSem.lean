import MlodaVerif.Lemmas.RelAlgebra
import MlodaVerif.Model.LibMergeSem
namespace Rel

theorem joinGen_congr {m m' : Row → Row → Bool} {comb comb' : Row → Row → Row} {padR padR' padL padL' : Row → Row}
    {L R : Table} (hm : ∀ l ∈ L, ∀ r ∈ R, m l r = m' l r) (hc : ∀ l r, comb l r = comb' l r)
    (hr : ∀ l, padR l = padR' l) (hl : ∀ r, padL r = padL' r) (t : JoinType) :
    joinGen m comb padR padL t L R = joinGen m' comb' padR' padL' t L R := by
  have e1 : comb = comb' := funext (fun l => funext (hc l))
  have e2 : padR = padR' := funext hr
  have e3 : padL = padL' := funext hl
  subst e1 e2 e3
  have hfl : ∀ l ∈ L, R.filter (m l) = R.filter (m' l) := fun l hl => List.filter_congr (fun r hr => hm l hl r hr)
  have hfr : ∀ r ∈ R, L.filter (fun l => m l r) = L.filter (fun l => m' l r) :=
    fun r hr => List.filter_congr (fun l hl => hm l hl r hr)
  have hleft : L.flatMap (fun l => let ms := R.filter (m l); if ms.isEmpty then [padR l] else ms.map (comb l)) =
      L.flatMap (fun l => let ms := R.filter (m' l); if ms.isEmpty then [padR l] else ms.map (comb l)) :=
    flatMap_congr_mem (fun l hl => by simp only [hfl l hl])
  cases t with
  | inner => exact flatMap_congr_mem (fun l hl => by simp only [hfl l hl])
  | left => exact hleft
  | right => exact flatMap_congr_mem (fun r hr => by simp only [hfr r hr])
  | outer =>
    unfold joinGen
    simp only []
    rw [hleft]
    congr 2
    refine List.filter_congr (fun r hr => ?_)
    rw [Bool.eq_iff_iff, List.all_eq_true, List.all_eq_true]
    constructor
    · intro h l hl; rw [← hm l hl r hr]; exact h l hl
    · intro h l hl; rw [hm l hl r hr]; exact h l hl
  | append => rfl
  | union => rfl

theorem joinGen_spec (t : JoinType) (lk rk ls rs : List Col) (L R : Table) :
    joinGen (matchesK lk rk) (combine (coalesced lk rk)) (padRight (coalesced lk rk) rs) (padLeft (coalesced lk rk) ls) t L R
      = joinSpec t lk rk ls rs L R := by
  cases t <;> rfl


/-! ### pandas: the relational join except that null keys match and overlapping columns are renamed -/

theorem sfxCol_nil (sfx : String) (c : Col) : PandasSem.sfxCol [] sfx c = c := by simp [PandasSem.sfxCol]

theorem suffixed_nil (sfx : String) (r : Row) : PandasSem.suffixed [] sfx r = r := by
  unfold PandasSem.suffixed
  have : (fun e : Col × Cell => (PandasSem.sfxCol [] sfx e.1, e.2)) = id := by
    funext e; simp [sfxCol_nil]
  rw [this, List.map_id]

theorem pandas_merge_eq_spec {t : JoinType} {lk rk ls rs : List Col} {L R : Table}
    (ht : t = .inner ∨ t = .left ∨ t = .right ∨ t = .outer)
    (hkl : ∀ c ∈ lk, c ∈ ls) (hkr : ∀ c ∈ rk, c ∈ rs)
    (hnL : NoNullKeys lk L) (hov : PandasSem.overlap (coalesced lk rk) ls rs = []) :
    PandasMerge.merge t lk rk ls rs L R = .ok (joinSpec t lk rk ls rs L R) := by
  have h0 : PandasMerge.merge t lk rk ls rs L R = .ok (PandasSem.merge t lk rk ls rs L R) := by
    rcases ht with rfl | rfl | rfl | rfl <;> simp only [PandasMerge.merge] <;> exact if_pos ⟨hkl, hkr⟩
  rw [h0, ← joinGen_spec]
  congr 1
  unfold PandasSem.merge
  simp only [hov]
  refine joinGen_congr ?_ ?_ ?_ ?_ t
  · intro l hl r _
    unfold PandasSem.matchesNullEq matchesK
    rw [hnL l hl, Bool.true_and]
  · intro l r; rw [suffixed_nil, suffixed_nil]; rfl
  · intro l
    rw [suffixed_nil]
    have : (PandasSem.sfxCol [] "_y") = id := funext (sfxCol_nil "_y")
    rw [this, List.map_id]; rfl
  · intro r
    rw [suffixed_nil]
    have : (PandasSem.sfxCol [] "_x") = id := funext (sfxCol_nil "_x")
    rw [this, List.map_id]; rfl

theorem core_padTo (cols : List Col) (r : Row) : core (PandasSem.padTo cols r) = core r := by
  simp [PandasSem.padTo]

theorem pandas_concat_tableEq (ls rs : List Col) (L R : Table) : TableEq (PandasSem.concat ls rs L R) (L ++ R) := by
  unfold PandasSem.concat
  have := TableEq.map_congr (L ++ R) (PandasSem.padTo (ls ++ rs.filter (fun c => decide (c ∉ ls)))) id
    (fun r _ => RowEq.of_core_eq (core_padTo _ r))
  simpa using this

/-! ### pyarrow as called by the engine, same key names on both sides -/

theorem arrow_joinLogic_same_keys (t : JoinType) {ks : List Col} (hks : ks ≠ []) {ls rs : List Col}
    (hkl : ∀ c ∈ ks, c ∈ ls) (hkr : ∀ c ∈ ks, c ∈ rs) (L R : Table) :
    ArrowMerge.joinLogic t ks ks ls rs L R = .ok (ArrowSem.tableJoin t ks ks ls rs L R) := by
  unfold ArrowMerge.joinLogic
  have h0 : (∀ c ∈ ks, c ∈ ls) ∧ (∀ c ∈ ks, c ∈ rs) := ⟨hkl, hkr⟩
  rw [if_neg (by simpa using h0)]
  by_cases h : ks.length > 1
  · simp [h]
  · match ks, hks, h with
    | [a], _, _ => simp
    | _ :: _ :: _, _, h => simp at h

theorem arrow_inner_left_eq_spec {t : JoinType} (ht : t = .inner ∨ t = .left) {ks : List Col} (hks : ks ≠ [])
    {ls rs : List Col} (hkl : ∀ c ∈ ks, c ∈ ls) (hkr : ∀ c ∈ ks, c ∈ rs) (L R : Table) :
    ArrowMerge.merge t ks ks ls rs L R = .ok (joinSpec t ks ks ls rs L R) := by
  rcases ht with rfl | rfl
  · show ArrowMerge.joinLogic .inner ks ks ls rs L R = _
    rw [arrow_joinLogic_same_keys _ hks hkl hkr]
    unfold ArrowSem.tableJoin joinGen joinSpec innerJoin combine ArrowSem.dropCols
    simp only [coalesced_self]
  · show ArrowMerge.joinLogic .left ks ks ls rs L R = _
    rw [arrow_joinLogic_same_keys _ hks hkl hkr]
    unfold ArrowSem.tableJoin joinGen joinSpec leftJoin combine padRight ArrowSem.dropCols
    simp only [coalesced_self]

theorem arrow_right_tableEq {ks : List Col} (hks : ks ≠ []) {ls rs : List Col}
    (hkl : ∀ c ∈ ks, c ∈ ls) (hkr : ∀ c ∈ ks, c ∈ rs) {L R : Table}
    (wfL : RowsWF L) (wfR : RowsWF R) :
    ∃ out, ArrowMerge.merge .right ks ks ls rs L R = .ok out ∧ TableEq out (joinSpec .right ks ks ls rs L R) := by
  refine ⟨_, arrow_joinLogic_same_keys .right hks hkl hkr L R, ?_⟩
  unfold ArrowSem.tableJoin joinGen joinSpec rightJoin
  simp only [coalesced_self]
  refine TableEq.flatMap_congr R _ _ ?_
  intro r hr
  by_cases he : (L.filter (fun l => matchesK ks ks l r)).isEmpty
  · simp only [he, if_true]
    exact TableEq.refl _
  · simp only [he, Bool.false_eq_true, if_false]
    refine TableEq.map_congr _ _ _ ?_
    intro l hl
    obtain ⟨hlL, hm⟩ := List.mem_filter.mp hl
    have h1 : RowEq (ArrowSem.dropCols ks l ++ r) (combine ks r l) :=
      RowEq.of_perm List.perm_append_comm
    have h2 := rowEq_combine_comm (lk := ks) (rk := ks) (wfL l hlL) (wfR r hr) (matchesK_keys hm)
    rw [coalesced_self] at h2
    exact h1.trans h2.symm

/-! ### the spec's union really is the duplicate-free concatenation -/

theorem dedupAux_sound (S : List Row) (T : Table) :
    (∀ y ∈ dedupAux S T, ∀ s ∈ S, ¬ RowEq s y) ∧ (dedupAux S T).Pairwise (fun a b => ¬ RowEq a b) := by
  induction T generalizing S with
  | nil => simp [dedupAux]
  | cons x T ih =>
    cases h : S.any (fun s => rowBEq s x) with
    | true => rw [dedupAux_cons_seen h]; exact ih S
    | false =>
      rw [dedupAux_cons_new h]
      obtain ⟨i1, i2⟩ := ih (x :: S)
      have hx : ∀ s ∈ S, ¬ RowEq s x := by
        intro s hs hre
        have : S.any (fun s => rowBEq s x) = true := List.any_eq_true.mpr ⟨s, hs, rowBEq_iff.mpr hre⟩
        rw [h] at this; exact Bool.false_ne_true this
      refine ⟨?_, ?_⟩
      · intro y hy s hs
        rcases List.mem_cons.mp hy with rfl | hy
        · exact hx s hs
        · exact i1 y hy s (List.mem_cons_of_mem _ hs)
      · rw [List.pairwise_cons]
        exact ⟨fun y hy => i1 y hy x List.mem_cons_self, i2⟩

theorem dedupAux_complete (S : List Row) (T : Table) :
    ∀ x ∈ T, (∃ s ∈ S, RowEq s x) ∨ (∃ y ∈ dedupAux S T, RowEq y x) := by
  induction T generalizing S with
  | nil => intro x hx; simp at hx
  | cons a T ih =>
    intro x hx
    cases h : S.any (fun s => rowBEq s a) with
    | true =>
      rw [dedupAux_cons_seen h]
      rcases List.mem_cons.mp hx with rfl | hx
      · obtain ⟨s, hs, hb⟩ := List.any_eq_true.mp h
        exact Or.inl ⟨s, hs, rowBEq_iff.mp hb⟩
      · exact ih S x hx
    | false =>
      rw [dedupAux_cons_new h]
      rcases List.mem_cons.mp hx with rfl | hx
      · exact Or.inr ⟨x, List.mem_cons_self, RowEq.refl x⟩
      · rcases ih (a :: S) x hx with ⟨s, hs, hre⟩ | ⟨y, hy, hre⟩
        · rcases List.mem_cons.mp hs with rfl | hs
          · exact Or.inr ⟨s, List.mem_cons_self, hre⟩
          · exact Or.inl ⟨s, hs, hre⟩
        · exact Or.inr ⟨y, List.mem_cons_of_mem _ hy, hre⟩

theorem union_spec (L R : Table) :
    (Rel.union L R).Pairwise (fun a b => ¬ RowEq a b) ∧ (∀ y ∈ Rel.union L R, y ∈ L ++ R) ∧
      (∀ x ∈ L ++ R, ∃ y ∈ Rel.union L R, RowEq y x) := by
  unfold Rel.union dedup
  refine ⟨(dedupAux_sound [] (L ++ R)).2, fun y hy => mem_dedupAux hy, fun x hx => ?_⟩
  rcases dedupAux_complete [] (L ++ R) x hx with ⟨s, hs, _⟩ | h
  · simp at hs
  · exact h

/-! ### pyarrow, equally named keys: full outer join -/

theorem cell_zip_keyOf (ks : List Col) (r : Row) (c : Col) :
    cell (ks.zip (keyOf ks r)) c = if c ∈ ks then cell r c else none := by
  unfold keyOf
  induction ks with
  | nil => simp [cell]
  | cons k ks ih =>
    simp only [List.map_cons, List.zip_cons_cons, cell]
    by_cases h : k = c
    · subst h; simp
    · have h' : ¬ c = k := fun hh => h hh.symm
      simp [h, h', ih]

theorem rcols_zip_keyOf (ks : List Col) (r : Row) : rcols (ks.zip (keyOf ks r)) = ks := by
  unfold keyOf rcols
  induction ks with
  | nil => rfl
  | cons k ks ih => simp only [List.map_cons, List.zip_cons_cons, List.cons.injEq, true_and]; exact ih

theorem rowEq_arrow_outer_right_only {ks : List Col} (hks : ks.Nodup) (ls : List Col) {r : Row} (hr : (rcols r).Nodup) :
    RowEq (ks.zip (keyOf ks r) ++ nulls (ls.filter (fun c => decide (c ∉ ks))) ++ ArrowSem.dropCols ks r)
      (padLeft ks ls r) := by
  have hkeys : RowEq (ks.zip (keyOf ks r)) (r.filter (fun e => decide (e.1 ∈ ks))) := by
    refine rowEq_of_cell_eq ?_ ?_ ?_
    · rw [rcols_zip_keyOf]; exact hks
    · rw [rcols_filter (fun c => decide (c ∈ ks))]; exact hr.sublist List.filter_sublist
    · intro c
      rw [cell_zip_keyOf, cell_filter (fun c => decide (c ∈ ks))]
      by_cases h : c ∈ ks <;> simp [h]
  unfold RowEq at hkeys ⊢
  unfold padLeft ArrowSem.dropCols
  simp only [core_append, core_nulls, List.append_nil, List.nil_append]
  have hsplit : (core r).Perm (core (r.filter (fun e => decide (e.1 ∈ ks))) ++ core (r.filter (fun e => decide (e.1 ∉ ks)))) := by
    rw [← core_append]
    refine List.Perm.filter _ ?_
    have := (List.filter_append_perm (fun e : Col × Cell => decide (e.1 ∈ ks)) r).symm
    have hn : (fun e : Col × Cell => !decide (e.1 ∈ ks)) = (fun e => decide (e.1 ∉ ks)) := by funext e; simp
    rw [hn] at this
    exact this
  exact (List.Perm.append_right _ hkeys).trans hsplit.symm

theorem arrow_outer_tableEq {ks : List Col} (hks : ks ≠ []) (hnd : ks.Nodup) {ls rs : List Col}
    (hkl : ∀ c ∈ ks, c ∈ ls) (hkr : ∀ c ∈ ks, c ∈ rs) {L R : Table} (wfR : RowsWF R) :
    ∃ out, ArrowMerge.merge .outer ks ks ls rs L R = .ok out ∧ TableEq out (joinSpec .outer ks ks ls rs L R) := by
  refine ⟨_, arrow_joinLogic_same_keys .outer hks hkl hkr L R, ?_⟩
  unfold ArrowSem.tableJoin joinGen joinSpec outerJoin leftJoin combine padRight ArrowSem.dropCols
  simp only [coalesced_self]
  refine TableEq.append (TableEq.refl _) ?_
  refine TableEq.map_congr _ _ _ (fun r hr => ?_)
  exact rowEq_arrow_outer_right_only hnd ls (wfR r (List.mem_filter.mp hr).1)

end Rel
