import MlodaVerif.Lemmas.LifeGenDlm
/-! # Bridge lemmas for the queue side of `WorkerManager`: the heap of queues, `wait_for_drop_completion` (`waitH`), `poll_result_queues` -/
open Life Store PyRt Gen.LifecycleGen LifeGen CfwGen
namespace LifeGen
/-! ### queues -/

theorem content_set (h : QHeap) (q q' : Nat) (v : List QMsg) :
    QHeap.content (NDict.set h q v) q' = if q = q' then v else QHeap.content h q' := by
  simp only [QHeap.content, get?_eq, set_eq, dget_dset]
  split <;> rfl

theorem content_put (h : QHeap) (q q' : Nat) (m : QMsg) :
    QHeap.content (QHeap.put h q m) q' = if q = q' then QHeap.content h q ++ [m] else QHeap.content h q' := by
  simp only [QHeap.put, content_set]

abbrev WaitSt := Option (QHeap × List (List QMsg)) × QHeap × List (List QMsg) × Bool

/-- one round of the translated `while` of `wait_for_drop_completion` on `(early return value, qheap, sched, looping)` -/
def waitBody (u rq : Nat) (s : WaitSt) : Except PyExc (ForInStep WaitSt) :=
  if (!!s.2.2.1.isEmpty) = true then .ok (.done (none, s.2.1, s.2.2.1, false))
  else
    match (QHeap.getArr s.2.1 s.2.2.1 rq).1 with
    | none => .ok (.yield (none, (QHeap.getArr s.2.1 s.2.2.1 rq).2.1, (QHeap.getArr s.2.1 s.2.2.1 rq).2.2, s.2.2.2))
    | some m =>
      if m.isDropComplete u = true then
        .ok (.done (some ((QHeap.getArr s.2.1 s.2.2.1 rq).2.1, (QHeap.getArr s.2.1 s.2.2.1 rq).2.2),
          (QHeap.getArr s.2.1 s.2.2.1 rq).2.1, (QHeap.getArr s.2.1 s.2.2.1 rq).2.2, s.2.2.2))
      else .ok (.yield (none, QHeap.put (QHeap.getArr s.2.1 s.2.2.1 rq).2.1 rq m, (QHeap.getArr s.2.1 s.2.2.1 rq).2.2, s.2.2.2))

def waitPost (r : Except PyExc WaitSt) : Except PyExc (QHeap × List (List QMsg)) :=
  match r with
  | .error e => .error e
  | .ok v =>
    match v.1 with
    | some r => .ok r
    | none => if v.2.2.2 = true then (if (!v.2.2.1.isEmpty) = true then .error .fuel else .ok (v.2.1, v.2.2.1)) else .ok (v.2.1, v.2.2.1)

theorem wait_unfold (self : Wm.Wm) (rq u : Nat) (qh : QHeap) (sched : List (List QMsg)) (fuel : Nat) :
    Wm.wait_for_drop_completion self rq u () qh sched fuel = waitPost (loopN (waitBody u rq) fuel (none, qh, sched, true)) := by
  unfold Wm.wait_for_drop_completion
  simp only [bind, Except.bind, pure, Except.pure, throw, throwThe, MonadExceptOf.throw]
  rw [forIn_range_eq_loopN, loopN_congr (g := waitBody u rq)]
  · generalize loopN (waitBody u rq) fuel (none, qh, sched, true) = r
    cases r with
    | error e => rfl
    | ok v =>
      simp only [waitPost]
      cases v.1 <;> rfl
  · intro st
    simp only [waitBody]
    split
    · rfl
    · cases (QHeap.getArr st.2.1 st.2.2.1 rq).1 <;> rfl

/-- the wait as a function of the arrival schedule: the heap and the unused rest of the schedule -/
def waitH (u rq : Nat) : List (List QMsg) → QHeap → QHeap × List (List QMsg)
  | [], h => (h, [])
  | a :: rest, h =>
    match QHeap.content h rq ++ a with
    | [] => waitH u rq rest (NDict.set h rq [])
    | m :: t => if m.isDropComplete u then (NDict.set h rq t, rest) else waitH u rq rest (QHeap.put (NDict.set h rq t) rq m)

theorem waitLoop (u rq : Nat) (n : Nat) : ∀ (qh : QHeap) (sched : List (List QMsg)), sched.length ≤ n →
    waitPost (loopN (waitBody u rq) n (none, qh, sched, true)) = .ok (waitH u rq sched qh) := by
  induction n with
  | zero =>
    intro qh sched h
    have : sched = [] := List.eq_nil_of_length_eq_zero (Nat.le_zero.1 h)
    subst this
    simp [loopN, waitPost, waitH]
  | succ n ih =>
    intro qh sched h
    cases sched with
    | nil => simp [loopN, waitBody, waitPost, waitH]
    | cons a rest =>
      have hr : rest.length ≤ n := by simpa using h
      simp only [loopN, waitBody, waitH, QHeap.getArr, List.headD_cons, List.tail_cons, List.isEmpty_cons, Bool.not_false, Bool.not_true, Bool.false_eq_true, if_false]
      cases hc : QHeap.content qh rq ++ a with
      | nil => simp only []; exact ih _ _ hr
      | cons m t =>
        simp only []
        cases hm : m.isDropComplete u with
        | true => simp [waitPost]
        | false => simp only [Bool.false_eq_true, if_false]; exact ih _ _ hr
/-- the model's result-queue messages as queue messages -/
def toQ : Life.Msg → QMsg
  | .done u => .str u
  | .dropComplete o => .dropComplete o

theorem toQ_isDropComplete (m : Life.Msg) (u : Nat) : (toQ m).isDropComplete u = decide (m = .dropComplete u) := by
  cases m with
  | done s => simp [toQ, QMsg.isDropComplete]
  | dropComplete o =>
    by_cases h : o = u
    · subst h; simp [toQ, QMsg.isDropComplete]
    · have : ¬ (QMsg.dropComplete o = QMsg.dropComplete u) := fun e => h (QMsg.dropComplete.inj e)
      simp [toQ, QMsg.isDropComplete, h, this]

/-- one queue of `poll_result_queues` on `(qheap, self)` -/
def pollStep (st : QHeap × Wm.Wm) (r : Nat) : Except PyExc (QHeap × Wm.Wm) :=
  match (QHeap.getNowait st.1 r).1 with
  | none => .ok ((QHeap.getNowait st.1 r).2, st.2)
  | some m =>
    if m.isTuple = true then .ok ((QHeap.getNowait st.1 r).2, st.2)
    else
      match m.toUuid with
      | .error e => .error e
      | .ok v => .ok ((QHeap.getNowait st.1 r).2, { st.2 with result_uuids_collection := PSet.add st.2.result_uuids_collection v })

theorem poll_unfold (self : Wm.Wm) (qh : QHeap) :
    Wm.poll_result_queues self qh = self.result_queues_collection.foldlM pollStep (qh, self) := by
  unfold Wm.poll_result_queues
  simp only [bind, Except.bind, pure, Except.pure]
  rw [forIn_foldlM _ _ _ pollStep]
  · cases List.foldlM pollStep (qh, self) self.result_queues_collection <;> rfl
  · intro r st
    simp only [pollStep]
    cases (QHeap.getNowait st.1 r).1 with
    | none => rfl
    | some m =>
      simp only
      split
      · rfl
      · cases m.toUuid <;> rfl

theorem pollFold : ∀ (hs : List Nat) (qs : List (List Life.Msg)) (qh : QHeap) (self : Wm.Wm), hs.Nodup →
    hs.map (QHeap.content qh) = qs.map (List.map toQ) →
    ∃ qh', hs.foldlM pollStep (qh, self) = .ok (qh', { self with result_uuids_collection := (poll qs self.result_uuids_collection).2 }) ∧
      hs.map (QHeap.content qh') = (poll qs self.result_uuids_collection).1.map (List.map toQ) ∧
      ∀ q, q ∉ hs → QHeap.content qh' q = QHeap.content qh q := by
  intro hs
  induction hs with
  | nil =>
    intro qs qh self _ hq
    cases qs with
    | nil => exact ⟨qh, by simp [poll, pure, Except.pure], by simp [poll], fun _ _ => rfl⟩
    | cons a t => simp at hq
  | cons r hs ih =>
    intro qs qh self hnd hq
    cases qs with
    | nil => simp at hq
    | cons q0 qs =>
      simp only [List.map_cons, List.cons.injEq] at hq
      obtain ⟨hq0, hqs⟩ := hq
      obtain ⟨hr, hnd'⟩ := List.nodup_cons.1 hnd
      have frame : ∀ (v : List QMsg), hs.map (QHeap.content (NDict.set qh r v)) = qs.map (List.map toQ) := by
        intro v
        rw [← hqs]
        apply List.map_congr_left
        intro q hq
        rw [content_set, if_neg (fun (e : r = q) => hr (e ▸ hq))]
      simp only [List.foldlM_cons, bind, Except.bind]
      cases q0 with
      | nil =>
        have hc : QHeap.content qh r = [] := by simpa using hq0
        obtain ⟨qh', h1, h2, h3⟩ := ih qs qh self hnd' hqs
        refine ⟨qh', ?_, ?_, ?_⟩
        · simp only [pollStep, QHeap.getNowait, hc, poll]; exact h1
        · simp only [poll, List.map_cons, h2, List.map_nil, List.cons.injEq, and_true]
          rw [h3 r hr, hc]
        · intro q hq; exact h3 q (fun h => hq (List.mem_cons_of_mem _ h))
      | cons m q =>
        have hc : QHeap.content qh r = toQ m :: q.map toQ := by simpa using hq0
        cases m with
        | done u =>
          obtain ⟨qh', h1, h2, h3⟩ := ih qs (NDict.set qh r (q.map toQ)) { self with result_uuids_collection := PSet.add self.result_uuids_collection u } hnd' (frame _)
          refine ⟨qh', ?_, ?_, ?_⟩
          · simp only [pollStep, QHeap.getNowait, hc, toQ, QMsg.isTuple, QMsg.toUuid, poll, Bool.false_eq_true, if_false]
            exact h1
          · simp only [poll, List.map_cons, List.cons.injEq]
            refine ⟨?_, h2⟩
            rw [h3 r hr, content_set, if_pos rfl]
          · intro q' hq'
            rw [h3 q' (fun h => hq' (List.mem_cons_of_mem _ h)), content_set, if_neg (fun (e : r = q') => hq' (e ▸ List.mem_cons_self))]
        | dropComplete o =>
          obtain ⟨qh', h1, h2, h3⟩ := ih qs (NDict.set qh r (q.map toQ)) self hnd' (frame _)
          refine ⟨qh', ?_, ?_, ?_⟩
          · simp only [pollStep, QHeap.getNowait, hc, toQ, QMsg.isTuple, poll, if_true]
            exact h1
          · simp only [poll, List.map_cons, List.cons.injEq]
            refine ⟨?_, h2⟩
            rw [h3 r hr, content_set, if_pos rfl]
          · intro q' hq'
            rw [h3 q' (fun h => hq' (List.mem_cons_of_mem _ h)), content_set, if_neg (fun (e : r = q') => hq' (e ▸ List.mem_cons_self))]
/-- `wait_for_drop_completion` on the heap is `Life.waitDrop` on the content of the result queue; other queues are untouched -/
theorem waitH_waitDrop (u rq : Nat) : ∀ (sched : List (List Life.Msg)) (qh : QHeap) (q : List Life.Msg),
    QHeap.content qh rq = q.map toQ →
    QHeap.content (waitH u rq (sched.map (List.map toQ)) qh).1 rq = (waitDrop u sched q).1.map toQ ∧
    ∀ q', q' ≠ rq → QHeap.content (waitH u rq (sched.map (List.map toQ)) qh).1 q' = QHeap.content qh q' := by
  intro sched
  induction sched with
  | nil => intro qh q hq; simp [waitH, waitDrop, hq]
  | cons a rest ih =>
    intro qh q hq
    simp only [List.map_cons, waitH, waitDrop, hq, ← List.map_append]
    cases hqa : q ++ a with
    | nil =>
      simp only [List.map_nil]
      obtain ⟨h1, h2⟩ := ih (NDict.set qh rq []) [] (by simp [content_set])
      refine ⟨h1, fun q' hq' => ?_⟩
      rw [h2 q' hq', content_set, if_neg (fun e => hq' e.symm)]
    | cons m t =>
      simp only [List.map_cons, toQ_isDropComplete]
      by_cases hm : m = .dropComplete u
      · simp only [hm, decide_true, if_true]
        refine ⟨by simp [content_set], fun q' hq' => ?_⟩
        rw [content_set, if_neg (fun e => hq' e.symm)]
      · simp only [hm, decide_false, Bool.false_eq_true, if_false]
        obtain ⟨h1, h2⟩ := ih (QHeap.put (NDict.set qh rq (t.map toQ)) rq (toQ m)) (t ++ [m]) (by simp [content_put, content_set])
        refine ⟨h1, fun q' hq' => ?_⟩
        rw [h2 q' hq', content_put, if_neg (fun e => hq' e.symm), content_set, if_neg (fun e => hq' e.symm)]
theorem waitH_frame (u rq : Nat) : ∀ (sched : List (List QMsg)) (qh : QHeap) (q' : Nat), q' ≠ rq →
    QHeap.content (waitH u rq sched qh).1 q' = QHeap.content qh q' := by
  intro sched
  induction sched with
  | nil => intro qh q' _; rfl
  | cons a rest ih =>
    intro qh q' hq'
    simp only [waitH]
    cases QHeap.content qh rq ++ a with
    | nil => simp only []; rw [ih _ _ hq', content_set, if_neg (fun e => hq' e.symm)]
    | cons m t =>
      simp only []
      split
      · rw [content_set, if_neg (fun e => hq' e.symm)]
      · rw [ih _ _ hq', content_put, if_neg (fun e => hq' e.symm), content_set, if_neg (fun e => hq' e.symm)]

/-! ### the orchestrator's world -/

/-- the drop commands among the messages of a command queue -/
def cmdSets (l : List QMsg) : List (List Nat) := l.filterMap (fun m => match m with | .set s => some s | _ => none)

theorem cmdSets_append_set (l : List QMsg) (F : List Nat) : cmdSets (l ++ [.set F]) = cmdSets l ++ [F] := by
  simp [cmdSets, List.filterMap_append]

/-- what the model's `Obj.queue` is: `some` = `process_register` has queues for the uuid; the drop commands put into the command queue -/
def queueOf (reg : NDict (Nat × Nat × Nat)) (qh : QHeap) (u : Nat) : Option (List (List Nat)) :=
  (Life.dget reg u).map (fun t => cmdSets (QHeap.content qh t.2.1))

/-- distinct queue objects have distinct handles: no command queue is a result queue, different uuids have different command queues -/
def regWF (reg : NDict (Nat × Nat × Nat)) : Bool :=
  reg.all (fun p => reg.all (fun p' => p.2.2.1 != p'.2.2.2 && (p.1 == p'.1 || p.2.2.1 != p'.2.2.1)))

theorem regWF_spec {reg : NDict (Nat × Nat × Nat)} (h : regWF reg = true) {u u' : Nat} {t t' : Nat × Nat × Nat}
    (hu : Life.dget reg u = some t) (hu' : Life.dget reg u' = some t') : t.2.1 ≠ t'.2.2 ∧ (u ≠ u' → t.2.1 ≠ t'.2.1) := by
  have := List.all_eq_true.1 (List.all_eq_true.1 h _ (dget_mem hu)) _ (dget_mem hu')
  simp only [Bool.and_eq_true, bne_iff_ne, ne_eq, Bool.or_eq_true, beq_iff_eq] at this
  refine ⟨this.1, fun hne => ?_⟩
  rcases this.2 with h | h
  · exact absurd h hne
  · exact h

/-- the Python values of the orchestrator as a `PyW` -/
def toW (o : Orch.Orch) (qh : QHeap) (finished store : PSet) (y : List (Nat × Nat)) : PyW :=
  { coll := o.cfw_collection, dlm := o.data_lifecycle_manager, flyway := o.cfw_register.uuid_flyway_datasets,
    qf := queueOf o.worker_manager.process_register qh, finished := finished, store := store, loc := o.location, yielded := y }

theorem absObjs_update (qf qf' : Nat → Option (List (List Nat))) (u : Nat) (c : Cfw.CfwObj) :
    ∀ (coll : NDict Cfw.CfwObj), (Life.dkeys coll).Nodup → Life.dget coll u = some c → (∀ u', u' ≠ u → qf' u' = qf u') →
    absObjs qf' coll = Life.dset (absObjs qf coll) u (absObj (qf' u) c) := by
  intro coll
  induction coll with
  | nil => intro _ h; simp [Life.dget] at h
  | cons a t ih =>
    intro hn hc hqf
    obtain ⟨k, v⟩ := a
    simp only [Life.dkeys, List.map_cons, List.nodup_cons] at hn
    by_cases hk : k = u
    · subst hk
      simp only [Life.dget, if_true, Option.some.injEq] at hc
      subst hc
      simp only [absObjs, List.map_cons, Life.dset, if_true, List.cons.injEq, true_and]
      apply List.map_congr_left
      intro p hp
      have : p.1 ≠ k := fun e => hn.1 (e ▸ List.mem_map.2 ⟨p, hp, rfl⟩)
      rw [hqf p.1 this]
    · simp only [Life.dget, hk, if_false] at hc
      have := ih hn.2 hc hqf
      simp only [absObjs, List.map_cons, Life.dset, hk, if_false, List.cons.injEq] at this ⊢
      exact ⟨by rw [hqf k hk], this⟩
theorem queueOf_after (reg : NDict (Nat × Nat × Nat)) (qh : QHeap) (u : Nat) (t : Nat × Nat × Nat) (F : List Nat) (sched : List (List QMsg))
    (hwf : regWF reg = true) (hu : Life.dget reg u = some t) :
    queueOf reg (waitH u t.2.2 sched (QHeap.put qh t.2.1 (.set F))).1 u = some (cmdSets (QHeap.content qh t.2.1) ++ [F]) ∧
    ∀ u', u' ≠ u → queueOf reg (waitH u t.2.2 sched (QHeap.put qh t.2.1 (.set F))).1 u' = queueOf reg qh u' := by
  constructor
  · simp only [queueOf, hu, Option.map_some]
    rw [waitH_frame _ _ _ _ _ (regWF_spec hwf hu hu).1, content_put, if_pos rfl, cmdSets_append_set]
  · intro u' hne
    simp only [queueOf]
    cases hu' : Life.dget reg u' with
    | none => rfl
    | some t' =>
      simp only [Option.map_some]
      rw [waitH_frame _ _ _ _ _ (regWF_spec hwf hu' hu).1, content_put, if_neg (fun e => (regWF_spec hwf hu hu').2 (fun e' => hne e'.symm) e)]

theorem dset_self {V : Type} (d : List (Nat × V)) (k : Nat) (v : V) (h : Life.dget d k = some v) : Life.dset d k v = d := by
  induction d with
  | nil => simp [Life.dget] at h
  | cons a t ih =>
    obtain ⟨k', v'⟩ := a
    by_cases hk : k' = k
    · subst hk
      simp only [Life.dget, if_true, Option.some.injEq] at h
      simp [Life.dset, h]
    · simp only [Life.dget, hk, if_false] at h
      simp [Life.dset, hk, ih h]

/-- what `_drop_data_if_possible` does to the model state: `Life.fgDone` after its result collection and without `finished_ids` -/
def dropModel (s : LS) (u : Nat) (ob : Life.Obj) (F : List Nat) : LS :=
  { s with objs := Life.dset s.objs u (dropObj ob F), store := rm s.store (dropKey s.loc ob F), track := dropTrack s u ob F }

/-! ### the worker process -/

/-- the model's worker commands as queue messages -/
def toCmd : WCmd → QMsg
  | .stop => .stop
  | .drop F => .set F
  | .step id _ _ _ => .obj id

def toRes : Life.StepRes → Worker.StepRes
  | .table => .table
  | .key => .key
  | .raise => .raise

/-- the model's worker state of the Python values: the object, the content of the result queue (`out`), the store, the error flag -/
def absWS (c : Cfw.CfwObj) (out : List Life.Msg) (store : PSet) (error : Bool) (stops unread : Nat) : WS :=
  { cfw := absCfw c, table := isTable c, alive := true, out := out, store := store, error := error, ownStops := stops, unread := unread }

/-- what the bridge compares: object, table?, result queue, command queue, store, error flag, "the loop goes on" -/
abbrev View := Store.Cfw × Bool × List QMsg × List QMsg × List Nat × Bool × Bool

instance : DecidableEq Store.Cfw := fun a b => by
  cases a; cases b; simp only [Store.Cfw.mk.injEq]; exact inferInstance

def wsView (w : WS) (rest : List QMsg) (stops : Nat) : View :=
  (w.cfw, w.table, w.out.map toQ, rest ++ List.replicate (w.ownStops - stops) .stop, w.store, w.error, w.alive)

def pyView (cq rq : Nat) (r : Cfw.CfwObj × PData × QHeap × PSet × Bool × List String) : View :=
  (absCfw r.1, isTable r.1, QHeap.content r.2.2.1 rq, QHeap.content r.2.2.1 cq, r.2.2.2.1, r.2.2.2.2.1, r.2.2.2.2.2.isEmpty)

theorem add_eq_addKey (s : PSet) (x : Nat) : PSet.add s x = addKey s x := rfl

end LifeGen
