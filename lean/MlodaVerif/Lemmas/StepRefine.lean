import MlodaVerif.Lemmas.StepComm
import MlodaVerif.Lemmas.Exec
/-! The statement-level model of a link-free plan on one shared object refines `Exec`: the block of statements up to the read of
`self.data` is `Exec`'s `begin` (snapshot), the rest is its `finish` (write-back). -/
namespace StepExec
open Sched Exec

variable {V : Type}

theorem prog_fgOfCfg (fw : Fw) (cfg : Cfg V) (st : Step) :
    prog fw (fgOfCfg cfg st) = [.valIn, .read, .call, .write, .setCols, .valOut] := by
  cases fw <;> simp [prog, fgOfCfg]

/-- a `data` value that is None or one of the object's tables -/
def Valid (o : Obj V) (v : Val) : Prop := v = .none ∨ ∃ k, v = .ref k ∧ k < o.cells.length

theorem tableAt_storeNew_old (o : Obj V) (t : Table V) (v : Val) (hv : Valid o v) : tableAt (storeNew o t) v = tableAt o v := by
  rcases hv with rfl | ⟨k, rfl, hk⟩
  · rfl
  · simp [tableAt, storeNew, List.getElem?_append_left hk]

theorem tableAt_storeNew_data (o : Obj V) (t : Table V) : tableAt (storeNew o t) (storeNew o t).data = some t := by
  simp [tableAt, storeNew]

theorem valid_storeNew (o : Obj V) (t : Table V) (v : Val) (hv : Valid o v) : Valid (storeNew o t) v := by
  rcases hv with rfl | ⟨k, rfl, hk⟩
  · exact Or.inl rfl
  · exact Or.inr ⟨k, rfl, by simp [storeNew]; omega⟩

theorem valid_storeNew_data (o : Obj V) (t : Table V) : Valid (storeNew o t) (storeNew o t).data :=
  Or.inr ⟨o.cells.length, rfl, by simp [storeNew]⟩

theorem descsOf_get (cfg : Cfg V) (p : Plan) (i : Nat) (st : Step) (h : p[i]? = some st) :
    (descsOf cfg p)[i]? = some (fgOfCfg cfg st) := by
  simp [descsOf, List.getElem?_map, h]

theorem descsOf_get_none (cfg : Cfg V) (p : Plan) (i : Nat) (h : p[i]? = none) : (descsOf cfg p)[i]? = none := by
  simp [descsOf, List.getElem?_map, h]

/-- one micro-step on the single shared object -/
theorem mstep_one (cfg : Cfg V) (p : Plan) (σ : MSt V) (i : Nat) (st : Step) (l l' : Local V) (o o' : Obj V)
    (hp : p[i]? = some st) (hl : σ.locs[i]? = some l) (ho : σ.objs = [o])
    (he : effect (fgOfCfg cfg st) l o o = .ok l' o') :
    mstep (descsOf cfg p) σ i = { objs := [o'], locs := σ.locs.set i l' } := by
  rw [mstep_eq _ σ i _ (descsOf_get cfg p i st hp)]
  have h0 : σ.objs[(fgOfCfg cfg st).obj]? = some o := by simp [fgOfCfg, ho]
  have h1 : σ.objs[(fgOfCfg cfg st).src]? = some o := by simp [fgOfCfg, ho]
  simp only [rd, hl, h0, h1, he, applyEff]
  simp [fgOfCfg, ho]

theorem eff_valIn (cfg : Cfg V) (st : Step) (l : Local V) (o : Obj V) (hpc : l.pc = 0) (herr : l.err = none) (hv : Valid o o.data) :
    effect (fgOfCfg cfg st) l o o = .ok { l with pc := 1 } o := by
  unfold effect
  rw [prog_fgOfCfg]
  simp only [herr, Option.isSome_none, Bool.false_eq_true, ↓reduceIte, hpc, List.getElem?_cons_zero]
  rcases hv with h | ⟨k, h, hk⟩
  · simp [exec, h, herr, hpc]
  · have : o.cells[k]? = some o.cells[k] := List.getElem?_eq_getElem hk
    simp [exec, h, tableAt, this, fgOfCfg, herr, hpc]

theorem eff_read (cfg : Cfg V) (st : Step) (l : Local V) (o : Obj V) (hpc : l.pc = 1) (herr : l.err = none) :
    effect (fgOfCfg cfg st) l o o = .ok { l with x := o.data, pc := 2 } o := by
  unfold effect
  rw [prog_fgOfCfg]
  simp [herr, hpc, exec]

theorem eff_call (cfg : Cfg V) (st : Step) (l : Local V) (o : Obj V) (hpc : l.pc = 2) (herr : l.err = none) :
    effect (fgOfCfg cfg st) l o o =
      .ok { l with res := some (written cfg ((tableAt o l.x).getD []) st.outs), pc := 3 } o := by
  unfold effect
  rw [prog_fgOfCfg]
  simp [herr, hpc, exec, fgOfCfg, written]

theorem eff_write (cfg : Cfg V) (st : Step) (l : Local V) (o : Obj V) (t : Table V) (hpc : l.pc = 3) (herr : l.err = none)
    (hres : l.res = some t) :
    effect (fgOfCfg cfg st) l o o = .ok { l with res := none, pc := 4 } (storeNew o t) := by
  unfold effect
  rw [prog_fgOfCfg]
  cases hfw : o.fw <;> simp [herr, hpc, exec, fgOfCfg, hres, hfw]

theorem eff_setCols (cfg : Cfg V) (st : Step) (l : Local V) (o : Obj V) (t : Table V) (hpc : l.pc = 4) (herr : l.err = none)
    (ht : tableAt o o.data = some t) :
    effect (fgOfCfg cfg st) l o o = .ok { l with pc := 5 } { o with colNames := colsOf t } := by
  unfold effect
  rw [prog_fgOfCfg]
  simp [herr, hpc, exec, setCols, ht, Except.map]

theorem eff_valOut (cfg : Cfg V) (st : Step) (l : Local V) (o : Obj V) (t : Table V) (hpc : l.pc = 5) (herr : l.err = none)
    (ht : tableAt o o.data = some t) :
    effect (fgOfCfg cfg st) l o o = .ok { l with pc := 6 } o := by
  unfold effect
  rw [prog_fgOfCfg]
  simp only [herr, Option.isSome_none, Bool.false_eq_true, ↓reduceIte, hpc]
  cases hd : o.data with
  | none => simp [exec, hd, herr, hpc]
  | key => rw [hd] at ht; simp [tableAt] at ht
  | ref k => rw [hd] at ht; simp [exec, hd, ht, fgOfCfg, herr, hpc]

/-- the registers of a step after its `begin` block -/
def beginLoc (o : Obj V) : Local V := { pc := 2, x := o.data }

theorem begin_block (cfg : Cfg V) (p : Plan) (σ : MSt V) (i : Nat) (st : Step) (o : Obj V)
    (hp : p[i]? = some st) (hl : σ.locs[i]? = some {}) (ho : σ.objs = [o]) (hv : Valid o o.data) :
    mrunN (descsOf cfg p) σ i 2 = { objs := [o], locs := σ.locs.set i (beginLoc o) } := by
  have hlt : i < σ.locs.length := by
    rcases Nat.lt_or_ge i σ.locs.length with h | h
    · exact h
    · rw [List.getElem?_eq_none h] at hl; cases hl
  have h1 : mstep (descsOf cfg p) σ i = { objs := [o], locs := σ.locs.set i { pc := 1 } } :=
    mstep_one cfg p σ i st {} { pc := 1 } o o hp hl ho (eff_valIn cfg st {} o rfl rfl hv)
  have h2 : mstep (descsOf cfg p) { objs := [o], locs := σ.locs.set i { pc := 1 } } i
      = { objs := [o], locs := (σ.locs.set i { pc := 1 }).set i (beginLoc o) } :=
    mstep_one cfg p _ i st { pc := 1 } (beginLoc o) o o hp (by simp [List.getElem?_set_self hlt]) rfl
      (eff_read cfg st { pc := 1 } o rfl rfl)
  simp only [mrunN, mrun, List.replicate, List.foldl_cons, List.foldl_nil, h1, h2, List.set_set]

/-- the object after the `finish` block of a step that read `v` -/
def finishObj (cfg : Cfg V) (st : Step) (o : Obj V) (v : Val) : Obj V :=
  { storeNew o (written cfg ((tableAt o v).getD []) st.outs) with
    colNames := colsOf (written cfg ((tableAt o v).getD []) st.outs) }

theorem finish_block (cfg : Cfg V) (p : Plan) (σ : MSt V) (i : Nat) (st : Step) (o : Obj V) (l : Local V)
    (hp : p[i]? = some st) (hl : σ.locs[i]? = some l) (ho : σ.objs = [o]) (hpc : l.pc = 2) (herr : l.err = none) :
    ∃ l', mrunN (descsOf cfg p) σ i 4 = { objs := [finishObj cfg st o l.x], locs := σ.locs.set i l' } := by
  have hlt : i < σ.locs.length := by
    rcases Nat.lt_or_ge i σ.locs.length with h | h
    · exact h
    · rw [List.getElem?_eq_none h] at hl; cases hl
  let t := written cfg ((tableAt o l.x).getD []) st.outs
  let l1 : Local V := { l with res := some t, pc := 3 }
  let l2 : Local V := { l1 with res := none, pc := 4 }
  let l3 : Local V := { l2 with pc := 5 }
  let l4 : Local V := { l3 with pc := 6 }
  let o2 : Obj V := storeNew o t
  let o3 : Obj V := { o2 with colNames := colsOf t }
  have h1 : mstep (descsOf cfg p) σ i = { objs := [o], locs := σ.locs.set i l1 } :=
    mstep_one cfg p σ i st l l1 o o hp hl ho (eff_call cfg st l o hpc herr)
  have h2 : mstep (descsOf cfg p) { objs := [o], locs := σ.locs.set i l1 } i = { objs := [o2], locs := σ.locs.set i l2 } := by
    rw [mstep_one cfg p _ i st l1 l2 o o2 hp (by simp [List.getElem?_set_self hlt]) rfl (eff_write cfg st l1 o t rfl herr rfl)]
    simp only [List.set_set]
  have h3 : mstep (descsOf cfg p) { objs := [o2], locs := σ.locs.set i l2 } i = { objs := [o3], locs := σ.locs.set i l3 } := by
    rw [mstep_one cfg p _ i st l2 l3 o2 o3 hp (by simp [List.getElem?_set_self hlt]) rfl
      (eff_setCols cfg st l2 o2 t rfl herr (tableAt_storeNew_data o t))]
    simp only [List.set_set]
  have h4 : mstep (descsOf cfg p) { objs := [o3], locs := σ.locs.set i l3 } i = { objs := [o3], locs := σ.locs.set i l4 } := by
    rw [mstep_one cfg p _ i st l3 l4 o3 o3 hp (by simp [List.getElem?_set_self hlt]) rfl
      (eff_valOut cfg st l3 o3 t rfl herr (by simp [o3, o2, tableAt, storeNew]))]
    simp only [List.set_set]
  refine ⟨l4, ?_⟩
  simp only [mrunN, mrun, List.replicate, List.foldl_cons, List.foldl_nil, h1, h2, h3, h4]
  rfl

/-! ### the simulation -/

structure XInv (cfg : Cfg V) (p : Plan) (x : XSt V) (e : ESt V) : Prop where
  s_eq : x.s = e.s
  sinv : SInv p e.s
  len : x.m.locs.length = p.length
  obj : ∃ o, x.m.objs = [o] ∧ Valid o o.data ∧ (tableAt o o.data).getD [] = e.store ∧
        (∀ i, i ∈ e.s.begun → i ∉ e.s.done → ∃ l, x.m.locs[i]? = some l ∧ l.pc = 2 ∧ l.err = none ∧ Valid o l.x ∧
            (tableAt o l.x).getD [] = snapOf e i)
  fresh : ∀ i, i < p.length → i ∉ e.s.begun → x.m.locs[i]? = some {}

theorem xinv_init (cfg : Cfg V) (p : Plan) (fw : Fw) : XInv cfg p (xinit fw p : XSt V) (einit : ESt V) := by
  refine ⟨rfl, sinv_init p, by simp [xinit, init], ⟨{ fw := fw }, rfl, Or.inl rfl, rfl, ?_⟩, ?_⟩
  · intro i hi; simp [einit] at hi
  · intro i hi _
    simp [xinit, init, List.getElem?_replicate, hi]

theorem snapOf_cons_ne (e₁ e₂ : ESt V) (j i : Nat) (t : List (Nat × V)) (hs : e₁.snaps = (j, t) :: e₂.snaps) (h : i ≠ j) :
    snapOf e₁ i = snapOf e₂ i := by
  have : (j == i) = false := by simpa using fun h' => h h'.symm
  simp [snapOf, hs, this]

theorem snapOf_cons_self (e₁ : ESt V) (j : Nat) (t : List (Nat × V)) (sn : List (Nat × List (Nat × V))) (hs : e₁.snaps = (j, t) :: sn) :
    snapOf e₁ j = t := by
  simp [snapOf, hs]

theorem xinv_step {cfg : Cfg V} {p : Plan} (hd : DisjointOuts p) (atomic : Bool) {x : XSt V} {e : ESt V}
    (hi : XInv cfg p x e) (ev : Ev) : XInv cfg p (xstep cfg atomic p x ev) (estep cfg atomic p e ev) := by
  obtain ⟨hs, hsinv, hlen, ⟨o, hobjs, hvo, hstore, hopen⟩, hfresh⟩ := hi
  cases ev with
  | scan i =>
    simp only [xstep, estep]
    refine ⟨by rw [hs], sinv_step hd hsinv (.scan i), hlen, ⟨o, hobjs, hvo, hstore, ?_⟩, ?_⟩
    · intro j hj hnd
      have hb : (stepEv p e.s (.scan i)).begun = e.s.begun := by
        simp only [stepEv]; repeat' split
        all_goals simp [markFinished]
      rw [hb] at hj; rw [done_scan] at hnd
      exact hopen j hj hnd
    · intro j hj hnb
      have hb : (stepEv p e.s (.scan i)).begun = e.s.begun := by
        simp only [stepEv]; repeat' split
        all_goals simp [markFinished]
      rw [hb] at hnb
      exact hfresh j hj hnb
  | loopHead =>
    simp only [xstep, estep]
    have hb : (stepEv p e.s .loopHead).begun = e.s.begun := by
      simp only [stepEv]; repeat' split
      all_goals rfl
    refine ⟨by rw [hs], sinv_step hd hsinv .loopHead, hlen, ⟨o, hobjs, hvo, hstore, ?_⟩, ?_⟩
    · intro j hj hnd
      rw [hb] at hj; rw [done_loopHead] at hnd
      exact hopen j hj hnd
    · intro j hj hnb
      rw [hb] at hnb
      exact hfresh j hj hnb
  | fail i =>
    simp only [xstep, estep]
    have hb : (stepEv p e.s (.fail i)).begun = e.s.begun := by
      simp only [stepEv]; split <;> rfl
    refine ⟨by rw [hs], sinv_step hd hsinv (.fail i), hlen, ⟨o, hobjs, hvo, hstore, ?_⟩, ?_⟩
    · intro j hj hnd
      rw [hb] at hj; rw [done_fail] at hnd
      exact hopen j hj hnd
    · intro j hj hnb
      rw [hb] at hnb
      exact hfresh j hj hnb
  | begin i =>
    simp only [xstep, estep, hs]
    split
    · exact ⟨hs, hsinv, hlen, ⟨o, hobjs, hvo, hstore, hopen⟩, hfresh⟩
    · have hdone : (stepEv p e.s (.begin i)).done = e.s.done := by
        simp only [stepEv]; split <;> rfl
      split
      · rename_i hnew
        -- i is newly begun: it was started, so it is a step of the plan
        have hcond : i ∈ e.s.started ∧ i ∉ e.s.begun ∧ i ∉ e.s.failed := by
          by_cases hc : i ∈ e.s.started ∧ i ∉ e.s.begun ∧ i ∉ e.s.failed
          · exact hc
          · exfalso; simp only [stepEv, hc, ↓reduceIte] at hnew; exact hnew.2 hnew.1
        have hs' : stepEv p e.s (.begin i) = { e.s with begun := i :: e.s.begun } := by
          simp only [stepEv, hcond, not_false_eq_true, and_self, ↓reduceIte]
        obtain ⟨st, hst⟩ := hsinv.started_valid i hcond.1
        have hilt : i < p.length := by
          rcases Nat.lt_or_ge i p.length with h | h
          · exact h
          · rw [List.getElem?_eq_none h] at hst; cases hst
        have hloc := hfresh i hilt hcond.2.1
        rw [begin_block cfg p x.m i st o hst hloc hobjs hvo]
        refine ⟨rfl, sinv_step hd hsinv (.begin i), by simp [hlen], ⟨o, rfl, hvo, hstore, ?_⟩, ?_⟩
        · intro j hj hnd
          simp only at hj hnd ⊢
          rw [hdone] at hnd
          by_cases hji : j = i
          · subst hji
            have hjlt : j < x.m.locs.length := by rw [hlen]; exact hilt
            refine ⟨beginLoc o, by simp [List.getElem?_set_self hjlt], rfl, rfl, hvo, ?_⟩
            rw [snapOf_cons_self _ j e.store e.snaps rfl]
            exact hstore
          · have hj' : j ∈ e.s.begun := by
              rw [hs'] at hj; simp at hj
              rcases hj with h | h
              · exact absurd h hji
              · exact h
            obtain ⟨l, h1, h2, h3, h4, h5⟩ := hopen j hj' hnd
            have hne : i ≠ j := fun e => hji e.symm
            refine ⟨l, by simp [List.getElem?_set_ne hne, h1], h2, h3, h4, ?_⟩
            rw [snapOf_cons_ne _ e i j e.store rfl hji]
            exact h5
        · intro j hj hnb
          simp only at hnb ⊢
          have hji : j ≠ i := by
            intro e'; subst e'; apply hnb; rw [hs']; simp
          have hnb' : j ∉ e.s.begun := by
            intro h; apply hnb; rw [hs']; simp [h]
          have hne : i ≠ j := fun e => hji e.symm
          simp [List.getElem?_set_ne hne, hfresh j hj hnb']
      · rename_i hnot
        have hsame : stepEv p e.s (.begin i) = e.s := by
          by_cases hc : i ∈ e.s.started ∧ i ∉ e.s.begun ∧ i ∉ e.s.failed
          · exfalso; apply hnot
            refine ⟨?_, hc.2.1⟩
            simp [stepEv, hc.1, hc.2.1, hc.2.2]
          · simp [stepEv, hc]
        simp only [hsame]
        exact ⟨rfl, hsinv, hlen, ⟨o, hobjs, hvo, hstore, hopen⟩, hfresh⟩
  | finish i =>
    simp only [xstep, estep, hs]
    split
    · rename_i hnew
      have hcond : i ∈ e.s.begun ∧ i ∉ e.s.done ∧ i ∉ e.s.failed := by
        by_cases hc : i ∈ e.s.begun ∧ i ∉ e.s.done ∧ i ∉ e.s.failed
        · exact hc
        · exfalso; simp only [stepEv, hc, ↓reduceIte] at hnew; exact hnew.2 hnew.1
      have hs' : stepEv p e.s (.finish i) = { e.s with done := i :: e.s.done } := by
        simp only [stepEv, hcond, not_false_eq_true, and_self, ↓reduceIte]
      have hstarted : i ∈ e.s.started := hsinv.begun_sub i hcond.1
      obtain ⟨st, hst⟩ := hsinv.started_valid i hstarted
      have houts : estep.outsOf' p i = st.outs := by simp [estep.outsOf', hst]
      obtain ⟨l, h1, h2, h3, h4, h5⟩ := hopen i hcond.1 hcond.2.1
      obtain ⟨l', hrun⟩ := finish_block cfg p x.m i st o l hst h1 hobjs h2 h3
      rw [hrun]
      have hbeg : (stepEv p e.s (.finish i)).begun = e.s.begun := by rw [hs']
      refine ⟨rfl, sinv_step hd hsinv (.finish i), by simp [hlen], ⟨finishObj cfg st o l.x, rfl, ?_, ?_, ?_⟩, ?_⟩
      · exact valid_storeNew_data o _
      · simp only [finishObj, houts]
        have : tableAt ({ storeNew o (written cfg ((tableAt o l.x).getD []) st.outs) with
            colNames := colsOf (written cfg ((tableAt o l.x).getD []) st.outs) } : Obj V)
            (storeNew o (written cfg ((tableAt o l.x).getD []) st.outs)).data
            = some (written cfg ((tableAt o l.x).getD []) st.outs) := by
          simp [tableAt, storeNew]
        rw [this, h5]; rfl
      · intro j hj hnd
        simp only at hj hnd ⊢
        rw [hbeg] at hj
        have hji : j ≠ i := by
          intro e'; subst e'; apply hnd; rw [hs']; simp
        have hnd' : j ∉ e.s.done := by
          intro h; apply hnd; rw [hs']; simp [h]
        obtain ⟨lj, g1, g2, g3, g4, g5⟩ := hopen j hj hnd'
        have hne : i ≠ j := fun e => hji e.symm
        refine ⟨lj, by simp [List.getElem?_set_ne hne, g1], g2, g3, ?_, ?_⟩
        · have := valid_storeNew o (written cfg ((tableAt o l.x).getD []) st.outs) lj.x g4
          rcases this with h | ⟨k, hk1, hk2⟩
          · exact Or.inl h
          · exact Or.inr ⟨k, hk1, by simpa [finishObj] using hk2⟩
        · have hta : tableAt (finishObj cfg st o l.x) lj.x = tableAt o lj.x := by
            have := tableAt_storeNew_old o (written cfg ((tableAt o l.x).getD []) st.outs) lj.x g4
            rcases g4 with h | ⟨k, hk1, hk2⟩
            · rw [h]; rfl
            · rw [hk1] at this ⊢
              simpa [finishObj, tableAt] using this
          rw [hta]
          exact g5
      · intro j hj hnb
        simp only at hnb ⊢
        rw [hbeg] at hnb
        have hji : i ≠ j := by
          intro e'; subst e'; exact hnb hcond.1
        simp [List.getElem?_set_ne hji, hfresh j hj hnb]
    · rename_i hnot
      have hsame : stepEv p e.s (.finish i) = e.s := by
        by_cases hc : i ∈ e.s.begun ∧ i ∉ e.s.done ∧ i ∉ e.s.failed
        · exfalso; apply hnot
          refine ⟨?_, hc.2.1⟩
          simp [stepEv, hc.1, hc.2.1, hc.2.2]
        · simp [stepEv, hc]
      simp only [hsame]
      exact ⟨rfl, hsinv, hlen, ⟨o, hobjs, hvo, hstore, hopen⟩, hfresh⟩

theorem xinv_run {cfg : Cfg V} {p : Plan} (hd : DisjointOuts p) (atomic : Bool) (fw : Fw) (evs : List Ev) :
    XInv cfg p (xrun cfg atomic p (xinit fw p) evs) (erun cfg atomic p einit evs) := by
  suffices ∀ (x : XSt V) (e : ESt V), XInv cfg p x e → XInv cfg p (xrun cfg atomic p x evs) (erun cfg atomic p e evs) from
    this _ _ (xinv_init cfg p fw)
  induction evs with
  | nil => intro x e h; exact h
  | cons ev es ih => intro x e h; exact ih _ _ (xinv_step hd atomic h ev)

end StepExec
