import MlodaVerif.Model.Options
import MlodaVerif.Gen.OptionsGen
import MlodaVerif.Lemmas.OptionsMerge
/-! # helper lemmas for `Props/C15_gen2.lean`: the translation of `options.py` / `options_validator.py` /
`Features.merge_options` (`Gen/OptionsGen.lean`) against the model `Model/Options.lean`

* `C15g.toExc` / `toRes` / `strsOf`: how a model result (state after the call, error tag) reads as a result of the translation
  (`Except (PyExc × Options) Options`: the error carries the state at the raise).
* `OptGen2`: `for` loops in `Except ε` for an arbitrary error type, string-set facts, the validators, the protected-key set,
  the pieces of `update_with_protected_keys` and of `merge_options`. -/
open PyRt

namespace C15g

/-- the exception a model error tag stands for (the f-string holes are `{}`) -/
def toExc : OptErr → PyExc
  | .dupKeys => .valueError "Keys cannot exist in both group and context: {}"
  | .propMissing => .valueError "propagate_context_keys {} not found in context"
  | .groupDiff => .valueError "Key {} already exists in group options with a different value: {}"
  | .inContext => .valueError "Key {} already exists in context options. Cannot add to group."
  | .ctxDiff => .valueError "Key {} already exists in context options with a different value: {}"
  | .inGroup => .valueError "Key {} already exists in group options. Cannot add to context."
  | .groupCtxConflict => .valueError "Cannot update group: keys already exist in context: {}"
  | .ctxGroupConflict => .valueError "Cannot propagate context: keys already exist in group: {}"
  | .ctxConflict => .valueError "Context key '{}' conflict: parent='{}', child='{}'"
  | .mergeConflict => .valueError "Duplicate key '{}' found with conflicting values. Parent has '{}', child has '{}'. Protected keys that can differ: {}"
  | .notIterable => .typeError "object is not iterable"
  | .unhashable => .typeError "unhashable type"

/-- the model's "state after the call and the error" as the translation's result: normal return of the state, or the exception
together with the state at the raise -/
def toRes : Options × Option OptErr → Except (PyExc × Options) Options
  | (o, none) => .ok o
  | (o, some e) => .error (toExc e, o)

/-- the string elements of a set of arbitrary hashable values (no other element can equal an option key) -/
def strsOf (ps : List PyVal) : List String := ps.filterMap (fun x => match x with | .str s => some s | _ => none)

end C15g

namespace OptGen2
open C15g PyDict

/-! ### `for` loops in `Except ε` (any error type: `PyExc` or `PyExc × state`) -/

/-- a `for` loop whose body only goes on (with a new state) or raises is the monadic fold of the state update -/
theorem forIn_foldlM {α σ ε : Type} (l : List α) (init : σ) (f : α → σ → Except ε (ForInStep σ)) (g : σ → α → Except ε σ)
    (h : ∀ a s, f a s = match g s a with | .ok s' => .ok (.yield s') | .error e => .error e) :
    forIn l init f = l.foldlM g init := by
  induction l generalizing init with
  | nil => rfl
  | cons a t ih =>
    simp only [List.forIn_cons, List.foldlM_cons, bind, Except.bind, h]
    cases g init a with
    | error e => rfl
    | ok s' => exact ih s'

/-- a `for` loop whose body never raises, breaks or returns early is the fold of its body's state update -/
theorem forIn_yield {α σ ε : Type} (xs : List α) (body : α → σ → Except ε (ForInStep σ)) (g : σ → α → σ)
    (h : ∀ a s, body a s = .ok (.yield (g s a))) (s : σ) :
    forIn xs s body = .ok (xs.foldl g s) := by
  induction xs generalizing s with
  | nil => rfl
  | cons a t ih => simp [List.forIn_cons, h, ih, bind, Except.bind]

/-- a `for` loop without state of its own whose body raises one fixed exception on a "bad" element (and goes on / `continue`s
otherwise): it raises iff some element is bad -/
theorem forIn_check {α ε : Type} (l : List α) (f : α → PUnit → Except ε (ForInStep PUnit)) (bad : α → Bool) (e : ε)
    (h : ∀ a s, f a s = if bad a then .error e else .ok (.yield PUnit.unit)) :
    forIn l PUnit.unit f = if l.any bad then .error e else .ok PUnit.unit := by
  induction l with
  | nil => rfl
  | cons a t ih =>
    simp only [List.forIn_cons, List.any_cons, bind, Except.bind, h]
    by_cases hb : bad a = true
    · simp [hb]
    · simp only [hb, Bool.false_or]
      simpa using ih

/-! ### string sets -/

theorem filter_nonempty {α : Type} (l : List α) (p : α → Bool) : (!(l.filter p).isEmpty) = l.any p := by
  induction l with
  | nil => rfl
  | cons a t ih =>
    cases h : p a with
    | true => simp [h]
    | false => simpa [h] using ih

theorem any_eraseDups (l : List String) (p : String → Bool) : (List.eraseDups l).any p = l.any p := by
  rw [Bool.eq_iff_iff]; simp [List.any_eq_true, List.mem_eraseDups]

theorem contains_eraseDups (l : List String) (k : String) : (List.eraseDups l).contains k = l.contains k := by
  rw [Bool.eq_iff_iff]; simp [List.mem_eraseDups]

/-- `a & b` is non-empty iff some element of `a` is in `b` -/
theorem inter_nonempty' (a b : List String) : (!(StrSet.inter a b).isEmpty) = a.any (fun k => b.contains k) :=
  filter_nonempty a _

/-- `set(a) & set(b)` is non-empty iff some element of `a` is in `b` -/
theorem inter_nonempty (a b : List String) :
    (!(StrSet.inter (List.eraseDups a) (List.eraseDups b)).isEmpty) = a.any (fun k => b.contains k) := by
  rw [inter_nonempty', any_eraseDups]
  congr 1; funext k; exact contains_eraseDups b k

/-- `p - set(c)` is non-empty iff some element of `p` is not in `c` -/
theorem diff_nonempty (p c : List String) :
    (!(StrSet.diff p (List.eraseDups c)).isEmpty) = p.any (fun k => !(c.contains k)) := by
  unfold StrSet.diff
  rw [filter_nonempty]
  congr 1; funext k; rw [contains_eraseDups]

/-- `k in d` is "`d.get(k)` finds something" -/
theorem has_eq_isSome (d : PyDict) (k : String) : PyDict.has d k = (PyDict.get? d k).isSome := by
  cases h : PyDict.get? d k with
  | none =>
    have := (OptDict.lookup_none_iff (d := d) (k := k)).1 h
    simpa [OptInv.has_false_iff, PyDict.keys, PyVal.keysOf] using this
  | some v =>
    have : k ∈ PyVal.keysOf d := by
      apply Classical.byContradiction; intro hn
      have := (OptDict.lookup_none_iff (d := d) (k := k)).2 hn
      rw [PyDict.get?] at h; rw [h] at this; cases this
    simpa [OptInv.has_iff, PyDict.keys, PyVal.keysOf] using this

/-! ### sets of arbitrary hashable values: only their string elements matter -/

/-- only the string `k` itself is `==` to the string `k` -/
theorem pyEq_str (k : String) (y : PyVal) : PyVal.pyEq (.str k) y = true ↔ y = .str k := by
  cases y <;> simp [PyVal.pyEq]
  exact eq_comm

theorem strsOf_cons_str (k : String) (ps : List PyVal) : strsOf (.str k :: ps) = k :: strsOf ps := rfl

theorem strsOf_cons_nonstr (x : PyVal) (ps : List PyVal) (h : ∀ k, x ≠ .str k) : strsOf (x :: ps) = strsOf ps := by
  cases x <;> first | rfl | exact absurd rfl (h _)

theorem mem_strsOf (ps : List PyVal) (k : String) : k ∈ strsOf ps ↔ PyVal.str k ∈ ps := by
  unfold strsOf
  rw [List.mem_filterMap]
  constructor
  · rintro ⟨a, ha, h⟩
    cases a <;> simp at h
    subst h; exact ha
  · intro h; exact ⟨_, h, rfl⟩

/-- `k in s` for a set of arbitrary hashable values looks at the string elements only -/
theorem hasStr_eq (ps : List PyVal) (k : String) : PySet.hasStr ps k = (strsOf ps).contains k := by
  rw [Bool.eq_iff_iff]
  simp only [PySet.hasStr, List.any_eq_true, pyEq_str, List.contains_iff_mem, mem_strsOf]
  constructor
  · rintro ⟨x, hx, rfl⟩; exact hx
  · intro h; exact ⟨_, h, rfl⟩


/-! ### the loops of `update_with_protected_keys` -/

/-- what one round of `if protected_key in other_group_copy: del other_group_copy[protected_key]` does -/
def delStep (d : PyDict) (pk : PyVal) : PyDict :=
  match pk with
  | .str k => PyDict.del d k
  | _ => d

theorem del_absent (d : PyDict) (k : String) (h : PyDict.has d k = false) : PyDict.del d k = d := by
  unfold PyDict.del
  rw [List.filter_eq_self]
  intro kv hkv
  have hk : k ∉ PyDict.keys d := OptInv.has_false_iff.1 h
  have : kv.1 ≠ k := by
    intro he; apply hk; rw [← he]; exact List.mem_map_of_mem hkv
  simpa using this

/-- the guarded `del` never raises -/
theorem delLoop_body {ε : Type} (lift : Except PyExc PyDict → Except ε PyDict) (hl : ∀ d, lift (.ok d) = .ok d) (d : PyDict) (pk : PyVal) :
    (if PyDict.hasVal d pk = true then (do let d' ← lift (PyDict.delVal d pk); pure (ForInStep.yield d')) else pure (ForInStep.yield d) : Except ε (ForInStep PyDict))
      = .ok (.yield (delStep d pk)) := by
  cases pk with
  | str k =>
    simp only [PyDict.hasVal, PyDict.delVal, PyDict.delItem, delStep]
    by_cases h : PyDict.has d k = true
    · simp [h, hl, bind, Except.bind, pure, Except.pure]
    · have h' : PyDict.has d k = false := by simpa using h
      simp [h', del_absent d k h', pure, Except.pure]
  | _ => rfl

/-- deleting every protected key that is present = keeping the items whose key is not a protected string -/
theorem foldl_delStep (ps : List PyVal) (d : PyDict) :
    ps.foldl delStep d = d.filter (fun kv => !((strsOf ps).contains kv.1)) := by
  induction ps generalizing d with
  | nil => exact (List.filter_eq_self.2 (fun _ _ => rfl)).symm
  | cons p t ih =>
    rw [List.foldl_cons, ih]
    cases p with
    | str k =>
      simp only [delStep, PyDict.del, List.filter_filter, strsOf_cons_str]
      apply List.filter_congr
      intro kv _
      simp only [List.contains_cons, Bool.not_or]
      rw [Bool.and_comm]
    | _ => rfl


/-- a fold that skips the elements failing a test is the fold over the filtered list -/
theorem foldl_if_filter {α σ : Type} (l : List α) (c : α → Bool) (f : σ → α → σ) (init : σ) :
    l.foldl (fun s x => if c x then f s x else s) init = (l.filter c).foldl f init := by
  induction l generalizing init with
  | nil => rfl
  | cons a t ih =>
    cases h : c a <;> simp [h, ih]

theorem set_new (d : PyDict) (k : String) (v : PyVal) (h : k ∉ PyDict.keys d) : PyDict.set d k v = d ++ [(k, v)] := by
  induction d with
  | nil => rfl
  | cons kv t ih =>
    obtain ⟨k', v'⟩ := kv
    have hne : k' ≠ k := by intro he; apply h; simp [PyDict.keys, he]
    have ht : k ∉ PyDict.keys t := by intro hm; apply h; simp only [PyDict.keys, List.map_cons, List.mem_cons]; exact Or.inr hm
    rw [OptInv.set_cons_ne hne, ih ht]; rfl

/-- a dict comprehension over items with pairwise different keys: inserting them one by one rebuilds the list -/
theorem foldl_set_nodup (l acc : PyDict) (h : (PyDict.keys (acc ++ l)).Nodup) :
    l.foldl (fun s x => PyDict.set s x.1 x.2) acc = acc ++ l := by
  induction l generalizing acc with
  | nil => simp
  | cons kv t ih =>
    have hk : kv.1 ∉ PyDict.keys acc := by
      intro hm
      simp only [PyDict.keys, List.map_append, List.map_cons] at h hm
      rw [List.nodup_append] at h
      exact h.2.2 _ hm _ (List.mem_cons_self) rfl
    rw [List.foldl_cons, set_new acc kv.1 kv.2 hk, ih]
    · simp
    · simpa using h

theorem ctxConflictIn_any (ctx l : PyDict) : Options.ctxConflictIn ctx l = l.any (fun kv => Options.ctxConflictIn ctx [kv]) := by
  unfold Options.ctxConflictIn
  congr 1; funext kv; simp


/-! ### the validators of `update_with_protected_keys`, lifted to the state at the raise -/

theorem validate_ngcc (st : Options) (a b : List String) :
    withSt st (Gen.OptionsGen.Val.validate_no_group_context_conflicts (List.eraseDups a) (List.eraseDups b)) =
      if a.any (fun k => b.contains k) then .error (toExc .groupCtxConflict, st) else .ok () := by
  unfold Gen.OptionsGen.Val.validate_no_group_context_conflicts
  simp only [inter_nonempty]
  cases a.any (fun k => b.contains k) <;> rfl

theorem validate_ncgc (st : Options) (a b : List String) :
    withSt st (Gen.OptionsGen.Val.validate_no_context_group_conflicts (List.eraseDups a) (List.eraseDups b)) =
      if a.any (fun k => b.contains k) then .error (toExc .ctxGroupConflict, st) else .ok () := by
  unfold Gen.OptionsGen.Val.validate_no_context_group_conflicts
  simp only [inter_nonempty]
  cases a.any (fun k => b.contains k) <;> rfl

/-- one round of the comprehension `{k: v for k, v in other.context.items() if k in other.propagate_context_keys and k not in protected_keys}` -/
def compStep (other : Options) (ps : List PyVal) (s : PyDict) (x : String × PyVal) : PyDict :=
  if other.propagate.contains x.1 && !((strsOf ps).contains x.1) then PyDict.set s x.1 x.2 else s

theorem foldl_compStep (other : Options) (ps : List PyVal) (hc : (PyDict.keys other.context).Nodup) :
    other.context.foldl (compStep other ps) [] = OptMerge.propg other (strsOf ps) := by
  unfold compStep
  rw [foldl_if_filter other.context (fun x => other.propagate.contains x.1 && !((strsOf ps).contains x.1)) (fun s x => PyDict.set s x.1 x.2)]
  rw [foldl_set_nodup]
  · rfl
  · exact OptMerge.nodup_keys_filter hc


/-! ### the protected-key set -/

/-- `Options.get` of the translation never raises and is the model's `get` -/
theorem get_spec (o : Options) (k : String) : Gen.OptionsGen.Opt.get o k = .ok (o.get k) := by
  unfold Gen.OptionsGen.Opt.get Options.get
  rw [has_eq_isSome]
  cases h : PyDict.get? o.group k with
  | none => simp [pure, Except.pure]
  | some v => simp [h, PyDict.getItemE]

theorem hashableL_cons (x : PyVal) (xs : List PyVal) : PyVal.hashableL (x :: xs) = (PyVal.hashable x && PyVal.hashableL xs) := by
  simp [PyVal.hashableL]

/-- adding a hashable value to a set of values: its string elements gain the value if it is a string -/
theorem add_strs (s : List PyVal) (x : PyVal) (hx : PyVal.hashable x = true) :
    ∃ s', PySet.add s x = .ok s' ∧ ∀ k, (strsOf s').contains k = ((strsOf s).contains k || (strsOf [x]).contains k) := by
  unfold PySet.add
  simp only [hx, Bool.not_true, Bool.false_eq_true, if_false]
  refine ⟨_, rfl, fun k => ?_⟩
  by_cases ha : s.any (fun y => PyVal.pyEq x y) = true
  · rw [if_pos ha]
    cases x with
    | str j =>
      have hj : j ∈ strsOf s := by
        rw [List.any_eq_true] at ha
        obtain ⟨y, hy, he⟩ := ha
        rw [pyEq_str] at he; subst he
        exact (mem_strsOf s j).2 hy
      rw [Bool.eq_iff_iff]
      simp only [strsOf_cons_str, Bool.or_eq_true, List.contains_iff_mem, List.mem_cons]
      constructor
      · exact Or.inl
      · rintro (h | h | h)
        · exact h
        · rw [h]; exact hj
        · simp [strsOf] at h
    | _ => simp [strsOf]
  · rw [if_neg ha]
    rw [Bool.eq_iff_iff]
    simp only [Bool.or_eq_true, List.contains_iff_mem, mem_strsOf, List.mem_append]

/-- `for key in xs: protected_keys.add(key)`: TypeError at the first unhashable element, otherwise the string elements are added -/
theorem foldlM_add (xs : List PyVal) (s : List PyVal) :
    (PyVal.hashableL xs = true → ∃ s', xs.foldlM PySet.add s = .ok s' ∧ ∀ k, (strsOf s').contains k = ((strsOf s).contains k || (strsOf xs).contains k)) ∧
    (PyVal.hashableL xs = false → xs.foldlM PySet.add s = .error (.typeError "unhashable type")) := by
  induction xs generalizing s with
  | nil =>
    refine ⟨fun _ => ⟨s, rfl, fun k => by simp [strsOf]⟩, fun h => ?_⟩
    simp [PyVal.hashableL] at h
  | cons x t ih =>
    rw [hashableL_cons]
    cases hx : PyVal.hashable x with
    | false =>
      refine ⟨fun h => by simp at h, fun _ => ?_⟩
      simp [List.foldlM_cons, PySet.add, hx, bind, Except.bind]
    | true =>
      obtain ⟨s1, h1, hk1⟩ := add_strs s x hx
      simp only [Bool.true_and, List.foldlM_cons, h1, bind, Except.bind]
      refine ⟨fun h => ?_, fun h => (ih s1).2 h⟩
      obtain ⟨s', h2, hk2⟩ := (ih s1).1 h
      refine ⟨s', h2, fun k => ?_⟩
      rw [hk2, hk1]
      have : (strsOf (x :: t)).contains k = ((strsOf [x]).contains k || (strsOf t).contains k) := by
        have : strsOf (x :: t) = strsOf [x] ++ strsOf t := by
          unfold strsOf; rw [← List.filterMap_append]; rfl
        rw [this, List.contains_append]  
      rw [this, Bool.or_assoc]


/-- the protected-key set (a set of arbitrary hashable values) that `Features.merge_options` and
`update_with_protected_keys(…, protected_keys=None)` build from `self.get(feature_chainer_parser_key)` -/
def pkSet (o : Options) : Except PyExc (List PyVal) :=
  if PyVal.truthy (o.get Gen.OptionConsts.chainerKey) then
    PySet.update [PyVal.str Gen.OptionConsts.inFeaturesKey] (o.get Gen.OptionConsts.chainerKey)
  else .ok [PyVal.str Gen.OptionConsts.inFeaturesKey]

theorem strsOf_map_str (ks : List String) : strsOf (ks.map PyVal.str) = ks := by
  induction ks with
  | nil => rfl
  | cons k t ih => rw [List.map_cons, strsOf_cons_str, ih]

theorem hashableL_map_str (ks : List String) : PyVal.hashableL (ks.map PyVal.str) = true := by
  induction ks with
  | nil => rfl
  | cons k t ih => rw [List.map_cons, hashableL_cons, ih]; rfl

/-- what iterating the option value yields, against the model's `iterProtected` -/
theorem iter_spec (v : PyVal) :
    (∀ e, Options.iterProtected v = .error e →
        (PyVal.iter v = .error (toExc e) ∧ e = .notIterable) ∨ (∃ xs, PyVal.iter v = .ok xs ∧ PyVal.hashableL xs = false ∧ e = .unhashable)) ∧
    (∀ ks, Options.iterProtected v = .ok ks → ∃ xs, PyVal.iter v = .ok xs ∧ PyVal.hashableL xs = true ∧ strsOf xs = ks) := by
  have hl : ∀ l : List PyVal,
      (∀ e, (if PyVal.hashableL l then Except.ok (strsOf l) else Except.error OptErr.unhashable) = Except.error e →
        (∃ xs, Except.ok (ε := PyExc) l = .ok xs ∧ PyVal.hashableL xs = false ∧ e = .unhashable)) ∧
      (∀ ks, (if PyVal.hashableL l then Except.ok (strsOf l) else Except.error OptErr.unhashable) = Except.ok ks →
        ∃ xs, Except.ok (ε := PyExc) l = .ok xs ∧ PyVal.hashableL xs = true ∧ strsOf xs = ks) := by
    intro l
    cases h : PyVal.hashableL l with
    | true =>
      refine ⟨fun e he => by simp at he, fun ks hk => ⟨l, rfl, h, ?_⟩⟩
      simpa using hk
    | false =>
      refine ⟨fun e he => ⟨l, rfl, h, ?_⟩, fun ks hk => by simp at hk⟩
      have : OptErr.unhashable = e := by simpa using he
      exact this.symm
  cases v with
  | str s =>
    refine ⟨fun e he => by simp [Options.iterProtected] at he, fun ks hk => ?_⟩
    refine ⟨_, rfl, ?_, ?_⟩
    · have : (s.toList.map (fun c => PyVal.str (String.singleton c))) = (s.toList.map (fun c => String.singleton c)).map PyVal.str := by
        rw [List.map_map]; rfl
      rw [this]; exact hashableL_map_str _
    · have : (s.toList.map (fun c => PyVal.str (String.singleton c))) = (s.toList.map (fun c => String.singleton c)).map PyVal.str := by
        rw [List.map_map]; rfl
      rw [this, strsOf_map_str]
      have hk' : Except.ok (ε := OptErr) (s.toList.map (fun c => String.singleton c)) = Except.ok ks := hk
      exact Except.ok.inj hk'
  | dict d =>
    refine ⟨fun e he => by simp [Options.iterProtected] at he, fun ks hk => ?_⟩
    have hd : (d.map (fun kv => PyVal.str kv.1)) = (PyDict.keys d).map PyVal.str := by
      unfold PyDict.keys; rw [List.map_map]; rfl
    refine ⟨_, rfl, ?_, ?_⟩
    · rw [hd]; exact hashableL_map_str _
    · rw [hd, strsOf_map_str]
      have hk' : Except.ok (ε := OptErr) (PyDict.keys d) = Except.ok ks := hk
      exact Except.ok.inj hk'
  | tuple l => exact ⟨fun e he => Or.inr ((hl l).1 e he), (hl l).2⟩
  | list l => exact ⟨fun e he => Or.inr ((hl l).1 e he), (hl l).2⟩
  | set l => exact ⟨fun e he => Or.inr ((hl l).1 e he), (hl l).2⟩
  | frozenset l => exact ⟨fun e he => Or.inr ((hl l).1 e he), (hl l).2⟩
  | _ =>
    refine ⟨fun e he => Or.inl ?_, fun ks hk => by simp [Options.iterProtected] at hk⟩
    have : OptErr.notIterable = e := by simpa [Options.iterProtected] using he
    subst this
    exact ⟨rfl, rfl⟩


theorem defaultProtected_eq : Gen.OptionConsts.defaultProtected = [Gen.OptionConsts.inFeaturesKey] := by decide

/-- the translation's protected-key set against the model's `protectedKeys`: the same TypeError, or a set with the same string
elements (up to membership) -/
theorem pkSet_spec (o : Options) :
    (∀ e, Options.protectedKeys o = .error e → pkSet o = .error (toExc e)) ∧
    (∀ pk, Options.protectedKeys o = .ok pk → ∃ ps, pkSet o = .ok ps ∧ ∀ k, (strsOf ps).contains k = pk.contains k) := by
  unfold Options.protectedKeys pkSet
  simp only []
  cases ht : PyVal.truthy (o.get Gen.OptionConsts.chainerKey) with
  | false =>
    simp only [Bool.false_eq_true, if_false]
    refine ⟨fun e he => (by cases he), fun pk hk => ⟨_, rfl, fun k => ?_⟩⟩
    have : Gen.OptionConsts.defaultProtected = pk := Except.ok.inj hk
    rw [← this, defaultProtected_eq]; rfl
  | true =>
    simp only [if_true]
    obtain ⟨herr, hok⟩ := iter_spec (o.get Gen.OptionConsts.chainerKey)
    cases hi : Options.iterProtected (o.get Gen.OptionConsts.chainerKey) with
    | error e =>
      refine ⟨fun e' he' => ?_, fun pk hk => by simp [Except.map] at hk⟩
      have : e = e' := by simpa [Except.map] using he'
      subst this
      rcases herr e hi with ⟨h1, _⟩ | ⟨xs, h1, h2, h3⟩
      · unfold PySet.update; rw [h1]
      · unfold PySet.update; rw [h1]; simp only []
        rw [(foldlM_add xs _).2 h2, h3]; rfl
    | ok ks =>
      refine ⟨fun e' he' => (by simp [Except.map] at he'), fun pk hk => ?_⟩
      have hpk : Gen.OptionConsts.defaultProtected ++ ks = pk := by simpa [Except.map] using hk
      obtain ⟨xs, h1, h2, h3⟩ := hok ks hi
      obtain ⟨s', h4, h5⟩ := (foldlM_add xs [PyVal.str Gen.OptionConsts.inFeaturesKey]).1 h2
      refine ⟨s', ?_, fun k => ?_⟩
      · unfold PySet.update; rw [h1]; exact h4
      · rw [h5, h3, ← hpk, List.contains_append, defaultProtected_eq]; rfl

/-- the model's `updateWith` depends on the protected list only through membership -/
theorem updateWith_congr (o other : Options) (pk pk' : List String) (h : ∀ k, pk.contains k = pk'.contains k) :
    o.updateWith other pk = o.updateWith other pk' := by
  have h1 : (fun kv : String × PyVal => !(pk.contains kv.1)) = (fun kv => !(pk'.contains kv.1)) := by
    funext kv; rw [h]
  have h2 : (fun kv : String × PyVal => other.propagate.contains kv.1 && !(pk.contains kv.1)) = (fun kv => other.propagate.contains kv.1 && !(pk'.contains kv.1)) := by
    funext kv; rw [h]
  unfold Options.updateWith
  rw [h1, h2]


/-! ### `update_with_protected_keys(other, None)` and `Features.merge_options` -/

theorem withSt_ok {σ α : Type} (s : σ) (a : α) : withSt s (Except.ok a : Except PyExc α) = .ok a := rfl
theorem withSt_error {σ α : Type} (s : σ) (e : PyExc) : withSt s (Except.error e : Except PyExc α) = .error (e, s) := rfl

/-- one round of `for key in value: protected_keys.add(key)` on the `Optional` set, in the state `o` -/
def addOptStep (o : Options) (s : Option (List PyVal)) (key : PyVal) : Except (PyExc × Options) (Option (List PyVal)) :=
  match s with
  | some a => (match PySet.add a key with | .ok b => .ok (some b) | .error e => .error (e, o))
  | none => .error (.attributeError, o)

theorem foldlM_addOptStep (o : Options) (xs : List PyVal) (init : List PyVal) :
    xs.foldlM (addOptStep o) (some init) =
      match xs.foldlM PySet.add init with | .ok s => .ok (some s) | .error e => .error (e, o) := by
  induction xs generalizing init with
  | nil => rfl
  | cons x t ih =>
    simp only [List.foldlM_cons, bind, Except.bind, addOptStep]
    cases PySet.add init x with
    | error e => rfl
    | ok b => exact ih b

/-- `update_with_protected_keys(other, None)`: build the protected-key set from `self` (TypeError in the unchanged state), then go on as
with that explicit set -/
theorem upk_none (o other : Options) :
    Gen.OptionsGen.Opt.update_with_protected_keys o other none =
      match pkSet o with
      | .error e => .error (e, o)
      | .ok ps => Gen.OptionsGen.Opt.update_with_protected_keys o other (some ps) := by
  rw [Gen.OptionsGen.Opt.update_with_protected_keys]
  simp only [Option.isNone_none, if_true, get_spec, withSt_ok, bind, Except.bind]
  unfold pkSet
  by_cases ht : PyVal.truthy (o.get Gen.OptionConsts.chainerKey) = true
  · rw [if_pos ht, if_pos ht]
    unfold PySet.update
    cases hi : PyVal.iter (o.get Gen.OptionConsts.chainerKey) with
    | error e => rfl
    | ok xs =>
      simp only [withSt_ok]
      rw [forIn_foldlM _ _ _ (addOptStep o)]
      rotate_left
      · intro key s
        cases s with
        | none => rfl
        | some a => 
          simp only [Opt.deref, withSt_ok, addOptStep]
          cases PySet.add a key <;> rfl
      have hm : List.map PyVal.str [Gen.OptionConsts.inFeaturesKey] = [PyVal.str Gen.OptionConsts.inFeaturesKey] := rfl
      rw [hm, foldlM_addOptStep]
      cases List.foldlM PySet.add [PyVal.str Gen.OptionConsts.inFeaturesKey] xs with
      | error e => rfl
      | ok s =>
        simp only []
        rfl
  · rw [if_neg ht, if_neg ht]
    simp only []
    rfl


theorem items_spec (o : Options) : Gen.OptionsGen.Opt.items o = .ok o.items := rfl

/-- the test of the inner loop of `Features.merge_options`: same key, not protected, `!=` values -/
def scanBad (pks : List PyVal) (kc kp : String × PyVal) : Bool :=
  kc.1 == kp.1 && !(PySet.hasStr pks kp.1) && !(PyVal.pyEq kc.2 kp.2)

theorem any_scanBad (parent child : Options) (pks : List PyVal) (pk : List String) (h : ∀ k, (strsOf pks).contains k = pk.contains k) :
    child.items.any (fun kc => parent.items.any (fun kp => scanBad pks kc kp)) = Options.mergeConflict parent child pk := by
  unfold Options.mergeConflict scanBad
  congr 1; funext kc; congr 1; funext kp
  rw [hasStr_eq, h]; rfl

/-! ### `toExc` has a left inverse -/

def allErrs : List OptErr := [.dupKeys, .propMissing, .groupDiff, .inContext, .ctxDiff, .inGroup, .groupCtxConflict, .ctxGroupConflict, .ctxConflict, .mergeConflict, .notIterable, .unhashable]
/-- the error tag an exception stands for -/
def ofExc (e : PyExc) : Option OptErr := allErrs.find? (fun t => toExc t == e)
theorem ofExc_toExc (a : OptErr) : ofExc (toExc a) = some a := by cases a <;> decide


end OptGen2
