import MlodaVerif.Lemmas.EngineLive
import MlodaVerif.Lemmas.Graph
/-! # uuid bookkeeping: distinct uuids, `feature_link_parents` has exactly the collected uuids as keys, and what one
`add_feature_to_collection` does to the parent sets -/
namespace EngineColl
open Graph (Dict dget dset sadd dkeys)

def uuids (st : St) : List Nat := st.coll.map (fun e => e.2.uuid)

theorem mem_uuids {st : St} {u : Nat} : u ∈ uuids st ↔ ∃ e ∈ st.coll, e.2.uuid = u := by
  unfold uuids; simp [List.mem_map]

theorem Ext.uuids {a b : St} (h : Ext a b) {u : Nat} (hu : u ∈ uuids a) : u ∈ EngineColl.uuids b := by
  rw [mem_uuids] at hu ⊢
  obtain ⟨e, he, hh⟩ := hu
  exact ⟨e, h.mem he, hh⟩

theorem nodup_map_inj {α β : Type} (f : α → β) : ∀ {l : List α}, (l.map f).Nodup → ∀ {a b : α}, a ∈ l → b ∈ l → f a = f b → a = b := by
  intro l
  induction l with
  | nil => intro _ a b ha; simp at ha
  | cons x xs ih =>
    intro hn a b ha hb hab
    rw [List.map_cons, List.nodup_cons] at hn
    rw [List.mem_cons] at ha hb
    rcases ha with rfl | ha
    · rcases hb with rfl | hb
      · rfl
      · exact absurd (List.mem_map.mpr ⟨b, hb, hab.symm⟩) hn.1
    · rcases hb with rfl | hb
      · exact absurd (List.mem_map.mpr ⟨a, ha, hab⟩) hn.1
      · exact ih hn.2 ha hb hab

/-- the entry carrying a uuid is unique -/
theorem entry_unique {st : St} (hn : (uuids st).Nodup) {a b : Nat × Feat} (ha : a ∈ st.coll) (hb : b ∈ st.coll) (h : a.2.uuid = b.2.uuid) : a = b :=
  nodup_map_inj (fun e : Nat × Feat => e.2.uuid) hn ha hb h

structure UInv (st : St) : Prop where
  nodup : (uuids st).Nodup
  lt : ∀ u ∈ uuids st, u < st.next
  keys : ∀ k, k ∈ dkeys st.flp ↔ k ∈ uuids st
  kn : (dkeys st.flp).Nodup
  vlt : ∀ k u, u ∈ dget st.flp k → u < st.next
  vn : ∀ k, (dget st.flp k).Nodup

theorem mem_updParents {s : List Nat} {orig wanted : Nat} {ix : Bool} {y : Nat} (h : y ∈ updParents s orig wanted ix) : y ∈ s ∨ y = wanted := by
  unfold updParents at h
  split at h
  · exact Graph.mem_sadd.mp h
  · rcases Graph.mem_sadd.mp h with h1 | h1
    · exact Or.inl (List.mem_of_mem_erase h1)
    · exact Or.inr h1

theorem wanted_mem_updParents (s : List Nat) (orig wanted : Nat) (ix : Bool) : wanted ∈ updParents s orig wanted ix := by
  unfold updParents
  split <;> exact Graph.mem_sadd.mpr (Or.inr rfl)

theorem keep_updParents {s : List Nat} {orig wanted : Nat} {ix : Bool} {y : Nat} (hy : y ∈ s) (hne : y ≠ orig) :
    y ∈ updParents s orig wanted ix := by
  unfold updParents
  split
  · exact Graph.mem_sadd.mpr (Or.inl hy)
  · exact Graph.mem_sadd.mpr (Or.inl ((List.mem_erase_of_ne hne).mpr hy))

theorem orig_not_mem_updParents {s : List Nat} {orig wanted : Nat} (hs : s.Nodup) (hne : orig ≠ wanted) :
    orig ∉ updParents s orig wanted false := by
  unfold updParents
  simp only [Bool.false_eq_true, if_false]
  intro h
  rcases Graph.mem_sadd.mp h with h1 | h1
  · exact (List.Nodup.mem_erase_iff hs).mp h1 |>.1 rfl
  · exact hne h1

theorem nodup_updParents {s : List Nat} (hs : s.Nodup) (orig wanted : Nat) (ix : Bool) : (updParents s orig wanted ix).Nodup := by
  unfold updParents
  split
  · exact Graph.nodup_sadd hs _
  · exact Graph.nodup_sadd (hs.erase _) _

/-- a duplicate under a child always finds its surviving representative (the walk covers the whole set) -/
theorem scan_none {k : Key} : ∀ {es : List (Nat × Feat)}, scan k es = .ok none → ∀ e ∈ es, e.2.key ≠ k := by
  intro es
  induction es with
  | nil => intro _ e he; simp at he
  | cons x xs ih =>
    intro h e he
    unfold scan at h
    cases hf : feqE k x.2.key with
    | error err => rw [hf] at h; simp at h
    | ok b =>
      rw [hf] at h
      cases b with
      | true => simp at h
      | false =>
        simp only at h
        rw [List.mem_cons] at he
        rcases he with rfl | he
        · intro hk
          rw [hk, feqE_self] at hf
          simp at hf
        · exact ih h e he

/-- refinement of `addFeature_cases` for a duplicate arriving under a child: the parent set of the child is always updated -/
theorem addFeature_dup_child {w : World} {st : St} {g : Nat} {f : Feat} {c : Nat} {ix : Bool} {st' : St} {b : Bool}
    (h : addFeature w st g f (some c) ix = .ok (st', b)) (hin : inColl st.coll g f.key = true) :
    b = false ∧ st'.coll = st.coll ∧ st'.links = st.links ∧ st'.next = st.next ∧ st'.gfc = st.gfc ∧
    ∃ wanted, (∃ e ∈ st.coll, e.1 = g ∧ e.2.key = f.key ∧ e.2.uuid = wanted) ∧
      st'.flp = dset st.flp c (updParents (dget st.flp c) f.uuid wanted ix) := by
  unfold addFeature at h
  rw [hin] at h
  simp only [if_true] at h
  cases ho : applyOrd (w.scanOrd st.nscan) (st.coll.filter (fun e => e.1 == g)) with
  | none => rw [ho] at h; simp at h
  | some es =>
    rw [ho] at h
    simp only at h
    cases hs : scan f.key es with
    | error e => rw [hs] at h; simp at h
    | ok r =>
      rw [hs] at h
      cases r with
      | none =>
        exfalso
        rw [inColl_iff] at hin
        obtain ⟨e, he, hg, hk⟩ := hin
        have hmem : e ∈ st.coll.filter (fun e => e.1 == g) := by
          rw [List.mem_filter]; exact ⟨he, by simp [hg]⟩
        exact scan_none hs e (applyOrd_mem_rev ho e hmem) hk
      | some wanted =>
        simp only [Except.ok.injEq, Prod.mk.injEq] at h
        obtain ⟨h1, h2⟩ := h
        subst h1
        refine ⟨h2.symm, rfl, rfl, rfl, rfl, wanted, ?_, rfl⟩
        obtain ⟨e, he, hk, hu⟩ := scan_some hs
        have hm := applyOrd_mem ho e he
        rw [List.mem_filter] at hm
        exact ⟨e, hm.1, by simpa using hm.2, hk, hu⟩

/-- `add_feature_to_collection` keeps the uuid invariant when the incoming uuid is unused (a pending input uuid or a fresh one)
and the child, if any, is a collected feature -/
theorem addFeature_uinv {w : World} {st : St} {g : Nat} {f : Feat} {cu : Option Nat} {ix : Bool} {st' : St} {b : Bool}
    (h : addFeature w st g f cu ix = .ok (st', b)) (hu : UInv st) (hfu : f.uuid ∉ uuids st) (hfl : f.uuid < st.next)
    (hcu : ∀ c, cu = some c → c ∈ uuids st) : UInv st' := by
  rcases addFeature_cases h with ⟨_, _, rfl⟩ | ⟨_, _, hc, _, hn, _, _, hflp⟩
  · have hus : uuids ({ st with links := addLink st.links f.link, flp := dset st.flp f.uuid [], coll := st.coll ++ [(g, f)] } : St) =
        uuids st ++ [f.uuid] := by simp [uuids]
    refine ⟨?_, ?_, ?_, ?_, ?_, ?_⟩
    · rw [hus, List.nodup_append]
      refine ⟨hu.nodup, by simp, ?_⟩
      intro a ha b hb
      simp only [List.mem_singleton] at hb
      subst hb
      intro hab; subst hab; exact hfu ha
    · intro u hu'
      rw [hus, List.mem_append] at hu'
      rcases hu' with h1 | h1
      · exact hu.lt u h1
      · simp only [List.mem_singleton] at h1; subst h1; exact hfl
    · intro k
      rw [hus]
      simp only [Graph.mem_dkeys_dset, List.mem_append, List.mem_singleton, hu.keys k]
    · exact Graph.nodup_dkeys_dset hu.kn _ _
    · intro k u hk
      simp only [Graph.dget_dset] at hk
      split at hk
      · simp at hk
      · exact hu.vlt k u hk
    · intro k
      simp only [Graph.dget_dset]
      split
      · exact List.nodup_nil
      · exact hu.vn k
  · have hus : uuids st' = uuids st := by simp [uuids, hc]
    rcases hflp with hflp | ⟨c, wanted, hcc, ⟨e, he, _, _, hew⟩, hflp⟩
    · exact ⟨by rw [hus]; exact hu.nodup, by rw [hus, hn]; exact hu.lt, by rw [hus, hflp]; exact hu.keys, by rw [hflp]; exact hu.kn,
        by rw [hflp, hn]; exact hu.vlt, by rw [hflp]; exact hu.vn⟩
    · have hcin : c ∈ uuids st := hcu c hcc
      have hwin : wanted ∈ uuids st := mem_uuids.mpr ⟨e, he, hew⟩
      refine ⟨by rw [hus]; exact hu.nodup, by rw [hus, hn]; exact hu.lt, ?_, ?_, ?_, ?_⟩
      · intro k
        rw [hus, hflp, Graph.mem_dkeys_dset, hu.keys k]
        constructor
        · rintro (h1 | rfl)
          · exact h1
          · exact hcin
        · exact Or.inl
      · rw [hflp]; exact Graph.nodup_dkeys_dset hu.kn _ _
      · intro k u hk
        rw [hflp, Graph.dget_dset] at hk
        rw [hn]
        split at hk
        · rcases mem_updParents hk with h1 | h1
          · exact hu.vlt c u h1
          · rw [h1]; exact hu.lt _ hwin
        · exact hu.vlt k u hk
      · intro k
        rw [hflp, Graph.dget_dset]
        split
        · exact nodup_updParents (hu.vn c) _ _ _
        · exact hu.vn k

/-- bumping the uuid counter (and touching `gfc` / `nmatch`) keeps the invariant -/
theorem UInv.bump {st : St} (hu : UInv st) (n : Nat) (gfc : List ((Nat × Name) × List (Key × Nat))) (nm : Nat) :
    UInv { st with next := st.next + n, gfc := gfc, nmatch := nm } :=
  ⟨hu.nodup, fun u h => Nat.lt_of_lt_of_le (hu.lt u h) (Nat.le_add_right _ _), hu.keys, hu.kn,
   fun k u h => Nat.lt_of_lt_of_le (hu.vlt k u h) (Nat.le_add_right _ _), hu.vn⟩

end EngineColl
