import MlodaVerif.Lemmas.LinkGenTrek
import MlodaVerif.Lemmas.LinkGenOrder
import MlodaVerif.Lemmas.LinkGenQueue
/-! # Bridge for the composed functions: `get_ordered_data`, `add_links_to_queue`, `__init__`

The three groups of lemmas (`LinkGenTrek`: the heap-aliasing core, `LinkGenOrder`: the order relation, `LinkGenQueue`: the queue
functions) are put together: `get_ordered_data` = `order_links_by_frameworks`; `order_ordered_ids_by_relation`; `create_data_ordered`,
each step keeping the representation invariant `WF`. -/
namespace LinkGen
open LinkOrder PyRt Gen.LinkOrderGen

/-- a fresh trekker (`LinkTrekker.__init__`) -/
theorem init_eq (s : Trk.TrekkerSelf) : Trk.init s = .ok { data := [], data_ordered := [], order := [] } := rfl

/-- the empty trekker satisfies the invariant on every heap whose sets are duplicate-free, and is the model's empty trekker -/
theorem wf_empty (L : Links) (h : SHeap) (hn : ∀ r, (SHeap.get h r).Nodup) : WF L { data := [], data_ordered := [], order := [] } h :=
  { canonD := fun _ he => absurd he List.not_mem_nil, canonDO := fun _ he => absurd he List.not_mem_nil,
    keysD := List.nodup_nil, keysDO := List.nodup_nil, keysO := List.nodup_nil, refsDO := List.nodup_nil, refsDord := List.nodup_nil,
    share := fun _ he => absurd he List.not_mem_nil, disjO := fun _ he => absurd he List.not_mem_nil,
    allocD := fun _ he => absurd he List.not_mem_nil, allocDO := fun _ he => absurd he List.not_mem_nil,
    allocO := fun _ he => absurd he List.not_mem_nil, setsNodup := hn }

theorem absT_empty (h : SHeap) : absT { data := [], data_ordered := [], order := [] } h = {} := rfl

/-- what `get_ordered_data` returns on a normal return: the three steps, in terms of their results -/
theorem get_ordered_data_eq (s : Trk.TrekkerSelf) (h : SHeap) :
    Trk.get_ordered_data s h =
      (Trk.order_links_by_frameworks s h >>= fun r1 =>
        Trk.order_ordered_ids_by_relation r1.2 r1.1 >>= fun s2 =>
          Trk.create_data_ordered s2 >>= fun s3 => pure (s3.data_ordered, r1.1, s3)) := by
  unfold Trk.get_ordered_data
  simp only [bind, Except.bind, pure, Except.pure]

/-- **`get_ordered_data` is `LinkOrder.getOrderedData`**, and it keeps the invariant; the dict it returns is the `data_ordered` of the
trekker afterwards -/
theorem get_ordered_data_spec (L : Links) {s : Trk.TrekkerSelf} {h : SHeap} (hwf : WF L s h) :
    mapV (Trk.get_ordered_data s h) (fun r => absT r.2.2 r.2.1) = liftM (getOrderedData (absT s h)) ∧
    ∀ d h' s', Trk.get_ordered_data s h = .ok (d, h', s') → WF L s' h' ∧ d = s'.data_ordered := by
  rw [get_ordered_data_eq]
  have hb := order_links_bridge hwf
  unfold getOrderedData
  cases h1 : Trk.order_links_by_frameworks s h with
  | error e =>
    rw [h1] at hb
    cases hm : orderLinksByFrameworks (absT s h) with
    | error e' =>
      rw [hm] at hb
      simp only [mapV_error, liftM_error] at hb
      refine ⟨?_, ?_⟩
      · simp only [bind, Except.bind, mapV_error, liftM_error, hb]
      · intro d h' s' he; simp only [bind, Except.bind] at he; cases he
    | ok t1 => rw [hm] at hb; simp only [mapV_error, liftM_ok] at hb; cases hb
  | ok r1 =>
    obtain ⟨h1', s1⟩ := r1
    rw [h1] at hb
    obtain ⟨hwf1, _, _⟩ := order_links_wf hwf h1
    cases hm : orderLinksByFrameworks (absT s h) with
    | error e' => rw [hm] at hb; simp only [mapV_ok, liftM_error] at hb; cases hb
    | ok t1 =>
      rw [hm] at hb
      simp only [mapV_ok, liftM_ok] at hb
      have ht1 : t1 = absT s1 h1' := (Except.ok.inj hb).symm
      obtain ⟨s2, hr, _, _, _, hwf2, _, _⟩ := reorder_bridge hwf1
      have habs2 := Ord.reorder_absT hwf1 hr
      have hc := create_data_ordered_bridge L hwf2
      simp only [bind, Except.bind, hr]
      rw [ht1, ← habs2]
      cases h3 : Trk.create_data_ordered s2 with
      | error e =>
        rw [h3] at hc
        refine ⟨?_, ?_⟩
        · simpa using hc
        · intro d h' s' he; cases he
      | ok s3 =>
        rw [h3] at hc
        refine ⟨?_, ?_⟩
        · simpa [pure, Except.pure] using hc
        · intro d h' s' he
          simp only [pure, Except.pure] at he
          have he' := Except.ok.inj he
          have e1 : d = s3.data_ordered := (congrArg (·.1) he').symm
          have e2 : h' = h1' := (congrArg (·.2.1) he').symm
          have e3 : s' = s3 := (congrArg (·.2.2) he').symm
          subst e1 e2 e3
          exact ⟨create_data_ordered_wf L hwf2 h3, rfl⟩

theorem get_ordered_data_bridge (L : Links) {s : Trk.TrekkerSelf} {h : SHeap} (hwf : WF L s h) :
    mapV (Trk.get_ordered_data s h) (fun r => absT r.2.2 r.2.1) = liftM (getOrderedData (absT s h)) :=
  (get_ordered_data_spec L hwf).1

theorem get_ordered_data_wf (L : Links) {s s' : Trk.TrekkerSelf} {h h' : SHeap} {d : KDict PKey Nat} (hwf : WF L s h)
    (he : Trk.get_ordered_data s h = .ok (d, h', s')) : WF L s' h' ∧ d = s'.data_ordered :=
  (get_ordered_data_spec L hwf).2 d h' s' he

/-- **`ResolveLinks.add_links_to_queue` is `LinkOrder.addLinksToQueue`**: the queue with the link entries, and the trekker afterwards -/
theorem add_links_to_queue_bridge (L : Links) (self : RL.RLSelf) {h : SHeap} (hwf : WF L self.link_trekker h) :
    mapV (RL.add_links_to_queue self h) (fun r => (r.1.map absQ, absT r.2.2.link_trekker r.2.1)) =
      liftM (addLinksToQueue (absT self.link_trekker h) self.queue) := by
  rw [add_links_unfold]
  obtain ⟨hb, hw⟩ := get_ordered_data_spec L hwf
  unfold addLinksToQueue
  cases hg : Trk.get_ordered_data self.link_trekker h with
  | error e =>
    rw [hg] at hb
    cases hm : getOrderedData (absT self.link_trekker h) with
    | error e' =>
      rw [hm] at hb
      simp only [mapV_error, liftM_error] at hb
      simp only [bind, Except.bind, mapV_error, liftM_error]
      rw [Except.error.inj hb]
    | ok t' => rw [hm] at hb; simp only [mapV_error, liftM_ok] at hb; cases hb
  | ok r =>
    obtain ⟨d, h', s'⟩ := r
    rw [hg] at hb
    obtain ⟨hwf', hd⟩ := hw d h' s' hg
    cases hm : getOrderedData (absT self.link_trekker h) with
    | error e' => rw [hm] at hb; simp only [mapV_ok, liftM_error] at hb; cases hb
    | ok t' =>
      rw [hm] at hb
      simp only [mapV_ok, liftM_ok] at hb
      have ht : t' = absT s' h' := (Except.ok.inj hb).symm
      simp only [bind, Except.bind, mapV_ok, liftM_ok]
      subst hd
      rw [add_links_loop L s'.data_ordered h' self.queue hwf'.setsNodup hwf'.canonDO, ht, orderedView_absT]

theorem add_links_to_queue_wf (L : Links) (self self' : RL.RLSelf) {h h' : SHeap} {q : List Gen.LinkOrderGen.QItem}
    (hwf : WF L self.link_trekker h) (he : RL.add_links_to_queue self h = .ok (q, h', self')) :
    WF L self'.link_trekker h' ∧ self'.queue = self.queue := by
  rw [add_links_unfold] at he
  cases hg : Trk.get_ordered_data self.link_trekker h with
  | error e => rw [hg] at he; simp only [bind, Except.bind] at he; cases he
  | ok r =>
    obtain ⟨d, h1, s1⟩ := r
    rw [hg] at he
    simp only [bind, Except.bind] at he
    have he' := Except.ok.inj he
    have e2 : h' = h1 := (congrArg (·.2.1) he').symm
    have e3 : self' = { self with link_trekker := s1 } := (congrArg (·.2.2) he').symm
    subst e2 e3
    exact ⟨(get_ordered_data_wf L hwf hg).1, rfl⟩

end LinkGen
