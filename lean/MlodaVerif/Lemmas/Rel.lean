import MlodaVerif.Model.Rel
/-! Basic lemmas about rows, `RowEq`, `TableEq` (core Lean only). -/
namespace Rel

/-! ### undup -/

theorem mem_undup {α : Type} [DecidableEq α] {a : α} {l : List α} : a ∈ undup l ↔ a ∈ l := by
  induction l with
  | nil => simp [undup]
  | cons b bs ih =>
    unfold undup
    by_cases h : b ∈ undup bs
    · rw [if_pos h, List.mem_cons, ih]
      constructor
      · exact Or.inr
      · rintro (rfl | h')
        · exact ih.mp h
        · exact h'
    · rw [if_neg h, List.mem_cons, List.mem_cons, ih]

theorem nodup_undup {α : Type} [DecidableEq α] (l : List α) : (undup l).Nodup := by
  induction l with
  | nil => simp [undup]
  | cons b bs ih =>
    unfold undup
    by_cases h : b ∈ undup bs
    · simpa [h] using ih
    · simp [h, ih]

/-- two duplicate-free lists with the same members are permutations of each other -/
theorem perm_of_nodup_of_mem_iff {α : Type} [DecidableEq α] {l₁ l₂ : List α} (h₁ : l₁.Nodup) (h₂ : l₂.Nodup)
    (h : ∀ a, a ∈ l₁ ↔ a ∈ l₂) : l₁.Perm l₂ := by
  rw [List.perm_iff_count]
  intro a
  rw [h₁.count, h₂.count]
  simp [h a]

/-! ### cells and columns -/

@[simp] theorem rcols_nil : rcols [] = [] := rfl
@[simp] theorem rcols_cons (e : Col × Cell) (r : Row) : rcols (e :: r) = e.1 :: rcols r := rfl
@[simp] theorem rcols_append (a b : Row) : rcols (a ++ b) = rcols a ++ rcols b := by simp [rcols]

theorem rcols_filter (p : Col → Bool) (r : Row) : rcols (r.filter (fun e => p e.1)) = (rcols r).filter p := by
  induction r with
  | nil => rfl
  | cons e r ih =>
    by_cases h : p e.1 <;> simp [h, ih]

@[simp] theorem rcols_nulls (cs : List Col) : rcols (nulls cs) = cs := by
  simp [rcols, nulls, List.map_map, Function.comp_def]

theorem cell_of_not_mem {r : Row} {c : Col} (h : c ∉ rcols r) : cell r c = none := by
  induction r with
  | nil => rfl
  | cons e r ih =>
    obtain ⟨c', v⟩ := e
    simp only [rcols_cons, List.mem_cons, not_or] at h
    simp only [cell]
    rw [if_neg (fun hh => h.1 hh.symm)]
    exact ih h.2

theorem cell_append (a b : Row) (c : Col) : cell (a ++ b) c = if c ∈ rcols a then cell a c else cell b c := by
  induction a with
  | nil => simp
  | cons e a ih =>
    obtain ⟨c', v⟩ := e
    by_cases h : c' = c
    · subst h; simp [cell]
    · have h' : ¬ c = c' := fun hh => h hh.symm
      simp [cell, h, h', ih]

theorem cell_filter (p : Col → Bool) (r : Row) (c : Col) :
    cell (r.filter (fun e => p e.1)) c = if p c then cell r c else none := by
  induction r with
  | nil => simp [cell]
  | cons e r ih =>
    obtain ⟨c', v⟩ := e
    by_cases hp : p c'
    · by_cases h : c' = c
      · subst h; simp [hp, cell]
      · simp [hp, cell, h, ih]
    · by_cases h : c' = c
      · subst h; simp only [List.filter_cons, hp, cell]; simpa [hp] using ih
      · simp [hp, cell, h, ih]

@[simp] theorem cell_nulls (cs : List Col) (c : Col) : cell (nulls cs) c = none := by
  induction cs with
  | nil => rfl
  | cons a cs ih => by_cases h : a = c <;> simp_all [nulls, cell]

@[simp] theorem core_nulls (cs : List Col) : core (nulls cs) = [] := by
  simp [core, nulls, List.filter_eq_nil_iff]

@[simp] theorem core_append (a b : Row) : core (a ++ b) = core a ++ core b := by simp [core]

theorem cell_some_mem {r : Row} {c : Col} {v : Val} (h : cell r c = some v) : (c, some v) ∈ r := by
  induction r with
  | nil => simp [cell] at h
  | cons e r ih =>
    obtain ⟨c', w⟩ := e
    by_cases hc : c' = c
    · subst hc; simp only [cell, if_true] at h; subst h; simp
    · simp only [cell, if_neg hc] at h; exact List.mem_cons_of_mem _ (ih h)

theorem mem_cell_of_nodup {r : Row} (hn : (rcols r).Nodup) {c : Col} {v : Cell} (h : (c, v) ∈ r) : cell r c = v := by
  induction r with
  | nil => simp at h
  | cons e r ih =>
    obtain ⟨c', w⟩ := e
    simp only [rcols_cons, List.nodup_cons] at hn
    rcases List.mem_cons.mp h with h | h
    · cases h; simp [cell]
    · have : c' ≠ c := by
        intro hh; subst hh; exact hn.1 (List.mem_map.mpr ⟨_, h, rfl⟩)
      simp only [cell, if_neg this]; exact ih hn.2 h

theorem nodup_of_rcols_nodup {r : Row} (hn : (rcols r).Nodup) : r.Nodup := by
  induction r with
  | nil => simp
  | cons e r ih =>
    simp only [rcols_cons, List.nodup_cons] at hn ⊢
    exact ⟨fun h => hn.1 (List.mem_map.mpr ⟨_, h, rfl⟩), ih hn.2⟩

/-! ### RowEq -/

theorem RowEq.refl (a : Row) : RowEq a a := List.Perm.refl _
theorem RowEq.symm {a b : Row} (h : RowEq a b) : RowEq b a := List.Perm.symm h
theorem RowEq.trans {a b c : Row} (h₁ : RowEq a b) (h₂ : RowEq b c) : RowEq a c := List.Perm.trans h₁ h₂

theorem RowEq.of_perm {a b : Row} (h : a.Perm b) : RowEq a b := List.Perm.filter _ h
theorem RowEq.of_core_eq {a b : Row} (h : core a = core b) : RowEq a b := by unfold RowEq; rw [h]

theorem rowBEq_iff {a b : Row} : rowBEq a b = true ↔ RowEq a b := List.isPerm_iff

/-- rows without repeated columns are equivalent as soon as every column reads the same -/
theorem rowEq_of_cell_eq {a b : Row} (ha : (rcols a).Nodup) (hb : (rcols b).Nodup)
    (h : ∀ c, cell a c = cell b c) : RowEq a b := by
  have na : (core a).Nodup := (nodup_of_rcols_nodup ha).sublist List.filter_sublist
  have nb : (core b).Nodup := (nodup_of_rcols_nodup hb).sublist List.filter_sublist
  refine perm_of_nodup_of_mem_iff na nb ?_
  rintro ⟨c, v⟩
  simp only [core, List.mem_filter]
  constructor
  · rintro ⟨hm, hv⟩
    obtain ⟨w, rfl⟩ := Option.isSome_iff_exists.mp hv
    have := mem_cell_of_nodup ha hm
    rw [h c] at this
    exact ⟨cell_some_mem this, hv⟩
  · rintro ⟨hm, hv⟩
    obtain ⟨w, rfl⟩ := Option.isSome_iff_exists.mp hv
    have := mem_cell_of_nodup hb hm
    rw [← h c] at this
    exact ⟨cell_some_mem this, hv⟩

theorem rowBEq_congr_right {a b : Row} (h : RowEq a b) (x : Row) : rowBEq x a = rowBEq x b := by
  rw [Bool.eq_iff_iff, rowBEq_iff, rowBEq_iff]
  exact ⟨fun h' => h'.trans h, fun h' => h'.trans h.symm⟩

theorem rowBEq_congr_left {a b : Row} (h : RowEq a b) (x : Row) : rowBEq a x = rowBEq b x := by
  rw [Bool.eq_iff_iff, rowBEq_iff, rowBEq_iff]
  exact ⟨fun h' => h.symm.trans h', fun h' => h.trans h'⟩

/-! ### TableEq -/

theorem TableEq.refl (A : Table) : TableEq A A := fun _ => rfl
theorem TableEq.symm {A B : Table} (h : TableEq A B) : TableEq B A := fun x => (h x).symm
theorem TableEq.trans {A B C : Table} (h₁ : TableEq A B) (h₂ : TableEq B C) : TableEq A C :=
  fun x => (h₁ x).trans (h₂ x)

theorem TableEq.of_eq {A B : Table} (h : A = B) : TableEq A B := h ▸ TableEq.refl A

theorem TableEq.of_perm {A B : Table} (h : A.Perm B) : TableEq A B := fun x => h.countP_eq _

theorem TableEq.append {A B C D : Table} (h₁ : TableEq A B) (h₂ : TableEq C D) : TableEq (A ++ C) (B ++ D) := by
  intro x; simp [List.countP_append, h₁ x, h₂ x]

theorem TableEq.single {a b : Row} (h : RowEq a b) : TableEq [a] [b] := by
  intro _x; simp [List.countP_cons, rowBEq_congr_right h _x]

/-- row-wise equivalent images of one list -/
theorem TableEq.map_congr {α : Type} (X : List α) (f g : α → Row) (h : ∀ x ∈ X, RowEq (f x) (g x)) :
    TableEq (X.map f) (X.map g) := by
  induction X with
  | nil => exact TableEq.refl _
  | cons x X ih =>
    have h1 := TableEq.single (h x (List.mem_cons_self))
    have h2 := ih (fun y hy => h y (List.mem_cons_of_mem _ hy))
    exact TableEq.append h1 h2

theorem TableEq.flatMap_congr {α : Type} (X : List α) (F G : α → Table) (h : ∀ x ∈ X, TableEq (F x) (G x)) :
    TableEq (X.flatMap F) (X.flatMap G) := by
  induction X with
  | nil => exact TableEq.refl _
  | cons x X ih =>
    simp only [List.flatMap_cons]
    exact TableEq.append (h x (List.mem_cons_self)) (ih (fun y hy => h y (List.mem_cons_of_mem _ hy)))

theorem TableEq.length_eq_of_nil {A : Table} (h : TableEq A []) : A = [] := by
  cases A with
  | nil => rfl
  | cons a A =>
    have := h a
    simp [(rowBEq_iff.mpr (RowEq.refl a))] at this

/-- `TableEq` is exactly: some reordering of `A` is row-wise `RowEq` to `B` (only the direction used to *read* the
definition is proved: a reordering with row-wise equivalent rows is `TableEq`) -/
theorem TableEq.of_perm_of_map {α : Type} {A : Table} (X : List α) (f g : α → Row) (hp : A.Perm (X.map f))
    (h : ∀ x ∈ X, RowEq (f x) (g x)) : TableEq A (X.map g) :=
  (TableEq.of_perm hp).trans (TableEq.map_congr X f g h)

/-- soundness of the executable check -/
theorem removeFirst_some {x : Row} {B B' : Table} (h : removeFirst x B = some B') :
    ∀ y, B.countP (rowBEq y) = (if rowBEq y x then 1 else 0) + B'.countP (rowBEq y) := by
  induction B generalizing B' with
  | nil => simp [removeFirst] at h
  | cons b B ih =>
    unfold removeFirst at h
    by_cases hb : rowBEq x b
    · simp only [hb, if_true, Option.some.injEq] at h
      subst h
      intro y
      have := rowBEq_congr_right (rowBEq_iff.mp hb) y
      rw [List.countP_cons, this]; omega
    · simp only [hb, Bool.false_eq_true, if_false, Option.map_eq_some_iff] at h
      obtain ⟨B'', hB'', rfl⟩ := h
      intro y
      rw [List.countP_cons, List.countP_cons, ih hB'' y]; omega

theorem tableBEq_sound {A B : Table} (h : tableBEq A B = true) : TableEq A B := by
  induction A generalizing B with
  | nil =>
    simp only [tableBEq, List.isEmpty_iff] at h
    subst h; exact TableEq.refl _
  | cons a A ih =>
    unfold tableBEq at h
    split at h
    · simp at h
    · rename_i B' hB'
      intro y
      rw [List.countP_cons, removeFirst_some hB' y, ih h y]; omega

end Rel
