import MlodaVerif.Lemmas.EngineOrder
import MlodaVerif.Model.EngineWorld
/-! # The table worlds of the driver meet the hypotheses of the closure theorems (decidable conditions on the spec) -/
namespace EngineWorld
open EngineColl

/-- decidable condition on a spec: templates carry no link and are unflagged, filter features have no `child_options` -/
def plainSpec (s : Spec) : Bool :=
  s.groups.all (fun g => match g.inputs with
    | none => true
    | some tbl => tbl.all (fun p => p.2.all (fun t => t.feat.link.isNone && !t.feat.req))) &&
  (match s.filters with | none => true | some fl => fl.all (fun flt => flt.key.child.isNone))

theorem gspec_inputs {s : Spec} {g : Nat} {tbl : List (Name × List TSpec)} (h : (gspec s g).inputs = some tbl) :
    ∃ gs ∈ s.groups, gs.inputs = some tbl := by
  unfold gspec at h
  cases hg : s.groups[g]? with
  | none => rw [hg] at h; simp at h
  | some gs =>
    rw [hg] at h
    simp only [Option.getD_some] at h
    exact ⟨gs, List.mem_of_getElem? hg, h⟩

theorem inputsOf_mem {s : Spec} {g : Nat} {k : Key} {ts : List Feat} {t : Feat} (h : inputsOf s g k = some ts) (ht : t ∈ ts) :
    ∃ gs ∈ s.groups, ∃ tbl, gs.inputs = some tbl ∧ ∃ p ∈ tbl, ∃ tm ∈ p.2, t.link = tm.feat.link ∧ t.req = tm.feat.req := by
  unfold inputsOf at h
  cases hin : (gspec s g).inputs with
  | none => rw [hin] at h; simp at h
  | some tbl =>
    rw [hin] at h
    simp only at h
    obtain ⟨gs, hgs, hgi⟩ := gspec_inputs hin
    cases hf : tbl.find? (fun p => p.1 == Select.baseName k.name) with
    | none => rw [hf] at h; simp at h
    | some p =>
      rw [hf] at h
      simp only at h
      have hp : p ∈ tbl := List.mem_of_find?_eq_some hf
      have hmem : t ∈ p.2.map (fun t => if t.pass then { t.feat with key := { t.feat.key with grp := k.grp, ctx := k.ctx } } else t.feat) := by
        split at h
        · simp only [Option.some.injEq] at h
          subst h
          rw [List.mem_filterMap] at ht
          obtain ⟨i, _, hi⟩ := ht
          exact List.mem_of_getElem? hi
        · simp only [Option.some.injEq] at h
          subst h; exact ht
      rw [List.mem_map] at hmem
      obtain ⟨tm, htm, hte⟩ := hmem
      refine ⟨gs, hgs, tbl, hgi, p, hp, tm, htm, ?_⟩
      split at hte <;> (subst hte; exact ⟨rfl, rfl⟩)

theorem tableWorld_plain {s : Spec} (h : plainSpec s = true) : PlainWorld (tableWorld s) := by
  unfold plainSpec at h
  simp only [Bool.and_eq_true, List.all_eq_true] at h
  obtain ⟨h1, h2⟩ := h
  have key : ∀ g k ts t, inputsOf s g k = some ts → t ∈ ts → t.link = none ∧ t.req = false := by
    intro g k ts t hin ht
    obtain ⟨gs, hgs, tbl, hgi, p, hp, tm, htm, hl, hr⟩ := inputsOf_mem hin ht
    have := h1 gs hgs
    rw [hgi] at this
    simp only [List.all_eq_true, Bool.and_eq_true, Option.isNone_iff_eq_none, Bool.not_eq_eq_eq_not, Bool.not_true] at this
    have := this p hp tm htm
    exact ⟨by rw [hl]; exact this.1, by rw [hr]; exact this.2⟩
  refine ⟨fun g k ts t hin ht => (key g k ts t hin ht).1, fun g k ts t hin ht => (key g k ts t hin ht).2, ?_⟩
  intro fl flt hfl hflt
  have hfl' : s.filters = some fl := hfl
  rw [hfl'] at h2
  simp only [List.all_eq_true, Option.isNone_iff_eq_none] at h2
  exact h2 flt hflt

/-- without a global filter and with `links=None` nothing auxiliary exists, so no request is shadowed -/
theorem noShadow_of_no_aux {w : World} {req : List Feat} (hnf : w.filters = none) : NoShadow w none req := by
  intro q _ g f _ p _ _
  refine ⟨?_, ?_⟩
  · intro m ⟨fl, _, hfl, _⟩; rw [hnf] at hfl; simp at hfl
  · intro ix xk ⟨_, _, _, _, hl, _⟩; simp at hl


theorem prepareK_name {w : World} {L : Option (List Link)} {k k' : Key} {g : Nat} (h : prepareK w L k = .ok (g, k')) :
    k'.name = w.setName g k := by
  unfold prepareK at h
  cases hr : w.resolve L k with
  | error e => rw [hr] at h; simp at h
  | ok r =>
    obtain ⟨g0, cfws⟩ := r
    rw [hr] at h
    simp only at h
    cases hc : setCfw w { k with name := w.setName g0 k } cfws with
    | error e => rw [hc] at h; simp at h
    | ok k2 =>
      rw [hc] at h
      simp only at h
      cases hd : setDtype w g0 k2 with
      | error e => rw [hd] at h; simp at h
      | ok k3 =>
        rw [hd] at h
        simp only [Except.ok.injEq, Prod.mk.injEq] at h
        obtain ⟨rfl, rfl⟩ := h
        have h2 : k2.name = w.setName g0 k := by
          unfold setCfw at hc
          split at hc
          · split at hc
            · simp only [Except.ok.injEq] at hc; subst hc; rfl
            · simp at hc
          · simp only [Except.ok.injEq] at hc; subst hc; rfl
        have h3 : k3.name = k2.name := by
          unfold setDtype at hd
          split at hd
          · split at hd
            · simp only [Except.ok.injEq] at hd; subst hd; rfl
            · simp at hd
          · simp only [Except.ok.injEq] at hd; subst hd; rfl
          · simp only [Except.ok.injEq] at hd; subst hd; rfl
        rw [h3, h2]


theorem setFeatureName_plain (sup : List Name) (n : Name) (h : Select.baseName n = n) : Select.setFeatureName sup n = n := by
  unfold Select.setFeatureName
  simp [h]

theorem tw_name_plain (s : Spec) {L : Option (List Link)} {t' f' : Feat} {g' : Nat} (hp : prepare (tableWorld s) L t' = .ok (g', f'))
    (hb : Select.baseName t'.key.name = t'.key.name) : f'.key.name = t'.key.name := by
  rw [prepareK_name (prepare_fields hp).2.2.2]
  exact setFeatureName_plain _ _ hb


end EngineWorld
