import MlodaVerif.Model.OptGroup
/-! The grouping dictionary.  `OptGroupEq` is the *equality-keyed* version of the algorithm (keys compared with `=`): a
proof device — the real, `==`-keyed algorithm of `Model/OptGroup.lean` is shown to be its image under "replace every
key by the representative of its `==`-class" (section `Quot` at the end).  This file: characterisation of `addTo`, the
invariant of the two passes, `same group ↔ same base key`, then the transfer to the `==`-keyed model. -/

namespace OptGroupEq
open OptGroup (SameGroup)
variable {α : Type} {K : Type} [DecidableEq K]

def addTo (coll : List (K × List α)) (k : K) (x : α) : List (K × List α) :=
  match coll with
  | [] => [(k, [x])]
  | (k', g) :: t => if k' = k then (k', g ++ [x]) :: t else (k', g) :: addTo t k x

def pass1 (sim : α → K) (typed : List α) (coll : List (K × List α)) : List (K × List α) :=
  typed.foldl (fun c f => addTo c (sim f) f) coll

def findGroup (base : α → K) (pick : List α → Option α) (coll : List (K × List α)) (b : K) : Option K :=
  match coll with
  | [] => none
  | (k, g) :: t =>
    match pick g with
    | some a => if base a = b then some k else findGroup base pick t b
    | none => findGroup base pick t b

def place (base : α → K) (pick : List α → Option α) (coll : List (K × List α)) (f : α) : List (K × List α) :=
  match findGroup base pick coll (base f) with
  | some k => addTo coll k f
  | none => addTo coll (base f) f

def pass2 (base : α → K) (pick : List α → Option α) (untyped : List α) (coll : List (K × List α)) :
    List (K × List α) :=
  untyped.foldl (place base pick) coll

def groupBy (isTyped : α → Bool) (sim base : α → K) (pick : List α → Option α) (fs : List α) :
    List (K × List α) :=
  pass2 base pick (fs.filter (fun f => !isTyped f)) (pass1 sim (fs.filter isTyped) [])

def keysC (coll : List (K × List α)) : List K := coll.map (·.1)
def members (coll : List (K × List α)) : List α := coll.flatMap (·.2)

theorem mem_members {coll : List (K × List α)} {x : α} : x ∈ members coll ↔ ∃ e ∈ coll, x ∈ e.2 := by
  simp [members, List.mem_flatMap]

theorem addTo_of_not_mem {coll : List (K × List α)} {k : K} (x : α) (hk : k ∉ keysC coll) :
    addTo coll k x = coll ++ [(k, [x])] := by
  induction coll with
  | nil => rfl
  | cons e t ih =>
    obtain ⟨k', g⟩ := e
    simp only [keysC, List.map_cons, List.mem_cons, not_or] at hk
    have hne : ¬ k' = k := fun h => hk.1 h.symm
    simp only [addTo, if_neg hne, List.cons_append]
    rw [ih (by simpa [keysC] using hk.2)]

theorem addTo_cons_eq (k : K) (g : List α) (t : List (K × List α)) (x : α) :
    addTo ((k, g) :: t) k x = (k, g ++ [x]) :: t := by simp [addTo]

theorem addTo_cons_ne {k k' : K} (h : ¬ k' = k) (g : List α) (t : List (K × List α)) (x : α) :
    addTo ((k', g) :: t) k x = (k', g) :: addTo t k x := by simp [addTo, h]

theorem entry_unique {coll : List (K × List α)} {k : K} {g1 g2 : List α} (hn : (keysC coll).Nodup)
    (h1 : (k, g1) ∈ coll) (h2 : (k, g2) ∈ coll) : g1 = g2 := by
  induction coll with
  | nil => cases h1
  | cons c t ih =>
    simp only [keysC, List.map_cons, List.nodup_cons] at hn
    rcases List.mem_cons.mp h1 with a | a <;> rcases List.mem_cons.mp h2 with b | b
    · have := a.trans b.symm; exact (Prod.mk.inj this).2
    · exact absurd (List.mem_map.mpr ⟨(k, g2), b, rfl⟩) (by rw [← a] at hn; exact hn.1)
    · exact absurd (List.mem_map.mpr ⟨(k, g1), a, rfl⟩) (by rw [← b] at hn; exact hn.1)
    · exact ih (by simpa [keysC] using hn.2) a b

theorem mem_addTo_of_mem {coll : List (K × List α)} {k : K} {g : List α} (x : α)
    (hn : (keysC coll).Nodup) (hg : (k, g) ∈ coll) (e' : K × List α) :
    e' ∈ addTo coll k x ↔ (e' ∈ coll ∧ e'.1 ≠ k) ∨ e' = (k, g ++ [x]) := by
  induction coll with
  | nil => cases hg
  | cons e t ih =>
    obtain ⟨k', g'⟩ := e
    simp only [keysC, List.map_cons, List.nodup_cons] at hn
    by_cases hk : k' = k
    · subst hk
      have hgg : g = g' := by
        rcases List.mem_cons.mp hg with h | h
        · cases h; rfl
        · exact absurd (List.mem_map.mpr ⟨(k', g), h, rfl⟩) hn.1
      subst hgg
      rw [addTo_cons_eq]
      simp only [List.mem_cons]
      constructor
      · rintro (h | h)
        · exact Or.inr h
        · refine Or.inl ⟨Or.inr h, fun e => hn.1 ?_⟩
          exact List.mem_map.mpr ⟨e', h, e⟩
      · rintro (⟨h | h, hne⟩ | h)
        · subst h; exact absurd rfl hne
        · exact Or.inr h
        · exact Or.inl h
    · have hg' : (k, g) ∈ t := by
        rcases List.mem_cons.mp hg with h | h
        · cases h; exact absurd rfl hk
        · exact h
      rw [addTo_cons_ne hk]
      simp only [List.mem_cons, ih (by simpa [keysC] using hn.2) hg']
      constructor
      · rintro (h | ⟨h, hne⟩ | h)
        · subst h; exact Or.inl ⟨Or.inl rfl, hk⟩
        · exact Or.inl ⟨Or.inr h, hne⟩
        · exact Or.inr h
      · rintro (⟨h | h, hne⟩ | h)
        · exact Or.inl h
        · exact Or.inr (Or.inl ⟨h, hne⟩)
        · exact Or.inr (Or.inr h)

theorem keysC_addTo_of_mem {coll : List (K × List α)} {k : K} (x : α) (hk : k ∈ keysC coll) :
    keysC (addTo coll k x) = keysC coll := by
  induction coll with
  | nil => cases hk
  | cons e t ih =>
    obtain ⟨k', g'⟩ := e
    by_cases h : k' = k
    · simp [addTo, h, keysC]
    · have : k ∈ keysC t := by
        simp only [keysC, List.map_cons, List.mem_cons] at hk
        rcases hk with e | e
        · exact absurd e.symm h
        · exact e
      simp only [addTo, if_neg h, keysC, List.map_cons] at ih ⊢
      rw [ih this]

/-- the invariant of the dictionary while features are added -/
structure GInv (base : α → K) (coll : List (K × List α)) : Prop where
  nodupKeys : (keysC coll).Nodup
  nonempty : ∀ e ∈ coll, e.2 ≠ []
  homog : ∀ e ∈ coll, ∀ x ∈ e.2, ∀ y ∈ e.2, base x = base y
  sep : ∀ e1 ∈ coll, ∀ e2 ∈ coll, ∀ x ∈ e1.2, ∀ y ∈ e2.2, base x = base y → e1 = e2

theorem GInv.nil (base : α → K) : GInv base ([] : List (K × List α)) :=
  ⟨by simp [keysC], by simp, by simp, by simp⟩

/-- appending to an existing entry whose members have the new feature's base key -/
theorem GInv.append {base : α → K} {coll : List (K × List α)} {k : K} {g : List α} {x : α}
    (hi : GInv base coll) (hg : (k, g) ∈ coll) (hb : ∀ y ∈ g, base y = base x) :
    GInv base (addTo coll k x) := by
  have hk : k ∈ keysC coll := List.mem_map.mpr ⟨(k, g), hg, rfl⟩
  have hm := fun e' => mem_addTo_of_mem (x := x) hi.nodupKeys hg e'
  have hgne : g ≠ [] := hi.nonempty _ hg
  obtain ⟨y0, hy0⟩ := List.exists_mem_of_ne_nil g hgne
  -- members of the new entry have the base of x
  have hnew : ∀ y ∈ g ++ [x], base y = base x := by
    intro y hy
    rcases List.mem_append.mp hy with h | h
    · exact hb y h
    · simp at h; subst h; rfl
  refine ⟨by rw [keysC_addTo_of_mem x hk]; exact hi.nodupKeys, ?_, ?_, ?_⟩
  · intro e he
    rcases (hm e).mp he with ⟨h, _⟩ | h
    · exact hi.nonempty e h
    · subst h; simp
  · intro e he a ha b hb'
    rcases (hm e).mp he with ⟨h, _⟩ | h
    · exact hi.homog e h a ha b hb'
    · subst h; rw [hnew a ha, hnew b hb']
  · intro e1 he1 e2 he2 a ha b hb' hab
    rcases (hm e1).mp he1 with ⟨h1, n1⟩ | h1 <;> rcases (hm e2).mp he2 with ⟨h2, n2⟩ | h2
    · exact hi.sep e1 h1 e2 h2 a ha b hb' hab
    · subst h2
      exfalso
      -- a ∈ e1 (old, key ≠ k) has the base of x, hence of y0 ∈ g: e1 = (k, g)
      have : base a = base y0 := by rw [hab, hnew b hb', hb y0 hy0]
      have := hi.sep e1 h1 (k, g) hg a ha y0 hy0 this
      exact n1 (by rw [this])
    · subst h1
      exfalso
      have : base b = base y0 := by rw [← hab, hnew a ha, hb y0 hy0]
      have := hi.sep e2 h2 (k, g) hg b hb' y0 hy0 this
      exact n2 (by rw [this])
    · rw [h1, h2]

/-- a new entry for a feature whose base key no present member has -/
theorem GInv.fresh {base : α → K} {coll : List (K × List α)} {k : K} {x : α}
    (hi : GInv base coll) (hk : k ∉ keysC coll) (hb : ∀ e ∈ coll, ∀ y ∈ e.2, base y ≠ base x) :
    GInv base (addTo coll k x) := by
  rw [addTo_of_not_mem x hk]
  refine ⟨?_, ?_, ?_, ?_⟩
  · simp only [keysC, List.map_append, List.map_cons, List.map_nil]
    rw [List.nodup_append]
    refine ⟨hi.nodupKeys, by simp, ?_⟩
    intro a ha b hb' e
    simp at hb'; subst hb'; subst e; exact hk ha
  · intro e he
    rcases List.mem_append.mp he with h | h
    · exact hi.nonempty e h
    · simp at h; subst h; simp
  · intro e he a ha b hb'
    rcases List.mem_append.mp he with h | h
    · exact hi.homog e h a ha b hb'
    · simp at h; subst h; simp at ha hb'; rw [ha, hb']
  · intro e1 he1 e2 he2 a ha b hb' hab
    rcases List.mem_append.mp he1 with h1 | h1 <;> rcases List.mem_append.mp he2 with h2 | h2
    · exact hi.sep e1 h1 e2 h2 a ha b hb' hab
    · simp at h2; subst h2; simp at hb'; subst hb'
      exact absurd hab (hb e1 h1 a ha)
    · simp at h1; subst h1; simp at ha; subst ha
      exact absurd hab.symm (hb e2 h2 b hb')
    · simp at h1 h2; rw [h1, h2]

theorem members_addTo_perm (coll : List (K × List α)) (k : K) (x : α) :
    (members (addTo coll k x)).Perm (x :: members coll) := by
  induction coll with
  | nil => simp [addTo, members]
  | cons e t ih =>
    obtain ⟨k', g⟩ := e
    by_cases h : k' = k
    · subst h
      rw [addTo_cons_eq]
      simp only [members, List.flatMap_cons]
      rw [List.append_assoc]
      exact (List.perm_middle (l₁ := g) (a := x) (l₂ := List.flatMap (·.2) t))
    · rw [addTo_cons_ne h]
      simp only [members, List.flatMap_cons] at ih ⊢
      exact ((List.Perm.append_left g ih).trans List.perm_middle)

theorem mem_members_addTo {coll : List (K × List α)} {k : K} {x y : α} :
    y ∈ members (addTo coll k x) ↔ y = x ∨ y ∈ members coll := by
  rw [(members_addTo_perm coll k x).mem_iff, List.mem_cons]

/-! ## the two passes -/

section passes
variable (isTyped : α → Bool) (sim base : α → K) (pick : List α → Option α)

/-- no two features of the request collide: the hash keys separate exactly what the hashed tuples separate -/
structure NoColl (fs : List α) : Prop where
  h1 : ∀ f ∈ fs, ∀ g ∈ fs, isTyped f = true → isTyped g = true → sim f = sim g → base f = base g
  h2 : ∀ f ∈ fs, ∀ g ∈ fs, isTyped f = true → isTyped g = true → base f = base g → sim f = sim g
  h3 : ∀ f ∈ fs, ∀ g ∈ fs, isTyped f = true → isTyped g = false → sim f = base g → base f = base g

/-- `next(iter(group))` returns a member of a non-empty set -/
structure PickOk : Prop where
  mem : ∀ g x, pick g = some x → x ∈ g
  some : ∀ g, g ≠ [] → ∃ x, pick g = some x

def P1 (fs : List α) (coll : List (K × List α)) : Prop :=
  GInv base coll ∧ ∀ e ∈ coll, ∀ x ∈ e.2, x ∈ fs ∧ isTyped x = true ∧ sim x = e.1

def P2 (fs : List α) (coll : List (K × List α)) : Prop :=
  GInv base coll ∧ (∀ e ∈ coll, ∀ x ∈ e.2, x ∈ fs) ∧
    ∀ e ∈ coll, ∃ x ∈ e.2, (isTyped x = true ∧ sim x = e.1) ∨ (isTyped x = false ∧ base x = e.1)

theorem P1_step {fs : List α} (hnc : NoColl isTyped sim base fs) {coll : List (K × List α)} {f : α}
    (hf : f ∈ fs) (ht : isTyped f = true) (hp : P1 isTyped sim base fs coll) :
    P1 isTyped sim base fs (addTo coll (sim f) f) := by
  obtain ⟨hi, hd⟩ := hp
  by_cases hk : sim f ∈ keysC coll
  · obtain ⟨⟨k', g⟩, hg, hk'⟩ := List.mem_map.mp hk
    simp only at hk'; subst hk'
    refine ⟨hi.append hg ?_, ?_⟩
    · intro y hy
      obtain ⟨hyf, hyt, hys⟩ := hd _ hg y hy
      exact hnc.h1 y hyf f hf hyt ht hys
    · intro e he x hx
      rcases (mem_addTo_of_mem f hi.nodupKeys hg e).mp he with ⟨h, _⟩ | h
      · exact hd e h x hx
      · subst h
        rcases List.mem_append.mp hx with h | h
        · exact hd _ hg x h
        · simp at h; subst h; exact ⟨hf, ht, rfl⟩
  · refine ⟨hi.fresh hk ?_, ?_⟩
    · intro e he y hy hby
      obtain ⟨hyf, hyt, hys⟩ := hd e he y hy
      have := hnc.h2 y hyf f hf hyt ht hby
      exact hk (List.mem_map.mpr ⟨e, he, by rw [← hys, this]⟩)
    · intro e he x hx
      rw [addTo_of_not_mem f hk] at he
      rcases List.mem_append.mp he with h | h
      · exact hd e h x hx
      · simp at h; subst h; simp at hx; subst hx; exact ⟨hf, ht, rfl⟩

theorem P1_pass {fs : List α} (hnc : NoColl isTyped sim base fs) :
    ∀ (l : List α) (coll : List (K × List α)), (∀ f ∈ l, f ∈ fs ∧ isTyped f = true) →
      P1 isTyped sim base fs coll →
      P1 isTyped sim base fs (pass1 sim l coll) ∧
      (members (pass1 sim l coll)).Perm (l ++ members coll) := by
  intro l
  induction l with
  | nil => intro coll _ hp; exact ⟨hp, by simp [pass1]⟩
  | cons f t ih =>
    intro coll hl hp
    have hf := hl f (by simp)
    have hstep := P1_step isTyped sim base hnc hf.1 hf.2 hp
    obtain ⟨h1, h2⟩ := ih (addTo coll (sim f) f) (fun g hg => hl g (by simp [hg])) hstep
    refine ⟨h1, ?_⟩
    have e : pass1 sim (f :: t) coll = pass1 sim t (addTo coll (sim f) f) := rfl
    rw [e]
    refine h2.trans ?_
    refine (List.Perm.append_left t (members_addTo_perm coll (sim f) f)).trans ?_
    simp only [List.cons_append]
    exact List.perm_middle

theorem P1_to_P2 {fs : List α} {coll : List (K × List α)} (hp : P1 isTyped sim base fs coll) :
    P2 isTyped sim base fs coll := by
  obtain ⟨hi, hd⟩ := hp
  refine ⟨hi, fun e he x hx => (hd e he x hx).1, ?_⟩
  intro e he
  obtain ⟨x, hx⟩ := List.exists_mem_of_ne_nil e.2 (hi.nonempty e he)
  exact ⟨x, hx, Or.inl (hd e he x hx).2⟩

theorem findGroup_some {coll : List (K × List α)} {b k : K} (h : findGroup base pick coll b = some k) :
    ∃ g a, (k, g) ∈ coll ∧ pick g = some a ∧ base a = b := by
  induction coll with
  | nil => simp [findGroup] at h
  | cons e t ih =>
    obtain ⟨k', g⟩ := e
    unfold findGroup at h
    split at h
    · rename_i a ha
      split at h
      · rename_i hb
        cases h
        exact ⟨g, a, by simp, ha, hb⟩
      · obtain ⟨g', a', hm, hp, hb⟩ := ih h
        exact ⟨g', a', List.mem_cons_of_mem _ hm, hp, hb⟩
    · obtain ⟨g', a', hm, hp, hb⟩ := ih h
      exact ⟨g', a', List.mem_cons_of_mem _ hm, hp, hb⟩

theorem findGroup_none {coll : List (K × List α)} {b : K} (h : findGroup base pick coll b = none) :
    ∀ e ∈ coll, ∀ a, pick e.2 = some a → base a ≠ b := by
  induction coll with
  | nil => intro e he; cases he
  | cons c t ih =>
    obtain ⟨k', g⟩ := c
    unfold findGroup at h
    intro e he a ha
    split at h
    · rename_i a' ha'
      split at h
      · cases h
      · rename_i hb
        rcases List.mem_cons.mp he with h1 | h1
        · subst h1; simp only at ha; rw [ha'] at ha; cases ha; exact hb
        · exact ih h e h1 a ha
    · rename_i hnone
      rcases List.mem_cons.mp he with h1 | h1
      · subst h1; simp only at ha; rw [ha] at hnone; cases hnone
      · exact ih h e h1 a ha

theorem P2_step {fs : List α} (hnc : NoColl isTyped sim base fs) (hpk : PickOk pick) {coll : List (K × List α)} {f : α}
    (hf : f ∈ fs) (ht : isTyped f = false) (hp : P2 isTyped sim base fs coll) :
    P2 isTyped sim base fs (place base pick coll f) := by
  obtain ⟨hi, hfs, hw⟩ := hp
  unfold place
  cases hfind : findGroup base pick coll (base f) with
  | some k =>
    obtain ⟨g, a, hg, hpa, hba⟩ := findGroup_some base pick hfind
    have ha : a ∈ g := hpk.mem g a hpa
    refine ⟨hi.append hg (fun y hy => (hi.homog _ hg y hy a ha).trans hba), ?_, ?_⟩
    · intro e he x hx
      rcases (mem_addTo_of_mem f hi.nodupKeys hg e).mp he with ⟨h, _⟩ | h
      · exact hfs e h x hx
      · subst h
        rcases List.mem_append.mp hx with h | h
        · exact hfs _ hg x h
        · simp at h; subst h; exact hf
    · intro e he
      rcases (mem_addTo_of_mem f hi.nodupKeys hg e).mp he with ⟨h, _⟩ | h
      · exact hw e h
      · subst h
        obtain ⟨x, hx, hxw⟩ := hw _ hg
        exact ⟨x, List.mem_append.mpr (Or.inl hx), hxw⟩
  | none =>
    have hno := findGroup_none base pick hfind
    -- no present member has the base key of f
    have hnb : ∀ e ∈ coll, ∀ y ∈ e.2, base y ≠ base f := by
      intro e he y hy hby
      obtain ⟨a, hpa⟩ := hpk.some e.2 (hi.nonempty e he)
      have ha := hpk.mem e.2 a hpa
      exact hno e he a hpa ((hi.homog e he a ha y hy).trans hby)
    have hk : base f ∉ keysC coll := by
      intro hk
      obtain ⟨e, he, hek⟩ := List.mem_map.mp hk
      obtain ⟨x, hx, hxw⟩ := hw e he
      rcases hxw with ⟨hxt, hxs⟩ | ⟨hxt, hxb⟩
      · exact hnb e he x hx (hnc.h3 x (hfs e he x hx) f hf hxt ht (hxs.trans hek))
      · exact hnb e he x hx (hxb.trans hek)
    refine ⟨hi.fresh hk hnb, ?_, ?_⟩
    · intro e he x hx
      rw [addTo_of_not_mem f hk] at he
      rcases List.mem_append.mp he with h | h
      · exact hfs e h x hx
      · simp at h; subst h; simp at hx; subst hx; exact hf
    · intro e he
      rw [addTo_of_not_mem f hk] at he
      rcases List.mem_append.mp he with h | h
      · exact hw e h
      · simp at h; subst h; exact ⟨f, by simp, Or.inr ⟨ht, rfl⟩⟩

theorem members_place_perm (coll : List (K × List α)) (f : α) :
    (members (place base pick coll f)).Perm (f :: members coll) := by
  unfold place
  split <;> exact members_addTo_perm _ _ _

theorem P2_pass {fs : List α} (hnc : NoColl isTyped sim base fs) (hpk : PickOk pick) :
    ∀ (l : List α) (coll : List (K × List α)), (∀ f ∈ l, f ∈ fs ∧ isTyped f = false) →
      P2 isTyped sim base fs coll →
      P2 isTyped sim base fs (pass2 base pick l coll) ∧
      (members (pass2 base pick l coll)).Perm (l ++ members coll) := by
  intro l
  induction l with
  | nil => intro coll _ hp; exact ⟨hp, by simp [pass2]⟩
  | cons f t ih =>
    intro coll hl hp
    have hf := hl f (by simp)
    have hstep := P2_step isTyped sim base pick hnc hpk hf.1 hf.2 hp
    obtain ⟨h1, h2⟩ := ih (place base pick coll f) (fun g hg => hl g (by simp [hg])) hstep
    refine ⟨h1, ?_⟩
    have e : pass2 base pick (f :: t) coll = pass2 base pick t (place base pick coll f) := rfl
    rw [e]
    refine h2.trans ?_
    refine (List.Perm.append_left t (members_place_perm base pick coll f)).trans ?_
    simp only [List.cons_append]
    exact List.perm_middle

/-- every feature lands in exactly one group, once: the groups are a partition of the request (no hypothesis) -/
theorem groupBy_members_perm (fs : List α) :
    (members (groupBy isTyped sim base pick fs)).Perm fs := by
  unfold groupBy
  have h2 : ∀ (l : List α) (coll : List (K × List α)), (members (pass2 base pick l coll)).Perm (l ++ members coll) := by
    intro l
    induction l with
    | nil => intro coll; simp [pass2]
    | cons f t ih =>
      intro coll
      have e : pass2 base pick (f :: t) coll = pass2 base pick t (place base pick coll f) := rfl
      rw [e]
      refine (ih _).trans ?_
      refine (List.Perm.append_left t (members_place_perm base pick coll f)).trans ?_
      simp only [List.cons_append]; exact List.perm_middle
  have h1 : ∀ (l : List α) (coll : List (K × List α)), (members (pass1 sim l coll)).Perm (l ++ members coll) := by
    intro l
    induction l with
    | nil => intro coll; simp [pass1]
    | cons f t ih =>
      intro coll
      have e : pass1 sim (f :: t) coll = pass1 sim t (addTo coll (sim f) f) := rfl
      rw [e]
      refine (ih _).trans ?_
      refine (List.Perm.append_left t (members_addTo_perm coll (sim f) f)).trans ?_
      simp only [List.cons_append]; exact List.perm_middle
  refine (h2 _ _).trans ?_
  refine (List.Perm.append_left _ (h1 _ _)).trans ?_
  simp only [members, List.flatMap_nil, List.append_nil]
  -- untyped ++ typed is a permutation of fs
  exact (List.perm_append_comm).trans (List.filter_append_perm isTyped fs)

/-- **same group ⟺ same base key**, under the no-collision hypotheses, for any choice function -/
theorem groupBy_same_iff {fs : List α} (hnc : NoColl isTyped sim base fs) (hpk : PickOk pick) :
    ∀ f ∈ fs, ∀ g ∈ fs, SameGroup (groupBy isTyped sim base pick fs) f g ↔ base f = base g := by
  have hp1 := (P1_pass isTyped sim base hnc (fs.filter isTyped) []
    (fun f hf => by simp only [List.mem_filter] at hf; exact hf)
    ⟨GInv.nil base, by simp⟩).1
  have hp2 := (P2_pass isTyped sim base pick hnc hpk (fs.filter (fun f => !isTyped f)) _
    (fun f hf => by simp only [List.mem_filter, Bool.not_eq_true'] at hf; exact hf)
    (P1_to_P2 isTyped sim base hp1)).1
  have hperm := groupBy_members_perm isTyped sim base pick fs
  obtain ⟨hi, _, _⟩ := hp2
  intro f hf g hg
  constructor
  · rintro ⟨e, he, hfe, hge⟩
    exact hi.homog e he f hfe g hge
  · intro hb
    obtain ⟨e1, he1, hf1⟩ := mem_members.mp (hperm.mem_iff.mpr hf)
    obtain ⟨e2, he2, hg2⟩ := mem_members.mp (hperm.mem_iff.mpr hg)
    have := hi.sep e1 he1 e2 he2 f hf1 g hg2 hb
    subst this
    exact ⟨e1, he1, hf1, hg2⟩

/-! ### unconditional part: typed features with equal similarity keys always share a group -/

theorem nodupKeys_addTo {coll : List (K × List α)} (k : K) (x : α) (hn : (keysC coll).Nodup) :
    (keysC (addTo coll k x)).Nodup := by
  by_cases hk : k ∈ keysC coll
  · rw [keysC_addTo_of_mem x hk]; exact hn
  · rw [addTo_of_not_mem x hk]
    simp only [keysC, List.map_append, List.map_cons, List.map_nil]
    rw [List.nodup_append]
    refine ⟨hn, by simp, ?_⟩
    intro a ha b hb e
    simp at hb; subst hb; subst e; exact hk ha

/-- typed members sit under their own similarity key -/
def TK (coll : List (K × List α)) : Prop :=
  (keysC coll).Nodup ∧ ∀ e ∈ coll, ∀ x ∈ e.2, isTyped x = true → sim x = e.1

theorem TK_addTo {coll : List (K × List α)} {k : K} {x : α} (h : TK isTyped sim coll)
    (hx : isTyped x = true → sim x = k) : TK isTyped sim (addTo coll k x) := by
  obtain ⟨hn, hd⟩ := h
  refine ⟨nodupKeys_addTo k x hn, ?_⟩
  by_cases hk : k ∈ keysC coll
  · obtain ⟨⟨k', g⟩, hg, hk'⟩ := List.mem_map.mp hk
    simp only at hk'; subst hk'
    intro e he y hy ty
    rcases (mem_addTo_of_mem x hn hg e).mp he with ⟨h1, _⟩ | h1
    · exact hd e h1 y hy ty
    · subst h1
      rcases List.mem_append.mp hy with h2 | h2
      · exact hd _ hg y h2 ty
      · simp at h2; subst h2; exact hx ty
  · rw [addTo_of_not_mem x hk]
    intro e he y hy ty
    rcases List.mem_append.mp he with h1 | h1
    · exact hd e h1 y hy ty
    · simp at h1; subst h1; simp at hy; subst hy; exact hx ty

theorem TK_groupBy (fs : List α) : TK isTyped sim (groupBy isTyped sim base pick fs) := by
  unfold groupBy
  have h1 : ∀ (l : List α) (coll : List (K × List α)), TK isTyped sim coll → TK isTyped sim (pass1 sim l coll) := by
    intro l
    induction l with
    | nil => intro coll h; exact h
    | cons f t ih => intro coll h; exact ih _ (TK_addTo isTyped sim h (fun _ => rfl))
  have h2 : ∀ (l : List α) (coll : List (K × List α)), (∀ f ∈ l, isTyped f = false) → TK isTyped sim coll →
      TK isTyped sim (pass2 base pick l coll) := by
    intro l
    induction l with
    | nil => intro coll _ h; exact h
    | cons f t ih =>
      intro coll hl h
      have hf := hl f (by simp)
      refine ih _ (fun g hg => hl g (by simp [hg])) ?_
      unfold place
      split <;> exact TK_addTo isTyped sim h (fun ty => by rw [hf] at ty; cases ty)
  refine h2 _ _ (fun f hf => by simp only [List.mem_filter, Bool.not_eq_true'] at hf; exact hf.2) (h1 _ _ ⟨by simp [keysC], by simp⟩)

/-- **no hypothesis on the hash**: two features with a declared type and equal `has_similarity_properties()` are always
in one group -/
theorem groupBy_typed_same_key (fs : List α) (f g : α) (hf : f ∈ fs) (hg : g ∈ fs)
    (tf : isTyped f = true) (tg : isTyped g = true) (hk : sim f = sim g) :
    SameGroup (groupBy isTyped sim base pick fs) f g := by
  obtain ⟨hn, hd⟩ := TK_groupBy isTyped sim base pick fs
  have hperm := groupBy_members_perm isTyped sim base pick fs
  obtain ⟨e1, he1, hf1⟩ := mem_members.mp (hperm.mem_iff.mpr hf)
  obtain ⟨e2, he2, hg2⟩ := mem_members.mp (hperm.mem_iff.mpr hg)
  have k1 := hd e1 he1 f hf1 tf
  have k2 := hd e2 he2 g hg2 tg
  obtain ⟨a1, g1⟩ := e1
  obtain ⟨a2, g2⟩ := e2
  simp only at k1 k2 hf1 hg2
  have : a1 = a2 := by rw [← k1, ← k2, hk]
  subst this
  have := entry_unique hn he1 he2
  subst this
  exact ⟨_, he1, hf1, hg2⟩

end passes
end OptGroupEq

/-! ## transfer to the `==`-keyed dictionary of the code -/

namespace OptGroupQ
open OptGroup
variable {α : Type} {K : Type} [DecidableEq K] (keq : K → K → Bool)

/-- the key comparison is an equivalence relation on the keys that occur -/
structure EquivOn (S : List K) : Prop where
  refl : ∀ a ∈ S, keq a a = true
  symm : ∀ a ∈ S, ∀ b ∈ S, keq a b = true → keq b a = true
  trans : ∀ a ∈ S, ∀ b ∈ S, ∀ c ∈ S, keq a b = true → keq b c = true → keq a c = true

/-- representative of the `==`-class of `k`: the first occurring key that is `==` to it -/
def rep (S : List K) (k : K) : K := (S.find? (fun s => keq s k)).getD k

variable {keq}

theorem find_congr {β : Type} {p q : β → Bool} : ∀ (l : List β), (∀ s ∈ l, p s = q s) → l.find? p = l.find? q := by
  intro l
  induction l with
  | nil => intro _; rfl
  | cons x xs ih =>
    intro h
    simp only [List.find?_cons, h x (by simp)]
    rw [ih (fun s hs => h s (by simp [hs]))]

theorem rep_eq_iff {S : List K} (h : EquivOn keq S) {a b : K} (ha : a ∈ S) (hb : b ∈ S) :
    rep keq S a = rep keq S b ↔ keq a b = true := by
  unfold rep
  constructor
  · intro e
    cases h1 : S.find? (fun s => keq s a) with
    | none =>
      have := List.find?_eq_none.mp h1 a ha
      simp [h.refl a ha] at this
    | some s =>
      cases h2 : S.find? (fun s => keq s b) with
      | none =>
        have := List.find?_eq_none.mp h2 b hb
        simp [h.refl b hb] at this
      | some t =>
        rw [h1, h2] at e
        simp only [Option.getD_some] at e
        subst e
        have hs := List.mem_of_find?_eq_some h1
        have k1 : keq s a = true := by simpa using List.find?_some h1
        have k2 : keq s b = true := by simpa using List.find?_some h2
        exact h.trans a ha s hs b hb (h.symm s hs a ha k1) k2
  · intro e
    have hcongr : S.find? (fun s => keq s a) = S.find? (fun s => keq s b) := by
      apply find_congr
      intro s hs
      apply Bool.eq_iff_iff.mpr
      constructor
      · intro k; exact h.trans s hs a ha b hb k e
      · intro k; exact h.trans s hs b hb a ha k (h.symm a ha b hb e)
    rw [hcongr]
    cases h2 : S.find? (fun s => keq s b) with
    | none =>
      have := List.find?_eq_none.mp h2 b hb
      simp [h.refl b hb] at this
    | some t => rfl

def mapKeys (S : List K) (coll : List (K × List α)) : List (K × List α) :=
  coll.map (fun e => (rep keq S e.1, e.2))

theorem addTo_sim {S : List K} (h : EquivOn keq S) (coll : List (K × List α)) (k : K) (x : α)
    (hc : ∀ e ∈ coll, e.1 ∈ S) (hk : k ∈ S) :
    mapKeys (keq := keq) S (addTo keq coll k x) = OptGroupEq.addTo (mapKeys (keq := keq) S coll) (rep keq S k) x := by
  induction coll with
  | nil => rfl
  | cons e t ih =>
    obtain ⟨k', g⟩ := e
    have hk' : k' ∈ S := hc (k', g) (by simp)
    have ht := ih (fun e he => hc e (by simp [he]))
    by_cases hq : keq k' k = true
    · have hr : rep keq S k' = rep keq S k := (rep_eq_iff h hk' hk).mpr hq
      simp only [addTo, hq, if_true, mapKeys, List.map_cons, OptGroupEq.addTo, hr]
    · have hr : ¬ rep keq S k' = rep keq S k := fun e => hq ((rep_eq_iff h hk' hk).mp e)
      simp only [mapKeys] at ht
      simp only [addTo, hq, mapKeys, List.map_cons, OptGroupEq.addTo, hr, if_false, ht, Bool.false_eq_true]

theorem findGroup_sim {S : List K} (h : EquivOn keq S) (base : α → K) (pick : List α → Option α)
    (coll : List (K × List α)) (b : K) (hb : b ∈ S)
    (hp : ∀ e ∈ coll, ∀ a, pick e.2 = some a → base a ∈ S) :
    (findGroup keq base pick coll b).map (rep keq S) =
      OptGroupEq.findGroup (fun x => rep keq S (base x)) pick (mapKeys (keq := keq) S coll) (rep keq S b) := by
  induction coll with
  | nil => rfl
  | cons e t ih =>
    obtain ⟨k', g⟩ := e
    have ht := ih (fun e he => hp e (by simp [he]))
    simp only [findGroup, mapKeys, List.map_cons, OptGroupEq.findGroup]
    cases hpk : pick g with
    | none => simp only; exact ht
    | some a =>
      have ha : base a ∈ S := hp (k', g) (by simp) a hpk
      simp only
      by_cases hq : keq (base a) b = true
      · have hr : rep keq S (base a) = rep keq S b := (rep_eq_iff h ha hb).mpr hq
        simp [hq, hr]
      · have hr : ¬ rep keq S (base a) = rep keq S b := fun e => hq ((rep_eq_iff h ha hb).mp e)
        simp only [hq, hr, if_false, Bool.false_eq_true]
        exact ht

theorem findGroup_key_mem (base : α → K) (pick : List α → Option α) (coll : List (K × List α)) (b k : K)
    (h : findGroup keq base pick coll b = some k) : ∃ e ∈ coll, e.1 = k := by
  induction coll with
  | nil => simp [findGroup] at h
  | cons e t ih =>
    obtain ⟨k', g⟩ := e
    unfold findGroup at h
    split at h
    · split at h
      · cases h; exact ⟨(k, g), by simp, rfl⟩
      · obtain ⟨e, he, hk⟩ := ih h; exact ⟨e, by simp [he], hk⟩
    · obtain ⟨e, he, hk⟩ := ih h; exact ⟨e, by simp [he], hk⟩

/-- keys in `S`, members in `fs` -/
def Good (S : List K) (fs : List α) (coll : List (K × List α)) : Prop :=
  (∀ e ∈ coll, e.1 ∈ S) ∧ ∀ e ∈ coll, ∀ x ∈ e.2, x ∈ fs

theorem good_addTo {S : List K} {fs : List α} {coll : List (K × List α)} {k : K} {x : α}
    (hg : Good S fs coll) (hk : k ∈ S) (hx : x ∈ fs) : Good S fs (addTo keq coll k x) := by
  induction coll with
  | nil => exact ⟨by simp [addTo, hk], by simp [addTo, hx]⟩
  | cons e t ih =>
    obtain ⟨k', g⟩ := e
    have ht := ih ⟨fun e he => hg.1 e (by simp [he]), fun e he => hg.2 e (by simp [he])⟩
    unfold addTo
    split
    · refine ⟨?_, ?_⟩
      · intro e he
        rcases List.mem_cons.mp he with rfl | he
        · exact hg.1 (k', g) (by simp)
        · exact hg.1 e (by simp [he])
      · intro e he y hy
        rcases List.mem_cons.mp he with rfl | he
        · rcases List.mem_append.mp hy with h | h
          · exact hg.2 (k', g) (by simp) y h
          · simp at h; subst h; exact hx
        · exact hg.2 e (by simp [he]) y hy
    · refine ⟨?_, ?_⟩
      · intro e he
        rcases List.mem_cons.mp he with rfl | he
        · exact hg.1 (k', g) (by simp)
        · exact ht.1 e he
      · intro e he y hy
        rcases List.mem_cons.mp he with rfl | he
        · exact hg.2 (k', g) (by simp) y hy
        · exact ht.2 e he y hy

theorem place_sim {S : List K} {fs : List α} (h : EquivOn keq S) (base : α → K) (pick : List α → Option α)
    (hbase : ∀ x ∈ fs, base x ∈ S) (hpm : ∀ g x, pick g = some x → x ∈ g)
    (coll : List (K × List α)) (f : α) (hf : f ∈ fs) (hg : Good S fs coll) :
    mapKeys (keq := keq) S (place keq base pick coll f) =
      OptGroupEq.place (fun x => rep keq S (base x)) pick (mapKeys (keq := keq) S coll) f ∧
    Good S fs (place keq base pick coll f) := by
  have hp : ∀ e ∈ coll, ∀ a, pick e.2 = some a → base a ∈ S :=
    fun e he a ha => hbase a (hg.2 e he a (hpm _ _ ha))
  have hs := findGroup_sim h base pick coll (base f) (hbase f hf) hp
  unfold place OptGroupEq.place
  rw [← hs]
  cases hfind : findGroup keq base pick coll (base f) with
  | none =>
    simp only [Option.map_none]
    exact ⟨addTo_sim h coll (base f) f hg.1 (hbase f hf), good_addTo hg (hbase f hf) hf⟩
  | some k =>
    simp only [Option.map_some]
    obtain ⟨e, he, hk⟩ := findGroup_key_mem base pick coll (base f) k hfind
    have hkS : k ∈ S := hk ▸ hg.1 e he
    exact ⟨addTo_sim h coll k f hg.1 hkS, good_addTo hg hkS hf⟩

theorem groupBy_sim {S : List K} {fs : List α} (h : EquivOn keq S) (isTyped : α → Bool) (sim base : α → K)
    (pick : List α → Option α) (hsim : ∀ x ∈ fs, sim x ∈ S) (hbase : ∀ x ∈ fs, base x ∈ S)
    (hpm : ∀ g x, pick g = some x → x ∈ g) :
    mapKeys (keq := keq) S (groupBy keq isTyped sim base pick fs) =
      OptGroupEq.groupBy isTyped (fun x => rep keq S (sim x)) (fun x => rep keq S (base x)) pick fs := by
  unfold groupBy OptGroupEq.groupBy
  have h1 : ∀ (l : List α) (coll : List (K × List α)), (∀ f ∈ l, f ∈ fs) → Good S fs coll →
      mapKeys (keq := keq) S (pass1 keq sim l coll) =
        OptGroupEq.pass1 (fun x => rep keq S (sim x)) l (mapKeys (keq := keq) S coll) ∧
      Good S fs (pass1 keq sim l coll) := by
    intro l
    induction l with
    | nil => intro coll _ hg; exact ⟨rfl, hg⟩
    | cons f t ih =>
      intro coll hl hg
      have hf := hl f (by simp)
      have hgood := good_addTo (keq := keq) hg (hsim f hf) hf
      obtain ⟨e1, e2⟩ := ih (addTo keq coll (sim f) f) (fun g hg' => hl g (by simp [hg'])) hgood
      refine ⟨?_, e2⟩
      simp only [pass1, List.foldl_cons, OptGroupEq.pass1] at e1 ⊢
      rw [e1, addTo_sim h coll (sim f) f hg.1 (hsim f hf)]
  have h2 : ∀ (l : List α) (coll : List (K × List α)), (∀ f ∈ l, f ∈ fs) → Good S fs coll →
      mapKeys (keq := keq) S (pass2 keq base pick l coll) =
        OptGroupEq.pass2 (fun x => rep keq S (base x)) pick l (mapKeys (keq := keq) S coll) := by
    intro l
    induction l with
    | nil => intro coll _ _; rfl
    | cons f t ih =>
      intro coll hl hg
      have hf := hl f (by simp)
      obtain ⟨p1, p2⟩ := place_sim h base pick hbase hpm coll f hf hg
      have := ih (place keq base pick coll f) (fun g hg' => hl g (by simp [hg'])) p2
      simp only [pass2, List.foldl_cons, OptGroupEq.pass2] at this ⊢
      rw [this, p1]
  obtain ⟨e1, g1⟩ := h1 (fs.filter isTyped) [] (fun f hf => (List.mem_filter.mp hf).1) ⟨by simp, by simp⟩
  rw [h2 _ _ (fun f hf => (List.mem_filter.mp hf).1) g1, e1]
  rfl

theorem sameGroup_mapKeys (S : List K) (coll : List (K × List α)) (f g : α) :
    SameGroup (mapKeys (keq := keq) S coll) f g ↔ SameGroup coll f g := by
  unfold SameGroup mapKeys
  constructor
  · rintro ⟨e, he, h1, h2⟩
    obtain ⟨e0, he0, rfl⟩ := List.mem_map.mp he
    exact ⟨e0, he0, h1, h2⟩
  · rintro ⟨e, he, h1, h2⟩
    exact ⟨_, List.mem_map.mpr ⟨e, he, rfl⟩, h1, h2⟩

/-- the key functions are coherent: the similarity key of a typed feature is its base key plus the declared type -/
structure KeyShape (isTyped : α → Bool) (sim base : α → K) (fs : List α) : Prop where
  q1 : ∀ f ∈ fs, ∀ g ∈ fs, isTyped f = true → isTyped g = true → keq (sim f) (sim g) = true → keq (base f) (base g) = true
  q2 : ∀ f ∈ fs, ∀ g ∈ fs, isTyped f = true → isTyped g = true → keq (base f) (base g) = true → keq (sim f) (sim g) = true
  q3 : ∀ f ∈ fs, ∀ g ∈ fs, isTyped f = true → isTyped g = false → keq (sim f) (base g) = false

/-- **same group ⟺ `==` base keys** for the `==`-keyed dictionary, any choice function, any iteration order -/
theorem groupBy_same_iff {S : List K} {fs : List α} (h : EquivOn keq S) (isTyped : α → Bool) (sim base : α → K)
    (pick : List α → Option α) (hsim : ∀ x ∈ fs, sim x ∈ S) (hbase : ∀ x ∈ fs, base x ∈ S)
    (hpk : OptGroupEq.PickOk pick) (hshape : KeyShape (keq := keq) isTyped sim base fs) :
    ∀ f ∈ fs, ∀ g ∈ fs, SameGroup (groupBy keq isTyped sim base pick fs) f g ↔ keq (base f) (base g) = true := by
  intro f hf g hg
  rw [← sameGroup_mapKeys (keq := keq) S, groupBy_sim h isTyped sim base pick hsim hbase hpk.mem]
  have hnc : OptGroupEq.NoColl isTyped (fun x => rep keq S (sim x)) (fun x => rep keq S (base x)) fs := by
    refine ⟨?_, ?_, ?_⟩
    · intro a ha b hb ta tb e
      exact (rep_eq_iff h (hbase a ha) (hbase b hb)).mpr
        (hshape.q1 a ha b hb ta tb ((rep_eq_iff h (hsim a ha) (hsim b hb)).mp e))
    · intro a ha b hb ta tb e
      exact (rep_eq_iff h (hsim a ha) (hsim b hb)).mpr
        (hshape.q2 a ha b hb ta tb ((rep_eq_iff h (hbase a ha) (hbase b hb)).mp e))
    · intro a ha b hb ta tb e
      have := (rep_eq_iff h (hsim a ha) (hbase b hb)).mp e
      rw [hshape.q3 a ha b hb ta tb] at this; cases this
  rw [OptGroupEq.groupBy_same_iff isTyped _ _ pick hnc hpk f hf g hg]
  exact rep_eq_iff h (hbase f hf) (hbase g hg)

omit [DecidableEq K] in
/-- partition (no hypothesis): every feature is in exactly one group, once -/
theorem members_addTo_perm (coll : List (K × List α)) (k : K) (x : α) :
    (OptGroupEq.members (addTo keq coll k x)).Perm (x :: OptGroupEq.members coll) := by
  induction coll with
  | nil => simp [addTo, OptGroupEq.members]
  | cons e t ih =>
    obtain ⟨k', g⟩ := e
    unfold addTo
    split
    · simp only [OptGroupEq.members, List.flatMap_cons]
      rw [List.append_assoc]
      exact (List.perm_middle (l₁ := g) (a := x) (l₂ := List.flatMap (·.2) t))
    · simp only [OptGroupEq.members, List.flatMap_cons] at ih ⊢
      exact ((List.Perm.append_left g ih).trans List.perm_middle)

omit [DecidableEq K] in
theorem groupBy_members_perm (isTyped : α → Bool) (sim base : α → K) (pick : List α → Option α) (fs : List α) :
    (OptGroupEq.members (groupBy keq isTyped sim base pick fs)).Perm fs := by
  unfold groupBy
  have hplace : ∀ coll f, (OptGroupEq.members (place keq base pick coll f)).Perm (f :: OptGroupEq.members coll) := by
    intro coll f; unfold place; split <;> exact members_addTo_perm _ _ _
  have h2 : ∀ (l : List α) (coll : List (K × List α)),
      (OptGroupEq.members (pass2 keq base pick l coll)).Perm (l ++ OptGroupEq.members coll) := by
    intro l
    induction l with
    | nil => intro coll; simp [pass2]
    | cons f t ih =>
      intro coll
      have e : pass2 keq base pick (f :: t) coll = pass2 keq base pick t (place keq base pick coll f) := rfl
      rw [e]
      refine (ih _).trans ?_
      refine (List.Perm.append_left t (hplace coll f)).trans ?_
      simp only [List.cons_append]; exact List.perm_middle
  have h1 : ∀ (l : List α) (coll : List (K × List α)),
      (OptGroupEq.members (pass1 keq sim l coll)).Perm (l ++ OptGroupEq.members coll) := by
    intro l
    induction l with
    | nil => intro coll; simp [pass1]
    | cons f t ih =>
      intro coll
      have e : pass1 keq sim (f :: t) coll = pass1 keq sim t (addTo keq coll (sim f) f) := rfl
      rw [e]
      refine (ih _).trans ?_
      refine (List.Perm.append_left t (members_addTo_perm coll (sim f) f)).trans ?_
      simp only [List.cons_append]; exact List.perm_middle
  refine (h2 _ _).trans ?_
  refine (List.Perm.append_left _ (h1 _ _)).trans ?_
  simp only [OptGroupEq.members, List.flatMap_nil, List.append_nil]
  exact (List.perm_append_comm).trans (List.filter_append_perm isTyped fs)

end OptGroupQ
