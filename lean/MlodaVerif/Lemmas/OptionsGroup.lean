import MlodaVerif.Model.OptGroup
/-! The grouping dictionary: characterisation of `addTo`, the invariant of the two passes, and the abstract
`same group ↔ same base key` theorem under the no-collision hypotheses. -/

namespace OptGroup
variable {α : Type} {K : Type} [DecidableEq K]

def keysC (coll : List (K × List α)) : List K := coll.map (·.1)
def members (coll : List (K × List α)) : List α := coll.flatMap (·.2)

theorem mem_members {coll : List (K × List α)} {x : α} : x ∈ members coll ↔ ∃ e ∈ coll, x ∈ e.2 := by
  simp [members, List.mem_flatMap]

theorem addTo_of_not_mem {coll : List (K × List α)} {k : K} (x : α) (hk : k ∉ keysC coll) :
    addTo coll k x = coll ++ [(k, [x])] := by
  induction coll with
  | nil => rfl
  | cons e t ih =>
    obtain ⟨k', g⟩ := e
    simp only [keysC, List.map_cons, List.mem_cons, not_or] at hk
    have hne : ¬ k' = k := fun h => hk.1 h.symm
    simp only [addTo, if_neg hne, List.cons_append]
    rw [ih (by simpa [keysC] using hk.2)]

theorem addTo_cons_eq (k : K) (g : List α) (t : List (K × List α)) (x : α) :
    addTo ((k, g) :: t) k x = (k, g ++ [x]) :: t := by simp [addTo]

theorem addTo_cons_ne {k k' : K} (h : ¬ k' = k) (g : List α) (t : List (K × List α)) (x : α) :
    addTo ((k', g) :: t) k x = (k', g) :: addTo t k x := by simp [addTo, h]

theorem entry_unique {coll : List (K × List α)} {k : K} {g1 g2 : List α} (hn : (keysC coll).Nodup)
    (h1 : (k, g1) ∈ coll) (h2 : (k, g2) ∈ coll) : g1 = g2 := by
  induction coll with
  | nil => cases h1
  | cons c t ih =>
    simp only [keysC, List.map_cons, List.nodup_cons] at hn
    rcases List.mem_cons.mp h1 with a | a <;> rcases List.mem_cons.mp h2 with b | b
    · have := a.trans b.symm; exact (Prod.mk.inj this).2
    · exact absurd (List.mem_map.mpr ⟨(k, g2), b, rfl⟩) (by rw [← a] at hn; exact hn.1)
    · exact absurd (List.mem_map.mpr ⟨(k, g1), a, rfl⟩) (by rw [← b] at hn; exact hn.1)
    · exact ih (by simpa [keysC] using hn.2) a b

theorem mem_addTo_of_mem {coll : List (K × List α)} {k : K} {g : List α} (x : α)
    (hn : (keysC coll).Nodup) (hg : (k, g) ∈ coll) (e' : K × List α) :
    e' ∈ addTo coll k x ↔ (e' ∈ coll ∧ e'.1 ≠ k) ∨ e' = (k, g ++ [x]) := by
  induction coll with
  | nil => cases hg
  | cons e t ih =>
    obtain ⟨k', g'⟩ := e
    simp only [keysC, List.map_cons, List.nodup_cons] at hn
    by_cases hk : k' = k
    · subst hk
      have hgg : g = g' := by
        rcases List.mem_cons.mp hg with h | h
        · cases h; rfl
        · exact absurd (List.mem_map.mpr ⟨(k', g), h, rfl⟩) hn.1
      subst hgg
      rw [addTo_cons_eq]
      simp only [List.mem_cons]
      constructor
      · rintro (h | h)
        · exact Or.inr h
        · refine Or.inl ⟨Or.inr h, fun e => hn.1 ?_⟩
          exact List.mem_map.mpr ⟨e', h, e⟩
      · rintro (⟨h | h, hne⟩ | h)
        · subst h; exact absurd rfl hne
        · exact Or.inr h
        · exact Or.inl h
    · have hg' : (k, g) ∈ t := by
        rcases List.mem_cons.mp hg with h | h
        · cases h; exact absurd rfl hk
        · exact h
      rw [addTo_cons_ne hk]
      simp only [List.mem_cons, ih (by simpa [keysC] using hn.2) hg']
      constructor
      · rintro (h | ⟨h, hne⟩ | h)
        · subst h; exact Or.inl ⟨Or.inl rfl, hk⟩
        · exact Or.inl ⟨Or.inr h, hne⟩
        · exact Or.inr h
      · rintro (⟨h | h, hne⟩ | h)
        · exact Or.inl h
        · exact Or.inr (Or.inl ⟨h, hne⟩)
        · exact Or.inr (Or.inr h)

theorem keysC_addTo_of_mem {coll : List (K × List α)} {k : K} (x : α) (hk : k ∈ keysC coll) :
    keysC (addTo coll k x) = keysC coll := by
  induction coll with
  | nil => cases hk
  | cons e t ih =>
    obtain ⟨k', g'⟩ := e
    by_cases h : k' = k
    · simp [addTo, h, keysC]
    · have : k ∈ keysC t := by
        simp only [keysC, List.map_cons, List.mem_cons] at hk
        rcases hk with e | e
        · exact absurd e.symm h
        · exact e
      simp only [addTo, if_neg h, keysC, List.map_cons] at ih ⊢
      rw [ih this]

/-- the invariant of the dictionary while features are added -/
structure GInv (base : α → K) (coll : List (K × List α)) : Prop where
  nodupKeys : (keysC coll).Nodup
  nonempty : ∀ e ∈ coll, e.2 ≠ []
  homog : ∀ e ∈ coll, ∀ x ∈ e.2, ∀ y ∈ e.2, base x = base y
  sep : ∀ e1 ∈ coll, ∀ e2 ∈ coll, ∀ x ∈ e1.2, ∀ y ∈ e2.2, base x = base y → e1 = e2

theorem GInv.nil (base : α → K) : GInv base ([] : List (K × List α)) :=
  ⟨by simp [keysC], by simp, by simp, by simp⟩

/-- appending to an existing entry whose members have the new feature's base key -/
theorem GInv.append {base : α → K} {coll : List (K × List α)} {k : K} {g : List α} {x : α}
    (hi : GInv base coll) (hg : (k, g) ∈ coll) (hb : ∀ y ∈ g, base y = base x) :
    GInv base (addTo coll k x) := by
  have hk : k ∈ keysC coll := List.mem_map.mpr ⟨(k, g), hg, rfl⟩
  have hm := fun e' => mem_addTo_of_mem (x := x) hi.nodupKeys hg e'
  have hgne : g ≠ [] := hi.nonempty _ hg
  obtain ⟨y0, hy0⟩ := List.exists_mem_of_ne_nil g hgne
  -- members of the new entry have the base of x
  have hnew : ∀ y ∈ g ++ [x], base y = base x := by
    intro y hy
    rcases List.mem_append.mp hy with h | h
    · exact hb y h
    · simp at h; subst h; rfl
  refine ⟨by rw [keysC_addTo_of_mem x hk]; exact hi.nodupKeys, ?_, ?_, ?_⟩
  · intro e he
    rcases (hm e).mp he with ⟨h, _⟩ | h
    · exact hi.nonempty e h
    · subst h; simp
  · intro e he a ha b hb'
    rcases (hm e).mp he with ⟨h, _⟩ | h
    · exact hi.homog e h a ha b hb'
    · subst h; rw [hnew a ha, hnew b hb']
  · intro e1 he1 e2 he2 a ha b hb' hab
    rcases (hm e1).mp he1 with ⟨h1, n1⟩ | h1 <;> rcases (hm e2).mp he2 with ⟨h2, n2⟩ | h2
    · exact hi.sep e1 h1 e2 h2 a ha b hb' hab
    · subst h2
      exfalso
      -- a ∈ e1 (old, key ≠ k) has the base of x, hence of y0 ∈ g: e1 = (k, g)
      have : base a = base y0 := by rw [hab, hnew b hb', hb y0 hy0]
      have := hi.sep e1 h1 (k, g) hg a ha y0 hy0 this
      exact n1 (by rw [this])
    · subst h1
      exfalso
      have : base b = base y0 := by rw [← hab, hnew a ha, hb y0 hy0]
      have := hi.sep e2 h2 (k, g) hg b hb' y0 hy0 this
      exact n2 (by rw [this])
    · rw [h1, h2]

/-- a new entry for a feature whose base key no present member has -/
theorem GInv.fresh {base : α → K} {coll : List (K × List α)} {k : K} {x : α}
    (hi : GInv base coll) (hk : k ∉ keysC coll) (hb : ∀ e ∈ coll, ∀ y ∈ e.2, base y ≠ base x) :
    GInv base (addTo coll k x) := by
  rw [addTo_of_not_mem x hk]
  refine ⟨?_, ?_, ?_, ?_⟩
  · simp only [keysC, List.map_append, List.map_cons, List.map_nil]
    rw [List.nodup_append]
    refine ⟨hi.nodupKeys, by simp, ?_⟩
    intro a ha b hb' e
    simp at hb'; subst hb'; subst e; exact hk ha
  · intro e he
    rcases List.mem_append.mp he with h | h
    · exact hi.nonempty e h
    · simp at h; subst h; simp
  · intro e he a ha b hb'
    rcases List.mem_append.mp he with h | h
    · exact hi.homog e h a ha b hb'
    · simp at h; subst h; simp at ha hb'; rw [ha, hb']
  · intro e1 he1 e2 he2 a ha b hb' hab
    rcases List.mem_append.mp he1 with h1 | h1 <;> rcases List.mem_append.mp he2 with h2 | h2
    · exact hi.sep e1 h1 e2 h2 a ha b hb' hab
    · simp at h2; subst h2; simp at hb'; subst hb'
      exact absurd hab (hb e1 h1 a ha)
    · simp at h1; subst h1; simp at ha; subst ha
      exact absurd hab.symm (hb e2 h2 b hb')
    · simp at h1 h2; rw [h1, h2]

theorem mem_members_addTo {coll : List (K × List α)} {k : K} {x y : α} (hn : (keysC coll).Nodup) :
    y ∈ members (addTo coll k x) ↔ y = x ∨ y ∈ members coll := by
  by_cases hk : k ∈ keysC coll
  · obtain ⟨⟨k', g⟩, hg, hk'⟩ := List.mem_map.mp hk
    simp only at hk'; subst hk'
    simp only [mem_members, mem_addTo_of_mem x hn hg]
    constructor
    · rintro ⟨e, (⟨he, _⟩ | he), hy⟩
      · exact Or.inr ⟨e, he, hy⟩
      · subst he
        rcases List.mem_append.mp hy with h | h
        · exact Or.inr ⟨(k', g), hg, h⟩
        · simp at h; exact Or.inl h
    · rintro (h | ⟨e, he, hy⟩)
      · subst h; exact ⟨(k', g ++ [y]), Or.inr rfl, by simp⟩
      · by_cases hek : e.1 = k'
        · have : e = (k', g) := by
            obtain ⟨ek, eg⟩ := e
            simp only at hek; subst hek
            rw [entry_unique hn he hg]
          subst this
          exact ⟨(k', g ++ [x]), Or.inr rfl, List.mem_append.mpr (Or.inl hy)⟩
        · exact ⟨e, Or.inl ⟨he, hek⟩, hy⟩
  · rw [addTo_of_not_mem x hk]
    simp only [mem_members, List.mem_append, List.mem_singleton]
    constructor
    · rintro ⟨e, (he | he), hy⟩
      · exact Or.inr ⟨e, he, hy⟩
      · subst he; simp at hy; exact Or.inl hy
    · rintro (h | ⟨e, he, hy⟩)
      · exact ⟨(k, [x]), Or.inr rfl, by simp [h]⟩
      · exact ⟨e, Or.inl he, hy⟩

end OptGroup
