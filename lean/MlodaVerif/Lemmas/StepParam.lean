import MlodaVerif.Model.StepExec
/-! The statement-level model is natural in the values: mapping every value through `g : V → W` commutes with every micro-step,
provided the parameter functions of the steps commute with it.  With `W = Unit` this says that *which columns exist where*
never depends on the values - it can be computed by running the same machine on value-free tables. -/
namespace StepExec
open Exec (lookup)

variable {V W : Type}

def tmap (g : V → W) (t : Table V) : Table W := t.map (fun p => (p.1, g p.2))

def omap (g : V → W) (o : Obj V) : Obj W :=
  { fw := o.fw, cells := o.cells.map (tmap g), data := o.data, colNames := o.colNames, children := o.children,
    tracker := o.tracker, objectIds := o.objectIds }

def lmap (g : V → W) (l : Local V) : Local W :=
  { pc := l.pc, err := l.err, x := l.x, y := l.y, res := l.res.map (tmap g), fcols := l.fcols, result := l.result.map (tmap g) }

def smap (g : V → W) (σ : MSt V) : MSt W := { objs := σ.objs.map (omap g), locs := σ.locs.map (lmap g) }

/-- the step descriptions agree in everything static and their parameter functions commute with `g` -/
structure DRel (g : V → W) (d : Desc V) (d' : Desc W) : Prop where
  kind : d'.kind = d.kind
  obj : d'.obj = d.obj
  src : d'.src = d.src
  style : d'.style = d.style
  outs : d'.outs = d.outs
  equalFw : d'.equalFw = d.equalFw
  requested : d'.requested = d.requested
  reports : d'.reports = d.reports
  feats : d'.feats = d.feats
  api : d'.api = d.api.map (tmap g)
  fn : ∀ t, d'.fn (t.map (tmap g)) = (d.fn t).map (tmap g)
  valIn : ∀ t, d'.valIn (tmap g t) = d.valIn t
  valOut : ∀ t, d'.valOut (tmap g t) = d.valOut t
  cv : ∀ t, d'.cv (tmap g t) = (d.cv t).map (tmap g)
  merge : ∀ l r, d'.merge (tmap g l) (tmap g r) = (d.merge l r).map (tmap g)

theorem colsOf_tmap (g : V → W) (t : Table V) : colsOf (tmap g t) = colsOf t := by
  simp [colsOf, tmap, List.map_map, Function.comp_def]

theorem tmap_append (g : V → W) (a b : Table V) : tmap g (a ++ b) = tmap g a ++ tmap g b := by simp [tmap]

theorem lookup_tmap (g : V → W) (t : Table V) (c : Nat) : lookup (tmap g t) c = (lookup t c).map g := by
  simp [lookup, tmap, List.find?_map, Function.comp_def, Option.map_map]

theorem tableAt_omap (g : V → W) (o : Obj V) (v : Val) : tableAt (omap g o) v = (tableAt o v).map (tmap g) := by
  cases v <;> simp [tableAt, omap, List.getElem?_map]

theorem storeNew_omap (g : V → W) (o : Obj V) (t : Table V) : storeNew (omap g o) (tmap g t) = omap g (storeNew o t) := by
  simp [storeNew, omap]

theorem prog_drel {g : V → W} {d : Desc V} {d' : Desc W} (h : DRel g d d') (fw : Fw) : prog fw d' = prog fw d := by
  unfold prog
  rw [h.kind, h.style, h.requested, h.reports, h.api]
  cases d.api <;> rfl

theorem setCols_omap (g : V → W) (o : Obj V) : setCols (omap g o) = (setCols o).map (omap g) := by
  unfold setCols
  rw [tableAt_omap]
  have hd : (omap g o).data = o.data := rfl
  rw [hd]
  cases tableAt o o.data with
  | none => rfl
  | some t => simp [Except.map, omap, colsOf_tmap]

def pmap (g : V → W) (p : Local V × Obj V) : Local W × Obj W := (lmap g p.1, omap g p.2)

theorem collect_tmap (g : V → W) (t : Table V) (sel : List Nat) :
    sel.filterMap (fun c => (lookup (tmap g t) c).map (fun v => (c, v)))
      = tmap g (sel.filterMap (fun c => (lookup t c).map (fun v => (c, v)))) := by
  induction sel with
  | nil => rfl
  | cons c cs ih =>
    rw [List.filterMap_cons, List.filterMap_cons, lookup_tmap]
    cases lookup t c with
    | none => exact ih
    | some v =>
      simp only [Option.map_some]
      rw [ih]
      rfl

/-- every `Op` commutes with the value map -/
theorem exec_map {g : V → W} {d : Desc V} {d' : Desc W} (h : DRel g d d') (op : Op) (l : Local V) (o s : Obj V) :
    exec d' op (lmap g l) (omap g o) (omap g s) = (exec d op l o s).map (pmap g) := by
  cases op with
  | apiWrite =>
    simp only [exec, h.api]
    cases d.api with
    | none => rfl
    | some t => simp [Except.map, pmap, storeNew_omap]
  | valIn =>
    have hd : (omap g o).data = o.data := rfl
    simp only [exec, hd]
    cases hv : o.data with
    | none => rfl
    | key => simp [tableAt, Except.map, pmap]
    | ref k =>
      simp only [tableAt_omap]
      cases tableAt o (.ref k) with
      | none => rfl
      | some t =>
        simp only [Option.map_some, h.valIn]
        cases d.valIn t <;> rfl
  | read => rfl
  | call =>
    have hx : (lmap g l).x = l.x := rfl
    simp only [exec, hx, tableAt_omap, h.fn, h.style]
    cases d.fn (tableAt o l.x) with
    | none => rfl
    | some new =>
      simp only [Option.map_some]
      cases d.style with
      | fresh =>
        cases tableAt o l.x <;> simp [Except.map, pmap, lmap, tmap_append, tmap]
      | column => simp [Except.map, pmap, lmap]
      | inplace =>
        cases l.x with
        | none => rfl
        | key => rfl
        | ref k =>
          simp only [omap, List.getElem?_map]
          cases o.cells[k]? with
          | none => rfl
          | some t => simp [Except.map, pmap, lmap, omap, tmap_append, List.map_set]
  | trCheck =>
    have hd : (omap g o).data = o.data := rfl
    simp only [exec, h.outs, hd, tableAt_omap]
    cases d.outs with
    | nil => rfl
    | cons c cs =>
      cases cs with
      | cons _ _ => rfl
      | nil =>
        cases tableAt o o.data with
        | none => rfl
        | some t =>
          simp only [Option.map_some, colsOf_tmap]
          split <;> rfl
  | trMut =>
    have hd : (omap g o).data = o.data := rfl
    have hf : (omap g o).fw = o.fw := rfl
    have hr : (lmap g l).res = l.res.map (tmap g) := rfl
    simp only [exec, hf, hd, hr, h.outs, tableAt_omap]
    cases o.fw with
    | pandas =>
      cases o.data with
      | none => cases l.res <;> rfl
      | key => cases l.res <;> rfl
      | ref k =>
        cases l.res with
        | none => rfl
        | some new =>
          simp only [Option.map_some, omap, List.getElem?_map]
          cases o.cells[k]? with
          | none => rfl
          | some t => simp [Except.map, pmap, lmap, omap, tmap_append, List.map_set]
    | pyarrow =>
      cases d.outs with
      | nil => rfl
      | cons c cs =>
        cases cs with
        | cons _ _ => rfl
        | nil =>
          cases tableAt o o.data with
          | none => cases l.res <;> rfl
          | some t =>
            cases l.res with
            | none => rfl
            | some new => simp [Except.map, pmap, lmap, tmap_append]
    | pydict =>
      cases d.outs with
      | nil => rfl
      | cons c cs =>
        cases cs with
        | cons _ _ => rfl
        | nil =>
          cases tableAt o o.data with
          | none => cases l.res <;> rfl
          | some t =>
            cases l.res with
            | none => rfl
            | some new => simp [Except.map, pmap, lmap, tmap_append]
  | trRead => rfl
  | trFail => rfl
  | write =>
    have hf : (omap g o).fw = o.fw := rfl
    have hr : (lmap g l).res = l.res.map (tmap g) := rfl
    simp only [exec, h.style, hf, hr]
    cases d.style with
    | inplace => rfl
    | fresh =>
      cases o.fw <;> (cases l.res with
        | none => rfl
        | some t => simp [Except.map, pmap, lmap, storeNew_omap])
    | column =>
      cases o.fw with
      | pandas => rfl
      | pyarrow =>
        cases l.res with
        | none => rfl
        | some t => simp [Except.map, pmap, lmap, storeNew_omap]
      | pydict =>
        cases l.res with
        | none => rfl
        | some t => simp [Except.map, pmap, lmap, storeNew_omap]
  | setCols =>
    simp only [exec, setCols_omap]
    cases setCols o <;> rfl
  | valOut =>
    have hd : (omap g o).data = o.data := rfl
    simp only [exec, hd]
    cases hv : o.data with
    | none => rfl
    | key => simp [tableAt, Except.map, pmap]
    | ref k =>
      simp only [tableAt_omap]
      cases tableAt o (.ref k) with
      | none => rfl
      | some t =>
        simp only [Option.map_some, h.valOut]
        cases d.valOut t <;> rfl
  | collect =>
    have hd : (omap g o).data = o.data := rfl
    simp only [exec, hd, h.requested]
    cases hv : o.data with
    | none => rfl
    | key => simp [tableAt, Except.map]
    | ref k =>
      simp only [tableAt_omap]
      cases tableAt o (.ref k) with
      | none => rfl
      | some t =>
        simp only [Option.map_some, colsOf_tmap]
        split
        · rfl
        · simp [Except.map, pmap, lmap, collect_tmap]
  | report =>
    have h1 : (omap g o).children = o.children := rfl
    have h2 : (omap g o).tracker = o.tracker := rfl
    have h3 : (omap g o).objectIds = o.objectIds := rfl
    simp only [exec, h1, h2, h3, h.feats]
    cases (Store.report { children := o.children, tracker := o.tracker, objectIds := o.objectIds } d.feats).2 <;> rfl
  | tGet => rfl
  | tCols => rfl
  | tConv =>
    have hx : (lmap g l).x = l.x := rfl
    simp only [exec, h.equalFw, hx, tableAt_omap]
    cases d.equalFw with
    | true => simp [Except.map, pmap, lmap]
    | false =>
      simp only [Bool.false_eq_true, ↓reduceIte]
      cases tableAt s l.x with
      | none => rfl
      | some t =>
        simp only [Option.map_some, h.cv]
        cases d.cv t <;> rfl
  | tSet =>
    have hr : (lmap g l).res = l.res.map (tmap g) := rfl
    simp only [exec, hr]
    cases l.res with
    | none => rfl
    | some t => simp [Except.map, pmap, lmap, storeNew_omap]
  | jGet => rfl
  | jRead =>
    have hd : (omap g o).data = o.data := rfl
    have hx : (lmap g l).x = l.x := rfl
    simp only [exec, hd, hx, tableAt_omap]
    cases tableAt o o.data with
    | none => rfl
    | some tl =>
      cases tableAt s l.x with
      | none => rfl
      | some tr =>
        simp only [Option.map_some, h.merge]
        cases d.merge tl tr <;> rfl
  | jWrite =>
    have hr : (lmap g l).res = l.res.map (tmap g) := rfl
    simp only [exec, hr]
    cases l.res with
    | none => rfl
    | some t => simp [Except.map, pmap, lmap, storeNew_omap]

def emap (g : V → W) : Eff V → Eff W
  | .skip => .skip
  | .fail l => .fail (lmap g l)
  | .ok l o => .ok (lmap g l) (omap g o)

theorem effect_map {g : V → W} {d : Desc V} {d' : Desc W} (h : DRel g d d') (l : Local V) (o s : Obj V) :
    effect d' (lmap g l) (omap g o) (omap g s) = emap g (effect d l o s) := by
  unfold effect
  have he : (lmap g l).err = l.err := rfl
  have hp : (lmap g l).pc = l.pc := rfl
  have hf : (omap g o).fw = o.fw := rfl
  rw [he, hp, hf, prog_drel h]
  split
  · rfl
  · cases (prog o.fw d)[l.pc]? with
    | none => rfl
    | some op =>
      simp only [exec_map h]
      cases exec d op l o s with
      | error e => rfl
      | ok p => rfl

/-- the descriptions of the two plans are related position by position -/
def DsRel (g : V → W) (ds : List (Desc V)) (ds' : List (Desc W)) : Prop :=
  ds'.length = ds.length ∧ ∀ (i : Nat) (d : Desc V) (d' : Desc W), ds[i]? = some d → ds'[i]? = some d' → DRel g d d'

theorem mstep_map {g : V → W} {ds : List (Desc V)} {ds' : List (Desc W)} (h : DsRel g ds ds') (σ : MSt V) (i : Nat) :
    mstep ds' (smap g σ) i = smap g (mstep ds σ i) := by
  unfold mstep
  cases hd : ds[i]? with
  | none =>
    have : ds'[i]? = none := by
      rw [List.getElem?_eq_none_iff] at hd ⊢; rw [h.1]; exact hd
    rw [this]
  | some d =>
    have hlt : i < ds.length := by
      rcases Nat.lt_or_ge i ds.length with h' | h'
      · exact h'
      · rw [List.getElem?_eq_none h'] at hd; cases hd
    have hlt' : i < ds'.length := by rw [h.1]; exact hlt
    have hd' : ds'[i]? = some ds'[i] := List.getElem?_eq_getElem hlt'
    have hr := h.2 i d ds'[i] hd hd'
    rw [hd']
    simp only [smap, List.getElem?_map]
    cases hl : σ.locs[i]? with
    | none => rfl
    | some l =>
      simp only [Option.map_some, hr.obj, hr.src]
      cases ho : σ.objs[d.obj]? with
      | none => rfl
      | some o =>
        cases hs : σ.objs[d.src]? with
        | none => rfl
        | some s =>
          simp only [Option.map_some, effect_map hr]
          cases effect d l o s with
          | skip => rfl
          | fail l' => simp [emap, List.map_set]
          | ok l' o' => simp [emap, List.map_set]

theorem mrun_map {g : V → W} {ds : List (Desc V)} {ds' : List (Desc W)} (h : DsRel g ds ds') (σ : MSt V) (l : List Nat) :
    mrun ds' (smap g σ) l = smap g (mrun ds σ l) := by
  induction l generalizing σ with
  | nil => rfl
  | cons i is ih =>
    simp only [mrun, List.foldl_cons] at ih ⊢
    rw [mstep_map h, ih]

theorem dataOf_map (g : V → W) (σ : MSt V) (o : Nat) : dataOf (smap g σ) o = (dataOf σ o).map (tmap g) := by
  unfold dataOf
  simp only [smap, List.getElem?_map]
  cases σ.objs[o]? with
  | none => rfl
  | some ob =>
    show tableAt (omap g ob) (omap g ob).data = _
    rw [tableAt_omap]
    rfl

theorem lookup_none_map {W : Type} (g : V → W) (σ : MSt V) (o c : Nat) :
    lookup ((dataOf (smap g σ) o).getD []) c = none ↔ lookup ((dataOf σ o).getD []) c = none := by
  rw [dataOf_map]
  cases dataOf σ o with
  | none => exact ⟨fun _ => rfl, fun _ => rfl⟩
  | some t => simp [lookup_tmap]

end StepExec
