import MlodaVerif.Model.Extender
open Extender Gen

namespace Extender
variable {α : Type}

@[simp] theorem entries_append (a b : List Ev) : entries (a ++ b) = entries a ++ entries b := by
  induction a with
  | nil => rfl
  | cons x t ih => cases x <;> simp [entries, ih]

@[simp] theorem countCalls_append (a b : List Ev) : countCalls (a ++ b) = countCalls a + countCalls b := by
  induction a with
  | nil => simp [countCalls]
  | cons x t ih => cases x <;> simp [countCalls, ih] <;> omega

/-- shape of one wrapper level: either the inner chain ran once, or twice -/
theorem wrapper_cases (e : Ext) (inner : Nat → Res α) (n : Nat) :
    (∃ v, (inner n).out = some v ∧ e.beh = .pass ∧
        wrapper e inner n = ⟨.enter e :: (inner n).trace ++ [.exit e], (inner n).calls, some v⟩) ∨
    (e.beh = .raiseBefore ∧
        wrapper e inner n = ⟨.enter e :: .logged e :: (inner n).trace, (inner n).calls, (inner n).out⟩) ∨
    (e.beh ≠ .raiseBefore ∧ (e.beh = .pass → (inner n).out = none) ∧
        wrapper e inner n = ⟨.enter e :: (inner n).trace ++ .logged e :: (inner (inner n).calls).trace,
          (inner (inner n).calls).calls, (inner (inner n).calls).out⟩) := by
  unfold wrapper extCall
  cases hb : e.beh with
  | pass =>
    cases ho : (inner n).out with
    | some v => left; exact ⟨v, rfl, rfl, by simp [ho]⟩
    | none => right; right; simp [ho]
  | raiseBefore => right; left; simp
  | raiseAfter => right; right; simp

theorem runChain_cons (w : Wrapped α) (e : Ext) (es : List Ext) (n : Nat) :
    runChain w (e :: es) n = wrapper e (runChain w es) n := rfl

theorem calls_gt (w : Wrapped α) (es : List Ext) : ∀ n, n < (runChain w es n).calls := by
  induction es with
  | nil => intro n; simp [runChain, callWrapped]
  | cons e es ih =>
    intro n
    rw [runChain_cons]
    rcases wrapper_cases e (runChain w es) n with ⟨v, _, _, h⟩ | ⟨_, h⟩ | ⟨_, _, h⟩
    · rw [h]; exact ih n
    · rw [h]; exact ih n
    · rw [h]; have := ih n; have := ih (runChain w es n).calls; simp only; omega

theorem out_last (w : Wrapped α) (es : List Ext) : ∀ n, (runChain w es n).out = w ((runChain w es n).calls - 1) := by
  induction es with
  | nil => intro n; simp [runChain, callWrapped]
  | cons e es ih =>
    intro n
    rw [runChain_cons]
    rcases wrapper_cases e (runChain w es) n with ⟨v, hv, _, h⟩ | ⟨_, h⟩ | ⟨_, _, h⟩
    · rw [h]; simp only; rw [← hv]; exact ih n
    · rw [h]; exact ih n
    · rw [h]; exact ih _

theorem count_calls (w : Wrapped α) (es : List Ext) : ∀ n, n + countCalls (runChain w es n).trace = (runChain w es n).calls := by
  induction es with
  | nil => intro n; simp [runChain, callWrapped, countCalls]
  | cons e es ih =>
    intro n
    rw [runChain_cons]
    rcases wrapper_cases e (runChain w es) n with ⟨v, hv, _, h⟩ | ⟨_, h⟩ | ⟨_, _, h⟩
    · rw [h]; simp [countCalls]; exact ih n
    · rw [h]; simp [countCalls]; exact ih n
    · rw [h]; have := ih n; have := ih (runChain w es n).calls; simp [countCalls]; omega

theorem enter_mem (w : Wrapped α) (es : List Ext) : ∀ n, ∀ e ∈ es, Ev.enter e ∈ (runChain w es n).trace := by
  induction es with
  | nil => intro n e he; cases he
  | cons x es ih =>
    intro n e he
    rw [runChain_cons]
    rcases List.mem_cons.mp he with rfl | he
    · rcases wrapper_cases e (runChain w es) n with ⟨v, hv, _, h⟩ | ⟨_, h⟩ | ⟨_, _, h⟩ <;> rw [h] <;> simp
    · have := ih n e he
      rcases wrapper_cases x (runChain w es) n with ⟨v, hv, _, h⟩ | ⟨_, h⟩ | ⟨_, _, h⟩ <;> rw [h] <;> simp [this]

theorem logged_mem (w : Wrapped α) (es : List Ext) : ∀ n, ∀ e ∈ es, e.beh ≠ .pass → Ev.logged e ∈ (runChain w es n).trace := by
  induction es with
  | nil => intro n e he; cases he
  | cons x es ih =>
    intro n e he hb
    rw [runChain_cons]
    rcases List.mem_cons.mp he with rfl | he
    · rcases wrapper_cases e (runChain w es) n with ⟨v, hv, hp, h⟩ | ⟨_, h⟩ | ⟨_, _, h⟩
      · exact absurd hp hb
      · rw [h]; simp
      · rw [h]; simp
    · have := ih n e he hb
      rcases wrapper_cases x (runChain w es) n with ⟨v, hv, _, h⟩ | ⟨_, h⟩ | ⟨_, _, h⟩ <;> rw [h] <;> simp [this]

theorem entries_sub (w : Wrapped α) (es : List Ext) : ∀ n, ∀ b ∈ entries (runChain w es n).trace, b ∈ es := by
  induction es with
  | nil => intro n b hb; simp [runChain, callWrapped, entries] at hb
  | cons x es ih =>
    intro n b hb
    rw [runChain_cons] at hb
    rcases wrapper_cases x (runChain w es) n with ⟨v, hv, _, h⟩ | ⟨_, h⟩ | ⟨_, _, h⟩ <;> rw [h] at hb <;>
      simp [entries] at hb
    · rcases hb with rfl | hb
      · simp
      · exact List.mem_cons_of_mem _ (ih n b hb)
    · rcases hb with rfl | hb
      · simp
      · exact List.mem_cons_of_mem _ (ih n b hb)
    · rcases hb with rfl | hb | hb
      · simp
      · exact List.mem_cons_of_mem _ (ih n b hb)
      · exact List.mem_cons_of_mem _ (ih _ b hb)

end Extender
