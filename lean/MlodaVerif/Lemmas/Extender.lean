import MlodaVerif.Model.Extender
/-! Helper lemmas for C20 (core Lean only). -/
open Extender Gen

namespace Extender
variable {α : Type}

@[simp] theorem entries_append (a b : List Ev) : entries (a ++ b) = entries a ++ entries b := by
  induction a with
  | nil => rfl
  | cons x t ih => cases x <;> simp [entries, ih]

@[simp] theorem countCalls_append (a b : List Ev) : countCalls (a ++ b) = countCalls a + countCalls b := by
  induction a with
  | nil => simp [countCalls]
  | cons x t ih => cases x <;> simp [countCalls, ih] <;> omega

/-- shape of one wrapper level: either the inner chain ran once, or twice -/
theorem wrapper_cases (e : Ext) (inner : Nat → Res α) (n : Nat) :
    (∃ v, (inner n).out = some v ∧ e.beh = .pass ∧
        wrapper e inner n = ⟨.enter e :: (inner n).trace ++ [.exit e], (inner n).calls, some v⟩) ∨
    (e.beh = .raiseBefore ∧
        wrapper e inner n = ⟨.enter e :: .logged e :: (inner n).trace, (inner n).calls, (inner n).out⟩) ∨
    (e.beh ≠ .raiseBefore ∧ (e.beh = .pass → (inner n).out = none) ∧
        wrapper e inner n = ⟨.enter e :: (inner n).trace ++ .logged e :: (inner (inner n).calls).trace,
          (inner (inner n).calls).calls, (inner (inner n).calls).out⟩) := by
  unfold wrapper extCall
  cases hb : e.beh with
  | pass =>
    cases ho : (inner n).out with
    | some v => left; exact ⟨v, rfl, rfl, by simp [ho]⟩
    | none => right; right; simp [ho]
  | raiseBefore => right; left; simp
  | raiseAfter => right; right; simp

theorem runChain_cons (w : Wrapped α) (e : Ext) (es : List Ext) (n : Nat) :
    runChain w (e :: es) n = wrapper e (runChain w es) n := rfl

theorem calls_gt (w : Wrapped α) (es : List Ext) : ∀ n, n < (runChain w es n).calls := by
  induction es with
  | nil => intro n; simp [runChain, callWrapped]
  | cons e es ih =>
    intro n
    rw [runChain_cons]
    rcases wrapper_cases e (runChain w es) n with ⟨v, _, _, h⟩ | ⟨_, h⟩ | ⟨_, _, h⟩
    · rw [h]; exact ih n
    · rw [h]; exact ih n
    · rw [h]; have := ih n; have := ih (runChain w es n).calls; simp only; omega

theorem out_last (w : Wrapped α) (es : List Ext) : ∀ n, (runChain w es n).out = w ((runChain w es n).calls - 1) := by
  induction es with
  | nil => intro n; simp [runChain, callWrapped]
  | cons e es ih =>
    intro n
    rw [runChain_cons]
    rcases wrapper_cases e (runChain w es) n with ⟨v, hv, _, h⟩ | ⟨_, h⟩ | ⟨_, _, h⟩
    · rw [h]; simp only; rw [← hv]; exact ih n
    · rw [h]; exact ih n
    · rw [h]; exact ih _

theorem count_calls (w : Wrapped α) (es : List Ext) : ∀ n, n + countCalls (runChain w es n).trace = (runChain w es n).calls := by
  induction es with
  | nil => intro n; simp [runChain, callWrapped, countCalls]
  | cons e es ih =>
    intro n
    rw [runChain_cons]
    rcases wrapper_cases e (runChain w es) n with ⟨v, hv, _, h⟩ | ⟨_, h⟩ | ⟨_, _, h⟩
    · rw [h]; simp [countCalls]; exact ih n
    · rw [h]; simp [countCalls]; exact ih n
    · rw [h]; have := ih n; have := ih (runChain w es n).calls; simp [countCalls]; omega

theorem enter_mem (w : Wrapped α) (es : List Ext) : ∀ n, ∀ e ∈ es, Ev.enter e ∈ (runChain w es n).trace := by
  induction es with
  | nil => intro n e he; cases he
  | cons x es ih =>
    intro n e he
    rw [runChain_cons]
    rcases List.mem_cons.mp he with rfl | he
    · rcases wrapper_cases e (runChain w es) n with ⟨v, hv, _, h⟩ | ⟨_, h⟩ | ⟨_, _, h⟩ <;> rw [h] <;> simp
    · have := ih n e he
      rcases wrapper_cases x (runChain w es) n with ⟨v, hv, _, h⟩ | ⟨_, h⟩ | ⟨_, _, h⟩ <;> rw [h] <;> simp [this]

theorem logged_mem (w : Wrapped α) (es : List Ext) : ∀ n, ∀ e ∈ es, e.beh ≠ .pass → Ev.logged e ∈ (runChain w es n).trace := by
  induction es with
  | nil => intro n e he; cases he
  | cons x es ih =>
    intro n e he hb
    rw [runChain_cons]
    rcases List.mem_cons.mp he with rfl | he
    · rcases wrapper_cases e (runChain w es) n with ⟨v, hv, hp, h⟩ | ⟨_, h⟩ | ⟨_, _, h⟩
      · exact absurd hp hb
      · rw [h]; simp
      · rw [h]; simp
    · have := ih n e he hb
      rcases wrapper_cases x (runChain w es) n with ⟨v, hv, _, h⟩ | ⟨_, h⟩ | ⟨_, _, h⟩ <;> rw [h] <;> simp [this]

theorem entries_sub (w : Wrapped α) (es : List Ext) : ∀ n, ∀ b ∈ entries (runChain w es n).trace, b ∈ es := by
  induction es with
  | nil => intro n b hb; simp [runChain, callWrapped, entries] at hb
  | cons x es ih =>
    intro n b hb
    rw [runChain_cons] at hb
    rcases wrapper_cases x (runChain w es) n with ⟨v, hv, _, h⟩ | ⟨_, h⟩ | ⟨_, _, h⟩ <;> rw [h] at hb <;>
      simp [entries] at hb
    · rcases hb with rfl | hb
      · simp
      · exact List.mem_cons_of_mem _ (ih n b hb)
    · rcases hb with rfl | hb
      · simp
      · exact List.mem_cons_of_mem _ (ih n b hb)
    · rcases hb with rfl | hb | hb
      · simp
      · exact List.mem_cons_of_mem _ (ih n b hb)
      · exact List.mem_cons_of_mem _ (ih _ b hb)


theorem passthrough (w : Wrapped α) (es : List Ext) (hp : ∀ e ∈ es, e.beh = .pass) :
    ∀ n v, w n = some v →
      runChain w es n = ⟨es.map Ev.enter ++ [Ev.call] ++ es.reverse.map Ev.exit, n + 1, some v⟩ := by
  induction es with
  | nil => intro n v hv; simp [runChain, callWrapped, hv]
  | cons e es ih =>
    intro n v hv
    have hi := ih (fun x hx => hp x (List.mem_cons_of_mem _ hx)) n v hv
    have he := hp e (List.mem_cons_self)
    rw [runChain_cons]
    rcases wrapper_cases e (runChain w es) n with ⟨v', hv', _, h⟩ | ⟨hb, _⟩ | ⟨_, hnone, _⟩
    · rw [h, hi]; simp [hi] at hv'; subst hv'; simp
    · rw [he] at hb; cases hb
    · have := hnone he; rw [hi] at this; cases this

/-- no extender raises after calling through and the wrapped call succeeds: nothing is re-run -/
theorem no_rerun (w : Wrapped α) (es : List Ext) (hp : ∀ e ∈ es, e.beh ≠ .raiseAfter) :
    ∀ n v, w n = some v →
      entries (runChain w es n).trace = es ∧ (runChain w es n).calls = n + 1 ∧ (runChain w es n).out = some v := by
  induction es with
  | nil => intro n v hv; simp [runChain, callWrapped, hv, entries]
  | cons e es ih =>
    intro n v hv
    obtain ⟨h1, h2, h3⟩ := ih (fun x hx => hp x (List.mem_cons_of_mem _ hx)) n v hv
    have he := hp e (List.mem_cons_self)
    rw [runChain_cons]
    rcases wrapper_cases e (runChain w es) n with ⟨v', hv', _, h⟩ | ⟨hb, h⟩ | ⟨hnb, hnone, _⟩
    · rw [h]; simp [entries, h1, h2, h3] at hv' ⊢; exact hv'.symm
    · rw [h]; simp [entries, h1, h2, h3]
    · exfalso
      cases hb : e.beh with
      | pass => have := hnone hb; rw [h3] at this; cases this
      | raiseBefore => exact hnb hb
      | raiseAfter => exact he hb

theorem entries_cons_cases (w : Wrapped α) (e : Ext) (es : List Ext) (n : Nat) :
    entries (runChain w (e :: es) n).trace = e :: entries (runChain w es n).trace ∨
    ∃ m, entries (runChain w (e :: es) n).trace = e :: (entries (runChain w es n).trace ++ entries (runChain w es m).trace) := by
  rw [runChain_cons]
  rcases wrapper_cases e (runChain w es) n with ⟨v, hv, _, h⟩ | ⟨_, h⟩ | ⟨_, _, h⟩
  · left; rw [h]; simp [entries]
  · left; rw [h]; simp [entries]
  · right; exact ⟨(runChain w es n).calls, by rw [h]; simp [entries]⟩

/-- whenever `b` is entered, every chain member of strictly smaller priority has been entered before -/
theorem ascending (w : Wrapped α) (es : List Ext) (hs : es.Pairwise (fun a b => a.priority ≤ b.priority)) :
    ∀ n k b, (entries (runChain w es n).trace)[k]? = some b →
      ∀ a ∈ es, a.priority < b.priority → a ∈ (entries (runChain w es n).trace).take k := by
  induction es with
  | nil => intro n k b hk a ha; cases ha
  | cons e es ih =>
    intro n k b hk a ha hlt
    have hs' := (List.pairwise_cons.mp hs)
    have ih' := ih hs'.2
    have hsub := entries_sub w es
    -- generic step for a tail `r` made of one or two runs of the inner chain
    have key : ∀ (r : List Ext), (∀ x ∈ r, x ∈ es) →
        (∀ k b, r[k]? = some b → ∀ a ∈ es, a.priority < b.priority → a ∈ r.take k) →
        (e :: r)[k]? = some b → a ∈ (e :: r).take k := by
      intro r hr hasc hk
      cases k with
      | zero =>
        simp at hk; subst hk
        rcases List.mem_cons.mp ha with rfl | ha
        · omega
        · have := hs'.1 a ha; omega
      | succ k =>
        simp at hk
        rcases List.mem_cons.mp ha with rfl | ha
        · simp
        · simp; right; exact hasc k b hk a ha hlt
    rcases entries_cons_cases w e es n with h | ⟨m, h⟩
    · rw [h] at hk ⊢
      exact key _ (hsub n) (ih' n) hk
    · rw [h] at hk ⊢
      refine key _ ?_ ?_ hk
      · intro x hx; rcases List.mem_append.mp hx with hx | hx
        · exact hsub n x hx
        · exact hsub m x hx
      · intro k b hk a ha hlt
        by_cases hlen : k < (entries (runChain w es n).trace).length
        · rw [List.getElem?_append_left hlen] at hk
          have := ih' n k b hk a ha hlt
          rw [List.take_append_of_le_length (by omega)]; exact this
        · have hge : (entries (runChain w es n).trace).length ≤ k := by omega
          rw [List.getElem?_append_right hge] at hk
          have := ih' m _ b hk a ha hlt
          rw [List.take_append]
          simp
          -- a is in the first run already or in the prefix of the second
          right; exact this



theorem calls_mono_chain (w : Wrapped α) (es : List Ext) (n : Nat) : n + 1 ≤ (runChain w es n).calls := calls_gt w es n

/-- an extender that raises after calling through makes the wrapped function run at least twice -/
theorem raise_after_dup (w : Wrapped α) (es : List Ext) : ∀ n, ∀ e ∈ es, e.beh = .raiseAfter → n + 2 ≤ (runChain w es n).calls := by
  induction es with
  | nil => intro n e he; cases he
  | cons x es ih =>
    intro n e he hb
    rw [runChain_cons]
    rcases List.mem_cons.mp he with rfl | he
    · rcases wrapper_cases e (runChain w es) n with ⟨v, hv, hp, h⟩ | ⟨hrb, h⟩ | ⟨_, _, h⟩
      · rw [hb] at hp; cases hp
      · rw [hb] at hrb; cases hrb
      · rw [h]; have := calls_gt w es n; have := calls_gt w es (runChain w es n).calls; simp only; omega
    · have := ih n e he hb
      rcases wrapper_cases x (runChain w es) n with ⟨v, hv, _, h⟩ | ⟨_, h⟩ | ⟨_, _, h⟩
      · rw [h]; exact this
      · rw [h]; exact this
      · rw [h]; have := calls_gt w es (runChain w es n).calls; simp only; omega

theorem calls_le_pow (w : Wrapped α) (es : List Ext) : ∀ n, (runChain w es n).calls ≤ n + 2 ^ es.length := by
  induction es with
  | nil => intro n; simp [runChain, callWrapped]
  | cons x es ih =>
    intro n
    rw [runChain_cons]
    have h1 := ih n
    have h2 := ih (runChain w es n).calls
    have hp : 2 ^ (x :: es).length = 2 ^ es.length + 2 ^ es.length := by simp [Nat.pow_succ]; omega
    have hpos : 0 < 2 ^ es.length := Nat.pow_pos (by omega)
    rcases wrapper_cases x (runChain w es) n with ⟨v, hv, _, h⟩ | ⟨_, h⟩ | ⟨_, _, h⟩ <;> rw [h] <;> simp only <;> omega

/-- all extenders raise after calling through: the wrapped function is called exactly 2^len times -/
theorem all_raise_after_pow (w : Wrapped α) (es : List Ext) (hall : ∀ e ∈ es, e.beh = .raiseAfter) :
    ∀ n, (runChain w es n).calls = n + 2 ^ es.length := by
  induction es with
  | nil => intro n; simp [runChain, callWrapped]
  | cons x es ih =>
    intro n
    have ih' := ih (fun e he => hall e (List.mem_cons_of_mem _ he))
    have hx := hall x List.mem_cons_self
    rw [runChain_cons]
    have hp : 2 ^ (x :: es).length = 2 ^ es.length + 2 ^ es.length := by simp [Nat.pow_succ]; omega
    rcases wrapper_cases x (runChain w es) n with ⟨v, hv, hpass, h⟩ | ⟨hrb, h⟩ | ⟨_, _, h⟩
    · rw [hx] at hpass; cases hpass
    · rw [hx] at hrb; cases hrb
    · rw [h]; simp only; rw [ih', ih', hp]; omega

/-! ### sorting -/

abbrev LE (a b : Ext) : Prop := a.priority ≤ b.priority

theorem insertPrio_perm (a : Ext) (l : List Ext) : (insertPrio a l).Perm (a :: l) := by
  induction l with
  | nil => simp [insertPrio]
  | cons b l ih =>
    unfold insertPrio
    split
    · exact List.Perm.refl _
    · exact (List.Perm.cons b ih).trans (List.Perm.swap a b l)

theorem sortPrio_perm (l : List Ext) : (sortPrio l).Perm l := by
  induction l with
  | nil => simp [sortPrio]
  | cons a l ih => exact (insertPrio_perm a _).trans (List.Perm.cons a ih)

theorem insertPrio_sorted (a : Ext) (l : List Ext) (h : l.Pairwise LE) : (insertPrio a l).Pairwise LE := by
  induction l with
  | nil => simp [insertPrio]
  | cons b l ih =>
    unfold insertPrio
    have hb := List.pairwise_cons.mp h
    split
    · rename_i hab
      refine List.pairwise_cons.mpr ⟨?_, h⟩
      intro x hx
      rcases List.mem_cons.mp hx with rfl | hx
      · exact hab
      · have := hb.1 x hx; simp only [LE] at *; omega
    · rename_i hab
      refine List.pairwise_cons.mpr ⟨?_, ih hb.2⟩
      intro x hx
      have := (insertPrio_perm a l).mem_iff.mp hx
      rcases List.mem_cons.mp this with rfl | hx
      · simp only [LE]; omega
      · exact hb.1 x hx

theorem sortPrio_sorted (l : List Ext) : (sortPrio l).Pairwise LE := by
  induction l with
  | nil => simp [sortPrio]
  | cons a l ih => exact insertPrio_sorted a _ ih

theorem insertPrio_of_le_all (a : Ext) (l : List Ext) (h : ∀ x ∈ l, a.priority ≤ x.priority) : insertPrio a l = a :: l := by
  cases l with
  | nil => rfl
  | cons b l => simp [insertPrio, h b (List.mem_cons_self)]

theorem sortPrio_of_sorted (l : List Ext) (h : l.Pairwise LE) : sortPrio l = l := by
  induction l with
  | nil => rfl
  | cons a l ih =>
    have ha := List.pairwise_cons.mp h
    simp [sortPrio, ih ha.2, insertPrio_of_le_all a l ha.1]

theorem sortPrio_idem (l : List Ext) : sortPrio (sortPrio l) = sortPrio l := sortPrio_of_sorted _ (sortPrio_sorted l)

/-- stability: within one priority class the sort keeps the input order -/
theorem insertPrio_filter (p : Int) (a : Ext) (l : List Ext) :
    (insertPrio a l).filter (fun e => e.priority == p) = (a :: l).filter (fun e => e.priority == p) := by
  induction l with
  | nil => simp [insertPrio]
  | cons b l ih =>
    unfold insertPrio
    split
    · rfl
    · rename_i hab
      simp only [List.filter_cons] at ih ⊢
      rw [ih]
      by_cases h1 : a.priority = p <;> by_cases h2 : b.priority = p <;> simp [h1, h2]
      omega

theorem sortPrio_filter (p : Int) (l : List Ext) :
    (sortPrio l).filter (fun e => e.priority == p) = l.filter (fun e => e.priority == p) := by
  induction l with
  | nil => rfl
  | cons a l ih => simp only [sortPrio]; rw [insertPrio_filter]; simp only [List.filter_cons, ih]

/-- a priority-sorted list is determined by its priority classes -/
theorem sorted_unique : ∀ (l1 l2 : List Ext), l1.Pairwise LE → l2.Pairwise LE →
    (∀ p : Int, l1.filter (fun e => e.priority == p) = l2.filter (fun e => e.priority == p)) → l1 = l2 := by
  intro l1
  induction l1 with
  | nil =>
    intro l2 _ _ hf
    cases l2 with
    | nil => rfl
    | cons b l2 => have := hf b.priority; simp at this
  | cons a l1 ih =>
    intro l2 h1 h2 hf
    cases l2 with
    | nil => have := hf a.priority; simp at this
    | cons b l2 =>
      have ha := List.pairwise_cons.mp h1
      have hb := List.pairwise_cons.mp h2
      -- a occurs in b :: l2 and b occurs in a :: l1
      have ha_mem : a ∈ b :: l2 := by
        have : a ∈ (a :: l1).filter (fun e => e.priority == a.priority) := by simp
        rw [hf] at this; exact (List.mem_filter.mp this).1
      have hb_mem : b ∈ a :: l1 := by
        have : b ∈ (b :: l2).filter (fun e => e.priority == b.priority) := by simp
        rw [← hf] at this; exact (List.mem_filter.mp this).1
      have hab : a.priority = b.priority := by
        have h1 : b.priority ≤ a.priority := by
          rcases List.mem_cons.mp ha_mem with rfl | h
          · exact Int.le_refl _
          · exact hb.1 a h
        have h2 : a.priority ≤ b.priority := by
          rcases List.mem_cons.mp hb_mem with rfl | h
          · exact Int.le_refl _
          · exact ha.1 b h
        omega
      have hhead := hf a.priority
      simp [hab] at hhead
      obtain ⟨rfl, _⟩ := hhead
      congr 1
      apply ih l2 ha.2 hb.2
      intro p
      have := hf p
      by_cases hp : a.priority = p
      · simp [hp] at this; exact this
      · simp [hp] at this; exact this

/-- the sorted chain depends on the iteration order of the set only through the relative order of equal priorities -/
theorem sortPrio_congr (l1 l2 : List Ext)
    (hf : ∀ p : Int, l1.filter (fun e => e.priority == p) = l2.filter (fun e => e.priority == p)) :
    sortPrio l1 = sortPrio l2 := by
  apply sorted_unique _ _ (sortPrio_sorted l1) (sortPrio_sorted l2)
  intro p; rw [sortPrio_filter, sortPrio_filter, hf]

theorem filter_len_le_one (p : Int) (l : List Ext) (hd : l.Pairwise (fun a b => a.priority ≠ b.priority)) :
    (l.filter (fun e => e.priority == p)).length ≤ 1 := by
  induction l with
  | nil => simp
  | cons a l ih =>
    have ha := List.pairwise_cons.mp hd
    by_cases hp : a.priority = p
    · have : l.filter (fun e => e.priority == p) = [] := by
        apply List.filter_eq_nil_iff.mpr
        intro x hx; have := ha.1 x hx; simp; omega
      simp [hp, this]
    · simp [hp]; exact ih ha.2

theorem sortPrio_perm_distinct (l1 l2 : List Ext) (hp : l1.Perm l2)
    (hd : l1.Pairwise (fun a b => a.priority ≠ b.priority)) : sortPrio l1 = sortPrio l2 := by
  apply sortPrio_congr
  intro p
  have h1 := filter_len_le_one p l1 hd
  have hperm := hp.filter (fun e => e.priority == p)
  generalize l1.filter (fun e => e.priority == p) = f1 at *
  generalize l2.filter (fun e => e.priority == p) = f2 at *
  match f1, h1, hperm with
  | [], _, hperm => exact (List.Perm.nil_eq hperm)
  | [x], _, hperm => exact (List.singleton_perm.mp hperm)


/-! ### `get_function_extender` -/

theorem mem_matching (exts : List Ext) (h : Hook) (e : Ext) :
    e ∈ matching exts h ↔ e ∈ exts ∧ e.wraps.contains h = true := by
  simp [matching, List.mem_filter]

/-- the three outcomes of `get_function_extender` (the double sort collapses to one) -/
theorem getFE_cases (exts : List Ext) (h : Hook) :
    (matching exts h = [] ∧ getFunctionExtender exts h = .none) ∨
    (∃ e, matching exts h = [e] ∧ getFunctionExtender exts h = .bare e) ∨
    (2 ≤ (matching exts h).length ∧ getFunctionExtender exts h = .composite (sortPrio (matching exts h))) := by
  unfold getFunctionExtender
  match hm : matching exts h with
  | [] => left; exact ⟨rfl, rfl⟩
  | [e] => right; left; exact ⟨e, rfl, rfl⟩
  | a :: b :: t => right; right; exact ⟨by simp, by simp only; rw [sortPrio_idem]⟩

end Extender
