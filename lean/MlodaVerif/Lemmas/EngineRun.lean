import MlodaVerif.Model.EngineColl
/-! # The collection phase as a derivation (`Run`) - fuel-free view of `EngineColl.proc` used by all proofs -/
namespace EngineColl
open Graph (Dict dget dset sadd)

theorem inColl_iff {coll : List (Nat × Feat)} {g : Nat} {k : Key} :
    inColl coll g k = true ↔ ∃ e ∈ coll, e.1 = g ∧ e.2.key = k := by
  unfold inColl
  simp only [List.any_eq_true, Bool.and_eq_true, beq_iff_eq]

theorem inColl_false_iff {coll : List (Nat × Feat)} {g : Nat} {k : Key} :
    inColl coll g k = false ↔ ∀ e ∈ coll, ¬ (e.1 = g ∧ e.2.key = k) := by
  rw [← Bool.not_eq_true, inColl_iff]
  constructor
  · intro h e he hc; exact h ⟨e, he, hc⟩
  · intro h ⟨e, he, hc⟩; exact h e he hc

theorem inColl_append {a b : List (Nat × Feat)} {g : Nat} {k : Key} :
    inColl (a ++ b) g k = (inColl a g k || inColl b g k) := by
  unfold inColl; rw [List.any_append]

/-- the collection phase of a list of features under one child uuid, as a derivation tree -/
inductive Run (w : World) : St → Option Nat → List Feat → St → Prop
  | nil (st : St) (cu : Option Nat) : Run w st cu [] st
  | leaf {st st1 st3 st4 st5 : St} {cu : Option Nat} {f f3 : Feat} {g : Nat} {added : Bool} {rest : List Feat}
      (hp : prepare w st.links f = .ok (g, f3))
      (ha : addFeature w st g f3 cu false = .ok (st1, added))
      (hl : added = false ∨ w.inputs g f3.key = none ∨ w.inputs g f3.key = some [])
      (hf : addFilters w st1 g f3 cu = .ok st3)
      (hi : addIndexes w st3 g f3 cu = .ok st4)
      (hr : Run w st4 cu rest st5) : Run w st cu (f :: rest) st5
  | node {st st1 st2 st3 st4 st5 : St} {cu : Option Nat} {f f3 : Feat} {g : Nat} {t : Feat} {ts fs rest : List Feat}
      (hp : prepare w st.links f = .ok (g, f3))
      (ha : addFeature w st g f3 cu false = .ok (st1, true))
      (hin : w.inputs g f3.key = some (t :: ts))
      (hm : mkInputs f3.key (t :: ts) st1.next = .ok fs)
      (hc : Run w { st1 with flp := dset st1.flp f3.uuid (fs.map (·.uuid)), next := st1.next + (t :: ts).length } (some f3.uuid) fs st2)
      (hf : addFilters w st2 g f3 cu = .ok st3)
      (hi : addIndexes w st3 g f3 cu = .ok st4)
      (hr : Run w st4 cu rest st5) : Run w st cu (f :: rest) st5

theorem foldlM_cons_ok {α β ε : Type} (f : β → α → Except ε β) (a : α) (l : List α) (b b' : β) :
    (a :: l).foldlM f b = .ok b' ↔ ∃ b1, f b a = .ok b1 ∧ l.foldlM f b1 = .ok b' := by
  simp only [List.foldlM_cons, bind, Except.bind]
  cases h : f b a with
  | error e => simp
  | ok b1 => simp

theorem foldlM_nil_ok {α β ε : Type} (f : β → α → Except ε β) (b b' : β) :
    ([] : List α).foldlM f b = .ok b' ↔ b = b' := by
  simp [List.foldlM_nil, pure, Except.pure]

/-- `proc` on one feature followed by a derivation for the rest -/
theorem proc_run_cons (w : World) : ∀ (fuel : Nat) (st : St) (cu : Option Nat) (f : Feat) (st' : St),
    proc w fuel st cu f = .ok st' → ∀ (rest : List Feat) (st'' : St), Run w st' cu rest st'' → Run w st cu (f :: rest) st'' := by
  intro fuel
  induction fuel with
  | zero => intro st cu f st' h; simp [proc] at h
  | succ fuel ih =>
    intro st cu f st' h rest st'' hrest
    -- lists of inputs processed with `fuel`
    have hlist : ∀ (fs : List Feat) (c : Option Nat) (s s' : St),
        fs.foldlM (fun s x => proc w fuel s c x) s = .ok s' → Run w s c fs s' := by
      intro fs
      induction fs with
      | nil => intro c s s' hh; rw [foldlM_nil_ok] at hh; subst hh; exact Run.nil _ _
      | cons x xs ihx =>
        intro c s s' hh
        rw [foldlM_cons_ok] at hh
        obtain ⟨s1, h1, h2⟩ := hh
        exact ih s c x s1 h1 xs s' (ihx c s1 s' h2)
    unfold proc procStep at h
    cases hp : prepare w st.links f with
    | error e => rw [hp] at h; simp at h
    | ok gf =>
      obtain ⟨g, f3⟩ := gf
      rw [hp] at h
      simp only at h
      cases ha : addFeature w st g f3 cu false with
      | error e => rw [ha] at h; simp at h
      | ok r =>
        obtain ⟨st1, added⟩ := r
        rw [ha] at h
        simp only at h
        cases added with
        | false =>
          simp only [Bool.false_eq_true, if_false] at h
          cases hf : addFilters w st1 g f3 cu with
          | error e => rw [hf] at h; simp at h
          | ok st3 =>
            rw [hf] at h
            simp only at h
            exact Run.leaf hp ha (Or.inl rfl) hf h hrest
        | true =>
          simp only [if_true] at h
          cases hin : w.inputs g f3.key with
          | none =>
            rw [hin] at h
            simp only at h
            cases hf : addFilters w st1 g f3 cu with
            | error e => rw [hf] at h; simp at h
            | ok st3 =>
              rw [hf] at h
              simp only at h
              exact Run.leaf hp ha (Or.inr (Or.inl hin)) hf h hrest
          | some ts =>
            cases ts with
            | nil =>
              rw [hin] at h
              simp only at h
              cases hf : addFilters w st1 g f3 cu with
              | error e => rw [hf] at h; simp at h
              | ok st3 =>
                rw [hf] at h
                simp only at h
                exact Run.leaf hp ha (Or.inr (Or.inr hin)) hf h hrest
            | cons t ts =>
              rw [hin] at h
              simp only at h
              cases hm : mkInputs f3.key (t :: ts) st1.next with
              | error e => rw [hm] at h; simp at h
              | ok fs =>
                rw [hm] at h
                simp only at h
                cases hc : fs.foldlM (fun s x => proc w fuel s (some f3.uuid) x)
                    { st1 with flp := dset st1.flp f3.uuid (fs.map (·.uuid)), next := st1.next + (t :: ts).length } with
                | error e => rw [hc] at h; simp at h
                | ok st2 =>
                  rw [hc] at h
                  simp only at h
                  cases hf : addFilters w st2 g f3 cu with
                  | error e => rw [hf] at h; simp at h
                  | ok st3 =>
                    rw [hf] at h
                    simp only at h
                    exact Run.node hp ha hin hm (hlist fs _ _ _ hc) hf h hrest

theorem procAll_run (w : World) (fuel : Nat) : ∀ (fs : List Feat) (st st' : St),
    procAll w fuel st fs = .ok st' → Run w st none fs st' := by
  intro fs
  induction fs with
  | nil => intro st st' h; unfold procAll at h; rw [foldlM_nil_ok] at h; subst h; exact Run.nil _ _
  | cons x xs ih =>
    intro st st' h
    unfold procAll at h
    rw [foldlM_cons_ok] at h
    obtain ⟨s1, h1, h2⟩ := h
    exact proc_run_cons w fuel st none x s1 h1 xs st' (ih s1 st' h2)

end EngineColl
