import MlodaVerif.Model.OptGroup
/-! `_split_features_by_dependency_levels`: the levels cover the group exactly once, and (for an acyclic dependency
relation) every feature's intra-group dependencies lie in strictly earlier levels. -/

namespace OptGroup

/-- every level's members have all their intra-group dependencies among what was placed before the level, and are
themselves new -/
def WellLayered (intra : Nat → List Nat) : List Nat → List (List Nat) → Prop
  | _, [] => True
  | placed, L :: rest =>
    (∀ u ∈ L, ∀ d ∈ intra u, d ∈ placed) ∧ (∀ u ∈ L, u ∉ placed) ∧ WellLayered intra (placed ++ L) rest

def readyOf (intra : Nat → List Nat) (remaining placed : List Nat) : List Nat :=
  remaining.filter (fun u => (intra u).all (fun d => placed.contains d))

theorem levelLoop_succ (intra : Nat → List Nat) (fuel : Nat) (remaining placed : List Nat) (h : remaining ≠ []) :
    levelLoop intra (fuel + 1) remaining placed =
      (if (readyOf intra remaining placed).isEmpty then remaining else readyOf intra remaining placed) ::
        levelLoop intra fuel
          (remaining.filter (fun u => !((if (readyOf intra remaining placed).isEmpty then remaining
            else readyOf intra remaining placed).contains u)))
          (placed ++ (if (readyOf intra remaining placed).isEmpty then remaining else readyOf intra remaining placed)) := by
  have : remaining.isEmpty = false := by cases remaining <;> simp_all
  simp only [levelLoop, this, readyOf]
  rfl

theorem levelLoop_nil (intra : Nat → List Nat) (fuel : Nat) (placed : List Nat) :
    levelLoop intra fuel [] placed = [] := by
  cases fuel <;> simp [levelLoop]

theorem exists_min_rank (rank : Nat → Nat) : ∀ (l : List Nat), l ≠ [] → ∃ u ∈ l, ∀ v ∈ l, rank u ≤ rank v := by
  intro l
  induction l with
  | nil => intro h; exact absurd rfl h
  | cons a t ih =>
    intro _
    by_cases ht : t = []
    · subst ht; exact ⟨a, by simp, by simp⟩
    · obtain ⟨u, hu, hmin⟩ := ih ht
      by_cases hle : rank a ≤ rank u
      · refine ⟨a, by simp, ?_⟩
        intro v hv
        rcases List.mem_cons.mp hv with rfl | hv
        · exact Nat.le_refl _
        · exact Nat.le_trans hle (hmin v hv)
      · refine ⟨u, List.mem_cons_of_mem _ hu, ?_⟩
        intro v hv
        rcases List.mem_cons.mp hv with rfl | hv
        · omega
        · exact hmin v hv

/-- acyclic case: the loop never needs its cycle fallback and produces a well layered list of levels -/
theorem levelLoop_wellLayered (intra : Nat → List Nat) (ids : List Nat) (rank : Nat → Nat)
    (hin : ∀ u, ∀ d ∈ intra u, d ∈ ids) (hacyc : ∀ u ∈ ids, ∀ d ∈ intra u, rank d < rank u) :
    ∀ (fuel : Nat) (remaining placed : List Nat),
      (∀ x ∈ ids, x ∈ placed ∨ x ∈ remaining) → (∀ x ∈ remaining, x ∈ ids) → (∀ x ∈ placed, x ∉ remaining) →
      WellLayered intra placed (levelLoop intra fuel remaining placed) := by
  intro fuel
  induction fuel with
  | zero => intro remaining placed _ _ _; simp [levelLoop, WellLayered]
  | succ fuel ih =>
    intro remaining placed hcov hsub hdis
    by_cases hrem : remaining = []
    · subst hrem; rw [levelLoop_nil]; trivial
    · rw [levelLoop_succ intra fuel remaining placed hrem]
      -- some remaining feature of minimal rank is ready
      obtain ⟨u, hu, hmin⟩ := exists_min_rank rank remaining hrem
      have hready : u ∈ readyOf intra remaining placed := by
        simp only [readyOf, List.mem_filter, List.all_eq_true, List.contains_iff_mem]
        refine ⟨hu, ?_⟩
        intro d hd
        have hlt := hacyc u (hsub u hu) d hd
        rcases hcov d (hin u d hd) with h | h
        · exact h
        · have := hmin d h; omega
      have hne : (readyOf intra remaining placed).isEmpty = false := by
        cases hr : readyOf intra remaining placed with
        | nil => rw [hr] at hready; cases hready
        | cons _ _ => rfl
      simp only [hne, Bool.false_eq_true, if_false]
      refine ⟨?_, ?_, ih _ _ ?_ ?_ ?_⟩
      · intro v hv d hd
        simp only [readyOf, List.mem_filter, List.all_eq_true, List.contains_iff_mem] at hv
        exact hv.2 d hd
      · intro v hv hp
        exact hdis v hp (List.mem_filter.mp hv).1
      · intro x hx
        rcases hcov x hx with h | h
        · exact Or.inl (List.mem_append.mpr (Or.inl h))
        · by_cases hr : x ∈ readyOf intra remaining placed
          · exact Or.inl (List.mem_append.mpr (Or.inr hr))
          · refine Or.inr (List.mem_filter.mpr ⟨h, ?_⟩)
            simp only [Bool.not_eq_true', ← Bool.not_eq_true, List.contains_iff_mem]
            exact hr
      · intro x hx
        exact hsub x (List.mem_filter.mp hx).1

      · intro x hx hx'
        have hxr := (List.mem_filter.mp hx').1
        have hxn : x ∉ readyOf intra remaining placed := by
          have := (List.mem_filter.mp hx').2
          simpa [List.contains_iff_mem] using this
        rcases List.mem_append.mp hx with h | h
        · exact hdis x h hxr
        · exact hxn h

/-- in a well layered list no member of a level depends on a member of the same level -/
theorem wellLayered_independent (intra : Nat → List Nat) :
    ∀ (levels : List (List Nat)) (placed : List Nat), WellLayered intra placed levels →
      ∀ L ∈ levels, ∀ u ∈ L, ∀ v ∈ L, v ∉ intra u := by
  intro levels
  induction levels with
  | nil => intro _ _ L hL; cases hL
  | cons L0 rest ih =>
    intro placed hw L hL u hu v hv hdep
    obtain ⟨h0, h1, hrest⟩ := hw
    rcases List.mem_cons.mp hL with rfl | hL'
    · exact h1 v hv (h0 u hu v hdep)
    · exact ih (placed ++ L0) hrest L hL' u hu v hv hdep

/-- the levels cover what remained exactly once (cyclic or not), given enough rounds -/
theorem levelLoop_cover (intra : Nat → List Nat) :
    ∀ (fuel : Nat) (remaining placed : List Nat), remaining.length ≤ fuel →
      (levelLoop intra fuel remaining placed).flatten.Perm remaining := by
  intro fuel
  induction fuel with
  | zero =>
    intro remaining placed h
    have : remaining = [] := List.eq_nil_of_length_eq_zero (by omega)
    subst this; simp [levelLoop]
  | succ fuel ih =>
    intro remaining placed hlen
    by_cases hrem : remaining = []
    · subst hrem; rw [levelLoop_nil]; simp
    · rw [levelLoop_succ intra fuel remaining placed hrem]
      simp only [List.flatten_cons]
      by_cases he : (readyOf intra remaining placed).isEmpty = true
      · -- cycle fallback: everything that remained forms the level
        simp only [he, if_true]
        have : remaining.filter (fun u => !(remaining.contains u)) = [] := by
          apply List.filter_eq_nil_iff.mpr
          intro a ha; simp [List.contains_iff_mem, ha]
        rw [this, levelLoop_nil]; simp
      · have he' : (readyOf intra remaining placed).isEmpty = false := by simpa using he
        simp only [he', Bool.false_eq_true, if_false]
        -- remaining splits into the ready part and the rest
        have hsplit : remaining.filter (fun u => !((readyOf intra remaining placed).contains u)) =
            remaining.filter (fun u => !((intra u).all (fun d => placed.contains d))) := by
          apply List.filter_congr
          intro a ha
          have : (readyOf intra remaining placed).contains a = (intra a).all (fun d => placed.contains d) := by
            apply Bool.eq_iff_iff.mpr
            rw [List.contains_iff_mem]
            unfold readyOf
            rw [List.mem_filter]
            exact ⟨fun h => h.2, fun h => ⟨ha, h⟩⟩
          rw [this]
        have hperm := List.filter_append_perm (fun u => (intra u).all (fun d => placed.contains d)) remaining
        have hlen2 : (remaining.filter (fun u => !((readyOf intra remaining placed).contains u))).length ≤ fuel := by
          have h1 := hperm.length_eq
          rw [List.length_append] at h1
          have h2 : 1 ≤ (readyOf intra remaining placed).length := by
            cases hr : readyOf intra remaining placed with
            | nil => rw [hr] at he'; simp at he'
            | cons _ _ => simp
          rw [hsplit]
          unfold readyOf at h2
          omega
        refine (List.Perm.append_left _ (ih _ _ hlen2)).trans ?_
        rw [hsplit]
        exact hperm

end OptGroup
