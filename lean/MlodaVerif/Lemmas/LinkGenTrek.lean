import MlodaVerif.Lemmas.LinkGenTrekAux
/-! # Bridge `Gen/LinkOrderGen.lean` ↔ `Model/LinkOrder.lean`, group A: the heap-aliasing core

`LinkTrekker.update / get_position / insert_at_position / invert_link / create_data_ordered`, `validate_data_consistency`,
`access_link_by_child_uuid`, `trekker_right_left_adjuster` of the machine translation against `LinkOrder.update / getPosition /
insertAt / invertLink / createDataOrdered / accessLinks / adjuster` through `absT` under the representation invariant `WF`
(`Lemmas/LinkGenBase.lean`), each with the preservation of `WF`. -/
namespace LinkGen.Trek
open LinkOrder PyRt Gen.LinkOrderGen

/-! ### `update` -/
section update
variable (L : Links)

theorem nodup_alloc {h : SHeap} (hnd : ∀ r, (SHeap.get h r).Nodup) (x : PSet) (hx : x.Nodup) :
    ∀ r, (SHeap.get (h ++ [x]) r).Nodup := by
  intro r
  rcases Nat.lt_trichotomy r h.length with hlt | heq | hgt
  · rw [get_append_lt h [x] r hlt]; exact hnd r
  · rw [heq, get_append_len]; exact hx
  · rw [get_ge]; exact List.nodup_nil
    simp; omega

theorem alloc_add (h : SHeap) (u : Nat) : SHeap.add (h ++ [[]]) h.length u = h ++ [[u]] := by
  unfold SHeap.add
  rw [get_append_len]
  simp [PSet.add]

/-- `self.data[key].add(value)` on the `defaultdict(set)` -/
def updatePy (s : Trk.TrekkerSelf) (key : PKey) (u : Nat) (h : SHeap) : SHeap × Trk.TrekkerSelf :=
  let x := KDict.read s.data key h
  (SHeap.add x.2.2 x.1 u, { s with data := x.2.1 })

theorem update_eq (s : Trk.TrekkerSelf) (key : PKey) (u : Nat) (h : SHeap) :
    Trk.update s key u h = .ok (updatePy s key u h) := rfl

theorem updatePy_some {s : Trk.TrekkerSelf} {key : PKey} {u : Nat} {h : SHeap} {r : Nat} (hg : KDict.get? s.data key = some r) :
    updatePy s key u h = (h.set r (sadd (SHeap.get h r) u), s) := by
  simp only [updatePy, KDict.read, hg, SHeap.add, add_eq]

theorem updatePy_none {s : Trk.TrekkerSelf} {key : PKey} {u : Nat} {h : SHeap} (hg : KDict.get? s.data key = none) :
    updatePy s key u h = (h ++ [[u]], { s with data := s.data ++ [(key, h.length)] }) := by
  simp only [updatePy, KDict.read, hg, alloc_add]

/-- a new key of `data` with a freshly allocated set -/
theorem absT_data_new {s : Trk.TrekkerSelf} {h : SHeap} (hwf : WF L s h) {key : PKey} (hk : CanonK L key) (hnew : key ∉ s.data.map (·.1))
    (x : PSet) :
    absT { s with data := s.data ++ [(key, h.length)] } (h ++ [x]) =
      { data := (absT s h).data ++ [(absK key, x)],
        dataOrdered := dmodify (absT s h).dataOrdered (absK key) (fun v => (false, v.2)),
        order := (absT s h).order } := by
  unfold absT
  simp only
  congr 1
  · unfold absData
    rw [List.map_append]
    congr 1
    · apply List.map_congr_left
      intro e he; rw [get_append_lt _ _ _ (hwf.allocD e he)]
    · simp [get_append_len]
  · unfold absDord dmodify
    rw [List.map_map]
    apply List.map_congr_left
    intro e he
    simp only [Function.comp]
    rw [get_append_lt _ _ _ (hwf.allocDO e he)]
    by_cases hek : e.1 = key
    · rw [if_pos (by rw [hek])]
      have : ¬ (KDict.get? (s.data ++ [(key, h.length)]) e.1 = some e.2) := by
        rw [hek, get?_append_new _ hnew]
        intro x
        have := hwf.allocDO e he
        rw [← Option.some.inj x] at this
        exact Nat.lt_irrefl _ this
      simp [this]
    · have : absK e.1 ≠ absK key := fun x => hek (absK_inj L _ _ (hwf.canonDO e he) hk x)
      rw [if_neg this, get?_append_ne _ (fun x => hek x.symm)]
  · apply absOrder_congr
    intro e he; rw [get_append_lt _ _ _ (hwf.allocO e he)]

theorem wf_data_new {s : Trk.TrekkerSelf} {h : SHeap} (hwf : WF L s h) {key : PKey} (hk : CanonK L key) (hnew : key ∉ s.data.map (·.1))
    (x : PSet) (hx : x.Nodup) :
    WF L { s with data := s.data ++ [(key, h.length)] } (h ++ [x]) := by
  have hfreshD : h.length ∉ s.data.map (·.2) := by
    intro hm
    obtain ⟨e, he, hr⟩ := List.mem_map.mp hm
    have := hwf.allocD e he
    rw [hr] at this; exact Nat.lt_irrefl _ this
  have hfreshO : h.length ∉ s.order.map (·.2) := by
    intro hm
    obtain ⟨e, he, hr⟩ := List.mem_map.mp hm
    have := hwf.allocO e he
    rw [hr] at this; exact Nat.lt_irrefl _ this
  have hlen : (h ++ [x]).length = h.length + 1 := by simp
  obtain ⟨nda, ndb, dab⟩ := List.nodup_append.mp hwf.refsDO
  refine ⟨?_, hwf.canonDO, ?_, hwf.keysDO, hwf.keysO, ?_, hwf.refsDord, ?_, hwf.disjO, ?_, ?_, ?_, nodup_alloc hwf.setsNodup x hx⟩
  · intro e he
    rcases List.mem_append.mp he with he | he
    · exact hwf.canonD e he
    · simp only [List.mem_singleton] at he; rw [he]; exact hk
  · show ((s.data ++ [(key, h.length)]).map (·.1)).Nodup
    rw [List.map_append, List.nodup_append]
    refine ⟨hwf.keysD, by simp, ?_⟩
    intro a ha b hb hab
    simp at hb
    exact hnew (by rw [← hb, ← hab]; exact ha)
  · show ((s.data ++ [(key, h.length)]).map (·.2) ++ s.order.map (·.2)).Nodup
    rw [List.map_append, List.append_assoc, List.nodup_append]
    refine ⟨nda, ?_, ?_⟩
    · simp only [List.map_cons, List.map_nil, List.singleton_append, List.nodup_cons]
      exact ⟨hfreshO, ndb⟩
    · intro a ha b hb
      simp only [List.map_cons, List.map_nil, List.singleton_append, List.mem_cons] at hb
      rcases hb with hb | hb
      · intro hab; exact hfreshD (by rw [← hb, ← hab]; exact ha)
      · exact dab a ha b hb
  · intro e he hm
    show KDict.get? (s.data ++ [(key, h.length)]) e.1 = some e.2
    have hm' : e.2 ∈ s.data.map (·.2) := by
      have hm2 : e.2 ∈ (s.data ++ [(key, h.length)]).map (·.2) := hm
      rw [List.map_append, List.mem_append] at hm2
      rcases hm2 with hm2 | hm2
      · exact hm2
      · simp at hm2
        have := hwf.allocDO e he
        omega
    have hg := hwf.share e he hm'
    rw [get?_append_of_mem _ (mem_keys (get?_some_mem hg))]
    exact hg
  · intro e he
    rw [hlen]
    rcases List.mem_append.mp he with he | he
    · exact Nat.lt_succ_of_lt (hwf.allocD e he)
    · simp only [List.mem_singleton] at he; rw [he]; exact Nat.lt_succ_self _
  · intro e he; rw [hlen]; exact Nat.lt_succ_of_lt (hwf.allocDO e he)
  · intro e he; rw [hlen]; exact Nat.lt_succ_of_lt (hwf.allocO e he)

theorem mem_dkeys_absData {s : Trk.TrekkerSelf} {h : SHeap} (hwf : WF L s h) {key : PKey} (hk : CanonK L key) :
    absK key ∈ dkeys (absT s h).data ↔ key ∈ s.data.map (·.1) :=
  mem_dkeys_mapK L (fun e => SHeap.get h e.2) hwf.canonD hk

theorem mem_dkeys_absDord {s : Trk.TrekkerSelf} {h : SHeap} (hwf : WF L s h) {key : PKey} (hk : CanonK L key) :
    absK key ∈ dkeys (absT s h).dataOrdered ↔ key ∈ s.data_ordered.map (·.1) :=
  mem_dkeys_mapK L (fun e => (decide (KDict.get? s.data e.1 = some e.2), SHeap.get h e.2)) hwf.canonDO hk

theorem updatePy_spec {s : Trk.TrekkerSelf} {h : SHeap} (hwf : WF L s h) {key : PKey} (hk : CanonK L key) (u : Nat) :
    absT (updatePy s key u h).2 (updatePy s key u h).1 = dataAdd (absT s h) (absK key) u
      ∧ WF L (updatePy s key u h).2 (updatePy s key u h).1 := by
  cases hg : KDict.get? s.data key with
  | some r =>
    rw [updatePy_some hg]
    have hm := get?_some_mem hg
    have hlt : r < h.length := hwf.allocD _ hm
    constructor
    · have hin : absK key ∈ dkeys (absT s h).data := (mem_dkeys_absData L hwf hk).mpr (mem_keys hm)
      rw [dataAdd, if_pos hin]
      exact absT_modify_data L hwf hg (get_set_eq h r _ hlt) (fun r' hr' => get_set_ne h r r' _ hr')
    · exact wf_heap L hwf (by simp) (nodup_set hwf.setsNodup r _ (nodup_sadd (hwf.setsNodup r)))
  | none =>
    rw [updatePy_none hg]
    have hnew := get?_none_iff.mp hg
    constructor
    · have hin : absK key ∉ dkeys (absT s h).data := fun x => hnew ((mem_dkeys_absData L hwf hk).mp x)
      rw [dataAdd, if_neg hin]
      exact absT_data_new L hwf hk hnew [u]
    · exact wf_data_new L hwf hk hnew [u] (by simp)

theorem _root_.LinkGen.update_bridge {s : Trk.TrekkerSelf} {h : SHeap} (hwf : WF L s h) {key : PKey} (hk : CanonK L key) (u : Nat) :
    mapV (Trk.update s key u h) (fun r => absT r.2 r.1) = .ok (LinkOrder.update (absT s h) (absK key) u) := by
  rw [update_eq, mapV_ok, LinkOrder.update, (updatePy_spec L hwf hk u).1]

theorem _root_.LinkGen.update_wf {s s' : Trk.TrekkerSelf} {h h' : SHeap} (hwf : WF L s h) {key : PKey} (hk : CanonK L key) (u : Nat)
    (he : Trk.update s key u h = .ok (h', s')) : WF L s' h' := by
  rw [update_eq] at he
  have := Except.ok.inj he
  have h2 := (updatePy_spec L hwf hk u).2
  rw [this] at h2
  exact h2

end update

/-! ### `get_position`, `insert_at_position` -/
section position
variable (L : Links)

theorem get_position_loop {data d : KDict PKey Nat} {h : SHeap} (hc : ∀ e ∈ d, CanonK L e.1) {key : PKey} (hk : CanonK L key) (n : Nat) :
    forIn (m := Except PyExc) ((List.range' n d.length).zip d) ((none : Option Nat), ())
        (fun x _ => if (x.2.fst == key) = true then Except.ok (ForInStep.done (some x.fst, ())) else Except.ok (ForInStep.yield (none, ())))
      = .ok ((getPosition (absDord data d h) (absK key)).map (· + n), ()) := by
  induction d generalizing n with
  | nil => rfl
  | cons e t ih =>
    have hce : CanonK L e.1 := hc e List.mem_cons_self
    simp only [List.length_cons, List.range'_succ, List.zip_cons_cons, List.forIn_cons, bind, Except.bind]
    by_cases hek : e.1 = key
    · have h1 : (e.1 == key) = true := by simp [hek]
      have h2 : absK e.1 = absK key := by rw [hek]
      simp only [h1, if_true, pure, Except.pure]
      simp [absDord, getPosition, h2]
    · have h1 : (e.1 == key) = false := by simp [hek]
      have h2 : absK e.1 ≠ absK key := fun x => hek (absK_inj L _ _ hce hk x)
      simp only [h1, Bool.false_eq_true, if_false]
      rw [ih (fun e' he' => hc e' (List.mem_cons_of_mem _ he')) (n + 1)]
      simp only [absDord, List.map_cons, getPosition, if_neg h2]
      cases getPosition (List.map (fun e => (absK e.1, (decide (KDict.get? data e.1 = some e.2), SHeap.get h e.2))) t) (absK key) with
      | none => rfl
      | some p => simp [Nat.add_comm, Nat.add_left_comm]

theorem _root_.LinkGen.get_position_bridge {s : Trk.TrekkerSelf} {h : SHeap} (hwf : WF L s h) {link : PLink} (hl : Canon L link) (l r : Nat) :
    Trk.get_position s link l r =
      match getPosition (absT s h).dataOrdered ⟨link.uuid, l, r⟩ with
      | some p => .ok p
      | none => .error (.valueError "Link not found in data ordered!") := by
  unfold Trk.get_position
  simp only [bind, Except.bind, pure, Except.pure, PyList.enumerate, List.range_eq_range']
  have hk : CanonK L (link, l, r) := hl
  rw [get_position_loop L (data := s.data) (h := h) hwf.canonDO hk 0]
  show _ = match getPosition (absDord s.data s.data_ordered h) (absK (link, l, r)) with
      | some p => Except.ok p
      | none => Except.error (PyExc.valueError "Link not found in data ordered!")
  cases getPosition (absDord s.data s.data_ordered h) (absK (link, l, r)) <;> rfl

theorem ofItems_eq {K V : Type} [DecidableEq K] (l : List (K × V)) (hn : (l.map (·.1)).Nodup) : KDict.ofItems l = l := by
  have gen : ∀ (l acc : List (K × V)), ((acc ++ l).map (·.1)).Nodup → l.foldl (fun d e => KDict.set d e.1 e.2) acc = acc ++ l := by
    intro l
    induction l with
    | nil => intro acc _; simp
    | cons e t ih =>
      intro acc hn
      have hnot : e.1 ∉ KDict.keys acc := by
        intro hm
        rw [List.map_append, List.nodup_append] at hn
        exact hn.2.2 e.1 hm e.1 (by simp) rfl
      simp only [List.foldl_cons]
      have : KDict.set acc e.1 e.2 = acc ++ [e] := by simp [KDict.set, hnot]
      rw [this, ih (acc ++ [e]) (by simpa using hn)]
      simp
  unfold KDict.ofItems
  rw [gen l [] (by simpa using hn)]; simp

theorem nodup_keys_insert {K V : Type} {d : KDict K V} {key : K} (v : V) (pos : Nat) (hn : (d.map (·.1)).Nodup) (hnew : key ∉ d.map (·.1)) :
    ((PyList.insert d pos (key, v)).map (·.1)).Nodup := by
  unfold PyList.insert
  have hsplit : d.map (·.1) = (d.take pos).map (·.1) ++ (d.drop pos).map (·.1) := by rw [← List.map_append, List.take_append_drop]
  rw [hsplit, List.nodup_append] at hn
  rw [hsplit, List.mem_append, not_or] at hnew
  simp only [List.map_append, List.map_cons, List.append_assoc, List.singleton_append]
  rw [List.nodup_append]
  refine ⟨hn.1, ?_, ?_⟩
  · rw [List.nodup_cons]; exact ⟨hnew.2, hn.2.1⟩
  · intro a ha b hb
    rcases List.mem_cons.mp hb with hb | hb
    · intro hab; exact hnew.1 (by rw [← hb, ← hab]; exact ha)
    · exact hn.2.2 a ha b hb

/-- `insert_at_position` for a key that `data_ordered` does not hold (the only use): `OrderedDict(items)` re-inserts the items
in order and nothing collapses -/
theorem _root_.LinkGen.insert_at_position_bridge {s : Trk.TrekkerSelf} {h : SHeap} (hwf : WF L s h) {key : PKey} (hnew : key ∉ s.data_ordered.map (·.1))
    (ref pos : Nat) :
    Trk.insert_at_position s key ref pos = .ok { s with data_ordered := PyList.insert s.data_ordered pos (key, ref) } := by
  unfold Trk.insert_at_position
  simp only [pure, Except.pure]
  rw [ofItems_eq _ (nodup_keys_insert ref pos hwf.keysDO hnew)]

/-- the abstraction of the new `data_ordered` is the model's `insertAt` -/
theorem absDord_insert (data dord : KDict PKey Nat) (h : SHeap) (key : PKey) (ref pos : Nat) :
    absDord data (PyList.insert dord pos (key, ref)) h =
      insertAt (absDord data dord h) pos (absK key, (decide (KDict.get? data key = some ref), SHeap.get h ref)) := by
  simp [absDord, PyList.insert, insertAt, List.map_take, List.map_drop]

end position

/-! ### exceptions of the model as the translation raises them -/
theorem toExc_len : toExc "ValueError: Data and data_ordered have different lengths" = .valueError "Data and data_ordered have different lengths" := by decide
theorem toExc_key : toExc "KeyError" = .keyError := by decide
theorem toExc_pos : toExc "ValueError: Link not found in data ordered!" = .valueError "Link not found in data ordered!" := by decide

/-! ### `access_link_by_child_uuid` -/

theorem access_foldl (h : SHeap) (child : Nat) (d : KDict PKey Nat) (acc : List PKey) :
    d.foldl (fun acc e => if SHeap.has h e.2 child = true then acc ++ [e.1] else acc) acc
      = acc ++ (d.filter (fun e => decide (child ∈ SHeap.get h e.2))).map (·.1) := by
  induction d generalizing acc with
  | nil => simp
  | cons e t ih =>
    simp only [List.foldl_cons, List.filter_cons]
    by_cases hc : child ∈ SHeap.get h e.2
    · have h1 : SHeap.has h e.2 child = true := by simp [SHeap.has, PSet.has, hc]
      rw [if_pos h1, if_pos (by simp [hc]), ih]; simp
    · have h1 : ¬ (SHeap.has h e.2 child = true) := by simp [SHeap.has, PSet.has, hc]
      rw [if_neg h1, if_neg (by simp [hc]), ih]

theorem _root_.LinkGen.access_bridge (child : Nat) (s : Trk.TrekkerSelf) (h : SHeap) :
    mapV (Rcf.access_link_by_child_uuid child s h) (·.map absK) = .ok (accessLinks (absT s h) child) := by
  unfold Rcf.access_link_by_child_uuid
  simp only [bind, Except.bind, pure, Except.pure]
  rw [PyRt.forIn_yield_spec s.data_ordered _ (fun e acc => if SHeap.has h e.2 child = true then acc ++ [e.1] else acc)
    (by intro a st; split <;> rfl)]
  simp only [mapV_ok]
  rw [access_foldl]
  simp [accessLinks, orderedView_absT, absView, List.filter_map, List.map_map, Function.comp_def]

/-! ### `validate_data_consistency` -/

theorem validate_eq (d d' : KDict PKey Nat) :
    validate_data_consistency d d' =
      if d.length ≠ d'.length then .error (.valueError "Data and data_ordered have different lengths") else .ok () := by
  unfold validate_data_consistency
  simp only [bind, Except.bind, pure, Except.pure]
  by_cases hl : d.length = d'.length
  · simp [hl]
  · simp [hl]; rfl

/-- `ResolveLinkValidator.validate_data_consistency` is the length test at the end of the model's `createDataOrdered` -/
theorem _root_.LinkGen.validate_data_consistency_bridge (data d d' : KDict PKey Nat) (h : SHeap) :
    validate_data_consistency d d' =
      liftM (if (absData d h).length ≠ (absDord data d' h).length then .error "ValueError: Data and data_ordered have different lengths" else .ok ()) := by
  rw [validate_eq]
  simp only [absData, absDord, List.length_map]
  split
  · rw [liftM_error, toExc_len]
  · rfl

/-! ### `create_data_ordered` -/
section cdo
variable (L : Links)

theorem mem_set {K V : Type} [DecidableEq K] {d : KDict K V} {k : K} {v : V} {e : K × V} (he : e ∈ KDict.set d k v) : e = (k, v) ∨ e ∈ d := by
  unfold KDict.set at he
  split at he
  · obtain ⟨e', he', hee⟩ := List.mem_map.mp he
    by_cases hk : e'.1 = k
    · rw [if_pos hk] at hee; left; rw [← hee, hk]
    · rw [if_neg hk] at hee; right; rw [← hee]; exact he'
  · rcases List.mem_append.mp he with he | he
    · exact Or.inr he
    · left; simpa using he

theorem nodup_of_nodup_map {α β : Type} (f : α → β) {l : List α} (hn : (l.map f).Nodup) : l.Nodup := by
  induction l with
  | nil => simp
  | cons a t ih =>
    simp only [List.map_cons, List.nodup_cons] at hn ⊢
    exact ⟨fun hm => hn.1 (List.mem_map.mpr ⟨a, hm, rfl⟩), ih hn.2⟩

/-- `d[k] = v` keeps the handles pairwise different when `v` is only held under `k` -/
theorem nodup_refs_set {d : KDict PKey Nat} {k : PKey} {v : Nat} (hkn : (d.map (·.1)).Nodup) (hrn : (d.map (·.2)).Nodup)
    (hv : ∀ e ∈ d, e.2 = v → e.1 = k) : ((KDict.set d k v).map (·.2)).Nodup := by
  unfold KDict.set
  split
  · rw [List.map_map]
    apply nodup_map_on _ (nodup_of_nodup_map _ hkn)
    intro a ha b hb hab
    simp only [Function.comp] at hab
    by_cases hak : a.1 = k <;> by_cases hbk : b.1 = k
    · have : a.2 = b.2 := mem_unique_val hkn (show (k, a.2) ∈ d by rw [← hak]; exact ha) (show (k, b.2) ∈ d by rw [← hbk]; exact hb)
      exact Prod.ext (by rw [hak, hbk]) this
    · rw [if_pos hak, if_neg hbk] at hab
      exact absurd (hv b hb hab.symm) hbk
    · rw [if_neg hak, if_pos hbk] at hab
      exact absurd (hv a ha hab) hak
    · rw [if_neg hak, if_neg hbk] at hab
      have : a.1 = b.1 := mem_unique_key hrn (show (a.1, a.2) ∈ d from ha) (show (b.1, a.2) ∈ d by rw [hab]; exact hb)
      exact Prod.ext this hab
  · rename_i hnk
    rw [List.map_append, List.nodup_append]
    refine ⟨hrn, by simp, ?_⟩
    intro a ha b hb hab
    simp at hb
    obtain ⟨e, he, hea⟩ := List.mem_map.mp ha
    exact hnk (by rw [← hv e he (by rw [hea, hab, hb])]; exact mem_keys he)

theorem nodup_keys_set {K V : Type} [DecidableEq K] {d : KDict K V} (k : K) (v : V) (hkn : (d.map (·.1)).Nodup) :
    ((KDict.set d k v).map (·.1)).Nodup := by
  have := dkeys_dset d k v
  rw [← set_eq] at this
  show (dkeys (KDict.set d k v)).Nodup
  rw [this]
  split
  · exact hkn
  · rename_i hnk
    show (d.map (·.1) ++ [k]).Nodup
    rw [List.nodup_append]
    refine ⟨hkn, by simp, ?_⟩
    intro a ha b hb hab
    simp at hb
    exact hnk (by rw [← hb, ← hab]; exact ha)

/-- `self.data_ordered[k] = v` with the set object `data` holds under `k` -/
theorem wf_dord_set {s : Trk.TrekkerSelf} {h : SHeap} (hwf : WF L s h) {k : PKey} {v : Nat} (hm : (k, v) ∈ s.data) :
    WF L { s with data_ordered := KDict.set s.data_ordered k v } h := by
  have hg : KDict.get? s.data k = some v := get?_of_mem hwf.keysD hm
  have hrnD : (s.data.map (·.2)).Nodup := (List.nodup_append.mp hwf.refsDO).1
  refine ⟨hwf.canonD, ?_, hwf.keysD, nodup_keys_set k v hwf.keysDO, hwf.keysO, hwf.refsDO, ?_, ?_, ?_, hwf.allocD, ?_, hwf.allocO, hwf.setsNodup⟩
  · intro e he
    rcases mem_set he with he | he
    · rw [he]; exact hwf.canonD _ hm
    · exact hwf.canonDO e he
  · apply nodup_refs_set hwf.keysDO hwf.refsDord
    intro e he hev
    have h1 := hwf.share e he (by rw [hev]; exact mem_refs hm)
    have : (e.1, v) ∈ s.data := by rw [← hev]; exact get?_some_mem h1
    exact mem_unique_key hrnD this hm
  · intro e he hr
    rcases mem_set he with he | he
    · rw [he]; exact hg
    · exact hwf.share e he hr
  · intro e he
    rcases mem_set he with he | he
    · rw [he]; exact not_mem_order_of_data L hwf (mem_refs hm)
    · exact hwf.disjO e he
  · intro e he
    rcases mem_set he with he | he
    · rw [he]; exact hwf.allocD _ hm
    · exact hwf.allocDO e he

theorem absDord_set {s : Trk.TrekkerSelf} {h : SHeap} (hwf : WF L s h) {k : PKey} {v : Nat} (hm : (k, v) ∈ s.data) :
    absDord s.data (KDict.set s.data_ordered k v) h = dset (absDord s.data s.data_ordered h) (absK k) (true, SHeap.get h v) := by
  have hg : KDict.get? s.data k = some v := get?_of_mem hwf.keysD hm
  have hck : CanonK L k := hwf.canonD _ hm
  have hiff := mem_dkeys_absDord L hwf hck
  unfold KDict.set dset
  by_cases hin : k ∈ s.data_ordered.map (·.1)
  · rw [if_pos (show k ∈ KDict.keys s.data_ordered from hin),
      if_pos (show absK k ∈ dkeys (absDord s.data s.data_ordered h) from hiff.mpr hin)]
    unfold absDord dmodify
    rw [List.map_map, List.map_map]
    apply List.map_congr_left
    intro e he
    simp only [Function.comp]
    by_cases hek : e.1 = k
    · simp [hek, hg]
    · have : absK e.1 ≠ absK k := fun x => hek (absK_inj L _ _ (hwf.canonDO e he) hck x)
      simp [hek, this]
  · rw [if_neg (show ¬ k ∈ KDict.keys s.data_ordered from hin),
      if_neg (show ¬ absK k ∈ dkeys (absDord s.data s.data_ordered h) from fun x => hin (hiff.mp x))]
    simp [absDord, hg]

/-- the state with another `data_ordered` -/
abbrev withDord (s : Trk.TrekkerSelf) (d : KDict PKey Nat) : Trk.TrekkerSelf := { s with data_ordered := d }

def fillInnerPy (oid : Nat) (l : KDict PKey Nat) (dord : KDict PKey Nat) : KDict PKey Nat :=
  l.foldl (fun dord e => if (e.1.1.uuid == oid) = true then KDict.set dord e.1 e.2 else dord) dord

def fillByOrderPy (data : KDict PKey Nat) (o : KDict Nat Nat) (dord : KDict PKey Nat) : KDict PKey Nat :=
  o.foldl (fun dord oe => fillInnerPy oe.1 data dord) dord

def fillRestPy (l : KDict PKey Nat) (dord : KDict PKey Nat) : KDict PKey Nat :=
  l.foldl (fun dord e => if (!KDict.has dord e.1) = true then KDict.set dord e.1 e.2 else dord) dord

theorem inner_loop (oid : Nat) (l : KDict PKey Nat) (st : Trk.TrekkerSelf) :
    forIn (m := Except PyExc) l st (fun x_1 __s =>
        if (x_1.fst.fst.uuid == oid) = true then
          Except.ok (ForInStep.yield { data := __s.data, data_ordered := KDict.set __s.data_ordered x_1.fst x_1.snd, order := __s.order })
        else Except.ok (ForInStep.yield __s))
      = .ok (withDord st (fillInnerPy oid l st.data_ordered)) := by
  induction l generalizing st with
  | nil => rfl
  | cons e t ih =>
    simp only [List.forIn_cons, bind, Except.bind, fillInnerPy, List.foldl_cons]
    by_cases hc : (e.1.1.uuid == oid) = true
    · rw [if_pos hc, if_pos hc]
      simp only []
      rw [ih]; rfl
    · rw [if_neg hc, if_neg hc]
      simp only []
      rw [ih]; rfl

theorem outer_foldl (o : KDict Nat Nat) (st : Trk.TrekkerSelf) :
    o.foldl (fun st x => withDord st (fillInnerPy x.1 st.data st.data_ordered)) st = withDord st (fillByOrderPy st.data o st.data_ordered) := by
  induction o generalizing st with
  | nil => rfl
  | cons oe t ih => simp only [List.foldl_cons, ih]; rfl

theorem rest_loop (l : KDict PKey Nat) (st : Trk.TrekkerSelf) :
    forIn (m := Except PyExc) l st (fun x __s =>
        if (!KDict.has __s.data_ordered x.fst) = true then
          Except.ok (ForInStep.yield { data := __s.data, data_ordered := KDict.set __s.data_ordered x.fst x.snd, order := __s.order })
        else Except.ok (ForInStep.yield __s))
      = .ok (withDord st (fillRestPy l st.data_ordered)) := by
  induction l generalizing st with
  | nil => rfl
  | cons e t ih =>
    simp only [List.forIn_cons, bind, Except.bind, fillRestPy, List.foldl_cons]
    by_cases hc : (!KDict.has st.data_ordered e.1) = true
    · rw [if_pos hc, if_pos hc]
      simp only []
      rw [ih]; rfl
    · rw [if_neg hc, if_neg hc]
      simp only []
      rw [ih]; rfl

/-- the result of the two loops of `create_data_ordered` -/
def cdoPy (s : Trk.TrekkerSelf) : KDict PKey Nat := fillRestPy s.data (fillByOrderPy s.data s.order s.data_ordered)

theorem create_data_ordered_eq (s : Trk.TrekkerSelf) :
    Trk.create_data_ordered s =
      if s.data.length ≠ (cdoPy s).length then .error (.valueError "Data and data_ordered have different lengths")
      else .ok (withDord s (cdoPy s)) := by
  unfold Trk.create_data_ordered
  simp only [bind, Except.bind, pure, Except.pure]
  rw [PyRt.forIn_yield_spec s.order _ (fun x st => withDord st (fillInnerPy x.1 st.data st.data_ordered))
    (by intro a st; rw [inner_loop])]
  simp only []
  rw [outer_foldl, rest_loop]
  simp only [validate_eq]
  unfold cdoPy
  generalize fillRestPy s.data (fillByOrderPy s.data s.order s.data_ordered) = d
  by_cases hl : s.data.length ≠ d.length
  · rw [if_pos hl, if_pos hl]
  · rw [if_neg hl, if_neg hl]

end cdo

section cdo2
variable (L : Links)

/-- entry of `data` ↦ entry of the model's `data` -/
abbrev absE (h : SHeap) (e : PKey × Nat) : Key × List Nat := (absK e.1, SHeap.get h e.2)

theorem fillInner_spec {s : Trk.TrekkerSelf} {h : SHeap} (oid : Nat) (l : KDict PKey Nat) (hl : ∀ e ∈ l, e ∈ s.data)
    (dord : KDict PKey Nat) (hwf : WF L (withDord s dord) h) :
    WF L (withDord s (fillInnerPy oid l dord)) h ∧
    absDord s.data (fillInnerPy oid l dord) h =
      (l.map (absE h)).foldl (fun dord e => if e.1.link = oid then dset dord e.1 (true, e.2) else dord) (absDord s.data dord h) := by
  induction l generalizing dord with
  | nil => exact ⟨hwf, rfl⟩
  | cons e t ih =>
    have hm : (e.1, e.2) ∈ (withDord s dord).data := hl e List.mem_cons_self
    have ht : ∀ e' ∈ t, e' ∈ s.data := fun e' he' => hl e' (List.mem_cons_of_mem _ he')
    simp only [fillInnerPy, List.foldl_cons, List.map_cons]
    by_cases hc : (e.1.1.uuid == oid) = true
    · have hc' : (absE h e).1.link = oid := by simpa [absK] using hc
      rw [if_pos hc, if_pos hc']
      have := ih ht (KDict.set dord e.1 e.2) (wf_dord_set L hwf hm)
      rw [absDord_set L hwf hm] at this
      exact this
    · have hc' : ¬ (absE h e).1.link = oid := by simpa [absK] using hc
      rw [if_neg hc, if_neg hc']
      exact ih ht dord hwf

theorem fillByOrder_spec {s : Trk.TrekkerSelf} {h : SHeap} (o : KDict Nat Nat) (dord : KDict PKey Nat) (hwf : WF L (withDord s dord) h) :
    WF L (withDord s (fillByOrderPy s.data o dord)) h ∧
    absDord s.data (fillByOrderPy s.data o dord) h = fillByOrder (absData s.data h) (absOrder o h) (absDord s.data dord h) := by
  induction o generalizing dord with
  | nil => exact ⟨hwf, rfl⟩
  | cons oe t ih =>
    obtain ⟨h1, h2⟩ := fillInner_spec L oe.1 s.data (fun e he => he) dord hwf
    have := ih (fillInnerPy oe.1 s.data dord) h1
    simp only [fillByOrderPy, List.foldl_cons, fillByOrder, absOrder, List.map_cons] at this ⊢
    rw [h2] at this
    exact this

theorem fillRest_spec {s : Trk.TrekkerSelf} {h : SHeap} (l : KDict PKey Nat) (hl : ∀ e ∈ l, e ∈ s.data)
    (dord : KDict PKey Nat) (hwf : WF L (withDord s dord) h) :
    WF L (withDord s (fillRestPy l dord)) h ∧
    absDord s.data (fillRestPy l dord) h = fillRest (l.map (absE h)) (absDord s.data dord h) := by
  induction l generalizing dord with
  | nil => exact ⟨hwf, rfl⟩
  | cons e t ih =>
    have hm : (e.1, e.2) ∈ (withDord s dord).data := hl e List.mem_cons_self
    have ht : ∀ e' ∈ t, e' ∈ s.data := fun e' he' => hl e' (List.mem_cons_of_mem _ he')
    have hiff := mem_dkeys_absDord L hwf (hwf.canonD _ hm)
    simp only [fillRestPy, fillRest, List.foldl_cons, List.map_cons]
    by_cases hc : e.1 ∈ dord.map (·.1)
    · have h1 : ¬ ((!KDict.has dord e.1) = true) := by simp [KDict.has, KDict.keys, hc]
      have h2 : (absE h e).1 ∈ dkeys (absDord s.data dord h) := hiff.mpr hc
      rw [if_neg h1, if_pos h2]
      exact ih ht dord hwf
    · have h1 : (!KDict.has dord e.1) = true := by simp [KDict.has, KDict.keys, hc]
      have h2 : ¬ (absE h e).1 ∈ dkeys (absDord s.data dord h) := fun x => hc (hiff.mp x)
      rw [if_pos h1, if_neg h2]
      have := ih ht (KDict.set dord e.1 e.2) (wf_dord_set L hwf hm)
      rw [absDord_set L hwf hm] at this
      exact this

theorem cdoPy_spec {s : Trk.TrekkerSelf} {h : SHeap} (hwf : WF L s h) :
    WF L (withDord s (cdoPy s)) h ∧
    absDord s.data (cdoPy s) h = fillRest (absT s h).data (fillByOrder (absT s h).data (absT s h).order (absT s h).dataOrdered) := by
  obtain ⟨h1, h2⟩ := fillByOrder_spec L s.order s.data_ordered (show WF L (withDord s s.data_ordered) h from hwf)
  obtain ⟨h3, h4⟩ := fillRest_spec L s.data (fun e he => he) _ h1
  refine ⟨h3, ?_⟩
  unfold cdoPy
  rw [h4, h2]
  rfl

theorem _root_.LinkGen.create_data_ordered_bridge {s : Trk.TrekkerSelf} {h : SHeap} (hwf : WF L s h) :
    mapV (Trk.create_data_ordered s) (fun s' => absT s' h) = liftM (createDataOrdered (absT s h)) := by
  rw [create_data_ordered_eq]
  unfold createDataOrdered
  simp only []
  rw [← (cdoPy_spec L hwf).2]
  have hlen : (absT s h).data.length = s.data.length := by simp [absT, absData]
  have hlen2 : (absDord s.data (cdoPy s) h).length = (cdoPy s).length := by simp [absDord]
  rw [hlen, hlen2]
  by_cases hl : s.data.length ≠ (cdoPy s).length
  · rw [if_pos hl, if_pos hl, mapV_error, liftM_error, toExc_len]
  · rw [if_neg hl, if_neg hl, mapV_ok, liftM_ok]
    rfl

/-- `create_data_ordered` does not touch the heap -/
theorem _root_.LinkGen.create_data_ordered_wf {s s' : Trk.TrekkerSelf} {h : SHeap} (hwf : WF L s h)
    (he : Trk.create_data_ordered s = .ok s') : WF L s' h := by
  rw [create_data_ordered_eq] at he
  split at he
  · cases he
  · rw [← Except.ok.inj he]
    exact (cdoPy_spec L hwf).1

/-- what `create_data_ordered` returns: `data` and `order` are the old ones -/
theorem create_data_ordered_frame {s s' : Trk.TrekkerSelf} (he : Trk.create_data_ordered s = .ok s') :
    s'.data = s.data ∧ s'.order = s.order := by
  rw [create_data_ordered_eq] at he
  split at he
  · cases he
  · rw [← Except.ok.inj he]; exact ⟨rfl, rfl⟩

end cdo2

/-! ### `invert_link` -/
section invert
variable (L : Links)

/-- the first statement of `invert_link`: a new `data_ordered` entry behind the old link, or `data_ordered[new].add(uuid)` -/
def invHead (s : Trk.TrekkerSelf) (link : PLink) (l r u : Nat) (h : SHeap) : Except PyExc (SHeap × Trk.TrekkerSelf) :=
  if (!KDict.has s.data_ordered (link, r, l)) = true then
    Trk.get_position s link l r >>= fun p =>
    Trk.insert_at_position s (link, r, l) (SHeap.alloc h [u]).1 (p + 1) >>= fun s' =>
    pure ((SHeap.alloc h [u]).2, s')
  else
    KDict.getItem s.data_ordered (link, r, l) >>= fun v => pure (SHeap.add h v u, s)

/-- the last statements of `invert_link`: `self.data[old].remove(uuid)`, then the deletion of an empty entry -/
def invTail (s : Trk.TrekkerSelf) (old : PKey) (u : Nat) (h : SHeap) : Except PyExc (SHeap × Trk.TrekkerSelf) :=
  SHeap.remove (KDict.read s.data old h).2.2 (KDict.read s.data old h).1 u >>= fun h1 =>
    if (SHeap.len (KDict.read (KDict.read s.data old h).2.1 old h1).2.2 (KDict.read (KDict.read s.data old h).2.1 old h1).1 == 0) = true then
      KDict.delItem (KDict.read (KDict.read s.data old h).2.1 old h1).2.1 old >>= fun d =>
      KDict.delItem s.data_ordered old >>= fun d' =>
      pure ((KDict.read (KDict.read s.data old h).2.1 old h1).2.2, { data := d, data_ordered := d', order := s.order })
    else pure ((KDict.read (KDict.read s.data old h).2.1 old h1).2.2,
              { data := (KDict.read (KDict.read s.data old h).2.1 old h1).2.1, data_ordered := s.data_ordered, order := s.order })

theorem invert_link_eq (s : Trk.TrekkerSelf) (link : PLink) (l r u : Nat) (h : SHeap) :
    Trk.invert_link s link l r u h =
      invHead s link l r u h >>= fun x =>
        invTail (updatePy x.2 (link, r, l) u x.1).2 (link, l, r) u (updatePy x.2 (link, r, l) u x.1).1 := by
  unfold Trk.invert_link invHead
  simp only [bind, Except.bind, pure, Except.pure]
  by_cases hc : (!KDict.has s.data_ordered (link, r, l)) = true
  · rw [if_pos hc, if_pos hc]
    cases Trk.get_position s link l r with
    | error e => rfl
    | ok p =>
      simp only []
      cases Trk.insert_at_position s (link, r, l) (SHeap.alloc h [u]).1 (p + 1) with
      | error e => rfl
      | ok s1 => simp only [invTail, updatePy, bind, Except.bind, pure, Except.pure]; rfl
  · rw [if_neg hc, if_neg hc]
    cases KDict.getItem s.data_ordered (link, r, l) with
    | error e => rfl
    | ok v => simp only [invTail, updatePy, bind, Except.bind, pure, Except.pure]; rfl

end invert

section invert2
variable (L : Links)

/-- the model's first step (`t1?` in `invertLink`) -/
def invHeadM (t : Trekker) (old : Key) (u : Nat) : Except String Trekker :=
  if ({ link := old.link, left := old.right, right := old.left } : Key) ∉ dkeys t.dataOrdered then
    match getPosition t.dataOrdered old with
    | none => .error "ValueError: Link not found in data ordered!"
    | some p => .ok { t with dataOrdered := insertAt t.dataOrdered (p + 1) ({ link := old.link, left := old.right, right := old.left }, (false, [u])) }
  else .ok (ordAdd t { link := old.link, left := old.right, right := old.left } u)

/-- the model's last steps (after `dataAdd t1 new u`) -/
def invTailM (t2 : Trekker) (old : Key) (u : Nat) : Except String Trekker :=
  match dget t2.data old with
  | none => .error "KeyError"
  | some s =>
    if u ∉ s then .error "KeyError" else
    if (srem s u).length = 0 then
      if old ∉ dkeys (dmodify t2.dataOrdered old (fun v => if v.1 then (v.1, srem v.2 u) else v)) then .error "KeyError"
      else .ok { t2 with data := ddel (dmodify t2.data old (srem · u)) old,
                         dataOrdered := ddel (dmodify t2.dataOrdered old (fun v => if v.1 then (v.1, srem v.2 u) else v)) old }
    else .ok { t2 with data := dmodify t2.data old (srem · u),
                       dataOrdered := dmodify t2.dataOrdered old (fun v => if v.1 then (v.1, srem v.2 u) else v) }

theorem invertLink_eq (t : Trekker) (old : Key) (u : Nat) :
    invertLink t old u =
      match invHeadM t old u with
      | .error e => .error e
      | .ok t1 => invTailM (dataAdd t1 { link := old.link, left := old.right, right := old.left } u) old u := by
  unfold invertLink invHeadM invTailM
  simp only []
  by_cases hc : ({ link := old.link, left := old.right, right := old.left } : Key) ∉ dkeys t.dataOrdered
  · rw [if_pos hc, if_pos hc]
    cases getPosition t.dataOrdered old with
    | none => rfl
    | some p =>
      simp only []
      cases dget (dataAdd { data := t.data, dataOrdered := insertAt t.dataOrdered (p + 1) ({ link := old.link, left := old.right, right := old.left }, false, [u]), order := t.order }
        { link := old.link, left := old.right, right := old.left } u).data old <;> rfl
  · rw [if_neg hc, if_neg hc]
    simp only []
    cases dget (dataAdd (ordAdd t { link := old.link, left := old.right, right := old.left } u) { link := old.link, left := old.right, right := old.left } u).data old <;> rfl

/-- a new key of `data_ordered` (at any position) with a freshly allocated set -/
theorem absT_dord_new {s : Trk.TrekkerSelf} {h : SHeap} (hwf : WF L s h) (key : PKey) (pos : Nat) (x : PSet) :
    absT { s with data_ordered := PyList.insert s.data_ordered pos (key, h.length) } (h ++ [x]) =
      { data := (absT s h).data,
        dataOrdered := insertAt (absT s h).dataOrdered pos (absK key, (false, x)),
        order := (absT s h).order } := by
  unfold absT
  simp only
  congr 1
  · apply absData_congr
    intro e he; rw [get_append_lt _ _ _ (hwf.allocD e he)]
  · rw [absDord_insert, get_append_len]
    have : ¬ (KDict.get? s.data key = some h.length) := by
      intro hg
      exact Nat.lt_irrefl _ (hwf.allocD _ (get?_some_mem hg))
    simp only [this, decide_false]
    congr 1
    apply absDord_congr
    intro e he; rw [get_append_lt _ _ _ (hwf.allocDO e he)]
  · apply absOrder_congr
    intro e he; rw [get_append_lt _ _ _ (hwf.allocO e he)]

theorem mem_insert {α : Type} {l : List α} {pos : Nat} {x e : α} : e ∈ PyList.insert l pos x ↔ e = x ∨ e ∈ l := by
  unfold PyList.insert
  simp only [List.mem_append, List.mem_singleton]
  constructor
  · rintro ((h | h) | h)
    · exact Or.inr (List.mem_of_mem_take h)
    · exact Or.inl h
    · exact Or.inr (List.mem_of_mem_drop h)
  · rintro (h | h)
    · exact Or.inl (Or.inr h)
    · rw [← List.take_append_drop pos l, List.mem_append] at h
      rcases h with h | h
      · exact Or.inl (Or.inl h)
      · exact Or.inr h

theorem nodup_insert {α : Type} {l : List α} (pos : Nat) {x : α} (hn : l.Nodup) (hx : x ∉ l) : (PyList.insert l pos x).Nodup := by
  unfold PyList.insert
  rw [← List.take_append_drop pos l] at hn hx
  rw [List.nodup_append] at hn
  rw [List.mem_append, not_or] at hx
  rw [List.append_assoc, List.nodup_append]
  refine ⟨hn.1, ?_, ?_⟩
  · simp only [List.singleton_append, List.nodup_cons]; exact ⟨hx.2, hn.2.1⟩
  · intro a ha b hb
    simp only [List.singleton_append, List.mem_cons] at hb
    rcases hb with hb | hb
    · intro hab; exact hx.1 (by rw [← hb, ← hab]; exact ha)
    · exact hn.2.2 a ha b hb

theorem map_insert {α β : Type} (f : α → β) (l : List α) (pos : Nat) (x : α) : (PyList.insert l pos x).map f = PyList.insert (l.map f) pos (f x) := by
  simp [PyList.insert, List.map_take, List.map_drop]

theorem wf_dord_new {s : Trk.TrekkerSelf} {h : SHeap} (hwf : WF L s h) {key : PKey} (hk : CanonK L key) (hnew : key ∉ s.data_ordered.map (·.1))
    (pos : Nat) (x : PSet) (hx : x.Nodup) :
    WF L { s with data_ordered := PyList.insert s.data_ordered pos (key, h.length) } (h ++ [x]) := by
  have hlen : (h ++ [x]).length = h.length + 1 := by simp
  have hfresh : h.length ∉ s.data_ordered.map (·.2) := by
    intro hm
    obtain ⟨e, he, hr⟩ := List.mem_map.mp hm
    have := hwf.allocDO e he
    rw [hr] at this; exact Nat.lt_irrefl _ this
  refine ⟨hwf.canonD, ?_, hwf.keysD, ?_, hwf.keysO, hwf.refsDO, ?_, ?_, ?_, ?_, ?_, ?_, nodup_alloc hwf.setsNodup x hx⟩
  · intro e he
    rcases mem_insert.mp he with he | he
    · rw [he]; exact hk
    · exact hwf.canonDO e he
  · show ((PyList.insert s.data_ordered pos (key, h.length)).map (·.1)).Nodup
    rw [map_insert]; exact nodup_insert pos hwf.keysDO hnew
  · show ((PyList.insert s.data_ordered pos (key, h.length)).map (·.2)).Nodup
    rw [map_insert]; exact nodup_insert pos hwf.refsDord hfresh
  · intro e he hr
    rcases mem_insert.mp he with he | he
    · exfalso
      rw [he] at hr
      obtain ⟨e', he', hr'⟩ := List.mem_map.mp hr
      have := hwf.allocD e' he'
      rw [hr'] at this; exact Nat.lt_irrefl _ this
    · exact hwf.share e he hr
  · intro e he
    rcases mem_insert.mp he with he | he
    · rw [he]
      intro hr
      obtain ⟨e', he', hr'⟩ := List.mem_map.mp hr
      have := hwf.allocO e' he'
      rw [hr'] at this; exact Nat.lt_irrefl _ this
    · exact hwf.disjO e he
  · intro e he; rw [hlen]; exact Nat.lt_succ_of_lt (hwf.allocD e he)
  · intro e he
    rw [hlen]
    rcases mem_insert.mp he with he | he
    · rw [he]; exact Nat.lt_succ_self _
    · exact Nat.lt_succ_of_lt (hwf.allocDO e he)
  · intro e he; rw [hlen]; exact Nat.lt_succ_of_lt (hwf.allocO e he)

theorem dget_absDord {s : Trk.TrekkerSelf} {h : SHeap} (hwf : WF L s h) {key : PKey} (hk : CanonK L key) :
    dget (absT s h).dataOrdered (absK key) =
      (KDict.get? s.data_ordered key).map (fun r => (decide (KDict.get? s.data key = some r), SHeap.get h r)) :=
  dget_mapK L (fun e => (decide (KDict.get? s.data e.1 = some e.2), SHeap.get h e.2)) hwf.canonDO hk

theorem dget_absData {s : Trk.TrekkerSelf} {h : SHeap} (hwf : WF L s h) {key : PKey} (hk : CanonK L key) :
    dget (absT s h).data (absK key) = (KDict.get? s.data key).map (fun r => SHeap.get h r) :=
  dget_mapK L (fun e => SHeap.get h e.2) hwf.canonD hk

theorem invHead_spec {s : Trk.TrekkerSelf} {h : SHeap} (hwf : WF L s h) {link : PLink} (hl : Canon L link) (l r u : Nat) :
    mapV (invHead s link l r u h) (fun x => absT x.2 x.1) = liftM (invHeadM (absT s h) ⟨link.uuid, l, r⟩ u)
      ∧ ∀ x, invHead s link l r u h = .ok x → WF L x.2 x.1 := by
  have hkn : CanonK L (link, r, l) := hl
  have hiff := mem_dkeys_absDord L hwf hkn
  have habs : absK (link, r, l) = ({ link := link.uuid, left := r, right := l } : Key) := rfl
  unfold invHead invHeadM
  simp only [bind, Except.bind, pure, Except.pure]
  by_cases hin : (link, r, l) ∈ s.data_ordered.map (·.1)
  · have h1 : ¬ ((!KDict.has s.data_ordered (link, r, l)) = true) := by simp [KDict.has, KDict.keys, hin]
    have h2 : ¬ (({ link := link.uuid, left := r, right := l } : Key) ∉ dkeys (absT s h).dataOrdered) := by
      rw [← habs]; exact fun x => x (hiff.mpr hin)
    rw [if_neg h1, if_neg h2]
    obtain ⟨v, hv⟩ := get?_isSome_iff.mpr hin
    have hm := get?_some_mem hv
    have hlt : v < h.length := hwf.allocDO _ hm
    simp only [KDict.getItem, hv]
    have key := absT_modify_dord L hwf (f := (sadd · u)) hm (get_set_eq h v _ hlt) (fun r' hr' => get_set_ne h v r' _ hr')
    constructor
    · rw [mapV_ok, liftM_ok]
      show Except.ok (absT s (h.set v (sadd (SHeap.get h v) u))) = _
      rw [key, ← habs, ordAdd, dget_absDord L hwf hkn, hv]
      simp only [Option.map_some]
      by_cases hf : KDict.get? s.data (link, r, l) = some v
      · simp only [hf, decide_true, if_true]
      · simp only [hf, decide_false, if_false]
    · intro x hx
      rw [← Except.ok.inj hx]
      exact wf_heap L hwf (by simp [SHeap.add]) (nodup_set hwf.setsNodup v _ (nodup_sadd (hwf.setsNodup v)))
  · have h1 : (!KDict.has s.data_ordered (link, r, l)) = true := by simp [KDict.has, KDict.keys, hin]
    have h2 : ({ link := link.uuid, left := r, right := l } : Key) ∉ dkeys (absT s h).dataOrdered := by
      rw [← habs]; exact fun x => hin (hiff.mp x)
    rw [if_pos h1, if_pos h2, get_position_bridge L hwf hl l r]
    cases getPosition (absT s h).dataOrdered ⟨link.uuid, l, r⟩ with
    | none =>
      refine ⟨?_, fun x hx => by cases hx⟩
      simp only [mapV_error, liftM_error, toExc_pos]
    | some p =>
      simp only [insert_at_position_bridge L hwf hin, SHeap.alloc]
      constructor
      · rw [mapV_ok, liftM_ok]
        simp only []
        rw [absT_dord_new L hwf, ← habs]
      · intro x hx
        rw [← Except.ok.inj hx]
        exact wf_dord_new L hwf hkn hin (p + 1) [u] (by simp)

end invert2

section invert3
variable (L : Links)

theorem absT_del {s : Trk.TrekkerSelf} {h : SHeap} (hwf : WF L s h) {old : PKey} (hk : CanonK L old) :
    absT { data := s.data.filter (fun e => e.1 ≠ old), data_ordered := s.data_ordered.filter (fun e => e.1 ≠ old), order := s.order } h =
      { data := ddel (absT s h).data (absK old), dataOrdered := ddel (absT s h).dataOrdered (absK old), order := (absT s h).order } := by
  unfold absT ddel
  simp only
  congr 1
  · unfold absData
    rw [List.filter_map]
    congr 1
    apply List.filter_congr
    intro e he
    simp only [Function.comp, ne_eq, decide_not]
    congr 1
    exact decide_eq_decide.mpr ((absK_eq_iff L _ _ (hwf.canonD e he) hk).symm)
  · unfold absDord
    rw [List.filter_map]
    have : (s.data_ordered.filter (fun e => e.1 ≠ old)) = s.data_ordered.filter ((fun e : Key × OVal => decide (e.1 ≠ absK old)) ∘
        (fun e : PKey × Nat => (absK e.1, (decide (KDict.get? s.data e.1 = some e.2), SHeap.get h e.2)))) := by
      apply List.filter_congr
      intro e he
      simp only [Function.comp, ne_eq, decide_not]
      congr 1
      exact decide_eq_decide.mpr ((absK_eq_iff L _ _ (hwf.canonDO e he) hk).symm)
    rw [← this]
    apply List.map_congr_left
    intro e he
    have hne : e.1 ≠ old := by simpa using (List.mem_filter.mp he).2
    rw [get?_filter_ne hne]

theorem wf_del {s : Trk.TrekkerSelf} {h : SHeap} (hwf : WF L s h) (old : PKey) :
    WF L { data := s.data.filter (fun e => e.1 ≠ old), data_ordered := s.data_ordered.filter (fun e => e.1 ≠ old), order := s.order } h := by
  have sub1 : (s.data.filter (fun e => e.1 ≠ old)).Sublist s.data := List.filter_sublist
  have sub2 : (s.data_ordered.filter (fun e => e.1 ≠ old)).Sublist s.data_ordered := List.filter_sublist
  refine ⟨fun e he => hwf.canonD e ((List.mem_filter.mp he).1), fun e he => hwf.canonDO e ((List.mem_filter.mp he).1),
    (sub1.map _).nodup hwf.keysD, (sub2.map _).nodup hwf.keysDO, hwf.keysO,
    ((sub1.map _).append (List.Sublist.refl _)).nodup hwf.refsDO, (sub2.map _).nodup hwf.refsDord, ?_,
    fun e he => hwf.disjO e ((List.mem_filter.mp he).1),
    fun e he => hwf.allocD e ((List.mem_filter.mp he).1), fun e he => hwf.allocDO e ((List.mem_filter.mp he).1), hwf.allocO, hwf.setsNodup⟩
  intro e he hr
  have he' := List.mem_filter.mp he
  have hne : e.1 ≠ old := by simpa using he'.2
  show KDict.get? (s.data.filter (fun e => e.1 ≠ old)) e.1 = some e.2
  rw [get?_filter_ne hne]
  exact hwf.share e he'.1 ((sub1.map _).subset hr)

theorem invTail_spec {s : Trk.TrekkerSelf} {h : SHeap} (hwf : WF L s h) {old : PKey} (hk : CanonK L old) (u : Nat) :
    mapV (invTail s old u h) (fun x => absT x.2 x.1) = liftM (invTailM (absT s h) (absK old) u)
      ∧ ∀ x, invTail s old u h = .ok x → WF L x.2 x.1 := by
  unfold invTail invTailM
  rw [dget_absData L hwf hk]
  cases hg : KDict.get? s.data old with
  | none =>
    have : SHeap.remove (h ++ [[]]) h.length u = .error .keyError := by
      simp [SHeap.remove, get_append_len]
    simp only [KDict.read, hg, this, bind, Except.bind, Option.map_none]
    exact ⟨by rw [mapV_error, liftM_error, toExc_key], fun x hx => by cases hx⟩
  | some r =>
    have hm := get?_some_mem hg
    have hlt : r < h.length := hwf.allocD _ hm
    simp only [KDict.read, hg, Option.map_some]
    by_cases hu : u ∈ SHeap.get h r
    · have hrem : SHeap.remove h r u = .ok (h.set r (srem (SHeap.get h r) u)) := by
        simp only [SHeap.remove, if_pos hu]; rfl
      have hnu : ¬ (u ∉ SHeap.get h r) := fun x => x hu
      rw [hrem, if_neg hnu]
      simp only [bind, Except.bind]
      -- the state after the removal
      have hget1 : SHeap.get (h.set r (srem (SHeap.get h r) u)) r = srem (SHeap.get h r) u := get_set_eq h r _ hlt
      have hwf1 : WF L s (h.set r (srem (SHeap.get h r) u)) :=
        wf_heap L hwf (by simp) (nodup_set hwf.setsNodup r _ ((hwf.setsNodup r).sublist List.filter_sublist))
      have habs1 := absT_modify_data L hwf (f := (srem · u)) hg hget1 (fun r' hr' => get_set_ne h r r' _ hr')
      have hd1 : dmodify (absT s h).data (absK old) (srem · u) = (absT s (h.set r (srem (SHeap.get h r) u))).data := by rw [habs1]
      have hd2 : dmodify (absT s h).dataOrdered (absK old) (fun v => if v.1 then (v.1, srem v.2 u) else v)
          = (absT s (h.set r (srem (SHeap.get h r) u))).dataOrdered := by rw [habs1]
      have hd3 : (absT s h).order = (absT s (h.set r (srem (SHeap.get h r) u))).order := by rw [habs1]
      rw [hd1, hd2, hd3]
      generalize h.set r (srem (SHeap.get h r) u) = h1 at hget1 hwf1 ⊢
      by_cases hz : (srem (SHeap.get h r) u).length = 0
      · have hz' : (SHeap.len h1 r == 0) = true := by simp [SHeap.len, hget1, hz]
        rw [if_pos hz', if_pos hz]
        have hdel : KDict.delItem s.data old = .ok (s.data.filter (fun e => e.1 ≠ old)) := by
          unfold KDict.delItem; exact if_pos (mem_keys hm)
        rw [hdel]
        simp only []
        by_cases hin : old ∈ s.data_ordered.map (·.1)
        · have hdel2 : KDict.delItem s.data_ordered old = .ok (s.data_ordered.filter (fun e => e.1 ≠ old)) := by
            unfold KDict.delItem; exact if_pos hin
          have hnin : ¬ (absK old ∉ dkeys (absT s h1).dataOrdered) := fun x => x ((mem_dkeys_absDord L hwf1 hk).mpr hin)
          rw [hdel2, if_neg hnin]
          simp only [pure, Except.pure]
          refine ⟨?_, fun x hx => ?_⟩
          · rw [mapV_ok, liftM_ok]
            simp only []
            rw [absT_del L hwf1 hk]
          · rw [← Except.ok.inj hx]; exact wf_del L hwf1 old
        · have hdel2 : KDict.delItem s.data_ordered old = .error .keyError := by
            unfold KDict.delItem; exact if_neg hin
          have hnin : absK old ∉ dkeys (absT s h1).dataOrdered := fun x => hin ((mem_dkeys_absDord L hwf1 hk).mp x)
          rw [hdel2, if_pos hnin]
          exact ⟨by rw [mapV_error, liftM_error, toExc_key], fun x hx => by cases hx⟩
      · have hz' : ¬ ((SHeap.len h1 r == 0) = true) := by simp [SHeap.len, hget1, hz]
        rw [if_neg hz', if_neg hz]
        simp only [pure, Except.pure]
        refine ⟨?_, fun x hx => ?_⟩
        · rw [mapV_ok, liftM_ok]
        · rw [← Except.ok.inj hx]; exact hwf1
    · have hrem : SHeap.remove h r u = .error .keyError := by
        simp only [SHeap.remove, if_neg hu]
      have hnu : u ∉ SHeap.get h r := hu
      rw [hrem, if_pos hnu]
      simp only [bind, Except.bind]
      exact ⟨by rw [mapV_error, liftM_error, toExc_key], fun x hx => by cases hx⟩

end invert3

section invert4
variable (L : Links)

theorem invert_link_spec {s : Trk.TrekkerSelf} {h : SHeap} (hwf : WF L s h) {link : PLink} (hl : Canon L link) (l r u : Nat) :
    mapV (Trk.invert_link s link l r u h) (fun x => absT x.2 x.1) = liftM (invertLink (absT s h) ⟨link.uuid, l, r⟩ u)
      ∧ ∀ x, Trk.invert_link s link l r u h = .ok x → WF L x.2 x.1 := by
  have hkn : CanonK L (link, r, l) := hl
  have hko : CanonK L (link, l, r) := hl
  rw [invert_link_eq, invertLink_eq]
  obtain ⟨hb, hw⟩ := invHead_spec L hwf hl l r u
  cases hH : invHead s link l r u h with
  | error e =>
    rw [hH] at hb
    cases hM : invHeadM (absT s h) ⟨link.uuid, l, r⟩ u with
    | error e' =>
      rw [hM] at hb
      simp only [mapV_error, liftM_error] at hb
      simp only [bind, Except.bind]
      exact ⟨by rw [mapV_error, liftM_error, hb], fun x hx => by cases hx⟩
    | ok t1 => rw [hM] at hb; simp only [mapV_error, liftM_ok] at hb; cases hb
  | ok x =>
    rw [hH] at hb
    have hwf1 : WF L x.2 x.1 := hw x hH
    cases hM : invHeadM (absT s h) ⟨link.uuid, l, r⟩ u with
    | error e' => rw [hM] at hb; simp only [mapV_ok, liftM_error] at hb; cases hb
    | ok t1 =>
      rw [hM] at hb
      simp only [mapV_ok, liftM_ok] at hb
      have ht1 : t1 = absT x.2 x.1 := (Except.ok.inj hb).symm
      obtain ⟨hu1, hu2⟩ := updatePy_spec L hwf1 hkn u
      obtain ⟨ht, hwt⟩ := invTail_spec L hu2 hko u
      simp only [bind, Except.bind]
      rw [ht1]
      have : dataAdd (absT x.2 x.1) { link := link.uuid, left := r, right := l } u
          = absT (updatePy x.2 (link, r, l) u x.1).2 (updatePy x.2 (link, r, l) u x.1).1 := hu1.symm
      rw [this]
      exact ⟨ht, hwt⟩

theorem _root_.LinkGen.invert_link_bridge {s : Trk.TrekkerSelf} {h : SHeap} (hwf : WF L s h) {link : PLink} (hl : Canon L link) (l r u : Nat) :
    mapV (Trk.invert_link s link l r u h) (fun x => absT x.2 x.1) = liftM (invertLink (absT s h) ⟨link.uuid, l, r⟩ u) :=
  (invert_link_spec L hwf hl l r u).1

theorem _root_.LinkGen.invert_link_wf {s s' : Trk.TrekkerSelf} {h h' : SHeap} (hwf : WF L s h) {link : PLink} (hl : Canon L link) (l r u : Nat)
    (he : Trk.invert_link s link l r u h = .ok (h', s')) : WF L s' h' :=
  (invert_link_spec L hwf hl l r u).2 (h', s') he

end invert4

/-! ### `trekker_right_left_adjuster` -/
section adjuster
variable (L : Links)

/-- a `for` loop whose body goes on or raises -/
def loopM {α σ : Type} (step : α → σ → Except PyExc σ) : List α → σ → Except PyExc σ
  | [], st => .ok st
  | a :: t, st =>
    match step a st with
    | .error e => .error e
    | .ok st' => loopM step t st'

theorem forIn_loopM {α σ : Type} (l : List α) (st : σ) (body : α → σ → Except PyExc (ForInStep σ)) (step : α → σ → Except PyExc σ)
    (hb : ∀ a st, body a st = match step a st with | .error e => .error e | .ok st' => .ok (.yield st')) :
    forIn l st body = loopM step l st := by
  induction l generalizing st with
  | nil => rfl
  | cons a t ih =>
    simp only [List.forIn_cons, bind, Except.bind, loopM, hb]
    cases step a st with
    | error e => rfl
    | ok st' => exact ih st'

/-- `for uuid in uuids: if uuid in feature_uuids: link_trekker.invert_link(link, left, right, uuid)` -/
def innerStep (key : PKey) (feat : PSet) (u : Nat) (st : Trk.TrekkerSelf × SHeap) : Except PyExc (Trk.TrekkerSelf × SHeap) :=
  if PSet.has feat u = true then
    match Trk.invert_link st.1 key.1 key.2.1 key.2.2 u st.2 with
    | .error e => .error e
    | .ok v => .ok (v.2, v.1)
  else .ok st

/-- `for trekker, uuids in deepcopy(data_ordered).items(): if trekker == key: …` -/
def midStep (key : PKey) (feat : PSet) (e : PKey × PSet) (st : Trk.TrekkerSelf × SHeap) : Except PyExc (Trk.TrekkerSelf × SHeap) :=
  if (e.1 == key) = true then loopM (innerStep key feat) e.2 st else .ok st

def outerStep (feat : PSet) (key : PKey) (st : Trk.TrekkerSelf × SHeap) : Except PyExc (Trk.TrekkerSelf × SHeap) :=
  loopM (midStep key feat) (KDict.snapshot st.1.data_ordered st.2) st

theorem adjuster_eq (self : Rcf.RcfSelf) (s : Trk.TrekkerSelf) (feat : PSet) (h : SHeap) :
    Rcf.trekker_right_left_adjuster self s feat h =
      if self.to_invert_trekker_collection.isEmpty = true then .ok (s, h, self)
      else match loopM (outerStep feat) self.to_invert_trekker_collection (s, h) with
        | .error e => .error e
        | .ok v => .ok (v.1, v.2, { to_invert_trekker_collection := [] }) := by
  unfold Rcf.trekker_right_left_adjuster
  simp only [bind, Except.bind, pure, Except.pure, Bool.not_not]
  split
  · rfl
  · rw [forIn_loopM _ _ _ (outerStep feat)]
    · cases loopM (outerStep feat) self.to_invert_trekker_collection (s, h) <;> rfl
    · intro key st
      unfold outerStep
      rw [forIn_loopM _ _ _ (midStep key feat)]
      · cases loopM (midStep key feat) (KDict.snapshot st.1.data_ordered st.2) st <;> rfl
      · intro e st
        unfold midStep
        split
        · rw [forIn_loopM _ _ _ (innerStep key feat)]
          · cases loopM (innerStep key feat) e.2 st <;> rfl
          · intro u st
            unfold innerStep
            split
            · cases Trk.invert_link st.1 key.1 key.2.1 key.2.2 u st.2 <;> rfl
            · rfl
        · rfl

/-- the innermost loop is the model's `invertAll` -/
theorem inner_spec {key : PKey} (hk : CanonK L key) (feat : PSet) (us : List Nat) {s : Trk.TrekkerSelf} {h : SHeap} (hwf : WF L s h) :
    mapV (loopM (innerStep key feat) us (s, h)) (fun st => absT st.1 st.2) = liftM (invertAll (absK key) feat us (absT s h))
      ∧ ∀ st, loopM (innerStep key feat) us (s, h) = .ok st → WF L st.1 st.2 := by
  induction us generalizing s h with
  | nil =>
    refine ⟨rfl, fun st hst => ?_⟩
    rw [← Except.ok.inj hst]; exact hwf
  | cons u t ih =>
    simp only [loopM, invertAll, innerStep]
    by_cases hf : u ∈ feat
    · have hf' : PSet.has feat u = true := by simp [PSet.has, hf]
      rw [if_pos hf', if_pos hf]
      obtain ⟨hb, hw⟩ := invert_link_spec L hwf (link := key.1) hk key.2.1 key.2.2 u
      have hkey : (⟨key.1.uuid, key.2.1, key.2.2⟩ : Key) = absK key := rfl
      rw [hkey] at hb
      cases hI : Trk.invert_link s key.1 key.2.1 key.2.2 u h with
      | error e =>
        rw [hI] at hb
        cases hM : invertLink (absT s h) (absK key) u with
        | error e' =>
          rw [hM] at hb
          simp only [mapV_error, liftM_error] at hb
          exact ⟨by simp only [mapV_error, liftM_error, hb], fun st hst => by cases hst⟩
        | ok t1 => rw [hM] at hb; simp only [mapV_error, liftM_ok] at hb; cases hb
      | ok x =>
        rw [hI] at hb
        cases hM : invertLink (absT s h) (absK key) u with
        | error e' => rw [hM] at hb; simp only [mapV_ok, liftM_error] at hb; cases hb
        | ok t1 =>
          rw [hM] at hb
          simp only [mapV_ok, liftM_ok] at hb
          have ht1 : t1 = absT x.2 x.1 := (Except.ok.inj hb).symm
          simp only []
          rw [ht1]
          exact ih (hw x hI)
    · have hf' : ¬ (PSet.has feat u = true) := by simp [PSet.has, hf]
      rw [if_neg hf', if_neg hf]
      exact ih hwf

theorem mid_noop (key : PKey) (feat : PSet) (snap : KDict PKey PSet) (hn : key ∉ snap.map (·.1)) (st : Trk.TrekkerSelf × SHeap) :
    loopM (midStep key feat) snap st = .ok st := by
  induction snap with
  | nil => rfl
  | cons e t ih =>
    simp only [List.map_cons, List.mem_cons, not_or] at hn
    have : ¬ ((e.1 == key) = true) := by simp; exact fun x => hn.1 x.symm
    simp only [loopM, midStep, if_neg this]
    exact ih hn.2

/-- the keys of the snapshot are pairwise different: the middle loop runs the inner loop for the entry of `key`, if there is one -/
theorem mid_spec (key : PKey) (feat : PSet) (snap : KDict PKey PSet) (hn : (snap.map (·.1)).Nodup) (st : Trk.TrekkerSelf × SHeap) :
    loopM (midStep key feat) snap st =
      match KDict.get? snap key with
      | none => .ok st
      | some us => loopM (innerStep key feat) us st := by
  induction snap with
  | nil => rfl
  | cons e t ih =>
    simp only [List.map_cons, List.nodup_cons] at hn
    by_cases he : e.1 = key
    · have h1 : (e.1 == key) = true := by simp [he]
      simp only [loopM, midStep, if_pos h1, KDict.get?, if_pos he]
      cases loopM (innerStep key feat) e.2 st with
      | error e' => rfl
      | ok st' => exact mid_noop key feat t (by rw [← he]; exact hn.1) st'
    · have h1 : ¬ ((e.1 == key) = true) := by simp [he]
      simp only [loopM, midStep, if_neg h1, KDict.get?, if_neg he]
      exact ih hn.2

theorem get?_snapshot (d : KDict PKey Nat) (h : SHeap) (key : PKey) :
    KDict.get? (KDict.snapshot d h) key = (KDict.get? d key).map (SHeap.get h) := by
  induction d with
  | nil => rfl
  | cons e t ih =>
    simp only [KDict.snapshot, List.map_cons, KDict.get?]
    by_cases he : e.1 = key
    · simp [he]
    · simp only [he, if_false]; exact ih

theorem keys_snapshot (d : KDict PKey Nat) (h : SHeap) : (KDict.snapshot d h).map (·.1) = d.map (·.1) := by
  simp [KDict.snapshot, List.map_map, Function.comp_def]

theorem outer_spec (feat : PSet) (coll : List PKey) (hc : ∀ k ∈ coll, CanonK L k) {s : Trk.TrekkerSelf} {h : SHeap} (hwf : WF L s h) :
    mapV (loopM (outerStep feat) coll (s, h)) (fun st => absT st.1 st.2) = liftM (adjuster feat (coll.map absK) (absT s h))
      ∧ ∀ st, loopM (outerStep feat) coll (s, h) = .ok st → WF L st.1 st.2 := by
  induction coll generalizing s h with
  | nil =>
    refine ⟨rfl, fun st hst => ?_⟩
    rw [← Except.ok.inj hst]; exact hwf
  | cons key t ih =>
    have hk : CanonK L key := hc key List.mem_cons_self
    have ht : ∀ k ∈ t, CanonK L k := fun k hk' => hc k (List.mem_cons_of_mem _ hk')
    simp only [loopM, List.map_cons, adjuster, outerStep]
    rw [mid_spec key feat _ (by rw [keys_snapshot]; exact hwf.keysDO), get?_snapshot, dget_absDord L hwf hk]
    cases hg : KDict.get? s.data_ordered key with
    | none =>
      simp only [Option.map_none]
      exact ih ht hwf
    | some r =>
      simp only [Option.map_some]
      obtain ⟨hb, hw⟩ := inner_spec L hk feat (SHeap.get h r) hwf
      cases hI : loopM (innerStep key feat) (SHeap.get h r) (s, h) with
      | error e =>
        rw [hI] at hb
        cases hM : invertAll (absK key) feat (SHeap.get h r) (absT s h) with
        | error e' =>
          rw [hM] at hb
          simp only [mapV_error, liftM_error] at hb
          exact ⟨by simp only [mapV_error, liftM_error, hb], fun st hst => by cases hst⟩
        | ok t1 => rw [hM] at hb; simp only [mapV_error, liftM_ok] at hb; cases hb
      | ok x =>
        rw [hI] at hb
        cases hM : invertAll (absK key) feat (SHeap.get h r) (absT s h) with
        | error e' => rw [hM] at hb; simp only [mapV_ok, liftM_error] at hb; cases hb
        | ok t1 =>
          rw [hM] at hb
          simp only [mapV_ok, liftM_ok] at hb
          have ht1 : t1 = absT x.1 x.2 := (Except.ok.inj hb).symm
          simp only []
          rw [ht1]
          exact ih ht (hw x hI)

theorem _root_.LinkGen.adjuster_bridge {s : Trk.TrekkerSelf} {h : SHeap} (hwf : WF L s h) (self : Rcf.RcfSelf) (feat : PSet)
    (hc : ∀ k ∈ self.to_invert_trekker_collection, CanonK L k) :
    mapV (Rcf.trekker_right_left_adjuster self s feat h) (fun x => (absT x.1 x.2.1, x.2.2.to_invert_trekker_collection)) =
      liftM ((adjuster feat (self.to_invert_trekker_collection.map absK) (absT s h)).map (fun t => (t, []))) := by
  rw [adjuster_eq]
  obtain ⟨hb, -⟩ := outer_spec L feat self.to_invert_trekker_collection hc hwf
  cases hcoll : self.to_invert_trekker_collection with
  | nil => simp only [List.isEmpty_nil, if_true, mapV_ok, List.map_nil, adjuster, Except.map, liftM_ok, hcoll]
  | cons k t =>
    rw [hcoll] at hb
    simp only [List.isEmpty_cons, Bool.false_eq_true, if_false]
    cases hI : loopM (outerStep feat) (k :: t) (s, h) with
    | error e =>
      rw [hI] at hb
      cases hM : adjuster feat ((k :: t).map absK) (absT s h) with
      | error e' =>
        rw [hM] at hb
        simp only [mapV_error, liftM_error] at hb
        simp only [mapV_error, Except.map, liftM_error]
        rw [Except.error.inj hb]
      | ok t1 => rw [hM] at hb; simp only [mapV_error, liftM_ok] at hb; cases hb
    | ok x =>
      rw [hI] at hb
      cases hM : adjuster feat ((k :: t).map absK) (absT s h) with
      | error e' => rw [hM] at hb; simp only [mapV_ok, liftM_error] at hb; cases hb
      | ok t1 =>
        rw [hM] at hb
        simp only [mapV_ok, liftM_ok] at hb
        simp only [mapV_ok, Except.map, liftM_ok, ← Except.ok.inj hb]

theorem _root_.LinkGen.adjuster_wf {s s' : Trk.TrekkerSelf} {h h' : SHeap} (hwf : WF L s h) (self self' : Rcf.RcfSelf) (feat : PSet)
    (hc : ∀ k ∈ self.to_invert_trekker_collection, CanonK L k)
    (he : Rcf.trekker_right_left_adjuster self s feat h = .ok (s', h', self')) : WF L s' h' := by
  rw [adjuster_eq] at he
  obtain ⟨-, hw⟩ := outer_spec L feat self.to_invert_trekker_collection hc hwf
  split at he
  · cases he; exact hwf
  · cases hI : loopM (outerStep feat) self.to_invert_trekker_collection (s, h) with
    | error e => rw [hI] at he; cases he
    | ok x =>
      rw [hI] at he
      cases he
      exact hw x hI

end adjuster

/-! ### non-vacuity: a concrete state with an aliased and a non-aliased `data_ordered` entry satisfies `WF` -/
section examples

def exL : Links := ⟨fun n => ⟨n, 0, 0, 0⟩, fun _ => rfl⟩
def exLink (n : Nat) : PLink := ⟨n, 0, 0, 0⟩

/-- `data[(l1,10,20)]` and `data_ordered[(l1,10,20)]` are ONE set object (handle 0), `data_ordered[(l2,20,30)]` (handle 2) is not the
object `data[(l2,20,30)]` (handle 1); `order[1]` is handle 3 -/
def exS : Trk.TrekkerSelf :=
  { data := [((exLink 1, 10, 20), 0), ((exLink 2, 20, 30), 1)],
    data_ordered := [((exLink 1, 10, 20), 0), ((exLink 2, 20, 30), 2)],
    order := [(1, 3)] }
def exH : SHeap := [[5, 6], [7], [7, 8], [2]]

theorem exWF : WF exL exS exH := by
  have c1 : ∀ e ∈ exS.data, exL.link e.1.1.uuid = e.1.1 := by decide
  have c2 : ∀ e ∈ exS.data_ordered, exL.link e.1.1.uuid = e.1.1 := by decide
  refine ⟨c1, c2, by decide, by decide, by decide, by decide, by decide, by decide, by decide, by decide, by decide, by decide, ?_⟩
  intro r
  match r with
  | 0 | 1 | 2 | 3 => decide
  | n + 4 => simp [SHeap.get, exH]

example : Canon exL (exLink 1) := rfl

/-- the bridge on the example: `invert_link(l1, 10, 20, 5)` returns normally and so does the model -/
example : (Trk.invert_link exS (exLink 1) 10 20 5 exH).isOk = true ∧
    (invertLink (absT exS exH) ⟨1, 10, 20⟩ 5).isOk = true := by decide

/-- … and an exceptional one: uuid 9 is not in `data[(l1,10,20)]` -/
example : mapV (Trk.invert_link exS (exLink 1) 10 20 9 exH) (fun _ => ()) = .error .keyError := by decide

end examples
end LinkGen.Trek
