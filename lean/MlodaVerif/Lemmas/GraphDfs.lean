import MlodaVerif.Lemmas.Graph
/-! `dfs` / `iterate_nodes_and_edges`: what a successful run computed, and how many frames are enough. -/
namespace Graph

/-- `if child not in self.visited: self.queue.append(child)` -/
def push (s : DS) (c : Nat) : DS := { vis := s.vis, queue := if c ∈ s.vis then s.queue else s.queue ++ [c] }

/-- the `for child in self.adjacency_list[node]` loop of `dfs` -/
def dfsKids (ch : Nat → List Nat) (fuel : Nat) (cs : List Nat) (s : DS) : Option DS :=
  cs.foldlM (fun s child => dfs ch fuel child (push s child)) s

theorem dfs_succ (ch : Nat → List Nat) (fuel node : Nat) (s : DS) :
    dfs ch (fuel + 1) node s = if node ∈ s.vis then some s else dfsKids ch fuel (ch node) { s with vis := node :: s.vis } := rfl

theorem dfsKids_nil (ch : Nat → List Nat) (fuel : Nat) (s : DS) : dfsKids ch fuel [] s = some s := rfl

theorem dfsKids_cons (ch : Nat → List Nat) (fuel c : Nat) (cs : List Nat) (s : DS) :
    dfsKids ch fuel (c :: cs) s = (dfs ch fuel c (push s c)).bind (dfsKids ch fuel cs) := by
  simp [dfsKids, List.foldlM_cons]
  rfl

structure DfsSpec (ch : Nat → List Nat) (node : Nat) (s s' : DS) : Prop where
  shape : (node ∈ s.vis ∧ s' = s) ∨
    (node ∉ s.vis ∧ ∃ rest, s'.vis = rest ++ node :: s.vis ∧ s'.queue = s.queue ++ rest.reverse ∧ ∀ x ∈ rest, Reach ch node x)
  nodup : s.vis.Nodup → s'.vis.Nodup
  closed : ∀ x ∈ s'.vis, x ∈ s.vis ∨ ∀ y ∈ ch x, y ∈ s'.vis
  visited : node ∈ s'.vis

structure KidsSpec (ch : Nat → List Nat) (cs : List Nat) (s s' : DS) : Prop where
  shape : ∃ new, s'.vis = new ++ s.vis ∧ s'.queue = s.queue ++ new.reverse ∧ ∀ x ∈ new, ∃ c ∈ cs, x = c ∨ Reach ch c x
  nodup : s.vis.Nodup → s'.vis.Nodup
  closed : ∀ x ∈ s'.vis, x ∈ s.vis ∨ ∀ y ∈ ch x, y ∈ s'.vis
  visited : ∀ c ∈ cs, c ∈ s'.vis

theorem DfsSpec.mono {ch : Nat → List Nat} {node : Nat} {s s' : DS} (h : DfsSpec ch node s s') : ∀ x ∈ s.vis, x ∈ s'.vis := by
  intro x hx
  rcases h.shape with ⟨_, rfl⟩ | ⟨_, rest, hv, _, _⟩
  · exact hx
  · rw [hv]; simp [hx]

theorem KidsSpec.mono {ch : Nat → List Nat} {cs : List Nat} {s s' : DS} (h : KidsSpec ch cs s s') : ∀ x ∈ s.vis, x ∈ s'.vis := by
  intro x hx
  obtain ⟨new, hv, _, _⟩ := h.shape
  rw [hv]; simp [hx]

theorem kidsSpec_of (ch : Nat → List Nat) (fuel : Nat)
    (IH : ∀ node s s', dfs ch fuel node s = some s' → DfsSpec ch node s s') :
    ∀ cs s s', dfsKids ch fuel cs s = some s' → KidsSpec ch cs s s' := by
  intro cs
  induction cs with
  | nil =>
    intro s s' h
    rw [dfsKids_nil] at h
    injection h with h; subst h
    exact ⟨⟨[], by simp, by simp, by simp⟩, id, fun x hx => Or.inl hx, by simp⟩
  | cons c cs ih =>
    intro s s' h
    rw [dfsKids_cons] at h
    cases h2 : dfs ch fuel c (push s c) with
    | none => rw [h2] at h; cases h
    | some s2 =>
      rw [h2] at h
      have h' : dfsKids ch fuel cs s2 = some s' := h
      have d := IH _ _ _ h2
      have k := ih _ _ h'
      have hpv : (push s c).vis = s.vis := rfl
      obtain ⟨new2, hv2, hq2, hr2⟩ := k.shape
      refine ⟨?_, ?_, ?_, ?_⟩
      · rcases d.shape with ⟨hc, hs2⟩ | ⟨hc, rest, hv, hq, hr⟩
        · rw [hpv] at hc
          subst hs2
          refine ⟨new2, by rw [hv2]; rfl, ?_, ?_⟩
          · rw [hq2]; simp [push, hc]
          · intro x hx
            obtain ⟨c', hc', h⟩ := hr2 x hx
            exact ⟨c', List.mem_cons_of_mem _ hc', h⟩
        · rw [hpv] at hc hv
          refine ⟨new2 ++ (rest ++ [c]), ?_, ?_, ?_⟩
          · rw [hv2, hv]; simp
          · rw [hq2, hq]; simp [push, hc]
          · intro x hx
            rcases List.mem_append.mp hx with hx | hx
            · obtain ⟨c', hc', h⟩ := hr2 x hx
              exact ⟨c', List.mem_cons_of_mem _ hc', h⟩
            · rcases List.mem_append.mp hx with hx | hx
              · exact ⟨c, by simp, Or.inr (hr x hx)⟩
              · simp at hx; subst hx; exact ⟨x, by simp, Or.inl rfl⟩
      · intro hn
        exact k.nodup (d.nodup hn)
      · intro x hx
        rcases k.closed x hx with h | h
        · rcases d.closed x h with h | h
          · exact Or.inl h
          · exact Or.inr (fun y hy => k.mono y (h y hy))
        · exact Or.inr h
      · intro c' hc'
        rcases List.mem_cons.mp hc' with rfl | hc'
        · exact k.mono _ d.visited
        · exact k.visited c' hc'

theorem dfs_spec (ch : Nat → List Nat) : ∀ fuel node s s', dfs ch fuel node s = some s' → DfsSpec ch node s s' := by
  intro fuel
  induction fuel with
  | zero => intro node s s' h; cases h
  | succ fuel ih =>
    intro node s s' h
    rw [dfs_succ] at h
    by_cases hn : node ∈ s.vis
    · simp only [hn, if_true] at h
      injection h with h; subst h
      exact ⟨Or.inl ⟨hn, rfl⟩, id, fun x hx => Or.inl hx, hn⟩
    · simp only [hn, if_false] at h
      have k := kidsSpec_of ch fuel ih _ _ _ h
      obtain ⟨new, hv, hq, hr⟩ := k.shape
      simp only at hv hq
      refine ⟨Or.inr ⟨hn, new, hv, hq, ?_⟩, ?_, ?_, ?_⟩
      · intro x hx
        obtain ⟨c, hc, h⟩ := hr x hx
        rcases h with rfl | h
        · exact .edge hc
        · exact .head hc h
      · intro hnd
        exact k.nodup (List.nodup_cons.mpr ⟨hn, hnd⟩)
      · intro x hx
        rcases k.closed x hx with h | h
        · rcases List.mem_cons.mp h with rfl | h
          · exact Or.inr (fun y hy => k.visited y hy)
          · exact Or.inl h
        · exact Or.inr h
      · rw [hv]; simp

theorem kids_spec (ch : Nat → List Nat) (fuel : Nat) (cs : List Nat) (s s' : DS) (h : dfsKids ch fuel cs s = some s') :
    KidsSpec ch cs s s' :=
  kidsSpec_of ch fuel (dfs_spec ch fuel) cs s s' h

/-! ### enough frames: |U| + 1 for a universe `U` closed under `ch` -/

theorem DfsSpec.subset {ch : Nat → List Nat} {node : Nat} {s s' : DS} (h : DfsSpec ch node s s') (U : List Nat)
    (hU : ∀ x ∈ U, ∀ y ∈ ch x, y ∈ U) (hnode : node ∈ U) (hs : ∀ x ∈ s.vis, x ∈ U) : ∀ x ∈ s'.vis, x ∈ U := by
  intro x hx
  rcases h.shape with ⟨_, rfl⟩ | ⟨_, rest, hv, _, hr⟩
  · exact hs x hx
  · rw [hv] at hx
    rcases List.mem_append.mp hx with hx | hx
    · exact Reach.closed (P := (· ∈ U)) hU (hr x hx) hnode
    · rcases List.mem_cons.mp hx with rfl | hx
      · exact hnode
      · exact hs x hx

theorem DfsSpec.length_le {ch : Nat → List Nat} {node : Nat} {s s' : DS} (h : DfsSpec ch node s s') : s.vis.length ≤ s'.vis.length := by
  rcases h.shape with ⟨_, rfl⟩ | ⟨_, rest, hv, _, _⟩
  · exact Nat.le_refl _
  · rw [hv]; simp; omega

theorem dfs_total (ch : Nat → List Nat) (U : List Nat) (hU : ∀ x ∈ U, ∀ y ∈ ch x, y ∈ U) :
    ∀ fuel node s, node ∈ U → (∀ x ∈ s.vis, x ∈ U) → s.vis.Nodup → U.length + 1 ≤ fuel + s.vis.length →
      (dfs ch fuel node s).isSome := by
  intro fuel
  induction fuel with
  | zero =>
    intro node s _ hs hn hlen
    have := nodup_subset_length_le s.vis U hn hs
    omega
  | succ fuel ih =>
    intro node s hnode hs hn hlen
    rw [dfs_succ]
    by_cases hv : node ∈ s.vis
    · simp [hv]
    · simp only [hv, if_false]
      -- the loop over the children: every intermediate state keeps the invariants
      suffices hk : ∀ cs, (∀ c ∈ cs, c ∈ U) → ∀ t : DS, (∀ x ∈ t.vis, x ∈ U) → t.vis.Nodup → U.length + 1 ≤ fuel + t.vis.length →
          (dfsKids ch fuel cs t).isSome by
        apply hk (ch node) (fun c hc => hU node hnode c hc)
        · intro x hx
          rcases List.mem_cons.mp hx with rfl | hx
          · exact hnode
          · exact hs x hx
        · exact List.nodup_cons.mpr ⟨hv, hn⟩
        · simp only [List.length_cons]; omega
      intro cs
      induction cs with
      | nil => intro _ t _ _ _; simp [dfsKids_nil]
      | cons c cs ihc =>
        intro hcs t ht htn htl
        rw [dfsKids_cons]
        have hsome := ih c (push t c) (hcs c (by simp)) ht htn htl
        cases h2 : dfs ch fuel c (push t c) with
        | none => rw [h2] at hsome; cases hsome
        | some t2 =>
          have d := dfs_spec ch fuel c (push t c) t2 h2
          have hlen2 := d.length_le
          have : (push t c).vis = t.vis := rfl
          rw [this] at hlen2
          exact ihc (fun c' hc' => hcs c' (List.mem_cons_of_mem _ hc')) t2
            (d.subset U hU (hcs c (by simp)) ht) (d.nodup htn) (by omega)

/-! ### the loop over the roots -/

def rootLoop (ch : Nat → List Nat) (fuel : Nat) (rs : List Nat) (s : DS) : Option DS :=
  rs.foldlM (fun s r => dfs ch fuel r s) s

/-- state invariant of the loop `for root in self.roots: self.dfs(root)`; `R` = all roots -/
structure RootInv (ch : Nat → List Nat) (R : List Nat) (s : DS) : Prop where
  queue : ∃ ex, s.queue = R ++ ex ∧ ex.Nodup ∧ (∀ x ∈ ex, x ∈ s.vis ∧ ∃ p, x ∈ ch p) ∧ (∀ x ∈ s.vis, x ∈ R ∨ x ∈ ex)
  nodup : s.vis.Nodup
  reach : ∀ x ∈ s.vis, x ∈ R ∨ ∃ r ∈ R, Reach ch r x
  closed : ∀ x ∈ s.vis, ∀ y ∈ ch x, y ∈ s.vis

theorem rootInv_step {ch : Nat → List Nat} {R : List Nat} {s s' : DS} {r : Nat} (hr : r ∈ R) (hi : RootInv ch R s)
    (d : DfsSpec ch r s s') : RootInv ch R s' := by
  obtain ⟨ex, hq, hexn, hex, hcov⟩ := hi.queue
  rcases d.shape with ⟨_, rfl⟩ | ⟨hrv, rest, hv, hq', hreach⟩
  · exact hi
  · have hn' := d.nodup hi.nodup
    rw [hv] at hn'
    have hna := List.nodup_append.mp hn'
    refine ⟨⟨ex ++ rest.reverse, ?_, ?_, ?_, ?_⟩, d.nodup hi.nodup, ?_, ?_⟩
    · rw [hq', hq]; simp
    · rw [List.nodup_append]
      refine ⟨hexn, (List.reverse_perm rest).nodup_iff.mpr hna.1, ?_⟩
      intro a ha b hb hab
      subst hab
      exact hna.2.2 a (List.mem_reverse.mp hb) a (List.mem_cons_of_mem _ (hex a ha).1) rfl
    · intro x hx
      rcases List.mem_append.mp hx with hx | hx
      · exact ⟨d.mono x (hex x hx).1, (hex x hx).2⟩
      · have hx' := List.mem_reverse.mp hx
        refine ⟨by rw [hv]; simp [hx'], ?_⟩
        obtain ⟨p, hp, _⟩ := (hreach x hx').last
        exact ⟨p, hp⟩
    · intro x hx
      rw [hv] at hx
      rcases List.mem_append.mp hx with hx | hx
      · exact Or.inr (List.mem_append.mpr (Or.inr (List.mem_reverse.mpr hx)))
      · rcases List.mem_cons.mp hx with rfl | hx
        · exact Or.inl hr
        · rcases hcov x hx with h | h
          · exact Or.inl h
          · exact Or.inr (List.mem_append.mpr (Or.inl h))
    · intro x hx
      rw [hv] at hx
      rcases List.mem_append.mp hx with hx | hx
      · exact Or.inr ⟨r, hr, hreach x hx⟩
      · rcases List.mem_cons.mp hx with rfl | hx
        · exact Or.inl hr
        · exact hi.reach x hx
    · intro x hx y hy
      rcases d.closed x hx with h | h
      · exact d.mono y (hi.closed x h y hy)
      · exact h y hy

theorem rootLoop_spec (ch : Nat → List Nat) (fuel : Nat) (R : List Nat) :
    ∀ rs s s', (∀ r ∈ rs, r ∈ R) → RootInv ch R s → rootLoop ch fuel rs s = some s' →
      RootInv ch R s' ∧ (∀ x ∈ s.vis, x ∈ s'.vis) ∧ ∀ r ∈ rs, r ∈ s'.vis := by
  intro rs
  induction rs with
  | nil =>
    intro s s' _ hi h
    simp [rootLoop, List.foldlM] at h; subst h
    exact ⟨hi, fun x hx => hx, by simp⟩
  | cons r rs ih =>
    intro s s' hrs hi h
    simp only [rootLoop, List.foldlM_cons] at h
    cases h2 : dfs ch fuel r s with
    | none => rw [h2] at h; cases h
    | some s2 =>
      rw [h2] at h
      have d := dfs_spec ch fuel r s s2 h2
      have hi2 := rootInv_step (hrs r (by simp)) hi d
      obtain ⟨hi', hmono, hvis⟩ := ih s2 s' (fun r' hr' => hrs r' (List.mem_cons_of_mem _ hr')) hi2 h
      refine ⟨hi', fun x hx => hmono x (d.mono x hx), ?_⟩
      intro r' hr'
      rcases List.mem_cons.mp hr' with rfl | hr'
      · exact hmono _ d.visited
      · exact hvis r' hr'

theorem rootLoop_total (ch : Nat → List Nat) (U : List Nat) (hU : ∀ x ∈ U, ∀ y ∈ ch x, y ∈ U) (fuel : Nat)
    (hfuel : U.length + 1 ≤ fuel) :
    ∀ rs s, (∀ r ∈ rs, r ∈ U) → (∀ x ∈ s.vis, x ∈ U) → s.vis.Nodup → (rootLoop ch fuel rs s).isSome := by
  intro rs
  induction rs with
  | nil => intro s _ _ _; simp [rootLoop, List.foldlM]
  | cons r rs ih =>
    intro s hrs hs hn
    simp only [rootLoop, List.foldlM_cons]
    have hsome := dfs_total ch U hU fuel r s (hrs r (by simp)) hs hn (by omega)
    cases h2 : dfs ch fuel r s with
    | none => rw [h2] at hsome; cases hsome
    | some s2 =>
      have d := dfs_spec ch fuel r s s2 h2
      exact ih s2 (fun r' hr' => hrs r' (List.mem_cons_of_mem _ hr')) (d.subset U hU (hrs r (by simp)) hs) (d.nodup hn)

/-! ### in-degrees -/

theorem iget_incr (d : List (Nat × Nat)) (k k' : Nat) : iget (incr d k) k' = iget d k' + if k = k' then 1 else 0 := by
  induction d with
  | nil => by_cases h : k = k' <;> simp [incr, iget, h]
  | cons e d ih =>
    obtain ⟨k0, n0⟩ := e
    by_cases h0 : k0 = k
    · subst h0
      by_cases h1 : k0 = k' <;> simp [incr, iget, h1]
    · simp only [incr, h0, if_false, iget, ih]
      by_cases h1 : k0 = k'
      · subst h1
        have : ¬ k = k0 := fun h => h0 h.symm
        simp [this]
      · simp [h1]

theorem iget_foldl_incr (cs : List Nat) (d : List (Nat × Nat)) (v : Nat) : iget (cs.foldl incr d) v = iget d v + cs.count v := by
  induction cs generalizing d with
  | nil => simp
  | cons c cs ih =>
    simp only [List.foldl_cons, ih, iget_incr, List.count_cons]
    by_cases h : c = v <;> simp [h] <;> omega

theorem iget_createInDegree (adj : Dict) (v : Nat) : iget (createInDegree adj) v = (adj.flatMap (·.2)).count v := by
  unfold createInDegree
  suffices h : ∀ d : List (Nat × Nat), iget (adj.foldl (fun deg e => e.2.foldl incr deg) d) v = iget d v + (adj.flatMap (·.2)).count v by
    simpa [iget] using h []
  induction adj with
  | nil => intro d; simp
  | cons e adj ih =>
    intro d
    simp only [List.foldl_cons, ih, iget_foldl_incr, List.flatMap_cons, List.count_append]
    omega

/-- in-degree 0 = child of nobody (for dicts with unique keys) -/
theorem indegree_zero_iff {adj : Dict} (hn : (dkeys adj).Nodup) (v : Nat) :
    iget (createInDegree adj) v = 0 ↔ ∀ p, v ∉ dget adj p := by
  rw [iget_createInDegree, List.count_eq_zero, List.mem_flatMap]
  constructor
  · intro h p hp
    exact h ⟨(p, dget adj p), mem_of_mem_dget hp, hp⟩
  · rintro h ⟨⟨k, cs⟩, he, hv⟩
    have := dget_of_mem hn he
    exact h k (this ▸ hv)

end Graph
