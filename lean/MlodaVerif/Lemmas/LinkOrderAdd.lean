import MlodaVerif.Lemmas.LinkOrderBasic
/-! Lemmas about `ResolveLinks.add_links_to_queue` (`addLinks`). -/
namespace LinkOrder

/-- the uuids of a queue with links, in order -/
def uuidsOf : List QItem → List Nat
  | [] => []
  | .uuid u :: r => u :: uuidsOf r
  | .link _ :: r => uuidsOf r

/-- the link entries of a queue with links, in order -/
def linksOf : List QItem → List Key
  | [] => []
  | .uuid _ :: r => linksOf r
  | .link k :: r => k :: linksOf r

theorem uuidsOf_append (a b : List QItem) : uuidsOf (a ++ b) = uuidsOf a ++ uuidsOf b := by
  induction a with
  | nil => rfl
  | cons x r ih => cases x <;> simp [uuidsOf, ih]

theorem linksOf_append (a b : List QItem) : linksOf (a ++ b) = linksOf a ++ linksOf b := by
  induction a with
  | nil => rfl
  | cons x r ih => cases x <;> simp [linksOf, ih]

theorem uuidsOf_map_link (L : List Key) : uuidsOf (L.map QItem.link) = [] := by
  induction L with
  | nil => rfl
  | cons a r ih => simp [uuidsOf, ih]

theorem linksOf_map_link (L : List Key) : linksOf (L.map QItem.link) = L := by
  induction L with
  | nil => rfl
  | cons a r ih => simp [linksOf, ih]

theorem mem_linksOf {l : List QItem} {k : Key} : k ∈ linksOf l ↔ QItem.link k ∈ l := by
  induction l with
  | nil => simp [linksOf]
  | cons x r ih => cases x <;> simp [linksOf, ih]

/-- the inner loop for one queue uuid: the links appended are exactly the not yet joined keys with `u` among their
dependants, each once, in the order of `ordered` -/
theorem addLinksFor_spec (u : Nat) (ordered : List (Key × List Nat)) (out : List QItem) (joined : List Key) :
    ∃ L : List Key, addLinksFor u ordered (out, joined) = (out ++ L.map QItem.link, joined ++ L) ∧ L.Nodup ∧
      (∀ k, k ∈ L ↔ k ∉ joined ∧ ∃ s, (k, s) ∈ ordered ∧ u ∈ s) := by
  induction ordered generalizing out joined with
  | nil => exact ⟨[], by simp [addLinksFor], by simp, by simp⟩
  | cons e r ih =>
    simp only [addLinksFor]
    split
    · rename_i hj
      obtain ⟨L, h1, h2, h3⟩ := ih out joined
      refine ⟨L, h1, h2, ?_⟩
      intro k; rw [h3 k]
      constructor
      · rintro ⟨a, s, hs, hu⟩; exact ⟨a, s, List.mem_cons_of_mem _ hs, hu⟩
      · rintro ⟨a, s, hs, hu⟩
        rcases List.mem_cons.mp hs with hs | hs
        · exact absurd (by rw [← hs] at hj; exact hj) a
        · exact ⟨a, s, hs, hu⟩
    · rename_i hj
      split
      · rename_i hu
        obtain ⟨L, h1, h2, h3⟩ := ih (out ++ [.link e.1]) (joined ++ [e.1])
        refine ⟨e.1 :: L, by rw [h1]; simp, ?_, ?_⟩
        · refine List.nodup_cons.mpr ⟨fun h => ?_, h2⟩
          exact ((h3 e.1).mp h).1 (by simp)
        · intro k
          rw [List.mem_cons, h3 k]
          constructor
          · rintro (rfl | ⟨a, s, hs, hus⟩)
            · exact ⟨hj, e.2, List.mem_cons_self, hu⟩
            · exact ⟨fun h => a (List.mem_append_left _ h), s, List.mem_cons_of_mem _ hs, hus⟩
          · rintro ⟨a, s, hs, hus⟩
            by_cases hk : k = e.1
            · exact Or.inl hk
            · rcases List.mem_cons.mp hs with hs | hs
              · exact absurd (by rw [← hs]) hk
              · refine Or.inr ⟨fun h => ?_, s, hs, hus⟩
                rcases List.mem_append.mp h with h | h
                · exact a h
                · simp at h; exact hk h
      · rename_i hu
        obtain ⟨L, h1, h2, h3⟩ := ih out joined
        refine ⟨L, h1, h2, ?_⟩
        intro k; rw [h3 k]
        constructor
        · rintro ⟨a, s, hs, hus⟩; exact ⟨a, s, List.mem_cons_of_mem _ hs, hus⟩
        · rintro ⟨a, s, hs, hus⟩
          rcases List.mem_cons.mp hs with hs | hs
          · exact absurd (by rw [← hs]; exact hus) hu
          · exact ⟨a, s, hs, hus⟩

theorem addLinksLoop_append (ordered : List (Key × List Nat)) (a b : List Nat) (st : List QItem × List Key) :
    addLinksLoop ordered (a ++ b) st = addLinksLoop ordered b (addLinksLoop ordered a st) := by
  induction a generalizing st with
  | nil => rfl
  | cons u r ih => simp only [List.cons_append, addLinksLoop, ih]

/-- the whole loop: `out` only grows; the uuids appended are the queue; `already_joined` is the list of links of `out`
(when it was so at the start), without repetition; a key is joined iff some queued uuid depends on it -/
theorem addLinksLoop_spec (ordered : List (Key × List Nat)) (q : List Nat) (out : List QItem) (joined : List Key)
    (hj : joined.Nodup) :
    ∃ R : List QItem, ∃ L : List Key,
      addLinksLoop ordered q (out, joined) = (out ++ R, joined ++ L) ∧ uuidsOf R = q ∧ linksOf R = L ∧ (joined ++ L).Nodup ∧
      (∀ k, k ∈ L ↔ k ∉ joined ∧ ∃ s, (k, s) ∈ ordered ∧ ∃ u ∈ q, u ∈ s) := by
  induction q generalizing out joined with
  | nil => exact ⟨[], [], by simp [addLinksLoop], rfl, rfl, by simpa using hj, by simp⟩
  | cons u r ih =>
    simp only [addLinksLoop]
    obtain ⟨L1, h1, h2, h3⟩ := addLinksFor_spec u ordered out joined
    rw [h1]
    have hj' : (joined ++ L1).Nodup := by
      rw [List.nodup_append]
      exact ⟨hj, h2, fun a ha b hb hab => ((h3 b).mp hb).1 (hab ▸ ha)⟩
    obtain ⟨R, L, g1, g2, g3, g4, g5⟩ := ih (out ++ L1.map QItem.link ++ [.uuid u]) (joined ++ L1) hj'
    refine ⟨L1.map QItem.link ++ [.uuid u] ++ R, L1 ++ L, ?_, ?_, ?_, ?_, ?_⟩
    · rw [g1]; simp
    · simp [uuidsOf_append, uuidsOf_map_link, uuidsOf, g2]
    · simp [linksOf_append, linksOf_map_link, linksOf, g3]
    · simpa using g4
    · intro k
      rw [List.mem_append, g5 k, h3 k]
      constructor
      · rintro (⟨a, s, hs, hu⟩ | ⟨a, s, hs, x, hx, hxs⟩)
        · exact ⟨a, s, hs, u, List.mem_cons_self, hu⟩
        · exact ⟨fun h => a (List.mem_append_left _ h), s, hs, x, List.mem_cons_of_mem _ hx, hxs⟩
      · rintro ⟨a, s, hs, x, hx, hxs⟩
        by_cases hk : k ∈ L1
        · exact Or.inl ((h3 k).mp hk)
        · rcases List.mem_cons.mp hx with hx | hx
          · subst hx; exact Or.inl ⟨a, s, hs, hxs⟩
          · refine Or.inr ⟨fun h => ?_, s, hs, x, hx, hxs⟩
            rcases List.mem_append.mp h with h | h
            · exact a h
            · exact hk h

end LinkOrder
