import MlodaVerif.Lemmas.OptionsHash
/-! Python `==` on well-formed option values is an equivalence relation (reflexive, symmetric, transitive).
Needed since the grouping dictionary is keyed by the key *value*: a dict lookup is "first stored key that is `==`". -/

namespace OptEquiv
open PyVal (pyEq wf wfL wfKV eqList allMem allLookup numOf numEq distinctEq hashableL keysOf nodupKeys)
open OptDict OptHash

/-! ### numbers -/

theorem numEq_iff (a b : Int × Nat) : numEq a b = true ↔ a.1 * (2 : Int) ^ b.2 = b.1 * (2 : Int) ^ a.2 := by
  simp [numEq]

theorem numEq_refl (a : Int × Nat) : numEq a a = true := by simp [numEq]

theorem numEq_symm {a b : Int × Nat} (h : numEq a b = true) : numEq b a = true := by
  rw [numEq_iff] at h ⊢; exact h.symm

theorem numEq_trans {a b c : Int × Nat} (h1 : numEq a b = true) (h2 : numEq b c = true) : numEq a c = true := by
  rw [numEq_iff] at h1 h2 ⊢
  obtain ⟨a, ea⟩ := a; obtain ⟨b, eb⟩ := b; obtain ⟨c, ec⟩ := c
  simp only at h1 h2 ⊢
  have hpos : (2:Int) ^ eb ≠ 0 := by
    have : (0:Int) < 2 ^ eb := Int.pow_pos (by decide)
    omega
  apply Int.eq_of_mul_eq_mul_right hpos
  calc a * 2 ^ ec * 2 ^ eb = (a * 2 ^ eb) * 2 ^ ec := by grind
    _ = (b * 2 ^ ea) * 2 ^ ec := by rw [h1]
    _ = (b * 2 ^ ec) * 2 ^ ea := by grind
    _ = (c * 2 ^ eb) * 2 ^ ea := by rw [h2]
    _ = c * 2 ^ ea * 2 ^ eb := by grind

/-- `==` with a number on the left -/
theorem pyEq_of_num {v : PyVal} {p : Int × Nat} (h : numOf v = some p) (w : PyVal) :
    pyEq v w = (match numOf w with | some q => numEq p q | none => false) := by
  cases v <;> simp only [numOf, Option.some.injEq, reduceCtorEq] at h <;> subst h <;> simp only [pyEq] <;>
    cases numOf w <;> rfl

/-- the symmetric / transitive package for one left operand -/
def ST (v : PyVal) : Prop :=
  ∀ w, wf v = true → wf w = true → pyEq v w = true →
    pyEq w v = true ∧ ∀ z, wf z = true → pyEq w z = true → pyEq v z = true

theorem ST_num {v : PyVal} {p : Int × Nat} (hv : numOf v = some p) : ST v := by
  intro w _ _ h
  rw [pyEq_of_num hv] at h
  cases hw : numOf w with
  | none => rw [hw] at h; cases h
  | some q =>
    rw [hw] at h; simp only at h
    refine ⟨?_, ?_⟩
    · rw [pyEq_of_num hw, hv]; exact numEq_symm h
    · intro z _ hz
      rw [pyEq_of_num hw] at hz
      rw [pyEq_of_num hv]
      cases hzn : numOf z with
      | none => rw [hzn] at hz; cases hz
      | some r => rw [hzn] at hz; simp only at hz ⊢; exact numEq_trans h hz

/-! ### sequences -/

theorem eqList_symm : ∀ (a b : List PyVal), (∀ x ∈ a, ∀ y ∈ b, pyEq x y = true → pyEq y x = true) →
    eqList a b = true → eqList b a = true := by
  intro a
  induction a with
  | nil => intro b _ h; cases b <;> simp_all [eqList]
  | cons x xs ih =>
    intro b hf h
    cases b with
    | nil => simp [eqList] at h
    | cons y ys =>
      simp only [eqList, Bool.and_eq_true] at h ⊢
      exact ⟨hf x (by simp) y (by simp) h.1, ih ys (fun u hu v hv => hf u (by simp [hu]) v (by simp [hv])) h.2⟩

theorem eqList_trans : ∀ (a b c : List PyVal),
    (∀ x ∈ a, ∀ y ∈ b, ∀ z ∈ c, pyEq x y = true → pyEq y z = true → pyEq x z = true) →
    eqList a b = true → eqList b c = true → eqList a c = true := by
  intro a
  induction a with
  | nil => intro b c _ h1 h2; cases b <;> cases c <;> simp_all [eqList]
  | cons x xs ih =>
    intro b c hf h1 h2
    cases b with
    | nil => simp [eqList] at h1
    | cons y ys =>
      cases c with
      | nil => simp [eqList] at h2
      | cons z zs =>
        simp only [eqList, Bool.and_eq_true] at h1 h2 ⊢
        exact ⟨hf x (by simp) y (by simp) z (by simp) h1.1 h2.1,
          ih ys zs (fun u hu v hv w hw => hf u (by simp [hu]) v (by simp [hv]) w (by simp [hw])) h1.2 h2.2⟩

/-! ### sets -/

/-- pigeonhole: if every element of `a` has a partner in `b`, no two elements of `a` share a partner and `b` is not
longer than `a`, then every element of `b` is the partner of some element of `a` -/
theorem partners_cover (r : PyVal → PyVal → Prop) :
    ∀ (a b : List PyVal), (∀ x ∈ a, ∃ y ∈ b, r x y) →
      a.Pairwise (fun x x' => ∀ y, r x y → r x' y → False) → b.length ≤ a.length →
      ∀ y ∈ b, ∃ x ∈ a, r x y := by
  intro a
  induction a with
  | nil =>
    intro b _ _ hlen y hy
    have : b = [] := List.eq_nil_of_length_eq_zero (by simpa using hlen)
    subst this; cases hy
  | cons x xs ih =>
    intro b h1 h2 hlen y hy
    rw [List.pairwise_cons] at h2
    obtain ⟨y0, hy0, hr0⟩ := h1 x (by simp)
    obtain ⟨l1, l2, rfl⟩ := List.append_of_mem hy0
    have h1' : ∀ x' ∈ xs, ∃ y' ∈ l1 ++ l2, r x' y' := by
      intro x' hx'
      obtain ⟨y', hy', hr'⟩ := h1 x' (by simp [hx'])
      rcases List.mem_append.mp hy' with h | h
      · exact ⟨y', List.mem_append.mpr (Or.inl h), hr'⟩
      · rcases List.mem_cons.mp h with h | h
        · subst h; exact absurd hr' (fun hr' => h2.1 x' hx' y' hr0 hr')
        · exact ⟨y', List.mem_append.mpr (Or.inr h), hr'⟩
    have hlen' : (l1 ++ l2).length ≤ xs.length := by
      simp only [List.length_append, List.length_cons] at hlen ⊢; omega
    rcases List.mem_append.mp hy with h | h
    · obtain ⟨x', hx', hr'⟩ := ih (l1 ++ l2) h1' h2.2 hlen' y (List.mem_append.mpr (Or.inl h))
      exact ⟨x', by simp [hx'], hr'⟩
    · rcases List.mem_cons.mp h with h | h
      · subst h; exact ⟨x, by simp, hr0⟩
      · obtain ⟨x', hx', hr'⟩ := ih (l1 ++ l2) h1' h2.2 hlen' y (List.mem_append.mpr (Or.inr h))
        exact ⟨x', by simp [hx'], hr'⟩

theorem distinctEq_iff (l : List PyVal) : distinctEq l = true ↔ l.Pairwise (fun x y => pyEq x y = false) := by
  induction l with
  | nil => simp [distinctEq]
  | cons x xs ih =>
    simp only [distinctEq, Bool.and_eq_true, Bool.not_eq_true', ih, List.pairwise_cons, List.any_eq_false]
    constructor
    · rintro ⟨h1, h2⟩; exact ⟨fun y hy => by simpa using h1 y hy, h2⟩
    · rintro ⟨h1, h2⟩; exact ⟨fun y hy => by simpa using h1 y hy, h2⟩

def setEq (a b : List PyVal) : Bool := a.length == b.length && allMem a b

theorem setEq_symm (a b : List PyVal) (hda : distinctEq a = true)
    (hst : ∀ x ∈ a, ∀ y ∈ b, pyEq x y = true → pyEq y x = true ∧ ∀ z ∈ a, pyEq y z = true → pyEq x z = true)
    (h : setEq a b = true) : setEq b a = true := by
  simp only [setEq, Bool.and_eq_true, beq_iff_eq] at h ⊢
  refine ⟨h.1.symm, ?_⟩
  rw [PyVal.allMem_iff] at h ⊢
  have hcov := partners_cover (fun x y => y ∈ b ∧ pyEq x y = true) a b
    (fun x hx => by obtain ⟨y, hy, e⟩ := h.2 x hx; exact ⟨y, hy, hy, e⟩)
    (by
      rw [distinctEq_iff] at hda
      refine List.Pairwise.imp_of_mem ?_ hda
      intro x x' hx hx' hne y ⟨hyb, e1⟩ ⟨_, e2⟩
      have s2 := (hst x' hx' y hyb e2).1
      have := (hst x hx y hyb e1).2 x' hx' s2
      rw [hne] at this; cases this)
    (by omega)
  intro y hy
  obtain ⟨x, hx, _, e⟩ := hcov y hy
  exact ⟨x, hx, (hst x hx y hy e).1⟩

theorem setEq_trans (a b c : List PyVal)
    (ht : ∀ x ∈ a, ∀ y ∈ b, ∀ z ∈ c, pyEq x y = true → pyEq y z = true → pyEq x z = true)
    (h1 : setEq a b = true) (h2 : setEq b c = true) : setEq a c = true := by
  simp only [setEq, Bool.and_eq_true, beq_iff_eq] at h1 h2 ⊢
  refine ⟨h1.1.trans h2.1, ?_⟩
  rw [PyVal.allMem_iff] at h1 h2 ⊢
  intro x hx
  obtain ⟨y, hy, e1⟩ := h1.2 x hx
  obtain ⟨z, hz, e2⟩ := h2.2 y hy
  exact ⟨z, hz, ht x hx y hy z hz e1 e2⟩

/-! ### dicts -/

def dictEq (a b : PyDict) : Bool := a.length == b.length && allLookup a b

theorem dictEq_symm (a b : PyDict) (hna : (keysOf a).Nodup) (hnb : (keysOf b).Nodup)
    (hs : ∀ kv ∈ a, ∀ kw ∈ b, pyEq kv.2 kw.2 = true → pyEq kw.2 kv.2 = true)
    (h : dictEq a b = true) : dictEq b a = true := by
  simp only [dictEq, Bool.and_eq_true, beq_iff_eq] at h ⊢
  refine ⟨h.1.symm, ?_⟩
  have hall := (PyVal.allLookup_iff a b).mp h.2
  have hsub : ∀ k ∈ keysOf a, k ∈ keysOf b := by
    intro k hk
    obtain ⟨v, hv⟩ := mem_keysOf.mp hk
    obtain ⟨v', hv', _⟩ := hall (k, v) hv
    exact mem_keysOf.mpr ⟨v', mem_of_lookup_some hv'⟩
  have hsup := keys_superset hna h.1 hsub
  rw [PyVal.allLookup_iff]
  rintro ⟨k, v'⟩ hkv
  obtain ⟨v, hv⟩ := mem_keysOf.mp (hsup k (mem_keysOf.mpr ⟨v', hkv⟩))
  obtain ⟨v'', hv'', e⟩ := hall (k, v) hv
  have : v'' = v' := by
    have := lookup_some_of_mem hnb hkv
    rw [this] at hv''; exact (Option.some.inj hv'').symm
  subst this
  exact ⟨v, lookup_some_of_mem hna hv, hs (k, v) hv (k, v'') hkv e⟩

theorem dictEq_trans (a b c : PyDict)
    (ht : ∀ kv ∈ a, ∀ kw ∈ b, ∀ kz ∈ c, pyEq kv.2 kw.2 = true → pyEq kw.2 kz.2 = true → pyEq kv.2 kz.2 = true)
    (h1 : dictEq a b = true) (h2 : dictEq b c = true) : dictEq a c = true := by
  simp only [dictEq, Bool.and_eq_true, beq_iff_eq] at h1 h2 ⊢
  refine ⟨h1.1.trans h2.1, ?_⟩
  have ha := (PyVal.allLookup_iff a b).mp h1.2
  have hb := (PyVal.allLookup_iff b c).mp h2.2
  rw [PyVal.allLookup_iff]
  rintro ⟨k, v⟩ hkv
  obtain ⟨v', hv', e1⟩ := ha (k, v) hkv
  obtain ⟨v'', hv'', e2⟩ := hb (k, v') (mem_of_lookup_some hv')
  exact ⟨v'', hv'', ht (k, v) hkv (k, v') (mem_of_lookup_some hv') (k, v'') (mem_of_lookup_some hv'') e1 e2⟩

/-! ### all values -/

theorem pyEq_set_like (a b : List PyVal) :
    pyEq (.set a) (.set b) = setEq a b ∧ pyEq (.set a) (.frozenset b) = setEq a b ∧
    pyEq (.frozenset a) (.set b) = setEq a b ∧ pyEq (.frozenset a) (.frozenset b) = setEq a b := by
  simp [pyEq, setEq]

/-- what a set-like value holds, if it is one -/
def elems : PyVal → Option (List PyVal)
  | .set l => some l
  | .frozenset l => some l
  | _ => none

theorem pyEq_setlike_left {v : PyVal} {a : List PyVal} (hv : elems v = some a) (w : PyVal) :
    pyEq v w = (match elems w with | some b => setEq a b | none => false) := by
  cases v <;> simp only [elems, Option.some.injEq, reduceCtorEq] at hv <;> subst hv <;>
    cases w <;> simp [pyEq, elems, setEq]

theorem wf_elems {v : PyVal} {a : List PyVal} (hv : elems v = some a) (h : wf v = true) :
    (∀ x ∈ a, wf x = true) ∧ distinctEq a = true := by
  cases v <;> simp only [elems, Option.some.injEq, reduceCtorEq] at hv <;> subst hv <;>
    simp only [wf, Bool.and_eq_true] at h <;> exact ⟨(wfL_iff _).mp h.1.1, h.2⟩

theorem ST_setlike {v : PyVal} {a : List PyVal} (hv : elems v = some a) (ih : ∀ x ∈ a, ST x) : ST v := by
  intro w hwv hww h
  rw [pyEq_setlike_left hv] at h
  cases hw : elems w with
  | none => rw [hw] at h; cases h
  | some b =>
    rw [hw] at h; simp only at h
    obtain ⟨hwa, hda⟩ := wf_elems hv hwv
    obtain ⟨hwb, _⟩ := wf_elems hw hww
    refine ⟨?_, ?_⟩
    · rw [pyEq_setlike_left hw, hv]
      apply setEq_symm a b hda _ h
      intro x hx y hy e
      obtain ⟨s, t⟩ := ih x hx y (hwa x hx) (hwb y hy) e
      exact ⟨s, fun z hz e2 => t z (hwa z hz) e2⟩
    · intro z hwz hz
      rw [pyEq_setlike_left hw] at hz
      rw [pyEq_setlike_left hv]
      cases hzn : elems z with
      | none => rw [hzn] at hz; cases hz
      | some c =>
        rw [hzn] at hz; simp only at hz ⊢
        obtain ⟨hwc, _⟩ := wf_elems hzn hwz
        apply setEq_trans a b c _ h hz
        intro x hx y hy u hu e1 e2
        exact (ih x hx y (hwa x hx) (hwb y hy) e1).2 u (hwc u hu) e2

/-- **symmetry and transitivity of Python `==`** on well-formed option values -/
theorem ST_all : ∀ v, ST v := by
  intro v
  induction v using PyVal.induct with
  | hnone =>
    intro w _ _ h
    cases w <;> simp only [pyEq, reduceCtorEq] at h
    exact ⟨by simp [pyEq], fun z _ hz => hz⟩
  | hbool b => exact ST_num (p := (if b then 1 else 0, 0)) rfl
  | hint i => exact ST_num (p := (i, 0)) rfl
  | hfloat m e => exact ST_num (p := (m, e)) rfl
  | hstr s =>
    intro w _ _ h
    cases w <;> simp only [pyEq, reduceCtorEq, beq_iff_eq] at h
    subst h
    exact ⟨by simp [pyEq], fun z _ hz => hz⟩
  | hobj n =>
    intro w _ _ h
    cases w <;> simp only [pyEq, reduceCtorEq, beq_iff_eq] at h
    subst h
    exact ⟨by simp [pyEq], fun z _ hz => hz⟩
  | hfeat n c =>
    intro w _ _ h
    cases w <;> simp only [pyEq, reduceCtorEq, Bool.and_eq_true, beq_iff_eq] at h
    obtain ⟨rfl, rfl⟩ := h
    exact ⟨by simp [pyEq], fun z _ hz => hz⟩
  | htuple l ih =>
    intro w hv hw h
    cases w
    case tuple b =>
      simp only [pyEq] at h
      simp only [wf] at hv hw; rw [wfL_iff] at hv hw
      refine ⟨?_, ?_⟩
      · simp only [pyEq]
        exact eqList_symm l b (fun x hx y hy e => (ih x hx y (hv x hx) (hw y hy) e).1) h
      · intro z hz hwz
        cases z
        case tuple c =>
          simp only [pyEq] at hwz ⊢
          simp only [wf] at hz; rw [wfL_iff] at hz
          exact eqList_trans l b c
            (fun x hx y hy u hu e1 e2 => (ih x hx y (hv x hx) (hw y hy) e1).2 u (hz u hu) e2) h hwz
        all_goals simp [pyEq] at hwz
    all_goals simp [pyEq] at h
  | hlist l ih =>
    intro w hv hw h
    cases w
    case list b =>
      simp only [pyEq] at h
      simp only [wf] at hv hw; rw [wfL_iff] at hv hw
      refine ⟨?_, ?_⟩
      · simp only [pyEq]
        exact eqList_symm l b (fun x hx y hy e => (ih x hx y (hv x hx) (hw y hy) e).1) h
      · intro z hz hwz
        cases z
        case list c =>
          simp only [pyEq] at hwz ⊢
          simp only [wf] at hz; rw [wfL_iff] at hz
          exact eqList_trans l b c
            (fun x hx y hy u hu e1 e2 => (ih x hx y (hv x hx) (hw y hy) e1).2 u (hz u hu) e2) h hwz
        all_goals simp [pyEq] at hwz
    all_goals simp [pyEq] at h
  | hset l ih => exact ST_setlike (a := l) rfl ih
  | hfrozenset l ih => exact ST_setlike (a := l) rfl ih
  | hdict d ih =>
    intro w hv hw h
    cases w
    case dict b =>
      have e0 : ∀ x y : PyDict, pyEq (.dict x) (.dict y) = dictEq x y := by intro x y; simp [pyEq, dictEq]
      rw [e0] at h
      simp only [wf, Bool.and_eq_true] at hv hw
      have hva := (wfKV_iff d).mp hv.1
      have hvb := (wfKV_iff b).mp hw.1
      have hna : (keysOf d).Nodup := (nodupKeys_iff _).mp hv.2
      have hnb : (keysOf b).Nodup := (nodupKeys_iff _).mp hw.2
      refine ⟨?_, ?_⟩
      · rw [e0]
        exact dictEq_symm d b hna hnb
          (fun kv hkv kw hkw e => (ih kv hkv kw.2 (hva kv hkv) (hvb kw hkw) e).1) h
      · intro z hz hwz
        cases z
        case dict c =>
          rw [e0] at hwz ⊢
          simp only [wf, Bool.and_eq_true] at hz
          have hvc := (wfKV_iff c).mp hz.1
          exact dictEq_trans d b c
            (fun kv hkv kw hkw ku hku e1 e2 => (ih kv hkv kw.2 (hva kv hkv) (hvb kw hkw) e1).2 ku.2 (hvc ku hku) e2)
            h hwz
        all_goals simp [pyEq] at hwz
    all_goals simp [pyEq] at h

theorem pyEq_symm {v w : PyVal} (hv : wf v = true) (hw : wf w = true) (h : pyEq v w = true) : pyEq w v = true :=
  (ST_all v w hv hw h).1

theorem pyEq_trans {v w z : PyVal} (hv : wf v = true) (hw : wf w = true) (hz : wf z = true)
    (h1 : pyEq v w = true) (h2 : pyEq w z = true) : pyEq v z = true :=
  (ST_all v w hv hw h1).2 z hz h2

/-- reflexivity (`x == x`) on well-formed values -/
theorem pyEq_refl : ∀ v, wf v = true → pyEq v v = true := by
  intro v
  induction v using PyVal.induct with
  | hbool b => intro _; simp [pyEq, numOf, numEq]
  | hint i => intro _; simp [pyEq, numOf, numEq]
  | hfloat m e => intro _; simp [pyEq, numOf, numEq]
  | htuple l ih =>
    intro h
    simp only [wf] at h; rw [wfL_iff] at h
    simp only [pyEq]
    induction l with
    | nil => simp [eqList]
    | cons x xs ihl =>
      simp only [eqList, Bool.and_eq_true]
      exact ⟨ih x (by simp) (h x (by simp)), ihl (fun y hy => ih y (by simp [hy])) (fun y hy => h y (by simp [hy]))⟩
  | hlist l ih =>
    intro h
    simp only [wf] at h; rw [wfL_iff] at h
    simp only [pyEq]
    induction l with
    | nil => simp [eqList]
    | cons x xs ihl =>
      simp only [eqList, Bool.and_eq_true]
      exact ⟨ih x (by simp) (h x (by simp)), ihl (fun y hy => ih y (by simp [hy])) (fun y hy => h y (by simp [hy]))⟩
  | hset l ih =>
    intro h
    simp only [wf, Bool.and_eq_true] at h
    have hw := (wfL_iff l).mp h.1.1
    simp only [pyEq, beq_self_eq_true, Bool.true_and, PyVal.allMem_iff]
    exact fun x hx => ⟨x, hx, ih x hx (hw x hx)⟩
  | hfrozenset l ih =>
    intro h
    simp only [wf, Bool.and_eq_true] at h
    have hw := (wfL_iff l).mp h.1.1
    simp only [pyEq, beq_self_eq_true, Bool.true_and, PyVal.allMem_iff]
    exact fun x hx => ⟨x, hx, ih x hx (hw x hx)⟩
  | hdict d ih =>
    intro h
    simp only [wf, Bool.and_eq_true] at h
    have hw := (wfKV_iff d).mp h.1
    have hn : (keysOf d).Nodup := (nodupKeys_iff _).mp h.2
    simp only [pyEq, beq_self_eq_true, Bool.true_and, PyVal.allLookup_iff]
    rintro ⟨k, v⟩ hkv
    exact ⟨v, lookup_some_of_mem hn hkv, ih (k, v) hkv (hw (k, v) hkv)⟩
  | _ => intro _; simp [pyEq]

end OptEquiv
