import MlodaVerif.Lemmas.LifeDict
import MlodaVerif.Lemmas.CfwGen
import MlodaVerif.Gen.LifecycleGen
/-! # Bridge between the translation of the data-lifecycle code (`Gen/LifecycleGen.lean`) and `Model/Lifecycle.lean`

The abstraction `abs…` maps the Python-side values of the translation (objects `CfwObj` with a three-valued `data`, the queue
heap, the dict fields) to the model's state `Life.LS`.  It goes FROM the Python side TO the model, so the bridging theorems of
`Props/C09_gen2.lean` hold for every Python state; the only thing it forgets is the content of `object_ids` (the model keeps
its length).  Also here: the dict primitives of `PyRtDict` / `PyRtObj` against `Life.dget` / `dset`, and generic loop lemmas. -/
namespace LifeGen
open Life Store PyRt Gen.LifecycleGen

/-- closed examples / witnesses are decided by evaluation -/
scoped instance instDecEqExcept {ε α : Type} [DecidableEq ε] [DecidableEq α] : DecidableEq (Except ε α) := fun a b =>
  match a, b with
  | .ok x, .ok y => if h : x = y then isTrue (by rw [h]) else isFalse (fun e => h (Except.ok.inj e))
  | .error x, .error y => if h : x = y then isTrue (by rw [h]) else isFalse (fun e => h (Except.error.inj e))
  | .ok _, .error _ => isFalse (by intro e; cases e)
  | .error _, .ok _ => isFalse (by intro e; cases e)

/-! ### objects -/

/-- what `Store.Cfw` keeps of a compute-framework object -/
def absCfw (c : Cfw.CfwObj) : Store.Cfw :=
  { children := c.children_if_root, tracker := c.already_calculated_children_tracker,
    dataKey := match c.data with | .key k => some k | _ => none, objectIds := c.object_ids.length }

/-- `data` is an in-memory table -/
def isTable (c : Cfw.CfwObj) : Bool := match c.data with | .table => true | _ => false

/-- the model's view of an object; `q`: the drop commands in its worker's command queue, if it has a worker -/
def absObj (q : Option (List (List Nat))) (c : Cfw.CfwObj) : Life.Obj := { cfw := absCfw c, table := isTable c, queue := q }

/-- `self.data = None` -/
def dataNone (c : Cfw.CfwObj) : Cfw.CfwObj := { c with data := .none }

/-- `self.already_calculated_children_tracker.update(F)` -/
def tracked (c : Cfw.CfwObj) (F : List Nat) : Cfw.CfwObj :=
  { c with already_calculated_children_tracker := PSet.update c.already_calculated_children_tracker F }

/-- truthiness of `location` -/
def locSet (loc : Option Nat) : Bool := Option.any (fun v => strTruthy v) loc

theorem absObj_dataNone (q : Option (List (List Nat))) (c : Cfw.CfwObj) : absObj q (dataNone c) = cleared (absObj q c) := by
  simp [absObj, dataNone, cleared, absCfw, isTable]

theorem hasData_absObj (q : Option (List (List Nat))) (c : Cfw.CfwObj) : hasData (absObj q c) = !(PData.isNone c.data) := by
  cases h : c.data <;> simp [hasData, absObj, absCfw, isTable, h, PData.isNone]

/-! ### errors -/

def toExc : Life.Err → PyExc
  | .keyError => .keyError
  | .noResults => .valueError "No results found"
  | .notImplemented | .notFound | .badData => .exception "get_result_data raised"
  | .noObject => .valueError "get_cfw: no object"
  | .duplicateUuid => .valueError "UUID {} already exists in compute_frameworks"
  | .noLocation => .valueError "Location is not set. This should not happen."

/-! ### dicts -/
section dict
variable {V W : Type}

theorem get?_eq (d : List (Nat × V)) (k : Nat) : NDict.get? d k = Life.dget d k := by
  induction d with
  | nil => rfl
  | cons a t ih =>
    obtain ⟨k', v'⟩ := a
    by_cases h : k' = k <;> simp [NDict.get?, Life.dget, ih, h]

theorem set_eq (d : List (Nat × V)) (k : Nat) (v : V) : NDict.set d k v = Life.dset d k v := by
  induction d with
  | nil => rfl
  | cons a t ih =>
    obtain ⟨k', v'⟩ := a
    by_cases h : k' = k <;> simp [NDict.set, Life.dset, ih, h]

theorem getItem_eq (d : List (Nat × V)) (k : Nat) :
    NDict.getItem d k = match Life.dget d k with | some v => .ok v | none => .error .keyError := by
  unfold NDict.getItem; rw [get?_eq]; cases Life.dget d k <;> rfl

theorem has_eq (d : List (Nat × V)) (k : Nat) : NDict.has d k = (Life.dget d k).isSome := by
  simp [NDict.has, get?_eq]

theorem keys_eq (d : List (Nat × V)) : NDict.keys d = Life.dkeys d := rfl

/-- mapping the values (the function may look at the key) commutes with `dget` -/
theorem dget_mapk (d : List (Nat × V)) (f : Nat → V → W) (k : Nat) :
    Life.dget (d.map (fun p => (p.1, f p.1 p.2))) k = (Life.dget d k).map (f k) := by
  induction d with
  | nil => rfl
  | cons a t ih =>
    obtain ⟨k', v'⟩ := a
    by_cases h : k' = k
    · subst h; simp [Life.dget]
    · simp [Life.dget, h, ih]

theorem dset_mapk (d : List (Nat × V)) (f : Nat → V → W) (k : Nat) (v : V) :
    Life.dset (d.map (fun p => (p.1, f p.1 p.2))) k (f k v) = (Life.dset d k v).map (fun p => (p.1, f p.1 p.2)) := by
  induction d with
  | nil => rfl
  | cons a t ih =>
    obtain ⟨k', v'⟩ := a
    by_cases h : k' = k
    · subst h; simp [Life.dset]
    · simp [Life.dset, h, ih]

theorem dkeys_mapk (d : List (Nat × V)) (f : Nat → V → W) : Life.dkeys (d.map (fun p => (p.1, f p.1 p.2))) = Life.dkeys d := by
  simp [Life.dkeys, List.map_map, Function.comp_def]

/-- `del d[k]` on a dict (distinct keys) whose key `k` is present removes exactly that entry -/
theorem delItem_eq (d : List (Nat × V)) (k : Nat) (hk : k ∈ Life.dkeys d) (hn : (Life.dkeys d).Nodup) :
    NDict.delItem d k = .ok (d.filter (fun p => decide (p.1 ≠ k))) := by
  induction d with
  | nil => simp [Life.dkeys] at hk
  | cons a t ih =>
    obtain ⟨k', v'⟩ := a
    simp only [Life.dkeys, List.map_cons, List.nodup_cons, List.mem_cons] at hk hn
    by_cases h : k' = k
    · subst h
      have : t.filter (fun p => decide (p.1 ≠ k')) = t := by
        apply List.filter_eq_self.2
        intro p hp
        have : p.1 ∈ t.map (·.1) := List.mem_map.2 ⟨p, hp, rfl⟩
        simp only [decide_eq_true_eq]
        intro e; exact hn.1 (e ▸ this)
      simp only [ne_eq, decide_not] at this
      simp [NDict.delItem, this]
    · have hk' : k ∈ Life.dkeys t := by
        rcases hk with hk | hk
        · exact absurd hk.symm h
        · exact hk
      simp [NDict.delItem, h, ih hk' hn.2, Except.map]

theorem delItem_missing (d : List (Nat × V)) (k : Nat) (hk : k ∉ Life.dkeys d) : NDict.delItem d k = .error .keyError := by
  induction d with
  | nil => rfl
  | cons a t ih =>
    obtain ⟨k', v'⟩ := a
    simp only [Life.dkeys, List.map_cons, List.mem_cons, not_or] at hk
    have h : ¬ k' = k := fun e => hk.1 e.symm
    simp [NDict.delItem, h, ih hk.2, Except.map]

end dict

/-! ### sets -/

theorem mem_add (s : PSet) (x y : Nat) : y ∈ PSet.add s x ↔ y ∈ s ∨ y = x := by
  unfold PSet.add
  split
  · rename_i h
    constructor
    · exact Or.inl
    · rintro (h' | h')
      · exact h'
      · exact h' ▸ h
  · simp

theorem nodup_add (s : PSet) (x : Nat) (h : s.Nodup) : (PSet.add s x).Nodup := by
  unfold PSet.add
  split
  · exact h
  · rename_i hx
    exact List.nodup_append.2 ⟨h, by simp, by intro a ha b hb; simp at hb; subst hb; intro e; exact hx (e ▸ ha)⟩

theorem mem_ofList_aux (l : List Nat) (acc : PSet) (y : Nat) : y ∈ l.foldl PSet.add acc ↔ y ∈ acc ∨ y ∈ l := by
  induction l generalizing acc with
  | nil => simp
  | cons a t ih => simp [ih, mem_add, or_assoc, or_comm (a := y = a)]

theorem mem_ofList (l : List Nat) (y : Nat) : y ∈ PSet.ofList l ↔ y ∈ l := by
  simp [PSet.ofList, mem_ofList_aux]

theorem rm_some (store : List Nat) (k : Nat) : rm store (some k) = store.filter (fun x => decide (x ∉ [k])) := by
  simp [rm]

/-! ### loops -/

/-- a `for` loop whose body only goes on (with a new state) or raises is the monadic fold of the state update -/
theorem forIn_foldlM {α σ ε : Type} (l : List α) (init : σ) (f : α → σ → Except ε (ForInStep σ)) (g : σ → α → Except ε σ)
    (h : ∀ a s, f a s = match g s a with | .ok s' => .ok (.yield s') | .error e => .error e) :
    forIn l init f = l.foldlM g init := by
  induction l generalizing init with
  | nil => rfl
  | cons a t ih =>
    simp only [List.forIn_cons, List.foldlM_cons, bind, Except.bind, h]
    cases g init a with
    | error e => rfl
    | ok s' => exact ih s'

end LifeGen

namespace LifeGen
open Life Store PyRt Gen.LifecycleGen

/-! ### the tracker and `drop_last_data` -/

theorem drop_last_data_eq (c : Cfw.CfwObj) (loc : Option Nat) (store : PSet) :
    Cfw.drop_last_data c loc store = .ok (rm store (if locSet loc then (absCfw c).dataKey else none), dataNone c) := by
  unfold Cfw.drop_last_data Cfw.drop_data FlightStore.dropTables
  cases hd : c.data <;> cases hl : locSet loc <;>
    simp [locSet] at hl <;>
    simp [hd, hl, PData.isStr, PData.keySet, absCfw, dataNone, rm, bind, Except.bind, pure, Except.pure]

/-- the subset test of the tracker on the Python values -/
def dropsNow (c : Cfw.CfwObj) (F : List Nat) : Bool :=
  PSet.issubset c.children_if_root (PSet.update c.already_calculated_children_tracker F)

theorem report_absCfw (c : Cfw.CfwObj) (F : List Nat) :
    report (absCfw c) F =
      if dropsNow c F then (absCfw (dataNone (tracked c F)), .dropped (absCfw c).dataKey)
      else if c.object_ids.length > 0 then (absCfw (tracked c F), .pending) else (absCfw (tracked c F), .no) := rfl

theorem tracker_unfold (c : Cfw.CfwObj) (F : List Nat) (loc : Option Nat) (store : PSet) :
    Cfw.add_already_calculated_children_and_drop_if_possible c F loc store =
      if dropsNow c F then .ok (.bool true, rm store (if locSet loc then (absCfw c).dataKey else none), dataNone (tracked c F))
      else if c.object_ids.length > 0 then .ok (.set c.children_if_root, store, tracked c F)
      else .ok (.bool false, store, tracked c F) := by
  unfold Cfw.add_already_calculated_children_and_drop_if_possible
  simp only [drop_last_data_eq, bind, Except.bind, pure, Except.pure]
  split
  · rename_i h
    have h' : dropsNow c F = true := h
    rw [if_pos h']; rfl
  · rename_i h
    have h' : ¬ dropsNow c F = true := h
    rw [if_neg h']
    split
    · rename_i h2; simp only [decide_eq_true_eq] at h2; rw [if_pos h2]; rfl
    · rename_i h2; simp only [decide_eq_true_eq] at h2; rw [if_neg h2]; rfl

/-! ### `drop_cfw_data` and the loop of `drop_data_for_finished_cfws` -/

theorem drop_cfw_data_eq (self : Dlm.Dlm) (u : Nat) (coll : NDict Cfw.CfwObj) (loc : Option Nat) (store : PSet) :
    Dlm.drop_cfw_data self u coll loc store =
      match Life.dget coll u with
      | none => .error .keyError
      | some c => .ok (Life.dset coll u (dataNone c), rm store (if locSet loc then (absCfw c).dataKey else none)) := by
  unfold Dlm.drop_cfw_data
  simp only [getItem_eq, set_eq, drop_last_data_eq, bind, Except.bind, pure, Except.pure]
  cases Life.dget coll u with
  | none => rfl
  | some c =>
    cases hl : locSet loc
    · have : Option.any (fun v => strTruthy v) loc = false := hl
      simp [this, locSet, rm]
    · have : Option.any (fun v => strTruthy v) loc = true := hl
      simp [this]

end LifeGen
