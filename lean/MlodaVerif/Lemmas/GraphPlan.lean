import MlodaVerif.Lemmas.GraphTop
import MlodaVerif.Lemmas.SchedOrder
/-! Bridge between the graph model's paths (`Graph.Reach`, along the child lists) and the scheduler lemmas' ancestor relation
(`Sched.Anc`, along the direct-parent lists). -/
namespace Graph
open Sched

/-- when `parents` is the exact reverse of `ch`, an edge path `a → … → f` makes `a` an ancestor of `f` -/
theorem anc_of_reach {ch parents : Nat → List Nat} (hex : ∀ c p, p ∈ parents c ↔ c ∈ ch p) {a f : Nat}
    (h : Reach ch a f) : Anc parents a f := by
  have head : ∀ {a m f : Nat}, a ∈ parents m → Anc parents m f → Anc parents a f := by
    intro a m f ha hm
    induction hm with
    | direct hmf => exact .trans hmf (.direct ha)
    | trans hmf _ ih => exact .trans hmf ih
  induction h with
  | edge h => exact .direct ((hex _ _).mpr h)
  | head h _ ih => exact head ((hex _ _).mpr h) ih

end Graph
