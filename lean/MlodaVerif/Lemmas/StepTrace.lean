/-! # Schedules up to commutation of independent agents (generic; used by C06 `steps`)

Agents are natural numbers, `act s i` lets agent i perform its next action.  If actions of independent agents commute, two
schedules whose restrictions to every *dependent* pair of agents coincide lead to the same state (the projection
characterisation of Mazurkiewicz traces; proved here directly by moving the head agent of one schedule to the front of the
other). -/
namespace StepTrace

variable {S : Type}

def run (act : S → Nat → S) (s : S) (l : List Nat) : S := l.foldl act s

/-- the schedule restricted to the agents i and j -/
def proj (l : List Nat) (i j : Nat) : List Nat := l.filter (fun k => decide (k = i) || decide (k = j))

theorem proj_nil (i j : Nat) : proj [] i j = [] := rfl

theorem proj_append (l₁ l₂ : List Nat) (i j : Nat) : proj (l₁ ++ l₂) i j = proj l₁ i j ++ proj l₂ i j := by
  simp [proj]

theorem proj_cons_self_left (x : Nat) (l : List Nat) (j : Nat) : proj (x :: l) x j = x :: proj l x j := by
  simp [proj]

theorem proj_cons_self_right (x : Nat) (l : List Nat) (i : Nat) : proj (x :: l) i x = x :: proj l i x := by
  simp [proj]

theorem proj_cons_ne (x : Nat) (l : List Nat) (i j : Nat) (hi : x ≠ i) (hj : x ≠ j) : proj (x :: l) i j = proj l i j := by
  simp [proj, hi, hj]

theorem proj_eq_nil_of_not_mem (l : List Nat) (i j : Nat) (hi : i ∉ l) (hj : j ∉ l) : proj l i j = [] := by
  simp only [proj, List.filter_eq_nil_iff]
  intro k hk
  have h1 : k ≠ i := fun h => hi (h ▸ hk)
  have h2 : k ≠ j := fun h => hj (h ▸ hk)
  simp [h1, h2]

theorem mem_of_mem_proj {l : List Nat} {i j k : Nat} (h : k ∈ proj l i j) : k ∈ l := (List.mem_filter.mp h).1

theorem mem_proj_left {l : List Nat} {i : Nat} (j : Nat) (h : i ∈ l) : i ∈ proj l i j := by
  simp [proj, h]

theorem mem_proj_right {l : List Nat} {j : Nat} (i : Nat) (h : j ∈ l) : j ∈ proj l i j := by
  simp [proj, h]

/-- first element of a projection of a list not containing x is not x -/
theorem head_proj_ne {l : List Nat} {x y : Nat} (hx : x ∉ l) (i j : Nat) (h : (proj l i j).head? = some y) : y ≠ x := by
  intro hyx
  have : y ∈ proj l i j := List.mem_of_mem_head? h
  exact hx (hyx ▸ mem_of_mem_proj this)

variable (act : S → Nat → S) (dep : Nat → Nat → Bool)

/-- actions of independent agents commute -/
def Commutes : Prop := ∀ s i j, dep i j = false → act (act s i) j = act (act s j) i

theorem run_append (s : S) (l₁ l₂ : List Nat) : run act s (l₁ ++ l₂) = run act (run act s l₁) l₂ := by
  simp [run, List.foldl_append]

theorem run_cons (s : S) (x : Nat) (l : List Nat) : run act s (x :: l) = run act (act s x) l := rfl

variable {act dep}

/-- an agent independent of everything in `pre` can be moved in front of it -/
theorem run_move_front (hc : Commutes act dep) (x : Nat) (pre : List Nat) (hind : ∀ y ∈ pre, dep y x = false) (s : S) :
    run act s (pre ++ [x]) = run act s (x :: pre) := by
  induction pre generalizing s with
  | nil => rfl
  | cons y ys ih =>
    have hy : dep y x = false := hind y (List.mem_cons_self ..)
    have ih' := ih (fun z hz => hind z (List.mem_cons_of_mem _ hz)) (act s y)
    simp only [List.cons_append, run_cons] at ih' ⊢
    rw [ih', hc s y x hy]

/-- **schedules with the same projections on every dependent pair give the same state** -/
theorem run_eq_of_proj (hc : Commutes act dep) (hrefl : ∀ i, dep i i = true) (hsymm : ∀ i j, dep i j = dep j i) :
    ∀ (l₁ l₂ : List Nat), (∀ i j, dep i j = true → proj l₁ i j = proj l₂ i j) → ∀ s : S, run act s l₁ = run act s l₂ := by
  intro l₁
  induction l₁ with
  | nil =>
    intro l₂ h s
    cases l₂ with
    | nil => rfl
    | cons y ys =>
      exfalso
      have := h y y (hrefl y)
      simp [proj] at this
  | cons x l₁ ih =>
    intro l₂ h s
    -- x occurs in l₂
    have hx : x ∈ l₂ := by
      have h1 := h x x (hrefl x)
      rw [proj_cons_self_left] at h1
      have : x ∈ proj l₂ x x := by rw [← h1]; exact List.mem_cons_self ..
      exact mem_of_mem_proj this
    -- split l₂ at the first occurrence of x
    obtain ⟨pre, post, hsplit, hpre⟩ : ∃ pre post, l₂ = pre ++ x :: post ∧ x ∉ pre := by
      clear h ih
      induction l₂ with
      | nil => exact absurd hx List.not_mem_nil
      | cons y ys ihy =>
        by_cases hyx : y = x
        · exact ⟨[], ys, by simp [hyx], List.not_mem_nil⟩
        · have : x ∈ ys := by
            rcases List.mem_cons.mp hx with h | h
            · exact absurd h.symm hyx
            · exact h
          obtain ⟨pre, post, h1, h2⟩ := ihy this
          refine ⟨y :: pre, post, by simp [h1], ?_⟩
          intro hm
          rcases List.mem_cons.mp hm with h | h
          · exact hyx h.symm
          · exact h2 h
    subst hsplit
    -- everything before x in l₂ is independent of x
    have hind : ∀ y ∈ pre, dep y x = false := by
      intro y hy
      cases hd : dep y x with
      | false => rfl
      | true =>
        exfalso
        have hyx : y ≠ x := fun e => hpre (e ▸ hy)
        have h1 := h x y (by rw [hsymm]; exact hd)
        rw [proj_cons_self_left, proj_append] at h1
        have hmem : y ∈ proj pre x y := mem_proj_right x hy
        cases hp : proj pre x y with
        | nil => rw [hp] at hmem; exact absurd hmem List.not_mem_nil
        | cons z zs =>
          rw [hp] at h1
          simp only [List.cons_append, List.cons.injEq] at h1
          have hz : z ∈ proj pre x y := by rw [hp]; exact List.mem_cons_self ..
          exact hpre (h1.1 ▸ mem_of_mem_proj hz)
    -- move x to the front of l₂
    have hmove : run act s (pre ++ x :: post) = run act s (x :: (pre ++ post)) := by
      have : pre ++ x :: post = (pre ++ [x]) ++ post := by simp
      rw [this, run_append, run_move_front hc x pre hind s]
      simp [run_cons, run_append]
    rw [hmove, run_cons, run_cons]
    apply ih
    intro i j hd
    have h1 := h i j hd
    by_cases hxi : x = i
    · subst hxi
      rw [proj_cons_self_left, proj_append, proj_cons_self_left] at h1
      -- nothing of the pair {x, j} occurs in pre
      have hpn : proj pre x j = [] := by
        by_cases hjx : j = x
        · subst hjx; exact proj_eq_nil_of_not_mem pre _ _ hpre hpre
        · apply proj_eq_nil_of_not_mem pre x j hpre
          intro hj
          have := hind j hj
          rw [hsymm] at this
          rw [this] at hd
          exact Bool.noConfusion hd
      rw [hpn, List.nil_append, List.cons.injEq] at h1
      rw [proj_append, hpn, List.nil_append]
      exact h1.2
    · by_cases hxj : x = j
      · subst hxj
        rw [proj_cons_self_right, proj_append, proj_cons_self_right] at h1
        have hpn : proj pre i x = [] := by
          apply proj_eq_nil_of_not_mem pre i x _ hpre
          intro hi
          have := hind i hi
          rw [this] at hd
          exact Bool.noConfusion hd
        rw [hpn, List.nil_append, List.cons.injEq] at h1
        rw [proj_append, hpn, List.nil_append]
        exact h1.2
      · rw [proj_cons_ne x l₁ i j hxi hxj, proj_append, proj_cons_ne x post i j hxi hxj, ← proj_append] at h1
        exact h1

end StepTrace
