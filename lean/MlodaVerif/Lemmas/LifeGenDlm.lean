import MlodaVerif.Lemmas.LifeGen
/-! # Bridge lemmas for `DataLifecycleManager`: the Python world `PyW`, its abstraction `abs`, the two loops of `drop_data_for_finished_cfws` -/
namespace LifeGen
open Life Store PyRt Gen.LifecycleGen

/-- the Python values the orchestrator-side lifecycle functions work on -/
structure PyW where
  coll : NDict Cfw.CfwObj                       -- executor.cfw_collection
  dlm : Dlm.Dlm                                 -- data_lifecycle_manager
  flyway : NDict PSet := []                     -- cfw_register.uuid_flyway_datasets
  qf : Nat → Option (List (List Nat)) := fun _ => none   -- per object: the drop commands in its worker's command queue
  finished : PSet := []                         -- finished_ids
  store : PSet := []                            -- the flight store
  loc : Option Nat := none                      -- self.location
  yielded : List (Nat × Nat) := []              -- what pop_result_data_collection has yielded (ghost)

def absObjs (qf : Nat → Option (List (List Nat))) (coll : NDict Cfw.CfwObj) : List (Nat × Life.Obj) :=
  coll.map (fun p => (p.1, absObj (qf p.1) p.2))

/-- the model state of the Python values -/
def abs (w : PyW) : LS :=
  { objs := absObjs w.qf w.coll, track := w.dlm.track_data_to_drop, flyway := w.flyway, results := w.dlm.result_data_collection,
    yielded := w.yielded, finished := w.finished, store := w.store, loc := locSet w.loc }

/-- the model state after the object dict and the store changed -/
def absCS (w : PyW) (coll : NDict Cfw.CfwObj) (store : PSet) : LS := abs { w with coll := coll, store := store }

theorem absCS_self (w : PyW) : absCS w w.coll w.store = abs w := rfl

/-- `all(step_id in finished_ids for step_id in step_uuids)` -/
def allFin (fin ids : List Nat) : Bool := pyAll ids (fun step_id => PSet.has fin step_id)

theorem allFin_eq (fin ids : List Nat) : allFin fin ids = ids.all (fun i => decide (i ∈ fin)) := rfl

/-- one round of the first loop of `drop_data_for_finished_cfws` on `(cfw_collection, store, cfw_to_delete)` -/
def goStep (fin : List Nat) (loc : Option Nat) (st : NDict Cfw.CfwObj × PSet × PSet) (x : Nat × PSet) :
    Except PyExc (NDict Cfw.CfwObj × PSet × PSet) :=
  if allFin fin x.2 then
    match Life.dget st.1 x.1 with
    | none => .error .keyError
    | some c => .ok (Life.dset st.1 x.1 (dataNone c), rm st.2.1 (if locSet loc then (absCfw c).dataKey else none), PSet.add st.2.2 x.1)
  else .ok st

theorem absObjs_dget (qf : Nat → Option (List (List Nat))) (coll : NDict Cfw.CfwObj) (o : Nat) :
    Life.dget (absObjs qf coll) o = (Life.dget coll o).map (absObj (qf o)) := dget_mapk coll (fun k c => absObj (qf k) c) o

theorem absObjs_dset (qf : Nat → Option (List (List Nat))) (coll : NDict Cfw.CfwObj) (o : Nat) (c : Cfw.CfwObj) :
    Life.dset (absObjs qf coll) o (absObj (qf o) c) = absObjs qf (Life.dset coll o c) :=
  dset_mapk coll (fun k c => absObj (qf k) c) o c

/-- the fold of `goStep` is `Life.periodicGo` on the abstract state -/
theorem goStep_periodicGo (w : PyW) (fin : List Nat) : ∀ (t : List (Nat × PSet)) (coll : NDict Cfw.CfwObj) (store del : PSet),
    match t.foldlM (goStep fin w.loc) (coll, store, del) with
    | .error e => e = .keyError ∧ (periodicGo fin t (absCS w coll store)).2.2.2 = some .keyError
    | .ok r =>
      (periodicGo fin t (absCS w coll store)).2.2.2 = none ∧
      (periodicGo fin t (absCS w coll store)).1 = absCS w r.1 r.2.1 ∧
      ∀ x, x ∈ r.2.2 ↔ x ∈ del ∨ x ∈ (periodicGo fin t (absCS w coll store)).2.1 := by
  intro t
  induction t with
  | nil => intro coll store del; simp [periodicGo, pure, Except.pure]
  | cons a t ih =>
    intro coll store del
    obtain ⟨o, ids⟩ := a
    simp only [List.foldlM_cons, bind, Except.bind, goStep, periodicGo]
    rw [← allFin_eq]
    cases hb : allFin fin ids with
    | false => simp only [Bool.false_eq_true, if_false]; exact ih coll store del
    | true =>
      simp only [if_true]
      have hg : Life.dget (absCS w coll store).objs o = (Life.dget coll o).map (absObj (w.qf o)) := absObjs_dget _ _ _
      rw [hg]
      cases hc : Life.dget coll o with
      | none => simp
      | some c =>
        simp only [Option.map_some]
        have hst : ({ absCS w coll store with
              objs := Life.dset (absCS w coll store).objs o (cleared (absObj (w.qf o) c)),
              store := rm (absCS w coll store).store
                (if (absCS w coll store).loc = true then (absObj (w.qf o) c).cfw.dataKey else none) } : LS) =
            absCS w (Life.dset coll o (dataNone c)) (rm store (if locSet w.loc then (absCfw c).dataKey else none)) := by
          simp only [absCS, abs, ← absObj_dataNone, absObjs_dset]
          rfl
        rw [hst]
        have := ih (Life.dset coll o (dataNone c)) (rm store (if locSet w.loc then (absCfw c).dataKey else none)) (PSet.add del o)
        revert this
        cases t.foldlM (goStep fin w.loc) (Life.dset coll o (dataNone c), rm store (if locSet w.loc = true then (absCfw c).dataKey else none), PSet.add del o) with
        | error e => simp
        | ok r =>
          simp only
          rintro ⟨h1, h2, h3⟩
          refine ⟨h1, h2, ?_⟩
          intro x
          rw [h3, mem_add]
          simp only [List.mem_cons, or_assoc]
theorem delAll {V : Type} (del : List Nat) : ∀ (d : NDict V), (Life.dkeys d).Nodup → del.Nodup → (∀ x ∈ del, x ∈ Life.dkeys d) →
    del.foldlM (fun d u => NDict.delItem d u) d = .ok (d.filter (fun p => decide (p.1 ∉ del))) := by
  induction del with
  | nil => intro d _ _ _; simp [pure, Except.pure, List.filter_eq_self.2]
  | cons u t ih =>
    intro d hn hdn hsub
    simp only [List.foldlM_cons, bind, Except.bind]
    rw [delItem_eq d u (hsub u (by simp)) hn]
    simp only
    have hn' : (Life.dkeys (d.filter (fun p => decide (p.1 ≠ u)))).Nodup := by
      unfold Life.dkeys at hn ⊢
      exact List.Nodup.sublist (List.Sublist.map _ List.filter_sublist) hn
    have hsub' : ∀ x ∈ t, x ∈ Life.dkeys (d.filter (fun p => decide (p.1 ≠ u))) := by
      intro x hx
      have hxu : x ≠ u := by
        intro e; subst e; exact (List.nodup_cons.1 hdn).1 hx
      have := hsub x (by simp [hx])
      unfold Life.dkeys at this ⊢
      obtain ⟨p, hp, rfl⟩ := List.mem_map.1 this
      exact List.mem_map.2 ⟨p, List.mem_filter.2 ⟨hp, by simpa using hxu⟩, rfl⟩
    rw [ih _ hn' (List.nodup_cons.1 hdn).2 hsub']
    simp only [List.filter_filter]
    congr 1
    apply List.filter_congr
    intro p _
    simp only [List.mem_cons, not_or, ne_eq, decide_not, Bool.decide_and]
    cases decide (p.1 = u) <;> cases decide (p.1 ∈ t) <;> rfl

/-- a model result as the result of a translated function -/
def liftLS : LS × List DropRec × Option Err → Except PyExc LS
  | (s, _, none) => .ok s
  | (_, _, some e) => .error (toExc e)

theorem goStep_del (fin : List Nat) (loc : Option Nat) : ∀ (t : List (Nat × PSet)) (st r : NDict Cfw.CfwObj × PSet × PSet),
    t.foldlM (goStep fin loc) st = .ok r → st.2.2.Nodup → r.2.2.Nodup ∧ ∀ x ∈ r.2.2, x ∈ st.2.2 ∨ x ∈ t.map (·.1) := by
  intro t
  induction t with
  | nil => intro st r h hn; simp only [List.foldlM_nil, pure, Except.pure, Except.ok.injEq] at h; subst h; exact ⟨hn, fun x hx => .inl hx⟩
  | cons a t ih =>
    intro st r h hn
    simp only [List.foldlM_cons, bind, Except.bind] at h
    cases hg : goStep fin loc st a with
    | error e => simp [hg] at h
    | ok st' =>
      simp only [hg] at h
      have hst' : st'.2.2.Nodup ∧ ∀ x ∈ st'.2.2, x ∈ st.2.2 ∨ x = a.1 := by
        unfold goStep at hg
        split at hg
        · split at hg
          · cases hg
          · simp only [Except.ok.injEq] at hg; subst hg
            exact ⟨nodup_add _ _ hn, fun x hx => (mem_add _ _ _).1 hx⟩
        · simp only [Except.ok.injEq] at hg; subst hg; exact ⟨hn, fun x hx => .inl hx⟩
      obtain ⟨h1, h2⟩ := ih st' r h hst'.1
      refine ⟨h1, fun x hx => ?_⟩
      rcases h2 x hx with h | h
      · rcases hst'.2 x h with h | h
        · exact .inl h
        · exact .inr (by simp [h])
      · exact .inr (by simp [h])

/-- one round of the second loop of `drop_data_for_finished_cfws`: `del self.track_data_to_drop[u]` -/
def delStep (s : Dlm.Dlm) (u : Nat) : Except PyExc Dlm.Dlm :=
  match NDict.delItem s.track_data_to_drop u with
  | .error e => .error e
  | .ok v => .ok { s with track_data_to_drop := v }

theorem delLoop (del : List Nat) : ∀ (s : Dlm.Dlm),
    del.foldlM delStep s =
      match del.foldlM (fun d u => NDict.delItem d u) s.track_data_to_drop with
      | .error e => .error e
      | .ok v => .ok { s with track_data_to_drop := v } := by
  induction del with
  | nil => intro s; rfl
  | cons u t ih =>
    intro s
    simp only [List.foldlM_cons, bind, Except.bind, delStep]
    cases NDict.delItem s.track_data_to_drop u with
    | error e => rfl
    | ok v => simp only [ih]

open CfwGen
/-- one round of the translated `while` of `pop_result_data_collection` on `(self, yielded, looping)` -/
def popBody (st : Dlm.Dlm × List (Nat × Nat) × Bool) : Except PyExc (ForInStep (Dlm.Dlm × List (Nat × Nat) × Bool)) :=
  match st.1.result_data_collection.getLast? with
  | none => .ok (.done (st.1, st.2.1, false))
  | some p => .ok (.yield ({ st.1 with result_data_collection := st.1.result_data_collection.dropLast }, st.2.1 ++ [p], st.2.2))

/-- the fuel check after the loop -/
def popPost (r : Except PyExc (Dlm.Dlm × List (Nat × Nat) × Bool)) : Except PyExc (List (Nat × Nat) × Dlm.Dlm) :=
  match r with
  | .error e => .error e
  | .ok v => if v.2.2 = true then (if v.1.result_data_collection.isEmpty then .ok (v.2.1, v.1) else .error .fuel) else .ok (v.2.1, v.1)

theorem pop_unfold (self : Dlm.Dlm) (fuel : Nat) :
    Dlm.pop_result_data_collection self fuel = popPost (loopN popBody fuel (self, [], true)) := by
  unfold Dlm.pop_result_data_collection
  simp only [bind, Except.bind, pure, Except.pure, throw, throwThe, MonadExceptOf.throw]
  rw [forIn_range_eq_loopN, loopN_congr (g := popBody)]
  · generalize loopN popBody fuel (self, [], true) = r
    cases r with
    | error e => rfl
    | ok v =>
      simp only [popPost, NDict.truthy]
      obtain ⟨d, y, b⟩ := v
      cases b <;> cases h : d.result_data_collection <;> simp [h]
  · intro st
    simp only [popBody, NDict.truthy, NDict.popitem]
    cases h : st.1.result_data_collection with
    | nil => simp
    | cons a t =>
      have : (a :: t).getLast? = some ((a :: t).getLast (by simp)) := List.getLast?_eq_some_getLast (by simp)
      simp [this]

theorem popLoop (n : Nat) : ∀ (d : Dlm.Dlm) (y : List (Nat × Nat)),
    popPost (loopN popBody n (d, y, true)) =
      if d.result_data_collection.length ≤ n then .ok (y ++ d.result_data_collection.reverse, { d with result_data_collection := [] })
      else .error .fuel := by
  induction n with
  | zero =>
    intro d y
    cases h : d.result_data_collection with
    | nil => cases d; simp_all [loopN, popPost]
    | cons a t => simp [loopN, popPost, h]
  | succ n ih =>
    intro d y
    cases h : d.result_data_collection with
    | nil => cases d; simp_all [loopN, popBody, popPost]
    | cons a t =>
      have hl : (a :: t).getLast? = some ((a :: t).getLast (by simp)) := List.getLast?_eq_some_getLast (by simp)
      simp only [loopN, popBody, h, hl]
      rw [ih]
      have hlen : (a :: t).dropLast.length = t.length := by simp
      have hrev : (a :: t).reverse = (a :: t).getLast (by simp) :: (a :: t).dropLast.reverse := by
        conv => lhs; rw [← List.dropLast_concat_getLast (l := a :: t) (by simp)]
        simp
      simp only [hlen, List.length_cons, Nat.add_le_add_iff_right, hrev, List.append_assoc, List.singleton_append]

end LifeGen
