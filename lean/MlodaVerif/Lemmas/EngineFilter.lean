import MlodaVerif.Lemmas.EngineBasic
/-! # What a matched filter feature carries (`GlobalFilter.unify_options`, `domain`, `compute_framework`) -/
namespace EngineColl

theorem oget_oset (o : Opts) (k v k' : Nat) : oget (oset o k v) k' = if k = k' then some v else oget o k' := by
  induction o with
  | nil => simp only [oset, oget]
  | cons e o ih =>
    obtain ⟨a, b⟩ := e
    unfold oset
    by_cases h1 : k < a
    · simp only [h1, if_true]
      by_cases hk : k = k'
      · simp [oget, hk]
      · simp only [oget, hk, if_false]
    · simp only [h1, if_false]
      by_cases h2 : k = a
      · simp only [h2, if_true]
        subst h2
        by_cases hk : k = k'
        · simp [oget, hk]
        · simp only [oget, hk, if_false]
      · simp only [h2, if_false]
        by_cases hk : k = k'
        · subst hk
          have : ¬ a = k := fun h => h2 h.symm
          simp only [oget, this, if_false, ih, if_true]
        · simp only [oget, ih, hk, if_false]

theorem ohas_oset (o : Opts) (k v k' : Nat) : ohas (oset o k v) k' = (decide (k = k') || ohas o k') := by
  unfold ohas
  rw [oget_oset]
  by_cases hk : k = k' <;> simp [hk]

theorem ohas_of_oget {o : Opts} {k v : Nat} (h : oget o k = some v) : ohas o k = true := by
  unfold ohas; rw [h]; rfl

theorem ohas_iff_mem {o : Opts} {k : Nat} : ohas o k = true ↔ ∃ v, (k, v) ∈ o := by
  induction o with
  | nil => simp [ohas, oget]
  | cons e o ih =>
    obtain ⟨a, b⟩ := e
    by_cases ha : a = k
    · subst ha
      simp only [ohas, oget, if_true, Option.isSome_some, List.mem_cons, Prod.mk.injEq, true_and, true_iff]
      exact ⟨b, Or.inl rfl⟩
    · have : ohas ((a, b) :: o) k = ohas o k := by simp only [ohas, oget, ha, if_false]
      rw [this, ih]
      constructor
      · intro ⟨v, hv⟩; exact ⟨v, List.mem_cons_of_mem _ hv⟩
      · intro ⟨v, hv⟩
        rw [List.mem_cons] at hv
        rcases hv with hv | hv
        · simp only [Prod.mk.injEq] at hv; exact absurd hv.1.symm ha
        · exact ⟨v, hv⟩

/-- keys that are already there keep their value -/
theorem fillIn_keep (other : Opts) : ∀ (src acc : Opts) (k v : Nat), oget acc k = some v → oget (fillIn other src acc) k = some v := by
  intro src
  induction src with
  | nil => intro acc k v h; exact h
  | cons e src ih =>
    intro acc k v h
    unfold fillIn
    simp only [List.foldl_cons]
    apply ih
    split
    · exact h
    · rename_i hc
      rw [oget_oset]
      by_cases hk : e.1 = k
      · exfalso
        apply hc
        rw [hk, ohas_of_oget h]; rfl
      · simp only [hk, if_false]; exact h

/-- a key of the result was there before or comes from `src` -/
theorem fillIn_has (other : Opts) : ∀ (src acc : Opts) (k : Nat), ohas (fillIn other src acc) k = true →
    ohas acc k = true ∨ ohas src k = true := by
  intro src
  induction src with
  | nil => intro acc k h; exact Or.inl h
  | cons e src ih =>
    intro acc k h
    unfold fillIn at h
    simp only [List.foldl_cons] at h
    have := ih _ k h
    rcases this with h1 | h1
    · split at h1
      · exact Or.inl h1
      · rw [ohas_oset] at h1
        simp only [Bool.or_eq_true, decide_eq_true_eq] at h1
        rcases h1 with h1 | h1
        · right
          rw [ohas_iff_mem]
          exact ⟨e.2, by rw [← h1]; exact List.mem_cons_self⟩
        · exact Or.inl h1
    · right
      rw [ohas_iff_mem] at h1 ⊢
      obtain ⟨v, hv⟩ := h1
      exact ⟨v, List.mem_cons_of_mem _ hv⟩

/-- an item of `src` whose key is neither in the dictionary being filled nor in the other one is taken over -/
theorem fillIn_add (other : Opts) : ∀ (src acc : Opts) (k v : Nat), oget src k = some v → ohas acc k = false → ohas other k = false →
    oget (fillIn other src acc) k = some v := by
  intro src
  induction src with
  | nil => intro acc k v h; simp [oget] at h
  | cons e src ih =>
    intro acc k v h hacc hoth
    obtain ⟨a, b⟩ := e
    unfold fillIn
    simp only [List.foldl_cons]
    by_cases ha : a = k
    · subst ha
      simp only [oget, if_true, Option.some.injEq] at h
      subst h
      simp only [hacc, hoth, Bool.or_self, Bool.false_eq_true, if_false]
      apply fillIn_keep
      rw [oget_oset]; simp
    · simp only [oget, ha, if_false] at h
      apply ih _ k v h _ hoth
      split
      · exact hacc
      · rw [ohas_oset, hacc]; simp [ha]

theorem matchFilter_shape {w : World} {g : Nat} {f : Key} {flt m : Filt} (h : matchFilter w g f flt = .ok (some m)) :
    m.key.grp = (unify f.grp f.ctx flt.key.grp flt.key.ctx).1 ∧ m.key.ctx = (unify f.grp f.ctx flt.key.grp flt.key.ctx).2 ∧
    filterDomain flt.key.dom f.dom (w.groupDom g) = .ok (true, m.key.dom) ∧ filterCfw w flt.key.cfw f.cfw = (true, m.key.cfw) := by
  unfold matchFilter at h
  simp only at h
  split at h
  · simp at h
  · split at h
    · simp at h
    · simp at h
    · rename_i d hd
      split at h
      · simp at h
      · rename_i c hc
        simp only [Except.ok.injEq, Option.some.injEq] at h
        subst h
        exact ⟨rfl, rfl, hd, hc⟩

theorem matchFilter_options {w : World} {g : Nat} {f : Key} {flt m : Filt} (hm : matchFilter w g f flt = .ok (some m))
    (hdis : ∀ k, ohas f.grp k = true → ohas f.ctx k = false) :
    m.key.name = flt.key.name ∧ m.key.dtype = flt.key.dtype ∧ m.tp = flt.tp ∧ m.key.child = flt.key.child ∧
    (∀ k, ohas f.ctx k = true → ohas flt.key.grp k = false → ohas m.key.grp k = false) ∧
    (∀ k v, oget f.ctx k = some v → ohas flt.key.grp k = false → ohas flt.key.ctx k = false → oget m.key.ctx k = some v) ∧
    (∀ k v, oget f.grp k = some v → ohas flt.key.grp k = false → ohas flt.key.ctx k = false → oget m.key.grp k = some v) ∧
    (∀ k v, oget flt.key.grp k = some v → oget m.key.grp k = some v) ∧
    (∀ k v, oget flt.key.ctx k = some v → oget m.key.ctx k = some v) := by
  obtain ⟨hg, hc, _, _⟩ := matchFilter_shape hm
  have hfields : m.key.name = flt.key.name ∧ m.key.dtype = flt.key.dtype ∧ m.tp = flt.tp ∧ m.key.child = flt.key.child := by
    unfold matchFilter at hm
    simp only at hm
    split at hm
    · simp at hm
    · split at hm
      · simp at hm
      · simp at hm
      · split at hm
        · simp at hm
        · simp only [Except.ok.injEq, Option.some.injEq] at hm
          subst hm
          exact ⟨rfl, rfl, rfl, rfl⟩
  unfold unify at hg hc
  simp only at hg hc
  -- a context key of the feature is never a key of the filter feature's group
  have hnog : ∀ k, ohas f.ctx k = true → ohas flt.key.grp k = false → ohas m.key.grp k = false := by
    intro k hk hfl
    cases hh : ohas m.key.grp k with
    | false => rfl
    | true =>
      rw [hg] at hh
      rcases fillIn_has _ _ _ _ hh with h1 | h1
      · rw [hfl] at h1; simp at h1
      · rw [hdis k h1] at hk; simp at hk
  refine ⟨hfields.1, hfields.2.1, hfields.2.2.1, hfields.2.2.2, hnog, ?_, ?_, ?_, ?_⟩
  · intro k v hk hfl1 hfl2
    rw [hc]
    apply fillIn_add _ _ _ _ _ hk hfl2
    rw [← hg]
    exact hnog k (ohas_of_oget hk) hfl1
  · intro k v hk hfl1 hfl2
    rw [hg]
    exact fillIn_add _ _ _ _ _ hk hfl1 hfl2
  · intro k v hk
    rw [hg]
    exact fillIn_keep _ _ _ _ _ hk
  · intro k v hk
    rw [hc]
    exact fillIn_keep _ _ _ _ _ hk

theorem matchFilter_cfw_domain {w : World} {g : Nat} {f : Key} {flt m : Filt} (hm : matchFilter w g f flt = .ok (some m)) :
    (cfwSet flt.key.cfw = false → m.key.cfw = f.cfw) ∧ (cfwSet flt.key.cfw = true → m.key.cfw = flt.key.cfw) ∧
    (∀ d, flt.key.dom = some d → m.key.dom = some d) ∧
    (flt.key.dom = none → ∀ d, f.dom = some d → m.key.dom = some d) ∧
    (flt.key.dom = none → f.dom = none → m.key.dom = if w.groupDom g ≠ defaultDom then some (w.groupDom g) else none) := by
  obtain ⟨_, _, hd, hc⟩ := matchFilter_shape hm
  refine ⟨?_, ?_, ?_, ?_, ?_⟩
  · intro h
    unfold filterCfw at hc
    simp only [h, Bool.false_eq_true, if_false, Prod.mk.injEq, true_and] at hc
    exact hc.symm
  · intro h
    unfold filterCfw at hc
    simp only [h, if_true, Prod.mk.injEq] at hc
    exact hc.2.symm
  · intro d hfd
    unfold filterDomain at hd
    rw [hfd] at hd
    simp only at hd
    cases hfe : f.dom with
    | none =>
      rw [hfe] at hd
      simp only at hd
      split at hd
      · simp only [Except.ok.injEq, Prod.mk.injEq, true_and] at hd; exact hd.symm
      · simp at hd
    | some d' =>
      rw [hfe] at hd
      simp only [Except.ok.injEq, Prod.mk.injEq] at hd
      exact hd.2.symm
  · intro hfd d hfe
    unfold filterDomain at hd
    rw [hfd, hfe] at hd
    simp only [Except.ok.injEq, Prod.mk.injEq, true_and] at hd
    exact hd.symm
  · intro hfd hfe
    unfold filterDomain at hd
    rw [hfd, hfe] at hd
    simp only at hd
    by_cases hne : w.groupDom g ≠ defaultDom
    · rw [if_pos hne] at hd ⊢
      simp only [Except.ok.injEq, Prod.mk.injEq, true_and] at hd
      exact hd.symm
    · rw [if_neg hne] at hd ⊢
      simp only [Except.ok.injEq, Prod.mk.injEq, true_and] at hd
      exact hd.symm

end EngineColl
