import MlodaVerif.Model.Graph
/-! Basic facts for the `Graph` model: insertion-ordered dicts, sets as lists, a pigeonhole lemma, paths. -/
namespace Graph

/-- outcomes can be compared by `decide` (closed witnesses) -/
scoped instance instDecEqExcept {ε α : Type} [DecidableEq ε] [DecidableEq α] : DecidableEq (Except ε α)
  | .ok a, .ok b => if h : a = b then isTrue (h ▸ rfl) else isFalse (fun h' => h (Except.ok.inj h'))
  | .error a, .error b => if h : a = b then isTrue (h ▸ rfl) else isFalse (fun h' => h (Except.error.inj h'))
  | .ok _, .error _ => isFalse (fun h => nomatch h)
  | .error _, .ok _ => isFalse (fun h => nomatch h)

/-! ### sets as duplicate-free lists -/

theorem mem_sadd {s : List Nat} {x y : Nat} : y ∈ sadd s x ↔ y ∈ s ∨ y = x := by
  unfold sadd
  split
  · constructor
    · exact Or.inl
    · rintro (h | rfl)
      · exact h
      · assumption
  · simp

theorem nodup_sadd {s : List Nat} (h : s.Nodup) (x : Nat) : (sadd s x).Nodup := by
  unfold sadd
  split
  · exact h
  · rename_i hx
    rw [List.nodup_append]
    refine ⟨h, by simp, ?_⟩
    intro a ha b hb
    simp at hb; subst hb
    intro hab; subst hab; exact hx ha

theorem mem_sunion {a b : List Nat} {y : Nat} : y ∈ sunion a b ↔ y ∈ a ∨ y ∈ b := by
  unfold sunion
  induction b generalizing a with
  | nil => simp
  | cons x b ih =>
    simp only [List.foldl_cons, ih, mem_sadd, List.mem_cons]
    constructor
    · rintro ((h | h) | h)
      · exact Or.inl h
      · exact Or.inr (Or.inl h)
      · exact Or.inr (Or.inr h)
    · rintro (h | h | h)
      · exact Or.inl (Or.inl h)
      · exact Or.inl (Or.inr h)
      · exact Or.inr h

theorem nodup_sunion {a : List Nat} (h : a.Nodup) (b : List Nat) : (sunion a b).Nodup := by
  unfold sunion
  induction b generalizing a with
  | nil => exact h
  | cons x b ih => exact ih (nodup_sadd h x)

theorem length_le_sunion (a b : List Nat) : a.length ≤ (sunion a b).length := by
  unfold sunion
  induction b generalizing a with
  | nil => simp
  | cons x b ih =>
    simp only [List.foldl_cons]
    refine Nat.le_trans ?_ (ih (a := sadd a x))
    unfold sadd; split <;> simp

/-! ### pigeonhole -/

theorem nodup_subset_length_le : ∀ (l m : List Nat), l.Nodup → (∀ x ∈ l, x ∈ m) → l.length ≤ m.length := by
  intro l
  induction l with
  | nil => intro m _ _; simp
  | cons a l ih =>
    intro m hnd hsub
    have hnd' := List.nodup_cons.mp hnd
    have ham : a ∈ m := hsub a (by simp)
    have hsub' : ∀ x ∈ l, x ∈ m.erase a := by
      intro x hx
      have hxa : x ≠ a := fun h => hnd'.1 (h ▸ hx)
      exact (List.mem_erase_of_ne hxa).mpr (hsub x (List.mem_cons_of_mem _ hx))
    have := ih (m.erase a) hnd'.2 hsub'
    rw [List.length_erase_of_mem ham] at this
    have hpos : 0 < m.length := List.length_pos_of_mem ham
    simp only [List.length_cons]
    omega

/-! ### dicts -/

theorem dget_dset (d : Dict) (k k' : Nat) (v : List Nat) : dget (dset d k v) k' = if k = k' then v else dget d k' := by
  induction d with
  | nil => simp [dset, dget]
  | cons e d ih =>
    obtain ⟨k0, v0⟩ := e
    simp only [dset]
    by_cases h0 : k0 = k
    · subst h0
      by_cases h1 : k0 = k' <;> simp [dget, h1]
    · simp only [h0, if_false, dget, ih]
      by_cases h1 : k0 = k'
      · subst h1
        have : ¬ k = k0 := fun h => h0 h.symm
        simp [this]
      · simp [h1]

theorem dget_dtouch (d : Dict) (k k' : Nat) : dget (dtouch d k) k' = dget d k' := by
  unfold dtouch
  rw [dget_dset]
  split
  · rename_i h; subst h; rfl
  · rfl

theorem dget_touchAll (d : Dict) (ks : List Nat) (k' : Nat) : dget (touchAll d ks) k' = dget d k' := by
  unfold touchAll
  induction ks generalizing d with
  | nil => rfl
  | cons k ks ih => simp only [List.foldl_cons, ih, dget_dtouch]

theorem mem_dget_dadd {d : Dict} {k x k' y : Nat} : y ∈ dget (dadd d k x) k' ↔ y ∈ dget d k' ∨ (k = k' ∧ y = x) := by
  unfold dadd
  rw [dget_dset]
  split
  · rename_i h; subst h; simp [mem_sadd]
  · rename_i h; simp [h]

theorem dkeys_dset (d : Dict) (k : Nat) (v : List Nat) : dkeys (dset d k v) = if k ∈ dkeys d then dkeys d else dkeys d ++ [k] := by
  induction d with
  | nil => simp [dset, dkeys]
  | cons e d ih =>
    obtain ⟨k0, v0⟩ := e
    simp only [dset]
    by_cases h0 : k0 = k
    · subst h0; simp [dkeys]
    · have h0' : ¬ k = k0 := fun h => h0 h.symm
      simp only [h0, if_false]
      simp only [dkeys, List.map_cons, List.mem_cons, h0', false_or] at ih ⊢
      rw [ih]
      by_cases hk : k ∈ List.map (fun x => x.fst) d <;> simp [hk]

theorem mem_dkeys_dset {d : Dict} {k : Nat} {v : List Nat} {x : Nat} : x ∈ dkeys (dset d k v) ↔ x ∈ dkeys d ∨ x = k := by
  rw [dkeys_dset]
  split
  · constructor
    · exact Or.inl
    · rintro (h | rfl)
      · exact h
      · assumption
  · simp

theorem nodup_dkeys_dset {d : Dict} (h : (dkeys d).Nodup) (k : Nat) (v : List Nat) : (dkeys (dset d k v)).Nodup := by
  rw [dkeys_dset]
  split
  · exact h
  · rename_i hk
    rw [List.nodup_append]
    refine ⟨h, by simp, ?_⟩
    intro a ha b hb
    simp at hb; subst hb
    intro hab; subst hab; exact hk ha

theorem length_dset (d : Dict) (k : Nat) (v : List Nat) : (dset d k v).length = if k ∈ dkeys d then d.length else d.length + 1 := by
  have := congrArg List.length (dkeys_dset d k v)
  simp only [dkeys, List.length_map] at this
  rw [this]
  by_cases hk : k ∈ List.map (fun x => x.fst) d <;> simp [dkeys, hk]

theorem dtouch_of_mem {d : Dict} {k : Nat} (h : k ∈ dkeys d) : dtouch d k = d := by
  unfold dtouch
  induction d with
  | nil => simp [dkeys] at h
  | cons e d ih =>
    obtain ⟨k0, v0⟩ := e
    by_cases h0 : k0 = k
    · subst h0; simp [dset, dget]
    · have : k ∈ dkeys d := by
        simp only [dkeys, List.map_cons, List.mem_cons] at h
        rcases h with h | h
        · exact absurd h.symm h0
        · exact h
      simp only [dset, dget, h0, if_false]
      rw [ih this]

theorem touchAll_of_mem {d : Dict} {ks : List Nat} (h : ∀ k ∈ ks, k ∈ dkeys d) : touchAll d ks = d := by
  unfold touchAll
  induction ks with
  | nil => rfl
  | cons k ks ih =>
    simp only [List.foldl_cons]
    rw [dtouch_of_mem (h k (by simp))]
    exact ih (fun x hx => h x (List.mem_cons_of_mem _ hx))

theorem mem_dkeys_touchAll {d : Dict} {ks : List Nat} {x : Nat} : x ∈ dkeys (touchAll d ks) ↔ x ∈ dkeys d ∨ x ∈ ks := by
  unfold touchAll
  induction ks generalizing d with
  | nil => simp
  | cons k ks ih =>
    simp only [List.foldl_cons, ih, dtouch, mem_dkeys_dset, List.mem_cons]
    constructor
    · rintro ((h | h) | h)
      · exact Or.inl h
      · exact Or.inr (Or.inl h)
      · exact Or.inr (Or.inr h)
    · rintro (h | h | h)
      · exact Or.inl (Or.inl h)
      · exact Or.inl (Or.inr h)
      · exact Or.inr h

theorem nodup_dkeys_touchAll {d : Dict} (h : (dkeys d).Nodup) (ks : List Nat) : (dkeys (touchAll d ks)).Nodup := by
  unfold touchAll
  induction ks generalizing d with
  | nil => exact h
  | cons k ks ih => exact ih (nodup_dkeys_dset h k _)

theorem length_le_touchAll (d : Dict) (ks : List Nat) : d.length ≤ (touchAll d ks).length := by
  unfold touchAll
  induction ks generalizing d with
  | nil => simp
  | cons k ks ih =>
    simp only [List.foldl_cons]
    refine Nat.le_trans ?_ (ih (d := dtouch d k))
    unfold dtouch; rw [length_dset]; split <;> simp

/-- a dict that did not grow when keys were read had all of them -/
theorem mem_dkeys_of_touchAll_length {d : Dict} {ks : List Nat} (h : (touchAll d ks).length = d.length) :
    ∀ k ∈ ks, k ∈ dkeys d := by
  unfold touchAll at h
  induction ks generalizing d with
  | nil => intro k hk; cases hk
  | cons k0 ks ih =>
    simp only [List.foldl_cons] at h
    have h1 : d.length ≤ (dtouch d k0).length := by unfold dtouch; rw [length_dset]; split <;> simp
    have h2 := length_le_touchAll (dtouch d k0) ks
    unfold touchAll at h2
    have h3 : (dtouch d k0).length = d.length := by omega
    have hk0 : k0 ∈ dkeys d := by
      unfold dtouch at h3; rw [length_dset] at h3
      split at h3
      · assumption
      · omega
    intro k hk
    rcases List.mem_cons.mp hk with rfl | hk'
    · exact hk0
    · have := ih (d := dtouch d k0) (by rw [h, h3]) k hk'
      rw [dtouch_of_mem hk0] at this
      exact this

/-- with unique keys an item of the dict is what the lookup returns -/
theorem dget_of_mem {d : Dict} (hn : (dkeys d).Nodup) {k : Nat} {v : List Nat} (h : (k, v) ∈ d) : dget d k = v := by
  induction d with
  | nil => cases h
  | cons e d ih =>
    obtain ⟨k0, v0⟩ := e
    simp only [dkeys, List.map_cons, List.nodup_cons] at hn
    rcases List.mem_cons.mp h with h | h
    · injection h with h1 h2; subst h1; subst h2; simp [dget]
    · have hk : k ∈ d.map (·.1) := List.mem_map.mpr ⟨(k, v), h, rfl⟩
      have : k0 ≠ k := fun he => hn.1 (he ▸ hk)
      simp only [dget, this, if_false]
      exact ih hn.2 h

theorem mem_of_mem_dget {d : Dict} {k x : Nat} (h : x ∈ dget d k) : (k, dget d k) ∈ d := by
  induction d with
  | nil => simp [dget] at h
  | cons e d ih =>
    obtain ⟨k0, v0⟩ := e
    by_cases h0 : k0 = k
    · subst h0; simp [dget]
    · simp only [dget, h0, if_false] at h ⊢
      exact List.mem_cons_of_mem _ (ih h)

theorem mem_dkeys_of_mem_dget {d : Dict} {k x : Nat} (h : x ∈ dget d k) : k ∈ dkeys d :=
  List.mem_map.mpr ⟨_, mem_of_mem_dget h, rfl⟩

theorem dget_eq_nil_of_not_mem {d : Dict} {k : Nat} (h : k ∉ dkeys d) : dget d k = [] := by
  induction d with
  | nil => rfl
  | cons e d ih =>
    obtain ⟨k0, v0⟩ := e
    simp only [dkeys, List.map_cons, List.mem_cons, not_or] at h
    have : k0 ≠ k := fun he => h.1 he.symm
    simp only [dget, this, if_false]
    exact ih h.2

/-! ### paths -/

/-- `Reach ch a c`: there is a non-empty path `a → … → c` along `ch` (`y ∈ ch x` is the step `x → y`) -/
inductive Reach (ch : Nat → List Nat) : Nat → Nat → Prop where
  | edge {a c : Nat} : c ∈ ch a → Reach ch a c
  | head {a b c : Nat} : b ∈ ch a → Reach ch b c → Reach ch a c

theorem Reach.tail {ch : Nat → List Nat} {a b c : Nat} (h : Reach ch a b) (hc : c ∈ ch b) : Reach ch a c := by
  induction h with
  | edge h => exact .head h (.edge hc)
  | head h _ ih => exact .head h (ih hc)

theorem Reach.trans {ch : Nat → List Nat} {a b c : Nat} (h : Reach ch a b) (h2 : Reach ch b c) : Reach ch a c := by
  induction h with
  | edge h => exact .head h h2
  | head h _ ih => exact .head h (ih h2)

/-- the last step of a path -/
theorem Reach.last {ch : Nat → List Nat} {a c : Nat} (h : Reach ch a c) : ∃ p, c ∈ ch p ∧ (p = a ∨ Reach ch a p) := by
  induction h with
  | edge h => exact ⟨_, h, Or.inl rfl⟩
  | head h _ ih =>
    obtain ⟨p, hp, hr⟩ := ih
    rcases hr with rfl | hr
    · exact ⟨_, hp, Or.inr (.edge h)⟩
    · exact ⟨p, hp, Or.inr (.head h hr)⟩

/-- reversing every edge reverses the paths -/
theorem Reach.reverse {ch pb : Nat → List Nat} (hrev : ∀ a c, c ∈ ch a → a ∈ pb c) {a c : Nat} (h : Reach ch a c) :
    Reach pb c a := by
  induction h with
  | edge h => exact .edge (hrev _ _ h)
  | head h _ ih => exact ih.tail (hrev _ _ h)

theorem Reach.mono {ch ch' : Nat → List Nat} (hsub : ∀ a c, c ∈ ch a → c ∈ ch' a) {a c : Nat} (h : Reach ch a c) :
    Reach ch' a c := by
  induction h with
  | edge h => exact .edge (hsub _ _ h)
  | head h _ ih => exact .head (hsub _ _ h) ih

/-- a set of uuids closed under `ch` is closed under paths -/
theorem Reach.closed {ch : Nat → List Nat} {P : Nat → Prop} (hcl : ∀ x, P x → ∀ y ∈ ch x, P y) {a c : Nat}
    (h : Reach ch a c) (ha : P a) : P c := by
  induction h with
  | edge h => exact hcl _ ha _ h
  | head h _ ih => exact ih (hcl _ ha _ h)

def Acyclic (ch : Nat → List Nat) : Prop := ∀ v, ¬ Reach ch v v

/-! ### `foldlM` in `Option` -/

theorem foldlM_isSome {α β : Type} (f : β → α → Option β) (l : List α) (h : ∀ a ∈ l, ∀ b, (f b a).isSome) :
    ∀ b, (l.foldlM f b).isSome := by
  induction l with
  | nil => intro b; simp [List.foldlM]
  | cons a l ih =>
    intro b
    simp only [List.foldlM_cons]
    have h1 := h a (by simp) b
    cases hfa : f b a with
    | none => rw [hfa] at h1; cases h1
    | some b' => exact ih (fun a' ha' => h a' (List.mem_cons_of_mem _ ha')) b'

theorem foldlM_none {α β : Type} (f : β → α → Option β) (l : List α) (a : α) (ha : a ∈ l) (h : ∀ b, f b a = none) :
    ∀ b, l.foldlM f b = none := by
  induction l with
  | nil => cases ha
  | cons a0 l ih =>
    intro b
    simp only [List.foldlM_cons]
    rcases List.mem_cons.mp ha with rfl | ha'
    · rw [h b]; rfl
    · cases f b a0 with
      | none => rfl
      | some b' => exact ih ha' b'

end Graph
