import MlodaVerif.Lemmas.PlanFullJoin
import MlodaVerif.Lemmas.PlanFullNoLink
import MlodaVerif.Lemmas.PlanFullTfsInv
/-! The plan after `add_joinstep`: which steps it holds. -/
namespace PlanFull
open Sched OptGroup

theorem runLink_notAU {g : Graph} {t : Trek} {linfo : Nat → LinkInfo} {o : Ord} {fsc : List (List Nat)} {n : Nat} {k : Key}
    {js : PStep} (h : runLink g t linfo o fsc n k = .ok (some js)) : isAU js = false ∧ js.kind = .join ∧ js.uuid = n := by
  have h' := h
  obtain ⟨lf, rf, ch, l, r, h1, h3, rfl⟩ := runLink_some h
  unfold runLink at h'
  simp only [h1, h3] at h'
  split at h'
  · cases h'
  · rename_i hau
    refine ⟨?_, rfl, rfl⟩
    simp only [isAU]
    simp only [Bool.or_eq_true, beq_iff_eq, not_or] at hau
    simp [hau.1, hau.2]

/-- every step of the plan after `add_joinstep` is a FeatureGroupStep of `pre_execution_plan` or the JoinStep `run_link` made for
a link entry (with a uuid between the start of the supply and its end); every FeatureGroupStep is kept -/
theorem addJoinsteps_mem {g : Graph} {t : Trek} {linfo : Nat → LinkInfo} {o : Ord} {fsc : List (List Nat)} :
    ∀ {pre : List PreEl} {s s' : JState}, addJoinsteps g t linfo o fsc pre s = .ok s' →
      s.n ≤ s'.n ∧
      (∀ x, x ∈ s'.plan → x ∈ s.plan ∨ PreEl.step x ∈ pre ∨
        ∃ k m, PreEl.link k ∈ pre ∧ s.n ≤ m ∧ m < s'.n ∧ runLink g t linfo o fsc m k = .ok (some x)) ∧
      (∀ x, x ∈ s.plan ∨ PreEl.step x ∈ pre → x ∈ s'.plan) ∧
      (∀ e ∈ s'.coll, e ∈ s.coll ∨ (e.1 ∈ s'.plan ∧ e.1.kind = .join ∧ s.n ≤ e.1.uuid)) := by
  intro pre
  induction pre with
  | nil =>
    intro s s' h
    simp only [addJoinsteps, Except.ok.injEq] at h
    subst h
    exact ⟨Nat.le_refl _, fun x hx => Or.inl hx, fun x hx => by simpa using hx, fun e he => Or.inl he⟩
  | cons el r ih =>
    intro s s' h
    cases el with
    | step st =>
      simp only [addJoinsteps] at h
      obtain ⟨h1, h2, h2', h3⟩ := ih h
      refine ⟨h1, ?_, ?_, h3⟩
      · intro x hx
        rcases h2 x hx with h | h | ⟨k, m, hk, hm⟩
        · simp only [List.mem_append, List.mem_singleton] at h
          rcases h with h | h
          · exact Or.inl h
          · subst h; exact Or.inr (Or.inl (by simp))
        · exact Or.inr (Or.inl (List.mem_cons_of_mem _ h))
        · exact Or.inr (Or.inr ⟨k, m, List.mem_cons_of_mem _ hk, hm⟩)
      · intro x hx
        apply h2'
        rcases hx with h | h
        · exact Or.inl (by simp [h])
        · simp only [List.mem_cons, PreEl.step.injEq] at h
          rcases h with h | h
          · subst h; exact Or.inl (by simp)
          · exact Or.inr h
    | link k =>
      simp only [addJoinsteps] at h
      cases hrl : runLink g t linfo o fsc s.n k with
      | error e => rw [hrl] at h; cases h
      | ok res =>
        rw [hrl] at h
        cases res with
        | none =>
          simp only at h
          obtain ⟨h1, h2, h2', h3⟩ := ih h
          refine ⟨h1, ?_, ?_, h3⟩
          · intro x hx
            rcases h2 x hx with h | h | ⟨k', m, hk', hm⟩
            · exact Or.inl h
            · exact Or.inr (Or.inl (List.mem_cons_of_mem _ h))
            · exact Or.inr (Or.inr ⟨k', m, List.mem_cons_of_mem _ hk', hm⟩)
          · intro x hx
            apply h2'
            rcases hx with h | h
            · exact Or.inl h
            · simp only [List.mem_cons, reduceCtorEq, false_or] at h
              exact Or.inr h
        | some js =>
          simp only at h
          obtain ⟨h1, h2, h2', h3⟩ := ih h
          simp only at h1 h2 h2' h3
          obtain ⟨_, hjk, hju⟩ := runLink_notAU hrl
          refine ⟨by omega, ?_, ?_, ?_⟩
          · intro x hx
            rcases h2 x hx with h | h | ⟨k', m, hk', hm1, hm2, hm3⟩
            · simp only [List.mem_append, List.mem_singleton] at h
              rcases h with h | h
              · exact Or.inl h
              · subst h; exact Or.inr (Or.inr ⟨k, s.n, by simp, Nat.le_refl _, by omega, hrl⟩)
            · exact Or.inr (Or.inl (List.mem_cons_of_mem _ h))
            · exact Or.inr (Or.inr ⟨k', m, List.mem_cons_of_mem _ hk', by omega, hm2, hm3⟩)
          · intro x hx
            apply h2'
            rcases hx with h | h
            · exact Or.inl (by simp [h])
            · simp only [List.mem_cons, reduceCtorEq, false_or] at h
              exact Or.inr h
          · intro e he
            rcases h3 e he with h | ⟨ha, hb, hc⟩
            · simp only [List.mem_append, List.mem_singleton] at h
              rcases h with h | h
              · exact Or.inl h
              · subst h
                exact Or.inr ⟨h2' _ (Or.inl (by simp)), hjk, by rw [hju]; exact Nat.le_refl _⟩
            · exact Or.inr ⟨ha, hb, by omega⟩

end PlanFull

namespace PlanFull
open Sched OptGroup

theorem mem_preSpec_step {g : Graph} {t : Trek} {o : Ord} {q : List QEl} {x : PStep} :
    PreEl.step x ∈ preSpec g t o q ↔ ∃ c bs b L, QEl.fg c bs ∈ q ∧ b ∈ bs ∧ L ∈ splitLevels b g.anc ∧
      x = mkFg g c (retrieveLinks t.data bs.flatten) L (hd o L) := by
  simp only [preSpec, List.mem_flatMap]
  constructor
  · rintro ⟨el, hel, hx⟩
    cases el with
    | link k => simp [preOf] at hx
    | fg c bs =>
      simp only [preOf, fgOf, List.mem_map, List.mem_flatMap, PreEl.step.injEq] at hx
      obtain ⟨y, ⟨b, hb, L, hL, rfl⟩, rfl⟩ := hx
      exact ⟨c, bs, b, L, hel, hb, hL, rfl⟩
  · rintro ⟨c, bs, b, L, hel, hb, hL, rfl⟩
    refine ⟨.fg c bs, hel, ?_⟩
    simp only [preOf, fgOf, List.mem_map, List.mem_flatMap, PreEl.step.injEq]
    exact ⟨_, ⟨b, hb, L, hL, rfl⟩, rfl⟩

theorem mem_preSpec_link {g : Graph} {t : Trek} {o : Ord} {q : List QEl} {k : Key} :
    PreEl.link k ∈ preSpec g t o q ↔ QEl.link k ∈ q := by
  simp only [preSpec, List.mem_flatMap]
  constructor
  · rintro ⟨el, hel, hx⟩
    cases el with
    | link k' => simp only [preOf, List.mem_singleton, PreEl.link.injEq] at hx; subst hx; exact hel
    | fg c bs => simp [preOf] at hx
  · intro h
    exact ⟨.link k, h, by simp [preOf]⟩

/-- the plan after `add_joinstep` and `handle_append_or_union_joinstep` -/
theorem planBeforeTfs_spec {g : Graph} {t : Trek} {linfo : Nat → LinkInfo} {o : Ord} {n0 : Nat} {q : List QEl}
    {p2 : List PStep} {jc : List (Nat × List Nat)} {n : Nat} (h : planBeforeTfs g t linfo o n0 q = .ok (p2, jc, n)) :
    ∃ js, addFgSteps g t o q = .ok (preSpec g t o q) ∧
      addJoinsteps g t linfo o (fscOf (preSpec g t o q)) (preSpec g t o q) { n := n0, coll := [], plan := [] } = .ok js ∧
      p2 = js.plan ∧ jc = js.coll.map (fun e => (e.1.uuid, e.2)) ∧ n = js.n := by
  unfold planBeforeTfs at h
  cases hpre : addFgSteps g t o q with
  | error e => rw [hpre] at h; cases h
  | ok pre =>
    have hp := addFgSteps_eq_ok hpre
    subst hp
    rw [hpre] at h
    simp only at h
    cases hjs : addJoinsteps g t linfo o (fscOf (preSpec g t o q)) (preSpec g t o q) { n := n0, coll := [], plan := [] } with
    | error e => rw [hjs] at h; cases h
    | ok js =>
      rw [hjs] at h
      simp only at h
      have hau : handleAppendUnion js.plan = .ok js.plan := by
        apply handleAppendUnion_noAU
        intro x hx
        obtain ⟨_, hm, _, _⟩ := addJoinsteps_mem hjs
        rcases hm x hx with h' | h' | ⟨k, m, _, _, _, hr⟩
        · cases h'
        · obtain ⟨c, bs, b, L, _, _, _, rfl⟩ := mem_preSpec_step.mp h'
          simp [isAU, mkFg]
        · exact (runLink_notAU hr).1
      rw [hau] at h
      simp only [Except.ok.injEq, Prod.mk.injEq] at h
      exact ⟨js, rfl, rfl, h.1.symm, h.2.1.symm, h.2.2.symm⟩

end PlanFull

namespace PlanFull
open Sched OptGroup

def isFg (s : PStep) : Bool := s.kind == .fg

/-- the FeatureGroupSteps of `pre_execution_plan` in order -/
def stepsOf : List PreEl → List PStep
  | [] => []
  | .link _ :: r => stepsOf r
  | .step s :: r => s :: stepsOf r

/-- `add_joinstep` passes the FeatureGroupSteps through, in order -/
theorem addJoinsteps_fg {g : Graph} {t : Trek} {linfo : Nat → LinkInfo} {o : Ord} {fsc : List (List Nat)} :
    ∀ {pre : List PreEl} {s s' : JState}, addJoinsteps g t linfo o fsc pre s = .ok s' →
      s'.plan.filter isFg = s.plan.filter isFg ++ (stepsOf pre).filter isFg := by
  intro pre
  induction pre with
  | nil => intro s s' h; simp only [addJoinsteps, Except.ok.injEq] at h; subst h; simp [stepsOf]
  | cons el r ih =>
    intro s s' h
    cases el with
    | step st =>
      simp only [addJoinsteps] at h
      rw [ih h]
      simp [stepsOf, List.filter_append, List.filter_cons]
      split <;> simp
    | link k =>
      simp only [addJoinsteps] at h
      cases hrl : runLink g t linfo o fsc s.n k with
      | error e => rw [hrl] at h; cases h
      | ok res =>
        rw [hrl] at h
        cases res with
        | none => simp only at h; rw [ih h]; simp [stepsOf]
        | some js =>
          simp only at h
          rw [ih h]
          have hk := (runLink_notAU hrl).2.1
          simp [stepsOf, List.filter_append, isFg, hk]

theorem stepsOf_preSpec (g : Graph) (t : Trek) (o : Ord) (q : List QEl) :
    stepsOf (preSpec g t o q) = q.flatMap (fun el => match el with | .fg c bs => fgOf g t o c bs | .link _ => []) := by
  have hmap : ∀ l : List PStep, ∀ r, stepsOf (l.map PreEl.step ++ r) = l ++ stepsOf r := by
    intro l
    induction l with
    | nil => intro r; rfl
    | cons a l' ihl => intro r; simp [stepsOf, ihl]
  induction q with
  | nil => rfl
  | cons el r ih =>
    cases el with
    | link k => simpa [preSpec, preOf, stepsOf] using ih
    | fg c bs =>
      simp only [preSpec, List.flatMap_cons, preOf] at ih ⊢
      rw [hmap, ih]

theorem filter_isFg_fgOf (g : Graph) (t : Trek) (o : Ord) (c : Nat) (bs : List (List Nat)) :
    (fgOf g t o c bs).filter isFg = fgOf g t o c bs := by
  apply List.filter_eq_self.mpr
  intro x hx
  simp only [fgOf, List.mem_flatMap, List.mem_map] at hx
  obtain ⟨b, _, L, _, rfl⟩ := hx
  rfl

theorem assemble_filter_isFg : ∀ (ins : List (List PStep)) (cur : List PStep), ins.length = cur.length →
    (∀ ts ∈ ins, ∀ x ∈ ts, x.kind = .tfs) → (assemble ins cur).filter isFg = cur.filter isFg := by
  intro ins
  induction ins with
  | nil => intro cur hl _; cases cur with
    | nil => rfl
    | cons _ _ => simp at hl
  | cons ts r ih =>
    intro cur hl hs
    cases cur with
    | nil => simp at hl
    | cons s c =>
      have hrec := ih c (by simpa using hl) (fun ts' h' => hs ts' (List.mem_cons_of_mem _ h'))
      unfold assemble at hrec ⊢
      simp only [List.zip_cons_cons, List.flatMap_cons, List.filter_append, hrec]
      have : ts.filter isFg = [] := by
        apply List.filter_eq_nil_iff.mpr
        intro x hx
        simp [isFg, hs ts (by simp) x hx]
      rw [this]
      simp only [List.filter_cons, List.filter_nil, List.nil_append]
      split <;> simp

theorem filter_isFg_map_core {l l' : List PStep} (h : l'.map core = l.map core) :
    (l'.filter isFg).map core = (l.filter isFg).map core := by
  have e : ∀ m : List PStep, (m.filter isFg).map core = (m.map core).filter isFg := by
    intro m
    induction m with
    | nil => rfl
    | cons a r ih =>
      have ha : isFg (core a) = isFg a := rfl
      simp only [List.filter_cons, List.map_cons, ha]
      split <;> simp [ih]
  rw [e, e, h]

end PlanFull

namespace PlanFull

/-- the FeatureGroupSteps `run_feature_group` makes for the feature-group entries of the queue, in queue order -/
def fgsOfQueue (g : Graph) (t : Trek) (o : Ord) (q : List QEl) : List PStep :=
  q.flatMap (fun el => match el with | .fg c bs => fgOf g t o c bs | .link _ => [])

theorem filter_isFg_fgsOfQueue (g : Graph) (t : Trek) (o : Ord) (q : List QEl) :
    (fgsOfQueue g t o q).filter isFg = fgsOfQueue g t o q := by
  unfold fgsOfQueue
  induction q with
  | nil => rfl
  | cons el r ih =>
    simp only [List.flatMap_cons, List.filter_append, ih]
    cases el with
    | link k => simp
    | fg c bs => simp only [filter_isFg_fgOf]

end PlanFull

namespace PlanFull

theorem mem_retrieveLinks {data : List (Key × List Nat)} {feats : List Nat} {u : Nat} :
    u ∈ retrieveLinks data feats ↔ ∃ f ∈ feats, ∃ e ∈ data, f ∈ e.2 ∧ u = e.1.link := by
  simp only [retrieveLinks, childLinks, List.mem_eraseDups, List.mem_flatMap, List.mem_map, List.mem_filter, decide_eq_true_eq]
  constructor
  · rintro ⟨f, hf, k, ⟨e, ⟨he, hfe⟩, rfl⟩, rfl⟩; exact ⟨f, hf, e, he, hfe, rfl⟩
  · rintro ⟨f, hf, e, he, hfe, rfl⟩; exact ⟨f, hf, e.1, ⟨e, ⟨he, hfe⟩, rfl⟩, rfl⟩

/-- every step of the plan handed to `add_tfs` has a counterpart in the final plan that requires at least the same uuids -/
theorem createPlan_keeps {g : Graph} {t : Trek} {linfo : Nat → LinkInfo} {o : Ord} {n0 : Nat} {q : List QEl} {P : List PStep}
    (h : createPlan g t linfo o n0 q = .ok P) {x : PStep} (hx : PreEl.step x ∈ preSpec g t o q) :
    ∃ s' ∈ P, core s' = core x ∧ ∀ u ∈ x.req, u ∈ s'.req := by
  unfold createPlan at h
  cases hb : planBeforeTfs g t linfo o n0 q with
  | error e => rw [hb] at h; cases h
  | ok r =>
    obtain ⟨p2, jc, n⟩ := r
    rw [hb] at h
    simp only at h
    obtain ⟨js, _, hjs, rfl, _, _⟩ := planBeforeTfs_spec hb
    obtain ⟨st, hinv, rfl⟩ := addTfs_inv h
    obtain ⟨_, _, hmem, _⟩ := addJoinsteps_mem hjs
    obtain ⟨i, hi⟩ := List.mem_iff_getElem?.mp (hmem x (Or.inr hx))
    obtain ⟨s', ts, h1, h2, hd⟩ := hinv.done i (List.getElem?_eq_some_iff.mp hi).1 x hi
    refine ⟨s', ?_, core_at hinv.core_eq hi h1, ?_⟩
    · -- membership in the assembled plan
      clear hd
      have : ∀ (ins : List (List PStep)) (cur : List PStep) (i : Nat), ins[i]? = some ts → cur[i]? = some s' → s' ∈ assemble ins cur := by
        intro ins
        induction ins with
        | nil => intro cur i h; simp at h
        | cons a r ih =>
          intro cur i h1 h2
          cases cur with
          | nil => simp at h2
          | cons b c =>
            simp only [assemble, List.zip_cons_cons, List.flatMap_cons, List.mem_append, List.mem_singleton]
            cases i with
            | zero => simp at h2; exact Or.inl (Or.inr h2.symm)
            | succ i => exact Or.inr (ih c i (by simpa using h1) (by simpa using h2))
      exact this _ _ i h2 h1
    · intro u hu
      rw [hd.req]; simp [hu]

end PlanFull
