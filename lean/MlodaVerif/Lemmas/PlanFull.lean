import MlodaVerif.Model.PlanFull
import MlodaVerif.Lemmas.PlanCore
/-! Basic facts about `Model/PlanFull.lean`: set helpers, `modAt`, folds in `Except`, frame properties of `add_tfs`. -/
namespace PlanFull
open Sched OptGroup

/-! ### sets / iteration orders -/

theorem seteq_mem {a b : List Nat} (h : seteq a b = true) (x : Nat) : x ∈ a ↔ x ∈ b := by
  simp only [seteq, Bool.and_eq_true, List.all_eq_true, decide_eq_true_eq] at h
  exact ⟨h.1 x, h.2 x⟩

theorem seteq_refl (a : List Nat) : seteq a a = true := by
  simp [seteq]

theorem mem_iterAt (o : Ord) (site : Nat) (s : List Nat) (x : Nat) : x ∈ iterAt o site s ↔ x ∈ s := by
  unfold iterAt
  cases h : o.find? (fun e => e.1 == site && seteq e.2 s) with
  | none => simp
  | some e =>
    have := List.find?_some h
    simp only [Bool.and_eq_true] at this
    exact seteq_mem this.2 x

theorem iterAt_ne_nil (o : Ord) (site : Nat) {s : List Nat} (h : s ≠ []) : iterAt o site s ≠ [] := by
  obtain ⟨x, hx⟩ := List.exists_mem_of_ne_nil _ h
  intro hnil
  have := (mem_iterAt o site s x).mpr hx
  rw [hnil] at this; cases this

theorem iterAt_nil_ord (site : Nat) (s : List Nat) : iterAt [] site s = s := rfl

/-! ### `modAt` -/

theorem length_modAt (f : PStep → PStep) : ∀ (i : Nat) (l : List PStep), (modAt f i l).length = l.length
  | i, [] => by cases i <;> simp [modAt]
  | 0, _ :: _ => by simp [modAt]
  | i + 1, _ :: r => by simp [modAt, length_modAt f i r]

theorem getElem?_modAt (f : PStep → PStep) : ∀ (i : Nat) (l : List PStep) (j : Nat),
    (modAt f i l)[j]? = if j = i then l[j]?.map f else l[j]?
  | i, [], j => by cases i <;> simp [modAt]
  | 0, s :: r, j => by
    cases j with
    | zero => simp [modAt]
    | succ j => simp [modAt]
  | i + 1, s :: r, j => by
    cases j with
    | zero => simp [modAt]
    | succ j => simp [modAt, getElem?_modAt f i r j]

theorem map_modAt {β : Type} (h : PStep → β) (f : PStep → PStep) (hf : ∀ s, h (f s) = h s) :
    ∀ (i : Nat) (l : List PStep), (modAt f i l).map h = l.map h
  | i, [] => by cases i <;> simp [modAt]
  | 0, s :: r => by simp [modAt, hf]
  | i + 1, s :: r => by simp [modAt, map_modAt h f hf i r]

theorem modAt_self {s : PStep} : ∀ (i : Nat) (l : List PStep), l[i]? = some s → modAt (fun _ => s) i l = l
  | _, [], h => by simp at h
  | 0, a :: r, h => by simp at h; simp [modAt, h]
  | i + 1, a :: r, h => by simp at h; simp [modAt, modAt_self i r h]

/-! ### folds in `Except` -/

theorem foldlM_inv {σ α ε : Type} (f : σ → α → Except ε σ) (P : Nat → σ → Prop) :
    ∀ (l : List α) (s0 s : σ), P 0 s0 →
      (∀ (k : Nat) (a : α) (s s' : σ), l[k]? = some a → P k s → f s a = .ok s' → P (k + 1) s') →
      l.foldlM f s0 = .ok s → P l.length s := by
  intro l
  induction l generalizing P with
  | nil =>
    intro s0 s h0 _ h
    simp only [List.foldlM_nil, pure, Except.pure] at h
    cases h; exact h0
  | cons a r ih =>
    intro s0 s h0 hstep h
    simp only [List.foldlM_cons, bind, Except.bind] at h
    cases hf : f s0 a with
    | error e => rw [hf] at h; cases h
    | ok s1 =>
      rw [hf] at h
      have h1 : P 1 s1 := hstep 0 a s0 s1 (by simp) h0 hf
      have := ih (fun k s => P (k + 1) s) s1 s h1
        (fun k b s s' hk hp hfs => hstep (k + 1) b s s' (by simpa using hk) hp hfs) h
      simpa using this

end PlanFull
