import MlodaVerif.Model.Time
/-! Helper lemmas about `Model/Time.lean` for `Props/C11.lean` (no Mathlib): `_ymd2ord ∘ _ord2ymd = id`, fixed-width
formatting is injective. -/
namespace Time

def doyOf (leap : Bool) (m d : Nat) : Nat := daysBeforeMonthTbl m + (if m > 2 ∧ leap then 1 else 0) + (d - 1)

theorem monthDay_spec_aux : ∀ n, n < 366 → ∀ leap : Bool, (n < 365 ∨ leap = true) →
    (1 ≤ (monthDay leap n).1 ∧ (monthDay leap n).1 ≤ 12 ∧ 1 ≤ (monthDay leap n).2 ∧ (monthDay leap n).2 ≤ 31 ∧
      doyOf leap (monthDay leap n).1 (monthDay leap n).2 = n) := by
  decide +kernel

theorem ymd2ord0_eq (y m d : Nat) : ymd2ord0 y m d = daysBeforeYear y + doyOf (isLeap y) m d := by
  simp [ymd2ord0, doyOf, Nat.add_assoc]

/-- the decomposition computed by the first half of `_ord2ymd` -/
theorem decomp (n0 : Nat) :
    ∃ a b c d r1 : Nat,
      n0 / 146097 = a ∧ n0 % 146097 / 36524 = b ∧ n0 % 146097 % 36524 / 1461 = c ∧
      n0 % 146097 % 36524 % 1461 / 365 = d ∧ n0 % 146097 % 36524 % 1461 % 365 = r1 ∧
      n0 = 146097 * a + 36524 * b + 1461 * c + 365 * d + r1 ∧
      b ≤ 4 ∧ c ≤ 24 ∧ d ≤ 4 ∧ r1 < 365 ∧ (b = 4 → c = 0 ∧ d = 0 ∧ r1 = 0) ∧ (d = 4 → r1 = 0) ∧
      (c = 24 → d ≤ 3) := by
  refine ⟨_, _, _, _, _, rfl, rfl, rfl, rfl, rfl, ?_⟩
  omega

theorem isLeap_year (a b c d : Nat) (hb : b ≤ 4) (hc : c ≤ 24) (hd : d ≤ 3) (_hb4 : b = 4 → c = 0 ∧ d = 0) :
    isLeap (a * 400 + 1 + b * 100 + c * 4 + d) = decide (d = 3 ∧ (c ≠ 24 ∨ b = 3)) := by
  rw [Bool.eq_iff_iff]
  simp only [isLeap, decide_eq_true_eq]
  omega

theorem dby_year (a b c d : Nat) (hb : b ≤ 3) (hc : c ≤ 24) (hd : d ≤ 3) :
    daysBeforeYear (a * 400 + 1 + b * 100 + c * 4 + d) = 146097 * a + 36524 * b + 1461 * c + 365 * d := by
  simp only [daysBeforeYear]
  omega

theorem ord2ymd_inv (n0 : Nat) : ymd2ord0 (ord2ymd n0).1 (ord2ymd n0).2.1 (ord2ymd n0).2.2 = n0 := by
  rw [ymd2ord0_eq]
  obtain ⟨a, b, c, d, r1, h1, h2, h3, h4, h5, hn, hb, hc, hd, hr, _hb4, hd4, hc24⟩ := decomp n0
  unfold ord2ymd
  simp only [h1, h2, h3, h4, h5]
  split
  · rename_i h
    rcases h with h | h
    · have hy : a * 400 + 1 + b * 100 + c * 4 + d - 1 = a * 400 + 1 + b * 100 + c * 4 + 3 := by omega
      have hb3 : b ≤ 3 := by omega
      have hl := isLeap_year a b c 3 hb hc (by omega) (fun h' => by omega)
      have hc' : c ≠ 24 := by omega
      simp only [hy, hl, dby_year a b c 3 hb3 hc (by omega), doyOf, daysBeforeMonthTbl]
      simp [hc']
      omega
    · have hy : a * 400 + 1 + b * 100 + c * 4 + d - 1 = a * 400 + 1 + 3 * 100 + 24 * 4 + 3 := by omega
      have hl := isLeap_year a 3 24 3 (by omega) (by omega) (by omega) (fun h' => by omega)
      simp only [hy, hl, dby_year a 3 24 3 (by omega) (by omega) (by omega), doyOf, daysBeforeMonthTbl]
      simp
      omega
  · rename_i h
    have hb3 : b ≤ 3 := by omega
    have hd3 : d ≤ 3 := by omega
    have hl := isLeap_year a b c d hb hc hd3 (fun h' => by omega)
    have hspec := monthDay_spec_aux r1 (by omega) (decide (d = 3 ∧ (c ≠ 24 ∨ b = 3))) (Or.inl hr)
    simp only [hl, dby_year a b c d hb3 hc hd3, hspec.2.2.2.2]
    omega


theorem digitChar_inj : ∀ a, a < 10 → ∀ b, b < 10 → digitChar a = digitChar b → a = b := by decide

theorem pad2_inj {a b : Nat} (ha : a < 100) (hb : b < 100) (h : pad2 a = pad2 b) : a = b := by
  simp only [pad2, List.cons.injEq, and_true] at h
  have h1 := digitChar_inj _ (by omega) _ (by omega) h.1
  have h2 := digitChar_inj _ (by omega) _ (by omega) h.2
  omega

theorem pad4_inj {a b : Nat} (ha : a < 10000) (hb : b < 10000) (h : pad4 a = pad4 b) : a = b := by
  simp only [pad4, List.cons.injEq, and_true] at h
  have h1 := digitChar_inj _ (by omega) _ (by omega) h.1
  have h2 := digitChar_inj _ (by omega) _ (by omega) h.2.1
  have h3 := digitChar_inj _ (by omega) _ (by omega) h.2.2.1
  have h4 := digitChar_inj _ (by omega) _ (by omega) h.2.2.2
  omega

theorem pad6_inj {a b : Nat} (ha : a < 1000000) (hb : b < 1000000) (h : pad6 a = pad6 b) : a = b := by
  simp only [pad6, List.cons.injEq, and_true] at h
  have h1 := digitChar_inj _ (by omega) _ (by omega) h.1
  have h2 := digitChar_inj _ (by omega) _ (by omega) h.2.1
  have h3 := digitChar_inj _ (by omega) _ (by omega) h.2.2.1
  have h4 := digitChar_inj _ (by omega) _ (by omega) h.2.2.2.1
  have h5 := digitChar_inj _ (by omega) _ (by omega) h.2.2.2.2.1
  have h6 := digitChar_inj _ (by omega) _ (by omega) h.2.2.2.2.2
  omega

theorem frac_inj {a b : Nat} (ha : a < 1000000) (hb : b < 1000000)
    (h : fracChars a ++ utcSuffix = fracChars b ++ utcSuffix) : a = b := by
  unfold fracChars at h
  by_cases ha0 : a = 0 <;> by_cases hb0 : b = 0
  · omega
  · simp [ha0, hb0, utcSuffix, pad6] at h
  · simp [ha0, hb0, utcSuffix, pad6] at h
  · simp only [ha0, hb0, if_false, List.cons_append, List.cons.injEq, true_and] at h
    have := (List.append_inj h (by simp [pad6])).1
    exact pad6_inj ha hb this

theorem isoChars_inj {y m d hh mm ss us y' m' d' hh' mm' ss' us' : Nat}
    (hy : y < 10000) (hy' : y' < 10000) (hm : m < 100) (hm' : m' < 100) (hd : d < 100) (hd' : d' < 100)
    (hhh : hh < 100) (hhh' : hh' < 100) (hmm : mm < 100) (hmm' : mm' < 100) (hss : ss < 100) (hss' : ss' < 100)
    (hus : us < 1000000) (hus' : us' < 1000000)
    (h : isoChars y m d hh mm ss us = isoChars y' m' d' hh' mm' ss' us') :
    y = y' ∧ m = m' ∧ d = d' ∧ hh = hh' ∧ mm = mm' ∧ ss = ss' ∧ us = us' := by
  unfold isoChars at h
  have l4 : ∀ n k, (pad4 n).length = (pad4 k).length := fun _ _ => rfl
  have l2 : ∀ n k, (pad2 n).length = (pad2 k).length := fun _ _ => rfl
  obtain ⟨e1, h⟩ := List.append_inj h (l4 _ _)
  obtain ⟨e2, h⟩ := List.append_inj (List.cons.inj h).2 (l2 _ _)
  obtain ⟨e3, h⟩ := List.append_inj (List.cons.inj h).2 (l2 _ _)
  obtain ⟨e4, h⟩ := List.append_inj (List.cons.inj h).2 (l2 _ _)
  obtain ⟨e5, h⟩ := List.append_inj (List.cons.inj h).2 (l2 _ _)
  obtain ⟨e6, h⟩ := List.append_inj (List.cons.inj h).2 (l2 _ _)
  exact ⟨pad4_inj hy hy' e1, pad2_inj hm hm' e2, pad2_inj hd hd' e3, pad2_inj hhh hhh' e4, pad2_inj hmm hmm' e5,
    pad2_inj hss hss' e6, frac_inj hus hus' h⟩


theorem ord2ymd_inj {n n' : Nat} (h : ord2ymd n = ord2ymd n') : n = n' := by
  have h1 := ord2ymd_inv n
  have h2 := ord2ymd_inv n'
  rw [h] at h1; rw [h1] at h2; exact h2

/-- field widths: inside years 1..9999 the year has at most four digits, month and day two -/
theorem ord2ymd_bounds (n0 : Nat) (hn : n0 < maxDays) :
    (ord2ymd n0).1 < 10000 ∧ (ord2ymd n0).2.1 < 100 ∧ (ord2ymd n0).2.2 < 100 := by
  obtain ⟨a, b, c, d, r1, h1, h2, h3, h4, h5, hn0, hb, hc, hd, hr, hb4, hd4, hc24⟩ := decomp n0
  unfold maxDays at hn
  unfold ord2ymd
  simp only [h1, h2, h3, h4, h5]
  split
  · refine ⟨?_, by simp, by simp⟩
    show a * 400 + 1 + b * 100 + c * 4 + d - 1 < 10000
    omega
  · have hspec := monthDay_spec_aux r1 (by omega) (decide (d = 3 ∧ (c ≠ 24 ∨ b = 3))) (Or.inl hr)
    refine ⟨?_, Nat.lt_of_le_of_lt hspec.2.1 (by decide), Nat.lt_of_le_of_lt hspec.2.2.2.1 (by decide)⟩
    show a * 400 + 1 + b * 100 + c * 4 + d < 10000
    omega

/-- the produced characters determine the instant (seconds and microseconds) -/
theorem isoOfInstant_inj {s us s' us' : Nat} (hs : s < maxSecs) (hs' : s' < maxSecs) (hus : us < 1000000)
    (hus' : us' < 1000000) (h : isoOfInstant s us = isoOfInstant s' us') : s = s' ∧ us = us' := by
  unfold isoOfInstant at h
  unfold maxSecs at hs hs'
  have hd : s / 86400 < maxDays := by unfold maxDays at *; omega
  have hd' : s' / 86400 < maxDays := by unfold maxDays at *; omega
  obtain ⟨by1, bm1, bd1⟩ := ord2ymd_bounds _ hd
  obtain ⟨by2, bm2, bd2⟩ := ord2ymd_bounds _ hd'
  obtain ⟨e1, e2, e3, e4, e5, e6, e7⟩ := isoChars_inj by1 by2 bm1 bm2 bd1 bd2 (by omega) (by omega) (by omega)
    (by omega) (by omega) (by omega) hus hus' h
  have hdays : s / 86400 = s' / 86400 := ord2ymd_inj (Prod.ext e1 (Prod.ext e2 e3))
  exact ⟨by omega, e7⟩

theorem toUtcIso_of_range (a : Aware) (h : 0 ≤ a.wall - a.offset ∧ a.wall - a.offset < (maxSecs : Int)) :
    toUtcIso a = some (String.ofList (isoOfInstant (a.wall - a.offset).toNat a.micros)) := by
  unfold toUtcIso; exact if_pos h

theorem toUtcIso_of_not_range (a : Aware) (h : ¬ (0 ≤ a.wall - a.offset ∧ a.wall - a.offset < (maxSecs : Int))) :
    toUtcIso a = none := by
  unfold toUtcIso; exact if_neg h

end Time
