import MlodaVerif.Model.Time
/-! Helper lemmas about `Model/Time.lean` for `Props/C11.lean`. -/
namespace Time

end Time
