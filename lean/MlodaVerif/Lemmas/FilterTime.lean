import MlodaVerif.Model.Time
/-! Helper lemmas about `Model/Time.lean` for `Props/C11.lean` (no Mathlib): `_ymd2ord ∘ _ord2ymd = id`, fixed-width
formatting is injective. -/
namespace Time

def doyOf (leap : Bool) (m d : Nat) : Nat := daysBeforeMonthTbl m + (if m > 2 ∧ leap then 1 else 0) + (d - 1)

theorem monthDay_spec_aux : ∀ n, n < 366 → ∀ leap : Bool, (n < 365 ∨ leap = true) →
    (1 ≤ (monthDay leap n).1 ∧ (monthDay leap n).1 ≤ 12 ∧ 1 ≤ (monthDay leap n).2 ∧ (monthDay leap n).2 ≤ 31 ∧
      doyOf leap (monthDay leap n).1 (monthDay leap n).2 = n) := by
  decide +kernel

theorem ymd2ord0_eq (y m d : Nat) : ymd2ord0 y m d = daysBeforeYear y + doyOf (isLeap y) m d := by
  simp [ymd2ord0, doyOf, Nat.add_assoc]

/-- the decomposition computed by the first half of `_ord2ymd` -/
theorem decomp (n0 : Nat) :
    ∃ a b c d r1 : Nat,
      n0 / 146097 = a ∧ n0 % 146097 / 36524 = b ∧ n0 % 146097 % 36524 / 1461 = c ∧
      n0 % 146097 % 36524 % 1461 / 365 = d ∧ n0 % 146097 % 36524 % 1461 % 365 = r1 ∧
      n0 = 146097 * a + 36524 * b + 1461 * c + 365 * d + r1 ∧
      b ≤ 4 ∧ c ≤ 24 ∧ d ≤ 4 ∧ r1 < 365 ∧ (b = 4 → c = 0 ∧ d = 0 ∧ r1 = 0) ∧ (d = 4 → r1 = 0) ∧
      (c = 24 → d ≤ 3) := by
  refine ⟨_, _, _, _, _, rfl, rfl, rfl, rfl, rfl, ?_⟩
  omega

theorem isLeap_year (a b c d : Nat) (hb : b ≤ 4) (hc : c ≤ 24) (hd : d ≤ 3) (_hb4 : b = 4 → c = 0 ∧ d = 0) :
    isLeap (a * 400 + 1 + b * 100 + c * 4 + d) = decide (d = 3 ∧ (c ≠ 24 ∨ b = 3)) := by
  rw [Bool.eq_iff_iff]
  simp only [isLeap, decide_eq_true_eq]
  omega

theorem dby_year (a b c d : Nat) (hb : b ≤ 3) (hc : c ≤ 24) (hd : d ≤ 3) :
    daysBeforeYear (a * 400 + 1 + b * 100 + c * 4 + d) = 146097 * a + 36524 * b + 1461 * c + 365 * d := by
  simp only [daysBeforeYear]
  omega

theorem ord2ymd_inv (n0 : Nat) : ymd2ord0 (ord2ymd n0).1 (ord2ymd n0).2.1 (ord2ymd n0).2.2 = n0 := by
  rw [ymd2ord0_eq]
  obtain ⟨a, b, c, d, r1, h1, h2, h3, h4, h5, hn, hb, hc, hd, hr, _hb4, hd4, hc24⟩ := decomp n0
  unfold ord2ymd
  simp only [h1, h2, h3, h4, h5]
  split
  · rename_i h
    rcases h with h | h
    · have hy : a * 400 + 1 + b * 100 + c * 4 + d - 1 = a * 400 + 1 + b * 100 + c * 4 + 3 := by omega
      have hb3 : b ≤ 3 := by omega
      have hl := isLeap_year a b c 3 hb hc (by omega) (fun h' => by omega)
      have hc' : c ≠ 24 := by omega
      simp only [hy, hl, dby_year a b c 3 hb3 hc (by omega), doyOf, daysBeforeMonthTbl]
      simp [hc']
      omega
    · have hy : a * 400 + 1 + b * 100 + c * 4 + d - 1 = a * 400 + 1 + 3 * 100 + 24 * 4 + 3 := by omega
      have hl := isLeap_year a 3 24 3 (by omega) (by omega) (by omega) (fun h' => by omega)
      simp only [hy, hl, dby_year a 3 24 3 (by omega) (by omega) (by omega), doyOf, daysBeforeMonthTbl]
      simp
      omega
  · rename_i h
    have hb3 : b ≤ 3 := by omega
    have hd3 : d ≤ 3 := by omega
    have hl := isLeap_year a b c d hb hc hd3 (fun h' => by omega)
    have hspec := monthDay_spec_aux r1 (by omega) (decide (d = 3 ∧ (c ≠ 24 ∨ b = 3))) (Or.inl hr)
    simp only [hl, dby_year a b c d hb3 hc hd3, hspec.2.2.2.2]
    omega


theorem digitChar_inj : ∀ a, a < 10 → ∀ b, b < 10 → digitChar a = digitChar b → a = b := by decide

theorem pad2_inj {a b : Nat} (ha : a < 100) (hb : b < 100) (h : pad2 a = pad2 b) : a = b := by
  simp only [pad2, List.cons.injEq, and_true] at h
  have h1 := digitChar_inj _ (by omega) _ (by omega) h.1
  have h2 := digitChar_inj _ (by omega) _ (by omega) h.2
  omega

theorem pad4_inj {a b : Nat} (ha : a < 10000) (hb : b < 10000) (h : pad4 a = pad4 b) : a = b := by
  simp only [pad4, List.cons.injEq, and_true] at h
  have h1 := digitChar_inj _ (by omega) _ (by omega) h.1
  have h2 := digitChar_inj _ (by omega) _ (by omega) h.2.1
  have h3 := digitChar_inj _ (by omega) _ (by omega) h.2.2.1
  have h4 := digitChar_inj _ (by omega) _ (by omega) h.2.2.2
  omega

theorem pad6_inj {a b : Nat} (ha : a < 1000000) (hb : b < 1000000) (h : pad6 a = pad6 b) : a = b := by
  simp only [pad6, List.cons.injEq, and_true] at h
  have h1 := digitChar_inj _ (by omega) _ (by omega) h.1
  have h2 := digitChar_inj _ (by omega) _ (by omega) h.2.1
  have h3 := digitChar_inj _ (by omega) _ (by omega) h.2.2.1
  have h4 := digitChar_inj _ (by omega) _ (by omega) h.2.2.2.1
  have h5 := digitChar_inj _ (by omega) _ (by omega) h.2.2.2.2.1
  have h6 := digitChar_inj _ (by omega) _ (by omega) h.2.2.2.2.2
  omega

theorem frac_inj {a b : Nat} (ha : a < 1000000) (hb : b < 1000000)
    (h : fracChars a ++ utcSuffix = fracChars b ++ utcSuffix) : a = b := by
  unfold fracChars at h
  by_cases ha0 : a = 0 <;> by_cases hb0 : b = 0
  · omega
  · simp [ha0, hb0, utcSuffix, pad6] at h
  · simp [ha0, hb0, utcSuffix, pad6] at h
  · simp only [ha0, hb0, if_false, List.cons_append, List.cons.injEq, true_and] at h
    have := (List.append_inj h (by simp [pad6])).1
    exact pad6_inj ha hb this

theorem isoChars_inj {y m d hh mm ss us y' m' d' hh' mm' ss' us' : Nat}
    (hy : y < 10000) (hy' : y' < 10000) (hm : m < 100) (hm' : m' < 100) (hd : d < 100) (hd' : d' < 100)
    (hhh : hh < 100) (hhh' : hh' < 100) (hmm : mm < 100) (hmm' : mm' < 100) (hss : ss < 100) (hss' : ss' < 100)
    (hus : us < 1000000) (hus' : us' < 1000000)
    (h : isoChars y m d hh mm ss us = isoChars y' m' d' hh' mm' ss' us') :
    y = y' ∧ m = m' ∧ d = d' ∧ hh = hh' ∧ mm = mm' ∧ ss = ss' ∧ us = us' := by
  unfold isoChars at h
  have l4 : ∀ n k, (pad4 n).length = (pad4 k).length := fun _ _ => rfl
  have l2 : ∀ n k, (pad2 n).length = (pad2 k).length := fun _ _ => rfl
  obtain ⟨e1, h⟩ := List.append_inj h (l4 _ _)
  obtain ⟨e2, h⟩ := List.append_inj (List.cons.inj h).2 (l2 _ _)
  obtain ⟨e3, h⟩ := List.append_inj (List.cons.inj h).2 (l2 _ _)
  obtain ⟨e4, h⟩ := List.append_inj (List.cons.inj h).2 (l2 _ _)
  obtain ⟨e5, h⟩ := List.append_inj (List.cons.inj h).2 (l2 _ _)
  obtain ⟨e6, h⟩ := List.append_inj (List.cons.inj h).2 (l2 _ _)
  exact ⟨pad4_inj hy hy' e1, pad2_inj hm hm' e2, pad2_inj hd hd' e3, pad2_inj hhh hhh' e4, pad2_inj hmm hmm' e5,
    pad2_inj hss hss' e6, frac_inj hus hus' h⟩


theorem ord2ymd_inj {n n' : Nat} (h : ord2ymd n = ord2ymd n') : n = n' := by
  have h1 := ord2ymd_inv n
  have h2 := ord2ymd_inv n'
  rw [h] at h1; rw [h1] at h2; exact h2

/-- field widths: inside years 1..9999 the year has at most four digits, month and day two -/
theorem ord2ymd_bounds (n0 : Nat) (hn : n0 < maxDays) :
    (ord2ymd n0).1 < 10000 ∧ (ord2ymd n0).2.1 < 100 ∧ (ord2ymd n0).2.2 < 100 := by
  obtain ⟨a, b, c, d, r1, h1, h2, h3, h4, h5, hn0, hb, hc, hd, hr, hb4, hd4, hc24⟩ := decomp n0
  unfold maxDays at hn
  unfold ord2ymd
  simp only [h1, h2, h3, h4, h5]
  split
  · refine ⟨?_, by simp, by simp⟩
    show a * 400 + 1 + b * 100 + c * 4 + d - 1 < 10000
    omega
  · have hspec := monthDay_spec_aux r1 (by omega) (decide (d = 3 ∧ (c ≠ 24 ∨ b = 3))) (Or.inl hr)
    refine ⟨?_, Nat.lt_of_le_of_lt hspec.2.1 (by decide), Nat.lt_of_le_of_lt hspec.2.2.2.1 (by decide)⟩
    show a * 400 + 1 + b * 100 + c * 4 + d < 10000
    omega

/-- the produced characters determine the instant (seconds and microseconds) -/
theorem isoOfInstant_inj {s us s' us' : Nat} (hs : s < maxSecs) (hs' : s' < maxSecs) (hus : us < 1000000)
    (hus' : us' < 1000000) (h : isoOfInstant s us = isoOfInstant s' us') : s = s' ∧ us = us' := by
  unfold isoOfInstant at h
  unfold maxSecs at hs hs'
  have hd : s / 86400 < maxDays := by unfold maxDays at *; omega
  have hd' : s' / 86400 < maxDays := by unfold maxDays at *; omega
  obtain ⟨by1, bm1, bd1⟩ := ord2ymd_bounds _ hd
  obtain ⟨by2, bm2, bd2⟩ := ord2ymd_bounds _ hd'
  obtain ⟨e1, e2, e3, e4, e5, e6, e7⟩ := isoChars_inj by1 by2 bm1 bm2 bd1 bd2 (by omega) (by omega) (by omega)
    (by omega) (by omega) (by omega) hus hus' h
  have hdays : s / 86400 = s' / 86400 := ord2ymd_inj (Prod.ext e1 (Prod.ext e2 e3))
  exact ⟨by omega, e7⟩


def yearLen (y : Nat) : Nat := 365 + (if isLeap y then 1 else 0)

theorem dby_succ (y : Nat) (hy : 1 ≤ y) : daysBeforeYear (y + 1) = daysBeforeYear y + yearLen y := by
  obtain ⟨k, rfl⟩ : ∃ k, y = k + 1 := ⟨y - 1, by omega⟩
  have e4 : (k + 1) / 4 = k / 4 + (if (k + 1) % 4 = 0 then 1 else 0) := by split <;> omega
  have e100 : (k + 1) / 100 = k / 100 + (if (k + 1) % 100 = 0 then 1 else 0) := by split <;> omega
  have e400 : (k + 1) / 400 = k / 400 + (if (k + 1) % 400 = 0 then 1 else 0) := by split <;> omega
  have g1 : k / 100 ≤ k / 4 := by omega
  unfold daysBeforeYear yearLen isLeap
  simp only [Nat.add_sub_cancel, e4, e100, e400, decide_eq_true_eq]
  by_cases h4 : (k + 1) % 4 = 0 <;> by_cases h100 : (k + 1) % 100 = 0 <;> by_cases h400 : (k + 1) % 400 = 0 <;>
    simp only [h4, h100, h400, if_true, if_false, true_and, false_and, not_true_eq_false, not_false_eq_true, or_true, or_false, ne_eq] <;> omega

theorem dby_mono {y y' : Nat} (hy : 1 ≤ y) (h : y ≤ y') : daysBeforeYear y ≤ daysBeforeYear y' := by
  induction h with
  | refl => exact Nat.le_refl _
  | step h ih => rename_i m; rw [dby_succ m (Nat.le_trans hy h)]; omega

theorem monthDay_last : monthDay true 365 = (12, 31) := by decide

/-- every day number is `daysBeforeYear y + doy` for the year `y` and day-of-year `doy` that `_ord2ymd` reports -/
theorem yd_spec (n : Nat) : ∃ y doy, 1 ≤ y ∧ doy < yearLen y ∧ n = daysBeforeYear y + doy ∧
    ord2ymd n = (y, (monthDay (isLeap y) doy).1, (monthDay (isLeap y) doy).2) := by
  obtain ⟨a, b, c, d, r1, h1, h2, h3, h4, h5, hn, hb, hc, hd, hr, hb4, hd4, hc24⟩ := decomp n
  unfold ord2ymd
  simp only [h1, h2, h3, h4, h5]
  split
  · rename_i h
    rcases h with h | h
    · have hy : a * 400 + 1 + b * 100 + c * 4 + d - 1 = a * 400 + 1 + b * 100 + c * 4 + 3 := by omega
      have hl := isLeap_year a b c 3 hb hc (by omega) (fun h' => by omega)
      have hc' : c ≠ 24 := by omega
      have hl' : isLeap (a * 400 + 1 + b * 100 + c * 4 + 3) = true := by rw [hl]; simp [hc']
      refine ⟨a * 400 + 1 + b * 100 + c * 4 + 3, 365, by omega, by simp [yearLen, hl'], ?_, ?_⟩
      · rw [dby_year a b c 3 (by omega) hc (by omega)]; omega
      · rw [hy, hl', monthDay_last]
    · have hy : a * 400 + 1 + b * 100 + c * 4 + d - 1 = a * 400 + 1 + 3 * 100 + 24 * 4 + 3 := by omega
      have hl := isLeap_year a 3 24 3 (by omega) (by omega) (by omega) (fun h' => by omega)
      have hl' : isLeap (a * 400 + 1 + 3 * 100 + 24 * 4 + 3) = true := by rw [hl]; simp
      refine ⟨a * 400 + 1 + 3 * 100 + 24 * 4 + 3, 365, by omega, by simp [yearLen, hl'], ?_, ?_⟩
      · rw [dby_year a 3 24 3 (by omega) (by omega) (by omega)]; omega
      · rw [hy, hl', monthDay_last]
  · rename_i h
    have hb3 : b ≤ 3 := by omega
    have hd3 : d ≤ 3 := by omega
    have hl := isLeap_year a b c d hb hc hd3 (fun h' => by omega)
    refine ⟨a * 400 + 1 + b * 100 + c * 4 + d, r1, by omega, by unfold yearLen; omega, ?_, ?_⟩
    · rw [dby_year a b c d hb3 hc hd3]; omega
    · rw [hl]

/-! ### order -/

/-- lexicographic "earlier" on (month, day) -/
def mdLt (p q : Nat × Nat) : Prop := p.1 < q.1 ∨ (p.1 = q.1 ∧ p.2 < q.2)

instance (p q : Nat × Nat) : Decidable (mdLt p q) := by unfold mdLt; exact inferInstance

theorem monthDay_step : ∀ n, n < 365 → ∀ leap : Bool, (n + 1 < 365 ∨ leap = true) →
    mdLt (monthDay leap n) (monthDay leap (n + 1)) := by decide +kernel

theorem mdLt_trans {p q r : Nat × Nat} (h1 : mdLt p q) (h2 : mdLt q r) : mdLt p r := by
  unfold mdLt at *; omega

theorem monthDay_mono (leap : Bool) {n n' : Nat} (h : n < n') (hn' : n' < 365 ∨ (leap = true ∧ n' < 366)) :
    mdLt (monthDay leap n) (monthDay leap n') := by
  induction n' with
  | zero => omega
  | succ k ih =>
    have hstep : mdLt (monthDay leap k) (monthDay leap (k + 1)) :=
      monthDay_step k (by omega) leap (by rcases hn' with h' | h'; exact Or.inl h'; exact Or.inr h'.1)
    by_cases hk : n = k
    · subst hk; exact hstep
    · exact mdLt_trans (ih (by omega) (by omega)) hstep

/-- lexicographic "earlier" on (year, month, day) -/
def ymdLt (p q : Nat × Nat × Nat) : Prop := p.1 < q.1 ∨ (p.1 = q.1 ∧ mdLt p.2 q.2)

/-- the calendar step is strictly monotone -/
theorem ord2ymd_mono {n n' : Nat} (h : n < n') : ymdLt (ord2ymd n) (ord2ymd n') := by
  obtain ⟨y, doy, hy, hdoy, hn, he⟩ := yd_spec n
  obtain ⟨y', doy', hy', hdoy', hn', he'⟩ := yd_spec n'
  rw [he, he']
  unfold ymdLt
  by_cases hlt : y < y'
  · exact Or.inl hlt
  · by_cases heq : y = y'
    · subst heq
      refine Or.inr ⟨rfl, ?_⟩
      apply monthDay_mono _ (by omega)
      unfold yearLen at hdoy'
      cases hl : isLeap y <;> simp [hl] at hdoy' ⊢ <;> omega
    · exfalso
      have h1 : y' + 1 ≤ y := by omega
      have h2 := dby_mono (y := y' + 1) (by omega) h1
      rw [dby_succ y' hy'] at h2
      omega

theorem digit_lt : ∀ a, a < 10 → ∀ b, b < 10 → (digitChar a < digitChar b ↔ a < b) := by decide

theorem lt_append_of_lt {p p' : List Char} (x x' : List Char) (hlen : p.length = p'.length) (h : p < p') :
    p ++ x < p' ++ x' := by
  induction p generalizing p' with
  | nil => cases p' with
    | nil => exact absurd h (List.lt_irrefl _)
    | cons b ps' => simp at hlen
  | cons a ps ih => cases p' with
    | nil => simp at hlen
    | cons b ps' =>
      simp only [List.cons_append, List.cons_lt_cons_iff] at h ⊢
      rcases h with h | ⟨h1, h2⟩
      · exact Or.inl h
      · exact Or.inr ⟨h1, ih (by simpa using hlen) h2⟩

theorem pad2_lt {a b : Nat} (ha : a < 100) (hb : b < 100) (h : a < b) : pad2 a < pad2 b := by
  simp only [pad2, List.cons_lt_cons_iff]
  by_cases h1 : a / 10 % 10 < b / 10 % 10
  · exact Or.inl ((digit_lt _ (by omega) _ (by omega)).mpr h1)
  · exact Or.inr ⟨congrArg digitChar (by omega), Or.inl ((digit_lt _ (by omega) _ (by omega)).mpr (by omega))⟩

theorem pad4_eq (n : Nat) : pad4 n = pad2 (n / 100) ++ pad2 (n % 100) := by
  have e1 : n / 100 / 10 % 10 = n / 1000 % 10 := by omega
  have e2 : n / 100 % 10 = n / 100 % 10 := rfl
  have e3 : n % 100 / 10 % 10 = n / 10 % 10 := by omega
  have e4 : n % 100 % 10 = n % 10 := by omega
  simp [pad4, pad2, e1, e3, e4]

theorem pad4_lt {a b : Nat} (ha : a < 10000) (hb : b < 10000) (h : a < b) : pad4 a < pad4 b := by
  rw [pad4_eq, pad4_eq]
  by_cases h1 : a / 100 < b / 100
  · exact lt_append_of_lt _ _ rfl (pad2_lt (by omega) (by omega) h1)
  · have : a / 100 = b / 100 := by omega
    rw [this]; exact List.append_left_lt (pad2_lt (by omega) (by omega) (by omega))

theorem pad6_eq (n : Nat) : pad6 n = pad2 (n / 10000) ++ pad4 (n % 10000) := by
  have e1 : n / 10000 / 10 % 10 = n / 100000 % 10 := by omega
  have e3 : n % 10000 / 1000 % 10 = n / 1000 % 10 := by omega
  have e4 : n % 10000 / 100 % 10 = n / 100 % 10 := by omega
  have e5 : n % 10000 / 10 % 10 = n / 10 % 10 := by omega
  have e6 : n % 10000 % 10 = n % 10 := by omega
  simp [pad6, pad4, pad2, e1, e3, e4, e5, e6]

theorem pad6_lt {a b : Nat} (ha : a < 1000000) (hb : b < 1000000) (h : a < b) : pad6 a < pad6 b := by
  rw [pad6_eq, pad6_eq]
  by_cases h1 : a / 10000 < b / 10000
  · exact lt_append_of_lt _ _ rfl (pad2_lt (by omega) (by omega) h1)
  · have : a / 10000 = b / 10000 := by omega
    rw [this]; exact List.append_left_lt (pad4_lt (by omega) (by omega) (by omega))

theorem frac_lt {a b : Nat} (ha : a < 1000000) (hb : b < 1000000) (h : a < b) :
    fracChars a ++ utcSuffix < fracChars b ++ utcSuffix := by
  unfold fracChars
  have hb0 : b ≠ 0 := by omega
  by_cases ha0 : a = 0
  · simp only [ha0, hb0, if_true, if_false, List.nil_append, utcSuffix, List.cons_append, List.cons_lt_cons_iff]
    exact Or.inl (by decide)
  · simp only [ha0, hb0, if_false, List.cons_append, List.cons_lt_cons_iff]
    exact Or.inr ⟨trivial, lt_append_of_lt _ _ rfl (pad6_lt ha hb h)⟩

theorem cons_lt {c : Char} {x x' : List Char} (h : x < x') : c :: x < c :: x' :=
  List.cons_lt_cons_iff.mpr (Or.inr ⟨rfl, h⟩)

/-- field by field: an earlier (y, m, d, hh, mm, ss, µs) tuple prints a lexicographically smaller text -/
theorem isoChars_lt {y m d hh mm ss us y' m' d' hh' mm' ss' us' : Nat}
    (hy : y < 10000) (hy' : y' < 10000) (hm : m < 100) (hm' : m' < 100) (hd : d < 100) (hd' : d' < 100)
    (hhh : hh < 100) (hhh' : hh' < 100) (hmm : mm < 100) (hmm' : mm' < 100) (hss : ss < 100) (hss' : ss' < 100)
    (hus : us < 1000000) (hus' : us' < 1000000)
    (h : y < y' ∨ (y = y' ∧ (m < m' ∨ (m = m' ∧ (d < d' ∨ (d = d' ∧ (hh < hh' ∨ (hh = hh' ∧ (mm < mm' ∨ (mm = mm' ∧
      (ss < ss' ∨ (ss = ss' ∧ us < us')))))))))))) :
    isoChars y m d hh mm ss us < isoChars y' m' d' hh' mm' ss' us' := by
  unfold isoChars
  rcases h with h | ⟨rfl, h⟩
  · exact lt_append_of_lt _ _ rfl (pad4_lt hy hy' h)
  apply List.append_left_lt; apply cons_lt
  rcases h with h | ⟨rfl, h⟩
  · exact lt_append_of_lt _ _ rfl (pad2_lt hm hm' h)
  apply List.append_left_lt; apply cons_lt
  rcases h with h | ⟨rfl, h⟩
  · exact lt_append_of_lt _ _ rfl (pad2_lt hd hd' h)
  apply List.append_left_lt; apply cons_lt
  rcases h with h | ⟨rfl, h⟩
  · exact lt_append_of_lt _ _ rfl (pad2_lt hhh hhh' h)
  apply List.append_left_lt; apply cons_lt
  rcases h with h | ⟨rfl, h⟩
  · exact lt_append_of_lt _ _ rfl (pad2_lt hmm hmm' h)
  apply List.append_left_lt; apply cons_lt
  rcases h with h | ⟨rfl, h⟩
  · exact lt_append_of_lt _ _ rfl (pad2_lt hss hss' h)
  apply List.append_left_lt
  exact frac_lt hus hus' h

/-- an earlier instant prints a lexicographically smaller text -/
theorem isoOfInstant_lt {s us s' us' : Nat} (hs : s < maxSecs) (hs' : s' < maxSecs) (hus : us < 1000000)
    (hus' : us' < 1000000) (h : s < s' ∨ (s = s' ∧ us < us')) : isoOfInstant s us < isoOfInstant s' us' := by
  unfold isoOfInstant
  unfold maxSecs at hs hs'
  have hd : s / 86400 < maxDays := by unfold maxDays at *; omega
  have hd' : s' / 86400 < maxDays := by unfold maxDays at *; omega
  obtain ⟨by1, bm1, bd1⟩ := ord2ymd_bounds _ hd
  obtain ⟨by2, bm2, bd2⟩ := ord2ymd_bounds _ hd'
  apply isoChars_lt by1 by2 bm1 bm2 bd1 bd2 (by omega) (by omega) (by omega) (by omega) (by omega) (by omega) hus hus'
  rcases h with h | ⟨rfl, h⟩
  · by_cases hday : s / 86400 < s' / 86400
    · have := ord2ymd_mono hday
      unfold ymdLt mdLt at this
      omega
    · have hday' : s / 86400 = s' / 86400 := by omega
      rw [hday']
      refine Or.inr ⟨rfl, Or.inr ⟨rfl, Or.inr ⟨rfl, ?_⟩⟩⟩
      omega
  · exact Or.inr ⟨rfl, Or.inr ⟨rfl, Or.inr ⟨rfl, Or.inr ⟨rfl, Or.inr ⟨rfl, Or.inr ⟨rfl, h⟩⟩⟩⟩⟩⟩


/-- "a denotes an earlier instant than b" -/
def instantLt (a b : Aware) : Prop :=
  a.wall - a.offset < b.wall - b.offset ∨ (a.wall - a.offset = b.wall - b.offset ∧ a.micros < b.micros)

theorem toUtcIso_of_range (a : Aware) (h : 0 ≤ a.wall - a.offset ∧ a.wall - a.offset < (maxSecs : Int)) :
    toUtcIso a = some (String.ofList (isoOfInstant (a.wall - a.offset).toNat a.micros)) := by
  unfold toUtcIso; exact if_pos h

theorem toUtcIso_of_not_range (a : Aware) (h : ¬ (0 ≤ a.wall - a.offset ∧ a.wall - a.offset < (maxSecs : Int))) :
    toUtcIso a = none := by
  unfold toUtcIso; exact if_neg h

end Time
