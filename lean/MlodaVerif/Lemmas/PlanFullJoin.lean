import MlodaVerif.Lemmas.PlanFullStages
/-! `run_link`: the children that need a link, their reduction to one level, the required uuids of the JoinStep. -/
namespace PlanFull
open Sched OptGroup

theorem nodup_eraseDups_aux : ∀ (n : Nat) (l : List Nat), l.length ≤ n → l.eraseDups.Nodup := by
  intro n
  induction n with
  | zero => intro l h; have : l = [] := List.eq_nil_of_length_eq_zero (by omega); subst this; simp
  | succ n ih =>
    intro l h
    cases l with
    | nil => simp
    | cons a r =>
      rw [List.eraseDups_cons, List.nodup_cons]
      refine ⟨?_, ih _ ?_⟩
      · rw [List.mem_eraseDups]; simp
      · have := List.length_filter_le (fun b => !b == a) r
        simp only [List.length_cons] at h
        omega

theorem nodup_eraseDups (l : List Nat) : l.eraseDups.Nodup := nodup_eraseDups_aux l.length l (Nat.le_refl _)

theorem childrenOf_nodup (data : List (Key × List Nat)) (k : Key) : (childrenOf data k).Nodup := nodup_eraseDups _

theorem mem_childrenOf {data : List (Key × List Nat)} {k : Key} {c : Nat} :
    c ∈ childrenOf data k ↔ ∃ e ∈ data, e.1 = k ∧ c ∈ e.2 := by
  simp only [childrenOf, List.mem_eraseDups, List.mem_flatMap, List.mem_filter, beq_iff_eq]
  constructor
  · rintro ⟨e, ⟨he, hk⟩, hc⟩; exact ⟨e, he, hk, hc⟩
  · rintro ⟨e, he, hk, hc⟩; exact ⟨e, ⟨he, hk⟩, hc⟩

/-! ### `reduce_children_to_one_level` -/

/-- `if c_o_c in children_uuids: new_children_uuids.discard(c_o_c)` -/
def removeStep (ch : List Nat) (new : List Nat) (x : Nat) : List Nat := if x ∈ ch then new.erase x else new

theorem foldl_flatMap {α β γ : Type} (f : β → α → β) (h : γ → List α) :
    ∀ (l : List γ) (b : β), (l.flatMap h).foldl f b = l.foldl (fun b c => (h c).foldl f b) b := by
  intro l
  induction l with
  | nil => intro b; rfl
  | cons c r ih => intro b; rw [List.flatMap_cons, List.foldl_append, List.foldl_cons, ih]

theorem reduceChildren_eq (adj : Nat → List Nat) (ch : List Nat) :
    reduceChildren adj ch = (ch.flatMap adj).foldl (removeStep ch) ch := by
  unfold reduceChildren
  rw [foldl_flatMap]
  rfl

theorem removeFold_spec (ch : List Nat) : ∀ (xs new : List Nat), new.Nodup → (∀ y ∈ new, y ∈ ch) →
    (xs.foldl (removeStep ch) new).Nodup ∧ ∀ y, y ∈ xs.foldl (removeStep ch) new ↔ y ∈ new ∧ y ∉ xs := by
  intro xs
  induction xs with
  | nil => intro new hnd _; exact ⟨hnd, fun y => by simp⟩
  | cons x r ih =>
    intro new hnd hsub
    rw [List.foldl_cons]
    have hstep : removeStep ch new x = if x ∈ ch then new.erase x else new := rfl
    rw [hstep]
    split
    · rename_i hx
      obtain ⟨h1, h2⟩ := ih (new.erase x) (hnd.erase x) (fun y hy => hsub y (List.mem_of_mem_erase hy))
      refine ⟨h1, fun y => ?_⟩
      rw [h2, hnd.mem_erase_iff]
      simp only [List.mem_cons, not_or]
      constructor
      · rintro ⟨⟨hne, hy⟩, hr⟩; exact ⟨hy, hne, hr⟩
      · rintro ⟨hy, hne, hr⟩; exact ⟨⟨hne, hy⟩, hr⟩
    · rename_i hx
      obtain ⟨h1, h2⟩ := ih new hnd hsub
      refine ⟨h1, fun y => ?_⟩
      rw [h2]
      simp only [List.mem_cons, not_or]
      constructor
      · rintro ⟨hy, hr⟩; exact ⟨hy, fun h => hx (h ▸ hsub y hy), hr⟩
      · rintro ⟨hy, _, hr⟩; exact ⟨hy, hr⟩

/-- the reduced children are the children that are not a direct child of another child -/
theorem reduceChildren_spec {adj : Nat → List Nat} {ch : List Nat} (hnd : ch.Nodup) :
    (reduceChildren adj ch).Nodup ∧ ∀ x, x ∈ reduceChildren adj ch ↔ x ∈ ch ∧ ∀ c ∈ ch, x ∉ adj c := by
  rw [reduceChildren_eq]
  obtain ⟨h1, h2⟩ := removeFold_spec ch (ch.flatMap adj) ch hnd (fun _ h => h)
  refine ⟨h1, fun x => ?_⟩
  rw [h2]
  simp only [List.mem_flatMap, not_exists, not_and]

/-! ### `run_link` -/

theorem mem_joinReq {g : Graph} {t : Trek} {link : Nat} {red : List Nat} {u : Nat} :
    u ∈ joinReq g t link red ↔ (∃ c ∈ red, u ∈ g.anc c) ∨ (∃ e ∈ t.order, link ∈ e.2 ∧ u = e.1) := by
  simp only [joinReq, List.mem_eraseDups, List.mem_append, List.mem_flatMap, List.mem_map, List.mem_filter, decide_eq_true_eq]
  constructor
  · rintro (h | ⟨e, ⟨he, hl⟩, rfl⟩)
    · exact Or.inl h
    · exact Or.inr ⟨e, he, hl, rfl⟩
  · rintro (h | ⟨e, he, hl, rfl⟩)
    · exact Or.inl h
    · exact Or.inr ⟨e, ⟨he, hl⟩, rfl⟩

/-- what `run_link` returns when it returns a JoinStep -/
theorem runLink_some {g : Graph} {t : Trek} {linfo : Nat → LinkInfo} {o : Ord} {fsc : List (List Nat)} {n : Nat} {k : Key}
    {js : PStep} (h : runLink g t linfo o fsc n k = .ok (some js)) :
    ∃ lf rf ch l r, linkChildren t (linfo k.link) k = .ok (lf, rf, ch) ∧
      validLoop g k (linfo k.link) fsc (iterAt o 2 (reduceChildren g.adj ch))
        ((((reduceChildren g.adj ch).flatMap g.anc).eraseDups).filter (fun u => g.fw u == lf),
         (((reduceChildren g.adj ch).flatMap g.anc).eraseDups).filter (fun u => g.fw u == rf))
          = .ok (some (l, r)) ∧
      js = { kind := .join, uuid := n, outs := [n, k.link], req := joinReq g t k.link (reduceChildren g.adj ch), fw := lf, fw2 := rf,
             link := some k.link, jt := (linfo k.link).jt, lfu := l, rfu := r } := by
  unfold runLink at h
  simp only at h
  cases hlc : linkChildren t (linfo k.link) k with
  | error e => rw [hlc] at h; cases h
  | ok r1 =>
    obtain ⟨lf, rf, ch⟩ := r1
    rw [hlc] at h
    simp only at h
    cases hv : validLoop g k (linfo k.link) fsc (iterAt o 2 (reduceChildren g.adj ch))
        ((((reduceChildren g.adj ch).flatMap g.anc).eraseDups).filter (fun u => g.fw u == lf),
         (((reduceChildren g.adj ch).flatMap g.anc).eraseDups).filter (fun u => g.fw u == rf)) with
    | error e => rw [hv] at h; cases h
    | ok r2 =>
      rw [hv] at h
      cases r2 with
      | none => cases h
      | some lr =>
        obtain ⟨l, r⟩ := lr
        simp only at h
        split at h
        · cases h
        · cases h
          exact ⟨lf, rf, ch, l, r, rfl, hv, rfl⟩

theorem linkChildren_children {t : Trek} {li : LinkInfo} {k : Key} {lf rf : Nat} {ch : List Nat}
    (h : linkChildren t li k = .ok (lf, rf, ch)) :
    ch.Nodup ∧ ch ≠ [] ∧ (ch = childrenOf t.data k ∨ ch = childrenOf t.data { k with left := k.right, right := k.left }) := by
  unfold linkChildren at h
  simp only at h
  split at h
  · split at h
    · cases h
    · rename_i hne
      cases h
      exact ⟨childrenOf_nodup _ _, by intro h; apply hne; simp [h], Or.inr rfl⟩
  · rename_i hne
    split at h <;> (cases h; exact ⟨childrenOf_nodup _ _, by intro h; apply hne; simp [h], Or.inl rfl⟩)

end PlanFull
