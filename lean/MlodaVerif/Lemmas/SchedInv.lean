import MlodaVerif.Model.Sched
/-! Invariant of the orchestrator model and its preservation by every event. -/

namespace Sched

structure SInv (p : Plan) (s : St) : Prop where
  started_nodup : s.started.Nodup
  begun_nodup : s.begun.Nodup
  begun_sub : ∀ i ∈ s.begun, i ∈ s.started
  done_sub : ∀ i ∈ s.done, i ∈ s.begun
  failed_sub : ∀ i ∈ s.failed, i ∈ s.started
  done_failed : ∀ i ∈ s.done, i ∉ s.failed
  coll_sub : ∀ i ∈ s.collected, i ∈ s.done
  started_valid : ∀ i ∈ s.started, ∃ st, p[i]? = some st
  run_outs : ∀ i ∈ s.started, i ∉ s.collected → ∀ st, p[i]? = some st → ∀ u ∈ st.outs, u ∈ s.running
  coll_outs : ∀ i ∈ s.collected, ∀ st, p[i]? = some st → ∀ u ∈ st.outs, u ∈ s.finished
  run_owner : ∀ u ∈ s.running, ∃ i st, i ∈ s.started ∧ i ∉ s.collected ∧ p[i]? = some st ∧ u ∈ st.outs
  fin_owner : ∀ u ∈ s.finished, ∃ i st, i ∈ s.collected ∧ p[i]? = some st ∧ u ∈ st.outs
  err_failed : ∀ e, s.err = some e → e ∈ s.failed
  raised_failed : ∀ e, s.raised = some e → e ∈ s.failed
  err_of_failed : s.failed ≠ [] → s.err.isSome
  pending_coll : ∀ i ∈ s.pending, i ∈ s.collected
  yielded_coll : ∀ i ∈ s.yielded, i ∈ s.collected
  coll_nodup : s.collected.Nodup

theorem sinv_init (p : Plan) : SInv p init := by
  constructor <;> simp [init]

theorem mem_head_of_currentlyRunning {outs running : List Nat} (h : currentlyRunning outs running = some false)
    (hall : ∀ u ∈ outs, u ∈ running) : False := by
  cases outs with
  | nil => simp [currentlyRunning] at h
  | cons u us => simp [currentlyRunning] at h; exact h (hall u (by simp))

theorem currentlyRunning_true {outs running : List Nat} (h : currentlyRunning outs running = some true) :
    ∃ u ∈ outs, u ∈ running := by
  cases outs with
  | nil => simp [currentlyRunning] at h
  | cons u us => simp [currentlyRunning] at h; exact ⟨u, by simp, h⟩

theorem not_started_of_startable {p : Plan} {s : St} (hi : SInv p s) {i : Nat} {st : Step}
    (hst : p[i]? = some st) (hnd : isStepDone st.outs s.finished = false)
    (hcr : currentlyRunning st.outs s.running = some false) : i ∉ s.started := by
  intro hmem
  by_cases hc : i ∈ s.collected
  · have := hi.coll_outs i hc st hst
    simp [isStepDone] at hnd
    obtain ⟨u, hu, hnu⟩ := hnd
    exact hnu (this u hu)
  · exact mem_head_of_currentlyRunning hcr (hi.run_outs i hmem hc st hst)

/-- the invariant is preserved by every event (needs disjoint outputs for the collect branch) -/
theorem sinv_step {p : Plan} (hd : DisjointOuts p) {s : St} (hi : SInv p s) (e : Ev) : SInv p (stepEv p s e) := by
  cases e with
  | scan i =>
    simp only [stepEv]
    split
    · exact hi
    · split
      · exact hi
      · rename_i st hst
        split
        · exact hi
        · rename_i hnd
          split
          · exact hi
          · -- currently running
            rename_i hcr
            split
            · rename_i hdone
              simp only [markFinished]
              have hstarted : i ∈ s.started := hi.begun_sub i (hi.done_sub i hdone)
              constructor
              · exact hi.started_nodup
              · exact hi.begun_nodup
              · exact hi.begun_sub
              · exact hi.done_sub
              · exact hi.failed_sub
              · exact hi.done_failed
              · intro j hj; simp at hj; rcases hj with rfl | hj
                · exact hdone
                · exact hi.coll_sub j hj
              · exact hi.started_valid
              · intro j hj hnc sj hsj u hu
                simp at hnc
                have := hi.run_outs j hj hnc.2 sj hsj u hu
                simp only [List.mem_filter, decide_eq_true_eq]
                refine ⟨this, ?_⟩
                intro hui
                exact hnc.1 (hd j i sj st hsj hst u hu hui)
              · intro j hj sj hsj u hu
                simp at hj
                simp only [List.mem_append, List.mem_filter, decide_eq_true_eq]
                rcases hj with rfl | hj
                · have : sj = st := by rw [hst] at hsj; exact (Option.some.inj hsj).symm
                  subst this
                  by_cases hf : u ∈ s.finished
                  · exact Or.inl hf
                  · exact Or.inr ⟨hu, hf⟩
                · exact Or.inl (hi.coll_outs j hj sj hsj u hu)
              · intro u hu
                simp only [List.mem_filter, decide_eq_true_eq] at hu
                obtain ⟨j, sj, hj1, hj2, hj3, hj4⟩ := hi.run_owner u hu.1
                refine ⟨j, sj, hj1, ?_, hj3, hj4⟩
                simp
                refine ⟨?_, hj2⟩
                rintro rfl
                have : sj = st := by rw [hst] at hj3; exact (Option.some.inj hj3).symm
                subst this
                exact hu.2 hj4
              · intro u hu
                simp only [List.mem_append, List.mem_filter, decide_eq_true_eq] at hu
                rcases hu with hu | hu
                · obtain ⟨j, sj, hj1, hj2, hj3⟩ := hi.fin_owner u hu
                  exact ⟨j, sj, by simp [hj1], hj2, hj3⟩
                · exact ⟨i, st, by simp, hst, hu.1⟩
              · exact hi.err_failed
              · exact hi.raised_failed
              · exact hi.err_of_failed
              · intro j hj
                simp
                split at hj
                · simp at hj; rcases hj with hj | rfl
                  · exact Or.inr (hi.pending_coll j hj)
                  · exact Or.inl rfl
                · exact Or.inr (hi.pending_coll j hj)
              · intro j hj; simp; exact Or.inr (hi.yielded_coll j hj)
              · have hnc : i ∉ s.collected := by
                  intro hc
                  have hall := hi.coll_outs i hc st hst
                  have : isStepDone st.outs s.finished = true := by
                    simp [isStepDone]; exact hall
                  exact hnd this
                simp [hnc, hi.coll_nodup]
            · exact hi
          · -- not running: maybe start
            rename_i hcr
            split
            · have hns : i ∉ s.started := not_started_of_startable hi hst (by simpa using hnd) hcr
              have hnc : i ∉ s.collected := fun h => hns (hi.begun_sub i (hi.done_sub i (hi.coll_sub i h)))
              constructor
              · simp [hns, hi.started_nodup]
              · exact hi.begun_nodup
              · intro j hj; simp; exact Or.inr (hi.begun_sub j hj)
              · exact hi.done_sub
              · intro j hj; simp; exact Or.inr (hi.failed_sub j hj)
              · exact hi.done_failed
              · exact hi.coll_sub
              · intro j hj; simp at hj; rcases hj with rfl | hj
                · exact ⟨st, hst⟩
                · exact hi.started_valid j hj
              · intro j hj hjc sj hsj u hu
                simp at hj
                simp only [List.mem_append]
                rcases hj with rfl | hj
                · have : sj = st := by rw [hst] at hsj; exact (Option.some.inj hsj).symm
                  subst this; exact Or.inr hu
                · exact Or.inl (hi.run_outs j hj hjc sj hsj u hu)
              · exact hi.coll_outs
              · intro u hu
                simp only [List.mem_append] at hu
                rcases hu with hu | hu
                · obtain ⟨j, sj, hj1, hj2, hj3, hj4⟩ := hi.run_owner u hu
                  exact ⟨j, sj, by simp [hj1], hj2, hj3, hj4⟩
                · exact ⟨i, st, by simp, hnc, hst, hu⟩
              · exact hi.fin_owner
              · exact hi.err_failed
              · exact hi.raised_failed
              · exact hi.err_of_failed
              · exact hi.pending_coll
              · exact hi.yielded_coll
              · exact hi.coll_nodup
            · exact hi
  | begin i =>
    simp only [stepEv]
    split
    · rename_i h
      constructor
      · exact hi.started_nodup
      · simp [h.2.1, hi.begun_nodup]
      · intro j hj; simp at hj; rcases hj with rfl | hj
        · exact h.1
        · exact hi.begun_sub j hj
      · intro j hj; simp; exact Or.inr (hi.done_sub j hj)
      · exact hi.failed_sub
      · exact hi.done_failed
      · exact hi.coll_sub
      · exact hi.started_valid
      · exact hi.run_outs
      · exact hi.coll_outs
      · exact hi.run_owner
      · exact hi.fin_owner
      · exact hi.err_failed
      · exact hi.raised_failed
      · exact hi.err_of_failed
      · exact hi.pending_coll
      · exact hi.yielded_coll
      · exact hi.coll_nodup
    · exact hi
  | finish i =>
    simp only [stepEv]
    split
    · rename_i h
      constructor
      · exact hi.started_nodup
      · exact hi.begun_nodup
      · exact hi.begun_sub
      · intro j hj; simp at hj; rcases hj with rfl | hj
        · exact h.1
        · exact hi.done_sub j hj
      · exact hi.failed_sub
      · intro j hj; simp at hj; rcases hj with rfl | hj
        · exact h.2.2
        · exact hi.done_failed j hj
      · intro j hj; simp; exact Or.inr (hi.coll_sub j hj)
      · exact hi.started_valid
      · exact hi.run_outs
      · exact hi.coll_outs
      · exact hi.run_owner
      · exact hi.fin_owner
      · exact hi.err_failed
      · exact hi.raised_failed
      · exact hi.err_of_failed
      · exact hi.pending_coll
      · exact hi.yielded_coll
      · exact hi.coll_nodup
    · exact hi
  | fail i =>
    simp only [stepEv]
    split
    · rename_i h
      constructor
      · exact hi.started_nodup
      · exact hi.begun_nodup
      · exact hi.begun_sub
      · exact hi.done_sub
      · intro j hj; simp at hj; rcases hj with rfl | hj
        · exact h.1
        · exact hi.failed_sub j hj
      · intro j hj; simp; constructor
        · rintro rfl; exact h.2.1 hj
        · exact hi.done_failed j hj
      · exact hi.coll_sub
      · exact hi.started_valid
      · exact hi.run_outs
      · exact hi.coll_outs
      · exact hi.run_owner
      · exact hi.fin_owner
      · intro e he; simp at he; subst he; simp
      · intro e he; simp; exact Or.inr (hi.raised_failed e he)
      · intro _; simp
      · exact hi.pending_coll
      · exact hi.yielded_coll
      · exact hi.coll_nodup
    · exact hi
  | loopHead =>
    simp only [stepEv]
    split
    · exact hi
    · have base : SInv p { s with yielded := s.yielded ++ s.pending.reverse, pending := [] } := by
        constructor
        · exact hi.started_nodup
        · exact hi.begun_nodup
        · exact hi.begun_sub
        · exact hi.done_sub
        · exact hi.failed_sub
        · exact hi.done_failed
        · exact hi.coll_sub
        · exact hi.started_valid
        · exact hi.run_outs
        · exact hi.coll_outs
        · exact hi.run_owner
        · exact hi.fin_owner
        · exact hi.err_failed
        · exact hi.raised_failed
        · exact hi.err_of_failed
        · intro j hj; simp at hj
        · intro j hj; simp at hj; rcases hj with hj | hj
          · exact hi.yielded_coll j hj
          · exact hi.pending_coll j hj
        · exact hi.coll_nodup
      split
      · exact { base with }
      · split
        · rename_i e he
          refine { base with raised_failed := ?_ }
          intro e' he'
          simp at he'
          subst he'
          exact hi.err_failed e he
        · exact { base with }

theorem sinv_run {p : Plan} (hd : DisjointOuts p) (evs : List Ev) {s : St} (hi : SInv p s) :
    SInv p (run p s evs) := by
  induction evs generalizing s with
  | nil => exact hi
  | cons e es ih => exact ih (sinv_step hd hi e)

theorem sinv_reach {p : Plan} (hd : DisjointOuts p) {s : St} (hr : Reach p s) : SInv p s := by
  obtain ⟨evs, rfl⟩ := hr
  exact sinv_run hd evs (sinv_init p)

end Sched
