import MlodaVerif.Lemmas.EngineTop
import MlodaVerif.Model.EngineWorld
/-! # Recursion budget: more fuel does not change a successful run; a group whose inputs never repeat exhausts every budget -/
namespace EngineColl
open Graph (Dict dget dset sadd)

theorem foldlM_mono {α β ε : Type} (f1 f2 : β → α → Except ε β) (hm : ∀ b a b', f1 b a = .ok b' → f2 b a = .ok b') :
    ∀ (l : List α) (b b' : β), l.foldlM f1 b = .ok b' → l.foldlM f2 b = .ok b' := by
  intro l
  induction l with
  | nil => intro b b' h; rw [foldlM_nil_ok] at h ⊢; exact h
  | cons a l ih =>
    intro b b' h
    rw [foldlM_cons_ok] at h ⊢
    obtain ⟨b1, h1, h2⟩ := h
    exact ⟨b1, hm _ _ _ h1, ih _ _ h2⟩

theorem procStep_mono {w : World} {r1 r2 : St → Option Nat → Feat → Except Err St}
    (hm : ∀ s c x s', r1 s c x = .ok s' → r2 s c x = .ok s') {st : St} {cu : Option Nat} {f : Feat} {st' : St}
    (h : procStep w r1 st cu f = .ok st') : procStep w r2 st cu f = .ok st' := by
  unfold procStep at h ⊢
  cases hp : prepare w st.links f with
  | error e => rw [hp] at h; simp at h
  | ok gf =>
    obtain ⟨g, f3⟩ := gf
    rw [hp] at h
    simp only at h ⊢
    cases ha : addFeature w st g f3 cu false with
    | error e => rw [ha] at h; simp at h
    | ok r =>
      obtain ⟨st1, added⟩ := r
      rw [ha] at h
      simp only at h ⊢
      cases added with
      | false => exact h
      | true =>
        simp only [if_true] at h ⊢
        cases hin : w.inputs g f3.key with
        | none => rw [hin] at h; exact h
        | some ts =>
          cases ts with
          | nil => rw [hin] at h; exact h
          | cons t ts =>
            rw [hin] at h
            simp only at h ⊢
            cases hmk : mkInputs f3.key (t :: ts) st1.next with
            | error e => rw [hmk] at h; simp at h
            | ok fs =>
              rw [hmk] at h
              simp only at h ⊢
              cases hc : fs.foldlM (fun s x => r1 s (some f3.uuid) x)
                  { st1 with flp := dset st1.flp f3.uuid (fs.map (·.uuid)), next := st1.next + (t :: ts).length } with
              | error e => rw [hc] at h; simp at h
              | ok st2 =>
                rw [hc] at h
                rw [foldlM_mono _ (fun s x => r2 s (some f3.uuid) x) (fun b a b' hh => hm _ _ _ _ hh) fs _ _ hc]
                exact h

theorem proc_fuel_succ (w : World) : ∀ (fuel : Nat) (st : St) (cu : Option Nat) (f : Feat) (st' : St),
    proc w fuel st cu f = .ok st' → proc w (fuel + 1) st cu f = .ok st' := by
  intro fuel
  induction fuel with
  | zero => intro st cu f st' h; simp [proc] at h
  | succ n ih =>
    intro st cu f st' h
    rw [proc] at h ⊢
    exact procStep_mono (fun s c x s' hh => ih s c x s' hh) h

theorem proc_fuel_mono (w : World) (fuel : Nat) (st : St) (cu : Option Nat) (f : Feat) (st' : St)
    (h : proc w fuel st cu f = .ok st') : ∀ extra, proc w (fuel + extra) st cu f = .ok st' := by
  intro extra
  induction extra with
  | zero => exact h
  | succ n ih => exact proc_fuel_succ w _ _ _ _ _ ih

theorem run_fuel_mono {w : World} {fuel : Nat} {L : Option (List Link)} {req : List Feat} {st : St}
    (h : run w fuel L req = .ok st) (extra : Nat) : run w (fuel + extra) L req = .ok st := by
  unfold run at h ⊢
  cases hm : mkRequest req with
  | error e => rw [hm] at h; simp at h
  | ok fs =>
    rw [hm] at h
    simp only at h ⊢
    unfold procAll at h ⊢
    exact foldlM_mono _ _ (fun b a b' hh => proc_fuel_mono w fuel b none a b' hh extra) fs _ _ h

/-! ## enough fuel: a world whose input features go down a rank never runs out of fuel -/

theorem foldlM_ne {α β : Type} (f : β → α → Except Err β) (e0 : Err) : ∀ (l : List α) (b : β),
    (∀ a ∈ l, ∀ s, f s a ≠ .error e0) → l.foldlM f b ≠ .error e0 := by
  intro l
  induction l with
  | nil => intro b _; simp [List.foldlM_nil, pure, Except.pure]
  | cons a l ih =>
    intro b h
    simp only [List.foldlM_cons, bind, Except.bind]
    cases hfa : f b a with
    | error e =>
      simp only
      intro hc
      simp only [Except.error.injEq] at hc
      exact h a List.mem_cons_self b (by rw [hfa, hc])
    | ok b1 =>
      simp only
      exact ih b1 (fun x hx s => h x (List.mem_cons_of_mem _ hx) s)

theorem addFeature_ne_fuel (w : World) (st : St) (g : Nat) (f : Feat) (cu : Option Nat) (ix : Bool) :
    addFeature w st g f cu ix ≠ .error .fuel := by
  unfold addFeature
  split
  · cases cu with
    | none => simp
    | some c =>
      simp only
      split
      · simp
      · split
        · rename_i e hs
          intro hc
          simp only [Except.error.injEq] at hc
          subst hc
          -- `scan` only raises `domainScan`
          have : ∀ (es : List (Nat × Feat)), scan f.key es ≠ .error .fuel := by
            intro es
            induction es with
            | nil => simp [scan]
            | cons x xs ih =>
              unfold scan
              split
              · simp
              · simp
              · exact ih
          exact this _ hs
        · simp
        · simp
  · simp

theorem dupCheck_ne_fuel (k : Key) : ∀ (acc : List Feat), dupCheck k acc ≠ .error .fuel := by
  intro acc
  induction acc with
  | nil => simp [dupCheck]
  | cons x xs ih =>
    unfold dupCheck
    split
    · rename_i e he
      intro hc
      simp only [Except.error.injEq] at hc
      subst hc
      unfold feqE at he
      split at he
      · split at he <;> simp at he
      · simp at he
    · simp
    · exact ih

theorem mkInput_ne_fuel (p : Key) (t : Feat) (u : Nat) : mkInput p t u ≠ .error .fuel := by
  unfold mkInput
  split
  · rename_i e he
    intro hc
    simp only [Except.error.injEq] at hc
    subst hc
    unfold mergeOpts at he
    split at he
    · simp at he
    · split at he <;> simp at he
  · simp

theorem buildFeatures_ne_fuel (p : Key) : ∀ (ts : List Feat) (n : Nat) (acc : List Feat), buildFeatures p ts n acc ≠ .error .fuel := by
  intro ts
  induction ts with
  | nil => intro n acc; simp [buildFeatures]
  | cons t ts ih =>
    intro n acc
    unfold buildFeatures
    split
    · rename_i e he
      intro hc
      simp only [Except.error.injEq] at hc
      subst hc
      exact mkInput_ne_fuel _ _ _ he
    · split
      · rename_i e he
        intro hc
        simp only [Except.error.injEq] at hc
        subst hc
        exact dupCheck_ne_fuel _ _ he
      · exact ih _ _

theorem filterDomain_ne_fuel (a b : Option Nat) (g : Nat) : filterDomain a b g ≠ .error .fuel := by
  unfold filterDomain
  cases a with
  | none =>
    cases b with
    | none =>
      simp only
      by_cases h : g ≠ defaultDom <;> simp [h]
    | some d => simp
  | some fd =>
    cases b with
    | none => by_cases h : g = fd <;> simp [h]
    | some d => simp

theorem matchedFilters_ne_fuel (w : World) (g : Nat) (k : Key) : ∀ (fl acc : List Filt), matchedFilters w g k fl acc ≠ .error .fuel := by
  intro fl
  induction fl with
  | nil => intro acc; simp [matchedFilters]
  | cons x xs ih =>
    intro acc
    unfold matchedFilters
    split
    · rename_i e he
      intro hc
      simp only [Except.error.injEq] at hc
      subst hc
      unfold matchFilter at he
      simp only at he
      split at he
      · simp at he
      · split at he
        · rename_i e' hd
          simp only [Except.error.injEq] at he
          subst he
          exact filterDomain_ne_fuel _ _ _ hd
        · simp at he
        · split at he <;> simp at he
    · exact ih _
    · exact ih _

theorem addFilters_ne_fuel (w : World) (st : St) (g : Nat) (f : Feat) (cu : Option Nat) : addFilters w st g f cu ≠ .error .fuel := by
  unfold addFilters
  split
  · simp
  · split
    · rename_i e he
      intro hc
      simp only [Except.error.injEq] at hc
      subst hc
      exact matchedFilters_ne_fuel _ _ _ _ _ he
    · split
      · simp
      · apply foldlM_ne
        intro m _ s
        unfold addFilterOne
        simp only
        split
        · rename_i e he
          intro hc
          simp only [Except.error.injEq] at hc
          subst hc
          exact addFeature_ne_fuel _ _ _ _ _ _ he
        · simp

theorem addIndexOne_ne_fuel (w : World) (g : Nat) (f : Feat) (cu : Option Nat) (ix : List Name) (s : St) :
    addIndexOne w g f cu ix s ≠ .error .fuel := by
  unfold addIndexOne
  split
  · rename_i e he
    intro hc
    simp only [Except.error.injEq] at hc
    subst hc
    unfold indexFeat at he
    split at he <;> simp at he
  · split
    · rename_i e he
      intro hc
      simp only [Except.error.injEq] at hc
      subst hc
      exact addFeature_ne_fuel _ _ _ _ _ _ he
    · simp

theorem addIndexes_ne_fuel (w : World) (st : St) (g : Nat) (f : Feat) (cu : Option Nat) : addIndexes w st g f cu ≠ .error .fuel := by
  unfold addIndexes
  split
  · simp
  · split
    · simp
    · apply foldlM_ne
      intro ix _ s
      apply foldlM_ne
      intro l _ s1
      unfold addIndexLink
      split
      · rename_i e he
        intro hc
        simp only [Except.error.injEq] at hc
        subst hc
        split at he
        · exact addIndexOne_ne_fuel _ _ _ _ _ _ he
        · simp at he
      · split
        · exact addIndexOne_ne_fuel _ _ _ _ _ _
        · simp

theorem setCfw_ne_fuel (w : World) (k : Key) (cfws : List Nat) : setCfw w k cfws ≠ .error .fuel := by
  unfold setCfw
  by_cases h1 : cfwSet k.cfw = true
  · rw [if_pos h1]
    by_cases h2 : getCfw w k.cfw ∈ cfws
    · rw [if_pos h2]; simp
    · rw [if_neg h2]; simp
  · rw [if_neg h1]; simp

theorem setDtype_ne_fuel (w : World) (g : Nat) (k : Key) : setDtype w g k ≠ .error .fuel := by
  unfold setDtype
  cases k.dtype with
  | none => cases w.typeRule g k <;> simp
  | some a =>
    cases w.typeRule g k with
    | none => simp
    | some b => by_cases h : a = b <;> simp [h]

theorem prepare_ne_fuel {w : World} (hres : ∀ L k, w.resolve L k ≠ .error .fuel) (L : Option (List Link)) (f : Feat) :
    prepare w L f ≠ .error .fuel := by
  unfold prepare prepareK
  cases hr : w.resolve L f.key with
  | error e =>
    simp only
    intro hc
    simp only [Except.error.injEq] at hc
    subst hc
    exact hres L f.key hr
  | ok r =>
    obtain ⟨g, cfws⟩ := r
    simp only
    cases hc : setCfw w { f.key with name := w.setName g f.key } cfws with
    | error e =>
      simp only
      intro hh
      simp only [Except.error.injEq] at hh
      subst hh
      exact setCfw_ne_fuel _ _ _ hc
    | ok k2 =>
      simp only
      cases hd : setDtype w g k2 with
      | error e =>
        simp only
        intro hh
        simp only [Except.error.injEq] at hh
        subst hh
        exact setDtype_ne_fuel _ _ _ hd
      | ok k3 => simp

/-- one level of `_process_feature` does not run out of fuel when the recursive calls for its input features do not -/
theorem procStep_ne_fuel {w : World} {rec : St → Option Nat → Feat → Except Err St} {st : St} {cu : Option Nat} {f : Feat}
    (hres : ∀ L k, w.resolve L k ≠ .error .fuel)
    (hrec : ∀ g f3 ts fs n x, prepare w st.links f = .ok (g, f3) → w.inputs g f3.key = some ts → mkInputs f3.key ts n = .ok fs → x ∈ fs →
      ∀ s, rec s (some f3.uuid) x ≠ .error .fuel) : procStep w rec st cu f ≠ .error .fuel := by
  unfold procStep
  cases hp : prepare w st.links f with
  | error e =>
    simp only
    intro hc
    simp only [Except.error.injEq] at hc
    subst hc
    exact prepare_ne_fuel hres _ _ hp
  | ok gf =>
    obtain ⟨g, f3⟩ := gf
    simp only
    cases ha : addFeature w st g f3 cu false with
    | error e =>
      simp only
      intro hc
      simp only [Except.error.injEq] at hc
      subst hc
      exact addFeature_ne_fuel _ _ _ _ _ _ ha
    | ok r =>
      obtain ⟨st1, added⟩ := r
      simp only
      have htail : ∀ (r : Except Err St), r ≠ .error .fuel →
          (match r with
            | .error e => .error e
            | .ok st2 => match addFilters w st2 g f3 cu with
              | .error e => .error e
              | .ok st3 => addIndexes w st3 g f3 cu) ≠ (.error .fuel : Except Err St) := by
        intro r hr
        cases r with
        | error e =>
          simp only
          intro hc
          simp only [Except.error.injEq] at hc
          subst hc
          exact hr rfl
        | ok st2 =>
          simp only
          cases hf : addFilters w st2 g f3 cu with
          | error e =>
            simp only
            intro hc
            simp only [Except.error.injEq] at hc
            subst hc
            exact addFilters_ne_fuel _ _ _ _ _ hf
          | ok st3 => exact addIndexes_ne_fuel _ _ _ _ _
      apply htail
      cases added with
      | false => simp
      | true =>
        simp only [if_true]
        cases hin : w.inputs g f3.key with
        | none => simp
        | some ts =>
          cases ts with
          | nil => simp
          | cons t ts =>
            simp only
            cases hm : mkInputs f3.key (t :: ts) st1.next with
            | error e =>
              simp only
              intro hc
              simp only [Except.error.injEq] at hc
              subst hc
              exact buildFeatures_ne_fuel _ _ _ _ hm
            | ok fs =>
              simp only
              apply foldlM_ne
              intro x hx s
              exact hrec g f3 (t :: ts) fs st1.next x hp hin hm hx s

/-- with a rank that goes down along `input_features` (for every set of links), `rank + 2` levels are enough: the run never ends in `Err.fuel` -/
theorem proc_enough_fuel {w : World} (rank : Key → Nat) (hres : ∀ L k, w.resolve L k ≠ .error .fuel)
    (hrank : ∀ L g p ts t u t' g' f', w.inputs g p = some ts → t ∈ ts → mkInput p t u = .ok t' → prepare w L t' = .ok (g', f') →
      rank f'.key < rank p) :
    ∀ (n : Nat) (st : St) (cu : Option Nat) (f : Feat), (∀ g f3, prepare w st.links f = .ok (g, f3) → rank f3.key < n) →
      proc w (n + 1) st cu f ≠ .error .fuel := by
  intro n
  induction n with
  | zero =>
    intro st cu f h
    rw [proc]
    apply procStep_ne_fuel hres
    intro g f3 ts fs n x hp _ _ _ s
    exact absurd (h g f3 hp) (Nat.not_lt_zero _)
  | succ n ih =>
    intro st cu f h
    rw [proc]
    apply procStep_ne_fuel hres
    intro g f3 ts fs m x hp hin hm hx s
    apply ih
    intro g' f' hpx
    obtain ⟨t, ht, u, _, _, hmk⟩ := mkInputs_mem hm x hx
    have h1 := hrank s.links g f3.key ts t u x g' f' hin ht hmk hpx
    have h2 := h g f3 hp
    omega

theorem run_enough_fuel {w : World} (rank : Key → Nat) (hres : ∀ L k, w.resolve L k ≠ .error .fuel)
    (hrank : ∀ L g p ts t u t' g' f', w.inputs g p = some ts → t ∈ ts → mkInput p t u = .ok t' → prepare w L t' = .ok (g', f') →
      rank f'.key < rank p)
    (n : Nat) (L : Option (List Link)) (req : List Feat) (hreq : ∀ q ∈ req, ∀ L' g f, prepare w L' q = .ok (g, f) → rank f.key < n) :
    run w (n + 1) L req ≠ .error .fuel := by
  unfold run
  cases hm : mkRequest req with
  | error e =>
    simp only
    intro hc
    simp only [Except.error.injEq] at hc
    subst hc
    have : ∀ (fs acc : List Feat), requestLoop fs acc ≠ .error .fuel := by
      intro fs
      induction fs with
      | nil => intro acc; simp [requestLoop]
      | cons x xs ih =>
        intro acc
        unfold requestLoop
        split
        · rename_i e he
          intro hc
          simp only [Except.error.injEq] at hc
          subst hc
          exact dupCheck_ne_fuel _ _ he
        · exact ih _
    exact this _ _ hm
  | ok fs =>
    simp only
    have hfs : fs = req := by simpa using requestLoop_eq req [] fs hm
    subst hfs
    unfold procAll
    apply foldlM_ne
    intro q hq s
    exact proc_enough_fuel rank hres hrank n s none q (fun g f3 hp => hreq q hq s.links g f3 hp)

/-! ## the unbounded chain -/

/-- the input feature of `k` in the chain world -/
def chainInput (k : Key) (u : Nat) : Feat :=
  { key := { name := k.name ++ [113], grp := [], ctx := [], dom := k.dom, cfw := none, dtype := none, child := some [] }, req := false, uuid := u, link := none }

open EngineWorld in
/-- in the chain world a feature whose name is longer than every collected name is new, and so is its input: the recursion only ends with
the fuel -/
theorem chain_proc : ∀ (fuel : Nat) (st : St) (cu : Option Nat) (f : Feat),
    f.key.grp = [] → f.key.ctx = [] → f.key.cfw = none → (∀ e ∈ st.coll, e.2.key.name.length < f.key.name.length) →
    proc chainWorld fuel st cu f = .error .fuel := by
  intro fuel
  induction fuel with
  | zero => intro st cu f _ _ _ _; rfl
  | succ n ih =>
    intro st cu f hg hc hcf hlen
    rw [proc]
    unfold procStep
    have hprep : prepare chainWorld st.links f = .ok (0, { f with key := { f.key with cfw := some [0] } }) := by
      unfold prepare prepareK
      simp only [chainWorld, setCfw, setDtype, getCfw, hcf, cfwSet]
      simp
    rw [hprep]
    simp only
    have hnew : inColl st.coll 0 ({ f.key with cfw := some [0] } : Key) = false := by
      rw [inColl_false_iff]
      intro e he hcon
      have := hlen e he
      rw [hcon.2] at this
      simp at this
    have hadd : addFeature chainWorld st 0 { f with key := { f.key with cfw := some [0] } } cu false =
        .ok ({ st with links := addLink st.links f.link, flp := dset st.flp f.uuid [],
                       coll := st.coll ++ [(0, { f with key := { f.key with cfw := some [0] } })] }, true) := by
      unfold addFeature
      simp only [hnew, Bool.false_eq_true, if_false]
    rw [hadd]
    simp only [if_true]
    have hin : chainWorld.inputs 0 ({ f.key with cfw := some [0] } : Key) =
        some [{ key := { name := f.key.name ++ [113], grp := [], ctx := [], dom := none, cfw := none, dtype := none, child := none },
                req := false, uuid := 0, link := none }] := rfl
    rw [hin]
    simp only
    have hmk : mkInputs ({ f.key with cfw := some [0] } : Key)
        [{ key := { name := f.key.name ++ [113], grp := [], ctx := [], dom := none, cfw := none, dtype := none, child := none },
           req := false, uuid := 0, link := none }] st.next = .ok [chainInput f.key st.next] := by
      simp only [mkInputs, buildFeatures, mkInput, mergeOpts, hg, hc, List.append_nil, List.any_nil, Bool.false_eq_true, if_false, oupdate,
        List.foldl_nil, dupCheck, List.nil_append, chainInput]
    rw [hmk]
    simp only [List.foldlM_cons, List.foldlM_nil, bind, Except.bind]
    rw [ih _ _ (chainInput f.key st.next) rfl rfl rfl]
    intro e he
    simp only [List.mem_append, List.mem_singleton] at he
    rcases he with he | rfl
    · have := hlen e he
      simp only [chainInput, List.length_append, List.length_singleton]
      omega
    · simp only [chainInput, List.length_append, List.length_singleton]
      omega

theorem chain_exhausts (fuel : Nat) : run EngineWorld.chainWorld fuel none EngineWorld.chainRequest = .error .fuel := by
  unfold run
  simp only [EngineWorld.chainRequest, mkRequest, requestLoop, dupCheck, List.nil_append, procAll, List.foldlM_cons, List.foldlM_nil,
    bind, Except.bind]
  rw [chain_proc fuel _ none _ rfl rfl rfl (by simp)]

end EngineColl
