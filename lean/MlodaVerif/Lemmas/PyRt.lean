import MlodaVerif.Model.PyRt
/-! helper lemmas for reasoning about translated `for` loops -/

/-- a `for` loop whose body never raises, breaks or returns early is the fold of its body's state update -/
theorem PyRt.forIn_yield_spec {α σ ε : Type} (xs : List α) (body : α → σ → Except ε (ForInStep σ)) (g : α → σ → σ)
    (h : ∀ a s, body a s = .ok (.yield (g a s))) (s : σ) :
    forIn xs s body = .ok (xs.foldl (fun s a => g a s) s) := by
  induction xs generalizing s with
  | nil => rfl
  | cons a t ih => simp [List.forIn_cons, h, ih, bind, Except.bind]
