import MlodaVerif.Lemmas.PlanFull
/-! Determinism of `createPlan` in the iteration order of `JoinStep.right_framework_uuids` (site 3): it only decides
`TransformFrameworkStep.right_framework_uuid`. -/
namespace PlanFull
open Sched OptGroup

/-- two order oracles give every set the same iteration order at the sites 0, 1, 2 -/
def AgreeUpTo3 (o o' : Ord) : Prop := ∀ (site : Nat) (s : List Nat), site ≠ 3 → iterAt o site s = iterAt o' site s

def clr (s : PStep) : PStep := { s with rfu1 := none }

theorem fgStep_congr {o o' : Ord} (h : AgreeUpTo3 o o') (g : Graph) (c : Nat) (pre L : List Nat) :
    fgStep g o c pre L = fgStep g o' c pre L := by
  unfold fgStep; rw [h 0 L (by decide)]

theorem addFgSteps_congr {o o' : Ord} (h : AgreeUpTo3 o o') (g : Graph) (t : Trek) :
    ∀ q, addFgSteps g t o q = addFgSteps g t o' q := by
  have hs : ∀ c pre, fgSteps g o c pre = fgSteps g o' c pre := by
    intro c pre; funext b; unfold fgSteps
    have : fgStep g o c pre = fgStep g o' c pre := funext (fgStep_congr h g c pre)
    rw [this]
  intro q
  induction q with
  | nil => rfl
  | cons el r ih =>
    cases el with
    | link k => simp only [addFgSteps, ih]
    | fg c bs => simp only [addFgSteps, ih, hs]

theorem runLink_congr {o o' : Ord} (h : AgreeUpTo3 o o') (g : Graph) (t : Trek) (linfo : Nat → LinkInfo) (fsc : List (List Nat))
    (n : Nat) (k : Key) : runLink g t linfo o fsc n k = runLink g t linfo o' fsc n k := by
  unfold runLink
  simp only [h 2 _ (by decide)]

theorem addJoinsteps_congr {o o' : Ord} (h : AgreeUpTo3 o o') (g : Graph) (t : Trek) (linfo : Nat → LinkInfo)
    (fsc : List (List Nat)) : ∀ pre s, addJoinsteps g t linfo o fsc pre s = addJoinsteps g t linfo o' fsc pre s := by
  intro pre
  induction pre with
  | nil => intro s; rfl
  | cons el r ih =>
    intro s
    cases el with
    | step st => simp only [addJoinsteps, ih]
    | link k => simp only [addJoinsteps, runLink_congr h, ih]

theorem sameFwLoop_congr {o o' : Ord} (h : AgreeUpTo3 o o') (ep : PStep) :
    ∀ js st, sameFwLoop o ep js st = sameFwLoop o' ep js st := by
  intro js
  induction js with
  | nil => intro st; rfl
  | cons j r ih =>
    intro st
    obtain ⟨cur, upl, store⟩ := st
    unfold sameFwLoop
    simp only [h 1 _ (by decide), ih]

/-- the states of the main loop of `add_tfs` under the two oracles: equal up to `right_framework_uuid` of inserted steps -/
structure SRel (a b : TState) : Prop where
  cur : a.cur = b.cur
  ins : a.ins.map (List.map clr) = b.ins.map (List.map clr)
  tc : a.tc = b.tc
  upl : a.upl = b.upl
  n : a.n = b.n

def ERel (x y : Except String TState) : Prop :=
  match x, y with
  | .error e, .error e' => e = e'
  | .ok a, .ok b => SRel a b
  | _, _ => False

theorem ERel.err (e : String) : ERel (.error e) (.error e) := rfl
theorem ERel.ok {a b : TState} (h : SRel a b) : ERel (.ok a) (.ok b) := h

theorem tkey_clr (s : PStep) : tkey (clr s) = tkey s := rfl

theorem tfsStep_rel {o o' : Ord} (h : AgreeUpTo3 o o') (g : Graph) (linfo : Nat → LinkInfo) (jc : List (Nat × List Nat))
    {a b : TState} (hr : SRel a b) (i : Nat) : ERel (tfsStep g linfo o jc a i) (tfsStep g linfo o' jc b i) := by
  obtain ⟨acur, ains, atc, aupl, an⟩ := a
  obtain ⟨bcur, bins, btc, bupl, bn⟩ := b
  obtain ⟨h1, h2, h3, h4, h5⟩ := hr
  simp only at h1 h2 h3 h4 h5
  subst h1 h3 h4 h5
  unfold tfsStep
  simp only
  cases hep : acur[i]? with
  | none => exact .ok ⟨rfl, h2, rfl, rfl, rfl⟩
  | some ep =>
    simp only
    cases hk : ep.kind with
    | tfs => exact .err _
    | join =>
      simp only
      by_cases hb : (ep.fw != ep.fw2) = true
      · simp only [hb, if_true]
        refine .ok ⟨rfl, ?_, ?_, rfl, rfl⟩
        · simp only [tfsJoinCross, List.map_append, h2]
          have hk' : tkey (tfsOfJoin linfo o ep an) = tkey (tfsOfJoin linfo o' ep an) := rfl
          rw [hk']
          split <;> simp [clr, tfsOfJoin]
        · simp only [tfsJoinCross]
          have hk' : tkey (tfsOfJoin linfo o ep an) = tkey (tfsOfJoin linfo o' ep an) := rfl
          rw [hk']
      · simp only [hb, if_false, sameFwLoop_congr h]
        cases sameFwLoop o' ep (List.range acur.length) (acur, aupl, none) with
        | error e => exact .err _
        | ok r =>
          obtain ⟨c, u, _⟩ := r
          exact .ok ⟨rfl, by simp [h2], rfl, rfl, rfl⟩
    | fg =>
      simp only
      cases ep.anyUuid with
      | none => exact .err _
      | some x => exact .ok ⟨rfl, by simp [h2], rfl, rfl, rfl⟩

theorem foldlM_rel {o o' : Ord} (h : AgreeUpTo3 o o') (g : Graph) (linfo : Nat → LinkInfo) (jc : List (Nat × List Nat)) :
    ∀ (l : List Nat) {a b : TState}, SRel a b →
      ERel (l.foldlM (tfsStep g linfo o jc) a) (l.foldlM (tfsStep g linfo o' jc) b) := by
  intro l
  induction l with
  | nil => intro a b hr; exact .ok hr
  | cons i r ih =>
    intro a b hr
    simp only [List.foldlM_cons]
    have := tfsStep_rel h g linfo jc hr i
    generalize tfsStep g linfo o jc a i = x at this
    generalize tfsStep g linfo o' jc b i = y at this
    cases x with
    | error e => cases y with
      | error e' => simp only [ERel] at this; subst this; exact .err e
      | ok b' => simp [ERel] at this
    | ok a' => cases y with
      | error e' => simp [ERel] at this
      | ok b' => exact ih this

theorem assemble_clr : ∀ (ins ins' : List (List PStep)) (cur : List PStep), ins.map (List.map clr) = ins'.map (List.map clr) →
    (assemble ins cur).map clr = (assemble ins' cur).map clr := by
  intro ins
  induction ins with
  | nil => intro ins' cur h; cases ins' with
    | nil => rfl
    | cons _ _ => simp at h
  | cons a r ih =>
    intro ins' cur h
    cases ins' with
    | nil => simp at h
    | cons a' r' =>
      simp only [List.map_cons, List.cons.injEq] at h
      cases cur with
      | nil => rfl
      | cons s c =>
        simp only [assemble, List.zip_cons_cons, List.flatMap_cons, List.map_append, h.1]
        have := ih r' c h.2
        unfold assemble at this
        rw [this]

/-- `createPlan` under two order oracles that agree at the sites 0, 1, 2: same outcome up to `right_framework_uuid` -/
theorem createPlan_site3 {o o' : Ord} (h : AgreeUpTo3 o o') (g : Graph) (t : Trek) (linfo : Nat → LinkInfo) (n0 : Nat) (q : List QEl) :
    (createPlan g t linfo o n0 q).map (List.map clr) = (createPlan g t linfo o' n0 q).map (List.map clr) := by
  unfold createPlan planBeforeTfs
  rw [addFgSteps_congr h]
  cases addFgSteps g t o' q with
  | error e => rfl
  | ok pre =>
    simp only [addJoinsteps_congr h]
    cases addJoinsteps g t linfo o' (fscOf pre) pre { n := n0, coll := [], plan := [] } with
    | error e => rfl
    | ok js =>
      simp only
      cases handleAppendUnion js.plan with
      | error e => rfl
      | ok p2 =>
        simp only
        unfold addTfs
        have := foldlM_rel h g linfo (js.coll.map (fun e => (e.1.uuid, e.2))) (List.range p2.length)
          (a := { cur := p2, n := js.n }) (b := { cur := p2, n := js.n }) ⟨rfl, rfl, rfl, rfl, rfl⟩
        generalize (List.range p2.length).foldlM (tfsStep g linfo o (js.coll.map (fun e => (e.1.uuid, e.2)))) { cur := p2, n := js.n } = x at this
        generalize (List.range p2.length).foldlM (tfsStep g linfo o' (js.coll.map (fun e => (e.1.uuid, e.2)))) { cur := p2, n := js.n } = y at this
        cases x with
        | error e => cases y with
          | error e' => simp only [ERel] at this; subst this; rfl
          | ok b' => simp [ERel] at this
        | ok a => cases y with
          | error e' => simp [ERel] at this
          | ok b =>
            have hr : SRel a b := this
            simp only [Except.map]
            rw [hr.cur, assemble_clr a.ins b.ins b.cur hr.ins]

end PlanFull
