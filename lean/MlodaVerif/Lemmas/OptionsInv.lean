import MlodaVerif.Model.Options
import MlodaVerif.Lemmas.OptionsDict
/-! Dictionary-operation lemmas and the per-operation preservation of the `Options` invariants. -/

namespace OptInv
open PyDict

theorem has_iff {d : PyDict} {k : String} : has d k = true ↔ k ∈ keys d := by
  simp [has]

theorem has_false_iff {d : PyDict} {k : String} : has d k = false ↔ k ∉ keys d := by
  rw [← has_iff]; simp

theorem keys_cons (kv : String × PyVal) (d : PyDict) : keys (kv :: d) = kv.1 :: keys d := rfl
theorem keys_cons' (k : String) (v : PyVal) (d : PyDict) : keys ((k, v) :: d) = k :: keys d := rfl

theorem set_nil (k : String) (v : PyVal) : PyDict.set [] k v = [(k, v)] := rfl

theorem set_cons_eq (k : String) (v v' : PyVal) (t : PyDict) : PyDict.set ((k, v') :: t) k v = (k, v) :: t := by
  simp [PyDict.set]

theorem set_cons_ne {k k' : String} (h : k' ≠ k) (v v' : PyVal) (t : PyDict) :
    PyDict.set ((k', v') :: t) k v = (k', v') :: PyDict.set t k v := by
  have : (k' == k) = false := by simpa using h
  simp [PyDict.set, this]

theorem mem_keys_set {d : PyDict} {k : String} {v : PyVal} {j : String} :
    j ∈ keys (PyDict.set d k v) ↔ j = k ∨ j ∈ keys d := by
  induction d with
  | nil => simp [set_nil, keys]
  | cons kv t ih =>
    obtain ⟨k', v'⟩ := kv
    by_cases h : k' = k
    · subst h
      rw [set_cons_eq, keys_cons', keys_cons']
      simp only [List.mem_cons]
      constructor
      · rintro (h1 | h1)
        · exact Or.inl h1
        · exact Or.inr (Or.inr h1)
      · rintro (h1 | h1 | h1)
        · exact Or.inl h1
        · exact Or.inl h1
        · exact Or.inr h1
    · rw [set_cons_ne h, keys_cons', keys_cons']
      simp only [List.mem_cons, ih]
      constructor
      · rintro (h1 | h1 | h1)
        · exact Or.inr (Or.inl h1)
        · exact Or.inl h1
        · exact Or.inr (Or.inr h1)
      · rintro (h1 | h1 | h1)
        · exact Or.inr (Or.inl h1)
        · exact Or.inl h1
        · exact Or.inr (Or.inr h1)

theorem nodup_keys_set {d : PyDict} {k : String} {v : PyVal} (hn : (keys d).Nodup) :
    (keys (PyDict.set d k v)).Nodup := by
  induction d with
  | nil => simp [set_nil, keys]
  | cons kv t ih =>
    obtain ⟨k', v'⟩ := kv
    rw [keys_cons', List.nodup_cons] at hn
    by_cases h : k' = k
    · subst h; rw [set_cons_eq, keys_cons', List.nodup_cons]; exact hn
    · rw [set_cons_ne h, keys_cons', List.nodup_cons]
      refine ⟨?_, ih hn.2⟩
      rw [mem_keys_set]
      rintro (e | e)
      · exact h e
      · exact hn.1 e

theorem get_set_self {d : PyDict} {k : String} {v : PyVal} : (PyDict.set d k v).get? k = some v := by
  induction d with
  | nil => simp [set_nil, get?]
  | cons kv t ih =>
    obtain ⟨k', v'⟩ := kv
    by_cases h : k' = k
    · subst h; rw [set_cons_eq]; simp [get?]
    · rw [set_cons_ne h]
      unfold get? at ih ⊢
      rw [OptDict.lookup_cons_if, if_neg (fun e => h e.symm)]
      exact ih

theorem get_set_other {d : PyDict} {k j : String} {v : PyVal} (hj : j ≠ k) :
    (PyDict.set d k v).get? j = d.get? j := by
  induction d with
  | nil => unfold get?; rw [set_nil, OptDict.lookup_cons_if, if_neg hj]
  | cons kv t ih =>
    obtain ⟨k', v'⟩ := kv
    by_cases h : k' = k
    · subst h
      unfold get?
      rw [set_cons_eq, OptDict.lookup_cons_if, OptDict.lookup_cons_if, if_neg hj, if_neg hj]
    · rw [set_cons_ne h]
      unfold get? at ih ⊢
      rw [OptDict.lookup_cons_if, OptDict.lookup_cons_if, ih]

theorem mem_keys_update {d e : PyDict} {j : String} : j ∈ keys (update d e) ↔ j ∈ keys d ∨ j ∈ keys e := by
  unfold update
  induction e generalizing d with
  | nil => simp [keys]
  | cons kv t ih =>
    simp only [List.foldl_cons, ih, mem_keys_set, keys_cons, List.mem_cons]
    constructor
    · rintro ((h | h) | h) <;> simp [h]
    · rintro (h | h | h) <;> simp [h]

theorem nodup_keys_update {d e : PyDict} (hn : (keys d).Nodup) : (keys (update d e)).Nodup := by
  unfold update
  induction e generalizing d with
  | nil => simpa using hn
  | cons kv t ih => simp only [List.foldl_cons]; exact ih (nodup_keys_set hn)

theorem mem_keys_filter {d : PyDict} {p : String × PyVal → Bool} {j : String} (h : j ∈ keys (d.filter p)) : j ∈ keys d := by
  simp only [keys, List.mem_map, List.mem_filter] at h ⊢
  obtain ⟨kv, ⟨hm, _⟩, rfl⟩ := h
  exact ⟨kv, hm, rfl⟩

/-- a key of `d.update(e)` keeps `d`'s value unless `e` has the key -/
theorem get_update_of_not_mem {d e : PyDict} {j : String} (hj : j ∉ keys e) : (update d e).get? j = d.get? j := by
  unfold update
  induction e generalizing d with
  | nil => simp
  | cons kv t ih =>
    rw [keys_cons, List.mem_cons, not_or] at hj
    simp only [List.foldl_cons]
    rw [ih hj.2, get_set_other hj.1]

end OptInv

namespace OptInv
open PyDict

/-- the invariant of a live `Options` object: group/context disjoint, propagate keys are context keys, and both
dictionaries are dictionaries (no key twice) -/
def SInv (o : Options) : Prop :=
  o.Disjoint ∧ o.PropOk ∧ (keys o.group).Nodup ∧ (keys o.context).Nodup

theorem any_has_false {l : List String} {c : PyDict} (h : l.any (fun k => has c k) = false) :
    ∀ k ∈ l, k ∉ keys c := by
  intro k hk hc
  have : l.any (fun k => has c k) = true := List.any_eq_true.mpr ⟨k, hk, has_iff.mpr hc⟩
  rw [h] at this; cases this

theorem init_inv {g c : PyDict} {p : List String} {o : Options} (h : Options.init g c p = .ok o)
    (hg : (keys g).Nodup) (hc : (keys c).Nodup) : SInv o := by
  unfold Options.init at h
  split at h
  · cases h
  · rename_i h1
    split at h
    · cases h
    · rename_i h2
      cases h
      refine ⟨?_, ?_, hg, hc⟩
      · exact any_has_false (by simpa using h1)
      · intro k hk
        apply Classical.byContradiction
        intro hn
        exact h2 (List.any_eq_true.mpr ⟨k, hk, by simp [has_false_iff.mpr hn]⟩)

theorem inv_set_group {o : Options} {k : String} {v : PyVal} (hi : SInv o) (hk : k ∉ keys o.context) :
    SInv { o with group := o.group.set k v } := by
  obtain ⟨hd, hp, hg, hc⟩ := hi
  refine ⟨?_, hp, nodup_keys_set hg, hc⟩
  intro j hj
  rcases mem_keys_set.mp hj with rfl | hj
  · exact hk
  · exact hd j hj

theorem inv_set_context {o : Options} {k : String} {v : PyVal} (hi : SInv o) (hk : k ∉ keys o.group) :
    SInv { o with context := o.context.set k v } := by
  obtain ⟨hd, hp, hg, hc⟩ := hi
  refine ⟨?_, ?_, hg, nodup_keys_set hc⟩
  · intro j hj hj'
    rcases mem_keys_set.mp hj' with rfl | hj'
    · exact hk hj
    · exact hd j hj hj'
  · intro j hj; exact mem_keys_set.mpr (Or.inr (hp j hj))

theorem addToGroup_inv {o : Options} (k : String) (v : PyVal) (hi : SInv o) : SInv (o.addToGroup k v).1 := by
  unfold Options.addToGroup
  split
  · split
    · exact hi
    · split
      · exact hi
      · rename_i h; exact inv_set_group hi (has_false_iff.mp (by simpa using h))
  · split
    · exact hi
    · rename_i h; exact inv_set_group hi (has_false_iff.mp (by simpa using h))

theorem addToContext_inv {o : Options} (k : String) (v : PyVal) (hi : SInv o) : SInv (o.addToContext k v).1 := by
  unfold Options.addToContext
  split
  · split
    · exact hi
    · split
      · exact hi
      · rename_i h; exact inv_set_context hi (has_false_iff.mp (by simpa using h))
  · split
    · exact hi
    · rename_i h; exact inv_set_context hi (has_false_iff.mp (by simpa using h))

theorem setKey_inv {o : Options} (k : String) (v : PyVal) (hi : SInv o) : SInv (o.setKey k v) := by
  unfold Options.setKey
  split
  · rename_i h
    exact inv_set_group hi (fun hc => hi.1 k (has_iff.mp h) hc)
  · split
    · rename_i h1 h2
      exact inv_set_context hi (has_false_iff.mp (by simpa using h1))
    · rename_i h1 h2
      exact inv_set_group hi (has_false_iff.mp (by simpa using h2))

theorem inv_update_group {o : Options} {e : PyDict} (hi : SInv o) (he : ∀ j ∈ keys e, j ∉ keys o.context) :
    SInv { o with group := o.group.update e } := by
  obtain ⟨hd, hp, hg, hc⟩ := hi
  refine ⟨?_, hp, nodup_keys_update hg, hc⟩
  intro j hj
  rcases mem_keys_update.mp hj with hj | hj
  · exact hd j hj
  · exact he j hj

theorem inv_update_context {o : Options} {e : PyDict} (hi : SInv o) (he : ∀ j ∈ keys e, j ∉ keys o.group) :
    SInv { o with context := o.context.update e } := by
  obtain ⟨hd, hp, hg, hc⟩ := hi
  refine ⟨?_, ?_, hg, nodup_keys_update hc⟩
  · intro j hj hj'
    rcases mem_keys_update.mp hj' with hj' | hj'
    · exact hd j hj hj'
    · exact he j hj' hj
  · intro j hj; exact mem_keys_update.mpr (Or.inl (hp j hj))

theorem updateWith_inv {o : Options} (other : Options) (pk : List String) (hi : SInv o) :
    SInv (o.updateWith other pk).1 := by
  unfold Options.updateWith
  simp only
  split
  · exact hi
  · rename_i h1
    have h1' := any_has_false (Bool.eq_false_iff.mpr h1)
    have hi1 := inv_update_group (e := other.group.filter (fun kv => !(pk.contains kv.1))) hi h1'
    split
    · exact hi1
    · split
      · exact hi1
      · rename_i h2
        split
        · exact hi1
        · exact inv_update_context hi1 (any_has_false (Bool.eq_false_iff.mpr h2))

theorem updateWithProtectedKeys_inv {o : Options} (other : Options) (ex : Option (List String)) (hi : SInv o) :
    SInv (o.updateWithProtectedKeys other ex).1 := by
  unfold Options.updateWithProtectedKeys
  split
  · exact updateWith_inv other _ hi
  · split
    · exact hi
    · exact updateWith_inv other _ hi

theorem mergeOptions_inv {o : Options} (child : Options) (hi : SInv o) : SInv (o.mergeOptions child).1 := by
  unfold Options.mergeOptions
  split
  · exact hi
  · split
    · exact hi
    · exact updateWithProtectedKeys_inv child none hi

theorem step_inv {o : Options} (op : Options.Op) (hi : SInv o) : SInv (o.step op).1 := by
  cases op with
  | add k v => exact addToGroup_inv k v hi
  | addToGroup k v => exact addToGroup_inv k v hi
  | addToContext k v => exact addToContext_inv k v hi
  | set k v => exact setKey_inv k v hi
  | update other ex => exact updateWithProtectedKeys_inv other ex hi
  | merge child => exact mergeOptions_inv child hi

theorem run_inv {o : Options} (ops : List Options.Op) (hi : SInv o) : SInv (o.run ops) := by
  induction ops generalizing o with
  | nil => exact hi
  | cons op ops ih => exact ih (step_inv op hi)

end OptInv
