import MlodaVerif.Model.LinkOrder
/-! Helper lemmas about the Python-container operations of `Model/LinkOrder.lean`. -/
namespace LinkOrder

set_option linter.unusedSectionVars false

section Dict
variable {κ : Type} [DecidableEq κ] {α : Type}

@[simp] theorem dkeys_nil : dkeys ([] : List (κ × α)) = [] := rfl
@[simp] theorem dkeys_cons (e : κ × α) (d : List (κ × α)) : dkeys (e :: d) = e.1 :: dkeys d := rfl
@[simp] theorem dkeys_append (a b : List (κ × α)) : dkeys (a ++ b) = dkeys a ++ dkeys b := by simp [dkeys]

theorem mem_dkeys {d : List (κ × α)} {k : κ} : k ∈ dkeys d ↔ ∃ v, (k, v) ∈ d := by
  simp [dkeys]

@[simp] theorem dkeys_dmodify (d : List (κ × α)) (k : κ) (f : α → α) : dkeys (dmodify d k f) = dkeys d := by
  induction d with
  | nil => rfl
  | cons e r ih =>
    simp only [dmodify, List.map_cons, dkeys_cons] at ih ⊢
    split <;> simp [dkeys] at ih ⊢ <;> exact ih

theorem mem_dmodify {d : List (κ × α)} {k : κ} {f : α → α} {k' : κ} {v' : α} :
    (k', v') ∈ dmodify d k f ↔ ∃ v, (k', v) ∈ d ∧ v' = if k' = k then f v else v := by
  induction d with
  | nil => simp [dmodify]
  | cons e r ih =>
    simp only [dmodify, List.map_cons, List.mem_cons] at ih ⊢
    constructor
    · rintro (h | h)
      · by_cases hk : e.1 = k
        · simp only [hk, if_true] at h
          have h1 : k' = k := (Prod.mk.inj h).1
          have h2 : v' = f e.2 := (Prod.mk.inj h).2
          exact ⟨e.2, Or.inl (by rw [h1, ← hk]), by simp [h1, h2]⟩
        · simp only [hk, if_false] at h
          have h1 : k' = e.1 := by rw [← h]
          have h2 : v' = e.2 := by rw [← h]
          exact ⟨e.2, Or.inl (by rw [h1]), by rw [h1]; simp [hk, h2]⟩
      · obtain ⟨v, hv, hv'⟩ := ih.mp h
        exact ⟨v, Or.inr hv, hv'⟩
    · rintro ⟨v, hv | hv, hv'⟩
      · left
        subst hv
        by_cases hk : k' = k
        · simp [hk] at hv' ⊢; exact hv'
        · simp [hk] at hv' ⊢; exact hv'
      · exact Or.inr (ih.mpr ⟨v, hv, hv'⟩)

theorem dget_some_mem {d : List (κ × α)} {k : κ} {v : α} (h : dget d k = some v) : (k, v) ∈ d := by
  induction d with
  | nil => simp [dget] at h
  | cons e r ih =>
    simp only [dget] at h
    split at h
    · rename_i hk
      have : e.2 = v := Option.some.inj h
      rw [← this, ← hk]; exact List.mem_cons_self
    · exact List.mem_cons_of_mem _ (ih h)

theorem dget_none_iff {d : List (κ × α)} {k : κ} : dget d k = none ↔ k ∉ dkeys d := by
  induction d with
  | nil => simp [dget]
  | cons e r ih =>
    simp only [dget, dkeys_cons, List.mem_cons, not_or]
    split
    · rename_i hk; simp [hk]
    · rename_i hk; rw [ih]; constructor
      · intro h; exact ⟨fun h' => hk h'.symm, h⟩
      · intro h; exact h.2

theorem dget_of_mem_nodup {d : List (κ × α)} {k : κ} {v : α} (hn : (dkeys d).Nodup) (h : (k, v) ∈ d) : dget d k = some v := by
  induction d with
  | nil => simp at h
  | cons e r ih =>
    simp only [dkeys_cons, List.nodup_cons] at hn
    simp only [dget]
    rcases List.mem_cons.mp h with h | h
    · subst h; simp
    · have : e.1 ≠ k := by
        intro hk; apply hn.1; rw [hk]; exact mem_dkeys.mpr ⟨v, h⟩
      simp [this]; exact ih hn.2 h

theorem dkeys_dset (d : List (κ × α)) (k : κ) (v : α) :
    dkeys (dset d k v) = if k ∈ dkeys d then dkeys d else dkeys d ++ [k] := by
  simp only [dset]
  split <;> simp

theorem dset_of_not_mem {d : List (κ × α)} {k : κ} {v : α} (h : k ∉ dkeys d) : dset d k v = d ++ [(k, v)] := by
  simp [dset, h]

theorem filter_ne_of_not_mem {d : List (κ × α)} {k : κ} (h : k ∉ dkeys d) : d.filter (fun e => e.1 ≠ k) = d := by
  apply List.filter_eq_self.mpr
  intro e he
  simp only [ne_eq, decide_eq_true_eq]
  intro hk
  exact h (by rw [← hk]; exact mem_dkeys.mpr ⟨e.2, he⟩)

theorem filter_eq_of_not_mem {d : List (κ × α)} {k : κ} (h : k ∉ dkeys d) : d.filter (fun e => e.1 = k) = [] := by
  apply List.filter_eq_nil_iff.mpr
  intro e he
  simp only [decide_eq_true_eq]
  intro hk
  exact h (by rw [← hk]; exact mem_dkeys.mpr ⟨e.2, he⟩)

/-- `new[k] = v; new.move_to_end(k)` for a key that is not there yet is an append -/
theorem moveToEnd_dset_of_not_mem {d : List (κ × α)} {k : κ} {v : α} (h : k ∉ dkeys d) :
    moveToEnd (dset d k v) k = d ++ [(k, v)] := by
  rw [dset_of_not_mem h]
  simp only [moveToEnd, List.filter_append, filter_ne_of_not_mem h, filter_eq_of_not_mem h]
  simp

end Dict

theorem mem_sadd {s : List Nat} {x y : Nat} : y ∈ sadd s x ↔ y ∈ s ∨ y = x := by
  simp only [sadd]
  split
  · rename_i h; constructor
    · exact Or.inl
    · rintro (h' | h'); exact h'; exact h' ▸ h
  · simp

theorem mem_srem {s : List Nat} {x y : Nat} : y ∈ srem s x ↔ y ∈ s ∧ y ≠ x := by
  simp [srem]

theorem nodup_sadd {s : List Nat} {x : Nat} (h : s.Nodup) : (sadd s x).Nodup := by
  simp only [sadd]
  split
  · exact h
  · rename_i hx
    rw [List.nodup_append]
    refine ⟨h, by simp, ?_⟩
    intro a ha b hb
    simp at hb; subst hb
    intro hab; exact hx (hab ▸ ha)

/-! ### pigeonhole for duplicate-free lists -/

theorem subset_of_nodup_length_le {α : Type} [DecidableEq α] :
    ∀ (l₁ l₂ : List α), l₁.Nodup → (∀ x ∈ l₁, x ∈ l₂) → l₂.length ≤ l₁.length → l₂.Nodup → ∀ x ∈ l₂, x ∈ l₁ := by
  intro l₁
  induction l₁ with
  | nil =>
    intro l₂ _ _ hlen _ x hx
    cases l₂ with
    | nil => exact hx
    | cons a r => simp at hlen
  | cons a r ih =>
    intro l₂ hn hsub hlen hn2 x hx
    have ha : a ∈ l₂ := hsub a List.mem_cons_self
    have hn' := List.nodup_cons.mp hn
    by_cases hxa : x = a
    · subst hxa; exact List.mem_cons_self
    · have hx' : x ∈ l₂.erase a := (List.mem_erase_of_ne hxa).mpr hx
      have := ih (l₂.erase a) hn'.2
        (fun y hy => (List.mem_erase_of_ne (fun h : y = a => hn'.1 (by rw [← h]; exact hy))).mpr (hsub y (List.mem_cons_of_mem _ hy)))
        (by rw [List.length_erase_of_mem ha]; simp at hlen; omega)
        (hn2.erase a) x hx'
      exact List.mem_cons_of_mem _ this

theorem perm_of_nodup_subset_length {α : Type} [DecidableEq α] {l₁ l₂ : List α}
    (h1 : l₁.Nodup) (h2 : l₂.Nodup) (hsub : ∀ x ∈ l₁, x ∈ l₂) (hlen : l₂.length ≤ l₁.length) : l₁.Perm l₂ :=
  (List.perm_ext_iff_of_nodup h1 h2).mpr (fun a => ⟨hsub a, subset_of_nodup_length_le l₁ l₂ h1 hsub hlen h2 a⟩)

end LinkOrder
