import MlodaVerif.Lemmas.OptionsDict
/-! `_make_hashable` respects Python equality, is the identity on hashable values and always yields a hashable value
(on well-formed values) — the facts every `eq → hash` coherence theorem of C15 rests on. -/

namespace OptHash
open PyVal (pyEq mh mhL mhKV hashable hashableL wf wfL wfKV wfP eqList allMem allLookup sortKV insertKV keysOf item
  nodupKeys distinctEq numOf numEq)
open OptDict

theorem hashableL_iff (l : List PyVal) : hashableL l = true ↔ ∀ x ∈ l, hashable x = true := by
  induction l with
  | nil => simp [hashableL]
  | cons x xs ih => simp [hashableL, ih]

theorem wfL_iff (l : List PyVal) : wfL l = true ↔ ∀ x ∈ l, wf x = true := by
  induction l with
  | nil => simp [wfL]
  | cons x xs ih => simp [wfL, ih]

theorem wfKV_iff (d : PyDict) : wfKV d = true ↔ ∀ kv ∈ d, wf kv.2 = true := by
  induction d with
  | nil => simp [wfKV]
  | cons kv t ih => obtain ⟨k, v⟩ := kv; simp [wfKV, wfP, ih]

/-- `_make_hashable` leaves hashable values alone -/
theorem mh_of_hashable : ∀ v, hashable v = true → mh v = v := by
  intro v
  induction v using PyVal.induct with
  | htuple l ih =>
    intro h
    simp only [hashable] at h
    rw [hashableL_iff] at h
    simp only [mh, PyVal.mhL_eq_map]
    congr 1
    conv => rhs; rw [← List.map_id l]
    exact List.map_congr_left (fun x hx => ih x hx (h x hx))
  | hlist l _ => intro h; simp [hashable] at h
  | hset l _ => intro h; simp [hashable] at h
  | hdict d _ => intro h; simp [hashable] at h
  | _ => intros; simp [mh]

theorem mhL_of_hashableL (l : List PyVal) (h : hashableL l = true) : mhL l = l := by
  rw [hashableL_iff] at h
  rw [PyVal.mhL_eq_map]
  conv => rhs; rw [← List.map_id l]
  exact List.map_congr_left (fun x hx => mh_of_hashable x (h x hx))

theorem mem_insertKV (kv : String × PyVal) (d : PyDict) (x : String × PyVal) :
    x ∈ insertKV kv d ↔ x = kv ∨ x ∈ d := by
  induction d with
  | nil => simp [insertKV]
  | cons h t ih =>
    unfold insertKV
    split
    · simp
    · simp only [List.mem_cons, ih]
      constructor
      · rintro (h1 | h1 | h1) <;> simp [h1]
      · rintro (h1 | h1 | h1) <;> simp [h1]

theorem mem_sortKV (d : PyDict) (x : String × PyVal) : x ∈ sortKV d ↔ x ∈ d := by
  induction d with
  | nil => simp [sortKV]
  | cons kv t ih =>
    have e : sortKV (kv :: t) = insertKV kv (sortKV t) := rfl
    rw [e, mem_insertKV, ih, List.mem_cons]

/-- after `_make_hashable`, `hash` does not raise `TypeError` (well-formed values) -/
theorem mh_hashable : ∀ v, wf v = true → hashable (mh v) = true := by
  intro v
  induction v using PyVal.induct with
  | htuple l ih =>
    intro h
    simp only [wf] at h; rw [wfL_iff] at h
    simp only [mh, hashable, PyVal.mhL_eq_map, hashableL_iff, List.mem_map]
    rintro _ ⟨x, hx, rfl⟩; exact ih x hx (h x hx)
  | hlist l ih =>
    intro h
    simp only [wf] at h; rw [wfL_iff] at h
    simp only [mh, hashable, PyVal.mhL_eq_map, hashableL_iff, List.mem_map]
    rintro _ ⟨x, hx, rfl⟩; exact ih x hx (h x hx)
  | hset l ih =>
    intro h
    simp only [wf, Bool.and_eq_true] at h
    rw [wfL_iff] at h
    simp only [mh, hashable, PyVal.mhL_eq_map, hashableL_iff, List.mem_map]
    rintro _ ⟨x, hx, rfl⟩; exact ih x hx (h.1.1 x hx)
  | hfrozenset l ih =>
    intro h
    simp only [wf, Bool.and_eq_true] at h
    simp only [mh, hashable]; exact h.1.2
  | hdict d ih =>
    intro h
    simp only [wf, Bool.and_eq_true] at h
    rw [wfKV_iff] at h
    simp only [mh, hashable, hashableL_iff, List.mem_map]
    rintro _ ⟨kv, hkv, rfl⟩
    rw [mem_sortKV, PyVal.mhKV_eq_map, List.mem_map] at hkv
    obtain ⟨kv0, hkv0, rfl⟩ := hkv
    simp [item, hashable, hashableL, ih kv0 hkv0 (h.1 kv0 hkv0)]
  | _ => intros; simp [mh, hashable]

end OptHash

namespace OptHash
open PyVal (pyEq mh mhL mhKV hashable hashableL wf wfL wfKV wfP eqList allMem allLookup sortKV insertKV keysOf item
  nodupKeys distinctEq numOf numEq)
open OptDict

theorem eqList_map' (f : PyVal → PyVal) :
    ∀ (a b : List PyVal), (∀ x ∈ a, ∀ w ∈ b, pyEq x w = true → pyEq (f x) (f w) = true) →
      eqList a b = true → eqList (a.map f) (b.map f) = true := by
  intro a
  induction a with
  | nil => intro b _ h; cases b <;> simp_all [eqList]
  | cons x xs ih =>
    intro b hf h
    cases b with
    | nil => simp [eqList] at h
    | cons y ys =>
      simp only [eqList, Bool.and_eq_true] at h
      simp only [List.map_cons, eqList, Bool.and_eq_true]
      exact ⟨hf x (by simp) y (by simp) h.1,
        ih ys (fun z hz w hw => hf z (by simp [hz]) w (by simp [hw])) h.2⟩

theorem keysOf_length (d : PyDict) : (keysOf d).length = d.length := by simp [keysOf]

/-- pigeonhole: a duplicate-free key list inside another of the same length is the whole of it -/
theorem keys_superset {a b : PyDict} (hna : (keysOf a).Nodup) (hlen : a.length = b.length)
    (hsub : ∀ k ∈ keysOf a, k ∈ keysOf b) : ∀ k ∈ keysOf b, k ∈ keysOf a := by
  intro k hk
  apply Classical.byContradiction
  intro hnot
  have hsub' : keysOf a ⊆ (keysOf b).erase k := by
    intro x hx
    have hxk : x ≠ k := fun e => hnot (e ▸ hx)
    exact (List.mem_erase_of_ne hxk).2 (hsub x hx)
  have h1 := hna.length_le_of_subset hsub'
  have h2 : ((keysOf b).erase k).length = (keysOf b).length - 1 := List.length_erase_of_mem hk
  have h3 : 1 ≤ (keysOf b).length := List.length_pos_of_mem hk
  rw [keysOf_length] at h1 h3
  rw [h2, keysOf_length] at h1
  omega

theorem lookup_mapVals (f : PyVal → PyVal) (d : PyDict) (k : String) :
    (d.map (fun kv => (kv.1, f kv.2))).lookup k = (d.lookup k).map f := by
  induction d with
  | nil => simp
  | cons kv t ih =>
    obtain ⟨a, b⟩ := kv
    simp only [List.map_cons]
    rw [lookup_cons_if, lookup_cons_if, ih]
    by_cases h : k = a <;> simp [h]

theorem keysOf_mapVals (f : PyVal → PyVal) (d : PyDict) : keysOf (d.map (fun kv => (kv.1, f kv.2))) = keysOf d := by
  simp [keysOf, List.map_map, Function.comp_def]

/-- the dictionary case: key-by-key agreement of two `==` dicts after mapping a `==`-respecting function over the values -/
theorem lookrel_of_dictEq (f : PyVal → PyVal) (a b : PyDict) (hna : (keysOf a).Nodup)
    (hlen : a.length = b.length) (hall : allLookup a b = true)
    (hf : ∀ kv ∈ a, ∀ kw ∈ b, pyEq kv.2 kw.2 = true → pyEq (f kv.2) (f kw.2) = true) :
    LookRel (fun x y => pyEq x y = true) (a.map (fun kv => (kv.1, f kv.2))) (b.map (fun kv => (kv.1, f kv.2))) := by
  rw [PyVal.allLookup_iff] at hall
  have hsub : ∀ k ∈ keysOf a, k ∈ keysOf b := by
    intro k hk
    obtain ⟨v, hv⟩ := mem_keysOf.mp hk
    obtain ⟨v', hv', _⟩ := hall (k, v) hv
    exact mem_keysOf.mpr ⟨v', mem_of_lookup_some hv'⟩
  have hsup := keys_superset hna hlen hsub
  intro k
  rw [lookup_mapVals, lookup_mapVals]
  cases ha : a.lookup k with
  | none =>
    have hkb : k ∉ keysOf b := fun hk => (lookup_none_iff.mp ha) (hsup k hk)
    rw [lookup_none_iff.mpr hkb]; trivial
  | some v =>
    have hm := mem_of_lookup_some ha
    obtain ⟨v', hv', he⟩ := hall (k, v) hm
    rw [hv']
    exact hf (k, v) hm (k, v') (mem_of_lookup_some hv') he

theorem eqList_items_of_kvrel :
    ∀ (X Y : PyDict), KVRel (fun x y => pyEq x y = true) X Y → eqList (X.map item) (Y.map item) = true := by
  intro X
  induction X with
  | nil => intro Y h; cases Y <;> simp_all [KVRel, eqList]
  | cons kv t ih =>
    intro Y h
    cases Y with
    | nil => simp [KVRel] at h
    | cons kv' t' =>
      obtain ⟨k, v⟩ := kv
      obtain ⟨k', v'⟩ := kv'
      simp only [KVRel] at h
      obtain ⟨rfl, hv, ht⟩ := h
      simp [eqList, item, pyEq, hv, ih t' ht]

/-- **`_make_hashable` respects `==`** on values a Python program can build -/
theorem mh_pyEq : ∀ v w, wf v = true → wf w = true → pyEq v w = true → pyEq (mh v) (mh w) = true := by
  intro v
  induction v using PyVal.induct with
  | hnone => intro w _ _ h; cases w <;> simp_all [pyEq, mh]
  | hbool b => intro w _ _ h; cases w <;> simp_all [pyEq, mh, numOf]
  | hint i => intro w _ _ h; cases w <;> simp_all [pyEq, mh, numOf]
  | hfloat m e => intro w _ _ h; cases w <;> simp_all [pyEq, mh, numOf]
  | hstr s => intro w _ _ h; cases w <;> simp_all [pyEq, mh]
  | hobj n => intro w _ _ h; cases w <;> simp_all [pyEq, mh]
  | hfeat n c => intro w _ _ h; cases w <;> simp_all [pyEq, mh]
  | htuple l ih =>
    intro w hv hw h
    cases w
    case tuple b =>
      simp only [pyEq] at h
      simp only [wf] at hv hw; rw [wfL_iff] at hv hw
      simp only [mh, pyEq, PyVal.mhL_eq_map]
      exact eqList_map' mh l b (fun x hx y hy e => ih x hx y (hv x hx) (hw y hy) e) h
    all_goals simp [pyEq] at h
  | hlist l ih =>
    intro w hv hw h
    cases w
    case list b =>
      simp only [pyEq] at h
      simp only [wf] at hv hw; rw [wfL_iff] at hv hw
      simp only [mh, pyEq, PyVal.mhL_eq_map]
      exact eqList_map' mh l b (fun x hx y hy e => ih x hx y (hv x hx) (hw y hy) e) h
    all_goals simp [pyEq] at h
  | hset l _ =>
    intro w hv hw h
    simp only [wf, Bool.and_eq_true] at hv
    cases w
    case set b =>
      simp only [pyEq] at h
      simp only [wf, Bool.and_eq_true] at hw
      simp only [mh, mhL_of_hashableL l hv.1.2, mhL_of_hashableL b hw.1.2, pyEq]; exact h
    case frozenset b =>
      simp only [pyEq] at h
      simp only [mh, mhL_of_hashableL l hv.1.2, pyEq]; exact h
    all_goals simp [pyEq] at h
  | hfrozenset l _ =>
    intro w hv hw h
    cases w
    case set b =>
      simp only [pyEq] at h
      simp only [wf, Bool.and_eq_true] at hw
      simp only [mh, mhL_of_hashableL b hw.1.2, pyEq]; exact h
    case frozenset b =>
      simp only [pyEq] at h
      simp only [mh, pyEq]; exact h
    all_goals simp [pyEq] at h
  | hdict d ih =>
    intro w hv hw h
    cases w
    case dict b =>
      simp only [pyEq, Bool.and_eq_true, beq_iff_eq] at h
      simp only [wf, Bool.and_eq_true] at hv hw
      rw [wfKV_iff] at hv hw
      have hna : (keysOf d).Nodup := (nodupKeys_iff _).mp hv.2
      have hnb : (keysOf b).Nodup := (nodupKeys_iff _).mp hw.2
      have hrel := lookrel_of_dictEq mh d b hna h.1 h.2
        (fun kv hkv kw hkw e => ih kv hkv kw.2 (hv.1 kv hkv) (hw.1 kw hkw) e)
      simp only [mh, pyEq, PyVal.mhKV_eq_map]
      apply eqList_items_of_kvrel
      have hna' : (keysOf (d.map (fun kv => (kv.1, mh kv.2)))).Nodup := by rw [keysOf_mapVals]; exact hna
      have hnb' : (keysOf (b.map (fun kv => (kv.1, mh kv.2)))).Nodup := by rw [keysOf_mapVals]; exact hnb
      apply kvrel_of_sorted _ _ _ (sorted_sortKV _ hna') (sorted_sortKV _ hnb')
      intro k
      rw [lookup_sortKV _ hna', lookup_sortKV _ hnb']
      exact hrel k
    all_goals simp [pyEq] at h

end OptHash
