import MlodaVerif.Model.Lifecycle
/-! Lemmas about the association-list dicts of `Model/Lifecycle.lean` (core Lean only). -/
namespace Life

variable {α : Type}

theorem dget_dset (d : List (Nat × α)) (k k' : Nat) (v : α) :
    dget (dset d k v) k' = if k = k' then some v else dget d k' := by
  induction d with
  | nil => simp [dset, dget]
  | cons p t ih =>
    obtain ⟨a, b⟩ := p
    simp only [dset]
    by_cases h : a = k
    · subst h
      simp only [if_true, dget]
      by_cases h2 : a = k' <;> simp [h2]
    · simp only [h, if_false, dget, ih]
      by_cases h2 : a = k'
      · subst h2
        have : ¬ k = a := fun e => h e.symm
        simp [this]
      · simp [h2]

theorem dget_dset_self (d : List (Nat × α)) (k : Nat) (v : α) : dget (dset d k v) k = some v := by
  simp [dget_dset]

theorem dget_dset_ne (d : List (Nat × α)) (k k' : Nat) (v : α) (h : k ≠ k') : dget (dset d k v) k' = dget d k' := by
  simp [dget_dset, h]

theorem dkeys_dset (d : List (Nat × α)) (k : Nat) (v : α) :
    dkeys (dset d k v) = if k ∈ dkeys d then dkeys d else dkeys d ++ [k] := by
  induction d with
  | nil => simp [dset, dkeys]
  | cons p t ih =>
    obtain ⟨a, b⟩ := p
    simp only [dset]
    by_cases h : a = k
    · subst h; simp [dkeys]
    · have hk : ¬ k = a := fun e => h e.symm
      simp only [h, if_false]
      have ih' := ih
      simp only [dkeys] at ih' ⊢
      simp only [List.map_cons, ih', List.mem_cons, hk, false_or]
      split <;> rename_i h' <;> simp [h']

theorem mem_dkeys_dset (d : List (Nat × α)) (k x : Nat) (v : α) : x ∈ dkeys (dset d k v) ↔ x ∈ dkeys d ∨ x = k := by
  rw [dkeys_dset]
  split
  · rename_i h
    constructor
    · intro hx; exact Or.inl hx
    · rintro (hx | hx)
      · exact hx
      · subst hx; exact h
  · simp

theorem dget_eq_none_iff (d : List (Nat × α)) (k : Nat) : dget d k = none ↔ k ∉ dkeys d := by
  induction d with
  | nil => simp [dget, dkeys]
  | cons p t ih =>
    obtain ⟨a, b⟩ := p
    simp only [dget, dkeys, List.map_cons, List.mem_cons] at ih ⊢
    by_cases h : a = k
    · subst h; simp
    · have hk : ¬ k = a := fun e => h e.symm
      simp [h, hk, ih]

theorem mem_dkeys_of_dget {d : List (Nat × α)} {k : Nat} {v : α} (h : dget d k = some v) : k ∈ dkeys d := by
  by_cases hk : k ∈ dkeys d
  · exact hk
  · rw [(dget_eq_none_iff d k).mpr hk] at h; cases h

theorem dget_of_mem_dkeys {d : List (Nat × α)} {k : Nat} (h : k ∈ dkeys d) : ∃ v, dget d k = some v := by
  cases hg : dget d k with
  | none => exact absurd h ((dget_eq_none_iff d k).mp hg)
  | some v => exact ⟨v, rfl⟩

theorem dget_mem {d : List (Nat × α)} {k : Nat} {v : α} (h : dget d k = some v) : (k, v) ∈ d := by
  induction d with
  | nil => simp [dget] at h
  | cons p t ih =>
    obtain ⟨a, b⟩ := p
    simp only [dget] at h
    by_cases hk : a = k
    · subst hk; simp at h; subst h; simp
    · simp only [hk, if_false] at h
      exact List.mem_cons_of_mem _ (ih h)

theorem dget_of_mem_nodup {d : List (Nat × α)} {k : Nat} {v : α} (hn : (dkeys d).Nodup) (h : (k, v) ∈ d) : dget d k = some v := by
  induction d with
  | nil => simp at h
  | cons p t ih =>
    obtain ⟨a, b⟩ := p
    simp only [dkeys, List.map_cons, List.nodup_cons] at hn
    simp only [List.mem_cons] at h
    simp only [dget]
    rcases h with h | h
    · cases h; simp
    · have : a ≠ k := by
        intro e; subst e
        exact hn.1 (List.mem_map.mpr ⟨(a, v), h, rfl⟩)
      simp only [this, if_false]
      exact ih hn.2 h

theorem nodup_dkeys_dset {d : List (Nat × α)} (k : Nat) (v : α) (hn : (dkeys d).Nodup) : (dkeys (dset d k v)).Nodup := by
  rw [dkeys_dset]
  split
  · exact hn
  · rename_i h
    rw [List.nodup_append]
    refine ⟨hn, by simp, ?_⟩
    intro a ha b hb
    simp at hb; subst hb
    intro e; subst e; exact h ha

theorem mem_union (a b : List Nat) (x : Nat) : x ∈ union a b ↔ x ∈ a ∨ x ∈ b := by
  simp only [union, List.mem_append, List.mem_filter, decide_eq_true_eq]
  constructor
  · rintro (h | h)
    · exact Or.inl h
    · exact Or.inr h.1
  · rintro (h | h)
    · exact Or.inl h
    · by_cases hx : x ∈ a
      · exact Or.inl hx
      · exact Or.inr ⟨h, hx⟩

theorem mem_rm (store : List Nat) (k : Option Nat) (x : Nat) : x ∈ rm store k ↔ x ∈ store ∧ k ≠ some x := by
  cases k with
  | none => simp [rm]
  | some k =>
    simp only [rm, List.mem_filter, decide_eq_true_eq, ne_eq, Option.some.injEq]
    constructor
    · rintro ⟨h1, h2⟩; exact ⟨h1, fun e => h2 e.symm⟩
    · rintro ⟨h1, h2⟩; exact ⟨h1, fun e => h2 e.symm⟩

theorem mem_addKey (store : List Nat) (k x : Nat) : x ∈ addKey store k ↔ x ∈ store ∨ x = k := by
  simp only [addKey]
  split
  · rename_i h
    constructor
    · intro hx; exact Or.inl hx
    · rintro (hx | hx)
      · exact hx
      · subst hx; exact h
  · simp

end Life
