import MlodaVerif.Lemmas.PlanFull
/-! Frame properties of `add_tfs`: what one iteration of its main loop changes. -/
namespace PlanFull
open Sched OptGroup

/-- the fields `add_tfs` never changes -/
def core (s : PStep) : PStep := { s with req := [], cir := [], tfsIds := [], anyUuid := none, upload := false }

/-- the fields only the step's own iteration changes -/
def coreReq (s : PStep) : PStep := { s with cir := [], tfsIds := [], anyUuid := none, upload := false }

theorem core_of_coreReq {s s' : PStep} (h : coreReq s' = coreReq s) : core s' = core s := by
  have := congrArg (fun x : PStep => ({ x with req := [] } : PStep)) h
  simpa [coreReq, core] using this

theorem req_of_coreReq {s s' : PStep} (h : coreReq s' = coreReq s) : s'.req = s.req := by
  have := congrArg PStep.req h; simpa [coreReq] using this

theorem kind_of_core {s s' : PStep} (h : core s' = core s) : s'.kind = s.kind := by
  have := congrArg PStep.kind h; simpa [core] using this
theorem outs_of_core {s s' : PStep} (h : core s' = core s) : s'.outs = s.outs := by
  have := congrArg PStep.outs h; simpa [core] using this
theorem uuid_of_core {s s' : PStep} (h : core s' = core s) : s'.uuid = s.uuid := by
  have := congrArg PStep.uuid h; simpa [core] using this
theorem fw_of_core {s s' : PStep} (h : core s' = core s) : s'.fw = s.fw := by
  have := congrArg PStep.fw h; simpa [core] using this
theorem fw2_of_core {s s' : PStep} (h : core s' = core s) : s'.fw2 = s.fw2 := by
  have := congrArg PStep.fw2 h; simpa [core] using this
theorem lfu_of_core {s s' : PStep} (h : core s' = core s) : s'.lfu = s.lfu := by
  have := congrArg PStep.lfu h; simpa [core] using this
theorem rfu_of_core {s s' : PStep} (h : core s' = core s) : s'.rfu = s.rfu := by
  have := congrArg PStep.rfu h; simpa [core] using this
theorem cls_of_core {s s' : PStep} (h : core s' = core s) : s'.cls = s.cls := by
  have := congrArg PStep.cls h; simpa [core] using this

/-- the relation between the objects before and after (part of) an iteration for a join step `ep`: nothing but
`children_if_root`, `tfs_ids`, `any_uuid`, `need_to_upload` changes, and `any_uuid` is only ever reset to a left uuid of the
join, on a step that waits for a left and a right uuid of the join -/
def Rel (ep : PStep) (cur cur' : List PStep) : Prop :=
  cur'.map coreReq = cur.map coreReq ∧
  ∀ (j : Nat) (s s' : PStep), cur[j]? = some s → cur'[j]? = some s' →
    s'.anyUuid = s.anyUuid ∨
      ∃ sv ∈ ep.lfu, s'.anyUuid = some sv ∧ (∃ x ∈ ep.lfu, x ∈ s.req) ∧ (∃ y ∈ ep.rfu, y ∈ s.req)

theorem Rel.refl (ep : PStep) (cur : List PStep) : Rel ep cur cur :=
  ⟨rfl, fun j s s' h h' => by rw [h] at h'; cases h'; exact Or.inl rfl⟩

theorem getElem?_of_map_eq {β : Type} {f : PStep → β} {l l' : List PStep} (h : l'.map f = l.map f) (j : Nat) :
    (l'[j]?).map f = (l[j]?).map f := by
  have := congrArg (fun x => x[j]?) h
  simpa using this

theorem Rel.trans {ep : PStep} {a b c : List PStep} (h1 : Rel ep a b) (h2 : Rel ep b c) : Rel ep a c := by
  refine ⟨h2.1.trans h1.1, ?_⟩
  intro j s s'' hs hs''
  have hb := getElem?_of_map_eq h1.1 j
  rw [hs] at hb
  cases hbj : b[j]? with
  | none => rw [hbj] at hb; cases hb
  | some s' =>
    rw [hbj] at hb
    simp only [Option.map_some, Option.some.injEq] at hb
    have hreq : s'.req = s.req := req_of_coreReq hb
    rcases h2.2 j s' s'' hbj hs'' with h | ⟨sv, hsv, ha, hx, hy⟩
    · rcases h1.2 j s s' hs hbj with h' | h'
      · exact Or.inl (h.trans h')
      · obtain ⟨sv, hsv, ha, hx, hy⟩ := h'
        exact Or.inr ⟨sv, hsv, h.trans ha, hx, hy⟩
    · exact Or.inr ⟨sv, hsv, ha, by rwa [hreq] at hx, by rwa [hreq] at hy⟩

theorem Rel.modAt_cir (ep : PStep) (cur : List PStep) (j : Nat) (v : List Nat) :
    Rel ep cur (modAt (fun s => { s with cir := s.cir ++ v }) j cur) := by
  refine ⟨map_modAt coreReq (fun s => { s with cir := s.cir ++ v }) (fun s => rfl) j cur, ?_⟩
  intro i s s' hs hs'
  rw [getElem?_modAt] at hs'
  split at hs'
  · rw [hs] at hs'; simp at hs'; subst hs'; exact Or.inl rfl
  · rw [hs] at hs'; cases hs'; exact Or.inl rfl

theorem innerUuidLoop_store (ep : PStep) : ∀ (us : List Nat) (store : Option Nat) (sv : Nat),
    (innerUuidLoop ep us store).2 = some sv → store = some sv ∨ sv ∈ ep.lfu := by
  intro us
  induction us with
  | nil => intro store sv h; exact Or.inl h
  | cons u r ih =>
    intro store sv h
    unfold innerUuidLoop at h
    split at h
    · exact Or.inl h
    · rcases ih _ sv h with h' | h'
      · split at h'
        · rename_i hu; cases h'; exact Or.inr hu
        · exact Or.inl h'
      · exact Or.inr h'

/-- `for inner_ep in execution_plan` of the same-framework branch keeps `Rel`; the carried `store_val` is a left uuid -/
theorem sameFwLoop_rel (o : Ord) (ep : PStep) : ∀ (js : List Nat) (cur : List PStep) (upl : List Nat) (store : Option Nat)
    (cur' : List PStep) (upl' : List Nat) (store' : Option Nat),
    (∀ sv, store = some sv → sv ∈ ep.lfu) →
    sameFwLoop o ep js (cur, upl, store) = .ok (cur', upl', store') → Rel ep cur cur' := by
  intro js
  induction js with
  | nil =>
    intro cur upl store cur' upl' store' _ h
    simp only [sameFwLoop, Except.ok.injEq, Prod.mk.injEq] at h
    rw [← h.1]; exact Rel.refl ep cur
  | cons j r ih =>
    intro cur upl store cur' upl' store' hst h
    unfold sameFwLoop at h
    cases hj : cur[j]? with
    | none => rw [hj] at h; exact ih _ _ _ _ _ _ hst h
    | some inner =>
      rw [hj] at h
      simp only at h
      split at h
      · exact ih _ _ _ _ _ _ hst h
      · -- an FG step
        generalize hloop : innerUuidLoop ep (iterAt o 1 inner.outs) store = res at h
        obtain ⟨hit, st2⟩ := res
        simp only at h
        have hst2 : ∀ sv, st2 = some sv → sv ∈ ep.lfu := by
          intro sv hsv
          have := innerUuidLoop_store ep (iterAt o 1 inner.outs) store sv (by rw [hloop]; exact hsv)
          rcases this with h' | h'
          · exact hst sv h'
          · exact h'
        have hrel1 : Rel ep cur (if hit = true then modAt (fun s => { s with cir := s.cir ++ [ep.link.getD 0] }) j cur else cur) := by
          split
          · exact Rel.modAt_cir ep cur j _
          · exact Rel.refl ep cur
        cases hs2 : st2 with
        | none =>
          rw [hs2] at h
          simp only at h
          exact hrel1.trans (ih _ _ _ _ _ _ (by intro sv hsv; cases hsv) h)
        | some sv =>
          rw [hs2] at h
          simp only at h
          have hsv : sv ∈ ep.lfu := hst2 sv hs2
          split at h
          · rename_i hcond
            split at h
            · cases h
            · refine (hrel1.trans ?_).trans (ih _ _ _ _ _ _ (by intro x hx; cases hx; exact hsv) h)
              -- the reset of tfs_ids / any_uuid on object j
              generalize (if hit = true then modAt (fun s => { s with cir := s.cir ++ [ep.link.getD 0] }) j cur else cur) = cur1 at hrel1
              refine ⟨map_modAt coreReq (fun s => { s with tfsIds := [sv], anyUuid := some sv }) (fun s => rfl) j cur1, ?_⟩
              intro i s s' hs hs'
              rw [getElem?_modAt] at hs'
              split at hs'
              · rename_i hij
                subst hij
                rw [hs] at hs'; simp at hs'; subst hs'
                -- s is object j of cur1, whose req is that of `inner`
                have h1 := getElem?_of_map_eq hrel1.1 i
                rw [hs, hj] at h1
                simp only [Option.map_some, Option.some.injEq] at h1
                have hreq : s.req = inner.req := req_of_coreReq h1
                simp only [Bool.and_eq_true, List.any_eq_true, decide_eq_true_eq] at hcond
                refine Or.inr ⟨sv, hsv, rfl, ?_, ?_⟩
                · obtain ⟨x, hx1, hx2⟩ := hcond.1; exact ⟨x, hx1, by rw [hreq]; exact hx2⟩
                · obtain ⟨y, hy1, hy2⟩ := hcond.2; exact ⟨y, hy1, by rw [hreq]; exact hy2⟩
              · rw [hs] at hs'; cases hs'; exact Or.inl rfl
          · exact hrel1.trans (ih _ _ _ _ _ _ (by intro x hx; cases hx; exact hsv) h)

end PlanFull

namespace PlanFull
open Sched OptGroup

/-- what the parent loop of the FeatureGroupStep branch adds -/
structure FgAdded (g : Graph) (parents : List Nat) (s f : FState) (added : List PStep) : Prop where
  new_eq : f.new = s.new ++ added
  req_eq : f.ep.req = s.ep.req ++ added.map (·.uuid)
  core_eq : core f.ep = core s.ep
  any_eq : f.ep.anyUuid = s.ep.anyUuid
  n_le : s.n ≤ f.n
  each : ∀ x ∈ added, x.kind = .tfs ∧ x.outs = [x.uuid] ∧ s.n ≤ x.uuid ∧ x.uuid < f.n ∧
    ∃ q ∈ parents, g.fw q ≠ s.ep.fw ∧ x.req = [q]
  sorted : (added.map (·.uuid)).Pairwise (· < ·)

theorem FgAdded.refl (g : Graph) (s : FState) : FgAdded g [] s s [] :=
  ⟨by simp, by simp, rfl, rfl, Nat.le_refl _, (by intro x hx; cases hx), by simp⟩

theorem FgAdded.trans {g : Graph} {p1 p2 : List Nat} {s m f : FState} {a1 a2 : List PStep}
    (h1 : FgAdded g p1 s m a1) (h2 : FgAdded g p2 m f a2) : FgAdded g (p1 ++ p2) s f (a1 ++ a2) := by
  have hfw : m.ep.fw = s.ep.fw := fw_of_core h1.core_eq
  refine ⟨by rw [h2.new_eq, h1.new_eq]; simp, by rw [h2.req_eq, h1.req_eq]; simp, h2.core_eq.trans h1.core_eq,
    h2.any_eq.trans h1.any_eq, Nat.le_trans h1.n_le h2.n_le, ?_, ?_⟩
  · intro x hx
    rcases List.mem_append.mp hx with hx | hx
    · obtain ⟨a, b, c, d, q, hq, e1, e2⟩ := h1.each x hx
      exact ⟨a, b, c, Nat.lt_of_lt_of_le d h2.n_le, q, List.mem_append_left _ hq, e1, e2⟩
    · obtain ⟨a, b, c, d, q, hq, e1, e2⟩ := h2.each x hx
      exact ⟨a, b, Nat.le_trans h1.n_le c, d, q, List.mem_append_right _ hq, by rw [← hfw]; exact e1, e2⟩
  · rw [List.map_append, List.pairwise_append]
    refine ⟨h1.sorted, h2.sorted, ?_⟩
    intro u hu v hv
    obtain ⟨x, hx, rfl⟩ := List.mem_map.mp hu
    obtain ⟨y, hy, rfl⟩ := List.mem_map.mp hv
    have hx' := (h1.each x hx).2.2.2.1
    have hy' := (h2.each y hy).2.2.1
    omega

theorem fgTfsBody_spec (g : Graph) (joins : List PStep) (pp : List Nat) (s : FState) (p : Nat) :
    ∃ added, FgAdded g [p] s (fgTfsBody g joins pp s p) added := by
  unfold fgTfsBody
  split
  · exact ⟨[], FgAdded.refl g s |>.trans (FgAdded.refl g s) |> fun h => by
      exact ⟨h.new_eq, h.req_eq, h.core_eq, h.any_eq, h.n_le, (by intro x hx; cases hx), h.sorted⟩⟩
  · split
    · exact ⟨[], by simp, by simp, rfl, rfl, Nat.le_refl _, (by intro x hx; cases hx), by simp⟩
    · split
      · rename_i hfw
        have hfw' : g.fw p ≠ s.ep.fw := by
          intro h; rw [h] at hfw; simp at hfw
        simp only
        by_cases hisNew : tkey (fgTfs g s.ep s.n p) ∉ s.tc
        · simp only [hisNew, not_false_eq_true, decide_true, if_true]
          refine ⟨[fgTfs g s.ep s.n p], by simp, by simp [fgTfs], rfl, rfl, Nat.le_succ _, ?_, by simp⟩
          intro x hx
          simp only [List.mem_singleton] at hx
          subst hx
          exact ⟨rfl, rfl, Nat.le_refl _, Nat.lt_succ_self _, p, by simp, hfw', rfl⟩
        · simp only [hisNew, decide_false, Bool.false_eq_true, if_false]
          exact ⟨[], by simp, by simp, rfl, rfl, Nat.le_succ _, (by intro x hx; cases hx), by simp⟩
      · exact ⟨[], by simp, by simp, rfl, rfl, Nat.le_refl _, (by intro x hx; cases hx), by simp⟩

theorem fgTfsLoop_spec (g : Graph) (joins : List PStep) (pp : List Nat) : ∀ (parents : List Nat) (s : FState),
    ∃ added, FgAdded g parents s (fgTfsLoop g joins pp parents s) added := by
  intro parents
  induction parents with
  | nil => intro s; exact ⟨[], FgAdded.refl g s⟩
  | cons p ps ih =>
    intro s
    obtain ⟨a1, h1⟩ := fgTfsBody_spec g joins pp s p
    obtain ⟨a2, h2⟩ := ih (fgTfsBody g joins pp s p)
    refine ⟨a1 ++ a2, ?_⟩
    have := h1.trans h2
    simpa [fgTfsLoop] using this

theorem ite_upload_coreReq (c : Prop) [Decidable c] (s : PStep) :
    coreReq (if c then { s with upload := true } else s) = coreReq s := by
  by_cases h : c <;> simp [h, coreReq]

theorem ite_upload_any (c : Prop) [Decidable c] (s : PStep) :
    (if c then { s with upload := true } else s).anyUuid = s.anyUuid := by
  by_cases h : c <;> simp [h]

theorem markUpload_coreReq (i : Nat) (upl : List Nat) (cur : List PStep) : (markUpload i upl cur).map coreReq = cur.map coreReq := by
  unfold markUpload
  apply List.ext_getElem?
  intro j
  simp only [List.getElem?_map, List.getElem?_mapIdx]
  cases cur[j]? with
  | none => rfl
  | some s =>
    simp only [Option.map_some, ite_upload_coreReq]

theorem markUpload_any (i : Nat) (upl : List Nat) (cur : List PStep) (j : Nat) :
    ((markUpload i upl cur)[j]?).map (·.anyUuid) = (cur[j]?).map (·.anyUuid) := by
  unfold markUpload
  simp only [List.getElem?_mapIdx]
  cases cur[j]? with
  | none => rfl
  | some s =>
    simp only [Option.map_some, ite_upload_any]

theorem markUpload_rel (ep : PStep) (i : Nat) (upl : List Nat) (cur : List PStep) : Rel ep cur (markUpload i upl cur) := by
  refine ⟨markUpload_coreReq i upl cur, ?_⟩
  intro j s s' hs hs'
  have := markUpload_any i upl cur j
  rw [hs, hs'] at this
  simp only [Option.map_some, Option.some.injEq] at this
  exact Or.inl this

end PlanFull
