import MlodaVerif.Lemmas.OptionsPyVal
/-! Association lists with string keys: `sortKV` is canonical — two dictionaries with distinct keys that agree
(up to a relation on values) key by key sort into pointwise related item lists. -/

namespace OptDict
open PyVal (insertKV sortKV keysOf nodupKeys pyEq mh item)

theorem str_trichotomy {a b : String} (h1 : ¬ a < b) (h2 : a ≠ b) : b < a := by
  have h1' : b ≤ a := String.not_lt.mp h1
  rcases Decidable.em (b < a) with h | h
  · exact h
  · exact absurd (String.le_antisymm (String.not_lt.mp h) h1') h2

theorem nodupKeys_iff (l : List String) : nodupKeys l = true ↔ l.Nodup := by
  induction l with
  | nil => simp [nodupKeys]
  | cons k ks ih => simp [nodupKeys, ih, List.nodup_cons]

theorem keysOf_cons (kv : String × PyVal) (d : PyDict) : keysOf (kv :: d) = kv.1 :: keysOf d := rfl

theorem mem_keysOf {d : PyDict} {k : String} : k ∈ keysOf d ↔ ∃ v, (k, v) ∈ d := by
  simp [keysOf]

theorem lookup_cons_if (a : String) (b : PyVal) (t : PyDict) (k : String) :
    ((a, b) :: t).lookup k = if k = a then some b else t.lookup k := by
  by_cases h : k = a
  · subst h; simp
  · have hb : (k == a) = false := by simpa using h
    simp [List.lookup_cons, hb, h]

theorem lookup_none_iff {d : PyDict} {k : String} : d.lookup k = none ↔ k ∉ keysOf d := by
  induction d with
  | nil => simp [keysOf]
  | cons kv t ih =>
    obtain ⟨k', v'⟩ := kv
    simp only [List.lookup_cons, keysOf_cons, List.mem_cons, not_or]
    by_cases h : k = k'
    · subst h; simp
    · have : (k == k') = false := by simpa using h
      simp [this, ih, h]

theorem lookup_some_of_mem {d : PyDict} (hn : (keysOf d).Nodup) {k : String} {v : PyVal} (hm : (k, v) ∈ d) :
    d.lookup k = some v := by
  induction d with
  | nil => cases hm
  | cons kv t ih =>
    obtain ⟨k', v'⟩ := kv
    rw [keysOf_cons, List.nodup_cons] at hn
    simp only [List.lookup_cons]
    rcases List.mem_cons.mp hm with h | h
    · cases h; simp
    · have hk : k ∈ keysOf t := mem_keysOf.mpr ⟨v, h⟩
      have : k ≠ k' := fun e => hn.1 (e ▸ hk)
      have hb : (k == k') = false := by simpa using this
      simp [hb, ih hn.2 h]

theorem mem_of_lookup_some {d : PyDict} {k : String} {v : PyVal} (h : d.lookup k = some v) : (k, v) ∈ d := by
  induction d with
  | nil => simp at h
  | cons kv t ih =>
    obtain ⟨k', v'⟩ := kv
    simp only [List.lookup_cons] at h
    by_cases hk : k = k'
    · subst hk; simp at h; subst h; simp
    · have hb : (k == k') = false := by simpa using hk
      simp [hb] at h
      exact List.mem_cons_of_mem _ (ih h)

/-! ### insertion sort by key -/

theorem mem_keys_insertKV (kv : String × PyVal) (d : PyDict) (k : String) :
    k ∈ keysOf (insertKV kv d) ↔ k = kv.1 ∨ k ∈ keysOf d := by
  induction d with
  | nil => simp [insertKV, keysOf]
  | cons h t ih =>
    unfold insertKV
    split
    · simp [keysOf]
    · simp only [keysOf_cons, List.mem_cons, ih]
      constructor
      · rintro (h1 | h1 | h1) <;> simp [h1]
      · rintro (h1 | h1 | h1) <;> simp [h1]

theorem mem_keys_sortKV (d : PyDict) (k : String) : k ∈ keysOf (sortKV d) ↔ k ∈ keysOf d := by
  induction d with
  | nil => simp [sortKV]
  | cons kv t ih =>
    have : sortKV (kv :: t) = insertKV kv (sortKV t) := rfl
    rw [this, mem_keys_insertKV, ih, keysOf_cons, List.mem_cons]

theorem lookup_insertKV (kv : String × PyVal) (d : PyDict) (hk : kv.1 ∉ keysOf d) (k : String) :
    (insertKV kv d).lookup k = if k = kv.1 then some kv.2 else d.lookup k := by
  obtain ⟨a, b⟩ := kv
  induction d with
  | nil => simp [insertKV, lookup_cons_if]
  | cons h t ih =>
    obtain ⟨a', b'⟩ := h
    rw [keysOf_cons, List.mem_cons, not_or] at hk
    unfold insertKV
    split
    · rw [lookup_cons_if]
    · rw [lookup_cons_if, ih hk.2, lookup_cons_if]
      simp only at hk
      by_cases h1 : k = a' <;> by_cases h2 : k = a
      · exact absurd (h2.symm.trans h1) hk.1
      · subst h1; simp [h2]
      · subst h2; simp [h1]
      · simp [h1, h2]

theorem lookup_sortKV (d : PyDict) (hn : (keysOf d).Nodup) (k : String) : (sortKV d).lookup k = d.lookup k := by
  induction d with
  | nil => simp [sortKV]
  | cons kv t ih =>
    rw [keysOf_cons, List.nodup_cons] at hn
    have e : sortKV (kv :: t) = insertKV kv (sortKV t) := rfl
    have hk : kv.1 ∉ keysOf (sortKV t) := by rw [mem_keys_sortKV]; exact hn.1
    rw [e, lookup_insertKV kv _ hk, ih hn.2]
    obtain ⟨a, b⟩ := kv
    rw [lookup_cons_if]

/-- strictly increasing keys -/
def SortedK (d : PyDict) : Prop := (keysOf d).Pairwise (· < ·)

theorem sorted_insertKV (kv : String × PyVal) (d : PyDict) (hs : SortedK d) (hk : kv.1 ∉ keysOf d) :
    SortedK (insertKV kv d) := by
  induction d with
  | nil => simp [insertKV, SortedK, keysOf]
  | cons h t ih =>
    unfold SortedK at hs ⊢
    rw [keysOf_cons, List.pairwise_cons] at hs
    rw [keysOf_cons, List.mem_cons, not_or] at hk
    unfold insertKV
    split
    · rename_i hlt
      simp only [keysOf_cons, List.pairwise_cons, List.mem_cons]
      refine ⟨?_, hs.1, hs.2⟩
      rintro x (rfl | hx)
      · exact hlt
      · exact String.lt_trans hlt (hs.1 x hx)
    · rename_i hnlt
      rw [keysOf_cons, List.pairwise_cons]
      refine ⟨?_, ih hs.2 hk.2⟩
      intro x hx
      rcases (mem_keys_insertKV kv t x).mp hx with rfl | hx
      · exact str_trichotomy hnlt hk.1
      · exact hs.1 x hx

theorem sorted_sortKV (d : PyDict) (hn : (keysOf d).Nodup) : SortedK (sortKV d) := by
  induction d with
  | nil => simp [sortKV, SortedK, keysOf]
  | cons kv t ih =>
    rw [keysOf_cons, List.nodup_cons] at hn
    have e : sortKV (kv :: t) = insertKV kv (sortKV t) := rfl
    rw [e]
    exact sorted_insertKV kv _ (ih hn.2) (by rw [mem_keys_sortKV]; exact hn.1)

/-! ### canonicity -/

/-- key-by-key agreement of two dictionaries up to `R` on the values -/
def LookRel (R : PyVal → PyVal → Prop) (X Y : PyDict) : Prop :=
  ∀ k, match X.lookup k, Y.lookup k with
    | some a, some b => R a b
    | none, none => True
    | _, _ => False

/-- pointwise agreement: same keys in the same order, related values -/
def KVRel (R : PyVal → PyVal → Prop) : PyDict → PyDict → Prop
  | [], [] => True
  | kv :: t, kv' :: t' => kv.1 = kv'.1 ∧ R kv.2 kv'.2 ∧ KVRel R t t'
  | _, _ => False

theorem sorted_head_lt {kv : String × PyVal} {t : PyDict} (hs : SortedK (kv :: t)) {k : String}
    (hk : k ∈ keysOf t) : kv.1 < k := by
  unfold SortedK at hs; rw [keysOf_cons, List.pairwise_cons] at hs; exact hs.1 k hk

theorem sorted_tail {kv : String × PyVal} {t : PyDict} (hs : SortedK (kv :: t)) : SortedK t := by
  unfold SortedK at hs ⊢; rw [keysOf_cons, List.pairwise_cons] at hs; exact hs.2

theorem sorted_head_notin {kv : String × PyVal} {t : PyDict} (hs : SortedK (kv :: t)) : kv.1 ∉ keysOf t :=
  fun h => String.lt_irrefl _ (sorted_head_lt hs h)

theorem kvrel_of_sorted (R : PyVal → PyVal → Prop) :
    ∀ (X Y : PyDict), SortedK X → SortedK Y → LookRel R X Y → KVRel R X Y := by
  intro X
  induction X with
  | nil =>
    intro Y _ _ h
    cases Y with
    | nil => trivial
    | cons kv t => obtain ⟨k, v⟩ := kv; have := h k; simp at this
  | cons kv t ih =>
    intro Y hX hY h
    obtain ⟨k, v⟩ := kv
    cases Y with
    | nil => have := h k; simp at this
    | cons kv' t' =>
      obtain ⟨k', v'⟩ := kv'
      have hkk : k = k' := by
        rcases Decidable.em (k = k') with e | ne
        · exact e
        · exfalso
          -- the smaller head key is missing on the other side
          rcases Decidable.em (k < k') with hlt | hnlt
          · have hno : ((k', v') :: t').lookup k = none := by
              rw [lookup_none_iff, keysOf_cons, List.mem_cons, not_or]
              refine ⟨ne, fun hm => ?_⟩
              exact String.lt_asymm hlt (sorted_head_lt hY hm)
            have := h k; simp [List.lookup_cons_self, hno] at this
          · have hlt : k' < k := str_trichotomy hnlt ne
            have hno : ((k, v) :: t).lookup k' = none := by
              rw [lookup_none_iff, keysOf_cons, List.mem_cons, not_or]
              refine ⟨fun e => ne e.symm, fun hm => ?_⟩
              exact String.lt_asymm hlt (sorted_head_lt hX hm)
            have := h k'; simp [List.lookup_cons_self, hno] at this
      subst hkk
      refine ⟨rfl, ?_, ih t' (sorted_tail hX) (sorted_tail hY) ?_⟩
      · have := h k; simpa [List.lookup_cons_self] using this
      · intro j
        have hj := h j
        by_cases e : j = k
        · subst e
          have h1 : t.lookup j = none := lookup_none_iff.mpr (sorted_head_notin hX)
          have h2 : t'.lookup j = none := lookup_none_iff.mpr (sorted_head_notin hY)
          simp [h1, h2]
        · have hb : (j == k) = false := by simpa using e
          simpa [List.lookup_cons, hb] using hj

end OptDict
