import MlodaVerif.Lemmas.PlanFullTfsInv
/-! `add_tfs` does not raise on a plan of FeatureGroupSteps that have a representative and JoinSteps that are not APPEND/UNION. -/
namespace PlanFull
open Sched OptGroup

theorem foldlM_ok {σ α ε : Type} (f : σ → α → Except ε σ) (I : σ → Prop) :
    ∀ (l : List α) (s0 : σ), I s0 → (∀ s a, I s → ∃ s', f s a = .ok s' ∧ I s') → ∃ s, l.foldlM f s0 = .ok s ∧ I s := by
  intro l
  induction l with
  | nil => intro s0 h0 _; exact ⟨s0, rfl, h0⟩
  | cons a r ih =>
    intro s0 h0 hstep
    obtain ⟨s1, h1, hI1⟩ := hstep s0 a h0
    obtain ⟨s, hs, hI⟩ := ih s1 hI1 hstep
    exact ⟨s, by rw [List.foldlM_cons, h1]; exact hs, hI⟩

def notAUjt (jt : JT) : Prop := jt ≠ .append ∧ jt ≠ .union

theorem sameFwLoop_ok (o : Ord) (ep : PStep) (hau : notAUjt ep.jt) : ∀ (js : List Nat) (st : List PStep × List Nat × Option Nat),
    ∃ r, sameFwLoop o ep js st = .ok r := by
  intro js
  induction js with
  | nil => intro st; exact ⟨st, rfl⟩
  | cons j r ih =>
    intro st
    obtain ⟨cur, upl, store⟩ := st
    unfold sameFwLoop
    cases cur[j]? with
    | none => exact ih _
    | some inner =>
      simp only
      split
      · exact ih _
      · generalize innerUuidLoop ep (iterAt o 1 inner.outs) store = res
        obtain ⟨hit, st2⟩ := res
        simp only
        cases st2 with
        | none => exact ih _
        | some sv =>
          simp only
          split
          · have h1 : (ep.jt == JT.append) = false := by simp [hau.1]
            have h2 : (ep.jt == JT.union) = false := by simp [hau.2]
            simp only [h1, h2, Bool.or_self, Bool.false_eq_true, if_false]
            exact ih _
          · exact ih _

/-- what `add_tfs` needs of its input not to raise -/
def TfsInput (p : List PStep) : Prop :=
  ∀ s ∈ p, (s.kind = .fg ∧ s.anyUuid ≠ none) ∨ (s.kind = .join ∧ notAUjt s.jt)

theorem jt_of_core {s s' : PStep} (h : core s' = core s) : s'.jt = s.jt := by
  have := congrArg PStep.jt h; simpa [core] using this

theorem addTfs_ok (g : Graph) (linfo : Nat → LinkInfo) (o : Ord) (jc : List (Nat × List Nat)) {p : List PStep} (hp : TfsInput p)
    (n : Nat) : ∃ P, addTfs g linfo o jc p n = .ok P := by
  have := foldlM_ok (tfsStep g linfo o jc)
    (fun st => st.cur.map core = p.map core ∧ ∀ (i : Nat) (s : PStep), st.cur[i]? = some s → s.kind = .fg → s.anyUuid ≠ none)
    (List.range p.length) { cur := p, n := n }
    ⟨rfl, by
      intro i s hs hk
      rcases hp s (List.mem_of_getElem? hs) with h | h
      · exact h.2
      · rw [h.1] at hk; cases hk⟩
    (by
      intro st i ⟨hcore, hany⟩
      -- the step succeeds
      have hsucc : ∃ st', tfsStep g linfo o jc st i = .ok st' := by
        unfold tfsStep
        cases hep : st.cur[i]? with
        | none => exact ⟨st, rfl⟩
        | some ep =>
          simp only
          have hi : i < p.length := by
            have := congrArg List.length hcore
            simp only [List.length_map] at this
            rw [← this]; exact (List.getElem?_eq_some_iff.mp hep).1
          have hc := core_at hcore (List.getElem?_eq_getElem hi) hep
          rcases hp p[i] (List.getElem_mem hi) with ⟨hk, _⟩ | ⟨hk, hau⟩
          · have hk' : ep.kind = .fg := by rw [kind_of_core hc]; exact hk
            simp only [hk']
            cases ha : ep.anyUuid with
            | none => exact absurd ha (hany i ep hep hk')
            | some a => exact ⟨_, rfl⟩
          · have hk' : ep.kind = .join := by rw [kind_of_core hc]; exact hk
            simp only [hk']
            by_cases hb : (ep.fw != ep.fw2) = true
            · simp only [hb, if_true]
              exact ⟨_, rfl⟩
            · simp only [hb, if_false]
              obtain ⟨r, hr⟩ := sameFwLoop_ok o ep (by rw [jt_of_core hc]; exact hau) (List.range st.cur.length) (st.cur, st.upl, none)
              rw [hr]
              obtain ⟨c, u, _⟩ := r
              exact ⟨_, rfl⟩
      obtain ⟨st', hst'⟩ := hsucc
      refine ⟨st', hst', ?_⟩
      cases hep : st.cur[i]? with
      | none =>
        unfold tfsStep at hst'
        rw [hep] at hst'
        simp only at hst'
        cases hst'
        exact ⟨hcore, hany⟩
      | some ep =>
        obtain ⟨ts, _, heff⟩ := tfsStep_eff g linfo o jc st st' i ep hep hst'
        refine ⟨heff.core_eq.trans hcore, ?_⟩
        intro j s' hs' hk'
        obtain ⟨s0, hs⟩ := exists_at_of_core heff.core_eq.symm hs'
        have hc := core_at heff.core_eq hs hs'
        have hks : s0.kind = .fg := by rw [← kind_of_core hc]; exact hk'
        by_cases hji : j = i
        · subst hji
          rw [hep] at hs; cases hs
          obtain ⟨s1, hs1, ha⟩ := heff.own_any hks
          rw [hs'] at hs1; cases hs1
          rw [ha]; exact hany j ep hep hks
        · obtain ⟨_, ha⟩ := heff.others j hji s0 s' hs hs'
          rcases ha with ha | ⟨_, _, sv, _, ha, _⟩
          · rw [ha]; exact hany j s0 hs hks
          · rw [ha]; simp)
  obtain ⟨st, hst, _⟩ := this
  exact ⟨assemble st.ins st.cur, by unfold addTfs; rw [hst]⟩

end PlanFull
