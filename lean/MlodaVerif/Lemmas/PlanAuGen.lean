import MlodaVerif.Gen.PlanAuGen
import MlodaVerif.Lemmas.PyRt
/-! # `handle_append_or_union_joinstep`: the translation (`Gen/PlanAuGen.lean`) against `PlanFull.handleAppendUnion`

The model keeps the mapping "left framework uuid ↦ link uuids" as a list of pairs and de-duplicates with `List.eraseDups`; the Python
code keeps a `defaultdict(set)` and uses `set.update`.  `PSet.ofList` (fold of `PSet.add`) is the common ground. -/
namespace PlanAuGenL
open PyRt

/-! ### `eraseDups` is the fold of `PSet.add` -/

theorem foldl_add_cons (a : Nat) (as acc : List Nat) :
    as.foldl PSet.add (a :: acc) = a :: (as.filter (fun b => !(b == a))).foldl PSet.add acc := by
  induction as generalizing acc with
  | nil => rfl
  | cons x xs ih =>
    by_cases hx : x = a
    · subst hx
      simp [PSet.add, ih]
    · have h1 : PSet.add (a :: acc) x = a :: PSet.add acc x := by
        unfold PSet.add
        by_cases hm : x ∈ acc <;> simp [hm, hx]
      simp only [List.foldl_cons, h1, ih]
      simp [hx]

theorem eraseDups_eq_ofList_aux : ∀ (n : Nat) (l : List Nat), l.length ≤ n → l.eraseDups = PSet.ofList l := by
  intro n
  induction n with
  | zero =>
    intro l hl
    have : l = [] := List.eq_nil_of_length_eq_zero (Nat.le_zero.mp hl)
    subst this; rfl
  | succ n ih =>
    intro l hl
    cases l with
    | nil => rfl
    | cons a as =>
      have hlen : (as.filter (fun b => !(b == a))).length ≤ n := by
        have := List.length_filter_le (fun b => !(b == a)) as
        simp only [List.length_cons] at hl
        omega
      rw [List.eraseDups_cons, ih _ hlen]
      unfold PSet.ofList
      rw [List.foldl_cons]
      have h0 : PSet.add [] a = [a] := by simp [PSet.add]
      rw [h0, foldl_add_cons]

theorem eraseDups_eq_ofList (l : List Nat) : l.eraseDups = PSet.ofList l := eraseDups_eq_ofList_aux l.length l (Nat.le_refl _)

theorem mem_foldl_add (l acc : List Nat) (x : Nat) : x ∈ l.foldl PSet.add acc ↔ x ∈ acc ∨ x ∈ l := by
  induction l generalizing acc with
  | nil => simp
  | cons a as ih =>
    rw [List.foldl_cons, ih]
    unfold PSet.add
    by_cases h : a ∈ acc
    · simp only [h, if_true, List.mem_cons]
      grind
    · simp only [h, if_false, List.mem_append, List.mem_cons]
      grind

theorem mem_ofList (l : List Nat) (x : Nat) : x ∈ PSet.ofList l ↔ x ∈ l := by
  unfold PSet.ofList; rw [mem_foldl_add]; simp

theorem ofList_cons (a : Nat) (l : List Nat) : PSet.ofList (a :: l) = a :: PSet.ofList (l.filter (fun b => !(b == a))) := by
  unfold PSet.ofList
  rw [List.foldl_cons]
  have h0 : PSet.add [] a = [a] := by simp [PSet.add]
  rw [h0, foldl_add_cons]

/-- de-duplication commutes with filtering -/
theorem ofList_filter_aux (p : Nat → Bool) : ∀ (n : Nat) (l : List Nat), l.length ≤ n → PSet.ofList (l.filter p) = (PSet.ofList l).filter p := by
  intro n
  induction n with
  | zero =>
    intro l hl
    have : l = [] := List.eq_nil_of_length_eq_zero (Nat.le_zero.mp hl)
    subst this; rfl
  | succ n ih =>
    intro l hl
    cases l with
    | nil => rfl
    | cons a as =>
      have hlen : (as.filter (fun b => !(b == a))).length ≤ n := by
        have := List.length_filter_le (fun b => !(b == a)) as
        simp only [List.length_cons] at hl
        omega
      rw [ofList_cons a as]
      by_cases hp : p a = true
      · rw [List.filter_cons_of_pos hp, ofList_cons, List.filter_cons_of_pos hp, ← ih _ hlen]
        congr 2
        rw [List.filter_filter, List.filter_filter]
        apply List.filter_congr
        intro x _
        exact Bool.and_comm _ _
      · rw [List.filter_cons_of_neg hp, List.filter_cons_of_neg hp, ← ih _ hlen]
        congr 1
        rw [List.filter_filter]
        apply List.filter_congr
        intro x _
        by_cases hx : x = a
        · subst hx; simp [hp]
        · simp [hx]

theorem ofList_filter (p : Nat → Bool) (l : List Nat) : PSet.ofList (l.filter p) = (PSet.ofList l).filter p :=
  ofList_filter_aux p l.length l (Nat.le_refl _)

/-- adding the elements of `l` to the set `r`: `r`, then the new elements in first-occurrence order -/
theorem foldl_add_eq (l r : List Nat) : l.foldl PSet.add r = r ++ PSet.ofList (l.filter (fun x => decide (x ∉ r))) := by
  induction l generalizing r with
  | nil => simp [PSet.ofList]
  | cons a as ih =>
    rw [List.foldl_cons]
    by_cases ha : a ∈ r
    · have h1 : PSet.add r a = r := by simp [PSet.add, ha]
      rw [h1, ih, List.filter_cons_of_neg (by simpa using ha)]
    · have h1 : PSet.add r a = r ++ [a] := by simp [PSet.add, ha]
      rw [h1, ih, List.filter_cons_of_pos (by simpa using ha), ofList_cons, List.filter_filter]
      simp only [List.append_assoc, List.singleton_append]
      congr 3
      apply List.filter_congr
      intro x _
      by_cases hx : x = a
      · subst hx; simp
      · simp [hx]

theorem ofList_nodup (r : List Nat) (h : r.Nodup) : PSet.ofList r = r := by
  induction r with
  | nil => rfl
  | cons a as ih =>
    have ha : a ∉ as := (List.nodup_cons.mp h).1
    rw [ofList_cons]
    have hf : as.filter (fun b => !(b == a)) = as := by
      apply List.filter_eq_self.mpr
      intro x hx
      have : x ≠ a := fun e => ha (e ▸ hx)
      simp [this]
    rw [hf, ih (List.nodup_cons.mp h).2]

theorem ofList_append_singleton (l : List Nat) (x : Nat) : PSet.ofList (l ++ [x]) = PSet.add (PSet.ofList l) x := by
  unfold PSet.ofList; rw [List.foldl_append]; rfl

/-- `set.update` of a duplicate-free set with a de-duplicated list is the de-duplication of the concatenation -/
theorem update_ofList (r l : List Nat) (hr : r.Nodup) : PSet.update r (PSet.ofList l) = PSet.ofList (r ++ l) := by
  have h2 : PSet.ofList (r ++ l) = l.foldl PSet.add r := by
    unfold PSet.ofList
    rw [List.foldl_append]
    have := ofList_nodup r hr
    unfold PSet.ofList at this
    rw [this]
  rw [h2, foldl_add_eq, ofList_filter]
  rfl

/-! ### dict primitives -/

theorem get?_set (d : NDict (List Nat)) (k k' : Nat) (v : List Nat) :
    NDict.get? (NDict.set d k v) k' = if k = k' then some v else NDict.get? d k' := by
  induction d with
  | nil => by_cases h : k = k' <;> simp [NDict.set, NDict.get?, h]
  | cons a t ih =>
    obtain ⟨k0, v0⟩ := a
    by_cases h0 : k0 = k
    · subst h0
      by_cases h : k0 = k' <;> simp [NDict.set, NDict.get?, h]
    · have h0' : (k0 == k) = false := by simpa using h0
      simp only [NDict.set, h0', Bool.false_eq_true, if_false, NDict.get?]
      by_cases h1 : k0 = k'
      · subst h1
        have : ¬ k = k0 := fun e => h0 e.symm
        simp [this]
      · have h1' : (k0 == k') = false := by simpa using h1
        simp only [h1', Bool.false_eq_true, if_false, ih]

/-! ### exceptions -/

/-- the exception a model error string of `handleAppendUnion` stands for -/
def toExc (s : String) : PyExc :=
  if s = "StopIteration" then .stopIteration
  else if s = "This should not happen." then .valueError "This should not happen."
  else .exception s

def liftM {β : Type} (x : Except String β) : Except PyExc β :=
  match x with
  | .ok b => .ok b
  | .error e => .error (toExc e)

/-! ### loops -/

theorem forIn_foldlM {α σ ε : Type} (l : List α) (init : σ) (f : α → σ → Except ε (ForInStep σ)) (g : σ → α → Except ε σ)
    (h : ∀ a s, f a s = match g s a with | .ok s' => .ok (.yield s') | .error e => .error e) :
    forIn l init f = l.foldlM g init := by
  induction l generalizing init with
  | nil => rfl
  | cons a t ih =>
    simp only [List.forIn_cons, List.foldlM_cons, bind, Except.bind, h]
    cases g init a with
    | error e => rfl
    | ok s' => exact ih s'

/-- first loop, Python side: one step -/
def step1 (d : NDict (List Nat)) (s : PlanFull.PStep) : Except PyExc (NDict (List Nat)) :=
  if PlanFull.isAU s then
    if s.lfu.length > 1 then .error (.valueError "This should not happen.")
    else match s.lfu with
      | [] => .error .stopIteration
      | u :: _ => .ok (DDict.addAt d u (s.link.getD 0))
  else .ok d

/-- second loop, Python side: one step -/
def step2 (d : NDict (List Nat)) (s : PlanFull.PStep) : Except PyExc PlanFull.PStep :=
  if PlanFull.isAU s then
    if s.rfu.length > 1 then .error (.valueError "This should not happen.")
    else match s.rfu with
      | [] => .error .stopIteration
      | u :: _ => match NDict.get? d u with
        | none => .ok s
        | some r => .ok { s with req := PSet.update s.req r }
  else .ok s

/-- second loop: the list of (possibly changed) steps grows by one -/
def acc2 (d : NDict (List Nat)) (acc : List PlanFull.PStep) (s : PlanFull.PStep) : Except PyExc (List PlanFull.PStep) :=
  match step2 d s with
  | .ok s' => .ok (acc ++ [s'])
  | .error e => .error e

theorem unfold_gen (p : List PlanFull.PStep) :
    Gen.PlanAuGen.handle_append_or_union_joinstep p =
      match p.foldlM step1 [] with
      | .error e => .error e
      | .ok d => match p.foldlM (acc2 d) [] with
        | .error e => .error e
        | .ok q => .ok (q, q) := by
  unfold Gen.PlanAuGen.handle_append_or_union_joinstep
  simp only [bind, Except.bind, pure, Except.pure]
  rw [forIn_foldlM _ _ _ step1]
  · cases h1 : List.foldlM step1 [] p with
    | error e => rfl
    | ok d =>
      simp only []
      rw [forIn_foldlM _ _ _ (acc2 d)]
      · cases List.foldlM (acc2 d) [] p <;> rfl
      · intro a s
        unfold acc2 step2 PlanFull.isAU
        by_cases hc : (a.kind == Sched.Kind.join && (a.jt == PlanFull.JT.append || a.jt == PlanFull.JT.union)) = true
        · simp only [hc, if_true]
          by_cases hl : a.rfu.length > 1
          · simp [hl, throw, throwThe, MonadExceptOf.throw]
          · simp only [hl, decide_false, Bool.false_eq_true, if_false]
            cases hr : a.rfu with
            | nil => simp [PSet.nextIter]
            | cons u t =>
              simp only [PSet.nextIter]
              cases NDict.get? d u <;> rfl
        · simp only [hc]
          rfl
  · intro a s
    unfold step1 PlanFull.isAU
    by_cases hc : (a.kind == Sched.Kind.join && (a.jt == PlanFull.JT.append || a.jt == PlanFull.JT.union)) = true
    · simp only [hc, if_true]
      by_cases hl : a.lfu.length > 1
      · simp [hl, throw, throwThe, MonadExceptOf.throw]
      · simp only [hl, decide_false, Bool.false_eq_true, if_false]
        cases hr : a.lfu with
        | nil => simp [PSet.nextIter]
        | cons u t => simp [PSet.nextIter]
    · simp only [hc]
      rfl

/-! ### the model's two loops -/

def mstep1 (m : List (Nat × Nat)) (s : PlanFull.PStep) : Except String (List (Nat × Nat)) :=
  if PlanFull.isAU s then
    if s.lfu.length > 1 then .error "This should not happen."
    else match s.lfu, s.link with
      | [u], some l => .ok (m ++ [(u, l)])
      | _, _ => .error "StopIteration"
  else .ok m

def mstep2 (m : List (Nat × Nat)) (s : PlanFull.PStep) : Except String PlanFull.PStep :=
  if PlanFull.isAU s then
    if s.rfu.length > 1 then .error "This should not happen."
    else match s.rfu with
      | [u] => .ok { s with req := (s.req ++ (m.filter (fun e => e.1 == u)).map (·.2)).eraseDups }
      | _ => .error "StopIteration"
  else .ok s

theorem model_eq (p : List PlanFull.PStep) :
    PlanFull.handleAppendUnion p = (p.foldlM mstep1 [] >>= fun m => p.mapM (mstep2 m)) := by
  unfold PlanFull.handleAppendUnion
  congr 1

/-- the pairs of the model's mapping with left uuid `u` -/
def linksOf (m : List (Nat × Nat)) (u : Nat) : List Nat := (m.filter (fun e => e.1 == u)).map (·.2)

/-- the defaultdict of the translation holds, per left uuid, the de-duplicated link uuids of the model's pair list -/
def Rm (m : List (Nat × Nat)) (d : NDict (List Nat)) : Prop :=
  ∀ u, NDict.get? d u = if (linksOf m u).isEmpty then none else some (PSet.ofList (linksOf m u))

theorem Rm_nil : Rm [] [] := by intro u; simp [linksOf, NDict.get?]

theorem get_of_Rm {m : List (Nat × Nat)} {d : NDict (List Nat)} (h : Rm m d) (u : Nat) : DDict.get d u = PSet.ofList (linksOf m u) := by
  unfold DDict.get
  rw [h u]
  by_cases he : (linksOf m u).isEmpty = true
  · have : linksOf m u = [] := List.isEmpty_iff.mp he
    simp [this, PSet.ofList]
  · simp [he]

theorem Rm_add {m : List (Nat × Nat)} {d : NDict (List Nat)} (h : Rm m d) (u l : Nat) : Rm (m ++ [(u, l)]) (DDict.addAt d u l) := by
  intro u'
  unfold DDict.addAt
  rw [get?_set, get_of_Rm h]
  by_cases hu : u = u'
  · subst hu
    have hl : linksOf (m ++ [(u, l)]) u = linksOf m u ++ [l] := by simp [linksOf, List.filter_append]
    rw [hl, ofList_append_singleton]
    simp
  · have hl : linksOf (m ++ [(u, l)]) u' = linksOf m u' := by simp [linksOf, List.filter_append, hu]
    rw [hl]
    simp only [hu, if_false]
    exact h u'

/-- outcome of the two first loops: both raise the same exception, or both return related mappings -/
def Out1 (x : Except PyExc (NDict (List Nat))) (y : Except String (List (Nat × Nat))) : Prop :=
  match x, y with
  | .ok d, .ok m => Rm m d
  | .error e, .error e' => e = toExc e'
  | _, _ => False

theorem loop1 (p : List PlanFull.PStep) (hl : ∀ s ∈ p, PlanFull.isAU s = true → s.link.isSome = true) :
    ∀ (m : List (Nat × Nat)) (d : NDict (List Nat)), Rm m d → Out1 (p.foldlM step1 d) (p.foldlM mstep1 m) := by
  induction p with
  | nil => intro m d h; exact h
  | cons s t ih =>
    intro m d h
    rw [List.foldlM_cons, List.foldlM_cons]
    have hl' : ∀ s ∈ t, PlanFull.isAU s = true → s.link.isSome = true := fun x hx => hl x (List.mem_cons_of_mem _ hx)
    unfold step1 mstep1
    by_cases hc : PlanFull.isAU s = true
    · simp only [hc, if_true]
      by_cases hlen : s.lfu.length > 1
      · simp [hlen, Out1, toExc, bind, Except.bind]
      · simp only [hlen, if_false]
        have hsome := hl s List.mem_cons_self hc
        cases hf : s.lfu with
        | nil => simp [Out1, toExc, bind, Except.bind]
        | cons u r =>
          have hr : r = [] := by
            cases r with
            | nil => rfl
            | cons _ _ => rw [hf] at hlen; simp at hlen
          subst hr
          cases hk : s.link with
          | none => rw [hk] at hsome; simp at hsome
          | some l =>
            simp only [bind, Except.bind, Option.getD_some]
            exact ih hl' _ _ (Rm_add h u l)
    · simp only [hc, bind, Except.bind]
      exact ih hl' m d h

theorem step2_eq (m : List (Nat × Nat)) (d : NDict (List Nat)) (h : Rm m d) (s : PlanFull.PStep) (hr : PlanFull.isAU s = true → s.req.Nodup) :
    step2 d s = liftM (mstep2 m s) := by
  unfold step2 mstep2
  by_cases hc : PlanFull.isAU s = true
  · simp only [hc, if_true]
    by_cases hlen : s.rfu.length > 1
    · simp [hlen, liftM, toExc]
    · simp only [hlen, if_false]
      cases hf : s.rfu with
      | nil => simp [liftM, toExc]
      | cons u r =>
        have hr' : r = [] := by
          cases r with
          | nil => rfl
          | cons _ _ => rw [hf] at hlen; simp at hlen
        subst hr'
        simp only [liftM]
        rw [h u]
        have hnd := hr hc
        by_cases he : (linksOf m u).isEmpty = true
        · have h0 : linksOf m u = [] := List.isEmpty_iff.mp he
          have h1 : (List.map (fun x => x.2) (List.filter (fun e => e.1 == u) m)) = [] := h0
          simp only [he, if_true, h1, List.append_nil, eraseDups_eq_ofList, ofList_nodup _ hnd]
          rw [← hf]
        · simp only [he]
          have h1 : (List.map (fun x => x.2) (List.filter (fun e => e.1 == u) m)) = linksOf m u := rfl
          simp only [Bool.false_eq_true, if_false, h1, eraseDups_eq_ofList, update_ofList _ _ hnd]
  · simp [hc, liftM]

theorem loop2 (m : List (Nat × Nat)) (d : NDict (List Nat)) (h : Rm m d) (p : List PlanFull.PStep)
    (hr : ∀ s ∈ p, PlanFull.isAU s = true → s.req.Nodup) (acc : List PlanFull.PStep) :
    p.foldlM (acc2 d) acc = match liftM (p.mapM (mstep2 m)) with
      | .ok q => .ok (acc ++ q)
      | .error e => .error e := by
  induction p generalizing acc with
  | nil => simp [liftM, pure, Except.pure]
  | cons s t ih =>
    have hr' : ∀ s ∈ t, PlanFull.isAU s = true → s.req.Nodup := fun x hx => hr x (List.mem_cons_of_mem _ hx)
    rw [List.foldlM_cons, List.mapM_cons]
    have hacc : acc2 d acc s = match liftM (mstep2 m s) with | .ok s' => .ok (acc ++ [s']) | .error e => .error e := by
      unfold acc2
      rw [step2_eq m d h s (hr s List.mem_cons_self)]
    rw [hacc]
    cases hs : mstep2 m s with
    | error e => simp [liftM, bind, Except.bind]
    | ok s' =>
      simp only [liftM, bind, Except.bind]
      rw [ih hr']
      cases List.mapM (mstep2 m) t with
      | error e => simp [liftM]
      | ok q => simp [liftM, pure, Except.pure]

/-- **`handle_append_or_union_joinstep` is `PlanFull.handleAppendUnion`** (the function also returns the list it was given, whose
objects it changed: both components are the new plan).  Hypotheses = representation invariants: an APPEND / UNION JoinStep has a
link (`fw.link.uuid` exists) and its `required_uuids` is a set (no duplicates in the list that represents it). -/
theorem handle_bridge (p : List PlanFull.PStep) (hl : ∀ s ∈ p, PlanFull.isAU s = true → s.link.isSome = true)
    (hr : ∀ s ∈ p, PlanFull.isAU s = true → s.req.Nodup) :
    Gen.PlanAuGen.handle_append_or_union_joinstep p = match liftM (PlanFull.handleAppendUnion p) with
      | .ok q => .ok (q, q)
      | .error e => .error e := by
  rw [unfold_gen, model_eq]
  simp only [bind, Except.bind]
  have h1 := loop1 p hl [] [] Rm_nil
  cases hx : List.foldlM step1 [] p with
  | error e =>
    cases hy : List.foldlM mstep1 [] p with
    | error e' => rw [hx, hy] at h1; simp only [Out1] at h1; simp [liftM, h1]
    | ok m => rw [hx, hy] at h1; exact absurd h1 (by simp [Out1])
  | ok d =>
    cases hy : List.foldlM mstep1 [] p with
    | error e' => rw [hx, hy] at h1; exact absurd h1 (by simp [Out1])
    | ok m =>
      rw [hx, hy] at h1
      simp only [Out1] at h1
      simp only []
      rw [loop2 m d h1 p hr []]
      cases List.mapM (mstep2 m) p <;> simp [liftM]

end PlanAuGenL
