import MlodaVerif.Lemmas.LifeStep2
/-! History-indexed invariants of `Life.run`. -/
namespace Life
open Store

/-! ### the trace functions distribute over `++` -/

theorem reportedIn_append (o : Nat) (a b : List Ev) : reportedIn o (a ++ b) = reportedIn o a ++ reportedIn o b := by
  induction a with
  | nil => rfl
  | cons e t ih =>
    cases e <;> simp only [List.cons_append, reportedIn, ih]
    split <;> simp

theorem finishedIn_append (a b : List Ev) : finishedIn (a ++ b) = finishedIn a ++ finishedIn b := by
  induction a with
  | nil => rfl
  | cons e t ih => cases e <;> simp [finishedIn, ih]

theorem fgSteps_append (a b : List Ev) : fgSteps (a ++ b) = fgSteps a ++ fgSteps b := by
  induction a with
  | nil => rfl
  | cons e t ih => cases e <;> simp [fgSteps, ih]

theorem reqSteps_append (a b : List Ev) : reqSteps (a ++ b) = reqSteps a ++ reqSteps b := by
  induction a with
  | nil => rfl
  | cons e t ih =>
    cases e <;> simp only [List.cons_append, reqSteps, ih]
    split <;> simp

theorem reportedIn_sub_finishedIn (o : Nat) (h : List Ev) (x : Nat) (hx : x ∈ reportedIn o h) : x ∈ finishedIn h := by
  induction h with
  | nil => cases hx
  | cons e t ih =>
    cases e <;> simp only [reportedIn, finishedIn] at hx ⊢ <;> try exact ih hx
    · rename_i o1 st F req
      simp only [List.mem_append]
      split at hx
      · simp only [List.mem_append] at hx
        rcases hx with hx | hx
        · exact Or.inl hx
        · exact Or.inr (ih hx)
      · exact Or.inr (ih hx)
    · simp only [List.mem_append]; exact Or.inr (ih hx)

theorem reqSteps_sub_fgSteps (h : List Ev) (x : Nat) (hx : x ∈ reqSteps h) : x ∈ fgSteps h := by
  induction h with
  | nil => cases hx
  | cons e t ih =>
    cases e <;> simp only [reqSteps, fgSteps] at hx ⊢ <;> try exact ih hx
    rename_i o1 st F req
    split at hx
    · simp only [List.mem_cons] at hx ⊢
      rcases hx with hx | hx
      · exact Or.inl hx
      · exact Or.inr (ih hx)
    · exact List.mem_cons_of_mem _ (ih hx)

/-! ### induction over runs -/

theorem run_nil (s : LS) : run s [] = (s, [], none) := rfl

theorem run_cons_ok (s : LS) (e : Ev) (es : List Ev) (h : (step s e).2.2 = none) :
    run s (e :: es) = ((run (step s e).1 es).1, (step s e).2.1 ++ (run (step s e).1 es).2.1, (run (step s e).1 es).2.2) := by
  simp only [run, h]

theorem run_cons_err (s : LS) (e : Ev) (es : List Ev) (err : Err) (h : (step s e).2.2 = some err) :
    run s (e :: es) = ((step s e).1, (step s e).2.1, some err) := by
  simp only [run, h]

/-- an invariant of error-free steps (it may talk about the history and the drop log) holds along every error-free run -/
theorem run_inv (Inv : List Ev → LS → List DropRec → Prop)
    (hstep : ∀ h s log e, Inv h s log → (step s e).2.2 = none → Inv (h ++ [e]) (step s e).1 (log ++ (step s e).2.1)) :
    ∀ evs h s log, Inv h s log → (run s evs).2.2 = none → Inv (h ++ evs) (run s evs).1 (log ++ (run s evs).2.1) := by
  intro evs
  induction evs with
  | nil => intro h s log hi _; simpa [run_nil] using hi
  | cons e es ih =>
    intro h s log hi hok
    rcases opt_cases (step s e).2.2 with he | ⟨err, he⟩
    · rw [run_cons_ok s e es he] at hok ⊢
      have := ih (h ++ [e]) (step s e).1 (log ++ (step s e).2.1) (hstep h s log e hi he) hok
      simpa [List.append_assoc] using this
    · rw [run_cons_err s e es err he] at hok; cases hok

/-- every run is an error-free run followed by at most one raising step -/
theorem run_split (s : LS) (evs : List Ev) :
    ((run s evs).2.2 = none) ∨
    (∃ pre e post err, evs = pre ++ e :: post ∧ (run s pre).2.2 = none ∧ (step (run s pre).1 e).2.2 = some err ∧
      (run s evs).1 = (step (run s pre).1 e).1 ∧ (run s evs).2.1 = (run s pre).2.1 ++ (step (run s pre).1 e).2.1 ∧ (run s evs).2.2 = some err) := by
  induction evs generalizing s with
  | nil => left; rfl
  | cons e es ih =>
    rcases opt_cases (step s e).2.2 with he | ⟨err, he⟩
    · rw [run_cons_ok s e es he]
      rcases ih (step s e).1 with h1 | ⟨pre, e', post, err, h1, h2, h3, h4, h5, h6⟩
      · left; exact h1
      · right
        refine ⟨e :: pre, e', post, err, by simp [h1], ?_, ?_, ?_, ?_, h6⟩
        · rw [run_cons_ok s e pre he]; exact h2
        · rw [run_cons_ok s e pre he]; exact h3
        · rw [run_cons_ok s e pre he]; exact h4
        · rw [run_cons_ok s e pre he]; simp only [h5, List.append_assoc]
    · right
      refine ⟨[], e, es, err, rfl, rfl, he, ?_, ?_, ?_⟩
      · rw [run_cons_err s e es err he]; rfl
      · rw [run_cons_err s e es err he]; rfl
      · rw [run_cons_err s e es err he]

end Life

namespace Life
open Store

/-- what the history says about the objects and about `finished_ids` -/
structure WF1 (h : List Ev) (s : LS) : Prop where
  trackerSub : ∀ o ob, dget s.objs o = some ob → ∀ x ∈ ob.cfw.tracker, x ∈ reportedIn o h
  finishedIff : ∀ x, x ∈ s.finished ↔ x ∈ finishedIn h
  childrenReg : ∀ o ob, dget s.objs o = some ob → Ev.register o ob.cfw.children ∈ h
  keyOwn : ∀ o ob k, dget s.objs o = some ob → ob.cfw.dataKey = some k → k = o
  noObjNoReport : ∀ o, dget s.objs o = none → reportedIn o h = []
  inproc : ∀ o, (∀ e ∈ h, e ≠ Ev.spawn o) → ∀ ob, dget s.objs o = some ob → ob.queue = none ∧ ∀ x ∈ reportedIn o h, x ∈ ob.cfw.tracker

theorem WF1.atInit (loc : Bool) (store : List Nat) : WF1 [] (Life.init loc store) := by
  refine ⟨?_, ?_, ?_, ?_, ?_, ?_⟩
  · intro o ob h; simp [Life.init, dget] at h
  · intro x; simp [Life.init, finishedIn]
  · intro o ob h; simp [Life.init, dget] at h
  · intro o ob k h; simp [Life.init, dget] at h
  · intro o _; rfl
  · intro o _ ob h; simp [Life.init, dget] at h

/-- a feature-group step that was processed without raising found its object -/
theorem fgDone_ok_obj (s : LS) (o st : Nat) (F : List Nat) (req : Bool) (hok : (step s (.fgDone o st F req)).2.2 = none) :
    ∃ ob, dget s.objs o = some ob := by
  rcases fgDone_cases s o st F req with ⟨_, hs⟩ | ⟨ob1, err, _, hs⟩ | ⟨ob1, hg, _, _⟩
  · have hs' : step s (.fgDone o st F req) = (s, [], some .noObject) := hs
    rw [hs'] at hok; cases hok
  · have hs' : step s (.fgDone o st F req) = (s, [], some err) := hs
    rw [hs'] at hok; cases hok
  · exact ⟨ob1, hg⟩

theorem reportedIn_single_ne (o : Nat) (e : Ev) (h : reportedIn o [e] ≠ []) : ∃ st F req, e = .fgDone o st F req := by
  cases e <;> simp only [reportedIn] at h <;> try exact absurd rfl h
  rename_i o1 st F req
  by_cases ho : o1 = o
  · subst ho; exact ⟨st, F, req, rfl⟩
  · simp [ho] at h

theorem WF1.next {h : List Ev} {s : LS} (e : Ev) (w : WF1 h s) (hok : (step s e).2.2 = none) : WF1 (h ++ [e]) (step s e).1 := by
  refine ⟨?_, ?_, ?_, ?_, ?_, ?_⟩
  · intro o ob' hget x hx
    rw [reportedIn_append, List.mem_append]
    rcases step_obj s e o ob' hget with ⟨ob, hob, hrel⟩ | ⟨_, ch, _, hfresh⟩
    · rcases hrel.trackerFrom x hx with h1 | h1
      · exact Or.inl (w.trackerSub o ob hob x h1)
      · exact Or.inr h1
    · subst hfresh; cases hx
  · intro x
    rw [step_finished s e x hok, finishedIn_append, List.mem_append, w.finishedIff]
  · intro o ob' hget
    rw [List.mem_append]
    rcases step_obj s e o ob' hget with ⟨ob, hob, hrel⟩ | ⟨_, ch, he, hfresh⟩
    · rw [hrel.children]; exact Or.inl (w.childrenReg o ob hob)
    · subst hfresh; subst he; right; simp
  · intro o ob' k hget hk
    rcases step_obj s e o ob' hget with ⟨ob, hob, hrel⟩ | ⟨_, ch, _, hfresh⟩
    · rcases hrel.key with h1 | h1 | h1
      · rw [h1] at hk; exact w.keyOwn o ob k hob hk
      · rw [h1] at hk; cases hk
      · rw [h1] at hk; cases hk; rfl
    · subst hfresh; cases hk
  · intro o hnone
    have hold : dget s.objs o = none := by
      rcases opt_cases (dget s.objs o) with hn | ⟨ob, hs⟩
      · exact hn
      · obtain ⟨ob', hp⟩ := step_obj_persist s e o ob hs
        rw [hnone] at hp; cases hp
    rw [reportedIn_append, w.noObjNoReport o hold, List.nil_append]
    rcases Classical.em (reportedIn o [e] = []) with h1 | h1
    · exact h1
    · obtain ⟨st, F, req, he⟩ := reportedIn_single_ne o e h1
      subst he
      obtain ⟨ob, hob⟩ := fgDone_ok_obj s o st F req hok
      rw [hold] at hob; cases hob
  · intro o hns ob' hget
    have hns' : ∀ e' ∈ h, e' ≠ Ev.spawn o := fun e' he' => hns e' (List.mem_append_left _ he')
    have hne : e ≠ Ev.spawn o := hns e (by simp)
    rcases step_obj s e o ob' hget with ⟨ob, hob, hrel⟩ | ⟨hold, ch, he, hfresh⟩
    · obtain ⟨hq, hrep⟩ := w.inproc o hns' ob hob
      refine ⟨hrel.queueNone hq hne, ?_⟩
      intro x hx
      rw [reportedIn_append, List.mem_append] at hx
      rcases hx with hx | hx
      · exact hrel.trackerMono x (hrep x hx)
      · exact hrel.reportedAll hok hq x hx
    · subst hfresh; subst he
      refine ⟨rfl, ?_⟩
      intro x hx
      rw [reportedIn_append, w.noObjNoReport o hold] at hx
      simp [reportedIn] at hx

theorem WF1.ofRun (loc : Bool) (store : List Nat) (evs : List Ev) (hok : (Life.run (Life.init loc store) evs).2.2 = none) :
    WF1 evs (Life.run (Life.init loc store) evs).1 := by
  have := run_inv (fun h s _ => WF1 h s) (fun h s _ e w hk => WF1.next e w hk) evs [] (Life.init loc store) [] (WF1.atInit loc store) hok
  simpa using this

end Life

namespace Life
open Store

theorem obj_children_next (s : LS) (e : Ev) (o : Nat) (ob : Obj) (h : dget s.objs o = some ob) :
    ∃ ob', dget (step s e).1.objs o = some ob' ∧ ob'.cfw.children = ob.cfw.children := by
  obtain ⟨ob', hp⟩ := step_obj_persist s e o ob h
  refine ⟨ob', hp, ?_⟩
  rcases step_obj s e o ob' hp with ⟨ob0, hob0, hrel⟩ | ⟨hnone, _⟩
  · rw [h] at hob0; cases hob0; exact hrel.children
  · rw [h] at hnone; cases hnone

/-- what the history says about `track_data_to_drop` -/
structure WF2 (h : List Ev) (s : LS) : Prop where
  trackNodup : (dkeys s.track).Nodup
  trackKeys : (∀ e ∈ h, orchEv e = true) → ∀ k ∈ dkeys s.track, k ∈ dkeys s.objs
  trackIds : (∀ e ∈ h, orchEv e = true) → ∀ o, (∀ e ∈ h, e ≠ Ev.spawn o) → ∀ ids, dget s.track o = some ids →
    ∃ ob, dget s.objs o = some ob ∧ ids = ob.cfw.children

theorem WF2.atInit (loc : Bool) (store : List Nat) : WF2 [] (Life.init loc store) := by
  refine ⟨by simp [Life.init, dkeys], ?_, ?_⟩
  · intro _ k hk; simp [Life.init, dkeys] at hk
  · intro _ o _ ids h; simp [Life.init, dget] at h

theorem WF2.next {h : List Ev} {s : LS} (e : Ev) (w1 : WF1 h s) (w : WF2 h s) : WF2 (h ++ [e]) (step s e).1 := by
  refine ⟨step_track_nodup s e w.trackNodup, ?_, ?_⟩
  · intro horch k hk
    have horch' : ∀ e' ∈ h, orchEv e' = true := fun e' he' => horch e' (List.mem_append_left _ he')
    rcases step_track_keys s e k hk with h1 | ⟨ids, he⟩ | ⟨st, F, req, _, hko⟩
    · exact step_objs_keys_mono s e k (w.trackKeys horch' k h1)
    · have := horch e (by simp); rw [he] at this; simp [orchEv] at this
    · exact step_objs_keys_mono s e k hko
  · intro horch o hns ids hget
    have horch' : ∀ e' ∈ h, orchEv e' = true := fun e' he' => horch e' (List.mem_append_left _ he')
    have hns' : ∀ e' ∈ h, e' ≠ Ev.spawn o := fun e' he' => hns e' (List.mem_append_left _ he')
    rcases step_track_get s e o ids hget with h1 | he | ⟨st, F, req, ob, _, hob, hcase⟩
    · obtain ⟨ob, hob, hids⟩ := w.trackIds horch' o hns' ids h1
      obtain ⟨ob', hp, hc⟩ := obj_children_next s e o ob hob
      exact ⟨ob', hp, by rw [hids, hc]⟩
    · have := horch e (by simp); rw [he] at this; simp [orchEv] at this
    · rcases hcase with ⟨_, hids, _⟩ | ⟨hq, _⟩
      · obtain ⟨ob', hp, hc⟩ := obj_children_next s e o ob hob
        exact ⟨ob', hp, by rw [hids, hc]⟩
      · exact absurd (w1.inproc o hns' ob hob).1 hq

/-- both bundles along an error-free run -/
theorem WF12.ofRun (loc : Bool) (store : List Nat) (evs : List Ev) (hok : (Life.run (Life.init loc store) evs).2.2 = none) :
    WF1 evs (Life.run (Life.init loc store) evs).1 ∧ WF2 evs (Life.run (Life.init loc store) evs).1 := by
  have := run_inv (fun h s _ => WF1 h s ∧ WF2 h s) (fun h s _ e w hk => ⟨WF1.next e w.1 hk, WF2.next e w.1 w.2⟩) evs []
    (Life.init loc store) [] ⟨WF1.atInit loc store, WF2.atInit loc store⟩ hok
  simpa using this

/-! ### the result collection -/

structure WF3 (h : List Ev) (s : LS) : Prop where
  resultsNodup : (dkeys s.results).Nodup
  resultsFrom : ∀ k, k ∈ dkeys s.results ∨ k ∈ dkeys s.yielded → k ∈ reqSteps h
  permResults : (fgSteps h).Nodup → List.Perm (dkeys s.yielded ++ dkeys s.results) (reqSteps h)
  noPop : (∀ e ∈ h, e ≠ Ev.pop) → (fgSteps h).Nodup → dkeys s.results = reqSteps h ∧ s.yielded = []

theorem WF3.atInit (loc : Bool) (store : List Nat) : WF3 [] (Life.init loc store) := by
  refine ⟨by simp [Life.init, dkeys], ?_, ?_, ?_⟩
  · intro k hk; simp [Life.init, dkeys] at hk
  · intro _; simp [Life.init, dkeys, reqSteps]
  · intro _ _; simp [Life.init, dkeys, reqSteps]

theorem WF3.next {h : List Ev} {s : LS} (e : Ev) (w : WF3 h s) (hok : (step s e).2.2 = none) : WF3 (h ++ [e]) (step s e).1 := by
  rcases step_results_eq s e with ⟨hr, hy, hreq⟩ | ⟨o, st, F, he, _, hr, hy⟩ | ⟨p, he, hr, hy⟩
  · have hreq' := hreq hok
    refine ⟨by rw [hr]; exact w.resultsNodup, ?_, ?_, ?_⟩
    · intro k hk; rw [hr, hy] at hk; rw [reqSteps_append, hreq', List.append_nil]; exact w.resultsFrom k hk
    · intro hn
      rw [hr, hy, reqSteps_append, hreq', List.append_nil]
      apply w.permResults
      rw [fgSteps_append] at hn
      exact (List.nodup_append.mp hn).1
    · intro hnp hn
      rw [hr, hy, reqSteps_append, hreq', List.append_nil]
      apply w.noPop (fun e' he' => hnp e' (List.mem_append_left _ he'))
      rw [fgSteps_append] at hn
      exact (List.nodup_append.mp hn).1
  · subst he
    have hreq : reqSteps [Ev.fgDone o st F true] = [st] := by simp [reqSteps]
    have hfg : fgSteps [Ev.fgDone o st F true] = [st] := by simp [fgSteps]
    refine ⟨by rw [hr]; exact nodup_dkeys_dset _ _ w.resultsNodup, ?_, ?_, ?_⟩
    · intro k hk
      rw [reqSteps_append, hreq, List.mem_append]
      rw [hr, hy, mem_dkeys_dset] at hk
      rcases hk with (hk | hk) | hk
      · exact Or.inl (w.resultsFrom k (Or.inl hk))
      · right; simp [hk]
      · exact Or.inl (w.resultsFrom k (Or.inr hk))
    · intro hn
      rw [fgSteps_append, hfg] at hn
      have hn' := List.nodup_append.mp hn
      have hst : st ∉ dkeys s.results := by
        intro hin
        have h1 := reqSteps_sub_fgSteps h st (w.resultsFrom st (Or.inl hin))
        exact hn'.2.2 st h1 st (by simp) rfl
      rw [hr, hy, dkeys_dset, if_neg hst, reqSteps_append, hreq, ← List.append_assoc]
      exact List.Perm.append_right _ (w.permResults hn'.1)
    · intro hnp hn
      rw [fgSteps_append, hfg] at hn
      have hn' := List.nodup_append.mp hn
      obtain ⟨h1, h2⟩ := w.noPop (fun e' he' => hnp e' (List.mem_append_left _ he')) hn'.1
      have hst : st ∉ dkeys s.results := by
        intro hin
        have h3 := reqSteps_sub_fgSteps h st (w.resultsFrom st (Or.inl hin))
        exact hn'.2.2 st h3 st (by simp) rfl
      rw [hr, hy, dkeys_dset, if_neg hst, reqSteps_append, hreq, h1]
      exact ⟨rfl, h2⟩
  · subst he
    have hreq : reqSteps [Ev.pop] = [] := by simp [reqSteps]
    have hk1 : dkeys s.results = dkeys (step s .pop).1.results ++ [p.1] := by rw [hr]; simp [dkeys]
    refine ⟨?_, ?_, ?_, ?_⟩
    · have := w.resultsNodup
      rw [hk1] at this
      exact (List.nodup_append.mp this).1
    · intro k hk
      rw [reqSteps_append, hreq, List.append_nil]
      apply w.resultsFrom
      rw [hk1]
      rw [hy] at hk
      simp only [dkeys, List.map_append, List.mem_append, List.map_cons, List.map_nil, List.mem_singleton] at hk ⊢
      rcases hk with hk | hk | hk
      · exact Or.inl (Or.inl hk)
      · exact Or.inr hk
      · exact Or.inl (Or.inr hk)
    · intro hn
      rw [fgSteps_append] at hn
      have := w.permResults (List.nodup_append.mp hn).1
      rw [reqSteps_append, hreq, List.append_nil]
      rw [hk1] at this
      rw [hy]
      simp only [dkeys, List.map_append, List.map_cons, List.map_nil] at this ⊢
      refine List.Perm.trans ?_ this
      rw [List.append_assoc]
      exact List.Perm.append_left _ List.perm_append_comm
    · intro hnp _; exact absurd rfl (hnp .pop (by simp))

theorem WF3.ofRun (loc : Bool) (store : List Nat) (evs : List Ev) (hok : (Life.run (Life.init loc store) evs).2.2 = none) :
    WF3 evs (Life.run (Life.init loc store) evs).1 := by
  have := run_inv (fun h s _ => WF3 h s) (fun h s _ e w hk => WF3.next e w hk) evs [] (Life.init loc store) [] (WF3.atInit loc store) hok
  simpa using this

end Life

namespace Life
open Store

theorem run_append_ok (s : LS) (a b : List Ev) (h : (run s a).2.2 = none) :
    run s (a ++ b) = ((run (run s a).1 b).1, (run s a).2.1 ++ (run (run s a).1 b).2.1, (run (run s a).1 b).2.2) := by
  induction a generalizing s with
  | nil => simp [run_nil]
  | cons e es ih =>
    rcases opt_cases (step s e).2.2 with he | ⟨err, he⟩
    · rw [run_cons_ok s e es he] at h
      rw [List.cons_append, run_cons_ok s e (es ++ b) he, run_cons_ok s e es he]
      rw [ih (step s e).1 h]
      simp [List.append_assoc]
    · rw [run_cons_err s e es err he] at h; cases h

theorem run_prefix_ok (s : LS) (a b : List Ev) (h : (run s (a ++ b)).2.2 = none) : (run s a).2.2 = none := by
  induction a generalizing s with
  | nil => rfl
  | cons e es ih =>
    rcases opt_cases (step s e).2.2 with he | ⟨err, he⟩
    · rw [List.cons_append, run_cons_ok s e (es ++ b) he] at h
      rw [run_cons_ok s e es he]
      exact ih (step s e).1 h
    · rw [List.cons_append, run_cons_err s e (es ++ b) err he] at h; cases h

theorem run_single (s : LS) (e : Ev) : run s [e] = step s e := by
  rcases opt_cases (step s e).2.2 with he | ⟨err, he⟩
  · rw [run_cons_ok s e [] he, run_nil]
    simp only [List.append_nil]
    rw [← he]
  · rw [run_cons_err s e [] err he, ← he]

theorem run_snoc_ok (s : LS) (a : List Ev) (e : Ev) (h : (run s a).2.2 = none) :
    run s (a ++ [e]) = ((step (run s a).1 e).1, (run s a).2.1 ++ (step (run s a).1 e).2.1, (step (run s a).1 e).2.2) := by
  rw [run_append_ok s a [e] h, run_single]

end Life
