import MlodaVerif.Lemmas.LinkGenOrderAux
import MlodaVerif.Lemmas.LinkOrderRel
/-! # Bridge, group B (the order relation), part 2: `adjust_order`, `drop_dependency_in_case_of_circular_dependencies`,
`order_links_by_frameworks` of the translation (`Gen/LinkOrderGen.lean`) against `LinkOrder.adjustOrder` / `dropCircular` /
`orderLinksByFrameworks`

The Python side mutates set OBJECTS of the heap through the handles `order` holds; the model rewrites the values of the `order`
association list.  The two agree because (representation invariant `WF`) the handles of `order` are pairwise different and different
from every handle of `data` / `data_ordered`:

* `Frame s h h'`: `h'` has the length of `h`, agrees with it outside the handles of `s.order`, and its sets are duplicate-free -
  what every function here guarantees about the heap it returns;
* `Sim`: result of the translation vs result of the model (`ok`: the abstraction of the new heap is the model's `order` and `Frame`;
  `error`: the same exception), the invariant of the two nested loops of `drop_dependency…`.

Helper definitions / lemmas live in `LinkGen.Ord`, the main theorems in `LinkGen`. -/
namespace LinkGen.Ord
open LinkOrder PyRt Gen.LinkOrderGen

/-! ### the heap -/

theorem get_set_ne (h : SHeap) (r r' : Nat) (x : PSet) (hne : r' ≠ r) : SHeap.get (h.set r x) r' = SHeap.get h r' := by
  simp [SHeap.get, List.getD_eq_getElem?_getD, Ne.symm hne]

theorem get_set_eq (h : SHeap) (r : Nat) (x : PSet) (hr : r < h.length) : SHeap.get (h.set r x) r = x := by
  simp [SHeap.get, List.getD_eq_getElem?_getD, hr]

theorem get_of_le (h : SHeap) (r : Nat) (hr : h.length ≤ r) : SHeap.get h r = [] := by
  simp [SHeap.get, List.getD_eq_getElem?_getD, List.getElem?_eq_none hr]

theorem get_append_lt (h : SHeap) (x : PSet) (r : Nat) (hr : r < h.length) : SHeap.get (h ++ [x]) r = SHeap.get h r := by
  simp [SHeap.get, List.getD_eq_getElem?_getD, List.getElem?_append_left hr]

theorem get_append_new (h : SHeap) (x : PSet) : SHeap.get (h ++ [x]) h.length = x := by
  simp [SHeap.get, List.getD_eq_getElem?_getD]

theorem get_append_nodup (h : SHeap) (x : PSet) (hx : x.Nodup) (hn : ∀ r, (SHeap.get h r).Nodup) (r : Nat) :
    (SHeap.get (h ++ [x]) r).Nodup := by
  by_cases h1 : r < h.length
  · rw [get_append_lt h x r h1]; exact hn r
  · by_cases h2 : r = h.length
    · rw [h2, get_append_new]; exact hx
    · rw [get_of_le _ r (by simp; omega)]; exact List.nodup_nil

/-- `v.remove(drop)` when `drop in v` (the only use of `remove` in `adjust_order`), nothing otherwise -/
def rmAt (h : SHeap) (v drop : Nat) : SHeap := if drop ∈ SHeap.get h v then h.set v (srem (SHeap.get h v) drop) else h

theorem srem_of_not_mem {l : List Nat} {x : Nat} (hx : x ∉ l) : srem l x = l := by
  unfold srem
  apply List.filter_eq_self.mpr
  intro a ha
  simp only [ne_eq, decide_eq_true_eq]
  intro e; exact hx (e ▸ ha)

theorem get_rmAt (h : SHeap) (v drop r : Nat) :
    SHeap.get (rmAt h v drop) r = if r = v then srem (SHeap.get h v) drop else SHeap.get h r := by
  unfold rmAt
  by_cases hd : drop ∈ SHeap.get h v
  · have hv : v < h.length := by
      apply Classical.byContradiction; intro hv
      rw [get_of_le h v (by omega)] at hd; cases hd
    rw [if_pos hd]
    by_cases hr : r = v
    · rw [if_pos hr, hr, get_set_eq h v _ hv]
    · rw [if_neg hr, get_set_ne h v r _ hr]
  · rw [if_neg hd]
    by_cases hr : r = v
    · rw [if_pos hr, hr, srem_of_not_mem hd]
    · rw [if_neg hr]

theorem length_rmAt (h : SHeap) (v drop : Nat) : (rmAt h v drop).length = h.length := by
  unfold rmAt; split
  · exact List.length_set
  · rfl

theorem nodup_srem {l : List Nat} (x : Nat) (hl : l.Nodup) : (srem l x).Nodup := hl.sublist List.filter_sublist

/-! ### the frame -/

/-- what the functions of this file guarantee about the heap they return: same length, unchanged outside the handles of
`s.order`, duplicate-free sets -/
structure Frame (s : Trk.TrekkerSelf) (h h' : SHeap) : Prop where
  len : h'.length = h.length
  same : ∀ r, r ∉ s.order.map (·.2) → SHeap.get h' r = SHeap.get h r
  nodup : ∀ r, (SHeap.get h' r).Nodup

theorem Frame.refl {s : Trk.TrekkerSelf} {h : SHeap} (hn : ∀ r, (SHeap.get h r).Nodup) : Frame s h h :=
  ⟨rfl, fun _ _ => rfl, hn⟩

theorem Frame.trans {s : Trk.TrekkerSelf} {h h1 h2 : SHeap} (a : Frame s h h1) (b : Frame s h1 h2) : Frame s h h2 :=
  ⟨b.len.trans a.len, fun r hr => (b.same r hr).trans (a.same r hr), b.nodup⟩

theorem absData_congr (d : KDict PKey Nat) (h h' : SHeap) (he : ∀ e ∈ d, SHeap.get h' e.2 = SHeap.get h e.2) :
    absData d h' = absData d h := by
  unfold absData
  apply List.map_congr_left
  intro e hm; rw [he e hm]

theorem absDord_congr (data d : KDict PKey Nat) (h h' : SHeap) (he : ∀ e ∈ d, SHeap.get h' e.2 = SHeap.get h e.2) :
    absDord data d h' = absDord data d h := by
  unfold absDord
  apply List.map_congr_left
  intro e hm; rw [he e hm]

theorem absOrder_congr (o : KDict Nat Nat) (h h' : SHeap) (he : ∀ e ∈ o, SHeap.get h' e.2 = SHeap.get h e.2) :
    absOrder o h' = absOrder o h := by
  unfold absOrder
  apply List.map_congr_left
  intro e hm; rw [he e hm]

theorem data_ref_not_order {L : Links} {s : Trk.TrekkerSelf} {h : SHeap} (hwf : WF L s h) {e : PKey × Nat} (he : e ∈ s.data) :
    e.2 ∉ s.order.map (·.2) := by
  intro hm
  exact (List.nodup_append.mp hwf.refsDO).2.2 e.2 (List.mem_map.mpr ⟨e, he, rfl⟩) e.2 hm rfl

/-- a frame step keeps the representation invariant and the abstraction of `data` / `data_ordered` -/
theorem wf_frame {L : Links} {s : Trk.TrekkerSelf} {h h' : SHeap} (hwf : WF L s h) (hf : Frame s h h') :
    WF L s h' ∧ absData s.data h' = absData s.data h ∧ absDord s.data s.data_ordered h' = absDord s.data s.data_ordered h := by
  refine ⟨?_, ?_, ?_⟩
  · exact { canonD := hwf.canonD, canonDO := hwf.canonDO, keysD := hwf.keysD, keysDO := hwf.keysDO, keysO := hwf.keysO,
            refsDO := hwf.refsDO, refsDord := hwf.refsDord, share := hwf.share, disjO := hwf.disjO,
            allocD := fun e he => hf.len ▸ hwf.allocD e he, allocDO := fun e he => hf.len ▸ hwf.allocDO e he,
            allocO := fun e he => hf.len ▸ hwf.allocO e he, setsNodup := hf.nodup }
  · exact absData_congr _ _ _ (fun e he => hf.same e.2 (data_ref_not_order hwf he))
  · exact absDord_congr _ _ _ _ (fun e he => hf.same e.2 (hwf.disjO e he))

theorem frame_rmAt {s : Trk.TrekkerSelf} {h : SHeap} (hn : ∀ r, (SHeap.get h r).Nodup) (v drop : Nat)
    (hv : v ∈ s.order.map (·.2)) : Frame s h (rmAt h v drop) := by
  refine ⟨length_rmAt h v drop, ?_, ?_⟩
  · intro r hr
    rw [get_rmAt, if_neg (fun e : r = v => hr (e ▸ hv))]
  · intro r
    rw [get_rmAt]
    split
    · exact nodup_srem _ (hn v)
    · exact hn r

theorem frame_add {s : Trk.TrekkerSelf} {h : SHeap} (hn : ∀ r, (SHeap.get h r).Nodup) (v x : Nat)
    (hv : v ∈ s.order.map (·.2)) : Frame s h (SHeap.add h v x) := by
  unfold SHeap.add
  refine ⟨List.length_set, ?_, ?_⟩
  · intro r hr
    exact get_set_ne h v r _ (fun e => hr (e ▸ hv))
  · intro r
    by_cases hr : r = v
    · by_cases hv' : v < h.length
      · rw [hr, get_set_eq h v _ hv', add_eq]; exact nodup_sadd (hn v)
      · rw [get_of_le _ r (by rw [List.length_set]; omega)]; exact List.nodup_nil
    · rw [get_set_ne h v r _ hr]; exact hn r

/-! ### a generic loop lemma -/

/-- the body of a loop may be replaced pointwise -/
theorem forIn_congr_body {α σ ε : Type} (l : List α) (init : σ) (f g : α → σ → Except ε (ForInStep σ))
    (hfg : ∀ x st, f x st = g x st) : forIn l init f = forIn l init g := by
  have : f = g := funext fun x => funext (hfg x)
  rw [this]

/-! ### `adjust_order` -/

/-- the handle `adjust_order`'s search loop ends with: of the LAST key of `data` whose link has the uuid -/
def lastRef : KDict PKey Nat → Nat → Option Nat
  | [], _ => none
  | e :: r, k => match lastRef r k with
    | some v => some v
    | none => if (e.1.1.uuid == k) = true then some e.2 else none

theorem lastDeps_absData (data : KDict PKey Nat) (h : SHeap) (k : Nat) :
    lastDeps (absData data h) k = (lastRef data k).map (SHeap.get h) := by
  induction data with
  | nil => rfl
  | cons e r ih =>
    simp only [absData, List.map_cons, lastDeps, lastRef] at ih ⊢
    rw [ih]
    cases lastRef r k with
    | some v => rfl
    | none =>
      simp only [Option.map, absK]
      by_cases hk : e.1.1.uuid = k <;> simp [hk]

/-- one round of the search loop -/
def searchStep (a b c : Nat) (x : PKey × Nat) (st : Option (Nat × Nat) × Option (Nat × Nat)) :
    Option (Nat × Nat) × Option (Nat × Nat) :=
  (if (x.1.1.uuid == a) = true then some (a, x.2) else st.1, if (x.1.1.uuid == b) = true then some (c, x.2) else st.2)

theorem search_fold (a b c : Nat) (data : KDict PKey Nat) (st : Option (Nat × Nat) × Option (Nat × Nat)) :
    data.foldl (fun st x => searchStep a b c x st) st =
      (match lastRef data a with | some r => some (a, r) | none => st.1,
       match lastRef data b with | some r => some (c, r) | none => st.2) := by
  induction data generalizing st with
  | nil => rfl
  | cons e r ih =>
    rw [List.foldl_cons, ih]
    simp only [lastRef, searchStep]
    cases lastRef r a <;> cases lastRef r b <;>
      cases ha : (e.1.1.uuid == a) <;> cases hb : (e.1.1.uuid == b) <;> simp

/-- the last loop of `adjust_order` on a dict with pairwise different keys -/
def rmBody (keep drop : Nat) (x : Nat × Nat) (hs : SHeap) : Except PyExc (ForInStep SHeap) :=
  if x.1 = keep then
    if drop ∈ SHeap.get hs x.2 then .ok (.done (hs.set x.2 (srem (SHeap.get hs x.2) drop))) else .ok (.yield hs)
  else .ok (.yield hs)

theorem rm_loop_absent (keep drop : Nat) (l : KDict Nat Nat) (hs : SHeap) (hk : keep ∉ dkeys l) :
    forIn l hs (rmBody keep drop) = .ok hs := by
  induction l with
  | nil => rfl
  | cons e r ih =>
    simp only [dkeys_cons, List.mem_cons, not_or] at hk
    rw [List.forIn_cons]
    unfold rmBody
    rw [if_neg (fun e' => hk.1 e'.symm)]
    simp only [bind, Except.bind]
    exact ih hk.2

theorem rm_loop (keep drop : Nat) (l : KDict Nat Nat) (hs : SHeap) (hk : (dkeys l).Nodup) :
    forIn l hs (rmBody keep drop) = .ok (match dget l keep with | some v => rmAt hs v drop | none => hs) := by
  induction l with
  | nil => rfl
  | cons e r ih =>
    simp only [dkeys_cons, List.nodup_cons] at hk
    rw [List.forIn_cons]
    simp only [dget]
    by_cases he : e.1 = keep
    · rw [if_pos he]
      simp only [rmBody, if_pos he, rmAt]
      by_cases hd : drop ∈ SHeap.get hs e.2
      · simp only [if_pos hd, bind, Except.bind, pure, Except.pure]
      · simp only [if_neg hd, bind, Except.bind]
        exact rm_loop_absent keep drop r hs (he ▸ hk.1)
    · rw [if_neg he]
      simp only [rmBody, if_neg he, bind, Except.bind]
      exact ih hk.2

/-- `adjust_order` with its loops evaluated (on a `self.order` with pairwise different keys) -/
def adjustPy (s : Trk.TrekkerSelf) (data : KDict PKey Nat) (kOut kInt kIn : Nat) (h : SHeap) : Except PyExc SHeap :=
  match lastRef data kOut, lastRef data kInt with
  | some ro, some ri =>
    let drop := if SHeap.len h ro ≥ SHeap.len h ri then kOut else kIn
    let keep := if SHeap.len h ro ≥ SHeap.len h ri then kIn else kOut
    .ok (match dget s.order keep with | some v => rmAt h v drop | none => h)
  | _, _ => .error (.valueError "Link not found in data!")

theorem rm_body_eq (keep drop : Nat) (l : KDict Nat Nat) (h : SHeap) (f : Nat × Nat → SHeap → Except PyExc (ForInStep SHeap))
    (h1 : ∀ x hs, x.1 ≠ keep → f x hs = .ok (.yield hs))
    (h2 : ∀ x hs, x.1 = keep → drop ∈ SHeap.get hs x.2 → f x hs = .ok (.done (hs.set x.2 (srem (SHeap.get hs x.2) drop))))
    (h3 : ∀ x hs, x.1 = keep → drop ∉ SHeap.get hs x.2 → f x hs = .ok (.yield hs)) :
    forIn l h f = forIn l h (rmBody keep drop) := by
  apply forIn_congr_body
  intro x hs
  unfold rmBody
  by_cases hk : x.1 = keep
  · rw [if_pos hk]
    by_cases hd : drop ∈ SHeap.get hs x.2
    · rw [if_pos hd]; exact h2 x hs hk hd
    · rw [if_neg hd]; exact h3 x hs hk hd
  · rw [if_neg hk]; exact h1 x hs hk

theorem adjust_unfold (s : Trk.TrekkerSelf) (data : KDict PKey Nat) (kOut kInt kIn : Nat) (h : SHeap) (hk : (dkeys s.order).Nodup) :
    Trk.adjust_order s data kOut kInt kIn h = adjustPy s data kOut kInt kIn h := by
  unfold Trk.adjust_order
  simp only [bind, Except.bind, pure, Except.pure]
  rw [PyRt.forIn_yield_spec data _ (fun x st => searchStep kOut kInt kIn x st) ?hb]
  case hb =>
    intro x st
    unfold searchStep
    split <;> split <;> rfl
  simp only
  rw [search_fold]
  unfold adjustPy
  cases hro : lastRef data kOut with
  | none => cases lastRef data kInt <;> rfl
  | some ro =>
    cases hri : lastRef data kInt with
    | none => rfl
    | some ri =>
      simp only [Option.isNone, Bool.or_false, Bool.false_eq_true, if_false, Opt.derefSub]
      have hloop : ∀ keep drop : Nat,
          (forIn s.order h fun x __s =>
            if (!keep == x.fst) = true then (Except.ok (ForInStep.yield __s) : Except PyExc _)
            else
              if __s.has x.snd drop = true then
                (__s.remove x.snd drop).bind (fun v => Except.ok (ForInStep.done v))
              else Except.ok (ForInStep.yield __s)) = .ok (match dget s.order keep with | some v => rmAt h v drop | none => h) := by
        intro keep drop
        refine Eq.trans ?_ (rm_loop keep drop s.order h hk)
        apply rm_body_eq
        · intro x hs hne
          have : (!keep == x.1) = true := by simp [Ne.symm hne]
          rw [if_pos this]
        · intro x hs he hd
          have : ¬ (!keep == x.1) = true := by simp [he]
          rw [if_neg this]
          have : hs.has x.2 drop = true := by simp [SHeap.has, PSet.has, hd]
          rw [if_pos this]
          simp only [SHeap.remove, if_pos hd]
          rfl
        · intro x hs he hd
          have : ¬ (!keep == x.1) = true := by simp [he]
          rw [if_neg this]
          have : ¬ hs.has x.2 drop = true := by simp [SHeap.has, PSet.has, hd]
          rw [if_neg this]
      simp only [Except.bind] at hloop
      by_cases hge : h.len ro ≥ h.len ri
      · rw [if_pos (decide_eq_true hge), if_pos hge, if_pos hge, hloop]
      · have hlt : h.len ro < h.len ri := by omega
        rw [if_neg (by simpa using hge), if_pos (decide_eq_true hlt), if_neg hge, if_neg hge, hloop]

/-! ### result of the translation vs result of the model -/

/-- `ok`: the abstraction of the new heap is the model's `order`, and the frame; `error`: the same exception -/
def Sim (s : Trk.TrekkerSelf) (h : SHeap) (x : Except PyExc SHeap) (y : Except String Order) : Prop :=
  match x, y with
  | .ok h', .ok o' => absOrder s.order h' = o' ∧ Frame s h h'
  | .error e, .error m => e = toExc m
  | _, _ => False

theorem Sim.bridge {s : Trk.TrekkerSelf} {h : SHeap} {x : Except PyExc SHeap} {y : Except String Order} (hs : Sim s h x y) :
    mapV x (fun h' => absOrder s.order h') = liftM y := by
  cases x <;> cases y <;> simp only [Sim] at hs
  · rw [hs]; rfl
  · simp only [mapV_ok, liftM_ok, hs.1]

theorem Sim.frame {s : Trk.TrekkerSelf} {h h' : SHeap} {x : Except PyExc SHeap} {y : Except String Order} (hs : Sim s h x y)
    (hx : x = .ok h') : Frame s h h' := by
  subst hx
  cases y <;> simp only [Sim] at hs
  exact hs.2

theorem Sim.weaken {s : Trk.TrekkerSelf} {h h1 : SHeap} {x : Except PyExc SHeap} {y : Except String Order}
    (hf : Frame s h h1) (hs : Sim s h1 x y) : Sim s h x y := by
  cases x <;> cases y <;> simp only [Sim] at hs ⊢
  · exact hs
  · exact ⟨hs.1, hf.trans hs.2⟩

/-- two entries of a dict with pairwise different values that have the same value are the same entry -/
theorem eq_of_val_eq {κ α : Type} {o : List (κ × α)} (ho : (o.map (·.2)).Nodup) {a b : κ × α} (ha : a ∈ o) (hb : b ∈ o)
    (hab : a.2 = b.2) : a = b := by
  induction o with
  | nil => cases ha
  | cons x t ih =>
    simp only [List.map_cons, List.nodup_cons, List.mem_map, not_exists, not_and] at ho
    rcases List.mem_cons.mp ha with ha | ha
    · rcases List.mem_cons.mp hb with hb | hb
      · rw [ha, hb]
      · rw [ha] at hab; exact absurd hab.symm (ho.1 b hb)
    · rcases List.mem_cons.mp hb with hb | hb
      · rw [hb] at hab; exact absurd hab (ho.1 a ha)
      · exact ih ho.2 ha hb

theorem dmodify_absent {κ α : Type} [DecidableEq κ] (d : List (κ × α)) (k : κ) (f : α → α) (hk : k ∉ dkeys d) : dmodify d k f = d := by
  unfold dmodify
  conv => rhs; rw [← List.map_id d]
  apply List.map_congr_left
  intro e he
  have : e.1 ≠ k := fun e' => hk (e' ▸ mem_dkeys_of_mem he)
  simp [this]

/-- removing through the handle `order` holds under `keep` is the model's `dmodify` -/
theorem absOrder_rm (o : KDict Nat Nat) (h : SHeap) (keep drop : Nat) (hk : (dkeys o).Nodup) (hr : (o.map (·.2)).Nodup) :
    absOrder o (match dget o keep with | some v => rmAt h v drop | none => h) = dmodify (absOrder o h) keep (srem · drop) := by
  cases hg : dget o keep with
  | none =>
    simp only
    rw [dmodify_absent]
    rw [absOrder_eq, dkeys_mapVal]
    exact dget_none_iff.mp hg
  | some v =>
    simp only
    have hm : (keep, v) ∈ o := dget_some_mem hg
    unfold absOrder dmodify
    rw [List.map_map]
    apply List.map_congr_left
    intro e he
    simp only [Function.comp]
    rw [get_rmAt]
    by_cases hek : e.1 = keep
    · have : dget o e.1 = some e.2 := dget_of_mem hk he
      rw [hek, hg] at this
      have hv : e.2 = v := (Option.some.inj this).symm
      rw [if_pos hv, if_pos hek, hv]
    · have hv : e.2 ≠ v := by
        intro hv
        have := eq_of_val_eq hr he hm hv
        exact hek (by rw [this])
      rw [if_neg hv, if_neg hek]

theorem order_refs_nodup {L : Links} {s : Trk.TrekkerSelf} {h : SHeap} (hwf : WF L s h) : (s.order.map (·.2)).Nodup :=
  (List.nodup_append.mp hwf.refsDO).2.1

theorem toExc_notFound : toExc "ValueError: Link not found in data!" = .valueError "Link not found in data!" := by decide

/-- `adjust_order` (evaluated) against the model -/
theorem adjust_sim {L : Links} {s : Trk.TrekkerSelf} {h : SHeap} (hwf : WF L s h) (data : KDict PKey Nat) (kOut kIn : Nat) :
    Sim s h (adjustPy s data kOut kIn kIn h) (adjustOrder (absData data h) (absOrder s.order h) kOut kIn) := by
  unfold adjustPy adjustOrder
  rw [lastDeps_absData, lastDeps_absData]
  cases lastRef data kOut with
  | none => cases lastRef data kIn <;> exact toExc_notFound.symm
  | some ro =>
    cases lastRef data kIn with
    | none => exact toExc_notFound.symm
    | some ri =>
      simp only [Option.map, Sim, SHeap.len]
      refine ⟨absOrder_rm s.order h _ _ hwf.keysO (order_refs_nodup hwf), ?_⟩
      split
      · rename_i v hg
        exact frame_rmAt hwf.setsNodup v _ (List.mem_map.mpr ⟨_, dget_some_mem hg, rfl⟩)
      · exact Frame.refl hwf.setsNodup


/-! ### `drop_dependency_in_case_of_circular_dependencies` -/

/-- go on with the new heap / pass the exception on -/
def adjYield (x : Except PyExc SHeap) : Except PyExc (ForInStep SHeap) :=
  match x with
  | .error e => .error e
  | .ok v => .ok (.yield v)

/-- body of the inner loop -/
def dropInBody (s : Trk.TrekkerSelf) (kOut vOut : Nat) (x : Nat × Nat) (hs : SHeap) : Except PyExc (ForInStep SHeap) :=
  if kOut = x.1 then .ok (.yield hs)
  else if (hs.has x.2 kOut && hs.has vOut x.1) = true then adjYield (adjustPy s s.data kOut x.1 x.1 hs)
  else .ok (.yield hs)

/-- body of the outer loop -/
def dropOutBody (s : Trk.TrekkerSelf) (x : Nat × Nat) (hs : SHeap) : Except PyExc (ForInStep SHeap) :=
  adjYield (forIn s.order hs (dropInBody s x.1 x.2))

theorem drop_unfold (s : Trk.TrekkerSelf) (h : SHeap) (hk : (dkeys s.order).Nodup) :
    Trk.drop_dependency_in_case_of_circular_dependencies s h = forIn s.order h (dropOutBody s) := by
  unfold Trk.drop_dependency_in_case_of_circular_dependencies
  simp only [bind, Except.bind, pure, Except.pure]
  rw [forIn_congr_body s.order h _ (dropOutBody s) ?hb]
  case hb =>
    intro x hs
    unfold dropOutBody
    rw [forIn_congr_body s.order hs _ (dropInBody s x.1 x.2) ?hb2]
    case hb2 =>
      intro y hs2
      unfold dropInBody
      by_cases hxy : x.1 = y.1
      · have : (x.1 == y.1) = true := by simp [hxy]
        rw [if_pos this, if_pos hxy]
      · have : ¬ (x.1 == y.1) = true := by simp [hxy]
        rw [if_neg this, if_neg hxy]
        cases h1 : hs2.has y.2 x.1 <;> cases h2 : hs2.has x.2 y.1 <;>
          simp only [Bool.false_eq_true, if_false, if_true, Bool.and_false, Bool.and_true, Bool.and_self]
        rw [adjust_unfold s s.data x.1 y.1 y.1 hs2 hk]
        unfold adjYield
        cases adjustPy s s.data x.1 y.1 y.1 hs2 <;> rfl
    unfold adjYield
    cases forIn s.order hs (dropInBody s x.1 x.2) <;> rfl
  cases forIn s.order h (dropOutBody s) <;> rfl

theorem memb_abs {o : KDict Nat Nat} (h : SHeap) (hk : (dkeys o).Nodup) {e : Nat × Nat} (he : e ∈ o) (y : Nat) :
    memb (absOrder o h) e.1 y = SHeap.has h e.2 y := by
  unfold memb
  rw [absOrder_eq, dget_mapVal, dget_of_mem hk he]
  rfl

theorem dropInner_sim {L : Links} {s : Trk.TrekkerSelf} (D : List (Key × List Nat)) (kOut vOut : Nat)
    (hout : (kOut, vOut) ∈ s.order) (l : KDict Nat Nat) (hl : ∀ x ∈ l, x ∈ s.order) (h : SHeap) (hwf : WF L s h)
    (hD : absData s.data h = D) :
    Sim s h (forIn l h (dropInBody s kOut vOut)) (dropInner D kOut (dkeys l) (absOrder s.order h)) := by
  induction l generalizing h with
  | nil => exact ⟨rfl, Frame.refl hwf.setsNodup⟩
  | cons x t ih =>
    have ht : ∀ y ∈ t, y ∈ s.order := fun y hy => hl y (List.mem_cons_of_mem _ hy)
    have hx := hl x List.mem_cons_self
    rw [List.forIn_cons]
    simp only [dkeys_cons, dropInner]
    unfold dropInBody
    by_cases hxy : kOut = x.1
    · rw [if_pos hxy, if_pos hxy]
      simp only [bind, Except.bind]
      exact ih ht h hwf hD
    · rw [if_neg hxy, if_neg hxy]
      rw [memb_abs h hwf.keysO hx kOut, memb_abs h hwf.keysO hout x.1]
      by_cases hc : (h.has x.2 kOut && h.has vOut x.1) = true
      · rw [if_pos hc, if_pos hc]
        have hs := adjust_sim hwf s.data kOut x.1
        rw [hD] at hs
        cases ha : adjustPy s s.data kOut x.1 x.1 h with
        | error e =>
          cases hm : adjustOrder D (absOrder s.order h) kOut x.1 with
          | error m => rw [ha, hm] at hs; exact hs
          | ok o' => rw [ha, hm] at hs; exact hs.elim
        | ok h1 =>
          cases hm : adjustOrder D (absOrder s.order h) kOut x.1 with
          | error m => rw [ha, hm] at hs; exact hs.elim
          | ok o1 =>
            rw [ha, hm] at hs
            obtain ⟨ho, hf⟩ := hs
            simp only [adjYield, bind, Except.bind]
            obtain ⟨hwf1, hD1, _⟩ := wf_frame hwf hf
            rw [← ho]
            exact (ih ht h1 hwf1 (hD1.trans hD)).weaken hf
      · rw [if_neg hc, if_neg hc]
        simp only [bind, Except.bind]
        exact ih ht h hwf hD

theorem dropOuter_sim {L : Links} {s : Trk.TrekkerSelf} (D : List (Key × List Nat)) (l : KDict Nat Nat)
    (hl : ∀ x ∈ l, x ∈ s.order) (h : SHeap) (hwf : WF L s h) (hD : absData s.data h = D) :
    Sim s h (forIn l h (dropOutBody s)) (dropOuter D (dkeys s.order) (dkeys l) (absOrder s.order h)) := by
  induction l generalizing h with
  | nil => exact ⟨rfl, Frame.refl hwf.setsNodup⟩
  | cons x t ih =>
    have ht : ∀ y ∈ t, y ∈ s.order := fun y hy => hl y (List.mem_cons_of_mem _ hy)
    have hx := hl x List.mem_cons_self
    rw [List.forIn_cons]
    simp only [dkeys_cons, dropOuter]
    unfold dropOutBody
    have hs := dropInner_sim D x.1 x.2 hx s.order (fun _ hy => hy) h hwf hD
    cases ha : forIn s.order h (dropInBody s x.1 x.2) with
    | error e =>
      cases hm : dropInner D x.1 (dkeys s.order) (absOrder s.order h) with
      | error m => rw [ha, hm] at hs; exact hs
      | ok o' => rw [ha, hm] at hs; exact hs.elim
    | ok h1 =>
      cases hm : dropInner D x.1 (dkeys s.order) (absOrder s.order h) with
      | error m => rw [ha, hm] at hs; exact hs.elim
      | ok o1 =>
        rw [ha, hm] at hs
        obtain ⟨ho, hf⟩ := hs
        simp only [adjYield, bind, Except.bind]
        obtain ⟨hwf1, hD1, _⟩ := wf_frame hwf hf
        rw [← ho]
        exact (ih ht h1 hwf1 (hD1.trans hD)).weaken hf

theorem drop_sim {L : Links} {s : Trk.TrekkerSelf} {h : SHeap} (hwf : WF L s h) :
    Sim s h (Trk.drop_dependency_in_case_of_circular_dependencies s h) (dropCircular (absData s.data h) (absOrder s.order h)) := by
  rw [drop_unfold s h hwf.keysO]
  unfold dropCircular
  have := dropOuter_sim (absData s.data h) s.order (fun _ hy => hy) h hwf rfl
  rw [absOrder_eq, dkeys_mapVal]
  rw [absOrder_eq] at this
  exact this


/-! ### `order_links_by_frameworks` -/

/-- body of the double loop for one pair (`trekker`, `other_trekker`) on the state (heap, `self`) -/
def olStep (tk ok : PKey) (st : SHeap × Trk.TrekkerSelf) : SHeap × Trk.TrekkerSelf :=
  if (tk.1.uuid == ok.1.uuid) = true then st
  else if (tk.2.2 == ok.2.1 && ok.2.1 == tk.2.1) = true then st
  else if (tk.2.2 == ok.2.1) = true then
    match KDict.get? st.2.order ok.1.uuid with
    | none => (st.1 ++ [[tk.1.uuid]], { st.2 with order := st.2.order ++ [(ok.1.uuid, st.1.length)] })
    | some r => (SHeap.add st.1 r tk.1.uuid, st.2)
  else st

/-- the double loop -/
def olLoops (s : Trk.TrekkerSelf) (h : SHeap) : SHeap × Trk.TrekkerSelf :=
  s.data.foldl (fun st x => st.2.data.foldl (fun st y => olStep x.1 y.1 st) st) (h, s)

theorem order_links_unfold (s : Trk.TrekkerSelf) (h : SHeap) :
    Trk.order_links_by_frameworks s h =
      match Trk.drop_dependency_in_case_of_circular_dependencies (olLoops s h).2 (olLoops s h).1 with
      | .error e => .error e
      | .ok h' => .ok (h', (olLoops s h).2) := by
  unfold Trk.order_links_by_frameworks
  simp only [bind, Except.bind, pure, Except.pure]
  rw [PyRt.forIn_yield_spec s.data _ (fun x st => st.2.data.foldl (fun st y => olStep x.1 y.1 st) st) ?hb]
  case hb =>
    intro x st
    rw [PyRt.forIn_yield_spec st.2.data _ (fun y st => olStep x.1 y.1 st) ?hb2]
    case hb2 =>
      intro y st2
      unfold olStep
      split
      · rfl
      · split
        · rfl
        · split
          · by_cases hh : y.1.1.uuid ∈ dkeys st2.2.order
            · have : ¬ (!KDict.has st2.2.order y.1.1.uuid) = true := by rw [has_eq]; simp [hh]
              rw [if_neg this]
              unfold KDict.getItem
              cases hg : KDict.get? st2.2.order y.1.1.uuid with
              | none => rw [get?_eq, dget_none_iff] at hg; exact absurd hh hg
              | some r => rfl
            · have : (!KDict.has st2.2.order y.1.1.uuid) = true := by rw [has_eq]; simp [hh]
              rw [if_pos this]
              have hg : KDict.get? st2.2.order y.1.1.uuid = none := by rw [get?_eq, dget_none_iff]; exact hh
              rw [hg, set_eq, dset_of_not_mem hh]
              rfl
          · rfl
  simp only
  unfold olLoops
  generalize List.foldl (fun st x => List.foldl (fun st y => olStep x.fst y.fst st) st st.snd.data) (h, s) s.data = st
  cases Trk.drop_dependency_in_case_of_circular_dependencies st.2 st.1 <;> rfl


/-- changing the set behind the handle `order` holds under `keep` is the model's `dmodify` -/
theorem absOrder_modify (o : KDict Nat Nat) (h h' : SHeap) (keep v : Nat) (f : List Nat → List Nat) (hk : (dkeys o).Nodup)
    (hr : (o.map (·.2)).Nodup) (hm : (keep, v) ∈ o)
    (hget : ∀ r, SHeap.get h' r = if r = v then f (SHeap.get h v) else SHeap.get h r) :
    absOrder o h' = dmodify (absOrder o h) keep f := by
  unfold absOrder dmodify
  rw [List.map_map]
  apply List.map_congr_left
  intro e he
  simp only [Function.comp]
  rw [hget]
  by_cases hek : e.1 = keep
  · have h1 : dget o e.1 = some e.2 := dget_of_mem hk he
    have h2 : dget o keep = some v := dget_of_mem hk hm
    rw [hek, h2] at h1
    have hv : e.2 = v := (Option.some.inj h1).symm
    rw [if_pos hv, if_pos hek, hv]
  · have hv : e.2 ≠ v := by
      intro hv
      have := eq_of_val_eq hr he hm hv
      exact hek (by rw [this])
    rw [if_neg hv, if_neg hek]

theorem get_add (h : SHeap) (r x r' : Nat) (hr : r < h.length) :
    SHeap.get (SHeap.add h r x) r' = if r' = r then sadd (SHeap.get h r) x else SHeap.get h r' := by
  unfold SHeap.add
  by_cases e : r' = r
  · rw [if_pos e, e, get_set_eq h r _ hr, add_eq]
  · rw [if_neg e, get_set_ne h r r' _ e]

/-- a new key of `order` with a freshly allocated set keeps the representation invariant -/
theorem wf_alloc {L : Links} {s : Trk.TrekkerSelf} {h : SHeap} (hwf : WF L s h) (k : Nat) (x : PSet) (hk : k ∉ dkeys s.order)
    (hx : x.Nodup) : WF L { s with order := s.order ++ [(k, h.length)] } (h ++ [x]) := by
  have hlen : (h ++ [x]).length = h.length + 1 := by simp
  refine { canonD := hwf.canonD, canonDO := hwf.canonDO, keysD := hwf.keysD, keysDO := hwf.keysDO, keysO := ?_,
           refsDO := ?_, refsDord := hwf.refsDord, share := hwf.share, disjO := ?_, allocD := ?_,
           allocDO := ?_, allocO := ?_, setsNodup := get_append_nodup h x hx hwf.setsNodup }
  · simp only [List.map_append, List.map_cons, List.map_nil]
    rw [List.nodup_append]
    refine ⟨hwf.keysO, by simp, ?_⟩
    intro a ha b hb
    simp only [List.mem_singleton] at hb
    intro e; exact hk (by rw [← hb, ← e]; exact ha)
  · simp only [List.map_append, List.map_cons, List.map_nil]
    rw [← List.append_assoc, List.nodup_append]
    refine ⟨hwf.refsDO, by simp, ?_⟩
    intro a ha b hb
    simp only [List.mem_singleton] at hb
    have : a < h.length := by
      rcases List.mem_append.mp ha with ha | ha
      · obtain ⟨e, he, rfl⟩ := List.mem_map.mp ha; exact hwf.allocD e he
      · obtain ⟨e, he, rfl⟩ := List.mem_map.mp ha; exact hwf.allocO e he
    omega
  · intro e he hm
    simp only [List.map_append, List.map_cons, List.map_nil, List.mem_append, List.mem_singleton] at hm
    rcases hm with hm | hm
    · exact hwf.disjO e he hm
    · have := hwf.allocDO e he; omega
  · intro e he; rw [hlen]; exact Nat.lt_succ_of_lt (hwf.allocD e he)
  · intro e he; rw [hlen]; exact Nat.lt_succ_of_lt (hwf.allocDO e he)
  · intro e he
    rw [hlen]
    rcases List.mem_append.mp he with he | he
    · exact Nat.lt_succ_of_lt (hwf.allocO e he)
    · simp only [List.mem_singleton] at he; rw [he]; exact Nat.lt_succ_self _

/-- invariant of the double loop: `data` / `data_ordered` (the dicts and what their handles refer to) do not change -/
structure OLInv (L : Links) (s : Trk.TrekkerSelf) (h : SHeap) (st : SHeap × Trk.TrekkerSelf) : Prop where
  wf : WF L st.2 st.1
  data : st.2.data = s.data
  dord : st.2.data_ordered = s.data_ordered
  absD : absData s.data st.1 = absData s.data h
  absDO : absDord s.data s.data_ordered st.1 = absDord s.data s.data_ordered h

/-- the model's `order` of a loop state -/
def absSt (st : SHeap × Trk.TrekkerSelf) : Order := absOrder st.2.order st.1

theorem olStep_inv {L : Links} {s : Trk.TrekkerSelf} {h : SHeap} {st : SHeap × Trk.TrekkerSelf} (hinv : OLInv L s h st)
    (tk ok : PKey) : OLInv L s h (olStep tk ok st) ∧ absSt (olStep tk ok st) = relStep (absSt st) (absK tk) (absK ok) := by
  unfold olStep relStep
  have e1 : (absK tk).link = tk.1.uuid := rfl
  have e2 : (absK ok).link = ok.1.uuid := rfl
  by_cases h1 : (absK tk).link = (absK ok).link
  · have : (tk.1.uuid == ok.1.uuid) = true := by simp; exact h1
    rw [if_pos this, if_pos h1]; exact ⟨hinv, rfl⟩
  · have : ¬ (tk.1.uuid == ok.1.uuid) = true := by simp; exact h1
    rw [if_neg this, if_neg h1]
    by_cases h2 : (absK tk).right = (absK ok).left ∧ (absK ok).left = (absK tk).left
    · have : (tk.2.2 == ok.2.1 && ok.2.1 == tk.2.1) = true := by
        have h21 : tk.2.2 = ok.2.1 := h2.1
        have h22 : ok.2.1 = tk.2.1 := h2.2
        simp [h21, h22]
      rw [if_pos this, if_pos h2]; exact ⟨hinv, rfl⟩
    · have : ¬ (tk.2.2 == ok.2.1 && ok.2.1 == tk.2.1) = true := by
        simp only [absK] at h2; simpa using h2
      rw [if_neg this, if_neg h2]
      by_cases h3 : (absK tk).right = (absK ok).left
      · have : (tk.2.2 == ok.2.1) = true := by simp; exact h3
        rw [if_pos this, if_pos h3, e1, e2]
        have hwf := hinv.wf
        cases hg : KDict.get? st.2.order ok.1.uuid with
        | none =>
          simp only
          have hk : ok.1.uuid ∉ dkeys st.2.order := by rw [get?_eq, dget_none_iff] at hg; exact hg
          have hsame : ∀ r, r < st.1.length → SHeap.get (st.1 ++ [[tk.1.uuid]]) r = SHeap.get st.1 r :=
            fun r hr => get_append_lt st.1 _ r hr
          refine ⟨⟨wf_alloc hwf ok.1.uuid [tk.1.uuid] hk (by simp), hinv.data, hinv.dord, ?_, ?_⟩, ?_⟩
          · rw [← hinv.absD]
            exact absData_congr _ _ _ (fun e he => hsame e.2 (hwf.allocD e (hinv.data ▸ he)))
          · rw [← hinv.absDO]
            exact absDord_congr _ _ _ _ (fun e he => hsame e.2 (hwf.allocDO e (hinv.dord ▸ he)))
          · unfold absSt oadd
            have hk' : ok.1.uuid ∉ dkeys (absOrder st.2.order st.1) := by rw [absOrder_eq, dkeys_mapVal]; exact hk
            rw [if_neg hk']
            simp only [absOrder, List.map_append, List.map_cons, List.map_nil, get_append_new]
            congr 1
            apply List.map_congr_left
            intro e he
            rw [hsame e.2 (hwf.allocO e he)]
        | some r =>
          simp only
          have hm : (ok.1.uuid, r) ∈ st.2.order := by rw [get?_eq] at hg; exact dget_some_mem hg
          have hr : r ∈ st.2.order.map (·.2) := List.mem_map.mpr ⟨_, hm, rfl⟩
          have hf : Frame st.2 st.1 (SHeap.add st.1 r tk.1.uuid) := frame_add hwf.setsNodup r _ hr
          obtain ⟨hwf1, hD1, hDO1⟩ := wf_frame hwf hf
          refine ⟨⟨hwf1, hinv.data, hinv.dord, ?_, ?_⟩, ?_⟩
          · rw [← hinv.absD, ← hinv.data]; exact hD1
          · rw [← hinv.absDO, ← hinv.data, ← hinv.dord]; exact hDO1
          · unfold absSt oadd
            have hk' : ok.1.uuid ∈ dkeys (absOrder st.2.order st.1) := by
              rw [absOrder_eq, dkeys_mapVal]; exact mem_dkeys_of_mem hm
            rw [if_pos hk']
            exact absOrder_modify st.2.order st.1 _ ok.1.uuid r (sadd · tk.1.uuid) hwf.keysO (order_refs_nodup hwf) hm
              (fun r' => get_add st.1 r tk.1.uuid r' (hwf.allocO _ hm))
      · have : ¬ (tk.2.2 == ok.2.1) = true := by simp; exact h3
        rw [if_neg this, if_neg h3]; exact ⟨hinv, rfl⟩

theorem olInner_inv {L : Links} {s : Trk.TrekkerSelf} {h : SHeap} (tk : PKey) (l : KDict PKey Nat) (st : SHeap × Trk.TrekkerSelf)
    (hinv : OLInv L s h st) :
    OLInv L s h (l.foldl (fun st y => olStep tk y.1 st) st) ∧
      absSt (l.foldl (fun st y => olStep tk y.1 st) st) =
        (l.map (fun e => absK e.1)).foldl (fun o ok => relStep o (absK tk) ok) (absSt st) := by
  induction l generalizing st with
  | nil => exact ⟨hinv, rfl⟩
  | cons y t ih =>
    rw [List.foldl_cons, List.map_cons, List.foldl_cons]
    obtain ⟨h1, h2⟩ := olStep_inv hinv tk y.1
    rw [← h2]
    exact ih _ h1

theorem olOuter_inv {L : Links} {s : Trk.TrekkerSelf} {h : SHeap} (l : KDict PKey Nat) (st : SHeap × Trk.TrekkerSelf)
    (hinv : OLInv L s h st) :
    OLInv L s h (l.foldl (fun st x => st.2.data.foldl (fun st y => olStep x.1 y.1 st) st) st) ∧
      absSt (l.foldl (fun st x => st.2.data.foldl (fun st y => olStep x.1 y.1 st) st) st) =
        (l.map (fun e => absK e.1)).foldl
          (fun o tk => (s.data.map (fun e => absK e.1)).foldl (fun o ok => relStep o tk ok) o) (absSt st) := by
  induction l generalizing st with
  | nil => exact ⟨hinv, rfl⟩
  | cons x t ih =>
    rw [List.foldl_cons, List.map_cons, List.foldl_cons]
    obtain ⟨h1, h2⟩ := olInner_inv x.1 st.2.data st hinv
    have hmap : (st.2.data.map fun e => absK e.1) = s.data.map (fun e => absK e.1) := by rw [hinv.data]
    rw [hmap] at h2
    rw [← h2]
    exact ih _ h1

theorem olLoops_inv {L : Links} {s : Trk.TrekkerSelf} {h : SHeap} (hwf : WF L s h) :
    OLInv L s h (olLoops s h) ∧ absSt (olLoops s h) = orderRaw (dkeys (absData s.data h)) (absOrder s.order h) := by
  have h0 : OLInv L s h (h, s) := ⟨hwf, rfl, rfl, rfl, rfl⟩
  obtain ⟨h1, h2⟩ := olOuter_inv s.data (h, s) h0
  refine ⟨h1, ?_⟩
  unfold olLoops orderRaw
  rw [h2]
  have : dkeys (absData s.data h) = s.data.map (fun e => absK e.1) := by
    simp [dkeys, absData, List.map_map, Function.comp_def]
  rw [this]
  rfl

end LinkGen.Ord

namespace LinkGen
open LinkOrder PyRt Gen.LinkOrderGen LinkGen.Ord

/-- **`adjust_order`** (the nested function; its parameter `k_int` and its closure variable `k_in` both receive the loop variable
`k_in`) against `LinkOrder.adjustOrder`; `data` is any dict of set handles (the caller passes `self.data`) -/
theorem adjust_order_bridge {L : Links} {s : Trk.TrekkerSelf} {h : SHeap} (hwf : WF L s h) (data : KDict PKey Nat)
    (kOut kIn : Nat) :
    mapV (Trk.adjust_order s data kOut kIn kIn h) (fun h' => absOrder s.order h') =
      liftM (adjustOrder (absData data h) (absOrder s.order h) kOut kIn) := by
  rw [adjust_unfold s data kOut kIn kIn h hwf.keysO]
  exact (adjust_sim hwf data kOut kIn).bridge

/-- the heap `adjust_order` returns: only the sets of `order` handles differ (so no set of `data` / `data_ordered` changes) -/
theorem adjust_order_frame {L : Links} {s : Trk.TrekkerSelf} {h h' : SHeap} (hwf : WF L s h) (data : KDict PKey Nat)
    (kOut kIn : Nat) (hr : Trk.adjust_order s data kOut kIn kIn h = .ok h') : Frame s h h' := by
  rw [adjust_unfold s data kOut kIn kIn h hwf.keysO] at hr
  exact (adjust_sim hwf data kOut kIn).frame hr

/-- **`drop_dependency_in_case_of_circular_dependencies`** against `LinkOrder.dropCircular` -/
theorem drop_dependency_bridge {L : Links} {s : Trk.TrekkerSelf} {h : SHeap} (hwf : WF L s h) :
    mapV (Trk.drop_dependency_in_case_of_circular_dependencies s h) (fun h' => absOrder s.order h') =
      liftM (dropCircular (absData s.data h) (absOrder s.order h)) :=
  (drop_sim hwf).bridge

/-- the frame of `drop_dependency_…`: the new heap has the same length, agrees with the old one on every handle that is not a
handle of `s.order`, its sets are duplicate-free; hence the invariant is kept and `data` / `data_ordered` mean what they meant -/
theorem drop_dependency_frame {L : Links} {s : Trk.TrekkerSelf} {h h' : SHeap} (hwf : WF L s h)
    (hr : Trk.drop_dependency_in_case_of_circular_dependencies s h = .ok h') :
    h'.length = h.length ∧ (∀ r, r ∉ s.order.map (·.2) → SHeap.get h' r = SHeap.get h r) ∧ (∀ r, (SHeap.get h' r).Nodup) ∧
      WF L s h' ∧ absData s.data h' = absData s.data h ∧
      absDord s.data s.data_ordered h' = absDord s.data s.data_ordered h := by
  have hf := (drop_sim hwf).frame hr
  exact ⟨hf.len, hf.same, hf.nodup, wf_frame hwf hf⟩

/-- **`order_links_by_frameworks`** against `LinkOrder.orderLinksByFrameworks` -/
theorem order_links_bridge {L : Links} {s : Trk.TrekkerSelf} {h : SHeap} (hwf : WF L s h) :
    mapV (Trk.order_links_by_frameworks s h) (fun r => absT r.2 r.1) = liftM (orderLinksByFrameworks (absT s h)) := by
  rw [order_links_unfold]
  obtain ⟨hinv, habs⟩ := olLoops_inv hwf
  have hs := drop_sim hinv.wf
  unfold orderLinksByFrameworks
  simp only [absT]
  rw [← habs]
  rw [hinv.data, hinv.absD] at hs
  unfold absSt
  cases hd : Trk.drop_dependency_in_case_of_circular_dependencies (olLoops s h).2 (olLoops s h).1 with
  | error e =>
    cases hm : dropCircular (absData s.data h) (absOrder (olLoops s h).2.order (olLoops s h).1) with
    | error m => rw [hd, hm] at hs; simp only [Sim] at hs; simp [hs]
    | ok o => rw [hd, hm] at hs; exact hs.elim
  | ok h' =>
    cases hm : dropCircular (absData s.data h) (absOrder (olLoops s h).2.order (olLoops s h).1) with
    | error m => rw [hd, hm] at hs; exact hs.elim
    | ok o =>
      rw [hd, hm] at hs
      obtain ⟨ho, hf⟩ := hs
      obtain ⟨_, hD, hDO⟩ := wf_frame hinv.wf hf
      simp only [mapV_ok, liftM_ok]
      rw [hinv.data, hinv.dord] at hDO
      rw [hinv.data] at hD
      rw [hinv.data, hinv.dord, hD, hDO, hinv.absD, hinv.absDO, ho]

/-- `order_links_by_frameworks` keeps the representation invariant and touches neither `data` nor `data_ordered` -/
theorem order_links_wf {L : Links} {s s' : Trk.TrekkerSelf} {h h' : SHeap} (hwf : WF L s h)
    (hr : Trk.order_links_by_frameworks s h = .ok (h', s')) : WF L s' h' ∧ s'.data = s.data ∧ s'.data_ordered = s.data_ordered := by
  rw [order_links_unfold] at hr
  obtain ⟨hinv, _⟩ := olLoops_inv hwf
  have hs := drop_sim hinv.wf
  cases hd : Trk.drop_dependency_in_case_of_circular_dependencies (olLoops s h).2 (olLoops s h).1 with
  | error e => rw [hd] at hr; cases hr
  | ok h1 =>
    rw [hd] at hr
    simp only [Except.ok.injEq, Prod.mk.injEq] at hr
    have hf := hs.frame hd
    rw [← hr.1, ← hr.2]
    exact ⟨(wf_frame hinv.wf hf).1, hinv.data, hinv.dord⟩

end LinkGen

/-! ### non-vacuity: concrete states (closed examples) -/
namespace LinkGen.Ord
open LinkOrder PyRt Gen.LinkOrderGen LinkGen

/-- link 1: framework 10 → 20, link 2: 20 → 10 (a circular dependency), nothing ordered yet -/
def exL : Links := ⟨fun n => ⟨n, 0, 0, 0⟩, fun _ => rfl⟩
def exS : Trk.TrekkerSelf :=
  { data := [((⟨1, 0, 0, 0⟩, 10, 20), 0), ((⟨2, 0, 0, 0⟩, 20, 10), 1)], data_ordered := [], order := [] }
def exH : SHeap := [[100], [101, 102]]

theorem exWF : WF exL exS exH := by
  refine { canonD := ?_, canonDO := ?_, keysD := by decide, keysDO := by decide, keysO := by decide,
           refsDO := by decide, refsDord := by decide, share := by decide, disjO := by decide, allocD := by decide,
           allocDO := by decide, allocO := by decide, setsNodup := ?_ }
  · intro e he
    simp only [exS, List.mem_cons, List.not_mem_nil, or_false] at he
    rcases he with rfl | rfl <;> rfl
  · intro e he; cases he
  · intro r
    match r with
    | 0 => decide
    | 1 => decide
    | n + 2 => simp [SHeap.get, exH]

/-- both sides of `order_links_bridge` on that state: the circle is broken, link 1 has to wait for link 2 -/
example : Trk.order_links_by_frameworks exS exH =
    .ok ([[100], [101, 102], [1], []], { exS with order := [(2, 2), (1, 3)] }) := by decide
example : (orderLinksByFrameworks (absT exS exH)).map (·.order) = .ok [(2, [1]), (1, [])] := by decide

/-- a state on which `order_ordered_ids_by_relation` really reorders, and on which `drop_dependency_…` raises (link 3 is
not in `data`) -/
def exS2 : Trk.TrekkerSelf := { exS with order := [(2, 2), (1, 3), (3, 4)] }
def exH2 : SHeap := [[100], [101, 102], [1, 3], [], [2]]

example : Trk.order_ordered_ids_by_relation exS2 exH2 = .ok { exS2 with order := [(1, 3), (3, 4), (2, 2)] } := by decide
example : reorder (absOrder exS2.order exH2) = [(1, []), (3, [2]), (2, [1, 3])] := by decide
example : Trk.drop_dependency_in_case_of_circular_dependencies exS2 exH2 = .error (.valueError "Link not found in data!") := by
  decide
example : dropCircular (absData exS2.data exH2) (absOrder exS2.order exH2) = .error "ValueError: Link not found in data!" := by
  decide

end LinkGen.Ord
