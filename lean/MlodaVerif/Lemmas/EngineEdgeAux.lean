import MlodaVerif.Lemmas.EngineUuid
/-! # `feature_link_parents` while the filter / index features of one processed feature are added -/
namespace EngineColl
open Graph (Dict dget dset sadd dkeys)

/-- `ak` is the key of a filter / linked-index feature made for a processed feature with key `k` of group `g` -/
def AuxKeyOf (w : World) (L : Option (List Link)) (g : Nat) (k ak : Key) : Prop :=
  (∃ m, FilterMatch w g k m ∧ filterKey w g m = ak) ∨ (∃ ix, IndexMatch w L g ix ∧ indexKey w g k ix = .ok ak)

/-- `u` is the uuid of a collected entry of group `g` that is `==` the prepared feature `k` or `==` one of its filter / index features -/
def ParentFor (w : World) (L : Option (List Link)) (coll : List (Nat × Feat)) (g : Nat) (k : Key) (u : Nat) : Prop :=
  ∃ e ∈ coll, e.1 = g ∧ e.2.uuid = u ∧ (e.2.key = k ∨ AuxKeyOf w L g k e.2.key)

theorem ParentFor.mono {w : World} {L : Option (List Link)} {a b : St} (h : Ext a b) {g : Nat} {k : Key} {u : Nat}
    (hp : ParentFor w L a.coll g k u) : ParentFor w L b.coll g k u := by
  obtain ⟨e, he, hh⟩ := hp
  exact ⟨e, h.mem he, hh⟩

theorem UInv.of_eq {a b : St} (hu : UInv a) (hc : b.coll = a.coll) (hf : b.flp = a.flp) (hn : a.next ≤ b.next) : UInv b := by
  have hus : uuids b = uuids a := by simp [uuids, hc]
  exact ⟨by rw [hus]; exact hu.nodup, by rw [hus]; exact fun u h => Nat.lt_of_lt_of_le (hu.lt u h) hn, by rw [hus, hf]; exact hu.keys,
    by rw [hf]; exact hu.kn, by rw [hf]; exact fun k u h => Nat.lt_of_lt_of_le (hu.vlt k u h) hn, by rw [hf]; exact hu.vn⟩

/-- the state `s1` reached from `s` by adding auxiliary features of the processed feature `(g, k3)` under the child `cu` -/
structure AuxI (w : World) (L : Option (List Link)) (g : Nat) (k3 : Key) (cu : Option Nat) (s s1 : St) : Prop where
  ext : Ext s s1
  uinv : UInv s1
  newu : ∀ u ∈ uuids s1, u ∈ uuids s ∨ s.next ≤ u
  frame : ∀ k, k ∈ dkeys s.flp → cu ≠ some k → dget s1.flp k = dget s.flp k
  sound : ∀ c, cu = some c → ∀ u ∈ dget s1.flp c, u ∈ dget s.flp c ∨ (∃ e ∈ s1.coll, e.1 = g ∧ e.2.uuid = u ∧ AuxKeyOf w L g k3 e.2.key)
  keep : ∀ c, cu = some c → ∀ u ∈ dget s.flp c, u < s.next → u ∈ dget s1.flp c
  fresh : ∀ k, k ∉ dkeys s.flp → k ∈ dkeys s1.flp → dget s1.flp k = [] ∧ ∀ e ∈ s1.coll, e.2.uuid = k → ¬ Expanded e.2

theorem AuxI.refl {w : World} {L : Option (List Link)} {g : Nat} {k3 : Key} {cu : Option Nat} {s : St} (hu : UInv s) : AuxI w L g k3 cu s s :=
  ⟨Ext.refl s, hu, fun _ h => Or.inl h, fun _ _ _ => rfl, fun _ _ _ h => Or.inl h, fun _ _ _ h _ => h, fun _ h1 h2 => absurd h2 h1⟩

theorem AuxI.of_eq {w : World} {L : Option (List Link)} {g : Nat} {k3 : Key} {cu : Option Nat} {s s1 s2 : St} (h : AuxI w L g k3 cu s s1)
    (hc : s2.coll = s1.coll) (hf : s2.flp = s1.flp) (hn : s1.next ≤ s2.next) : AuxI w L g k3 cu s s2 := by
  have hus : uuids s2 = uuids s1 := by simp [uuids, hc]
  refine ⟨⟨by rw [hc]; exact h.ext.1, Nat.le_trans h.ext.2 hn⟩, h.uinv.of_eq hc hf hn, by rw [hus]; exact h.newu, by rw [hf]; exact h.frame,
    by rw [hf, hc]; exact h.sound, by rw [hf]; exact h.keep, by rw [hf, hc]; exact h.fresh⟩

/-- one auxiliary feature with the fresh uuid `s1.next` -/
theorem AuxI.step {w : World} {L : Option (List Link)} {g : Nat} {k3 : Key} {cu : Option Nat} {s s1 s1' s2 : St} {a : Feat} {ix b : Bool}
    (h : AuxI w L g k3 cu s s1) (hus : UInv s) (hcu : ∀ c, cu = some c → c ∈ uuids s)
    (hc1 : s1'.coll = s1.coll) (hf1 : s1'.flp = s1.flp) (hn1 : s1'.next = s1.next + 1)
    (ha : addFeature w s1' g a cu ix = .ok (s2, b)) (hau : a.uuid = s1.next) (hak : AuxKeyOf w L g k3 a.key) (hax : ¬ Expanded a) :
    AuxI w L g k3 cu s s2 := by
  have h1' : AuxI w L g k3 cu s s1' := h.of_eq hc1 hf1 (by omega)
  have hu1' : UInv s1' := h1'.uinv
  have hus1 : uuids s1' = uuids s1 := by simp [uuids, hc1]
  have hanot : a.uuid ∉ uuids s1' := by
    intro hin
    rw [hus1] at hin
    have := h.uinv.lt _ hin
    omega
  have halt : a.uuid < s1'.next := by omega
  have hcu1' : ∀ c, cu = some c → c ∈ uuids s1' := fun c hc => h1'.ext.uuids (hcu c hc)
  have hu2 : UInv s2 := addFeature_uinv ha hu1' hanot halt hcu1'
  have hsn : s.next ≤ a.uuid := by rw [hau]; exact h.ext.2
  have hklt : ∀ k, k ∈ dkeys s.flp → k < s.next := fun k hk => hus.lt k ((hus.keys k).mp hk)
  rcases addFeature_cases ha with ⟨_, _, rfl⟩ | ⟨_, hin, hcoll, _, hnx, _, _, hflp⟩
  · -- the auxiliary feature is new
    refine ⟨Ext.trans h1'.ext ⟨⟨[(g, a)], rfl⟩, Nat.le_refl _⟩, hu2, ?_, ?_, ?_, ?_, ?_⟩
    · intro u hu
      simp only [uuids, List.map_append, List.map_cons, List.map_nil, List.mem_append, List.mem_singleton] at hu
      rcases hu with hu | hu
      · exact h1'.newu u hu
      · right; rw [hu]; exact hsn
    · intro k hk hne
      simp only [Graph.dget_dset]
      have : a.uuid ≠ k := by have := hklt k hk; omega
      simp only [this, if_false]
      exact h1'.frame k hk hne
    · intro c hc u hu
      simp only [Graph.dget_dset] at hu
      have hcl : c < s.next := hus.lt c (hcu c hc)
      have : a.uuid ≠ c := by omega
      simp only [this, if_false] at hu
      rcases h1'.sound c hc u hu with h3 | ⟨e, he, h3⟩
      · exact Or.inl h3
      · exact Or.inr ⟨e, List.mem_append_left _ he, h3⟩
    · intro c hc u hu hlt
      simp only [Graph.dget_dset]
      have hcl : c < s.next := hus.lt c (hcu c hc)
      have : a.uuid ≠ c := by omega
      simp only [this, if_false]
      exact h1'.keep c hc u hu hlt
    · intro k hk1 hk2
      simp only [Graph.mem_dkeys_dset] at hk2
      simp only [Graph.dget_dset]
      by_cases hka : a.uuid = k
      · simp only [hka, if_true, true_and]
        intro e he hek
        simp only [List.mem_append, List.mem_singleton] at he
        rcases he with he | rfl
        · exfalso
          apply hanot
          rw [hka, ← hek]
          exact mem_uuids.mpr ⟨e, he, rfl⟩
        · exact hax
      · simp only [hka, if_false]
        rcases hk2 with hk2 | hk2
        · obtain ⟨q1, q2⟩ := h1'.fresh k hk1 hk2
          refine ⟨q1, ?_⟩
          intro e he hek
          simp only [List.mem_append, List.mem_singleton] at he
          rcases he with he | rfl
          · exact q2 e he hek
          · exact absurd hek hka
        · exact absurd hk2.symm hka
  · -- it duplicates an entry
    have hext : Ext s s2 := Ext.trans h1'.ext ⟨⟨[], by rw [hcoll]; simp⟩, by rw [hnx]; exact Nat.le_refl _⟩
    have hus2 : uuids s2 = uuids s1' := by simp [uuids, hcoll]
    rcases hflp with hflp | ⟨c0, wanted, hc0, ⟨e0, he0, hg0, hk0, hw0⟩, hflp⟩
    · exact ⟨hext, hu2, by rw [hus2]; exact h1'.newu, by rw [hflp]; exact h1'.frame, by rw [hflp, hcoll]; exact h1'.sound,
        by rw [hflp]; exact h1'.keep, by rw [hflp, hcoll]; exact h1'.fresh⟩
    · have hc0s : c0 ∈ uuids s := hcu c0 hc0
      have hc0k : c0 ∈ dkeys s.flp := (hus.keys c0).mpr hc0s
      refine ⟨hext, hu2, by rw [hus2]; exact h1'.newu, ?_, ?_, ?_, ?_⟩
      · intro k hk hne
        rw [hflp, Graph.dget_dset]
        have : c0 ≠ k := by intro hh; apply hne; rw [hc0, hh]
        simp only [this, if_false]
        exact h1'.frame k hk hne
      · intro c hc u hu
        rw [hc0] at hc
        simp only [Option.some.injEq] at hc
        subst hc
        rw [hflp, Graph.dget_dset] at hu
        simp only [if_true] at hu
        rcases mem_updParents hu with h3 | h3
        · rcases h1'.sound c0 hc0 u h3 with h4 | ⟨e, he, h4⟩
          · exact Or.inl h4
          · exact Or.inr ⟨e, by rw [hcoll]; exact he, h4⟩
        · right
          refine ⟨e0, by rw [hcoll]; exact he0, hg0, by rw [hw0, h3], ?_⟩
          rw [hk0]; exact hak
      · intro c hc u hu hlt
        rw [hc0] at hc
        simp only [Option.some.injEq] at hc
        subst hc
        rw [hflp, Graph.dget_dset]
        simp only [if_true]
        exact keep_updParents (h1'.keep c0 hc0 u hu hlt) (by omega)
      · intro k hk1 hk2
        rw [hflp, Graph.mem_dkeys_dset] at hk2
        have hk2' : k ∈ dkeys s1'.flp := by
          rcases hk2 with hk2 | hk2
          · exact hk2
          · exact absurd (hk2 ▸ hc0k) hk1
        obtain ⟨q1, q2⟩ := h1'.fresh k hk1 hk2'
        rw [hflp, Graph.dget_dset, hcoll]
        have : c0 ≠ k := by intro hh; exact hk1 (hh ▸ hc0k)
        simp only [this, if_false]
        exact ⟨q1, q2⟩

theorem addFilters_auxI {w : World} {L : Option (List Link)} (hw : PlainWorld w) {st : St} {g : Nat} {f : Feat} {cu : Option Nat} {st' : St}
    (h : addFilters w st g f cu = .ok st') (hu : UInv st) (hcu : ∀ c, cu = some c → c ∈ uuids st) : AuxI w L g f.key cu st st' := by
  apply addFilters_inv (I := fun s => AuxI w L g f.key cu st s) h (AuxI.refl hu)
  · intro s hs; exact hs.of_eq rfl rfl (Nat.le_refl _)
  · intro s m s2 b hs hm ha
    refine AuxI.step hs hu hcu ?_ ?_ ?_ ha rfl (Or.inl ⟨m, hm, rfl⟩) (filterMatch_not_expanded hw hm _)
    all_goals rfl

theorem addIndexes_auxI {w : World} {L : Option (List Link)} {st : St} {g : Nat} {f : Feat} {cu : Option Nat} {st' : St}
    (h : addIndexes w st g f cu = .ok st') (hl : st.links = L) (hu : UInv st) (hcu : ∀ c, cu = some c → c ∈ uuids st) :
    AuxI w L g f.key cu st st' := by
  apply addIndexes_inv (I := fun s => AuxI w L g f.key cu st s) h (AuxI.refl hu)
  intro s ix xf s2 b hs hm hxf ha
  have hx := indexFeat_link hxf
  rw [hl] at hm
  have hnx : ¬ Expanded xf := by
    intro hexp
    rcases hexp with hexp | hexp
    · rw [hx.2.1] at hexp; simp at hexp
    · exact hexp hx.2.2.2
  refine AuxI.step hs hu hcu ?_ ?_ ?_ ha hx.2.2.1 (Or.inr ⟨ix, hm, indexFeat_key hxf⟩) hnx
  all_goals rfl

theorem AuxI.trans {w : World} {L : Option (List Link)} {g : Nat} {k3 : Key} {cu : Option Nat} {a b c : St}
    (h1 : AuxI w L g k3 cu a b) (h2 : AuxI w L g k3 cu b c) (hua : UInv a) (hcu : ∀ x, cu = some x → x ∈ uuids a) : AuxI w L g k3 cu a c := by
  have hkeys : ∀ k, k ∈ dkeys a.flp → k ∈ dkeys b.flp := fun k hk => (h1.uinv.keys k).mpr (h1.ext.uuids ((hua.keys k).mp hk))
  refine ⟨Ext.trans h1.ext h2.ext, h2.uinv, ?_, ?_, ?_, ?_, ?_⟩
  · intro u hu
    rcases h2.newu u hu with h3 | h3
    · exact h1.newu u h3
    · exact Or.inr (Nat.le_trans h1.ext.2 h3)
  · intro k hk hne
    rw [h2.frame k (hkeys k hk) hne, h1.frame k hk hne]
  · intro x hx u hu
    rcases h2.sound x hx u hu with h3 | h3
    · rcases h1.sound x hx u h3 with h4 | ⟨e, he, h4⟩
      · exact Or.inl h4
      · exact Or.inr ⟨e, h2.ext.mem he, h4⟩
    · exact Or.inr h3
  · intro x hx u hu hlt
    exact h2.keep x hx u (h1.keep x hx u hu hlt) (Nat.lt_of_lt_of_le hlt h1.ext.2)
  · intro k hk1 hk2
    by_cases hkb : k ∈ dkeys b.flp
    · obtain ⟨q1, q2⟩ := h1.fresh k hk1 hkb
      have hne : cu ≠ some k := by
        intro hh
        exact hk1 ((hua.keys k).mpr (hcu k hh))
      rw [h2.frame k hkb hne]
      refine ⟨q1, ?_⟩
      intro e he hek
      -- an entry of `c` with uuid `k` is the entry of `b` with that uuid
      have hkub : k ∈ uuids b := (h1.uinv.keys k).mp hkb
      obtain ⟨e0, he0, hek0⟩ := mem_uuids.mp hkub
      have : e = e0 := entry_unique h2.uinv.nodup he (h2.ext.mem he0) (by rw [hek, hek0])
      rw [this]; exact q2 e0 he0 hek0
    · exact h2.fresh k hkb hk2

end EngineColl
