import MlodaVerif.Model.Exec
import MlodaVerif.Lemmas.SchedOrder
/-! Invariant of the data-flow model for serialised executors (`atomic = true`). -/

namespace Exec
open Sched

variable {V : Type}

theorem lookup_cons (q : Nat × V) (t : List (Nat × V)) (c : Nat) :
    lookup (q :: t) c = if q.1 = c then some q.2 else lookup t c := by
  simp only [lookup, List.find?_cons]
  by_cases h : q.1 = c
  · simp [h]
  · have : (q.1 == c) = false := by simpa using h
    simp [h, this]

theorem lookup_written (cfg : Cfg V) (snap : List (Nat × V)) (outs : List Nat) (c : Nat) :
    lookup (written cfg snap outs) c =
      if c ∈ outs then some (cfg.compute c ((cfg.parents c).map (lookup snap))) else lookup snap c := by
  unfold written
  induction outs with
  | nil => simp
  | cons o os ih =>
    simp only [List.map_cons, List.cons_append, lookup_cons, List.mem_cons]
    by_cases h : o = c
    · subst h; simp
    · rw [ih]
      have : ¬ (c = o) := fun hh => h hh.symm
      simp [h, this]

/-- steps currently open -/
def Open (s : St) (j : Nat) : Prop := j ∈ s.begun ∧ j ∉ s.done ∧ j ∉ s.failed

theorem isOpen_iff (s : St) (j : Nat) : isOpen s j = true ↔ Open s j := by
  simp [isOpen, Open, and_assoc]

theorem anyOpen_false {s : St} (h : anyOpen s = false) (j : Nat) : ¬ Open s j := by
  intro ho
  simp only [anyOpen, List.any_eq_false] at h
  exact h j ho.1 ((isOpen_iff s j).mpr ho)

structure EInv (cfg : Cfg V) (ref : Nat → V) (p : Plan) (e : ESt V) : Prop where
  sinv : SInv p e.s
  rinv : RInv p e.s
  one_open : ∀ i j, Open e.s i → Open e.s j → i = j
  open_snap : ∀ i, Open e.s i → snapOf e i = e.store
  store_has : ∀ c, (∃ v, lookup e.store c = some v) ↔ ∃ j sj, j ∈ e.s.done ∧ p[j]? = some sj ∧ c ∈ sj.outs
  store_ok : ∀ c v, lookup e.store c = some v → v = ref c

theorem einv_init (cfg : Cfg V) (ref : Nat → V) (p : Plan) : EInv cfg ref p (einit : ESt V) := by
  refine ⟨sinv_init p, ?_, ?_, ?_, ?_, ?_⟩
  · intro i hi; simp [einit, init] at hi
  · intro i j hi; simp [einit, Open] at hi
  · intro i hi; simp [einit, Open] at hi
  · intro c; simp [einit, lookup]
  · intro c v h; simp [einit, lookup] at h

/-- events other than begin/finish change only the scheduler part, and neither `begun`, `done` nor... -/
theorem open_of_scan {p : Plan} {s : St} {i j : Nat} : Open (stepEv p s (.scan i)) j ↔ Open s j := by
  simp only [Open, stepEv]
  repeat' split
  all_goals simp [markFinished]

theorem done_scan {p : Plan} {s : St} {i : Nat} : (stepEv p s (.scan i)).done = s.done := by
  simp only [stepEv]
  repeat' split
  all_goals simp [markFinished]

theorem done_loopHead {p : Plan} {s : St} : (stepEv p s .loopHead).done = s.done := by
  simp only [stepEv]
  repeat' split
  all_goals rfl

theorem open_of_loopHead {p : Plan} {s : St} {j : Nat} : Open (stepEv p s .loopHead) j ↔ Open s j := by
  simp only [Open, stepEv]
  repeat' split
  all_goals simp

theorem done_fail {p : Plan} {s : St} {i : Nat} : (stepEv p s (.fail i)).done = s.done := by
  simp only [stepEv]; split <;> rfl

theorem open_of_fail {p : Plan} {s : St} {i j : Nat} (h : Open (stepEv p s (.fail i)) j) : Open s j := by
  simp only [Open, stepEv] at h
  split at h
  · simp at h; exact ⟨h.1, h.2.1, h.2.2.2⟩
  · exact h

theorem einv_step {cfg : Cfg V} {ref : Nat → V} {p : Plan} (hd : DisjointOuts p)
    (hpc : ParentsCovered p cfg.parents) (href : IsRef cfg ref) {e : ESt V} (hi : EInv cfg ref p e) (ev : Ev) :
    EInv cfg ref p (estep cfg true p e ev) := by
  cases ev with
  | scan i =>
    simp only [estep]
    refine ⟨sinv_step hd hi.sinv (.scan i), rinv_step hi.sinv hi.rinv (.scan i), ?_, ?_, ?_, hi.store_ok⟩
    · intro a b ha hb; exact hi.one_open a b (open_of_scan.mp ha) (open_of_scan.mp hb)
    · intro a ha; exact hi.open_snap a (open_of_scan.mp ha)
    · intro c; rw [hi.store_has c]; simp only [done_scan]
  | loopHead =>
    simp only [estep]
    refine ⟨sinv_step hd hi.sinv .loopHead, rinv_step hi.sinv hi.rinv .loopHead, ?_, ?_, ?_, hi.store_ok⟩
    · intro a b ha hb; exact hi.one_open a b (open_of_loopHead.mp ha) (open_of_loopHead.mp hb)
    · intro a ha; exact hi.open_snap a (open_of_loopHead.mp ha)
    · intro c; rw [hi.store_has c]; simp only [done_loopHead]
  | fail i =>
    simp only [estep]
    refine ⟨sinv_step hd hi.sinv (.fail i), rinv_step hi.sinv hi.rinv (.fail i), ?_, ?_, ?_, hi.store_ok⟩
    · intro a b ha hb; exact hi.one_open a b (open_of_fail (p := p) (i := i) ha) (open_of_fail (p := p) (i := i) hb)
    · intro a ha; exact hi.open_snap a (open_of_fail (p := p) (i := i) ha)
    · intro c; rw [hi.store_has c]; simp only [done_fail]
  | begin i =>
    simp only [estep, Bool.true_and]
    split
    · exact hi
    · rename_i hno
      have hno' : anyOpen e.s = false := by simpa using hno
      have hdone : (stepEv p e.s (.begin i)).done = e.s.done := by
        simp only [stepEv]; split <;> rfl
      split
      · rename_i hnew
        -- i newly begun: the only open step
        have hopen_new : ∀ j, Open (stepEv p e.s (.begin i)) j → j = i := by
          intro j hj
          by_cases hji : j = i
          · exact hji
          · exfalso
            apply anyOpen_false hno' j
            simp only [Open, stepEv] at hj
            split at hj
            · simp at hj
              rcases hj.1 with h | h
              · exact absurd h hji
              · exact ⟨h, hj.2.1, hj.2.2⟩
            · exact hj
        refine ⟨sinv_step hd hi.sinv (.begin i), rinv_step hi.sinv hi.rinv (.begin i), ?_, ?_, ?_, hi.store_ok⟩
        · intro a b ha hb; rw [hopen_new a ha, hopen_new b hb]
        · intro a ha
          have := hopen_new a ha; subst this
          simp [snapOf]
        · intro c; rw [hi.store_has c]; simp only [hdone]
      · rename_i hnot
        -- begin ignored by the scheduler (or already begun): the scheduler state did not gain an open step
        have hsame : stepEv p e.s (.begin i) = e.s := by
          by_cases hc : i ∈ e.s.started ∧ i ∉ e.s.begun ∧ i ∉ e.s.failed
          · exfalso; apply hnot
            refine ⟨?_, hc.2.1⟩
            simp [stepEv, hc.1, hc.2.1, hc.2.2]
          · simp [stepEv, hc]
        simp only [hsame]
        exact hi
  | finish i =>
    simp only [estep]
    split
    · rename_i hnew
      have hcond : i ∈ e.s.begun ∧ i ∉ e.s.done ∧ i ∉ e.s.failed := by
        by_cases hc : i ∈ e.s.begun ∧ i ∉ e.s.done ∧ i ∉ e.s.failed
        · exact hc
        · exfalso; simp only [stepEv, hc, ↓reduceIte] at hnew; exact hnew.2 hnew.1
      have hs' : stepEv p e.s (.finish i) = { e.s with done := i :: e.s.done } := by
        simp only [stepEv, hcond, not_false_eq_true, and_self, ↓reduceIte]
      have hopen_i : Open e.s i := hcond
      have hsnap := hi.open_snap i hopen_i
      have hstarted : i ∈ e.s.started := hi.sinv.begun_sub i hcond.1
      obtain ⟨st, hst⟩ := hi.sinv.started_valid i hstarted
      have houts : estep.outsOf' p i = st.outs := by simp [estep.outsOf', hst]
      refine ⟨sinv_step hd hi.sinv (.finish i), rinv_step hi.sinv hi.rinv (.finish i), ?_, ?_, ?_, ?_⟩
      · intro a b ha hb
        have hA : Open e.s a := by
          rw [hs'] at ha; simp only [Open] at ha ⊢; simp at ha; exact ⟨ha.1, ha.2.1.2, ha.2.2⟩
        have hB : Open e.s b := by
          rw [hs'] at hb; simp only [Open] at hb ⊢; simp at hb; exact ⟨hb.1, hb.2.1.2, hb.2.2⟩
        exact hi.one_open a b hA hB
      · intro a ha
        exfalso
        have hA : Open e.s a := by
          rw [hs'] at ha; simp only [Open] at ha ⊢; simp at ha; exact ⟨ha.1, ha.2.1.2, ha.2.2⟩
        have hai : a = i := hi.one_open a i hA hopen_i
        rw [hs'] at ha; simp only [Open] at ha; simp at ha
        exact ha.2.1.1 hai
      · intro c
        simp only [hsnap, houts, lookup_written, hs']
        constructor
        · rintro ⟨v, hv⟩
          by_cases hc : c ∈ st.outs
          · exact ⟨i, st, by simp, hst, hc⟩
          · simp only [hc, ↓reduceIte] at hv
            obtain ⟨j, sj, h1, h2, h3⟩ := (hi.store_has c).mp ⟨v, hv⟩
            exact ⟨j, sj, by simp [h1], h2, h3⟩
        · rintro ⟨j, sj, h1, h2, h3⟩
          by_cases hc : c ∈ st.outs
          · simp [hc]
          · simp only [hc, ↓reduceIte]
            simp at h1
            rcases h1 with rfl | h1
            · rw [hst] at h2; cases h2; exact absurd h3 hc
            · exact (hi.store_has c).mpr ⟨j, sj, h1, h2, h3⟩
      · intro c v hv
        simp only [hsnap, houts, lookup_written] at hv
        by_cases hc : c ∈ st.outs
        · simp only [hc, ↓reduceIte, Option.some.injEq] at hv
          subst hv
          rw [href c]
          congr 1
          apply List.map_congr_left
          intro a ha
          -- a is a direct parent of c, hence required by step i, hence produced by a done step, hence in the store
          have hreq : a ∈ st.req := hpc i st hst c hc a ha
          obtain ⟨j, sj, hj1, hj2, hj3⟩ := hi.rinv i hstarted st hst a hreq
          obtain ⟨w, hw⟩ := (hi.store_has a).mpr ⟨j, sj, hj3, hj1, hj2⟩
          rw [hw, hi.store_ok a w hw]
        · simp only [hc, ↓reduceIte] at hv
          exact hi.store_ok c v hv
    · rename_i hnot
      have hsame : stepEv p e.s (.finish i) = e.s := by
        by_cases hc : i ∈ e.s.begun ∧ i ∉ e.s.done ∧ i ∉ e.s.failed
        · exfalso; apply hnot
          refine ⟨?_, hc.2.1⟩
          simp [stepEv, hc.1, hc.2.1, hc.2.2]
        · simp [stepEv, hc]
      simp only [hsame]
      exact hi

theorem einv_run {cfg : Cfg V} {ref : Nat → V} {p : Plan} (hd : DisjointOuts p)
    (hpc : ParentsCovered p cfg.parents) (href : IsRef cfg ref) (evs : List Ev) :
    EInv cfg ref p (erun cfg true p einit evs) := by
  suffices ∀ e : ESt V, EInv cfg ref p e → EInv cfg ref p (erun cfg true p e evs) from this _ (einv_init cfg ref p)
  induction evs with
  | nil => intro e h; exact h
  | cons ev es ih => intro e h; exact ih _ (einv_step hd hpc href h ev)

end Exec

namespace Exec
open Sched
variable {V : Type}

theorem estep_s (cfg : Cfg V) (atomic : Bool) (p : Plan) (e : ESt V) (ev : Ev) :
    (estep cfg atomic p e ev).s = e.s ∨ (estep cfg atomic p e ev).s = stepEv p e.s ev := by
  cases ev with
  | scan i => right; rfl
  | loopHead => right; rfl
  | fail i => right; rfl
  | begin i =>
    simp only [estep]
    split
    · left; rfl
    · right; split <;> rfl
  | finish i =>
    simp only [estep]
    right; split <;> rfl

theorem erun_reach (cfg : Cfg V) (atomic : Bool) (p : Plan) (evs : List Ev) :
    Reach p (erun cfg atomic p (einit : ESt V) evs).s := by
  suffices ∀ e : ESt V, Reach p e.s → Reach p (erun cfg atomic p e evs).s from this _ ⟨[], rfl⟩
  induction evs with
  | nil => intro e h; exact h
  | cons ev es ih =>
    intro e h
    apply ih
    rcases estep_s cfg atomic p e ev with h1 | h1
    · rw [h1]; exact h
    · rw [h1]
      obtain ⟨l, hl⟩ := h
      exact ⟨l ++ [ev], by rw [hl]; simp [run, List.foldl_append]⟩

end Exec

namespace Exec
open Sched
variable {V : Type}

/-- every `begin` of the list happens while no step is open (in the un-serialised run): the steps that share the
compute-framework object never overlap -/
def QuietBegins (cfg : Cfg V) (p : Plan) : ESt V → List Ev → Prop
  | _, [] => True
  | e, ev :: rest =>
    (match ev with
     | .begin _ => anyOpen e.s = false
     | _ => True) ∧ QuietBegins cfg p (estep cfg false p e ev) rest

theorem estep_atomic_irrelevant (cfg : Cfg V) (p : Plan) (e : ESt V) (ev : Ev)
    (h : match ev with | .begin _ => anyOpen e.s = false | _ => True) :
    estep cfg true p e ev = estep cfg false p e ev := by
  cases ev with
  | begin i => simp only at h; simp [estep, h]
  | scan i => rfl
  | finish i => rfl
  | fail i => rfl
  | loopHead => rfl

theorem erun_atomic_irrelevant (cfg : Cfg V) (p : Plan) (evs : List Ev) (e : ESt V) (h : QuietBegins cfg p e evs) :
    erun cfg true p e evs = erun cfg false p e evs := by
  induction evs generalizing e with
  | nil => rfl
  | cons ev rest ih =>
    obtain ⟨h1, h2⟩ := h
    simp only [erun, List.foldl_cons]
    rw [estep_atomic_irrelevant cfg p e ev h1]
    exact ih _ h2

end Exec
