import MlodaVerif.Lemmas.GraphDfs
import MlodaVerif.Lemmas.LifeGen
import MlodaVerif.Lemmas.PyRt
import MlodaVerif.Gen.GraphGen
/-! # Bridge between the translation of `Graph` (`Gen/GraphGen.lean`) and the hand-written `Model/Graph.lean`

`abs : GraphSelf → Graph.G` (Python values ↦ model): the keys of `nodes` / `edges`, the defaultdicts as they are,
`visited` reversed (the model keeps the most recently visited node first).  The dict primitives of `PyRtDict` / `PyRtObj`
against `Graph.dget` / `dset` / `dtouch` / `dadd` / `dappend`. -/
namespace GraphGen
open Graph PyRt Gen.GraphGen

def abs (s : GraphSelf) : G :=
  { nodes := s.nodes.map (·.1), edges := s.edges.map (·.1), adj := s.adjacency_list, roots := s.roots, queue := s.queue,
    visited := s.visited.reverse, pbd := s.parents_by_direct_, p2c := s.parent_to_children_mapping, cwr := s.child_with_root }

/-! ### dict primitives -/

theorem get_eq (d : Dict) (k : Nat) : DDict.get d k = dget d k := by
  induction d with
  | nil => rfl
  | cons a t ih =>
    obtain ⟨k', v⟩ := a
    unfold DDict.get at ih ⊢
    by_cases h : k' = k <;> simp [NDict.get?, dget, h, ih]

theorem set_eq (d : Dict) (k : Nat) (v : List Nat) : NDict.set d k v = dset d k v := by
  induction d with
  | nil => rfl
  | cons a t ih =>
    obtain ⟨k', v'⟩ := a
    by_cases h : k' = k <;> simp [NDict.set, dset, h, ih]

theorem read_eq (d : Dict) (k : Nat) : DDict.read d k = (dget d k, dtouch d k) := by
  simp [DDict.read, dtouch, get_eq, set_eq]

theorem appendAt_eq (d : Dict) (k x : Nat) : DDict.appendAt d k x = dappend d k x := by
  simp [DDict.appendAt, dappend, get_eq, set_eq]

theorem addAt_eq (d : Dict) (k x : Nat) : DDict.addAt d k x = dadd d k x := by
  simp [DDict.addAt, dadd, get_eq, set_eq]; rfl

theorem union_eq (a b : List Nat) : PSet.union a b = sunion a b := rfl
theorem add_eq (a : List Nat) (x : Nat) : PSet.add a x = sadd a x := rfl

theorem incr_eq (d : List (Nat × Nat)) (k : Nat) : IDict.incr d k 1 = incr d k := by
  induction d with
  | nil => rfl
  | cons a t ih =>
    obtain ⟨k', n⟩ := a
    unfold IDict.incr IDict.get at ih ⊢
    by_cases h : k' = k
    · subst h; simp [NDict.set, NDict.get?, incr]
    · simp [NDict.set, NDict.get?, incr, h, ih]

theorem iget_eq (d : List (Nat × Nat)) (k : Nat) : IDict.get d k = iget d k := by
  induction d with
  | nil => rfl
  | cons a t ih =>
    obtain ⟨k', n⟩ := a
    unfold IDict.get at ih ⊢
    by_cases h : k' = k <;> simp [NDict.get?, iget, h, ih]

/-- a defaultdict(int) read does not change any later read -/
theorem iget_touch (d : List (Nat × Nat)) (k k' : Nat) : IDict.get (NDict.set d k (IDict.get d k)) k' = IDict.get d k' := by
  induction d with
  | nil =>
    by_cases h : k = k' <;> simp [IDict.get, NDict.set, NDict.get?, h]
  | cons a t ih =>
    obtain ⟨k0, n⟩ := a
    unfold IDict.get at ih ⊢
    by_cases h : k0 = k
    · subst h
      by_cases h2 : k0 = k' <;> simp [NDict.set, NDict.get?, h2]
    · by_cases h2 : k0 = k'
      · subst h2; simp [NDict.set, NDict.get?, h]
      · simp [NDict.set, NDict.get?, h, h2, ih]

/-- keys after `d[k] = v` on a dict of ids -/
theorem keys_set {V : Type} (d : NDict V) (k : Nat) (v : V) : (NDict.set d k v).map (·.1) = sadd (d.map (·.1)) k := by
  induction d with
  | nil => rfl
  | cons a t ih =>
    obtain ⟨k', v'⟩ := a
    by_cases h : k' = k
    · subst h; simp [NDict.set, sadd]
    · have hk : ¬ k = k' := fun e => h e.symm
      simp only [NDict.set, beq_iff_eq, h, if_false, List.map_cons, ih, sadd, List.mem_cons, hk, false_or]
      split <;> simp

theorem keys_aset {K V : Type} [DecidableEq K] (d : ADict K V) (k : K) (v : V) :
    (ADict.set d k v).map (·.1) = if k ∈ d.map (·.1) then d.map (·.1) else d.map (·.1) ++ [k] := by
  induction d with
  | nil => simp [ADict.set]
  | cons a t ih =>
    obtain ⟨k', v'⟩ := a
    by_cases h : k' = k
    · subst h; simp [ADict.set]
    · have hk : ¬ k = k' := fun e => h e.symm
      simp only [ADict.set, h, if_false, List.map_cons, ih, List.mem_cons, hk, false_or]
      split <;> simp

/-! ### errors -/

def toExc : Graph.Err → PyExc
  | .recursion => .recursion
  | .dictChanged => .runtimeError "dictionary changed size during iteration"

def lift {α β : Type} (f : α → β) : Except Graph.Err α → Except PyExc β
  | .ok a => .ok (f a)
  | .error e => .error (toExc e)

/-! ### `dfs` -/

/-- `if child not in self.visited: self.queue.append(child)` -/
def pushPy (s : GraphSelf) (child : Nat) : GraphSelf :=
  if (!PSet.has s.visited child) = true then { s with queue := s.queue ++ [child] } else s

/-- one round of the loop of `dfs` -/
def kidStep (fuel : Nat) (s : GraphSelf) (child : Nat) : Except PyExc GraphSelf := Gen.GraphGen.dfs (pushPy s child) child fuel

theorem dfs_zero (s : GraphSelf) (node : Nat) : Gen.GraphGen.dfs s node 0 = .error .recursion := by
  rw [Gen.GraphGen.dfs]; rfl

theorem dfs_succ' (s : GraphSelf) (node fuel : Nat) :
    Gen.GraphGen.dfs s node (fuel + 1) =
      if PSet.has s.visited node = true then .ok s
      else (dget s.adjacency_list node).foldlM (kidStep fuel)
        { s with visited := PSet.add s.visited node, adjacency_list := dtouch s.adjacency_list node } := by
  rw [Gen.GraphGen.dfs]
  simp only [bind, Except.bind, pure, Except.pure, read_eq]
  split
  · rfl
  · rw [LifeGen.forIn_foldlM _ _ _ (kidStep fuel)]
    · cases List.foldlM (kidStep fuel) _ (dget s.adjacency_list node) <;> rfl
    · intro a st
      simp only [kidStep, pushPy]
      split
      · cases Gen.GraphGen.dfs _ a fuel <;> rfl
      · cases Gen.GraphGen.dfs st a fuel <;> rfl

/-- the state after the model's DFS state `ds` was reached from `s` by visiting `new` (most recent first) -/
def after (s : GraphSelf) (new : List Nat) (q : List Nat) : GraphSelf :=
  { s with visited := s.visited ++ new.reverse, queue := q, adjacency_list := touchAll s.adjacency_list new.reverse }

/-- what a run of the translated DFS (or of its loop) is in terms of the model's -/
def DfsRel (s : GraphSelf) (r : Except PyExc GraphSelf) (m : Option DS) : Prop :=
  match m with
  | none => r = .error .recursion
  | some ds => ∃ new, ds.vis = new ++ s.visited.reverse ∧ r = .ok (after s new ds.queue)

theorem after_pushPy (s : GraphSelf) (c : Nat) (new q : List Nat) : after (pushPy s c) new q = after s new q := by
  unfold pushPy after; split <;> rfl

theorem after_after (s : GraphSelf) (new new' q q' : List Nat) : after (after s new q) new' q' = after s (new' ++ new) q' := by
  simp [after, touchAll, List.reverse_append, List.foldl_append, List.append_assoc]

theorem dfs_bridge (ch : Nat → List Nat) : ∀ (fuel : Nat) (s : GraphSelf) (node : Nat), (∀ k, dget s.adjacency_list k = ch k) →
    DfsRel s (Gen.GraphGen.dfs s node fuel) (Graph.dfs ch fuel node ⟨s.visited.reverse, s.queue⟩) := by
  intro fuel
  induction fuel with
  | zero => intro s node _; simp [DfsRel, dfs_zero, Graph.dfs]
  | succ fuel ih =>
    -- the loop over the children, for the given fuel
    have kids : ∀ (cs : List Nat) (s : GraphSelf), (∀ k, dget s.adjacency_list k = ch k) →
        DfsRel s (cs.foldlM (kidStep fuel) s) (dfsKids ch fuel cs ⟨s.visited.reverse, s.queue⟩) := by
      intro cs
      induction cs with
      | nil => intro s _; exact ⟨[], by simp, by simp [after, touchAll, pure, Except.pure]⟩
      | cons c cs ihc =>
        intro s hch
        rw [dfsKids_cons, List.foldlM_cons]
        have hp : (⟨(pushPy s c).visited.reverse, (pushPy s c).queue⟩ : DS) = push ⟨s.visited.reverse, s.queue⟩ c := by
          unfold pushPy push
          by_cases h : c ∈ s.visited <;> simp [PSet.has, h]
        have hadj : (pushPy s c).adjacency_list = s.adjacency_list := by unfold pushPy; split <;> rfl
        have hvis : (pushPy s c).visited = s.visited := by unfold pushPy; split <;> rfl
        have h1 := ih (pushPy s c) c (by rw [hadj]; exact hch)
        rw [hp] at h1
        have hks : kidStep fuel s c = Gen.GraphGen.dfs (pushPy s c) c fuel := rfl
        rw [hks]
        cases hm : Graph.dfs ch fuel c (push ⟨s.visited.reverse, s.queue⟩ c) with
        | none =>
          rw [hm] at h1
          simp only [DfsRel] at h1
          simp [DfsRel, h1, bind, Except.bind]
        | some ds =>
          rw [hm] at h1
          obtain ⟨new, hnew, hr⟩ := h1
          simp only [Option.bind_some, bind, Except.bind, hr]
          have hch' : ∀ k, dget (after (pushPy s c) new ds.queue).adjacency_list k = ch k := by
            intro k; simp only [after, dget_touchAll, hadj, hch k]
          have h2 := ihc (after (pushPy s c) new ds.queue) hch'
          have hst : (⟨(after (pushPy s c) new ds.queue).visited.reverse, (after (pushPy s c) new ds.queue).queue⟩ : DS) = ds := by
            cases ds; simp only [after, hvis] at hnew ⊢; simp [hnew]
          rw [hst] at h2
          cases hk : dfsKids ch fuel cs ds with
          | none => rw [hk] at h2; exact h2
          | some ds' =>
            rw [hk] at h2
            obtain ⟨new', hnew', hr'⟩ := h2
            refine ⟨new' ++ new, ?_, ?_⟩
            · simp only [after, hvis, List.reverse_append, List.reverse_reverse] at hnew'
              rw [hnew', List.append_assoc]
            · rw [hr', after_pushPy, after_after]
    intro s node hch
    rw [dfs_succ', dfs_succ]
    by_cases hv : node ∈ s.visited
    · have hv' : node ∈ s.visited.reverse := by simpa using hv
      simp only [PSet.has, hv, decide_true, if_true, hv']
      exact ⟨[], by simp, by simp [after, touchAll]⟩
    · have hv' : ¬ node ∈ s.visited.reverse := by simpa using hv
      simp only [PSet.has, hv, decide_false, Bool.false_eq_true, if_false, hv']
      have hadd : PSet.add s.visited node = s.visited ++ [node] := by simp [PSet.add, hv]
      rw [hadd, hch node]
      have hch1 : ∀ k, dget ({ s with visited := s.visited ++ [node], adjacency_list := dtouch s.adjacency_list node } : GraphSelf).adjacency_list k = ch k := by
        intro k; simp only [dget_dtouch, hch k]
      have h := kids (ch node) { s with visited := s.visited ++ [node], adjacency_list := dtouch s.adjacency_list node } hch1
      simp only [List.reverse_append, List.reverse_cons, List.reverse_nil, List.nil_append, List.singleton_append] at h
      cases hk : dfsKids ch fuel (ch node) { vis := node :: s.visited.reverse, queue := s.queue } with
      | none => rw [hk] at h; exact h
      | some ds =>
        rw [hk] at h
        obtain ⟨new, hnew, hr⟩ := h
        refine ⟨new ++ [node], by simp [hnew], ?_⟩
        rw [hr]
        simp [after, touchAll, List.reverse_append, List.foldl_append, List.append_assoc]
/-! ### `iterate_nodes_and_edges` -/

/-- one round of the comprehension `[node for node in self.nodes if in_degree[node] == 0]` on `(in_degree, result)` -/
def rootStepC (node : Nat) (st : NDict Nat × List Nat) : NDict Nat × List Nat :=
  if ((IDict.read st.1 node).1 == 0) = true then ((IDict.read st.1 node).2, st.2 ++ [node]) else ((IDict.read st.1 node).2, st.2)

theorem rootsComp (deg : List (Nat × Nat)) : ∀ (ks : List Nat) (st : NDict Nat × List Nat), (∀ k, IDict.get st.1 k = iget deg k) →
    (ks.foldl (fun st node => rootStepC node st) st).2 = st.2 ++ ks.filter (fun n => iget deg n == 0) := by
  intro ks
  induction ks with
  | nil => intro st _; simp
  | cons a t ih =>
    intro st h
    simp only [List.foldl_cons]
    have h' : ∀ k, IDict.get (rootStepC a st).1 k = iget deg k := by
      intro k
      unfold rootStepC
      split <;> simp only [IDict.read, iget_touch, h k]
    rw [ih _ h']
    unfold rootStepC
    simp only [IDict.read, h a, List.filter_cons]
    by_cases hz : iget deg a = 0 <;> simp [hz]

theorem inner_incr (children : List Nat) (deg : List (Nat × Nat)) :
    forIn children deg (fun child r => (Except.ok (ForInStep.yield (IDict.incr r child 1)) : Except PyExc _)) = .ok (children.foldl incr deg) := by
  rw [PyRt.forIn_yield_spec children _ (fun child r => IDict.incr r child 1) (fun _ _ => rfl)]
  congr 1
  induction children generalizing deg with
  | nil => rfl
  | cons a t ih => simp [List.foldl_cons, incr_eq, ih]

theorem create_in_degree_eq (s : GraphSelf) : create_in_degree s = .ok (createInDegree s.adjacency_list) := by
  unfold create_in_degree createInDegree
  simp only [bind, Except.bind, pure, Except.pure, inner_incr]
  rw [PyRt.forIn_yield_spec s.adjacency_list _ (fun (e : Nat × List Nat) deg => e.2.foldl incr deg)]
  · intro a r; rfl

/-- the loop over the roots -/
theorem rootsRel (ch : Nat → List Nat) (fuel : Nat) : ∀ (rs : List Nat) (s : GraphSelf), (∀ k, dget s.adjacency_list k = ch k) →
    DfsRel s (rs.foldlM (fun s r => Gen.GraphGen.dfs s r fuel) s) (rs.foldlM (fun ds r => Graph.dfs ch fuel r ds) ⟨s.visited.reverse, s.queue⟩) := by
  intro rs
  induction rs with
  | nil => intro s _; exact ⟨[], by simp, by simp [after, touchAll, pure, Except.pure]⟩
  | cons c cs ihc =>
    intro s hch
    simp only [List.foldlM_cons]
    have h1 := dfs_bridge ch fuel s c hch
    cases hm : Graph.dfs ch fuel c ⟨s.visited.reverse, s.queue⟩ with
    | none =>
      rw [hm] at h1
      simp only [DfsRel] at h1
      simp [DfsRel, h1, bind, Except.bind, Option.bind]
    | some ds =>
      rw [hm] at h1
      obtain ⟨new, hnew, hr⟩ := h1
      simp only [bind, Except.bind, hr, Option.bind]
      have hch' : ∀ k, dget (after s new ds.queue).adjacency_list k = ch k := by
        intro k; simp only [after, dget_touchAll, hch k]
      have h2 := ihc (after s new ds.queue) hch'
      have hst : (⟨(after s new ds.queue).visited.reverse, (after s new ds.queue).queue⟩ : DS) = ds := by
        cases ds; simp only [after] at hnew ⊢; simp [hnew]
      rw [hst] at h2
      cases hk : cs.foldlM (fun ds r => Graph.dfs ch fuel r ds) ds with
      | none => rw [hk] at h2; exact h2
      | some ds' =>
        rw [hk] at h2
        obtain ⟨new', hnew', hr'⟩ := h2
        refine ⟨new' ++ new, ?_, ?_⟩
        · simp only [after, List.reverse_append, List.reverse_reverse] at hnew'
          rw [hnew', List.append_assoc]
        · rw [hr', after_after]
/-! ### `get_direct_parents_for_each_child` / `set_direct_parents_for_each_child` -/

/-- one round of the loop of `get_direct_parents_for_each_child` -/
def dirStep (fuel parent : Nat) (s : GraphSelf) (child : Nat) : Except PyExc GraphSelf :=
  get_direct_parents_for_each_child
    { s with parents_by_direct_ := dadd s.parents_by_direct_ child parent, adjacency_list := dtouch s.adjacency_list child }
    child (dget s.adjacency_list child) fuel

theorem direct_zero (s : GraphSelf) (p : Nat) (cs : List Nat) : get_direct_parents_for_each_child s p cs 0 = .error .recursion := by
  rw [get_direct_parents_for_each_child]; rfl

theorem direct_succ (s : GraphSelf) (p : Nat) (cs : List Nat) (fuel : Nat) :
    get_direct_parents_for_each_child s p cs (fuel + 1) = cs.foldlM (dirStep fuel p) s := by
  rw [get_direct_parents_for_each_child]
  simp only [bind, Except.bind, pure, Except.pure, read_eq, addAt_eq]
  rw [LifeGen.forIn_foldlM _ _ _ (dirStep fuel p)]
  · cases List.foldlM (dirStep fuel p) s cs <;> rfl
  · intro a st
    simp only [dirStep]
    cases get_direct_parents_for_each_child _ a (dget st.adjacency_list a) fuel <;> rfl

/-- the state after the model's recursion state `ps` was reached from `s`, having read the keys `new` (most recent first) -/
def afterD (s : GraphSelf) (new : List Nat) (pbd : Dict) : GraphSelf :=
  { s with parents_by_direct_ := pbd, adjacency_list := touchAll s.adjacency_list new.reverse }

def DirRel (s : GraphSelf) (tch : List Nat) (r : Except PyExc GraphSelf) (m : Option PS) : Prop :=
  match m with
  | none => r = .error .recursion
  | some ps => ∃ new, ps.tch = new ++ tch ∧ r = .ok (afterD s new ps.pbd)

theorem afterD_afterD (s : GraphSelf) (new new' : List Nat) (p p' : Dict) : afterD (afterD s new p) new' p' = afterD s (new' ++ new) p' := by
  simp [afterD, touchAll, List.reverse_append, List.foldl_append]

theorem direct_bridge (ch : Nat → List Nat) : ∀ (fuel : Nat) (s : GraphSelf) (parent : Nat) (children tch : List Nat),
    (∀ k, dget s.adjacency_list k = ch k) →
    DirRel s tch (get_direct_parents_for_each_child s parent children fuel) (directGo ch fuel parent children ⟨s.parents_by_direct_, tch⟩) := by
  intro fuel
  induction fuel with
  | zero => intro s p cs tch _; simp [DirRel, direct_zero, directGo]
  | succ fuel ih =>
    intro s parent children
    rw [direct_succ]
    induction children generalizing s with
    | nil => intro tch _; exact ⟨[], by simp [directGo], by simp [afterD, touchAll, pure, Except.pure, directGo]⟩
    | cons c cs ihc =>
      intro tch hch
      simp only [directGo, List.foldlM_cons] at ihc ⊢
      have hch1 : ∀ k, dget ({ s with parents_by_direct_ := dadd s.parents_by_direct_ c parent, adjacency_list := dtouch s.adjacency_list c } : GraphSelf).adjacency_list k = ch k := by
        intro k; simp only [dget_dtouch, hch k]
      have h1 := ih { s with parents_by_direct_ := dadd s.parents_by_direct_ c parent, adjacency_list := dtouch s.adjacency_list c } c (ch c) (c :: tch) hch1
      have hks : dirStep fuel parent s c = get_direct_parents_for_each_child
          { s with parents_by_direct_ := dadd s.parents_by_direct_ c parent, adjacency_list := dtouch s.adjacency_list c } c (ch c) fuel := by
        simp only [dirStep, hch c]
      rw [hks]
      cases hm : directGo ch fuel c (ch c) ⟨dadd s.parents_by_direct_ c parent, c :: tch⟩ with
      | none =>
        rw [hm] at h1
        simp only [DirRel] at h1
        simp [DirRel, h1, bind, Except.bind, Option.bind]
      | some ps =>
        rw [hm] at h1
        obtain ⟨new, hnew, hr⟩ := h1
        simp only [bind, Except.bind, hr, Option.bind]
        have hch' : ∀ k, dget (afterD { s with parents_by_direct_ := dadd s.parents_by_direct_ c parent, adjacency_list := dtouch s.adjacency_list c } new ps.pbd).adjacency_list k = ch k := by
          intro k; simp only [afterD, dget_touchAll, dget_dtouch, hch k]
        have h2 := ihc (afterD { s with parents_by_direct_ := dadd s.parents_by_direct_ c parent, adjacency_list := dtouch s.adjacency_list c } new ps.pbd) ps.tch hch'
        have hps : (⟨(afterD { s with parents_by_direct_ := dadd s.parents_by_direct_ c parent, adjacency_list := dtouch s.adjacency_list c } new ps.pbd).parents_by_direct_, ps.tch⟩ : PS) = ps := by
          cases ps; rfl
        rw [hps] at h2
        cases hk : cs.foldlM (fun s child => directGo ch fuel child (ch child) ⟨dadd s.pbd child parent, child :: s.tch⟩) ps with
        | none => rw [hk] at h2; exact h2
        | some ps' =>
          rw [hk] at h2
          obtain ⟨new', hnew', hr'⟩ := h2
          refine ⟨new' ++ new ++ [c], ?_, ?_⟩
          · rw [hnew', hnew]; simp
          · rw [hr', afterD_afterD]
            simp [afterD, touchAll, List.reverse_append, List.foldl_append]
/-- one round of the loop of `set_direct_parents_for_each_child`; `n0` = the size of the dict when the loop began -/
def setDirStep (fuel n0 : Nat) (s : GraphSelf) (x : Nat × List Nat) : Except PyExc GraphSelf :=
  match get_direct_parents_for_each_child s x.1 x.2 fuel with
  | .error e => .error e
  | .ok v =>
    if (v.adjacency_list.length != n0) = true then .error (.runtimeError "dictionary changed size during iteration")
    else .ok v

theorem touchAll_same_length {d : Dict} {ks : List Nat} (h : (touchAll d ks).length = d.length) : touchAll d ks = d :=
  touchAll_of_mem (mem_dkeys_of_touchAll_length h)

theorem setDirect_loop (fuel : Nat) (adj0 : Dict) : ∀ (rest : List (Nat × List Nat)) (s : GraphSelf), s.adjacency_list = adj0 →
    rest.foldlM (setDirStep fuel adj0.length) s =
      match setDirectLoop fuel adj0 rest s.parents_by_direct_ with
      | .error e => .error (toExc e)
      | .ok pbd => .ok { s with parents_by_direct_ := pbd } := by
  intro rest
  induction rest with
  | nil => intro s _; simp [setDirectLoop, pure, Except.pure]
  | cons x rest ih =>
    intro s hs
    obtain ⟨parent, children⟩ := x
    simp only [List.foldlM_cons, setDirectLoop, bind, Except.bind, setDirStep]
    have h1 := direct_bridge (dget adj0) fuel s parent children [] (by intro k; rw [hs])
    cases hm : directGo (dget adj0) fuel parent children ⟨s.parents_by_direct_, []⟩ with
    | none =>
      rw [hm] at h1
      simp only [DirRel] at h1
      simp [h1, toExc]
    | some ps =>
      rw [hm] at h1
      obtain ⟨new, hnew, hr⟩ := h1
      simp only [List.append_nil] at hnew
      simp only [hr, afterD, hs, hnew]
      by_cases hlen : (touchAll adj0 new.reverse).length = adj0.length
      · have hsame := touchAll_same_length hlen
        simp only [hlen, bne_self_eq_false, Bool.false_eq_true, if_false, ne_eq, not_true_eq_false]
        rw [hsame]
        have := ih { s with parents_by_direct_ := ps.pbd, adjacency_list := adj0 } rfl
        simp only [this]
      · have hb : ((touchAll adj0 new.reverse).length != adj0.length) = true := by simpa using hlen
        simp [hb, hlen, toExc]
/-! ### `get_all_parents_for_each_child` / `set_all_parents_for_each_child` -/

/-- one round of the loop of `get_all_parents_for_each_child` on `(self, result_set)` -/
def allStep (fuel c : Nat) (st : GraphSelf × List Nat) (parent : Nat) : Except PyExc (GraphSelf × List Nat) :=
  match get_all_parents_for_each_child { st.1 with parents_by_direct_ := dtouch st.1.parents_by_direct_ parent } c
      (dget st.1.parents_by_direct_ parent) fuel with
  | .error e => .error e
  | .ok v => .ok (v.2, PSet.union st.2 v.1)

theorem all_zero (s : GraphSelf) (c : Nat) (ps : List Nat) : get_all_parents_for_each_child s c ps 0 = .error .recursion := by
  rw [get_all_parents_for_each_child]; rfl

theorem all_succ (s : GraphSelf) (c : Nat) (ps : List Nat) (fuel : Nat) :
    get_all_parents_for_each_child s c ps (fuel + 1) =
      if ps.isEmpty then .ok (ps, s)
      else match ps.foldlM (allStep fuel c) (s, []) with
        | .error e => .error e
        | .ok v => .ok (PSet.union ps v.2, v.1) := by
  rw [get_all_parents_for_each_child]
  simp only [bind, Except.bind, pure, Except.pure, read_eq, PSet.truthy]
  cases ps with
  | nil => rfl
  | cons a t =>
    simp only [List.isEmpty_cons, Bool.not_false, Bool.not_true, Bool.false_eq_true, if_false]
    rw [LifeGen.forIn_foldlM _ _ _ (allStep fuel c)]
    · cases List.foldlM (allStep fuel c) (s, []) (a :: t) <;> rfl
    · intro p st
      simp only [allStep]
      cases get_all_parents_for_each_child _ c (dget st.1.parents_by_direct_ p) fuel <;> rfl

/-- a run of the translated recursion against the model's: same set; the dict afterwards is the old one with the keys `tch`
read (in this order), and the keys read are exactly the elements of the returned set -/
def AllRel (s : GraphSelf) (r : Except PyExc (List Nat × GraphSelf)) (m : Option (List Nat)) : Prop :=
  match m with
  | none => r = .error .recursion
  | some res => ∃ tch, r = .ok (res, { s with parents_by_direct_ := touchAll s.parents_by_direct_ tch }) ∧ ∀ x, x ∈ tch ↔ x ∈ res

theorem touch_touch (d : Dict) (a b : List Nat) : touchAll (touchAll d a) b = touchAll d (a ++ b) := by
  simp [touchAll, List.foldl_append]

theorem all_bridge (pb : Nat → List Nat) (c : Nat) : ∀ (fuel : Nat) (s : GraphSelf) (ps : List Nat),
    (∀ k, dget s.parents_by_direct_ k = pb k) →
    AllRel s (get_all_parents_for_each_child s c ps fuel) (allGo pb fuel ps) := by
  intro fuel
  induction fuel with
  | zero => intro s ps _; simp [AllRel, all_zero, allGo]
  | succ fuel ih =>
    -- the loop: accumulator `acc`, touched so far
    have loop : ∀ (l : List Nat) (s : GraphSelf) (acc : List Nat), (∀ k, dget s.parents_by_direct_ k = pb k) →
        match l.foldlM (fun acc p => (allGo pb fuel (pb p)).map (sunion acc)) acc with
        | none => l.foldlM (allStep fuel c) (s, acc) = .error .recursion
        | some rs => ∃ tch, l.foldlM (allStep fuel c) (s, acc) = .ok ({ s with parents_by_direct_ := touchAll s.parents_by_direct_ tch }, rs) ∧
            ∀ x, (x ∈ tch ∨ x ∈ acc) ↔ (x ∈ rs ∨ x ∈ l) := by
      intro l
      induction l with
      | nil =>
        intro s acc _
        exact ⟨[], by simp [touchAll, pure, Except.pure], by simp⟩
      | cons p l ihl =>
        intro s acc hpb
        simp only [List.foldlM_cons]
        have hpb1 : ∀ k, dget ({ s with parents_by_direct_ := dtouch s.parents_by_direct_ p } : GraphSelf).parents_by_direct_ k = pb k := by
          intro k; simp only [dget_dtouch, hpb k]
        have h1 := ih { s with parents_by_direct_ := dtouch s.parents_by_direct_ p } (pb p) hpb1
        cases hm : allGo pb fuel (pb p) with
        | none =>
          rw [hm] at h1
          simp only [AllRel] at h1
          simp only [Option.map_none, Option.bind_none, bind]
          simp [allStep, hpb p, h1, Except.bind]
        | some res =>
          rw [hm] at h1
          obtain ⟨tch, hr, hmem⟩ := h1
          simp only [Option.map_some, Option.bind_some, bind]
          have hstep : allStep fuel c (s, acc) p = .ok ({ s with parents_by_direct_ := touchAll (dtouch s.parents_by_direct_ p) tch }, sunion acc res) := by
            simp [allStep, hpb p, hr, union_eq]
          simp only [hstep, Except.bind]
          have hpb2 : ∀ k, dget ({ s with parents_by_direct_ := touchAll (dtouch s.parents_by_direct_ p) tch } : GraphSelf).parents_by_direct_ k = pb k := by
            intro k; simp only [dget_touchAll, dget_dtouch, hpb k]
          have h2 := ihl { s with parents_by_direct_ := touchAll (dtouch s.parents_by_direct_ p) tch } (sunion acc res) hpb2
          cases hk : l.foldlM (fun acc p => (allGo pb fuel (pb p)).map (sunion acc)) (sunion acc res) with
          | none => rw [hk] at h2; exact h2
          | some rs =>
            rw [hk] at h2
            obtain ⟨tch', hr', hmem'⟩ := h2
            refine ⟨p :: tch ++ tch', ?_, ?_⟩
            · rw [hr']
              have : touchAll (touchAll (dtouch s.parents_by_direct_ p) tch) tch' = touchAll s.parents_by_direct_ (p :: tch ++ tch') := by
                rw [touch_touch]; rfl
              simp only [this]
            · intro x
              have := hmem' x
              simp only [mem_sunion] at this
              simp only [List.mem_append, List.mem_cons, hmem x]
              grind
    intro s ps hpb
    rw [all_succ]
    simp only [allGo]
    cases hps : ps with
    | nil => exact ⟨[], by simp [touchAll], by simp⟩
    | cons a t =>
      simp only [List.isEmpty_cons, Bool.false_eq_true, if_false]
      have h := loop (a :: t) s [] hpb
      cases hk : (a :: t).foldlM (fun acc p => (allGo pb fuel (pb p)).map (sunion acc)) [] with
      | none =>
        rw [hk] at h
        simp only [AllRel, h]
      | some rs =>
        rw [hk] at h
        obtain ⟨tch, hr, hmem⟩ := h
        refine ⟨tch, by simp only [hr, union_eq], ?_⟩
        intro x
        have := hmem x
        simp only [List.not_mem_nil, or_false] at this
        rw [this, mem_sunion, or_comm]
/-- one round of the loop of `set_all_parents_for_each_child` -/
def setAllStep (fuel : Nat) (s : GraphSelf) (x : Nat × List Nat) : Except PyExc GraphSelf :=
  match get_all_parents_for_each_child s x.1 x.2 fuel with
  | .error e => .error e
  | .ok v => .ok { v.2 with parent_to_children_mapping := NDict.set v.2.parent_to_children_mapping x.1 (PSet.union v.1 x.2) }

/-- the object after keys `tch` of `parents_by_direct_` were read and `parent_to_children_mapping` became `p2c` -/
def afterAll (s : GraphSelf) (tch : List Nat) (p2c : Dict) : GraphSelf :=
  { s with parent_to_children_mapping := p2c, parents_by_direct_ := touchAll s.parents_by_direct_ tch }

theorem setAll_loop (fuel : Nat) (pb : Nat → List Nat) : ∀ (rest : List (Nat × List Nat)) (s : GraphSelf) (T : List Nat),
    (∀ k, dget s.parents_by_direct_ k = pb k) →
    match setAllLoop fuel pb rest (s.parent_to_children_mapping, T) with
    | none => rest.foldlM (setAllStep fuel) s = .error .recursion
    | some r => ∃ tch, rest.foldlM (setAllStep fuel) s = .ok (afterAll s tch r.1) ∧
        ∀ x, x ∈ r.2 ↔ x ∈ T ∨ x ∈ tch := by
  intro rest
  induction rest with
  | nil => intro s T _; exact ⟨[], by simp [afterAll, touchAll, pure, Except.pure, setAllLoop], by simp [setAllLoop]⟩
  | cons x rest ih =>
    intro s T hpb
    obtain ⟨child, parents⟩ := x
    simp only [List.foldlM_cons, setAllLoop, bind, Except.bind, setAllStep]
    have h1 := all_bridge pb child fuel s parents hpb
    cases hm : allGo pb fuel parents with
    | none =>
      rw [hm] at h1
      simp only [AllRel] at h1
      simp [h1]
    | some res =>
      rw [hm] at h1
      obtain ⟨tch, hr, hmem⟩ := h1
      simp only [hr, set_eq, union_eq]
      have hpb' : ∀ k, dget (afterAll s tch (dset s.parent_to_children_mapping child (sunion res parents))).parents_by_direct_ k = pb k := by
        intro k; simp only [afterAll, dget_touchAll, hpb k]
      have h2 := ih (afterAll s tch (dset s.parent_to_children_mapping child (sunion res parents))) (sunion T res) hpb'
      have hp2c : (afterAll s tch (dset s.parent_to_children_mapping child (sunion res parents))).parent_to_children_mapping =
          dset s.parent_to_children_mapping child (sunion res parents) := rfl
      rw [hp2c] at h2
      cases hk : setAllLoop fuel pb rest (dset s.parent_to_children_mapping child (sunion res parents), sunion T res) with
      | none => rw [hk] at h2; exact h2
      | some r =>
        rw [hk] at h2
        obtain ⟨tch', hr', hmem'⟩ := h2
        refine ⟨tch ++ tch', ?_, ?_⟩
        · show List.foldlM (setAllStep fuel) (afterAll s tch (dset s.parent_to_children_mapping child (sunion res parents))) rest = _
          rw [hr']; simp only [afterAll, touch_touch]
        · intro y
          rw [hmem' y, mem_sunion, List.mem_append, ← hmem y, or_assoc]
/-! ### `set_root_parents_by_direct_` -/

/-- one round of the inner loop of `set_root_parents_by_direct_` -/
def rootStep (child : Nat) (parent : Nat) (s : GraphSelf) : GraphSelf :=
  if PSet.has s.roots parent = true then { s with child_with_root := DDict.addAt s.child_with_root child parent } else s

theorem rootInner (child : Nat) (parents : List Nat) : ∀ (s : GraphSelf),
    parents.foldl (fun s p => rootStep child p s) s =
      { s with child_with_root := parents.foldl (fun cwr p => if p ∈ s.roots then dadd cwr child p else cwr) s.child_with_root } := by
  induction parents with
  | nil => intro s; rfl
  | cons a t ih =>
    intro s
    simp only [List.foldl_cons]
    rw [ih]
    unfold rootStep
    by_cases h : a ∈ s.roots <;> simp [PSet.has, h, addAt_eq]

theorem rootOuter (l : List (Nat × List Nat)) : ∀ (s : GraphSelf),
    l.foldl (fun s (e : Nat × List Nat) => e.2.foldl (fun s p => rootStep e.1 p s) s) s =
      { s with child_with_root := setRootsLoop s.roots l s.child_with_root } := by
  induction l with
  | nil => intro s; rfl
  | cons a t ih =>
    intro s
    obtain ⟨c, ps⟩ := a
    simp only [List.foldl_cons]
    rw [rootInner, ih]
    simp only [setRootsLoop]

/-! ### the whole preparation -/

/-- what the engine does with the graph before planning (`ResolveGraph.create_initial_queue`, then the three calls of
`ResolveLinks.resolve_links`), on the translated methods -/
def preparePy (s : GraphSelf) (fuel : Nat) : Except PyExc GraphSelf := do
  let s1 ← iterate_nodes_and_edges s fuel
  let s2 ← set_direct_parents_for_each_child s1 fuel
  let s3 ← set_all_parents_for_each_child s2 fuel
  set_root_parents_by_direct_ s3

theorem map_abs_err {r : Except PyExc GraphSelf} {e : Graph.Err} (h : r.map abs = lift id (.error e)) : r = .error (toExc e) := by
  cases r with
  | error a => simp only [Except.map, lift, Except.error.injEq] at h; rw [h]
  | ok a => simp [Except.map, lift] at h

theorem map_abs_ok {r : Except PyExc GraphSelf} {g : G} (h : r.map abs = lift id (.ok g)) : ∃ s, r = .ok s ∧ abs s = g := by
  cases r with
  | error a => simp [Except.map, lift] at h
  | ok a => simp only [Except.map, lift, Except.ok.injEq, id] at h; exact ⟨a, rfl, h⟩

end GraphGen
