import MlodaVerif.Lemmas.LinkOrderBasic
/-! Lemmas about `order_ordered_ids_by_relation` (`reorder`) and `create_data_ordered`. -/
namespace LinkOrder

/-! ### generic facts -/

theorem nodup_dkeys_dset {κ α : Type} [DecidableEq κ] {d : List (κ × α)} {k : κ} {v : α} (h : (dkeys d).Nodup) :
    (dkeys (dset d k v)).Nodup := by
  rw [dkeys_dset]
  split
  · exact h
  · rename_i hk
    rw [List.nodup_append]
    refine ⟨h, by simp, ?_⟩
    intro a ha b hb; simp at hb; subst hb; intro hab; exact hk (hab ▸ ha)

theorem mem_dkeys_dset {κ α : Type} [DecidableEq κ] {d : List (κ × α)} {k k' : κ} {v : α} :
    k' ∈ dkeys (dset d k v) ↔ k' ∈ dkeys d ∨ k' = k := by
  rw [dkeys_dset]
  split
  · rename_i hk
    constructor
    · exact Or.inl
    · rintro (h | h); exact h; exact h ▸ hk
  · simp

theorem le_foldl_max (l : List Nat) (a : Nat) : a ≤ l.foldl max a ∧ ∀ k ∈ l, k ≤ l.foldl max a := by
  induction l generalizing a with
  | nil => simp
  | cons x r ih =>
    simp only [List.foldl_cons]
    obtain ⟨h1, h2⟩ := ih (max a x)
    refine ⟨by omega, ?_⟩
    intro k hk
    rcases List.mem_cons.mp hk with hk | hk
    · subst hk; omega
    · exact h2 k hk

/-! ### the markers are flushed in increasing position -/

theorem filterMap_pick_perm {β : Type} (l : List Nat) (k : Nat) (v : β) (g : Nat → Option β)
    (hn : l.Nodup) (hk : k ∈ l) (hg : g k = none) :
    (l.filterMap (fun i => if k = i then some v else g i)).Perm (v :: l.filterMap g) := by
  induction l with
  | nil => simp at hk
  | cons a t ih =>
    have hn' := List.nodup_cons.mp hn
    by_cases hka : k = a
    · subst hka
      have h1 : ∀ t' : List Nat, k ∉ t' → t'.filterMap (fun i => if k = i then some v else g i) = t'.filterMap g := by
        intro t' ht'
        induction t' with
        | nil => rfl
        | cons b t'' ih' =>
          have hb : k ≠ b := fun h => ht' (h ▸ List.mem_cons_self)
          simp only [List.filterMap_cons, hb, if_false]
          rw [ih' (fun h => ht' (List.mem_cons_of_mem _ h))]
      simp [h1 t hn'.1, hg]
    · have hkt : k ∈ t := by
        rcases List.mem_cons.mp hk with h | h
        · exact absurd h hka
        · exact h
      have ih' := ih hn'.2 hkt
      simp only [List.filterMap_cons, hka, if_false]
      cases hga : g a with
      | none => simpa using ih'
      | some w => exact (List.Perm.cons w ih').trans (List.Perm.swap v w _)

theorem range_filterMap_perm (pm : PosMarker) (m : Nat) (hn : (dkeys pm).Nodup) (hle : ∀ k ∈ dkeys pm, k ≤ m) :
    ((List.range (m + 1)).filterMap (dget pm)).Perm (pm.map (·.2)) := by
  induction pm with
  | nil =>
    have : (List.range (m + 1)).filterMap (dget ([] : PosMarker)) = [] := by
      apply List.filterMap_eq_nil_iff.mpr; intro a _; rfl
    rw [this]; exact List.Perm.refl _
  | cons e r ih =>
    simp only [dkeys_cons, List.nodup_cons] at hn
    have hle' : ∀ k ∈ dkeys r, k ≤ m := fun k hk => hle k (by simp [hk])
    have he : e.1 ≤ m := hle e.1 (by simp)
    have hfun : dget (e :: r) = fun i => if e.1 = i then some e.2 else dget r i := by
      funext i; simp [dget]
    rw [hfun]
    refine (filterMap_pick_perm (List.range (m + 1)) e.1 e.2 (dget r) List.nodup_range (List.mem_range.mpr (by omega))
      (dget_none_iff.mpr hn.1)).trans ?_
    simpa using List.Perm.cons e.2 (ih hn.2 hle')

/-- the body of the final loop of `order_ordered_ids_by_relation` -/
def flushStep (pm : PosMarker) (no : Order) (i : Nat) : Order :=
  match dget pm i with
  | some e => moveToEnd (dset no e.1 e.2) e.1
  | none => no

theorem flushMarkers_eq (pm : PosMarker) (no : Order) :
    flushMarkers pm no = (List.range ((dkeys pm).foldl max 0 + 1)).foldl (flushStep pm) no := rfl

theorem flush_fold (pm : PosMarker) (is : List Nat) (no : Order)
    (hn : (dkeys no ++ dkeys (is.filterMap (dget pm))).Nodup) :
    is.foldl (flushStep pm) no = no ++ is.filterMap (dget pm) := by
  induction is generalizing no with
  | nil => simp
  | cons i r ih =>
    simp only [List.foldl_cons, List.filterMap_cons, flushStep]
    cases hd : dget pm i with
    | none =>
      simp only [List.filterMap_cons, hd] at hn
      exact ih no hn
    | some e =>
      simp only [List.filterMap_cons, hd, dkeys_cons] at hn
      have hnot : e.1 ∉ dkeys no := by
        intro h
        have := (List.nodup_append.mp hn).2.2 e.1 h e.1 (by simp)
        exact this rfl
      simp only
      rw [moveToEnd_dset_of_not_mem hnot]
      have : (e.1, e.2) = e := rfl
      rw [this, ih (no ++ [e])]
      · simp
      · simp only [dkeys_append, dkeys_cons, dkeys_nil, List.append_assoc, List.singleton_append]
        exact hn

/-! ### the main loop -/

/-- latest positions remembered for the entries of the suffix `r` that starts at position `pos` -/
def lps (o : Order) : List (Nat × List Nat) → Nat → List Nat
  | [], _ => []
  | e :: r, pos => (match latestPos o pos e.1 with | some lp => [lp] | none => []) ++ lps o r (pos + 1)

theorem bumpPos_of_not_mem {pm : PosMarker} {lp : Nat} (h : lp ∉ dkeys pm) : bumpPos pm lp = lp := by
  simp [bumpPos, h]

theorem reorderLoop_spec (o : Order) (r : List (Nat × List Nat)) (pos : Nat) (no : Order) (pm : PosMarker)
    (hl : (dkeys pm ++ lps o r pos).Nodup)
    (hk : (dkeys no ++ dkeys (pm.map (·.2)) ++ dkeys r).Nodup) :
    ((reorderLoop o r pos (no, pm)).1 ++ (reorderLoop o r pos (no, pm)).2.map (·.2)).Perm (no ++ pm.map (·.2) ++ r) ∧
    (dkeys (reorderLoop o r pos (no, pm)).2).Nodup ∧
    (dkeys (reorderLoop o r pos (no, pm)).1 ++ dkeys ((reorderLoop o r pos (no, pm)).2.map (·.2))).Nodup := by
  induction r generalizing pos no pm with
  | nil =>
    simp only [reorderLoop, lps, List.append_nil, dkeys_nil] at hl hk ⊢
    exact ⟨List.Perm.refl _, hl, hk⟩
  | cons e r ih =>
    simp only [reorderLoop]
    cases hlp : latestPos o pos e.1 with
    | none =>
      simp only [lps, hlp, List.nil_append] at hl
      have hnot : e.1 ∉ dkeys no := by
        intro h
        have := (List.nodup_append.mp hk).2.2 e.1 (List.mem_append_left _ h) e.1 (by simp)
        exact this rfl
      have hset : dset no e.1 e.2 = no ++ [e] := dset_of_not_mem hnot
      simp only [hset]
      have hk' : (dkeys (no ++ [e]) ++ dkeys (pm.map (·.2)) ++ dkeys r).Nodup := by
        refine (List.Perm.nodup_iff ?_).mp hk
        simp only [dkeys_append, dkeys_cons, dkeys_nil]
        rw [List.perm_iff_count]; intro a
        simp only [List.count_append, List.count_cons, List.count_nil]; omega
      obtain ⟨h1, h2, h3⟩ := ih (pos + 1) (no ++ [e]) pm hl hk'
      refine ⟨h1.trans ?_, h2, h3⟩
      rw [List.perm_iff_count]; intro a
      simp only [List.count_append, List.count_cons, List.count_nil]; omega
    | some lp =>
      simp only [lps, hlp] at hl
      simp only
      have hnot : lp ∉ dkeys pm := by
        intro h
        have := (List.nodup_append.mp hl).2.2 lp h lp (by simp)
        exact this rfl
      rw [bumpPos_of_not_mem hnot, dset_of_not_mem hnot]
      have hl' : (dkeys (pm ++ [(lp, e)]) ++ lps o r (pos + 1)).Nodup := by
        refine (List.Perm.nodup_iff ?_).mp hl
        simp only [dkeys_append, dkeys_cons, dkeys_nil]
        rw [List.perm_iff_count]; intro a
        simp only [List.count_append, List.count_cons, List.count_nil]; omega
      have hk' : (dkeys no ++ dkeys ((pm ++ [(lp, e)]).map (·.2)) ++ dkeys r).Nodup := by
        refine (List.Perm.nodup_iff ?_).mp hk
        simp only [List.map_append, List.map_cons, List.map_nil, dkeys_append, dkeys_cons, dkeys_nil]
        rw [List.perm_iff_count]; intro a
        simp only [List.count_append, List.count_cons, List.count_nil]; omega
      obtain ⟨h1, h2, h3⟩ := ih (pos + 1) no (pm ++ [(lp, e)]) hl' hk'
      refine ⟨h1.trans ?_, h2, h3⟩
      simp only [List.map_append, List.map_cons, List.map_nil]
      rw [List.perm_iff_count]; intro a
      simp only [List.count_append, List.count_cons, List.count_nil]; omega

/-- C: when no two keys are sent to the same position, `order_ordered_ids_by_relation` permutes the dict -/
theorem reorder_perm (o : Order) (hn : (dkeys o).Nodup) (hl : (lps o o 0).Nodup) : (reorder o).Perm o := by
  obtain ⟨h1, h2, h3⟩ := reorderLoop_spec o o 0 [] [] (by simpa using hl) (by simpa using hn)
  simp only [reorder]
  split
  · exact List.Perm.refl _
  · rw [flushMarkers_eq]
    have hperm := range_filterMap_perm (reorderLoop o o 0 ([], [])).2 _ h2
      (fun k hk => (le_foldl_max (dkeys (reorderLoop o o 0 ([], [])).2) 0).2 k hk)
    rw [flush_fold]
    · refine (List.Perm.append_left _ hperm).trans ?_
      simpa using h1
    · refine (List.Perm.nodup_iff ?_).mp h3
      unfold dkeys
      exact List.Perm.append_left _ ((List.Perm.map (fun e : Nat × List Nat => e.1) hperm).symm)

/-! ### `create_data_ordered` -/

theorem fillInner_keys (oe : Nat) (data : List (Key × List Nat)) (dord : List (Key × OVal)) :
    ((dkeys dord).Nodup → (dkeys (data.foldl (fun dord e => if e.1.link = oe then dset dord e.1 (true, e.2) else dord) dord)).Nodup) ∧
    (∀ k, k ∈ dkeys (data.foldl (fun dord e => if e.1.link = oe then dset dord e.1 (true, e.2) else dord) dord) →
      k ∈ dkeys dord ∨ k ∈ dkeys data) ∧
    (∀ k ∈ dkeys dord, k ∈ dkeys (data.foldl (fun dord e => if e.1.link = oe then dset dord e.1 (true, e.2) else dord) dord)) := by
  induction data generalizing dord with
  | nil => simp
  | cons e r ih =>
    simp only [List.foldl_cons]
    split
    · obtain ⟨h1, h2, h3⟩ := ih (dset dord e.1 (true, e.2))
      refine ⟨fun hn => h1 (nodup_dkeys_dset hn), ?_, ?_⟩
      · intro k hk
        rcases h2 k hk with h | h
        · rcases mem_dkeys_dset.mp h with h | h
          · exact Or.inl h
          · exact Or.inr (by simp [h])
        · exact Or.inr (by simp [h])
      · intro k hk; exact h3 k (mem_dkeys_dset.mpr (Or.inl hk))
    · obtain ⟨h1, h2, h3⟩ := ih dord
      refine ⟨h1, ?_, h3⟩
      intro k hk
      rcases h2 k hk with h | h
      · exact Or.inl h
      · exact Or.inr (by simp [h])

theorem fillByOrder_keys (data : List (Key × List Nat)) (o : Order) (dord : List (Key × OVal)) :
    ((dkeys dord).Nodup → (dkeys (fillByOrder data o dord)).Nodup) ∧
    (∀ k, k ∈ dkeys (fillByOrder data o dord) → k ∈ dkeys dord ∨ k ∈ dkeys data) ∧
    (∀ k ∈ dkeys dord, k ∈ dkeys (fillByOrder data o dord)) := by
  induction o generalizing dord with
  | nil => exact ⟨fun h => h, fun k hk => Or.inl hk, fun k hk => hk⟩
  | cons oe r ih =>
    simp only [fillByOrder, List.foldl_cons] at ih ⊢
    obtain ⟨a1, a2, a3⟩ := fillInner_keys oe.1 data dord
    obtain ⟨h1, h2, h3⟩ := ih (data.foldl (fun dord e => if e.1.link = oe.1 then dset dord e.1 (true, e.2) else dord) dord)
    refine ⟨fun hn => h1 (a1 hn), ?_, fun k hk => h3 k (a3 k hk)⟩
    intro k hk
    rcases h2 k hk with h | h
    · exact a2 k h
    · exact Or.inr h

theorem fillRest_keys (data : List (Key × List Nat)) (dord : List (Key × OVal)) :
    ((dkeys dord).Nodup → (dkeys (fillRest data dord)).Nodup) ∧
    (∀ k, k ∈ dkeys (fillRest data dord) → k ∈ dkeys dord ∨ k ∈ dkeys data) ∧
    (∀ k, k ∈ dkeys dord ∨ k ∈ dkeys data → k ∈ dkeys (fillRest data dord)) := by
  induction data generalizing dord with
  | nil => simp [fillRest]
  | cons e r ih =>
    simp only [fillRest, List.foldl_cons] at ih ⊢
    split
    · rename_i hin
      obtain ⟨h1, h2, h3⟩ := ih dord
      refine ⟨h1, ?_, ?_⟩
      · intro k hk
        rcases h2 k hk with h | h
        · exact Or.inl h
        · exact Or.inr (by simp [h])
      · rintro k (h | h)
        · exact h3 k (Or.inl h)
        · simp only [dkeys_cons, List.mem_cons] at h
          rcases h with h | h
          · exact h3 k (Or.inl (h ▸ hin))
          · exact h3 k (Or.inr h)
    · obtain ⟨h1, h2, h3⟩ := ih (dset dord e.1 (true, e.2))
      refine ⟨fun hn => h1 (nodup_dkeys_dset hn), ?_, ?_⟩
      · intro k hk
        rcases h2 k hk with h | h
        · rcases mem_dkeys_dset.mp h with h | h
          · exact Or.inl h
          · exact Or.inr (by simp [h])
        · exact Or.inr (by simp [h])
      · rintro k (h | h)
        · exact h3 k (Or.inl (mem_dkeys_dset.mpr (Or.inl h)))
        · simp only [dkeys_cons, List.mem_cons] at h
          rcases h with h | h
          · exact h3 k (Or.inl (mem_dkeys_dset.mpr (Or.inr h)))
          · exact h3 k (Or.inr h)

/-- whenever `create_data_ordered` passes `validate_data_consistency`, `data_ordered` holds exactly the keys of `data` -/
theorem createDataOrdered_perm {t t' : Trekker} (h : createDataOrdered t = .ok t')
    (hd : (dkeys t.data).Nodup) (ho : (dkeys t.dataOrdered).Nodup) :
    (dkeys t'.dataOrdered).Perm (dkeys t.data) ∧ t'.data = t.data ∧ t'.order = t.order := by
  simp only [createDataOrdered] at h
  split at h
  · simp at h
  · rename_i hlen
    have := Except.ok.inj h; subst this
    refine ⟨?_, rfl, rfl⟩
    obtain ⟨a1, _, _⟩ := fillByOrder_keys t.data t.order t.dataOrdered
    obtain ⟨b1, _, b3⟩ := fillRest_keys t.data (fillByOrder t.data t.order t.dataOrdered)
    have hlen' : t.data.length = (fillRest t.data (fillByOrder t.data t.order t.dataOrdered)).length := by
      exact Classical.byContradiction hlen
    apply List.Perm.symm
    apply perm_of_nodup_subset_length hd (b1 (a1 ho)) (fun k hk => b3 k (Or.inr hk))
    simp only [dkeys, List.length_map]; omega

/-- ... and it passes when `data_ordered` has no key that `data` lacks (in particular on the first call) -/
theorem createDataOrdered_ok {t : Trekker} (hd : (dkeys t.data).Nodup) (ho : (dkeys t.dataOrdered).Nodup)
    (hsub : ∀ k ∈ dkeys t.dataOrdered, k ∈ dkeys t.data) : ∃ t', createDataOrdered t = .ok t' := by
  simp only [createDataOrdered]
  obtain ⟨a1, a2, _⟩ := fillByOrder_keys t.data t.order t.dataOrdered
  obtain ⟨b1, b2, b3⟩ := fillRest_keys t.data (fillByOrder t.data t.order t.dataOrdered)
  have hperm : (dkeys t.data).Perm (dkeys (fillRest t.data (fillByOrder t.data t.order t.dataOrdered))) := by
    rw [List.perm_ext_iff_of_nodup hd (b1 (a1 ho))]
    intro k
    constructor
    · exact fun hk => b3 k (Or.inr hk)
    · intro hk
      rcases b2 k hk with h | h
      · rcases a2 k h with h | h
        · exact hsub k h
        · exact h
      · exact h
  have := hperm.length_eq
  simp only [dkeys, List.length_map] at this
  rw [if_neg (by simpa using this)]
  exact ⟨_, rfl⟩

end LinkOrder

namespace LinkOrder

/-! ### the collision handling of `pos_marker` never finds a free slot -/

theorem latestFrom_ge (oId : Nat) (r : List (Nat × List Nat)) (i : Nat) (acc : Option Nat) (lp : Nat)
    (h : latestFrom oId r i acc = some lp) : acc = some lp ∨ i ≤ lp := by
  induction r generalizing i acc with
  | nil => exact Or.inl h
  | cons e r ih =>
    simp only [latestFrom] at h
    rcases ih _ _ h with h' | h'
    · split at h'
      · right; have := Option.some.inj h'; omega
      · exact Or.inl h'
    · right; omega

theorem latestPos_gt {o : Order} {pos oId lp : Nat} (h : latestPos o pos oId = some lp) : pos < lp := by
  rcases latestFrom_ge _ _ _ _ _ h with h' | h'
  · simp at h'
  · omega

theorem bumpPos_of_short {pm : PosMarker} {lp : Nat} (h : pm.length ≤ lp) : bumpPos pm lp = lp := by
  simp only [bumpPos]
  have : pm.length - lp = 0 := by omega
  split
  · simp [this]
  · rfl

/-- the loop without the collision handling: a second key for an occupied slot simply overwrites the first -/
def reorderLoopPlain (o : Order) : List (Nat × List Nat) → Nat → Order × PosMarker → Order × PosMarker
  | [], _, st => st
  | e :: r, pos, (no, pm) =>
    match latestPos o pos e.1 with
    | none => reorderLoopPlain o r (pos + 1) (dset no e.1 e.2, pm)
    | some lp => reorderLoopPlain o r (pos + 1) (no, dset pm lp e)

theorem length_dset_le {κ α : Type} [DecidableEq κ] (d : List (κ × α)) (k : κ) (v : α) : (dset d k v).length ≤ d.length + 1 := by
  simp only [dset]; split <;> simp [dmodify]

theorem reorderLoop_eq_plain (o : Order) (r : List (Nat × List Nat)) (pos : Nat) (no : Order) (pm : PosMarker)
    (h : pm.length ≤ pos) : reorderLoop o r pos (no, pm) = reorderLoopPlain o r pos (no, pm) := by
  induction r generalizing pos no pm with
  | nil => rfl
  | cons e r ih =>
    simp only [reorderLoop, reorderLoopPlain]
    cases hlp : latestPos o pos e.1 with
    | none => exact ih _ _ _ (by omega)
    | some lp =>
      simp only
      rw [bumpPos_of_short (by have := latestPos_gt hlp; omega)]
      exact ih _ _ _ (by have := length_dset_le pm lp e; omega)

end LinkOrder

namespace LinkOrder

/-! ### the shape of the result: the keys nobody later refers to stay in place, the others follow by remembered position -/

/-- the entries of the suffix `r` (starting at position `pos`) that stay in place -/
def ndList (o : Order) : List (Nat × List Nat) → Nat → List (Nat × List Nat)
  | [], _ => []
  | e :: r, pos =>
    match latestPos o pos e.1 with
    | none => e :: ndList o r (pos + 1)
    | some _ => ndList o r (pos + 1)

/-- the entries of the suffix that are moved, with the position remembered for them -/
def dfList (o : Order) : List (Nat × List Nat) → Nat → PosMarker
  | [], _ => []
  | e :: r, pos =>
    match latestPos o pos e.1 with
    | none => dfList o r (pos + 1)
    | some lp => (lp, e) :: dfList o r (pos + 1)

theorem dkeys_dfList (o : Order) (r : List (Nat × List Nat)) (pos : Nat) : dkeys (dfList o r pos) = lps o r pos := by
  induction r generalizing pos with
  | nil => rfl
  | cons e r ih =>
    simp only [dfList, lps]
    cases latestPos o pos e.1 <;> simp [ih]

theorem ndList_sub (o : Order) (r : List (Nat × List Nat)) (pos : Nat) : ∀ x ∈ ndList o r pos, x ∈ r := by
  induction r generalizing pos with
  | nil => simp [ndList]
  | cons e r ih =>
    intro x hx
    simp only [ndList] at hx
    cases h : latestPos o pos e.1 with
    | none =>
      simp only [h] at hx
      rcases List.mem_cons.mp hx with hx | hx
      · exact hx ▸ List.mem_cons_self
      · exact List.mem_cons_of_mem _ (ih _ x hx)
    | some lp =>
      simp only [h] at hx
      exact List.mem_cons_of_mem _ (ih _ x hx)

theorem nd_or_df (o : Order) (r : List (Nat × List Nat)) (pos : Nat) :
    ∀ x ∈ r, x ∈ ndList o r pos ∨ x ∈ (dfList o r pos).map (·.2) := by
  induction r generalizing pos with
  | nil => simp
  | cons e r ih =>
    intro x hx
    simp only [ndList, dfList]
    cases h : latestPos o pos e.1 with
    | none =>
      rcases List.mem_cons.mp hx with hx | hx
      · exact Or.inl (hx ▸ List.mem_cons_self)
      · rcases ih (pos + 1) x hx with h' | h'
        · exact Or.inl (List.mem_cons_of_mem _ h')
        · exact Or.inr h'
    | some lp =>
      rcases List.mem_cons.mp hx with hx | hx
      · exact Or.inr (by simp [hx])
      · rcases ih (pos + 1) x hx with h' | h'
        · exact Or.inl h'
        · exact Or.inr (by simp only [List.map_cons, List.mem_cons]; exact Or.inr h')

theorem ndList_eq_of_df_nil (o : Order) (r : List (Nat × List Nat)) (pos : Nat) (h : dfList o r pos = []) : ndList o r pos = r := by
  induction r generalizing pos with
  | nil => rfl
  | cons e r ih =>
    simp only [dfList] at h
    simp only [ndList]
    cases hl : latestPos o pos e.1 with
    | none => simp only [hl] at h ⊢; rw [ih _ h]
    | some lp => simp [hl] at h

theorem reorderLoop_shape (o : Order) (r : List (Nat × List Nat)) (pos : Nat) (no : Order) (pm : PosMarker)
    (hl : (dkeys pm ++ lps o r pos).Nodup) (hk : (dkeys no ++ dkeys r).Nodup) :
    reorderLoop o r pos (no, pm) = (no ++ ndList o r pos, pm ++ dfList o r pos) := by
  induction r generalizing pos no pm with
  | nil => simp [reorderLoop, ndList, dfList]
  | cons e r ih =>
    simp only [reorderLoop, ndList, dfList]
    cases hlp : latestPos o pos e.1 with
    | none =>
      simp only [lps, hlp, List.nil_append] at hl
      have hnot : e.1 ∉ dkeys no := by
        intro h
        exact (List.nodup_append.mp hk).2.2 e.1 h e.1 (by simp) rfl
      simp only
      rw [dset_of_not_mem hnot, ih (pos + 1) (no ++ [e]) pm hl]
      · simp
      · refine (List.Perm.nodup_iff ?_).mp hk
        simp only [dkeys_append, dkeys_cons, dkeys_nil]
        rw [List.perm_iff_count]; intro a
        simp only [List.count_append, List.count_cons, List.count_nil]; omega
    | some lp =>
      simp only [lps, hlp] at hl
      have hnot : lp ∉ dkeys pm := by
        intro h
        exact (List.nodup_append.mp hl).2.2 lp h lp (by simp) rfl
      simp only
      rw [bumpPos_of_not_mem hnot, dset_of_not_mem hnot, ih (pos + 1) no (pm ++ [(lp, e)])]
      · simp
      · refine (List.Perm.nodup_iff ?_).mp hl
        simp only [dkeys_append, dkeys_cons, dkeys_nil]
        rw [List.perm_iff_count]; intro a
        simp only [List.count_append, List.count_cons, List.count_nil]; omega
      · simp only [dkeys_cons] at hk
        refine (List.nodup_append.mpr ⟨(List.nodup_append.mp hk).1, (List.nodup_cons.mp (List.nodup_append.mp hk).2.1).2, ?_⟩)
        intro a ha b hb
        exact (List.nodup_append.mp hk).2.2 a ha b (List.mem_cons_of_mem _ hb)

/-- `reorder o` = the keys that stay, then the moved ones in some order -/
theorem reorder_shape (o : Order) (hn : (dkeys o).Nodup) (hl : (lps o o 0).Nodup) :
    ∃ X, reorder o = ndList o o 0 ++ X ∧ X.Perm ((dfList o o 0).map (·.2)) := by
  have hshape := reorderLoop_shape o o 0 [] [] (by simpa using hl) (by simpa using hn)
  obtain ⟨h1, h2, h3⟩ := reorderLoop_spec o o 0 [] [] (by simpa using hl) (by simpa using hn)
  simp only [reorder]
  rw [hshape] at h1 h2 h3 ⊢
  simp only [List.nil_append] at h1 h2 h3 ⊢
  split
  · rename_i hlen
    have hdf : dfList o o 0 = [] := List.eq_nil_of_length_eq_zero hlen
    exact ⟨[], by rw [ndList_eq_of_df_nil o o 0 hdf]; simp, by rw [hdf]; exact List.Perm.refl _⟩
  · rw [flushMarkers_eq]
    have hperm := range_filterMap_perm (dfList o o 0) _ h2
      (fun k hk => (le_foldl_max (dkeys (dfList o o 0)) 0).2 k hk)
    rw [flush_fold]
    · exact ⟨_, rfl, hperm⟩
    · refine (List.Perm.nodup_iff ?_).mp h3
      unfold dkeys
      exact List.Perm.append_left _ ((List.Perm.map (fun e : Nat × List Nat => e.1) hperm).symm)

/-- `a` occurs before `b` -/
def before {α : Type} (l : List α) (a b : α) : Prop := ∃ l1 l2 l3, l = l1 ++ a :: l2 ++ b :: l3

theorem drop_succ_of_drop_eq {α : Type} {l : List α} {n : Nat} {a : α} {r : List α} (h : l.drop n = a :: r) : l.drop (n + 1) = r := by
  induction l generalizing n with
  | nil => simp at h
  | cons x xs ih =>
    cases n with
    | zero => simp at h; simp [h.2]
    | succ m => simp only [List.drop_succ_cons] at h ⊢; exact ih h

theorem latestFrom_none_iff (oId : Nat) (r : List (Nat × List Nat)) (i : Nat) (acc : Option Nat) :
    latestFrom oId r i acc = none ↔ acc = none ∧ ∀ e ∈ r, oId ∉ e.2 := by
  induction r generalizing i acc with
  | nil => simp [latestFrom]
  | cons e r ih =>
    simp only [latestFrom, ih, List.mem_cons, forall_eq_or_imp]
    by_cases h : oId ∈ e.2
    · simp [h]
    · simp [h]

theorem nd_before (o : Order) (r : List (Nat × List Nat)) (pos : Nat) (hdrop : o.drop pos = r)
    (ei eo : Nat × List Nat) (hi : ei ∈ ndList o r pos) (ho : eo ∈ ndList o r pos) (hm : eo.1 ∈ ei.2) (hne : ei ≠ eo) :
    before (ndList o r pos) ei eo := by
  induction r generalizing pos with
  | nil => simp [ndList] at hi
  | cons e r ih =>
    have hdrop' := drop_succ_of_drop_eq hdrop
    simp only [ndList] at hi ho ⊢
    cases hl : latestPos o pos e.1 with
    | some lp =>
      simp only [hl] at hi ho ⊢
      exact ih (pos + 1) hdrop' hi ho
    | none =>
      simp only [hl] at hi ho ⊢
      rcases List.mem_cons.mp ho with ho' | ho'
      · -- `eo` is the head and stays: nothing behind it refers to it, but `ei` does
        exfalso
        subst ho'
        have hi' : ei ∈ ndList o r (pos + 1) := by
          rcases List.mem_cons.mp hi with h | h
          · exact absurd h hne
          · exact h
        have hir : ei ∈ r := ndList_sub o r (pos + 1) ei hi'
        simp only [latestPos, hdrop'] at hl
        exact ((latestFrom_none_iff _ _ _ _).mp hl).2 ei hir hm
      · rcases List.mem_cons.mp hi with hi | hi
        · subst hi
          obtain ⟨a, b, hab⟩ := List.append_of_mem ho'
          exact ⟨[], a, b, by rw [hab]; simp⟩
        · obtain ⟨l1, l2, l3, h123⟩ := ih (pos + 1) hdrop' hi ho'
          exact ⟨e :: l1, l2, l3, by rw [h123]; simp⟩

/-- C3: under the hypotheses of `reorder_perm` and when no MOVED key has members among the keys, every key ends up
after the keys it is a member of -/
theorem reorder_respects (o : Order) (hn : (dkeys o).Nodup) (hl : (lps o o 0).Nodup)
    (hH : ∀ d ∈ dfList o o 0, ∀ eo ∈ o, eo.1 ∉ d.2.2)
    (ei eo : Nat × List Nat) (hi : ei ∈ o) (ho : eo ∈ o) (hm : eo.1 ∈ ei.2) (hne : ei ≠ eo) :
    before (reorder o) ei eo := by
  obtain ⟨X, hX, hperm⟩ := reorder_shape o hn hl
  rw [hX]
  have hind : ei ∈ ndList o o 0 := by
    rcases nd_or_df o o 0 ei hi with h | h
    · exact h
    · exfalso
      obtain ⟨d, hd, hde⟩ := List.mem_map.mp h
      exact hH d hd eo ho (hde ▸ hm)
  rcases nd_or_df o o 0 eo ho with h | h
  · obtain ⟨l1, l2, l3, h123⟩ := nd_before o o 0 (by simp) ei eo hind h hm hne
    exact ⟨l1, l2, l3 ++ X, by rw [h123]; simp⟩
  · have hx : eo ∈ X := hperm.mem_iff.mpr h
    obtain ⟨a, b, hab⟩ := List.append_of_mem hind
    obtain ⟨c, d, hcd⟩ := List.append_of_mem hx
    exact ⟨a, b ++ c, d, by rw [hab, hcd]; simp⟩

end LinkOrder

namespace LinkOrder

/-! ### `create_data_ordered`: the links named by `order` come first -/

theorem fillInner_links (oe : Nat) (data : List (Key × List Nat)) (dord : List (Key × OVal)) :
    (∀ k, k ∈ dkeys (data.foldl (fun dord e => if e.1.link = oe then dset dord e.1 (true, e.2) else dord) dord) →
      k ∈ dkeys dord ∨ (k ∈ dkeys data ∧ k.link = oe)) ∧
    (∀ k ∈ dkeys data, k.link = oe → k ∈ dkeys (data.foldl (fun dord e => if e.1.link = oe then dset dord e.1 (true, e.2) else dord) dord)) := by
  induction data generalizing dord with
  | nil => simp
  | cons e r ih =>
    simp only [List.foldl_cons]
    split
    · rename_i he
      obtain ⟨h1, h2⟩ := ih (dset dord e.1 (true, e.2))
      have mono := (fillInner_keys oe r (dset dord e.1 (true, e.2))).2.2
      refine ⟨?_, ?_⟩
      · intro k hk
        rcases h1 k hk with h | h
        · rcases mem_dkeys_dset.mp h with h | h
          · exact Or.inl h
          · exact Or.inr ⟨by simp [h], h ▸ he⟩
        · exact Or.inr ⟨by simp [h.1], h.2⟩
      · intro k hk hl
        simp only [dkeys_cons, List.mem_cons] at hk
        rcases hk with hk | hk
        · exact mono k (mem_dkeys_dset.mpr (Or.inr hk))
        · exact h2 k hk hl
    · rename_i he
      obtain ⟨h1, h2⟩ := ih dord
      refine ⟨?_, ?_⟩
      · intro k hk
        rcases h1 k hk with h | h
        · exact Or.inl h
        · exact Or.inr ⟨by simp [h.1], h.2⟩
      · intro k hk hl
        simp only [dkeys_cons, List.mem_cons] at hk
        rcases hk with hk | hk
        · exact absurd (hk ▸ hl) he
        · exact h2 k hk hl

theorem fillByOrder_links (data : List (Key × List Nat)) (o : Order) (dord : List (Key × OVal)) :
    (∀ k, k ∈ dkeys (fillByOrder data o dord) → k ∈ dkeys dord ∨ (k ∈ dkeys data ∧ k.link ∈ dkeys o)) ∧
    (∀ k ∈ dkeys data, k.link ∈ dkeys o → k ∈ dkeys (fillByOrder data o dord)) := by
  induction o generalizing dord with
  | nil => exact ⟨fun k hk => Or.inl hk, fun k _ h => by simp at h⟩
  | cons oe r ih =>
    simp only [fillByOrder, List.foldl_cons] at ih ⊢
    obtain ⟨a1, a2⟩ := fillInner_links oe.1 data dord
    obtain ⟨h1, h2⟩ := ih (data.foldl (fun dord e => if e.1.link = oe.1 then dset dord e.1 (true, e.2) else dord) dord)
    have mono := (fillByOrder_keys data r (data.foldl (fun dord e => if e.1.link = oe.1 then dset dord e.1 (true, e.2) else dord) dord)).2.2
    simp only [fillByOrder] at mono
    refine ⟨?_, ?_⟩
    · intro k hk
      rcases h1 k hk with h | h
      · rcases a1 k h with h' | h'
        · exact Or.inl h'
        · exact Or.inr ⟨h'.1, by simp [h'.2]⟩
      · exact Or.inr ⟨h.1, by simp [h.2]⟩
    · intro k hk hl
      simp only [dkeys_cons, List.mem_cons] at hl
      rcases hl with hl | hl
      · exact mono k (a2 k hk hl)
      · exact h2 k hk hl

theorem fillRest_append (data : List (Key × List Nat)) (dord : List (Key × OVal)) :
    ∃ X, fillRest data dord = dord ++ X ∧ ∀ k ∈ dkeys X, k ∉ dkeys dord := by
  induction data generalizing dord with
  | nil => exact ⟨[], by simp [fillRest], by simp⟩
  | cons e r ih =>
    simp only [fillRest, List.foldl_cons] at ih ⊢
    split
    · exact ih dord
    · rename_i hne
      rw [dset_of_not_mem hne]
      obtain ⟨X, hX, hk⟩ := ih (dord ++ [(e.1, (true, e.2))])
      refine ⟨(e.1, (true, e.2)) :: X, by rw [hX]; simp, ?_⟩
      intro k hkX
      simp only [dkeys_cons, List.mem_cons] at hkX
      rcases hkX with hkX | hkX
      · exact hkX ▸ hne
      · intro hh; exact hk k hkX (by simp [hh])

/-- on the first call the keys whose link is a key of `order` precede all other keys -/
theorem createDataOrdered_priority {t t' : Trekker} (h0 : t.dataOrdered = []) (h : createDataOrdered t = .ok t')
    (a b : Key) (ha : a ∈ dkeys t.data) (hb : b ∈ dkeys t.data) (hal : a.link ∈ dkeys t.order) (hbl : b.link ∉ dkeys t.order) :
    before (dkeys t'.dataOrdered) a b := by
  simp only [createDataOrdered] at h
  split at h
  · simp at h
  · have := Except.ok.inj h; subst this
    simp only [h0]
    obtain ⟨l1, l2⟩ := fillByOrder_links t.data t.order []
    obtain ⟨X, hX, hXk⟩ := fillRest_append t.data (fillByOrder t.data t.order [])
    rw [hX, dkeys_append]
    have haP : a ∈ dkeys (fillByOrder t.data t.order []) := l2 a ha hal
    have hbP : b ∉ dkeys (fillByOrder t.data t.order []) := by
      intro hh
      rcases l1 b hh with h' | h'
      · simp at h'
      · exact hbl h'.2
    have hbX : b ∈ dkeys X := by
      have := (fillRest_keys t.data (fillByOrder t.data t.order [])).2.2 b (Or.inr hb)
      rw [hX, dkeys_append] at this
      rcases List.mem_append.mp this with h' | h'
      · exact absurd h' hbP
      · exact h'
    obtain ⟨p1, p2, hp⟩ := List.append_of_mem haP
    obtain ⟨x1, x2, hx⟩ := List.append_of_mem hbX
    exact ⟨p1, p2 ++ x1, x2, by rw [hp, hx]; simp⟩

end LinkOrder
