import MlodaVerif.Lemmas.OptionsHash
import MlodaVerif.Model.OptGroup
/-! Coherence lemmas for the identity classes: `eq a b → pyEq (hashVal a) (hashVal b)`. -/

namespace OptIdent
open PyVal (pyEq mh wf eqList)
open OptHash

/-- both dictionaries of an `Options` object are Python-buildable values -/
def OptWF (o : Options) : Prop := wf (.dict o.group) = true ∧ wf (.dict o.context) = true

theorem options_coherent (a b : Options) (ha : wf (.dict a.group) = true) (hb : wf (.dict b.group) = true)
    (h : a.eq b = true) : pyEq a.hashVal b.hashVal = true :=
  mh_pyEq _ _ ha hb h

theorem pyEq_tuple2 (a b c d : PyVal) : pyEq (.tuple [a, b]) (.tuple [c, d]) = (pyEq a c && pyEq b d) := by
  simp [pyEq, PyVal.eqList]
theorem pyEq_tuple3 (a b e c d f : PyVal) :
    pyEq (.tuple [a, b, e]) (.tuple [c, d, f]) = (pyEq a c && pyEq b d && pyEq e f) := by
  simp [pyEq, PyVal.eqList, Bool.and_assoc]
theorem pyEq_tuple32 (a b e c d : PyVal) : pyEq (.tuple [a, b, e]) (.tuple [c, d]) = false := by
  simp [pyEq, PyVal.eqList]
theorem pyEq_tuple23 (a b c d f : PyVal) : pyEq (.tuple [a, b]) (.tuple [c, d, f]) = false := by
  simp [pyEq, PyVal.eqList]

theorem pyEq_str_refl (s : String) : pyEq (.str s) (.str s) = true := by simp [pyEq]
theorem pyEq_obj_refl (n : Nat) : pyEq (.obj n) (.obj n) = true := by simp [pyEq]
theorem pyEq_none_refl : pyEq .none .none = true := by simp [pyEq]

theorem pyEq_optStr {a b : Option String} (h : domainEq a b = .ok true) : pyEq (optStrVal a) (optStrVal b) = true := by
  cases a <;> cases b <;> simp_all [domainEq, optStrVal, pyEq]

theorem pyEq_optObj {a b : Option Nat} (h : (a == b) = true) : pyEq (optObjVal a) (optObjVal b) = true := by
  cases a <;> cases b <;> simp_all [optObjVal, pyEq]

theorem andE_ok_true {a : Except IdErr Bool} {b : Unit → Except IdErr Bool} (h : andE a b = .ok true) :
    a = .ok true ∧ b () = .ok true := by
  unfold andE at h
  split at h
  · exact ⟨rfl, h⟩
  · rename_i hne; exact absurd h (fun e => hne (by rw [e]))

theorem rewriteGroup_of_featFree (k : String) (v : PyVal) (g : PyDict) (h : FeatureId.featFreeVal v = true) :
    FeatureId.rewriteGroup k v g = g := by
  cases v with
  | feat n c => simp [FeatureId.featFreeVal] at h
  | frozenset l =>
    simp only [FeatureId.featFreeVal, List.all_eq_true] at h
    simp only [FeatureId.rewriteGroup]
    induction l generalizing g with
    | nil => rfl
    | cons x xs ih =>
      have hx := h x (by simp)
      simp only [List.foldl_cons]
      cases x <;> first | exact ih _ (fun y hy => h y (by simp [hy])) | (simp at hx)
  | _ => rfl

theorem childRewrite_of_featFree (co : Options) (h : FeatureId.featFreeVal (co.get Gen.OptionConsts.inFeaturesKey) = true) :
    FeatureId.childRewrite co = co := by
  unfold FeatureId.childRewrite
  simp only
  split
  · rw [rewriteGroup_of_featFree _ _ _ h]
  · rfl

theorem child_coherent (a b : Option Options)
    (hwa : ∀ o, a = some o → wf (.dict o.group) = true) (hwb : ∀ o, b = some o → wf (.dict o.group) = true)
    (hfa : FeatureId.featFree a = true) (hfb : FeatureId.featFree b = true)
    (h : FeatureId.childEq a b = true) : pyEq (FeatureId.childVal a) (FeatureId.childVal b) = true := by
  cases a with
  | none => cases b <;> simp_all [FeatureId.childEq, FeatureId.childVal, pyEq]
  | some x =>
    cases b with
    | none => simp [FeatureId.childEq] at h
    | some y =>
      simp only [FeatureId.childEq] at h
      simp only [FeatureId.featFree] at hfa hfb
      simp only [FeatureId.childVal, childRewrite_of_featFree x hfa, childRewrite_of_featFree y hfb]
      exact options_coherent x y (hwa x rfl) (hwb y rfl) h


/-- the core of Feature coherence: equal features (outside the `in_features` rewrite) have `==` hashed tuples -/
theorem feature_hashVal_pyEq (a b : FeatureId)
    (hwa : wf (.dict a.options.group) = true) (hwb : wf (.dict b.options.group) = true)
    (hca : ∀ o, a.child = some o → wf (.dict o.group) = true) (hcb : ∀ o, b.child = some o → wf (.dict o.group) = true)
    (hfa : FeatureId.featFree a.child = true) (hfb : FeatureId.featFree b.child = true)
    (h : a.eq b = .ok true) : pyEq a.hashVal b.hashVal = true := by
  unfold FeatureId.eq at h
  obtain ⟨h1, h⟩ := andE_ok_true h
  obtain ⟨h2, h⟩ := andE_ok_true h
  obtain ⟨_, h⟩ := andE_ok_true h
  obtain ⟨h4, h⟩ := andE_ok_true h
  obtain ⟨h5, h⟩ := andE_ok_true h
  obtain ⟨h6, h7⟩ := andE_ok_true h
  simp only [Except.ok.injEq] at h1 h2 h5 h6 h7
  have e1 : a.name = b.name := by simpa using h1
  have e2 := options_coherent a.options b.options hwa hwb h2
  have e3 := pyEq_optStr h4
  have e5 := pyEq_optObj h6
  have e6 := child_coherent a.child b.child hca hcb hfa hfb h7
  simp only [FeatureId.hashVal, pyEq, PyVal.eqList, e1, e2, e3, h5, e5, e6, beq_self_eq_true, Bool.and_self, List.isEmpty_nil]

end OptIdent
