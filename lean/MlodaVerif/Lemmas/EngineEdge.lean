import MlodaVerif.Lemmas.EngineEdgeAux
/-! # `feature_link_parents` of a whole run: the parents of every collected feature are exactly the representatives of its input
features (and of the filter / index features made for them, when those were met again under the same child) -/
namespace EngineColl
open Graph (Dict dget dset sadd dkeys)

/-- `u` is a parent because of one of the features `fs` of a `Features` object -/
def Par (w : World) (L : Option (List Link)) (coll : List (Nat × Feat)) (fs : List Feat) (u : Nat) : Prop :=
  ∃ f ∈ fs, ∃ g f3, prepare w L f = .ok (g, f3) ∧ ParentFor w L coll g f3.key u

/-- the collected feature with uuid `k` has the right parent set in `st`: every parent represents an input feature of it (or an auxiliary
feature of one), and - for non-auxiliary entries - every input feature is represented among the parents -/
def NewKeyOk (w : World) (L : Option (List Link)) (st : St) (k : Nat) : Prop :=
  ∀ e ∈ st.coll, e.2.uuid = k →
    (∀ u ∈ dget st.flp k, ∃ ts t n t' g f3, w.inputs e.1 e.2.key = some ts ∧ t ∈ ts ∧ mkInput e.2.key t n = .ok t' ∧
        prepare w L t' = .ok (g, f3) ∧ ParentFor w L st.coll g f3.key u) ∧
    (Expanded e.2 → ∀ ts t n t' g f3, w.inputs e.1 e.2.key = some ts → t ∈ ts → mkInput e.2.key t n = .ok t' → prepare w L t' = .ok (g, f3) →
        ∃ e' ∈ st.coll, e'.1 = g ∧ e'.2.key = f3.key ∧ e'.2.uuid ∈ dget st.flp k)

theorem NewKeyOk.mono {w : World} {L : Option (List Link)} {a b : St} {k : Nat} (h : NewKeyOk w L a k) (hext : Ext a b) (hub : UInv b)
    (hk : k ∈ uuids a) (hflp : dget b.flp k = dget a.flp k) : NewKeyOk w L b k := by
  intro e he hek
  obtain ⟨e0, he0, hek0⟩ := mem_uuids.mp hk
  have : e = e0 := entry_unique hub.nodup he (hext.mem he0) (by rw [hek, hek0])
  subst this
  obtain ⟨q1, q2⟩ := h e he0 hek
  rw [hflp]
  refine ⟨?_, ?_⟩
  · intro u hu
    obtain ⟨ts, t, n, t', g, f3, h1, h2, h3, h4, h5⟩ := q1 u hu
    exact ⟨ts, t, n, t', g, f3, h1, h2, h3, h4, h5.mono hext⟩
  · intro hex ts t n t' g f3 h1 h2 h3 h4
    obtain ⟨e', he', h5⟩ := q2 hex ts t n t' g f3 h1 h2 h3 h4
    exact ⟨e', hext.mem he', h5⟩

/-- what processing ONE feature `f` (prepared: `f3` of group `g`, same uuid) under the child `cu` does, from `st` to `st4` -/
structure HeadU (w : World) (L : Option (List Link)) (g : Nat) (f3 : Feat) (cu : Option Nat) (st st4 : St) : Prop where
  ext : Ext st st4
  uinv : UInv st4
  newu : ∀ u ∈ uuids st4, u ∈ uuids st ∨ u = f3.uuid ∨ st.next ≤ u
  frame : ∀ k, k ∈ dkeys st.flp → cu ≠ some k → dget st4.flp k = dget st.flp k
  sound : ∀ c, cu = some c → ∀ u ∈ dget st4.flp c, (u ∈ dget st.flp c ∧ u ≠ f3.uuid) ∨ ParentFor w L st4.coll g f3.key u
  rep : ∀ c, cu = some c → f3.uuid ∈ dget st.flp c → ∃ e ∈ st4.coll, e.1 = g ∧ e.2.key = f3.key ∧ e.2.uuid ∈ dget st4.flp c
  keep : ∀ c, cu = some c → ∀ u ∈ dget st.flp c, u ≠ f3.uuid → u < st.next → u ∈ dget st4.flp c
  fresh : ∀ k, k ∉ dkeys st.flp → k ∈ dkeys st4.flp → NewKeyOk w L st4 k

/-- the effect of the feature's own `add_feature_to_collection` -/
structure HeadAdd (w : World) (L : Option (List Link)) (g : Nat) (f3 : Feat) (cu : Option Nat) (added : Bool) (st st1 : St) : Prop where
  ext : Ext st st1
  next : st1.next = st.next
  uinv : UInv st1
  newu : ∀ u ∈ uuids st1, u ∈ uuids st ∨ u = f3.uuid
  frame : ∀ k, k ∈ dkeys st.flp → cu ≠ some k → dget st1.flp k = dget st.flp k
  sound : ∀ c, cu = some c → ∀ u ∈ dget st1.flp c, (u ∈ dget st.flp c ∧ u ≠ f3.uuid) ∨ ParentFor w L st1.coll g f3.key u
  rep : ∀ c, cu = some c → f3.uuid ∈ dget st.flp c → ∃ e ∈ st1.coll, e.1 = g ∧ e.2.key = f3.key ∧ e.2.uuid ∈ dget st1.flp c
  keep : ∀ c, cu = some c → ∀ u ∈ dget st.flp c, u ≠ f3.uuid → u ∈ dget st1.flp c
  newkey : ∀ k, k ∉ dkeys st.flp → k ∈ dkeys st1.flp → k = f3.uuid ∧ added = true ∧ dget st1.flp k = []
  isnew : added = true → st1.coll = st.coll ++ [(g, f3)] ∧ f3.uuid ∈ dkeys st1.flp ∧ dget st1.flp f3.uuid = []

theorem headAdd {w : World} {L : Option (List Link)} {st : St} {g : Nat} {f3 : Feat} {cu : Option Nat} {st1 : St} {added : Bool}
    (ha : addFeature w st g f3 cu false = .ok (st1, added)) (hu : UInv st) (hfu : f3.uuid ∉ uuids st) (hfl : f3.uuid < st.next)
    (hcu : ∀ c, cu = some c → c ∈ uuids st) : HeadAdd w L g f3 cu added st st1 := by
  have hu1 : UInv st1 := addFeature_uinv ha hu hfu hfl hcu
  have hkne : ∀ k, k ∈ dkeys st.flp → f3.uuid ≠ k := by
    intro k hk hh
    exact hfu (hh ▸ (hu.keys k).mp hk)
  by_cases hin : inColl st.coll g f3.key = true
  · -- duplicate
    cases cu with
    | none =>
      rcases addFeature_cases ha with ⟨_, hin', _⟩ | ⟨hb, _, hcoll, _, hnx, _, _, hflp⟩
      · rw [hin] at hin'; simp at hin'
      · have hflp' : st1.flp = st.flp := by
          rcases hflp with h1 | ⟨c, _, hc, _⟩
          · exact h1
          · simp at hc
        have hus : uuids st1 = uuids st := by simp [uuids, hcoll]
        exact ⟨⟨⟨[], by rw [hcoll]; simp⟩, by rw [hnx]; exact Nat.le_refl _⟩, hnx, hu1, by rw [hus]; exact fun u h => Or.inl h,
          by rw [hflp']; exact fun _ _ _ => rfl, fun c hc => by simp at hc, fun c hc => by simp at hc, fun c hc => by simp at hc,
          by rw [hflp']; exact fun k h1 h2 => absurd h2 h1, fun h => by rw [hb] at h; simp at h⟩
    | some c0 =>
      obtain ⟨hb, hcoll, _, hnx, _, wanted, ⟨e0, he0, hg0, hk0, hw0⟩, hflp⟩ := addFeature_dup_child ha hin
      have hus : uuids st1 = uuids st := by simp [uuids, hcoll]
      have hc0 : c0 ∈ uuids st := hcu c0 rfl
      have hc0k : c0 ∈ dkeys st.flp := (hu.keys c0).mpr hc0
      have hwin : wanted ∈ uuids st := mem_uuids.mpr ⟨e0, he0, hw0⟩
      have hwne : f3.uuid ≠ wanted := fun hh => hfu (hh ▸ hwin)
      refine ⟨⟨⟨[], by rw [hcoll]; simp⟩, by rw [hnx]; exact Nat.le_refl _⟩, hnx, hu1, by rw [hus]; exact fun u h => Or.inl h, ?_, ?_, ?_, ?_, ?_, ?_⟩
      · intro k hk hne
        rw [hflp, Graph.dget_dset]
        have : c0 ≠ k := by intro hh; apply hne; rw [hh]
        simp only [this, if_false]
      · intro c hc u hu'
        simp only [Option.some.injEq] at hc
        subst hc
        rw [hflp, Graph.dget_dset] at hu'
        simp only [if_true] at hu'
        rcases mem_updParents hu' with h1 | h1
        · left
          refine ⟨h1, ?_⟩
          intro hh
          rw [hh] at hu'
          exact orig_not_mem_updParents (hu.vn c0) hwne hu'
        · right
          exact ⟨e0, by rw [hcoll]; exact he0, hg0, by rw [hw0, h1], Or.inl hk0⟩
      · intro c hc _
        simp only [Option.some.injEq] at hc
        subst hc
        refine ⟨e0, by rw [hcoll]; exact he0, hg0, hk0, ?_⟩
        rw [hflp, Graph.dget_dset, hw0]
        simp only [if_true]
        exact wanted_mem_updParents _ _ _ _
      · intro c hc u hu' hne
        simp only [Option.some.injEq] at hc
        subst hc
        rw [hflp, Graph.dget_dset]
        simp only [if_true]
        exact keep_updParents hu' hne
      · intro k hk1 hk2
        rw [hflp, Graph.mem_dkeys_dset] at hk2
        rcases hk2 with hk2 | hk2
        · exact absurd hk2 hk1
        · exact absurd (hk2 ▸ hc0k) hk1
      · intro h; rw [hb] at h; simp at h
  · -- new entry
    have hin' : inColl st.coll g f3.key = false := by cases h : inColl st.coll g f3.key <;> simp_all
    rcases addFeature_cases ha with ⟨hb, _, rfl⟩ | ⟨_, hin2, _⟩
    · refine ⟨⟨⟨[(g, f3)], rfl⟩, Nat.le_refl _⟩, rfl, hu1, ?_, ?_, ?_, ?_, ?_, ?_, ?_⟩
      · intro u hu'
        simp only [uuids, List.map_append, List.map_cons, List.map_nil, List.mem_append, List.mem_singleton] at hu'
        rcases hu' with h1 | h1
        · exact Or.inl h1
        · exact Or.inr h1
      · intro k hk _
        simp only [Graph.dget_dset, hkne k hk, if_false]
      · intro c hc u hu'
        have hck : c ∈ dkeys st.flp := (hu.keys c).mpr (hcu c hc)
        simp only [Graph.dget_dset, hkne c hck, if_false] at hu'
        by_cases hh : u = f3.uuid
        · right
          exact ⟨(g, f3), by simp, rfl, hh.symm, Or.inl rfl⟩
        · exact Or.inl ⟨hu', hh⟩
      · intro c hc hmem
        have hck : c ∈ dkeys st.flp := (hu.keys c).mpr (hcu c hc)
        refine ⟨(g, f3), by simp, rfl, rfl, ?_⟩
        simp only [Graph.dget_dset, hkne c hck, if_false]
        exact hmem
      · intro c hc u hu' _
        have hck : c ∈ dkeys st.flp := (hu.keys c).mpr (hcu c hc)
        simp only [Graph.dget_dset, hkne c hck, if_false]
        exact hu'
      · intro k hk1 hk2
        simp only [Graph.mem_dkeys_dset] at hk2
        rcases hk2 with hk2 | hk2
        · exact absurd hk2 hk1
        · subst hk2
          exact ⟨rfl, hb, by simp [Graph.dget_dset]⟩
      · intro _
        exact ⟨rfl, by simp [Graph.mem_dkeys_dset], by simp [Graph.dget_dset]⟩
    · rw [hin'] at hin2; simp at hin2

/-- head without expansion (duplicate, or no input features): own insertion, then filter and index features -/
theorem headU_leaf {w : World} {L : Option (List Link)} (hw : PlainWorld w) {st st1 st3 st4 : St} {g : Nat} {f3 : Feat} {cu : Option Nat} {added : Bool}
    (ha : addFeature w st g f3 cu false = .ok (st1, added))
    (hlf : added = false ∨ w.inputs g f3.key = none ∨ w.inputs g f3.key = some [])
    (hf : addFilters w st1 g f3 cu = .ok st3) (hi : addIndexes w st3 g f3 cu = .ok st4) (hl3 : st3.links = L)
    (hu : UInv st) (hfu : f3.uuid ∉ uuids st) (hfl : f3.uuid < st.next) (hcu : ∀ c, cu = some c → c ∈ uuids st) :
    HeadU w L g f3 cu st st4 := by
  have hA := headAdd (L := L) ha hu hfu hfl hcu
  have hcu1 : ∀ c, cu = some c → c ∈ uuids st1 := fun c hc => hA.ext.uuids (hcu c hc)
  have hX : AuxI w L g f3.key cu st1 st4 := by
    have h13 := addFilters_auxI (L := L) hw hf hA.uinv hcu1
    have h34 := addIndexes_auxI hi hl3 h13.uinv (fun c hc => h13.ext.uuids (hcu1 c hc))
    exact h13.trans h34 hA.uinv hcu1
  have hkeys1 : ∀ k, k ∈ dkeys st.flp → k ∈ dkeys st1.flp := fun k hk => (hA.uinv.keys k).mpr (hA.ext.uuids ((hu.keys k).mp hk))
  refine ⟨Ext.trans hA.ext hX.ext, hX.uinv, ?_, ?_, ?_, ?_, ?_, ?_⟩
  · intro u hu'
    rcases hX.newu u hu' with h1 | h1
    · rcases hA.newu u h1 with h2 | h2
      · exact Or.inl h2
      · exact Or.inr (Or.inl h2)
    · right; right; rw [← hA.next]; exact h1
  · intro k hk hne
    rw [hX.frame k (hkeys1 k hk) hne, hA.frame k hk hne]
  · intro c hc u hu'
    rcases hX.sound c hc u hu' with h1 | ⟨e, he, hg, hue, hak⟩
    · rcases hA.sound c hc u h1 with h2 | h2
      · exact Or.inl h2
      · exact Or.inr (h2.mono hX.ext)
    · exact Or.inr ⟨e, he, hg, hue, Or.inr hak⟩
  · intro c hc hmem
    obtain ⟨e, he, hg, hk, hue⟩ := hA.rep c hc hmem
    refine ⟨e, hX.ext.mem he, hg, hk, hX.keep c hc _ hue ?_⟩
    exact hA.uinv.vlt c _ hue
  · intro c hc u hu' hne hlt
    exact hX.keep c hc u (hA.keep c hc u hu' hne) (by rw [hA.next]; exact hlt)
  · intro k hk1 hk2
    by_cases hk1' : k ∈ dkeys st1.flp
    · -- the feature itself was inserted; it has no input features
      obtain ⟨hkf, hadd, hnil⟩ := hA.newkey k hk1 hk1'
      have hne : cu ≠ some k := by
        intro hh; exact hk1 ((hu.keys k).mpr (hcu k hh))
      have hflp4 : dget st4.flp k = [] := by rw [hX.frame k hk1' hne, hnil]
      obtain ⟨hcoll1, _, _⟩ := hA.isnew hadd
      intro e he hek
      have hmem1 : (g, f3) ∈ st1.coll := by rw [hcoll1]; simp
      have : e = (g, f3) := entry_unique hX.uinv.nodup he (hX.ext.mem hmem1) (by rw [hek, hkf])
      subst this
      rw [hflp4]
      refine ⟨fun u hu' => by simp at hu', ?_⟩
      intro _ ts t n t' g' f' hin ht _ _
      rcases hlf with hlf | hlf | hlf
      · rw [hadd] at hlf; simp at hlf
      · simp only at hin; rw [hlf] at hin; simp at hin
      · simp only at hin; rw [hlf] at hin
        simp only [Option.some.injEq] at hin
        subst hin
        simp at ht
    · obtain ⟨hnil, hnex⟩ := hX.fresh k hk1' hk2
      intro e he hek
      rw [hnil]
      exact ⟨fun u hu' => by simp at hu', fun hex => absurd hex (hnex e he hek)⟩

theorem mkInputs_uuids {p : Key} : ∀ {ts : List Feat} {n : Nat} {acc fs : List Feat}, buildFeatures p ts n acc = .ok fs →
    fs.map (·.uuid) = acc.map (·.uuid) ++ List.range' n ts.length := by
  intro ts
  induction ts with
  | nil => intro n acc fs h; simp only [buildFeatures, Except.ok.injEq] at h; subst h; simp
  | cons t ts ih =>
    intro n acc fs h
    unfold buildFeatures at h
    cases hm : mkInput p t n with
    | error e => rw [hm] at h; simp at h
    | ok f0 =>
      rw [hm] at h
      simp only at h
      cases hd : dupCheck f0.key acc with
      | error e => rw [hd] at h; simp at h
      | ok _ =>
        rw [hd] at h
        simp only at h
        rw [ih h]
        simp only [List.map_append, List.map_cons, List.map_nil, List.length_cons, List.append_assoc, List.singleton_append]
        rw [(mkInput_fields hm).2.2.1]
        rw [List.range'_succ]

/-- what a `Run` of the features `fs` under the child `cu` does to the uuids and to `feature_link_parents` -/
structure RunU (w : World) (L : Option (List Link)) (st : St) (cu : Option Nat) (fs : List Feat) (st' : St) : Prop where
  ext : Ext st st'
  uinv : UInv st'
  newu : ∀ u ∈ uuids st', u ∈ uuids st ∨ u ∈ fs.map (·.uuid) ∨ st.next ≤ u
  frame : ∀ k, k ∈ dkeys st.flp → cu ≠ some k → dget st'.flp k = dget st.flp k
  sound : ∀ c, cu = some c → ∀ u ∈ dget st'.flp c, (u ∈ dget st.flp c ∧ u ∉ fs.map (·.uuid)) ∨ Par w L st'.coll fs u
  complete : ∀ c, cu = some c → ∀ f ∈ fs, ∀ g f3, prepare w L f = .ok (g, f3) →
    ∃ e ∈ st'.coll, e.1 = g ∧ e.2.key = f3.key ∧ e.2.uuid ∈ dget st'.flp c
  keep : ∀ c, cu = some c → ∀ u ∈ dget st.flp c, u ∉ fs.map (·.uuid) → u < st.next → u ∈ dget st'.flp c
  fresh : ∀ k, k ∉ dkeys st.flp → k ∈ dkeys st'.flp → NewKeyOk w L st' k

/-- the precondition: uuid invariant, the child is collected, the features carry unused pairwise different uuids (pending in the
child's parent set) -/
structure RunPre (st : St) (cu : Option Nat) (fs : List Feat) : Prop where
  uinv : UInv st
  cuIn : ∀ c, cu = some c → c ∈ uuids st
  nodup : (fs.map (·.uuid)).Nodup
  unused : ∀ f ∈ fs, f.uuid ∉ uuids st ∧ f.uuid < st.next
  pend : ∀ c, cu = some c → ∀ f ∈ fs, f.uuid ∈ dget st.flp c

theorem runU_nil {w : World} {L : Option (List Link)} {st : St} {cu : Option Nat} (hu : UInv st) : RunU w L st cu [] st :=
  ⟨Ext.refl st, hu, fun _ h => Or.inl h, fun _ _ _ => rfl, fun _ _ _ h => Or.inl ⟨h, by simp⟩, fun _ _ f hf => by simp at hf,
   fun _ _ _ h _ _ => h, fun _ h1 h2 => absurd h2 h1⟩

theorem runU_cons {w : World} {L : Option (List Link)} {st st4 st5 : St} {cu : Option Nat} {f f3 : Feat} {g : Nat} {rest : List Feat}
    (hp : prepare w L f = .ok (g, f3)) (hH : HeadU w L g f3 cu st st4) (hR : RunU w L st4 cu rest st5) (hpre : RunPre st cu (f :: rest)) :
    RunU w L st cu (f :: rest) st5 := by
  have hfu : f3.uuid = f.uuid := (prepare_fields hp).2.2.1
  have hu := hpre.uinv
  have hkeys4 : ∀ k, k ∈ dkeys st.flp → k ∈ dkeys st4.flp := fun k hk => (hH.uinv.keys k).mpr (hH.ext.uuids ((hu.keys k).mp hk))
  have hnd := hpre.nodup
  simp only [List.map_cons, List.nodup_cons] at hnd
  have hrest4 : ∀ r ∈ rest, r.uuid ∉ uuids st4 := by
    intro r hr hin
    rcases hH.newu _ hin with h1 | h1 | h1
    · exact (hpre.unused r (List.mem_cons_of_mem _ hr)).1 h1
    · apply hnd.1
      rw [← hfu, ← h1]
      exact List.mem_map.mpr ⟨r, hr, rfl⟩
    · have := (hpre.unused r (List.mem_cons_of_mem _ hr)).2
      omega
  refine ⟨Ext.trans hH.ext hR.ext, hR.uinv, ?_, ?_, ?_, ?_, ?_, ?_⟩
  · intro u hu'
    rcases hR.newu u hu' with h1 | h1 | h1
    · rcases hH.newu u h1 with h2 | h2 | h2
      · exact Or.inl h2
      · right; left; rw [h2, hfu]; simp
      · exact Or.inr (Or.inr h2)
    · right; left; simp only [List.map_cons, List.mem_cons]; exact Or.inr h1
    · exact Or.inr (Or.inr (Nat.le_trans hH.ext.2 h1))
  · intro k hk hne
    rw [hR.frame k (hkeys4 k hk) hne, hH.frame k hk hne]
  · intro c hc u hu'
    rcases hR.sound c hc u hu' with ⟨h1, h2⟩ | ⟨r, hr, g', f', hpr, hpf⟩
    · rcases hH.sound c hc u h1 with ⟨h3, h4⟩ | h3
      · left
        refine ⟨h3, ?_⟩
        simp only [List.map_cons, List.mem_cons, not_or]
        exact ⟨by rw [← hfu]; exact h4, h2⟩
      · right
        exact ⟨f, List.mem_cons_self, g, f3, hp, h3.mono hR.ext⟩
    · exact Or.inr ⟨r, List.mem_cons_of_mem _ hr, g', f', hpr, hpf⟩
  · intro c hc x hx g' f' hpx
    rw [List.mem_cons] at hx
    rcases hx with rfl | hx
    · rw [hp] at hpx
      simp only [Except.ok.injEq, Prod.mk.injEq] at hpx
      obtain ⟨rfl, rfl⟩ := hpx
      obtain ⟨e, he, hg, hk, hue⟩ := hH.rep c hc (by rw [hfu]; exact hpre.pend c hc _ List.mem_cons_self)
      refine ⟨e, hR.ext.mem he, hg, hk, hR.keep c hc _ hue ?_ (hH.uinv.lt _ (mem_uuids.mpr ⟨e, he, rfl⟩))⟩
      intro hin
      obtain ⟨r, hr, hru⟩ := List.mem_map.mp hin
      exact hrest4 r hr (hru ▸ mem_uuids.mpr ⟨e, he, rfl⟩)
    · exact hR.complete c hc x hx g' f' hpx
  · intro c hc u hu' hnin hlt
    simp only [List.map_cons, List.mem_cons, not_or] at hnin
    exact hR.keep c hc u (hH.keep c hc u hu' (by rw [hfu]; exact hnin.1) hlt) hnin.2 (Nat.lt_of_lt_of_le hlt hH.ext.2)
  · intro k hk1 hk2
    by_cases hk4 : k ∈ dkeys st4.flp
    · have hne : cu ≠ some k := by
        intro hh; exact hk1 ((hu.keys k).mpr (hpre.cuIn k hh))
      exact (hH.fresh k hk1 hk4).mono hR.ext hR.uinv ((hH.uinv.keys k).mp hk4) (hR.frame k hk4 hne)
    · exact hR.fresh k hk4 hk2

/-- the precondition for the rest of the list after its head has been processed -/
theorem runPre_rest {w : World} {L : Option (List Link)} {st st4 : St} {cu : Option Nat} {f f3 : Feat} {g : Nat} {rest : List Feat}
    (hfu : f3.uuid = f.uuid) (hH : HeadU w L g f3 cu st st4) (hpre : RunPre st cu (f :: rest)) : RunPre st4 cu rest := by
  have hnd := hpre.nodup
  simp only [List.map_cons, List.nodup_cons] at hnd
  refine ⟨hH.uinv, fun c hc => hH.ext.uuids (hpre.cuIn c hc), hnd.2, ?_, ?_⟩
  · intro r hr
    refine ⟨?_, Nat.lt_of_lt_of_le (hpre.unused r (List.mem_cons_of_mem _ hr)).2 hH.ext.2⟩
    intro hin
    rcases hH.newu _ hin with h1 | h1 | h1
    · exact (hpre.unused r (List.mem_cons_of_mem _ hr)).1 h1
    · apply hnd.1
      rw [← hfu, ← h1]
      exact List.mem_map.mpr ⟨r, hr, rfl⟩
    · have := (hpre.unused r (List.mem_cons_of_mem _ hr)).2
      omega
  · intro c hc r hr
    apply hH.keep c hc _ (hpre.pend c hc r (List.mem_cons_of_mem _ hr)) _ (hpre.unused r (List.mem_cons_of_mem _ hr)).2
    intro hh
    apply hnd.1
    rw [← hfu, ← hh]
    exact List.mem_map.mpr ⟨r, hr, rfl⟩

/-- head with expansion: own insertion, the parent set, the input features, then filter and index features -/
theorem headU_node {w : World} {L : Option (List Link)} (hw : PlainWorld w) {st st1 st2 st3 st4 : St} {g : Nat} {f3 : Feat} {cu : Option Nat}
    {t : Feat} {ts fs : List Feat}
    (ha : addFeature w st g f3 cu false = .ok (st1, true)) (hin : w.inputs g f3.key = some (t :: ts))
    (hm : mkInputs f3.key (t :: ts) st1.next = .ok fs)
    (hc : RunPre { st1 with flp := dset st1.flp f3.uuid (fs.map (·.uuid)), next := st1.next + (t :: ts).length } (some f3.uuid) fs →
      RunU w L { st1 with flp := dset st1.flp f3.uuid (fs.map (·.uuid)), next := st1.next + (t :: ts).length } (some f3.uuid) fs st2)
    (hf : addFilters w st2 g f3 cu = .ok st3) (hi : addIndexes w st3 g f3 cu = .ok st4) (hl3 : st3.links = L)
    (hu : UInv st) (hfu : f3.uuid ∉ uuids st) (hfl : f3.uuid < st.next) (hcu : ∀ c, cu = some c → c ∈ uuids st) :
    HeadU w L g f3 cu st st4 := by
  have hA := headAdd (L := L) ha hu hfu hfl hcu
  obtain ⟨hcoll1, hk1, _⟩ := hA.isnew rfl
  have huu : fs.map (·.uuid) = List.range' st1.next (t :: ts).length := by
    have := mkInputs_uuids (acc := []) hm
    simpa using this
  -- the state in which the input features are processed
  have hus1' : uuids ({ st1 with flp := dset st1.flp f3.uuid (fs.map (·.uuid)), next := st1.next + (t :: ts).length } : St) = uuids st1 := rfl
  have hu1' : UInv ({ st1 with flp := dset st1.flp f3.uuid (fs.map (·.uuid)), next := st1.next + (t :: ts).length } : St) := by
    refine ⟨hA.uinv.nodup, fun u h => Nat.lt_of_lt_of_le (hA.uinv.lt u h) (Nat.le_add_right _ _), ?_, Graph.nodup_dkeys_dset hA.uinv.kn _ _, ?_, ?_⟩
    · intro k
      simp only [Graph.mem_dkeys_dset]
      rw [hus1', ← hA.uinv.keys k]
      constructor
      · rintro (h1 | rfl)
        · exact h1
        · exact hk1
      · exact Or.inl
    · intro k u hk
      simp only [Graph.dget_dset] at hk
      split at hk
      · rw [huu, List.mem_range'_1] at hk
        simp only; omega
      · have := hA.uinv.vlt k u hk
        simp only; omega
    · intro k
      simp only [Graph.dget_dset]
      split
      · rw [huu]; exact List.nodup_range'
      · exact hA.uinv.vn k
  have hmem1 : (g, f3) ∈ st1.coll := by rw [hcoll1]; simp
  have hpre' : RunPre { st1 with flp := dset st1.flp f3.uuid (fs.map (·.uuid)), next := st1.next + (t :: ts).length } (some f3.uuid) fs := by
    refine ⟨hu1', ?_, by rw [huu]; exact List.nodup_range', ?_, ?_⟩
    · intro c hc
      simp only [Option.some.injEq] at hc
      subst hc
      exact mem_uuids.mpr ⟨(g, f3), hmem1, rfl⟩
    · intro x hx
      have hxm : x.uuid ∈ fs.map (·.uuid) := List.mem_map.mpr ⟨x, hx, rfl⟩
      rw [huu, List.mem_range'_1] at hxm
      refine ⟨?_, by simp only; omega⟩
      intro hin'
      have := hA.uinv.lt _ hin'
      omega
    · intro c hc x hx
      simp only [Option.some.injEq] at hc
      subst hc
      simp only [Graph.dget_dset, if_true]
      exact List.mem_map.mpr ⟨x, hx, rfl⟩
  have hC := hc hpre'
  have hcu2 : ∀ c, cu = some c → c ∈ uuids st2 := fun c hc => hC.ext.uuids (hA.ext.uuids (hcu c hc))
  have hX : AuxI w L g f3.key cu st2 st4 := by
    have h23 := addFilters_auxI (L := L) hw hf hC.uinv hcu2
    have h34 := addIndexes_auxI hi hl3 h23.uinv (fun c hc => h23.ext.uuids (hcu2 c hc))
    exact h23.trans h34 hC.uinv hcu2
  have hkne : ∀ k, k ∈ dkeys st.flp → f3.uuid ≠ k := by
    intro k hk hh
    exact hfu (hh ▸ (hu.keys k).mp hk)
  have hkeys1 : ∀ k, k ∈ dkeys st.flp → k ∈ dkeys st1.flp := fun k hk => (hA.uinv.keys k).mpr (hA.ext.uuids ((hu.keys k).mp hk))
  have hkeys1' : ∀ k, k ∈ dkeys st1.flp →
      k ∈ dkeys ({ st1 with flp := dset st1.flp f3.uuid (fs.map (·.uuid)), next := st1.next + (t :: ts).length } : St).flp := by
    intro k hk; simp only [Graph.mem_dkeys_dset]; exact Or.inl hk
  have hkeys2 : ∀ k, k ∈ dkeys st1.flp → k ∈ dkeys st2.flp := by
    intro k hk
    exact (hC.uinv.keys k).mpr (hC.ext.uuids ((hA.uinv.keys k).mp hk))
  -- parent sets of keys that existed before: untouched by the expansion
  have hflp2 : ∀ k, k ∈ dkeys st1.flp → k ≠ f3.uuid → dget st2.flp k = dget st1.flp k := by
    intro k hk hne
    rw [hC.frame k (hkeys1' k hk) (by intro hh; simp only [Option.some.injEq] at hh; exact hne hh.symm)]
    simp only [Graph.dget_dset]
    have : f3.uuid ≠ k := fun hh => hne hh.symm
    simp only [this, if_false]
  have hext14 : Ext st1 st4 := Ext.trans hC.ext hX.ext |> fun h => ⟨h.1, Nat.le_trans (by simp only; omega) h.2⟩
  refine ⟨Ext.trans hA.ext hext14, hX.uinv, ?_, ?_, ?_, ?_, ?_, ?_⟩
  · intro u hu'
    rcases hX.newu u hu' with h1 | h1
    · rcases hC.newu u h1 with h2 | h2 | h2
      · rw [hus1'] at h2
        rcases hA.newu u h2 with h3 | h3
        · exact Or.inl h3
        · exact Or.inr (Or.inl h3)
      · rw [huu, List.mem_range'_1] at h2
        right; right; rw [← hA.next]; exact h2.1
      · right; right
        simp only at h2
        rw [← hA.next]; omega
    · right; right
      have := hC.ext.2
      simp only at this
      rw [← hA.next]; omega
  · intro k hk hne
    have hk1' := hkeys1 k hk
    rw [hX.frame k (hkeys2 k hk1') hne, hflp2 k hk1' (fun hh => hkne k hk hh.symm), hA.frame k hk hne]
  · intro c hc u hu'
    have hck : c ∈ dkeys st.flp := (hu.keys c).mpr (hcu c hc)
    rcases hX.sound c hc u hu' with h1 | ⟨e, he, hg, hue, hak⟩
    · rw [hflp2 c (hkeys1 c hck) (fun hh => hkne c hck hh.symm)] at h1
      rcases hA.sound c hc u h1 with h2 | h2
      · exact Or.inl h2
      · exact Or.inr (h2.mono hext14)
    · exact Or.inr ⟨e, he, hg, hue, Or.inr hak⟩
  · intro c hc hmem
    have hck : c ∈ dkeys st.flp := (hu.keys c).mpr (hcu c hc)
    obtain ⟨e, he, hg, hk, hue⟩ := hA.rep c hc hmem
    refine ⟨e, hext14.mem he, hg, hk, hX.keep c hc _ ?_ ?_⟩
    · rw [hflp2 c (hkeys1 c hck) (fun hh => hkne c hck hh.symm)]; exact hue
    · exact Nat.lt_of_lt_of_le (hA.uinv.vlt c _ hue) (by have := hC.ext.2; simp only at this; omega)
  · intro c hc u hu' hne hlt
    have hck : c ∈ dkeys st.flp := (hu.keys c).mpr (hcu c hc)
    apply hX.keep c hc u
    · rw [hflp2 c (hkeys1 c hck) (fun hh => hkne c hck hh.symm)]
      exact hA.keep c hc u hu' hne
    · have := hC.ext.2
      simp only at this
      rw [hA.next] at this
      omega
  · intro k hkst hk4
    have hne : cu ≠ some k := by
      intro hh; exact hkst ((hu.keys k).mpr (hcu k hh))
    by_cases hk2 : k ∈ dkeys st2.flp
    · have hflp4 : dget st4.flp k = dget st2.flp k := hX.frame k hk2 hne
      by_cases hk1' : k ∈ dkeys st1.flp
      · -- the expanded feature itself
        obtain ⟨hkf, _, _⟩ := hA.newkey k hkst hk1'
        subst hkf
        intro e he hek
        have : e = (g, f3) := entry_unique hX.uinv.nodup he (hext14.mem hmem1) (by rw [hek])
        subst this
        rw [hflp4]
        refine ⟨?_, ?_⟩
        · intro u hu'
          rcases hC.sound f3.uuid rfl u hu' with ⟨h1, h2⟩ | ⟨x, hx, g', f', hpx, hpf⟩
          · simp only [Graph.dget_dset, if_true] at h1
            exact absurd h1 h2
          · obtain ⟨t0, ht0, n0, _, _, hmk0⟩ := mkInputs_mem hm x hx
            exact ⟨t :: ts, t0, n0, x, g', f', hin, ht0, hmk0, hpx, hpf.mono hX.ext⟩
        · intro _ ts' t0 n t' g' f' hin' ht0 hmk hpt
          simp only at hin'
          rw [hin] at hin'
          simp only [Option.some.injEq] at hin'
          subst hin'
          obtain ⟨x, hx, u0, hmk0⟩ := mkInputs_complete hm t0 ht0
          have hmk1 := mkInput_uuid_indep hmk0 n
          simp only at hmk
          rw [hmk] at hmk1
          simp only [Except.ok.injEq] at hmk1
          have hk : t'.key = x.key := by rw [hmk1]
          have hpx := prepare_key_congr hk hpt
          obtain ⟨e', he', hg', hk', hue'⟩ := hC.complete f3.uuid rfl x hx g' _ hpx
          exact ⟨e', hX.ext.mem he', hg', hk', hue'⟩
      · -- collected while the input features were processed
        have hk1'' : k ∉ dkeys ({ st1 with flp := dset st1.flp f3.uuid (fs.map (·.uuid)), next := st1.next + (t :: ts).length } : St).flp := by
          simp only [Graph.mem_dkeys_dset, not_or]
          exact ⟨hk1', fun hh => hk1' (hh ▸ hk1)⟩
        exact (hC.fresh k hk1'' hk2).mono hX.ext hX.uinv ((hC.uinv.keys k).mp hk2) hflp4
    · obtain ⟨hnil, hnex⟩ := hX.fresh k hk2 hk4
      intro e he hek
      rw [hnil]
      exact ⟨fun u hu' => by simp at hu', fun hex => absurd hex (hnex e he hek)⟩

/-- the main induction on the derivation -/
theorem Run.runU {w : World} {L : Option (List Link)} (hw : PlainWorld w) {st : St} {cu : Option Nat} {fs : List Feat} {st' : St}
    (h : Run w st cu fs st') (hl : st.links = L) (hnl : ∀ f ∈ fs, f.link = none) (hpre : RunPre st cu fs) : RunU w L st cu fs st' := by
  induction h with
  | nil st cu => exact runU_nil hpre.uinv
  | @leaf st st1 st3 st4 st5 cu f f3 g added rest hp ha hlf hf hi hr ih =>
    have hfl : f3.link = none := by rw [(prepare_fields hp).1]; exact hnl f List.mem_cons_self
    have hfu : f3.uuid = f.uuid := (prepare_fields hp).2.2.1
    have l1 : st1.links = L := by rw [addFeature_links ha hfl]; exact hl
    have l3 : st3.links = L := by rw [addFilters_links hf]; exact l1
    have l4 : st4.links = L := by rw [addIndexes_links hi]; exact l3
    rw [hl] at hp
    have hun := hpre.unused f List.mem_cons_self
    have hH : HeadU w L g f3 cu st st4 :=
      headU_leaf hw ha hlf hf hi l3 hpre.uinv (by rw [hfu]; exact hun.1) (by rw [hfu]; exact hun.2) hpre.cuIn
    exact runU_cons hp hH (ih l4 (fun x hx => hnl x (List.mem_cons_of_mem _ hx)) (runPre_rest hfu hH hpre)) hpre
  | @node st st1 st2 st3 st4 st5 cu f f3 g t ts fs rest hp ha hin hm hc hf hi hr ihc ihr =>
    have hfl : f3.link = none := by rw [(prepare_fields hp).1]; exact hnl f List.mem_cons_self
    have hfu : f3.uuid = f.uuid := (prepare_fields hp).2.2.1
    have l1 : st1.links = L := by rw [addFeature_links ha hfl]; exact hl
    have hfsl : ∀ x ∈ fs, x.link = none := by
      intro x hx
      obtain ⟨t', ht', u, _, _, hmk⟩ := mkInputs_mem hm x hx
      rw [(mkInput_fields hmk).1]; exact hw.inputs_nolink g f3.key _ t' hin ht'
    have l2 : st2.links = L := by rw [hc.links_const hw hfsl]; exact l1
    have l3 : st3.links = L := by rw [addFilters_links hf]; exact l2
    have l4 : st4.links = L := by rw [addIndexes_links hi]; exact l3
    rw [hl] at hp
    have hun := hpre.unused f List.mem_cons_self
    have hH : HeadU w L g f3 cu st st4 :=
      headU_node hw ha hin hm (fun hpre' => ihc l1 hfsl hpre') hf hi l3 hpre.uinv (by rw [hfu]; exact hun.1) (by rw [hfu]; exact hun.2) hpre.cuIn
    exact runU_cons hp hH (ihr l4 (fun x hx => hnl x (List.mem_cons_of_mem _ hx)) (runPre_rest hfu hH hpre)) hpre

end EngineColl
