import MlodaVerif.Model.BuiltinText
/-! Helper lemmas for the text-cleaning theorems of `Props/C19.lean` (core Lean only). -/

namespace Builtin.Text

/-- no character on which the two regex engines' `\s` differ -/
def CleanS (s : Str) : Prop := ∀ ch ∈ s, oddSpace ch = false

theorem sp_eq {ch : Char} (h : oddSpace ch = false) : isSpacePy ch = isSpaceRe2 ch := by simp [isSpacePy, h]

theorem toLower_toNat (c : Char) : c.toLower.toNat = c.toNat ∨ (97 ≤ c.toLower.toNat ∧ c.toLower.toNat ≤ 122) := by
  unfold Char.toLower
  split
  · rename_i h
    right
    have h1 : 65 ≤ c.val.toNat := by simpa [UInt32.le_iff_toNat_le] using h.1
    have h2 : c.val.toNat ≤ 90 := by simpa [UInt32.le_iff_toNat_le] using h.2
    simp only [Char.toNat]
    have : (c.val + ('a'.val - 'A'.val)).toNat = c.val.toNat + 32 := by
      rw [UInt32.toNat_add]
      have : ('a'.val - 'A'.val).toNat = 32 := by decide
      rw [this]; omega
    omega
  · left; rfl

theorem odd_toLower (c : Char) (h : oddSpace c = false) : oddSpace c.toLower = false := by
  rcases toLower_toNat c with e | ⟨h1, h2⟩
  · simpa [oddSpace, e] using h
  · simp [oddSpace]; omega

/-! ### congruence: on clean strings the two `\s` classes give the same result -/

theorem collapse_congr (s : Str) (h : CleanS s) (b : Bool) : collapse isSpacePy s b = collapse isSpaceRe2 s b := by
  induction s generalizing b with
  | nil => rfl
  | cons c cs ih =>
    have hc : isSpacePy c = isSpaceRe2 c := sp_eq (h c (by simp))
    have hcs : CleanS cs := fun ch hch => h ch (by simp [hch])
    simp [collapse, hc, ih hcs]

theorem runs_congr (s : Str) (h : CleanS s) : runs isSpacePy s = runs isSpaceRe2 s := by
  induction s with
  | nil => rfl
  | cons c cs ih =>
    have hc : isSpacePy c = isSpaceRe2 c := sp_eq (h c (by simp))
    have hcs : CleanS cs := fun ch hch => h ch (by simp [hch])
    simp [runs, hc, ih hcs]

theorem applyOp_congr (op : Op) (s : Str) (h : CleanS s) : applyOp isSpacePy op s = applyOp isSpaceRe2 op s := by
  cases op with
  | normalize => rfl
  | removeStopwords => rfl
  | removePunctuation => rfl
  | removeSpecialChars =>
    simp only [applyOp, removeSpecial]
    apply List.filter_congr
    intro ch hch
    rw [sp_eq (h ch hch)]
  | normalizeWhitespace => simp [applyOp, normalizeWs, collapse_congr s h]
  | removeUrls => simp [applyOp, removeUrls, runs_congr s h]

/-! ### preservation: cleaning never introduces such a character -/

theorem collapse_mem (sp : Char → Bool) (s : Str) (b : Bool) : ∀ ch ∈ collapse sp s b, ch = ' ' ∨ ch ∈ s := by
  induction s generalizing b with
  | nil => simp [collapse]
  | cons c cs ih =>
    intro ch hch
    simp only [collapse] at hch
    split at hch
    · split at hch
      · rcases ih true ch hch with h | h
        · exact .inl h
        · exact .inr (by simp [h])
      · rcases List.mem_cons.mp hch with h | h
        · exact .inl h
        · rcases ih true ch h with h | h
          · exact .inl h
          · exact .inr (by simp [h])
    · rcases List.mem_cons.mp hch with h | h
      · exact .inr (by simp [h])
      · rcases ih false ch h with h | h
        · exact .inl h
        · exact .inr (by simp [h])

theorem strip_mem (s : Str) : ∀ ch ∈ strip s, ch ∈ s := by
  intro ch hch
  unfold strip at hch
  have h1 := List.mem_reverse.mp hch
  have h2 := (List.dropWhile_sublist _).subset h1
  have h3 := List.mem_reverse.mp h2
  exact (List.dropWhile_sublist _).subset h3

theorem runs_mem (sp : Char → Bool) (s : Str) : ∀ p ∈ runs sp s, ∀ ch ∈ p.2, ch ∈ s := by
  induction s with
  | nil => simp [runs]
  | cons c cs ih =>
    intro p hp ch hch
    simp only [runs] at hp
    split at hp
    · rename_i b r rest hr
      have ihr : ∀ ch ∈ r, ch ∈ cs := fun ch hch => ih (b, r) (by simp [hr]) ch hch
      split at hp
      · rcases List.mem_cons.mp hp with rfl | hp
        · rcases List.mem_cons.mp hch with h | h
          · simp [h]
          · simp [ihr ch h]
        · have := ih p (by simp [hr, hp]) ch hch
          simp [this]
      · rcases List.mem_cons.mp hp with rfl | hp
        · simp at hch; simp [hch]
        · have := ih p (by rw [hr]; exact hp) ch hch
          simp [this]
    · simp at hp; subst hp; simp at hch; simp [hch]

theorem cutUrl_mem (t : Str) : ∀ ch ∈ cutUrl t, ch ∈ t := by
  induction t with
  | nil => simp [cutUrl]
  | cons c cs ih =>
    intro ch hch
    simp only [cutUrl] at hch
    split at hch
    · simp at hch
    · rcases List.mem_cons.mp hch with h | h
      · simp [h]
      · simp [ih ch h]

theorem removeUrls_mem (sp : Char → Bool) (s : Str) : ∀ ch ∈ removeUrls sp s, ch ∈ s := by
  intro ch hch
  simp only [removeUrls, List.mem_flatten, List.mem_map] at hch
  obtain ⟨piece, ⟨q, ⟨p, hp, rfl⟩, rfl⟩, hmem⟩ := hch
  have hr := runs_mem sp s p hp
  obtain ⟨b, r⟩ := p
  by_cases hb : b = true
  · simp [hb] at hmem; exact hr ch hmem
  · simp [hb] at hmem
    exact hr ch (cutUrl_mem r ch hmem.2)

theorem applyOp_clean (sp : Char → Bool) (op : Op) (s : Str) (h : CleanS s) : CleanS (applyOp sp op s) := by
  intro ch hch
  cases op with
  | normalize =>
    simp only [applyOp, lower, List.mem_map] at hch
    obtain ⟨c, hc, rfl⟩ := hch
    exact odd_toLower c (h c hc)
  | removeStopwords => exact h ch hch
  | removePunctuation => exact h ch (List.mem_filter.mp hch).1
  | removeSpecialChars => exact h ch (List.mem_filter.mp hch).1
  | normalizeWhitespace =>
    rcases collapse_mem sp s false ch (strip_mem _ ch hch) with rfl | hm
    · decide
    · exact h ch hm
  | removeUrls => exact h ch (removeUrls_mem _ s ch hch)

theorem foldl_agree (ops : List Op) (s : Str) (h : CleanS s) :
    ops.foldl (fun s op => applyOp isSpacePy op s) s = ops.foldl (fun s op => applyOp isSpaceRe2 op s) s := by
  induction ops generalizing s with
  | nil => rfl
  | cons op ops ih =>
    simp only [List.foldl_cons, applyOp_congr op s h]
    exact ih _ (applyOp_clean isSpaceRe2 op s h)

end Builtin.Text
