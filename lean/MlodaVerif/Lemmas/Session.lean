import MlodaVerif.Model.Session
/-! Helper lemmas for C07 (core Lean only). -/
namespace Session

/-! ### run histories -/

/-- with the code's configuration a call's outcome is a function of the plan, the effective api data and the call -/
def outcomeOf (plan : Plan) (dEff : Option ApiData) (op : Op) : Outcome :=
  (step Cfg.asIs { plan := plan, stored := dEff, runner := none }
    (match op with | .run _ m => .run dEff m | .stream _ m c => .stream dEff m c)).2

theorem effective_self (d : Option ApiData) : effective d d = d := by
  cases d <;> rfl

theorem step_asIs_outcome (s : Sess) (op : Op) :
    (step Cfg.asIs s op).2 = outcomeOf s.plan (effective op.data s.stored) op := by
  unfold outcomeOf
  cases op with
  | run d m => simp only [step, Op.data, newRunner, Cfg.asIs, effective_self, if_true]; split <;> (try split) <;> rfl
  | stream d m c =>
    simp only [step, Op.data, newRunner, Cfg.asIs, effective_self, if_true]
    split <;> rfl

theorem step_asIs_state (s : Sess) (op : Op) :
    (step Cfg.asIs s op).1.plan = s.plan ∧ (step Cfg.asIs s op).1.stored = s.stored := by
  cases op with
  | run d m => simp only [step, Cfg.asIs, if_true]; split <;> (try split) <;> exact ⟨rfl, rfl⟩
  | stream d m c => simp only [step, Cfg.asIs, if_true]; split <;> exact ⟨rfl, rfl⟩

theorem runSpec_eq (plan : Plan) (stored : Option ApiData) (op : Op) :
    runSpec plan stored op = outcomeOf plan (effective op.data stored) op := by
  unfold runSpec
  rw [step_asIs_outcome]
  simp only [prepare]
  cases op <;> simp [Op.data, effective_self, outcomeOf]

/-! ### the shared GlobalFilter -/

theorem mem_addToCollection {c : Coll} {kf x : CollKey × SFilter} : x ∈ addToCollection c kf ↔ x ∈ c ∨ x = kf := by
  unfold addToCollection
  split
  · rename_i h
    constructor
    · intro hx; exact Or.inl hx
    · rintro (hx | rfl)
      · exact hx
      · simpa using h
  · simp

theorem mem_foldl_add {as : Coll} : ∀ {c : Coll} {x : CollKey × SFilter},
    x ∈ as.foldl addToCollection c ↔ x ∈ c ∨ x ∈ as := by
  induction as with
  | nil => intro c x; simp
  | cons a as ih =>
    intro c x
    simp only [List.foldl_cons, ih, mem_addToCollection, List.mem_cons]
    constructor
    · rintro ((h | h) | h)
      · exact Or.inl h
      · exact Or.inr (Or.inl h)
      · exact Or.inr (Or.inr h)
    · rintro (h | h | h)
      · exact Or.inl (Or.inl h)
      · exact Or.inl (Or.inr h)
      · exact Or.inr h

/-- adding pairs that are all present changes nothing (`set.add` of an equal element) -/
theorem foldl_add_of_subset {as : Coll} : ∀ {c : Coll}, (∀ x ∈ as, x ∈ c) → as.foldl addToCollection c = c := by
  induction as with
  | nil => intro c _; rfl
  | cons a as ih =>
    intro c h
    have ha : a ∈ c := h a (by simp)
    have : addToCollection c a = c := by
      unfold addToCollection; simp [ha]
    simp only [List.foldl_cons, this]
    exact ih (fun x hx => h x (by simp [hx]))

theorem mem_adds {w : Groups} {filters : List UFilter} {r : Req} {k : CollKey} {f : SFilter} :
    (k, f) ∈ adds w filters r ↔ k ∈ r.feats ∧ f ∈ matched w filters k.1 r.fw r.opts := by
  unfold adds
  simp only [List.mem_flatMap, List.mem_map]
  constructor
  · rintro ⟨gn, hgn, f', hf', heq⟩
    cases heq
    exact ⟨hgn, hf'⟩
  · rintro ⟨hk, hf⟩
    exact ⟨k, hk, f, hf, rfl⟩

theorem mem_setAt {c : Coll} {k : CollKey} {f : SFilter} : f ∈ setAt c k ↔ (k, f) ∈ c := by
  unfold setAt
  simp only [List.mem_map, List.mem_filter, beq_iff_eq]
  constructor
  · rintro ⟨e, ⟨he, hk⟩, rfl⟩; rw [← hk]; exact he
  · intro h; exact ⟨(k, f), ⟨h, rfl⟩, rfl⟩

theorem mem_keys {c : Coll} {k : CollKey} : k ∈ keys c ↔ ∃ f, (k, f) ∈ c := by
  unfold keys
  simp only [List.mem_eraseDups, List.mem_map]
  constructor
  · rintro ⟨e, he, rfl⟩; exact ⟨e.2, he⟩
  · rintro ⟨f, hf⟩; exact ⟨(k, f), hf, rfl⟩

theorem sameSet_iff {a b : List SFilter} : sameSet a b = true ↔ ∀ f, f ∈ a ↔ f ∈ b := by
  unfold sameSet
  simp only [Bool.and_eq_true, List.all_eq_true, List.contains_iff_mem]
  constructor
  · rintro ⟨h1, h2⟩ f; exact ⟨h1 f, h2 f⟩
  · intro h; exact ⟨fun f hf => (h f).mp hf, fun f hf => (h f).mpr hf⟩

/-- if every hit key carries (as a set) the filters `M`, the conflict check passes and the feature set gets `M`
(or nothing when no key hits) -/
theorem relevantOver_uniform (c : Coll) (g : Nat) (names : List Nat) (M : List SFilter) :
    ∀ (ks : List CollKey) (rel : List SFilter),
      (∀ k ∈ ks, k.1 = g → names.contains k.2 = true → sameSet (setAt c k) M = true ∧ setAt c k ≠ []) →
      (rel = [] ∨ sameSet rel M = true) →
      ∃ fs, relevantOver c g names ks rel = .ok fs ∧ (fs = [] ∨ sameSet fs M = true) ∧
        ((rel ≠ [] ∨ ∃ k ∈ ks, k.1 = g ∧ names.contains k.2 = true) → fs ≠ []) := by
  intro ks
  induction ks with
  | nil => intro rel _ hrel; exact ⟨rel, rfl, hrel, by rintro (h | ⟨k, hk, _⟩); exact h; cases hk⟩
  | cons k ks ih =>
    intro rel hks hrel
    have hks' : ∀ k' ∈ ks, k'.1 = g → names.contains k'.2 = true → sameSet (setAt c k') M = true ∧ setAt c k' ≠ [] :=
      fun k' hk' => hks k' (by simp [hk'])
    unfold relevantOver
    by_cases hit : (k.1 == g && names.contains k.2) = true
    · simp only [hit, if_true]
      have hit' : k.1 = g ∧ names.contains k.2 = true := by simpa using hit
      obtain ⟨hsame, hne⟩ := hks k (by simp) hit'.1 hit'.2
      by_cases hre : rel.isEmpty = true
      · simp only [hre, if_true]
        obtain ⟨fs, h1, h2, h3⟩ := ih (setAt c k) hks' (Or.inr hsame)
        exact ⟨fs, h1, h2, fun _ => h3 (Or.inl hne)⟩
      · simp only [hre]
        have hrel' : sameSet rel M = true := by
          rcases hrel with h | h
          · simp [h] at hre
          · exact h
        have : sameSet rel (setAt c k) = true := by
          rw [sameSet_iff] at *; intro f; rw [hrel' f, hsame f]
        simp only [this, if_true]
        obtain ⟨fs, h1, h2, h3⟩ := ih rel hks' (Or.inr hrel')
        have hrne : rel ≠ [] := by intro h; simp [h] at hre
        exact ⟨fs, h1, h2, fun _ => h3 (Or.inl hrne)⟩
    · simp only [hit]
      obtain ⟨fs, h1, h2, h3⟩ := ih rel hks' hrel
      refine ⟨fs, h1, h2, ?_⟩
      rintro (h | ⟨k', hk', hg, hn⟩)
      · exact h3 (Or.inl h)
      · rcases List.mem_cons.mp hk' with rfl | hk''
        · exact absurd (by rw [Bool.and_eq_true]; exact ⟨by simp [hg], hn⟩) hit
        · exact h3 (Or.inr ⟨k', hk'', hg, hn⟩)

/-! ### object identity under `deepcopy` -/

theorem touchAt_length (i : Nat) (h : Heap) : (touchAt i h).length = h.length := by
  induction h generalizing i with
  | nil => cases i <;> rfl
  | cons o os ih => cases i with
    | zero => rfl
    | succ i => simp [touchAt, ih]

theorem touchAt_opts (i : Nat) (h : Heap) : (touchAt i h).map (·.opts) = h.map (·.opts) := by
  induction h generalizing i with
  | nil => cases i <;> rfl
  | cons o os ih => cases i with
    | zero => rfl
    | succ i => simp [touchAt, ih]

theorem take_touchAt {n i : Nat} (hle : n ≤ i) (h : Heap) : (touchAt i h).take n = h.take n := by
  induction h generalizing i n with
  | nil => cases i <;> rfl
  | cons o os ih =>
    cases n with
    | zero => simp
    | succ n =>
      cases i with
      | zero => omega
      | succ i => simp [touchAt, ih (Nat.le_of_succ_le_succ hle)]

/-- `refsOf` only looks at the option dicts -/
theorem refsOf_congr {h h' : Heap} (e : h.map (·.opts) = h'.map (·.opts)) (i : Nat) : refsOf h i = refsOf h' i := by
  unfold refsOf
  have : (h[i]?).map (·.opts) = (h'[i]?).map (·.opts) := by
    rw [← List.getElem?_map, ← List.getElem?_map, e]
  cases h1 : h[i]? <;> cases h2 : h'[i]? <;> simp [h1, h2] at this ⊢
  rw [this]

/-- objects at positions `≥ n` only refer to positions `≥ n` -/
def Sep (n : Nat) (h : Heap) : Prop := ∀ i, n ≤ i → ∀ r ∈ refsOf h i, n ≤ r

theorem foldl_touchAt_facts (n : Nat) : ∀ (roots : List Nat) (h : Heap), (∀ r ∈ roots, n ≤ r) →
    (roots.foldl (fun h i => touchAt i h) h).take n = h.take n ∧
    (roots.foldl (fun h i => touchAt i h) h).map (·.opts) = h.map (·.opts) := by
  intro roots
  induction roots with
  | nil => intro h _; exact ⟨rfl, rfl⟩
  | cons r rs ih =>
    intro h hr
    simp only [List.foldl_cons]
    obtain ⟨h1, h2⟩ := ih (touchAt r h) (fun x hx => hr x (by simp [hx]))
    exact ⟨h1.trans (take_touchAt (hr r (by simp)) h), h2.trans (touchAt_opts r h)⟩

theorem take_touch (n : Nat) : ∀ (fuel : Nat) (roots : List Nat) (h : Heap), (∀ r ∈ roots, n ≤ r) → Sep n h →
    (touch fuel roots h).take n = h.take n := by
  intro fuel
  induction fuel with
  | zero => intro roots h _ _; rfl
  | succ fuel ih =>
    intro roots h hr hs
    simp only [touch]
    obtain ⟨h1, h2⟩ := foldl_touchAt_facts n roots h hr
    have hs' : Sep n (roots.foldl (fun h i => touchAt i h) h) := by
      intro i hi r hrr
      rw [refsOf_congr h2 i] at hrr
      exact hs i hi r hrr
    rw [ih _ _ ?_ hs', h1]
    intro r hrr
    obtain ⟨i, hi, hri⟩ := List.mem_flatMap.mp hrr
    exact hs' i (hr i hi) r hri

/-- in the deep copy made by the code, the copies refer to copies only -/
theorem sep_deepcopy (h : Heap) : Sep h.length (deepcopyHeap true h) := by
  intro i hi r hr
  unfold refsOf deepcopyHeap at hr
  simp only [if_true] at hr
  rw [List.getElem?_append_right hi] at hr
  cases hg : (h.map (copyObj h.length))[i - h.length]? with
  | none => simp [hg] at hr
  | some o =>
    simp only [hg] at hr
    rw [List.getElem?_map] at hg
    cases ho : h[i - h.length]? with
    | none => simp [ho] at hg
    | some o' =>
      simp only [ho, Option.map_some, Option.some.injEq] at hg
      subst hg
      simp only [copyObj, List.flatMap_map, List.mem_flatMap] at hr
      obtain ⟨kv, _, hkv⟩ := hr
      cases hv : kv.2 with
      | scalar n => simp [hv, shiftVal] at hkv
      | handle x => simp [hv, shiftVal] at hkv
      | feats ids =>
        simp only [hv, shiftVal, List.mem_map] at hkv
        obtain ⟨a, _, rfl⟩ := hkv
        omega

end Session
