import MlodaVerif.Lemmas.LinkOrderBasic
/-! Lemmas about `order_queue_by_trekker_order` (`LinkOrder.orderQueue`): what is kept, what can appear, the ordering
guarantee. -/
namespace LinkOrder

/-- uuids of the link entries of a planned queue, in order -/
def linkIds : List PEl → List Nat
  | [] => []
  | .fg _ :: r => linkIds r
  | .link k :: r => k.link :: linkIds r

/-- the feature-group entries of a planned queue, in order -/
def nonLinks (l : List PEl) : List PEl := l.filter (fun p => !p.isLink)

/-- the link entries of a planned queue, in order -/
def linkKeys : List PEl → List Key
  | [] => []
  | .fg _ :: r => linkKeys r
  | .link k :: r => k :: linkKeys r

theorem linkIds_append (a b : List PEl) : linkIds (a ++ b) = linkIds a ++ linkIds b := by
  induction a with
  | nil => rfl
  | cons x r ih => cases x <;> simp [linkIds, ih]

theorem linkKeys_append (a b : List PEl) : linkKeys (a ++ b) = linkKeys a ++ linkKeys b := by
  induction a with
  | nil => rfl
  | cons x r ih => cases x <;> simp [linkKeys, ih]

theorem mem_linkKeys {l : List PEl} {k : Key} : k ∈ linkKeys l ↔ PEl.link k ∈ l := by
  induction l with
  | nil => simp [linkKeys]
  | cons x r ih => cases x <;> simp [linkKeys, ih]

theorem linkIds_eq_map (l : List PEl) : linkIds l = (linkKeys l).map (·.link) := by
  induction l with
  | nil => rfl
  | cons x r ih => cases x <;> simp [linkIds, linkKeys, ih]

theorem mem_linkIds {l : List PEl} {u : Nat} : u ∈ linkIds l ↔ ∃ d, PEl.link d ∈ l ∧ d.link = u := by
  rw [linkIds_eq_map]
  simp [mem_linkKeys]

theorem linkKeys_map_link (L : List Key) : linkKeys (L.map PEl.link) = L := by
  induction L with
  | nil => rfl
  | cons a r ih => simp [linkKeys, ih]

theorem nonLinks_append (a b : List PEl) : nonLinks (a ++ b) = nonLinks a ++ nonLinks b := by
  simp [nonLinks]

theorem nonLinks_map_link (L : List Key) : nonLinks (L.map PEl.link) = [] := by
  induction L with
  | nil => rfl
  | cons a r ih => simp [nonLinks, PEl.isLink] at ih ⊢

/-! ### `firstMissing` -/

theorem firstMissing_none_iff {orders : Order} {added : List Nat} {u : Nat} :
    firstMissing orders added u = none ↔ ∀ e ∈ orders, u ∈ e.2 → e.1 ∈ added := by
  induction orders with
  | nil => simp [firstMissing]
  | cons e r ih =>
    simp only [firstMissing, List.mem_cons, forall_eq_or_imp]
    split
    · rename_i h
      simp only [reduceCtorEq, false_iff, not_and]
      intro h1; exact absurd (h1 h.1) h.2
    · rename_i h
      rw [ih]
      constructor
      · intro h2
        refine ⟨fun hu => ?_, h2⟩
        exact Classical.byContradiction (fun hn => h ⟨hu, hn⟩)
      · exact fun h2 => h2.2

theorem firstMissing_some {orders : Order} {added : List Nat} {u k : Nat} (h : firstMissing orders added u = some k) :
    k ∉ added ∧ ∃ e ∈ orders, e.1 = k ∧ u ∈ e.2 := by
  induction orders with
  | nil => simp [firstMissing] at h
  | cons e r ih =>
    simp only [firstMissing] at h
    split at h
    · rename_i hc
      have : e.1 = k := Option.some.inj h
      exact ⟨this ▸ hc.2, e, List.mem_cons_self, this, hc.1⟩
    · obtain ⟨h1, e', he', h2⟩ := ih h
      exact ⟨h1, e', List.mem_cons_of_mem _ he', h2⟩

/-- `firstMissing` only looks at `added` through membership -/
theorem firstMissing_congr {orders : Order} {a b : List Nat} (h : ∀ u, u ∈ a ↔ u ∈ b) (u : Nat) :
    firstMissing orders a u = firstMissing orders b u := by
  induction orders with
  | nil => rfl
  | cons e r ih => simp only [firstMissing, h, ih]

/-! ### `iterSet` -/

theorem mem_iterSet {ord s : List Key} {x : Key} : x ∈ iterSet ord s ↔ x ∈ s := by
  simp only [iterSet]
  split
  · rename_i h; exact ⟨h.2.1 x, h.2.2 x⟩
  · rfl

theorem nodup_iterSet {ord s : List Key} (h : s.Nodup) : (iterSet ord s).Nodup := by
  simp only [iterSet]
  split
  · rename_i h'; exact h'.1
  · exact h

theorem iterSet_perm {ord s : List Key} (h : s.Nodup) : (iterSet ord s).Perm s :=
  (List.perm_ext_iff_of_nodup (nodup_iterSet h) h).mpr (fun _ => mem_iterSet)

/-- every enumeration of the set is realised by handing it in as `ord` -/
theorem iterSet_realises {ord s : List Key} (h : ord.Nodup) (hm : ∀ x, x ∈ ord ↔ x ∈ s) : iterSet ord s = ord := by
  simp only [iterSet]
  rw [if_pos]
  exact ⟨h, fun x hx => (hm x).mp hx, fun x hx => (hm x).mpr hx⟩

/-! ### `readd`: the links appended are a sub-list of the dependants, in iteration order -/

theorem readd_spec (orders : Order) (ds : List Key) (out : List PEl) (added : List Nat) :
    ∃ L : List Key, L.Sublist ds ∧ (readd orders ds (out, added)).1 = out ++ L.map PEl.link ∧
      (∀ u, u ∈ (readd orders ds (out, added)).2 ↔ u ∈ added ∨ u ∈ L.map (·.link)) := by
  induction ds generalizing out added with
  | nil => exact ⟨[], List.Sublist.refl _, by simp [readd], by simp [readd]⟩
  | cons d r ih =>
    simp only [readd]
    split
    · obtain ⟨L, hs, ho, ha⟩ := ih out added
      exact ⟨L, hs.cons _, ho, ha⟩
    · obtain ⟨L, hs, ho, ha⟩ := ih (out ++ [.link d]) (sadd added d.link)
      refine ⟨d :: L, hs.cons_cons _, by rw [ho]; simp, ?_⟩
      intro u; rw [ha u, mem_sadd]; simp only [List.map_cons, List.mem_cons]
      constructor
      · rintro ((h | h) | h)
        · exact Or.inl h
        · exact Or.inr (Or.inl h)
        · exact Or.inr (Or.inr h)
      · rintro (h | h | h)
        · exact Or.inl (Or.inl h)
        · exact Or.inl (Or.inr h)
        · exact Or.inr h

/-! ### what `oqStep` does to `out` -/

/-- every step appends to `out`: the element itself or nothing, then possibly links that were filed before -/
theorem oqStep_out (orders : Order) (ords : Nat → List Key) (st : OQ) (p : PEl) :
    ∃ L : List Key, (∀ d ∈ L, ∃ e ∈ st.issues, d ∈ e.2) ∧
      ((oqStep orders ords st p).out = st.out ++ L.map PEl.link ∧ p.isLink = true ∨
       (oqStep orders ords st p).out = st.out ++ p :: L.map PEl.link) := by
  cases p with
  | fg i => exact ⟨[], by simp, Or.inr (by simp [oqStep])⟩
  | link key =>
    simp only [oqStep]
    split
    · exact ⟨[], by simp, Or.inl ⟨by simp, rfl⟩⟩
    · split
      · exact ⟨[], by simp, Or.inr (by simp)⟩
      · rename_i deps hd
        obtain ⟨L, hs, ho, _⟩ := readd_spec orders (iterSet (ords key.link) deps) (st.out ++ [.link key]) (sadd st.added key.link)
        refine ⟨L, ?_, Or.inr (by rw [ho]; simp)⟩
        intro d hdL
        exact ⟨(key.link, deps), dget_some_mem hd, mem_iterSet.mp (hs.subset hdL)⟩

theorem mem_issueAdd {is : List (Nat × List Key)} {k : Nat} {p : Key} {e : Nat × List Key} {d : Key}
    (he : e ∈ issueAdd is k p) (hd : d ∈ e.2) : d = p ∨ ∃ e' ∈ is, d ∈ e'.2 := by
  simp only [issueAdd] at he
  split at he
  · obtain ⟨v, hv, hv'⟩ := (mem_dmodify (k' := e.1) (v' := e.2)).mp he
    rw [hv'] at hd
    split at hd
    · split at hd
      · exact Or.inr ⟨_, hv, hd⟩
      · rcases List.mem_append.mp hd with h | h
        · exact Or.inr ⟨_, hv, h⟩
        · simp at h; exact Or.inl h
    · exact Or.inr ⟨_, hv, hd⟩
  · rcases List.mem_append.mp he with h | h
    · exact Or.inr ⟨e, h, hd⟩
    · simp at h; subst h; simp at hd; exact Or.inl hd

theorem oqStep_issues (orders : Order) (ords : Nat → List Key) (st : OQ) (p : PEl) {e : Nat × List Key} {d : Key}
    (he : e ∈ (oqStep orders ords st p).issues) (hd : d ∈ e.2) : p = .link d ∨ ∃ e' ∈ st.issues, d ∈ e'.2 := by
  cases p with
  | fg i => exact Or.inr ⟨e, by simpa [oqStep] using he, hd⟩
  | link key =>
    simp only [oqStep] at he
    split at he
    · rcases mem_issueAdd he hd with h | h
      · exact Or.inl (by rw [h])
      · exact Or.inr h
    · split at he
      · exact Or.inr ⟨e, he, hd⟩
      · exact Or.inr ⟨e, he, hd⟩

def oqRun (orders : Order) (ords : Nat → List Key) (st : OQ) (q : List PEl) : OQ := q.foldl (oqStep orders ords) st

theorem orderQueue_eq (orders : Order) (ords : Nat → List Key) (q : List PEl) :
    orderQueue orders ords q = (oqRun orders ords {} q).out := rfl

/-- A1: feature-group entries are kept, in order -/
theorem oqRun_nonLinks (orders : Order) (ords : Nat → List Key) (q : List PEl) (st : OQ) :
    nonLinks (oqRun orders ords st q).out = nonLinks st.out ++ nonLinks q := by
  induction q generalizing st with
  | nil => simp [oqRun, nonLinks]
  | cons p r ih =>
    simp only [oqRun, List.foldl_cons] at ih ⊢
    rw [ih]
    obtain ⟨L, _, h | h⟩ := oqStep_out orders ords st p
    · rw [h.1, nonLinks_append, nonLinks_map_link]
      have : nonLinks (p :: r) = nonLinks r := by simp [nonLinks, h.2]
      rw [this]; simp
    · rw [h]
      have : nonLinks (st.out ++ p :: L.map PEl.link) = nonLinks st.out ++ nonLinks [p] := by
        rw [show st.out ++ p :: L.map PEl.link = st.out ++ ([p] ++ L.map PEl.link) by simp, nonLinks_append, nonLinks_append,
          nonLinks_map_link]; simp
      rw [this, List.append_assoc]; congr 1
      rw [show p :: r = [p] ++ r by rfl, nonLinks_append]

/-- A2: whatever is in `out` or filed in `issue_collector` came from the queue -/
theorem oqRun_mem (orders : Order) (ords : Nat → List Key) (q : List PEl) (st : OQ) (S : PEl → Prop)
    (hout : ∀ x ∈ st.out, S x) (hiss : ∀ e ∈ st.issues, ∀ d ∈ e.2, S (.link d)) (hq : ∀ x ∈ q, S x) :
    (∀ x ∈ (oqRun orders ords st q).out, S x) := by
  induction q generalizing st with
  | nil => simpa [oqRun] using hout
  | cons p r ih =>
    simp only [oqRun, List.foldl_cons]
    apply ih
    · obtain ⟨L, hL, h | h⟩ := oqStep_out orders ords st p
      · rw [h.1]; intro x hx
        rcases List.mem_append.mp hx with hx | hx
        · exact hout x hx
        · obtain ⟨d, hd, rfl⟩ := List.mem_map.mp hx
          obtain ⟨e, he, hde⟩ := hL d hd
          exact hiss e he d hde
      · rw [h]; intro x hx
        rcases List.mem_append.mp hx with hx | hx
        · exact hout x hx
        · rcases List.mem_cons.mp hx with hx | hx
          · exact hx ▸ hq p List.mem_cons_self
          · obtain ⟨d, hd, rfl⟩ := List.mem_map.mp hx
            obtain ⟨e, he, hde⟩ := hL d hd
            exact hiss e he d hde
    · intro e he d hd
      rcases oqStep_issues orders ords st p he hd with h | ⟨e', he', hd'⟩
      · exact h ▸ hq p List.mem_cons_self
      · exact hiss e' he' d hd'
    · exact fun x hx => hq x (List.mem_cons_of_mem _ hx)

/-! ### the ordering guarantee -/

/-- reading a queue from the front: every link entry finds, for every key of `orders` whose set holds its uuid, a link
entry with that uuid earlier in the queue (or in `seen`) -/
def respectsFrom (orders : Order) : List Nat → List PEl → Prop
  | _, [] => True
  | seen, .fg _ :: r => respectsFrom orders seen r
  | seen, .link p :: r => (∀ e ∈ orders, p.link ∈ e.2 → e.1 ∈ seen) ∧ respectsFrom orders (p.link :: seen) r

theorem respectsFrom_snoc_fg {orders : Order} {seen : List Nat} {out : List PEl} {i : Nat}
    (h : respectsFrom orders seen out) : respectsFrom orders seen (out ++ [.fg i]) := by
  induction out generalizing seen with
  | nil => simp [respectsFrom]
  | cons x r ih =>
    cases x with
    | fg j => exact ih h
    | link p => exact ⟨h.1, ih h.2⟩

theorem respectsFrom_snoc_link {orders : Order} {seen : List Nat} {out : List PEl} {p : Key}
    (h : respectsFrom orders seen out) (hp : ∀ e ∈ orders, p.link ∈ e.2 → e.1 ∈ seen ∨ e.1 ∈ linkIds out) :
    respectsFrom orders seen (out ++ [.link p]) := by
  induction out generalizing seen with
  | nil =>
    refine ⟨fun e he hu => ?_, trivial⟩
    rcases hp e he hu with h' | h'
    · exact h'
    · simp [linkIds] at h'
  | cons x r ih =>
    cases x with
    | fg j => exact ih h (by simpa [linkIds] using hp)
    | link q =>
      refine ⟨h.1, ih h.2 (fun e he hu => ?_)⟩
      rcases hp e he hu with h' | h'
      · exact Or.inl (List.mem_cons_of_mem _ h')
      · simp only [linkIds, List.mem_cons] at h'
        rcases h' with h' | h'
        · exact Or.inl (h' ▸ List.mem_cons_self)
        · exact Or.inr h'

theorem respectsFrom_split {orders : Order} {seen : List Nat} {pre post : List PEl} {p : Key}
    (h : respectsFrom orders seen (pre ++ .link p :: post)) :
    ∀ e ∈ orders, p.link ∈ e.2 → e.1 ∈ seen ∨ e.1 ∈ linkIds pre := by
  induction pre generalizing seen with
  | nil => intro e he hu; exact Or.inl (h.1 e he hu)
  | cons x r ih =>
    cases x with
    | fg j => intro e he hu; simpa [linkIds] using ih h e he hu
    | link q =>
      intro e he hu
      rcases ih h.2 e he hu with h' | h'
      · rcases List.mem_cons.mp h' with h' | h'
        · exact Or.inr (by simp [linkIds, h'])
        · exact Or.inl h'
      · exact Or.inr (by simp [linkIds, h'])

/-- invariant of the main loop: `out` respects `orders`, and `link_already_added` only holds uuids of links in `out` -/
def RInv (orders : Order) (out : List PEl) (added : List Nat) : Prop :=
  respectsFrom orders [] out ∧ ∀ u ∈ added, u ∈ linkIds out

theorem rinv_append_link {orders : Order} {out : List PEl} {added : List Nat} {p : Key}
    (h : RInv orders out added) (hm : firstMissing orders added p.link = none) :
    RInv orders (out ++ [.link p]) (sadd added p.link) := by
  refine ⟨respectsFrom_snoc_link h.1 (fun e he hu => Or.inr (h.2 _ (firstMissing_none_iff.mp hm e he hu))), ?_⟩
  intro u hu
  rw [linkIds_append]
  rcases mem_sadd.mp hu with hu | hu
  · exact List.mem_append_left _ (h.2 u hu)
  · exact List.mem_append_right _ (by simp [linkIds, hu])

theorem readd_rinv {orders : Order} (ds : List Key) {out : List PEl} {added : List Nat} (h : RInv orders out added) :
    RInv orders (readd orders ds (out, added)).1 (readd orders ds (out, added)).2 := by
  induction ds generalizing out added with
  | nil => exact h
  | cons d r ih =>
    simp only [readd]
    split
    · exact ih h
    · rename_i hm; exact ih (rinv_append_link h hm)

theorem oqStep_rinv {orders : Order} (ords : Nat → List Key) (st : OQ) (p : PEl) (h : RInv orders st.out st.added) :
    RInv orders (oqStep orders ords st p).out (oqStep orders ords st p).added := by
  cases p with
  | fg i =>
    refine ⟨respectsFrom_snoc_fg h.1, fun u hu => ?_⟩
    simp only [oqStep, linkIds_append]
    exact List.mem_append_left _ (h.2 u hu)
  | link key =>
    simp only [oqStep]
    split
    · exact h
    · rename_i hm
      split
      · exact rinv_append_link h hm
      · exact readd_rinv _ (rinv_append_link h hm)

theorem oqRun_rinv {orders : Order} (ords : Nat → List Key) (q : List PEl) (st : OQ) (h : RInv orders st.out st.added) :
    RInv orders (oqRun orders ords st q).out (oqRun orders ords st q).added := by
  induction q generalizing st with
  | nil => exact h
  | cons p r ih => exact ih _ (oqStep_rinv ords st p h)

end LinkOrder

namespace LinkOrder

/-! ### a queue that already respects `orders` is returned unchanged -/

theorem respectsFrom_mono {orders : Order} {s s' : List Nat} {l : List PEl} (hs : ∀ u ∈ s, u ∈ s')
    (h : respectsFrom orders s l) : respectsFrom orders s' l := by
  induction l generalizing s s' with
  | nil => trivial
  | cons x r ih =>
    cases x with
    | fg j => exact ih hs h
    | link p =>
      refine ⟨fun e he hu => hs _ (h.1 e he hu), ih (fun u hu => ?_) h.2⟩
      rcases List.mem_cons.mp hu with hu | hu
      · exact hu ▸ List.mem_cons_self
      · exact List.mem_cons_of_mem _ (hs u hu)

theorem oqRun_consistent (orders : Order) (ords : Nat → List Key) (q : List PEl) (st : OQ)
    (hi : st.issues = []) (h : respectsFrom orders st.added q) :
    (oqRun orders ords st q).out = st.out ++ q := by
  induction q generalizing st with
  | nil => simp [oqRun]
  | cons p r ih =>
    simp only [oqRun, List.foldl_cons]
    cases p with
    | fg i =>
      have := ih { st with out := st.out ++ [.fg i] } hi h
      simp only [oqRun] at this
      simp only [oqStep]; rw [this]; simp
    | link key =>
      have hm : firstMissing orders st.added key.link = none := firstMissing_none_iff.mpr h.1
      have hstep : oqStep orders ords st (.link key) = { st with out := st.out ++ [.link key], added := sadd st.added key.link } := by
        simp only [oqStep, hm, hi, dget]
      rw [hstep]
      have := ih { st with out := st.out ++ [.link key], added := sadd st.added key.link } hi
        (respectsFrom_mono (fun u hu => by
          rcases List.mem_cons.mp hu with hu | hu
          · exact mem_sadd.mpr (Or.inr hu)
          · exact mem_sadd.mpr (Or.inl hu)) h.2)
      simp only [oqRun] at this
      rw [this]; simp

end LinkOrder
