import MlodaVerif.Lemmas.PlanFull
/-! The stages of `createPlan` in closed form: `add_feature_group_step`, `add_joinstep` on FG-only inputs,
`handle_append_or_union_joinstep` without such joins. -/
namespace PlanFull
open Sched OptGroup

/-! ### `mapM` in `Except` -/

theorem mapM_ok_of {α β ε : Type} (f : α → Except ε β) (h : α → β) :
    ∀ (l : List α), (∀ x ∈ l, f x = .ok (h x)) → l.mapM f = .ok (l.map h) := by
  intro l
  induction l with
  | nil => intro _; rfl
  | cons a r ih =>
    intro hl
    rw [List.mapM_cons, hl a (by simp), ih (fun x hx => hl x (List.mem_cons_of_mem _ hx))]
    rfl

theorem mapM_eq_ok {α β ε : Type} (f : α → Except ε β) (h : α → β) :
    ∀ (l : List α) (r : List β), l.mapM f = .ok r → (∀ x ∈ l, ∀ y, f x = .ok y → y = h x) → r = l.map h := by
  intro l
  induction l with
  | nil => intro r hr _; simp [pure, Except.pure] at hr; simp [hr]
  | cons a t ih =>
    intro r hr hh
    rw [List.mapM_cons] at hr
    cases hfa : f a with
    | error e => rw [hfa] at hr; cases hr
    | ok y =>
      rw [hfa] at hr
      cases hrest : t.mapM f with
      | error e => rw [hrest] at hr; cases hr
      | ok ys =>
        rw [hrest] at hr
        simp only [bind, Except.bind, pure, Except.pure] at hr
        cases hr
        rw [hh a (by simp) y hfa, ih ys hrest (fun x hx => hh x (List.mem_cons_of_mem _ hx))]
        rfl

/-! ### `add_feature_group_step` -/

/-- the first feature of a level in the iteration order of its feature set -/
def hd (o : Ord) (L : List Nat) : Nat := (iterAt o 0 L).head?.getD 0

theorem fgStep_eq_ok {g : Graph} {o : Ord} {c : Nat} {pre L : List Nat} {s : PStep} (h : fgStep g o c pre L = .ok s) :
    s = mkFg g c pre L (hd o L) := by
  unfold fgStep at h
  unfold hd
  cases hi : iterAt o 0 L with
  | nil => rw [hi] at h; cases h
  | cons x r => rw [hi] at h; cases h; rfl

theorem fgStep_of_ne {g : Graph} (o : Ord) (c : Nat) (pre : List Nat) {L : List Nat} (h : L ≠ []) :
    fgStep g o c pre L = .ok (mkFg g c pre L (hd o L)) := by
  unfold fgStep hd
  cases hi : iterAt o 0 L with
  | nil => exact absurd hi (iterAt_ne_nil o 0 h)
  | cons x r => rfl

theorem hd_mem (o : Ord) {L : List Nat} (h : L ≠ []) : hd o L ∈ L := by
  unfold hd
  cases hi : iterAt o 0 L with
  | nil => exact absurd hi (iterAt_ne_nil o 0 h)
  | cons x r =>
    have : x ∈ iterAt o 0 L := by rw [hi]; simp
    simpa using (mem_iterAt o 0 L x).mp this

/-- the FeatureGroupSteps of one queue entry, in the order they are appended -/
def fgOf (g : Graph) (t : Trek) (o : Ord) (c : Nat) (bs : List (List Nat)) : List PStep :=
  bs.flatMap (fun b => (splitLevels b g.anc).map (fun L => mkFg g c (retrieveLinks t.data bs.flatten) L (hd o L)))

def preOf (g : Graph) (t : Trek) (o : Ord) : QEl → List PreEl
  | .link k => [.link k]
  | .fg c bs => (fgOf g t o c bs).map .step

def preSpec (g : Graph) (t : Trek) (o : Ord) (q : List QEl) : List PreEl := q.flatMap (preOf g t o)

theorem fgSteps_eq_ok {g : Graph} {o : Ord} {c : Nat} {pre b : List Nat} {r : List PStep}
    (h : fgSteps g o c pre b = .ok r) : r = (splitLevels b g.anc).map (fun L => mkFg g c pre L (hd o L)) :=
  mapM_eq_ok _ _ _ _ h (fun _ _ _ hy => fgStep_eq_ok hy)

theorem addFgSteps_eq_ok {g : Graph} {t : Trek} {o : Ord} : ∀ {q : List QEl} {pre : List PreEl},
    addFgSteps g t o q = .ok pre → pre = preSpec g t o q := by
  intro q
  induction q with
  | nil => intro pre h; simp [addFgSteps] at h; simp [preSpec, h]
  | cons el r ih =>
    intro pre h
    cases el with
    | link k =>
      simp only [addFgSteps] at h
      cases hr : addFgSteps g t o r with
      | error e => rw [hr] at h; cases h
      | ok rest =>
        rw [hr] at h
        simp only [bind, Except.bind, pure, Except.pure] at h
        cases h
        rw [ih hr]; simp [preSpec, preOf]
    | fg c bs =>
      simp only [addFgSteps] at h
      cases hs : bs.mapM (fgSteps g o c (retrieveLinks t.data bs.flatten)) with
      | error e => rw [hs] at h; cases h
      | ok steps =>
        rw [hs] at h
        cases hr : addFgSteps g t o r with
        | error e => rw [hr] at h; cases h
        | ok rest =>
          rw [hr] at h
          simp only [bind, Except.bind, pure, Except.pure] at h
          cases h
          have := mapM_eq_ok _ (fun b => (splitLevels b g.anc).map (fun L => mkFg g c (retrieveLinks t.data bs.flatten) L (hd o L)))
            _ _ hs (fun _ _ _ hy => fgSteps_eq_ok hy)
          subst this
          rw [ih hr]; simp [preSpec, preOf, fgOf, List.flatMap_def]

/-- buckets of feature-group entries are non-empty (they are the values of a defaultdict(set) that were added to) -/
def BucketsNonempty (q : List QEl) : Prop := ∀ el ∈ q, ∀ c bs, el = .fg c bs → ∀ b ∈ bs, b ≠ []

theorem addFgSteps_of_nonempty {g : Graph} {t : Trek} {o : Ord} : ∀ {q : List QEl}, BucketsNonempty q →
    addFgSteps g t o q = .ok (preSpec g t o q) := by
  intro q
  induction q with
  | nil => intro _; rfl
  | cons el r ih =>
    intro hne
    have hr := ih (fun el' h' => hne el' (List.mem_cons_of_mem _ h'))
    cases el with
    | link k => simp [addFgSteps, hr, preSpec, preOf, bind, Except.bind, pure, Except.pure]
    | fg c bs =>
      have hb : bs.mapM (fgSteps g o c (retrieveLinks t.data bs.flatten)) =
          .ok (bs.map (fun b => (splitLevels b g.anc).map (fun L => mkFg g c (retrieveLinks t.data bs.flatten) L (hd o L)))) := by
        apply mapM_ok_of
        intro b hb
        unfold fgSteps
        apply mapM_ok_of
        intro L hL
        exact fgStep_of_ne o c _ (PlanCore.splitLevels_nonempty b g.anc (hne _ (by simp) c bs rfl b hb) L hL)
      simp [addFgSteps, hb, hr, preSpec, preOf, fgOf, bind, Except.bind, pure, Except.pure, List.flatMap_def]

end PlanFull
