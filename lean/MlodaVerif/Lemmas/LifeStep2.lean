import MlodaVerif.Lemmas.LifeStep
/-! One-step facts about `track_data_to_drop`, `result_data_collection`, the drop records and the store. -/
namespace Life
open Store

/-- every way `track_data_to_drop` can change in one step -/
theorem step_track_eq (s : LS) (e : Ev) :
    (step s e).1.track = s.track ∨
    (∃ o ids, e = .trackFlyway o ids ∧ (step s e).1.track = dset s.track o ids) ∨
    (∃ o st F req ob, e = .fgDone o st F req ∧ dget s.objs o = some ob ∧ (step s e).2.2 = none ∧
        (step s e).1.track = dropTrack s o ob F) ∨
    (e = .periodic ∧ s.finished ≠ [] ∧ (periodicGo s.finished s.track s).2.2.2 = none ∧
        (step s e).1.track = s.track.filter (fun p => decide (p.1 ∉ (periodicGo s.finished s.track s).2.1))) := by
  cases e with
  | trackFlyway o ids => exact Or.inr (Or.inl ⟨o, ids, rfl, rfl⟩)
  | fgDone o st F req =>
    rcases fgDone_cases s o st F req with ⟨_, hs⟩ | ⟨ob1, err, _, hs⟩ | ⟨ob1, hg, _, hs⟩
    · left; show (fgDone s o st F req).1.track = _; rw [hs]
    · left; show (fgDone s o st F req).1.track = _; rw [hs]
    · right; right; left
      refine ⟨o, st, F, req, ob1, rfl, hg, ?_, ?_⟩
      · show (fgDone s o st F req).2.2 = _; rw [hs]
      · show (fgDone s o st F req).1.track = _; rw [hs]
  | periodic =>
    rcases periodic_cases s with ⟨_, hs⟩ | ⟨_, err, _, hs⟩ | ⟨hf, hok, hs⟩
    · left; show (periodic s).1.track = _; rw [hs]
    · left; show (periodic s).1.track = _; rw [hs]; exact (periodicGo_frame _ _ _).1
    · right; right; right
      refine ⟨rfl, hf, hok, ?_⟩
      show (periodic s).1.track = _
      rw [hs]
      simp only [(periodicGo_frame _ _ _).1]
  | otherDone ids => left; rfl
  | setFlyway o ids => left; rfl
  | pop => left; simp only [step]; split <;> rfl
  | register o ch => left; simp only [step]; split <;> rfl
  | spawn o => left; simp only [step]; split <;> rfl
  | ran o => left; simp only [step]; split <;> rfl
  | uploadKeep o =>
    left; simp only [step]; split
    · rfl
    · split
      · rfl
      · split <;> rfl
  | uploadReplace o =>
    left; simp only [step]; split
    · rfl
    · split
      · rfl
      · split <;> rfl

/-- `dropTrack` either leaves the dict alone or sets the entry of `o` -/
theorem dropTrack_eq (s : LS) (o : Nat) (ob : Obj) (F : List Nat) :
    dropTrack s o ob F = s.track ∨
    (ob.queue = none ∧ (report ob.cfw F).2 = .pending ∧ dropTrack s o ob F = dset s.track o ob.cfw.children) ∨
    (ob.queue ≠ none ∧ (dget s.flyway o).getD [] ≠ [] ∧ dropTrack s o ob F = dset s.track o ((dget s.flyway o).getD [])) := by
  unfold dropTrack
  split
  · rename_i hq
    split
    · rename_i hp; exact Or.inr (Or.inl ⟨hq, hp, rfl⟩)
    · exact Or.inl rfl
  · rename_i q hq
    simp only
    split
    · exact Or.inl rfl
    · rename_i hne
      refine Or.inr (Or.inr ⟨by rw [hq]; simp, ?_, rfl⟩)
      intro h; rw [h] at hne; simp at hne

theorem step_track_nodup (s : LS) (e : Ev) (h : (dkeys s.track).Nodup) : (dkeys (step s e).1.track).Nodup := by
  rcases step_track_eq s e with h1 | ⟨o, ids, _, h1⟩ | ⟨o, st, F, req, ob, _, _, _, h1⟩ | ⟨_, _, _, h1⟩
  · rw [h1]; exact h
  · rw [h1]; exact nodup_dkeys_dset _ _ h
  · rw [h1]
    rcases dropTrack_eq s o ob F with h2 | ⟨_, _, h2⟩ | ⟨_, _, h2⟩
    · rw [h2]; exact h
    · rw [h2]; exact nodup_dkeys_dset _ _ h
    · rw [h2]; exact nodup_dkeys_dset _ _ h
  · rw [h1]
    have := dkeys_filter_key s.track (fun k => decide (k ∉ (periodicGo s.finished s.track s).2.1))
    rw [this]
    exact List.Nodup.sublist List.filter_sublist h

/-- where an entry of `track_data_to_drop` can come from -/
theorem step_track_get (s : LS) (e : Ev) (o : Nat) (ids : List Nat) (h : dget (step s e).1.track o = some ids) :
    dget s.track o = some ids ∨ e = .trackFlyway o ids ∨
    (∃ st F req ob, e = .fgDone o st F req ∧ dget s.objs o = some ob ∧
      ((ob.queue = none ∧ ids = ob.cfw.children ∧ (report ob.cfw F).2 = .pending) ∨ (ob.queue ≠ none ∧ ids = (dget s.flyway o).getD []))) := by
  rcases step_track_eq s e with h1 | ⟨o1, ids1, he, h1⟩ | ⟨o1, st, F, req, ob, he, hg, _, h1⟩ | ⟨_, _, _, h1⟩
  · rw [h1] at h; exact Or.inl h
  · rw [h1] at h
    rcases dset_case h with ⟨ho, hv⟩ | ⟨_, hv⟩
    · subst ho; subst hv; exact Or.inr (Or.inl he)
    · exact Or.inl hv
  · rw [h1] at h
    rcases dropTrack_eq s o1 ob F with h2 | ⟨hq, hp, h2⟩ | ⟨hq, _, h2⟩
    · rw [h2] at h; exact Or.inl h
    · rw [h2] at h
      rcases dset_case h with ⟨ho, hv⟩ | ⟨_, hv⟩
      · subst ho; subst hv; exact Or.inr (Or.inr ⟨st, F, req, ob, he, hg, Or.inl ⟨hq, rfl, hp⟩⟩)
      · exact Or.inl hv
    · rw [h2] at h
      rcases dset_case h with ⟨ho, hv⟩ | ⟨_, hv⟩
      · subst ho; subst hv; exact Or.inr (Or.inr ⟨st, F, req, ob, he, hg, Or.inr ⟨hq, rfl⟩⟩)
      · exact Or.inl hv
  · rw [h1] at h
    have := dget_filter_key s.track (fun k => decide (k ∉ (periodicGo s.finished s.track s).2.1)) o
    rw [this] at h
    split at h
    · exact Or.inl h
    · cases h

/-- keys of `track_data_to_drop` after a step -/
theorem step_track_keys (s : LS) (e : Ev) (k : Nat) (h : k ∈ dkeys (step s e).1.track) :
    k ∈ dkeys s.track ∨ (∃ ids, e = .trackFlyway k ids) ∨ (∃ st F req, e = .fgDone k st F req ∧ k ∈ dkeys s.objs) := by
  obtain ⟨ids, hget⟩ := dget_of_mem_dkeys h
  rcases step_track_get s e k ids hget with h1 | h1 | ⟨st, F, req, ob, he, hg, _⟩
  · exact Or.inl (mem_dkeys_of_dget h1)
  · exact Or.inr (Or.inl ⟨ids, h1⟩)
  · exact Or.inr (Or.inr ⟨st, F, req, he, mem_dkeys_of_dget hg⟩)

/-! ### keys of the object dict only grow -/

theorem step_objs_keys_mono (s : LS) (e : Ev) (k : Nat) (h : k ∈ dkeys s.objs) : k ∈ dkeys (step s e).1.objs := by
  cases e with
  | fgDone o st F req =>
    rcases fgDone_cases s o st F req with ⟨_, hs⟩ | ⟨ob1, err, _, hs⟩ | ⟨ob1, hg, _, hs⟩
    · show k ∈ dkeys (fgDone s o st F req).1.objs; rw [hs]; exact h
    · show k ∈ dkeys (fgDone s o st F req).1.objs; rw [hs]; exact h
    · show k ∈ dkeys (fgDone s o st F req).1.objs; rw [hs]; exact (mem_dkeys_dset _ _ _ _).mpr (Or.inl h)
  | periodic =>
    show k ∈ dkeys (periodic s).1.objs
    rcases periodic_cases s with ⟨_, hs⟩ | ⟨_, err, _, hs⟩ | ⟨_, _, hs⟩
    · rw [hs]; exact h
    · rw [hs]; simp only; rw [(periodicGo_frame _ _ _).2.2.2.2.2.2]; exact h
    · rw [hs]; simp only; rw [(periodicGo_frame _ _ _).2.2.2.2.2.2]; exact h
  | otherDone ids => exact h
  | setFlyway o ids => exact h
  | trackFlyway o ids => exact h
  | pop => simp only [step]; split <;> exact h
  | register o ch =>
    simp only [step]; split
    · exact h
    · exact (mem_dkeys_dset _ _ _ _).mpr (Or.inl h)
  | spawn o =>
    simp only [step]; split
    · exact h
    · exact (mem_dkeys_dset _ _ _ _).mpr (Or.inl h)
  | ran o =>
    simp only [step]; split
    · exact h
    · exact (mem_dkeys_dset _ _ _ _).mpr (Or.inl h)
  | uploadKeep o =>
    simp only [step]; split
    · exact h
    · split
      · exact h
      · split
        · exact h
        · exact (mem_dkeys_dset _ _ _ _).mpr (Or.inl h)
  | uploadReplace o =>
    simp only [step]; split
    · exact h
    · split
      · exact h
      · split
        · exact h
        · exact (mem_dkeys_dset _ _ _ _).mpr (Or.inl h)

theorem step_obj_persist (s : LS) (e : Ev) (o : Nat) (ob : Obj) (h : dget s.objs o = some ob) :
    ∃ ob', dget (step s e).1.objs o = some ob' :=
  dget_of_mem_dkeys (step_objs_keys_mono s e o (mem_dkeys_of_dget h))

end Life

namespace Life
open Store

/-! ### result_data_collection -/

theorem eq_dropLast_append_of_getLast? {α : Type} {l : List α} {p : α} (h : l.getLast? = some p) : l = l.dropLast ++ [p] := by
  obtain ⟨ys, hy⟩ := List.getLast?_eq_some_iff.mp h
  subst hy; simp

/-- every way the result collection / the yielded list can change in one step -/
theorem step_results_eq (s : LS) (e : Ev) :
    ((step s e).1.results = s.results ∧ (step s e).1.yielded = s.yielded ∧ ((step s e).2.2 = none → reqSteps [e] = [])) ∨
    (∃ o st F, e = .fgDone o st F true ∧ (step s e).2.2 = none ∧ (step s e).1.results = dset s.results st o ∧ (step s e).1.yielded = s.yielded) ∨
    (∃ p, e = .pop ∧ s.results = (step s e).1.results ++ [p] ∧ (step s e).1.yielded = s.yielded ++ [p]) := by
  cases e with
  | fgDone o st F req =>
    rcases fgDone_cases s o st F req with ⟨_, hs⟩ | ⟨ob1, err, _, hs⟩ | ⟨ob1, hg, _, hs⟩
    · left
      have hs' : step s (.fgDone o st F req) = (s, [], some .noObject) := hs
      rw [hs']; exact ⟨rfl, rfl, fun h => by cases h⟩
    · left
      have hs' : step s (.fgDone o st F req) = (s, [], some err) := hs
      rw [hs']; exact ⟨rfl, rfl, fun h => by cases h⟩
    · have hs' : step s (.fgDone o st F req) = _ := hs
      cases req with
      | false => left; rw [hs']; exact ⟨by simp, rfl, fun _ => by simp [reqSteps]⟩
      | true => right; left; refine ⟨o, st, F, rfl, ?_, ?_, ?_⟩ <;> rw [hs'] <;> simp
  | pop =>
    rcases opt_cases s.results.getLast? with hl | ⟨p, hl⟩
    · left
      have hs : step s .pop = (s, [], none) := by simp only [step, hl]
      rw [hs]; exact ⟨rfl, rfl, fun _ => by simp [reqSteps]⟩
    · right; right
      have hs : step s .pop = ({ s with results := s.results.dropLast, yielded := s.yielded ++ [p] }, [], none) := by simp only [step, hl]
      rw [hs]
      exact ⟨p, rfl, eq_dropLast_append_of_getLast? hl, rfl⟩
  | periodic =>
    left
    show (periodic s).1.results = _ ∧ (periodic s).1.yielded = _ ∧ _
    rcases periodic_cases s with ⟨_, hs⟩ | ⟨_, err, _, hs⟩ | ⟨_, _, hs⟩
    · rw [hs]; exact ⟨rfl, rfl, fun _ => by simp [reqSteps]⟩
    · rw [hs]; exact ⟨(periodicGo_frame _ _ _).2.2.1, (periodicGo_frame _ _ _).2.2.2.1, fun _ => by simp [reqSteps]⟩
    · rw [hs]; exact ⟨(periodicGo_frame _ _ _).2.2.1, (periodicGo_frame _ _ _).2.2.2.1, fun _ => by simp [reqSteps]⟩
  | otherDone ids => left; exact ⟨rfl, rfl, fun _ => by simp [reqSteps]⟩
  | setFlyway o ids => left; exact ⟨rfl, rfl, fun _ => by simp [reqSteps]⟩
  | trackFlyway o ids => left; exact ⟨rfl, rfl, fun _ => by simp [reqSteps]⟩
  | register o ch => left; simp only [step]; split <;> exact ⟨rfl, rfl, fun _ => by simp [reqSteps]⟩
  | spawn o => left; simp only [step]; split <;> exact ⟨rfl, rfl, fun _ => by simp [reqSteps]⟩
  | ran o => left; simp only [step]; split <;> exact ⟨rfl, rfl, fun _ => by simp [reqSteps]⟩
  | uploadKeep o =>
    left; simp only [step]; split
    · exact ⟨rfl, rfl, fun _ => by simp [reqSteps]⟩
    · split
      · exact ⟨rfl, rfl, fun _ => by simp [reqSteps]⟩
      · split <;> exact ⟨rfl, rfl, fun _ => by simp [reqSteps]⟩
  | uploadReplace o =>
    left; simp only [step]; split
    · exact ⟨rfl, rfl, fun _ => by simp [reqSteps]⟩
    · split
      · exact ⟨rfl, rfl, fun _ => by simp [reqSteps]⟩
      · split <;> exact ⟨rfl, rfl, fun _ => by simp [reqSteps]⟩

/-! ### the `drop_last_data` calls of one step -/

theorem dropRecs_mem (loc : Bool) (o : Nat) (ob : Obj) (F : List Nat) (d : DropRec) (h : d ∈ dropRecs loc o ob F) :
    d.obj = o ∧ d.tracked = false ∧ ob.queue = none ∧ (∃ k, (report ob.cfw F).2 = .dropped k) ∧
    d.key = (if loc then ob.cfw.dataKey else none) ∧ d.hadData = hasData ob := by
  unfold dropRecs at h
  split at h
  · rename_i hq
    split at h
    · rename_i k hk
      simp only [List.mem_singleton] at h
      subst h
      have := (report_dropped_key _ _ _ hk).1
      subst this
      exact ⟨rfl, rfl, hq, ⟨_, hk⟩, rfl, rfl⟩
    · cases h
  · cases h

/-- a drop through the children tracker happens only inside `_process_step_result` of a feature-group step on that object, in
the in-process branch, and only when every child is in the tracker or among the step's features (SET inclusion) -/
theorem step_drops_report (s : LS) (e : Ev) (d : DropRec) (hd : d ∈ (step s e).2.1) (ht : d.tracked = false) :
    ∃ st F req ob, e = .fgDone d.obj st F req ∧ dget s.objs d.obj = some ob ∧ ob.queue = none ∧
      (∀ x ∈ ob.cfw.children, x ∈ ob.cfw.tracker ∨ x ∈ F) ∧ d.key = (if s.loc then ob.cfw.dataKey else none) ∧ d.hadData = hasData ob := by
  cases e with
  | fgDone o st F req =>
    rcases fgDone_cases s o st F req with ⟨_, hs⟩ | ⟨ob1, err, _, hs⟩ | ⟨ob1, hg, _, hs⟩
    · have hs' : step s (.fgDone o st F req) = (s, [], some .noObject) := hs
      rw [hs'] at hd; cases hd
    · have hs' : step s (.fgDone o st F req) = (s, [], some err) := hs
      rw [hs'] at hd; cases hd
    · have hs' : (step s (.fgDone o st F req)).2.1 = dropRecs s.loc o ob1 F := by
        show (fgDone s o st F req).2.1 = _; rw [hs]
      rw [hs'] at hd
      obtain ⟨h1, _, h3, h4, h5, h6⟩ := dropRecs_mem _ _ _ _ _ hd
      subst h1
      exact ⟨st, F, req, ob1, rfl, hg, h3, (report_dropped_iff _ _).mp h4, h5, h6⟩
  | periodic =>
    exfalso
    have hd' : d ∈ (periodic s).2.1 := hd
    rcases periodic_cases s with ⟨_, hs⟩ | ⟨_, err, _, hs⟩ | ⟨_, _, hs⟩
    · rw [hs] at hd'; cases hd'
    · rw [hs] at hd'; have := (periodicGo_log _ _ _).2 d hd'; rw [ht] at this; cases this
    · rw [hs] at hd'; have := (periodicGo_log _ _ _).2 d hd'; rw [ht] at this; cases this
  | otherDone ids => cases hd
  | setFlyway o ids => cases hd
  | trackFlyway o ids => cases hd
  | pop => simp only [step] at hd; split at hd <;> cases hd
  | register o ch => simp only [step] at hd; split at hd <;> cases hd
  | spawn o => simp only [step] at hd; split at hd <;> cases hd
  | ran o => simp only [step] at hd; split at hd <;> cases hd
  | uploadKeep o =>
    simp only [step] at hd; split at hd
    · cases hd
    · split at hd
      · cases hd
      · split at hd <;> cases hd
  | uploadReplace o =>
    simp only [step] at hd; split at hd
    · cases hd
    · split at hd
      · cases hd
      · split at hd <;> cases hd

/-- a drop through `track_data_to_drop` happens only inside `drop_data_for_finished_cfws`, for an entry all of whose ids are in
`finished_ids` -/
theorem step_drops_tracked (s : LS) (e : Ev) (d : DropRec) (hd : d ∈ (step s e).2.1) (ht : d.tracked = true) :
    e = .periodic ∧ ∃ ids, (d.obj, ids) ∈ s.track ∧ ∀ i ∈ ids, i ∈ s.finished := by
  cases e with
  | fgDone o st F req =>
    exfalso
    rcases fgDone_cases s o st F req with ⟨_, hs⟩ | ⟨ob1, err, _, hs⟩ | ⟨ob1, hg, _, hs⟩
    · have hs' : step s (.fgDone o st F req) = (s, [], some .noObject) := hs
      rw [hs'] at hd; cases hd
    · have hs' : step s (.fgDone o st F req) = (s, [], some err) := hs
      rw [hs'] at hd; cases hd
    · have hs' : (step s (.fgDone o st F req)).2.1 = dropRecs s.loc o ob1 F := by
        show (fgDone s o st F req).2.1 = _; rw [hs]
      rw [hs'] at hd
      have := (dropRecs_mem _ _ _ _ _ hd).2.1
      rw [ht] at this; cases this
  | periodic =>
    refine ⟨rfl, ?_⟩
    have hd' : d ∈ (periodic s).2.1 := hd
    rcases periodic_cases s with ⟨_, hs⟩ | ⟨_, err, _, hs⟩ | ⟨_, _, hs⟩
    · rw [hs] at hd'; cases hd'
    · rw [hs] at hd'; exact periodicGo_log_mem _ _ _ _ hd'
    · rw [hs] at hd'; exact periodicGo_log_mem _ _ _ _ hd'
  | otherDone ids => cases hd
  | setFlyway o ids => cases hd
  | trackFlyway o ids => cases hd
  | pop => simp only [step] at hd; split at hd <;> cases hd
  | register o ch => simp only [step] at hd; split at hd <;> cases hd
  | spawn o => simp only [step] at hd; split at hd <;> cases hd
  | ran o => simp only [step] at hd; split at hd <;> cases hd
  | uploadKeep o =>
    simp only [step] at hd; split at hd
    · cases hd
    · split at hd
      · cases hd
      · split at hd <;> cases hd
  | uploadReplace o =>
    simp only [step] at hd; split at hd
    · cases hd
    · split at hd
      · cases hd
      · split at hd <;> cases hd

end Life
