import MlodaVerif.Lemmas.StepComm
/-! Schedules in which steps that share an object do not overlap: every such schedule gives the state of the SYNC order. -/
namespace StepExec
open StepTrace

variable {V : Type}

/-- all entries of i, then all entries of j -/
def blockOrder (l : List Nat) (i j : Nat) : List Nat := List.replicate (l.count i) i ++ List.replicate (l.count j) j

/-- in `l` every entry of step i comes before every entry of step j -/
def Before (l : List Nat) (i j : Nat) : Prop := StepTrace.proj l i j = blockOrder l i j

instance (l : List Nat) (i j : Nat) : Decidable (Before l i j) := by unfold Before; exact inferInstance

theorem proj_comm (l : List Nat) (i j : Nat) : StepTrace.proj l i j = StepTrace.proj l j i := by
  unfold StepTrace.proj
  congr 1
  funext k
  exact Bool.or_comm _ _

theorem filter_eq_replicate (l : List Nat) (i : Nat) : l.filter (fun k => decide (k = i)) = List.replicate (l.count i) i := by
  induction l with
  | nil => rfl
  | cons x xs ih =>
    by_cases h : x = i
    · subst h; simp [List.filter_cons, ih, List.replicate_succ]
    · have : ¬ (x == i) = true := by simpa using h
      simp [List.filter_cons, h, ih, List.count_cons, this]

theorem proj_self (l : List Nat) (i : Nat) : StepTrace.proj l i i = List.replicate (l.count i) i := by
  unfold StepTrace.proj
  simp only [Bool.or_self]
  exact filter_eq_replicate l i

/-- **no interference**: two schedules with the same number of micro-steps per step, in both of which every pair of
different steps that share an object is ordered the same way without overlapping, lead to the same state (objects,
registers, everything) -/
theorem mrun_eq_of_ordered (ds : List (Desc V)) (σ : MSt V) (l₁ l₂ : List Nat)
    (hcount : ∀ i, l₁.count i = l₂.count i)
    (hord : ∀ i j, i ≠ j → shares ds i j = true → (Before l₁ i j ∧ Before l₂ i j) ∨ (Before l₁ j i ∧ Before l₂ j i)) :
    mrun ds σ l₁ = mrun ds σ l₂ := by
  rw [mrun_eq_run, mrun_eq_run]
  apply run_eq_of_proj (commutes_mstep ds) (dep_refl ds) (dep_symm ds)
  intro i j hd
  by_cases hij : i = j
  · subst hij
    rw [proj_self, proj_self, hcount]
  · have hs : shares ds i j = true := by simpa [dep, hij] using hd
    rcases hord i j hij hs with ⟨h1, h2⟩ | ⟨h1, h2⟩
    · unfold Before blockOrder at h1 h2
      rw [h1, h2, hcount i, hcount j]
    · unfold Before blockOrder at h1 h2
      rw [proj_comm l₁, proj_comm l₂, h1, h2, hcount i, hcount j]

/-! ### the SYNC order -/

/-- the steps of `order` one after the other, step i with `n i` entries -/
def serial (n : Nat → Nat) (order : List Nat) : List Nat := order.flatMap (fun i => List.replicate (n i) i)

theorem count_serial (n : Nat → Nat) (order : List Nat) (hnd : order.Nodup) (i : Nat) :
    (serial n order).count i = if i ∈ order then n i else 0 := by
  induction order with
  | nil => simp [serial]
  | cons x xs ih =>
    have hx : x ∉ xs := (List.nodup_cons.mp hnd).1
    have hnd' := (List.nodup_cons.mp hnd).2
    have ih' := ih hnd'
    simp only [serial, List.flatMap_cons, List.count_append] at ih' ⊢
    rw [ih']
    by_cases hxi : x = i
    · subst hxi; simp [hx, List.count_replicate_self]
    · have : i ≠ x := fun e => hxi e.symm
      simp [List.count_replicate, hxi, this]

theorem proj_replicate_self_left (n i j : Nat) : StepTrace.proj (List.replicate n i) i j = List.replicate n i := by
  unfold StepTrace.proj
  rw [List.filter_eq_self]
  intro a ha
  simp [(List.mem_replicate.mp ha).2]

theorem proj_replicate_self_right (n i j : Nat) : StepTrace.proj (List.replicate n j) i j = List.replicate n j := by
  rw [proj_comm]; exact proj_replicate_self_left n j i

theorem proj_replicate_ne (n x i j : Nat) (hi : x ≠ i) (hj : x ≠ j) : StepTrace.proj (List.replicate n x) i j = [] := by
  unfold StepTrace.proj
  rw [List.filter_eq_nil_iff]
  intro a ha
  have := (List.mem_replicate.mp ha).2
  subst this
  simp [hi, hj]

theorem proj_serial_not_mem (n : Nat → Nat) (order : List Nat) (i j : Nat) (hi : i ∉ order) (hj : j ∉ order) :
    StepTrace.proj (serial n order) i j = [] := by
  apply proj_eq_nil_of_not_mem
  · intro h
    simp only [serial, List.mem_flatMap] at h
    obtain ⟨a, ha, hm⟩ := h
    exact hi ((List.mem_replicate.mp hm).2 ▸ ha)
  · intro h
    simp only [serial, List.mem_flatMap] at h
    obtain ⟨a, ha, hm⟩ := h
    exact hj ((List.mem_replicate.mp hm).2 ▸ ha)

theorem proj_serial_single (n : Nat → Nat) (order : List Nat) (hnd : order.Nodup) (i j : Nat) (hij : i ≠ j) (hj : j ∉ order) :
    StepTrace.proj (serial n order) i j = List.replicate (if i ∈ order then n i else 0) i := by
  induction order with
  | nil => simp [serial, StepTrace.proj]
  | cons x xs ih =>
    have hx : x ∉ xs := (List.nodup_cons.mp hnd).1
    have hnd' := (List.nodup_cons.mp hnd).2
    have hj' : j ∉ xs := fun h => hj (List.mem_cons_of_mem _ h)
    have hxj : x ≠ j := fun e => hj (e ▸ List.mem_cons_self ..)
    have ih' := ih hnd' hj'
    simp only [serial, List.flatMap_cons] at ih' ⊢
    rw [proj_append, ih']
    by_cases hxi : x = i
    · subst hxi
      rw [proj_replicate_self_left]
      simp [hx]
    · rw [proj_replicate_ne _ _ _ _ hxi hxj]
      have : i ≠ x := fun e => hxi e.symm
      simp [this]

/-- in the serial schedule of a duplicate-free order, a step that comes earlier in the order is entirely before a later one -/
theorem before_serial (n : Nat → Nat) (order : List Nat) (hnd : order.Nodup) (i j : Nat) (hij : i ≠ j)
    (hpos : ∀ a b, order = a ++ j :: b → i ∉ b) :
    Before (serial n order) i j := by
  unfold Before blockOrder
  rw [count_serial n order hnd i, count_serial n order hnd j]
  induction order with
  | nil => simp [serial, StepTrace.proj]
  | cons x xs ih =>
    have hx : x ∉ xs := (List.nodup_cons.mp hnd).1
    have hnd' := (List.nodup_cons.mp hnd).2
    simp only [serial, List.flatMap_cons]
    rw [proj_append]
    by_cases hxj : x = j
    · -- j first: i does not occur afterwards
      subst hxj
      have hi : i ∉ xs := hpos [] xs rfl
      have hi' : i ∉ x :: xs := by
        intro h; rcases List.mem_cons.mp h with h | h
        · exact hij h
        · exact hi h
      rw [proj_replicate_self_right]
      have : StepTrace.proj (xs.flatMap fun i => List.replicate (n i) i) i x = [] := proj_serial_not_mem n xs i x hi hx
      rw [this]
      simp [hi']
    · have hpos' : ∀ a b, xs = a ++ j :: b → i ∉ b := by
        intro a b hab
        exact hpos (x :: a) b (by simp [hab])
      have ih' := ih hnd' hpos'
      simp only [serial] at ih'
      rw [ih']
      by_cases hxi : x = i
      · subst hxi
        rw [proj_replicate_self_left]
        have hjx : j ≠ x := fun e => hxj e.symm
        simp [hx, hjx, List.replicate_append_replicate] <;> omega
      · rw [proj_replicate_ne _ _ _ _ hxi hxj]
        have h1 : i ≠ x := fun e => hxi e.symm
        have h2 : j ≠ x := fun e => hxj e.symm
        simp [h1, h2]

end StepExec
