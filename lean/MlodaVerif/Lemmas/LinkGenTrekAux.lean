import MlodaVerif.Lemmas.LinkGenBase
import MlodaVerif.Lemmas.LinkOrderBasic
/-! # Bridge `Gen/LinkOrderGen.lean` ↔ `Model/LinkOrder.lean`, group A: generic lemmas

Python-side dict lemmas (`KDict.get?` against membership, uniqueness of keys / handles), the abstraction of keys (`absK` on canonical
keys), the heap of set objects (`SHeap.get` after `set` / allocation) and what `absT` becomes when the heap changes at ONE handle:
`absT_modify_data` (a handle `data` holds: the model's `dmodify data k f` + the mirrored, flag-guarded `dmodify dataOrdered k`),
`absT_modify_dord` (a handle `data_ordered` holds), `wf_heap` (`WF` only needs "allocated" and "duplicate-free" of the heap). -/
namespace LinkGen.Trek
open LinkOrder PyRt Gen.LinkOrderGen

/-! ### dicts (Python side) -/
section kd
variable {K V : Type} [DecidableEq K]

theorem get?_some_mem {d : KDict K V} {k : K} {v : V} (h : KDict.get? d k = some v) : (k, v) ∈ d := by
  rw [get?_eq] at h; exact dget_some_mem h

theorem get?_of_mem {d : KDict K V} {k : K} {v : V} (hn : (d.map (·.1)).Nodup) (h : (k, v) ∈ d) : KDict.get? d k = some v := by
  rw [get?_eq]; exact dget_of_mem_nodup hn h

theorem get?_none_iff {d : KDict K V} {k : K} : KDict.get? d k = none ↔ k ∉ d.map (·.1) := by
  rw [get?_eq]; exact dget_none_iff

theorem get?_isSome_iff {d : KDict K V} {k : K} : (∃ v, KDict.get? d k = some v) ↔ k ∈ d.map (·.1) := by
  constructor
  · rintro ⟨v, hv⟩
    exact List.mem_map.mpr ⟨(k, v), get?_some_mem hv, rfl⟩
  · intro hk
    cases hg : KDict.get? d k with
    | none => exact absurd hk (get?_none_iff.mp hg)
    | some v => exact ⟨v, rfl⟩

theorem mem_unique_val {d : KDict K V} {k : K} {v v' : V} (hn : (d.map (·.1)).Nodup) (h : (k, v) ∈ d) (h' : (k, v') ∈ d) : v = v' := by
  have a := get?_of_mem hn h
  have b := get?_of_mem hn h'
  rw [a] at b; exact Option.some.inj b

omit [DecidableEq K] in
theorem mem_unique_key {d : KDict K V} {k k' : K} {v : V} (hn : (d.map (·.2)).Nodup) (h : (k, v) ∈ d) (h' : (k', v) ∈ d) : k = k' := by
  induction d with
  | nil => simp at h
  | cons e t ih =>
    simp only [List.map_cons, List.nodup_cons] at hn
    rcases List.mem_cons.mp h with h | h <;> rcases List.mem_cons.mp h' with h' | h'
    · rw [← h'] at h; exact (Prod.mk.inj h).1
    · exact absurd (List.mem_map.mpr ⟨(k', v), h', by rw [← h]⟩) hn.1
    · exact absurd (List.mem_map.mpr ⟨(k, v), h, by rw [← h']⟩) hn.1
    · exact ih hn.2 h h'

theorem get?_append_of_mem {d : KDict K V} {k : K} (x : K × V) (hk : k ∈ d.map (·.1)) : KDict.get? (d ++ [x]) k = KDict.get? d k := by
  induction d with
  | nil => simp at hk
  | cons e t ih =>
    simp only [List.cons_append, KDict.get?]
    by_cases he : e.1 = k
    · simp [he]
    · simp only [he, if_false]
      apply ih
      simp only [List.map_cons, List.mem_cons] at hk
      rcases hk with hk | hk
      · exact absurd hk.symm he
      · exact hk

theorem get?_append_ne {d : KDict K V} {k : K} (x : K × V) (hk : x.1 ≠ k) : KDict.get? (d ++ [x]) k = KDict.get? d k := by
  induction d with
  | nil => simp [KDict.get?, hk]
  | cons e t ih =>
    simp only [List.cons_append, KDict.get?, ih]

theorem get?_append_new {d : KDict K V} {k : K} (v : V) (hk : k ∉ d.map (·.1)) : KDict.get? (d ++ [(k, v)]) k = some v := by
  induction d with
  | nil => simp [KDict.get?]
  | cons e t ih =>
    simp only [List.map_cons, List.mem_cons, not_or] at hk
    simp only [List.cons_append, KDict.get?]
    rw [if_neg (fun h => hk.1 h.symm)]
    exact ih hk.2

theorem get?_filter_ne {d : KDict K V} {k k' : K} (hk : k' ≠ k) : KDict.get? (d.filter (fun e => e.1 ≠ k)) k' = KDict.get? d k' := by
  induction d with
  | nil => rfl
  | cons e t ih =>
    by_cases he : e.1 = k
    · have h1 : e.1 ≠ k' := fun h => hk (by rw [← h, he])
      rw [List.filter_cons_of_neg (by simpa using he)]
      simp only [KDict.get?, if_neg h1]; exact ih
    · rw [List.filter_cons_of_pos (by simpa using he)]
      simp only [KDict.get?, ih]

theorem nodup_map_on {α β : Type} {f : α → β} {l : List α} (hinj : ∀ a ∈ l, ∀ b ∈ l, f a = f b → a = b) (hn : l.Nodup) : (l.map f).Nodup := by
  induction l with
  | nil => simp
  | cons a t ih =>
    simp only [List.map_cons, List.nodup_cons] at hn ⊢
    refine ⟨?_, ih (fun x hx y hy => hinj x (List.mem_cons_of_mem _ hx) y (List.mem_cons_of_mem _ hy)) hn.2⟩
    intro hm
    obtain ⟨b, hb, hfb⟩ := List.mem_map.mp hm
    have := hinj b (List.mem_cons_of_mem _ hb) a List.mem_cons_self hfb
    exact hn.1 (this ▸ hb)

end kd

/-! ### abstraction of keys -/
section keys
variable {β : Type} (L : Links)

theorem mem_map_absK {ks : List PKey} {k : PKey} (hc : ∀ k' ∈ ks, CanonK L k') (hk : CanonK L k) : absK k ∈ ks.map absK ↔ k ∈ ks := by
  constructor
  · intro h
    obtain ⟨k', hk', he⟩ := List.mem_map.mp h
    rw [← absK_inj L k' k (hc k' hk') hk he]; exact hk'
  · exact fun h => List.mem_map.mpr ⟨k, h, rfl⟩

theorem canon_keys {d : KDict PKey Nat} (hc : ∀ e ∈ d, CanonK L e.1) : ∀ k' ∈ d.map (·.1), CanonK L k' := by
  intro k' hk'
  obtain ⟨e, he, rfl⟩ := List.mem_map.mp hk'
  exact hc e he

theorem dkeys_mapK (d : KDict PKey Nat) (g : PKey × Nat → β) : dkeys (d.map (fun e => (absK e.1, g e))) = (d.map (·.1)).map absK := by
  simp [dkeys, List.map_map, Function.comp_def]

theorem mem_dkeys_mapK {d : KDict PKey Nat} (g : PKey × Nat → β) {k : PKey} (hc : ∀ e ∈ d, CanonK L e.1) (hk : CanonK L k) :
    absK k ∈ dkeys (d.map (fun e => (absK e.1, g e))) ↔ k ∈ d.map (·.1) := by
  rw [dkeys_mapK]; exact mem_map_absK L (canon_keys L hc) hk

theorem dget_mapK {d : KDict PKey Nat} (g : PKey × Nat → β) {k : PKey} (hc : ∀ e ∈ d, CanonK L e.1) (hk : CanonK L k) :
    dget (d.map (fun e => (absK e.1, g e))) (absK k) = (KDict.get? d k).map (fun r => g (k, r)) := by
  induction d with
  | nil => rfl
  | cons e t ih =>
    have hce : CanonK L e.1 := hc e List.mem_cons_self
    simp only [List.map_cons, dget, KDict.get?]
    by_cases he : e.1 = k
    · have : absK e.1 = absK k := by rw [he]
      rw [if_pos this, if_pos he]
      simp [← he]
    · have : absK e.1 ≠ absK k := fun h => he (absK_inj L _ _ hce hk h)
      rw [if_neg this, if_neg he]
      exact ih (fun e' he' => hc e' (List.mem_cons_of_mem _ he'))

theorem nodup_dkeys_mapK {d : KDict PKey Nat} (g : PKey × Nat → β) (hc : ∀ e ∈ d, CanonK L e.1) (hn : (d.map (·.1)).Nodup) :
    (dkeys (d.map (fun e => (absK e.1, g e)))).Nodup := by
  rw [dkeys_mapK]
  exact nodup_map_on (fun a ha b hb hab => absK_inj L a b (canon_keys L hc a ha) (canon_keys L hc b hb) hab) hn

end keys
/-! ### heap -/
theorem get_set_eq (h : SHeap) (r : Nat) (x : PSet) (hr : r < h.length) : SHeap.get (h.set r x) r = x := by
  simp [SHeap.get, List.getD_eq_getElem?_getD, hr]

theorem get_set_ne (h : SHeap) (r r' : Nat) (x : PSet) (hne : r' ≠ r) : SHeap.get (h.set r x) r' = SHeap.get h r' := by
  simp [SHeap.get, List.getD_eq_getElem?_getD, Ne.symm hne]

theorem get_append_lt (h l : SHeap) (r : Nat) (hr : r < h.length) : SHeap.get (h ++ l) r = SHeap.get h r := by
  simp [SHeap.get, List.getD_eq_getElem?_getD, List.getElem?_append_left hr]

theorem get_append_len (h : SHeap) (x : PSet) : SHeap.get (h ++ [x]) h.length = x := by
  simp [SHeap.get, List.getD_eq_getElem?_getD]

theorem get_ge (h : SHeap) (r : Nat) (hr : h.length ≤ r) : SHeap.get h r = [] := by
  simp [SHeap.get, List.getD_eq_getElem?_getD, List.getElem?_eq_none hr]


/-! ### what `absT` becomes when the heap changes -/
section heapchange
variable (L : Links)

theorem absData_congr {d : KDict PKey Nat} {h h' : SHeap} (hh : ∀ e ∈ d, SHeap.get h' e.2 = SHeap.get h e.2) : absData d h' = absData d h := by
  unfold absData
  apply List.map_congr_left
  intro e he; rw [hh e he]

theorem absOrder_congr {o : KDict Nat Nat} {h h' : SHeap} (hh : ∀ e ∈ o, SHeap.get h' e.2 = SHeap.get h e.2) : absOrder o h' = absOrder o h := by
  unfold absOrder
  apply List.map_congr_left
  intro e he; rw [hh e he]

theorem absDord_congr {data dord : KDict PKey Nat} {h h' : SHeap} (hh : ∀ e ∈ dord, SHeap.get h' e.2 = SHeap.get h e.2) :
    absDord data dord h' = absDord data dord h := by
  unfold absDord
  apply List.map_congr_left
  intro e he; rw [hh e he]

/-- the flags only depend on the lookups in `data` -/
theorem absDord_congr_data {data data' dord : KDict PKey Nat} {h : SHeap}
    (hh : ∀ e ∈ dord, decide (KDict.get? data' e.1 = some e.2) = decide (KDict.get? data e.1 = some e.2)) :
    absDord data' dord h = absDord data dord h := by
  unfold absDord
  apply List.map_congr_left
  intro e he; rw [hh e he]

theorem mem_refs {K : Type} {d : KDict K Nat} {e : K × Nat} (he : e ∈ d) : e.2 ∈ d.map (·.2) := List.mem_map.mpr ⟨e, he, rfl⟩
theorem mem_keys {K V : Type} {d : KDict K V} {e : K × V} (he : e ∈ d) : e.1 ∈ d.map (·.1) := List.mem_map.mpr ⟨e, he, rfl⟩

/-- in a dict with pairwise different keys and pairwise different handles: the entry with handle `r` is the entry with key `k` -/
theorem ref_eq_iff_key_eq {d : KDict PKey Nat} {k : PKey} {r : Nat} (hkn : (d.map (·.1)).Nodup) (hrn : (d.map (·.2)).Nodup)
    (hm : (k, r) ∈ d) {e : PKey × Nat} (he : e ∈ d) : e.2 = r ↔ e.1 = k := by
  constructor
  · intro h
    have : (e.1, r) ∈ d := by rw [← h]; exact he
    exact mem_unique_key hrn this hm
  · intro h
    have : (k, e.2) ∈ d := by rw [← h]; exact he
    exact mem_unique_val hkn this hm

theorem absData_modify {d : KDict PKey Nat} {h h' : SHeap} {k : PKey} {r : Nat} {f : List Nat → List Nat}
    (hc : ∀ e ∈ d, CanonK L e.1) (hkn : (d.map (·.1)).Nodup) (hrn : (d.map (·.2)).Nodup) (hm : (k, r) ∈ d)
    (hr : SHeap.get h' r = f (SHeap.get h r)) (hne : ∀ r', r' ≠ r → SHeap.get h' r' = SHeap.get h r') :
    absData d h' = dmodify (absData d h) (absK k) f := by
  unfold absData dmodify
  rw [List.map_map]
  apply List.map_congr_left
  intro e he
  have hiff := ref_eq_iff_key_eq hkn hrn hm he
  simp only [Function.comp]
  by_cases her : e.2 = r
  · have hek : e.1 = k := hiff.mp her
    rw [if_pos (by rw [hek]), her, hr]
  · have hek : e.1 ≠ k := fun x => her (hiff.mpr x)
    have : absK e.1 ≠ absK k := fun x => hek (absK_inj L _ _ (hc e he) (hc _ hm) x)
    rw [if_neg this, hne _ her]

theorem not_mem_order_of_data {s : Trk.TrekkerSelf} {h : SHeap} (hwf : WF L s h) {r : Nat} (hr : r ∈ s.data.map (·.2)) :
    r ∉ s.order.map (·.2) := by
  intro ho
  exact (List.nodup_append.mp hwf.refsDO).2.2 r hr r ho rfl

/-- the heap changes at a handle that `data` holds under `k` -/
theorem absT_modify_data {s : Trk.TrekkerSelf} {h h' : SHeap} (hwf : WF L s h) {k : PKey} {r : Nat} {f : List Nat → List Nat}
    (hg : KDict.get? s.data k = some r)
    (hr : SHeap.get h' r = f (SHeap.get h r)) (hne : ∀ r', r' ≠ r → SHeap.get h' r' = SHeap.get h r') :
    absT s h' = { data := dmodify (absT s h).data (absK k) f,
                  dataOrdered := dmodify (absT s h).dataOrdered (absK k) (fun v => if v.1 then (v.1, f v.2) else v),
                  order := (absT s h).order } := by
  have hm : (k, r) ∈ s.data := get?_some_mem hg
  have hrnD : (s.data.map (·.2)).Nodup := (List.nodup_append.mp hwf.refsDO).1
  have hck : CanonK L k := hwf.canonD _ hm
  unfold absT
  simp only
  congr 1
  · exact absData_modify L hwf.canonD hwf.keysD hrnD hm hr hne
  · unfold absDord dmodify
    rw [List.map_map]
    apply List.map_congr_left
    intro e he
    simp only [Function.comp]
    by_cases her : e.2 = r
    · have h1 : KDict.get? s.data e.1 = some e.2 := hwf.share e he (by rw [her]; exact mem_refs hm)
      have hek : e.1 = k := by
        have : (e.1, r) ∈ s.data := by rw [← her]; exact get?_some_mem h1
        exact mem_unique_key hrnD this hm
      rw [if_pos (by rw [hek])]
      simp only [h1, decide_true, if_true]
      rw [her, hr]
    · rw [hne _ her]
      by_cases hek : absK e.1 = absK k
      · have hek' : e.1 = k := absK_inj L _ _ (hwf.canonDO e he) hck hek
        rw [if_pos hek]
        have : ¬ (KDict.get? s.data e.1 = some e.2) := by
          rw [hek', hg]; intro x; exact her (Option.some.inj x).symm
        simp [this]
      · rw [if_neg hek]
  · apply absOrder_congr
    intro e he
    apply hne
    intro x
    exact not_mem_order_of_data L hwf (mem_refs hm) (by rw [← x]; exact mem_refs he)

/-- the heap changes at a handle that `data_ordered` holds under `k` -/
theorem absT_modify_dord {s : Trk.TrekkerSelf} {h h' : SHeap} (hwf : WF L s h) {k : PKey} {r : Nat} {f : List Nat → List Nat}
    (hm : (k, r) ∈ s.data_ordered)
    (hr : SHeap.get h' r = f (SHeap.get h r)) (hne : ∀ r', r' ≠ r → SHeap.get h' r' = SHeap.get h r') :
    absT s h' = { data := if KDict.get? s.data k = some r then dmodify (absT s h).data (absK k) f else (absT s h).data,
                  dataOrdered := dmodify (absT s h).dataOrdered (absK k) (fun v => (v.1, f v.2)),
                  order := (absT s h).order } := by
  have hrnD : (s.data.map (·.2)).Nodup := (List.nodup_append.mp hwf.refsDO).1
  have hck : CanonK L k := hwf.canonDO _ hm
  unfold absT
  simp only
  congr 1
  · by_cases hg : KDict.get? s.data k = some r
    · rw [if_pos hg]
      exact absData_modify L hwf.canonD hwf.keysD hrnD (get?_some_mem hg) hr hne
    · rw [if_neg hg]
      apply absData_congr
      intro e he
      apply hne
      intro x
      apply hg
      exact hwf.share _ hm (by show r ∈ _; rw [← x]; exact mem_refs he)
  · unfold absDord dmodify
    rw [List.map_map]
    apply List.map_congr_left
    intro e he
    have hiff := ref_eq_iff_key_eq hwf.keysDO hwf.refsDord hm he
    simp only [Function.comp]
    by_cases her : e.2 = r
    · have hek : e.1 = k := hiff.mp her
      rw [if_pos (by rw [hek]), her, hr]
    · have hek : e.1 ≠ k := fun x => her (hiff.mpr x)
      have : absK e.1 ≠ absK k := fun x => hek (absK_inj L _ _ (hwf.canonDO e he) hck x)
      rw [if_neg this, hne _ her]
  · apply absOrder_congr
    intro e he
    apply hne
    intro x
    exact hwf.disjO _ hm (by show r ∈ _; rw [← x]; exact mem_refs he)

/-- `WF` does not look at the contents of the heap beyond "allocated" and "duplicate-free" -/
theorem wf_heap {s : Trk.TrekkerSelf} {h h' : SHeap} (hwf : WF L s h) (hlen : h.length ≤ h'.length)
    (hnd : ∀ r, (SHeap.get h' r).Nodup) : WF L s h' :=
  ⟨hwf.canonD, hwf.canonDO, hwf.keysD, hwf.keysDO, hwf.keysO, hwf.refsDO, hwf.refsDord, hwf.share, hwf.disjO,
    fun e he => Nat.lt_of_lt_of_le (hwf.allocD e he) hlen, fun e he => Nat.lt_of_lt_of_le (hwf.allocDO e he) hlen,
    fun e he => Nat.lt_of_lt_of_le (hwf.allocO e he) hlen, hnd⟩

/-- a heap that changed at one allocated handle -/
theorem nodup_set {h : SHeap} (hnd : ∀ r, (SHeap.get h r).Nodup) (r : Nat) (x : PSet) (hx : x.Nodup) :
    ∀ r', (SHeap.get (h.set r x) r').Nodup := by
  intro r'
  by_cases hlt : r < h.length
  · by_cases he : r' = r
    · rw [he, get_set_eq h r x hlt]; exact hx
    · rw [get_set_ne h r r' x he]; exact hnd r'
  · have : h.set r x = h := List.set_eq_of_length_le (Nat.le_of_not_lt hlt)
    rw [this]; exact hnd r'

end heapchange
end LinkGen.Trek

