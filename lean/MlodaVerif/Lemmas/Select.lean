import MlodaVerif.Model.Select
/-! Helper lemmas for C03 (core Lean only). -/
namespace Select

/-! ### `lexLe` is a linear order (the spec of Python's `str` ordering) -/

theorem lexLe_refl : ∀ a : Name, lexLe a a = true
  | [] => by simp [lexLe]
  | x :: xs => by simp [lexLe, lexLe_refl xs]

theorem lexLe_total : ∀ a b : Name, (lexLe a b || lexLe b a) = true
  | [], _ => by simp [lexLe]
  | _ :: _, [] => by simp [lexLe]
  | x :: xs, y :: ys => by
    have ih := lexLe_total xs ys
    simp only [lexLe, Bool.or_eq_true, Bool.and_eq_true, decide_eq_true_eq, beq_iff_eq] at ih ⊢
    rcases Nat.lt_trichotomy x y with h | h | h
    · exact Or.inl (Or.inl h)
    · subst h
      rcases ih with h | h
      · exact Or.inl (Or.inr ⟨rfl, h⟩)
      · exact Or.inr (Or.inr ⟨rfl, h⟩)
    · exact Or.inr (Or.inl h)

theorem lexLe_trans : ∀ a b c : Name, lexLe a b = true → lexLe b c = true → lexLe a c = true
  | [], _, _ => by simp [lexLe]
  | _ :: _, [], _ => by simp [lexLe]
  | _ :: _, _ :: _, [] => by simp [lexLe]
  | x :: xs, y :: ys, z :: zs => by
    have ih := lexLe_trans xs ys zs
    simp only [lexLe, Bool.or_eq_true, Bool.and_eq_true, decide_eq_true_eq, beq_iff_eq] at ih ⊢
    intro h1 h2
    rcases h1 with h1 | ⟨h1, h1'⟩ <;> rcases h2 with h2 | ⟨h2, h2'⟩
    · exact Or.inl (by omega)
    · exact Or.inl (by omega)
    · exact Or.inl (by omega)
    · exact Or.inr ⟨by omega, ih h1' h2'⟩

theorem lexLe_antisymm : ∀ a b : Name, lexLe a b = true → lexLe b a = true → a = b
  | [], [] => by simp
  | [], _ :: _ => by simp [lexLe]
  | _ :: _, [] => by simp [lexLe]
  | x :: xs, y :: ys => by
    have ih := lexLe_antisymm xs ys
    simp only [lexLe, Bool.or_eq_true, Bool.and_eq_true, decide_eq_true_eq, beq_iff_eq] at ih ⊢
    intro h1 h2
    rcases h1 with h1 | ⟨h1, h1'⟩ <;> rcases h2 with h2 | ⟨h2, h2'⟩
    · omega
    · omega
    · omega
    · rw [h1, ih h1' h2']

theorem insertName_perm (a : Name) : ∀ l : List Name, (insertName a l).Perm (a :: l)
  | [] => by simp [insertName]
  | b :: bs => by
    unfold insertName; split
    · exact List.Perm.refl _
    · exact ((insertName_perm a bs).cons b).trans (List.Perm.swap a b bs)

theorem insertName_sorted (a : Name) : ∀ l : List Name, l.Pairwise (fun a b => lexLe a b = true) →
    (insertName a l).Pairwise (fun a b => lexLe a b = true)
  | [], _ => by simp [insertName]
  | b :: bs, h => by
    unfold insertName; split
    · rename_i hab
      refine List.Pairwise.cons ?_ h
      intro c hc
      rcases List.mem_cons.mp hc with rfl | hc
      · exact hab
      · exact lexLe_trans _ _ _ hab ((List.pairwise_cons.mp h).1 c hc)
    · rename_i hab
      have hba : lexLe b a = true := by
        have := lexLe_total a b; simp only [Bool.or_eq_true] at this
        rcases this with h1 | h1
        · exact absurd h1 hab
        · exact h1
      have h' := List.pairwise_cons.mp h
      refine List.Pairwise.cons ?_ (insertName_sorted a bs h'.2)
      intro c hc
      rcases List.mem_cons.mp ((insertName_perm a bs).mem_iff.mp hc) with rfl | hc
      · exact hba
      · exact h'.1 c hc

theorem sortNames_sorted : ∀ l : List Name, (sortNames l).Pairwise (fun a b => lexLe a b = true)
  | [] => by simp [sortNames]
  | a :: l => by
    have := sortNames_sorted l
    unfold sortNames at this ⊢
    simp only [List.foldr_cons]
    exact insertName_sorted a _ this

theorem sortNames_perm : ∀ l : List Name, (sortNames l).Perm l
  | [] => by simp [sortNames]
  | a :: l => by
    have := sortNames_perm l
    unfold sortNames at this ⊢
    simp only [List.foldr_cons]
    exact (insertName_perm a _).trans (this.cons a)

theorem mem_sortNames {l : List Name} {c : Name} : c ∈ sortNames l ↔ c ∈ l := (sortNames_perm l).mem_iff

/-- two sorted lists with the same elements (as multisets) are equal: `sorted` of a set does not depend on its iteration order -/
theorem sortNames_eq_of_perm {l₁ l₂ : List Name} (h : l₁.Perm l₂) : sortNames l₁ = sortNames l₂ := by
  apply List.Perm.eq_of_pairwise (le := fun a b => lexLe a b = true)
  · intro a b _ _ h1 h2; exact lexLe_antisymm a b h1 h2
  · exact sortNames_sorted l₁
  · exact sortNames_sorted l₂
  · exact ((sortNames_perm l₁).trans h).trans (sortNames_perm l₂).symm

/-! ### the matching test -/

theorem hasPre_iff {q c : Name} : hasPre q c = true ↔ (q ++ [tilde]) <+: c := by
  unfold hasPre; exact List.isPrefixOf_iff_prefix

theorem matchesQ_iff {q c : Name} : matchesQ q c = true ↔ (c = q ∨ (q ++ [tilde]) <+: c) := by
  unfold matchesQ; simp [hasPre_iff]

theorem mem_selectedSet {req cols : List Name} {c : Name} :
    c ∈ selectedSet req cols ↔ c ∈ cols ∧ ∃ q ∈ req, matchesQ q c = true := by
  unfold selectedSet; simp [List.mem_filter, List.any_eq_true]

theorem selectedSet_nodup {req cols : List Name} (h : cols.Nodup) : (selectedSet req cols).Nodup :=
  List.Nodup.sublist List.filter_sublist h

theorem any_perm {α} {p : α → Bool} {l₁ l₂ : List α} (h : l₁.Perm l₂) : l₁.any p = l₂.any p := by
  rw [Bool.eq_iff_iff]; simp only [List.any_eq_true]
  constructor
  · rintro ⟨x, hx, hp⟩; exact ⟨x, h.mem_iff.mp hx, hp⟩
  · rintro ⟨x, hx, hp⟩; exact ⟨x, h.mem_iff.mpr hx, hp⟩

theorem selectedSet_perm {req req' cols cols' : List Name} (hr : req.Perm req') (hc : cols.Perm cols') :
    (selectedSet req cols).Perm (selectedSet req' cols') := by
  unfold selectedSet
  have : (fun c => req.any (fun q => matchesQ q c)) = (fun c => req'.any (fun q => matchesQ q c)) := by
    funext c; exact any_perm hr
  rw [this]; exact hc.filter _

/-- membership in the `request_order` result -/
theorem mem_blocks {req sel : List Name} {c : Name} :
    c ∈ req.flatMap (block sel) ↔ c ∈ sel ∧ ∃ q ∈ req, matchesQ q c = true := by
  simp only [List.mem_flatMap, block, mem_sortNames, List.mem_filter]
  constructor
  · rintro ⟨q, hq, hc, hm⟩; exact ⟨hc, q, hq, hm⟩
  · rintro ⟨hc, q, hq, hm⟩; exact ⟨q, hq, hc, hm⟩

/-- a prefix `q~` of a name puts a tilde into the name -/
theorem tilde_mem_of_pre {q c : Name} (h : (q ++ [tilde]) <+: c) : tilde ∈ c := by
  obtain ⟨t, rfl⟩ := h; simp

theorem baseName_prefix (n : Name) : baseName n <+: n := List.takeWhile_prefix _

theorem baseName_noTilde (n : Name) : tilde ∉ baseName n := by
  unfold baseName
  induction n with
  | nil => simp
  | cons a as ih =>
    by_cases h : a = tilde
    · simp [List.takeWhile, h]
    · have : (a != tilde) = true := by simpa using h
      simp only [List.takeWhile, this, List.mem_cons, not_or]
      exact ⟨fun e => h e.symm, ih⟩

theorem baseName_eq_self_iff {n : Name} : baseName n = n ↔ tilde ∉ n := by
  unfold baseName
  induction n with
  | nil => simp
  | cons a as ih =>
    by_cases h : a = tilde
    · simp [List.takeWhile, h]
    · have : (a != tilde) = true := by simpa using h
      simp only [List.takeWhile, this, List.cons.injEq, true_and, ih, List.mem_cons, not_or]
      constructor
      · intro h2; exact ⟨fun e => h e.symm, h2⟩
      · intro h2; exact h2.2

/-! ### specification vocabulary (written from the property text, independent of the implementation) -/

/-- `c` is a column of feature `f`: its own column or one of its `f~suffix` columns -/
def OwnCol (f c : Name) : Prop := c = f ∨ (f ++ [tilde]) <+: c

instance (f c : Name) : Decidable (OwnCol f c) := by unfold OwnCol; exact inferInstance

theorem matchesQ_iff_own {q c : Name} : matchesQ q c = true ↔ OwnCol q c := matchesQ_iff

/-- two feature names clash when one could own a column of the other -/
def Clash (a b : Name) : Prop := a = b ∨ (a ++ [tilde]) <+: b ∨ (b ++ [tilde]) <+: a

instance (a b : Name) : Decidable (Clash a b) := by unfold Clash; exact inferInstance

theorem Clash.symm {a b : Name} (h : Clash a b) : Clash b a := by
  unfold Clash at *; rcases h with h | h | h
  · exact Or.inl h.symm
  · exact Or.inr (Or.inr h)
  · exact Or.inr (Or.inl h)

/-- hygiene: no requested feature name clashes with the name of a non-requested feature -/
def NoPrefixClash (req others : List Name) : Prop := ∀ q ∈ req, ∀ o ∈ others, ¬ Clash q o

instance (req others : List Name) : Decidable (NoPrefixClash req others) := by unfold NoPrefixClash; exact inferInstance

/-- hygiene inside the request: distinct requested names never own the same column -/
def NoSelfClash (req : List Name) : Prop := req.Pairwise (fun a b => ¬ Clash a b)

instance (req : List Name) : Decidable (NoSelfClash req) := by unfold NoSelfClash; exact inferInstance

theorem pre_tilde_cases {a b : Name} (h : (a ++ [tilde]) <+: (b ++ [tilde])) : a = b ∨ (a ++ [tilde]) <+: b := by
  by_cases hl : (a ++ [tilde]).length ≤ b.length
  · exact Or.inr (List.prefix_of_prefix_length_le h (List.prefix_append b [tilde]) hl)
  · left
    have h1 := h.length_le
    have : (a ++ [tilde]).length = (b ++ [tilde]).length := by simp at *; omega
    exact List.append_cancel_right (h.eq_of_length this)

/-- a column owned by two names makes the names clash -/
theorem clash_of_common_col {a b c : Name} (ha : OwnCol a c) (hb : OwnCol b c) : Clash a b := by
  unfold OwnCol at ha hb; unfold Clash
  rcases ha with rfl | ha <;> rcases hb with hb | hb
  · exact Or.inl hb
  · exact Or.inr (Or.inr hb)
  · subst hb; exact Or.inr (Or.inl ha)
  · rcases List.prefix_or_prefix_of_prefix ha hb with h | h
    · rcases pre_tilde_cases h with h | h
      · exact Or.inl h
      · exact Or.inr (Or.inl h)
    · rcases pre_tilde_cases h with h | h
      · exact Or.inl h.symm
      · exact Or.inr (Or.inr h)

/-- names without a tilde clash only when equal -/
theorem not_clash_of_noTilde {a b : Name} (ha : tilde ∉ a) (hb : tilde ∉ b) (hne : a ≠ b) : ¬ Clash a b := by
  unfold Clash; rintro (h | h | h)
  · exact hne h
  · exact hb (tilde_mem_of_pre h)
  · exact ha (tilde_mem_of_pre h)

/-- spec of one feature's part of a `request_order` result: its own columns, sorted -/
def ownBlock (cols : List Name) (q : Name) : List Name := sortNames (cols.filter (matchesQ q))

theorem block_selectedSet {req cols : List Name} {q : Name} (hq : q ∈ req) :
    block (selectedSet req cols) q = ownBlock cols q := by
  unfold block selectedSet ownBlock
  rw [List.filter_filter]
  congr 1
  apply List.filter_congr
  intro c _
  cases hm : matchesQ q c with
  | false => simp
  | true =>
    simp only [Bool.true_and, List.any_eq_true]
    exact ⟨q, hq, hm⟩

theorem flatMap_congr' {α β} {f g : α → List β} : ∀ {l : List α}, (∀ a ∈ l, f a = g a) → l.flatMap f = l.flatMap g
  | [], _ => rfl
  | a :: l, h => by
    simp only [List.flatMap_cons]
    rw [h a (by simp), flatMap_congr' (fun b hb => h b (by simp [hb]))]

end Select
