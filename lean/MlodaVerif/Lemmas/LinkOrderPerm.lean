import MlodaVerif.Lemmas.LinkOrderQueue
/-! Accounting for `order_queue_by_trekker_order`: where every link entry of the input ends up (output, still filed, lost). -/
namespace LinkOrder

/-- the link entries that are filed under a key that has not been appended yet -/
def pend (added : List Nat) : List (Nat × List Key) → List PEl
  | [] => []
  | e :: r => (if e.1 ∈ added then [] else e.2.map PEl.link) ++ pend added r

theorem pend_eq_map (added : List Nat) (is : List (Nat × List Key)) : ∃ K : List Key, pend added is = K.map PEl.link := by
  induction is with
  | nil => exact ⟨[], rfl⟩
  | cons e r ih =>
    obtain ⟨K, hK⟩ := ih
    simp only [pend]
    split
    · exact ⟨K, by simpa using hK⟩
    · exact ⟨e.2 ++ K, by simp [hK]⟩

theorem dmodify_of_not_mem {κ α : Type} [DecidableEq κ] {d : List (κ × α)} {k : κ} {f : α → α} (h : k ∉ dkeys d) :
    dmodify d k f = d := by
  induction d with
  | nil => rfl
  | cons e r ih =>
    simp only [dkeys_cons, List.mem_cons, not_or] at h
    simp only [dmodify, List.map_cons] at ih ⊢
    rw [ih h.2]
    have : e.1 ≠ k := fun hh => h.1 hh.symm
    simp [this]

theorem issueAdd_cons_eq {e : Nat × List Key} {r : List (Nat × List Key)} {p : Key} (hr : e.1 ∉ dkeys r) :
    issueAdd (e :: r) e.1 p = (e.1, if p ∈ e.2 then e.2 else e.2 ++ [p]) :: r := by
  simp only [issueAdd, dkeys_cons, List.mem_cons, true_or, if_true]
  simp only [dmodify, List.map_cons, if_true]
  have := dmodify_of_not_mem (f := fun s => if p ∈ s then s else s ++ [p]) hr
  simp only [dmodify] at this
  rw [this]

theorem issueAdd_cons_ne {e : Nat × List Key} {r : List (Nat × List Key)} {k : Nat} {p : Key} (hk : e.1 ≠ k) :
    issueAdd (e :: r) k p = e :: issueAdd r k p := by
  have hk' : k ≠ e.1 := fun h => hk h.symm
  simp only [issueAdd, dkeys_cons, List.mem_cons, hk', false_or]
  split
  · simp [dmodify, hk]
  · simp

theorem dkeys_issueAdd (is : List (Nat × List Key)) (k : Nat) (p : Key) :
    dkeys (issueAdd is k p) = if k ∈ dkeys is then dkeys is else dkeys is ++ [k] := by
  simp only [issueAdd]; split <;> simp

theorem nodup_dkeys_issueAdd {is : List (Nat × List Key)} {k : Nat} {p : Key} (h : (dkeys is).Nodup) :
    (dkeys (issueAdd is k p)).Nodup := by
  rw [dkeys_issueAdd]
  split
  · exact h
  · rename_i hk
    rw [List.nodup_append]
    refine ⟨h, by simp, ?_⟩
    intro a ha b hb; simp at hb; subst hb; intro hab; exact hk (hab ▸ ha)

theorem issueAdd_sets_nodup {is : List (Nat × List Key)} {k : Nat} {p : Key} (h : ∀ e ∈ is, e.2.Nodup) :
    ∀ e ∈ issueAdd is k p, e.2.Nodup := by
  intro e he
  simp only [issueAdd] at he
  split at he
  · obtain ⟨v, hv, hv'⟩ := (mem_dmodify (k' := e.1) (v' := e.2)).mp he
    rw [hv']
    split
    · split
      · exact h _ hv
      · rename_i hp
        rw [List.nodup_append]
        refine ⟨h _ hv, by simp, ?_⟩
        intro a ha b hb; simp at hb; subst hb; intro hab; exact hp (hab ▸ ha)
    · exact h _ hv
  · rcases List.mem_append.mp he with he | he
    · exact h e he
    · simp at he; subst he; simp

/-- filing a link under a key that has not been appended adds exactly that link to the pending ones -/
theorem pend_issueAdd {added : List Nat} {is : List (Nat × List Key)} {k : Nat} {p : Key}
    (hn : (dkeys is).Nodup) (hk : k ∉ added) (hp : ∀ e ∈ is, p ∉ e.2) :
    (pend added (issueAdd is k p)).Perm (pend added is ++ [.link p]) := by
  induction is with
  | nil => simp [issueAdd, pend, hk]
  | cons e r ih =>
    simp only [dkeys_cons, List.nodup_cons] at hn
    by_cases hek : e.1 = k
    · subst hek
      rw [issueAdd_cons_eq hn.1]
      have hpe : p ∉ e.2 := hp e List.mem_cons_self
      simp only [pend, hk, if_false, hpe, List.map_append, List.map_cons, List.map_nil]
      rw [List.perm_iff_count]; intro a
      simp only [List.count_append, List.count_cons, List.count_nil]; omega
    · rw [issueAdd_cons_ne hek]
      have ih' := ih hn.2 (fun e' he' => hp e' (List.mem_cons_of_mem _ he'))
      simp only [pend]
      have := (List.perm_iff_count.mp ih')
      rw [List.perm_iff_count]; intro a
      have h2 := this a
      simp only [List.count_append, List.count_cons, List.count_nil] at h2 ⊢; omega

/-- when `link_already_added` grows, pending links can only drop out -/
theorem pend_mono {added added' : List Nat} (is : List (Nat × List Key)) (h : ∀ x ∈ added, x ∈ added') :
    ∃ D : List Key, (pend added is).Perm (pend added' is ++ D.map PEl.link) := by
  induction is with
  | nil => exact ⟨[], by simp [pend]⟩
  | cons e r ih =>
    obtain ⟨D, hD⟩ := ih
    simp only [pend]
    by_cases h1 : e.1 ∈ added
    · refine ⟨D, ?_⟩
      simp only [h1, h _ h1, if_true, List.nil_append]; exact hD
    · by_cases h2 : e.1 ∈ added'
      · refine ⟨e.2 ++ D, ?_⟩
        simp only [h1, h2, if_true, if_false, List.nil_append, List.map_append]
        have := List.perm_iff_count.mp hD
        rw [List.perm_iff_count]; intro a
        have h3 := this a
        simp only [List.count_append] at h3 ⊢; omega
      · refine ⟨D, ?_⟩
        simp only [h1, h2, if_false]
        have := List.perm_iff_count.mp hD
        rw [List.perm_iff_count]; intro a
        have h3 := this a
        simp only [List.count_append] at h3 ⊢; omega

/-- appending the link `u`: its dependants leave the pending ones (and possibly more drop out) -/
theorem pend_visit {added added' : List Nat} {is : List (Nat × List Key)} {u : Nat} {deps : List Key}
    (hn : (dkeys is).Nodup) (hd : dget is u = some deps) (hu : u ∉ added) (hu' : u ∈ added') (h : ∀ x ∈ added, x ∈ added') :
    ∃ D : List Key, (pend added is).Perm (deps.map PEl.link ++ pend added' is ++ D.map PEl.link) := by
  induction is with
  | nil => simp [dget] at hd
  | cons e r ih =>
    simp only [dkeys_cons, List.nodup_cons] at hn
    simp only [dget] at hd
    split at hd
    · rename_i heu
      have : e.2 = deps := Option.some.inj hd
      subst this
      obtain ⟨D, hD⟩ := pend_mono (added := added) (added' := added') r h
      refine ⟨D, ?_⟩
      simp only [pend, heu, hu, hu', if_true, if_false, List.nil_append]
      have := List.perm_iff_count.mp hD
      rw [List.perm_iff_count]; intro a
      have h3 := this a
      simp only [List.count_append] at h3 ⊢; omega
    · obtain ⟨D, hD⟩ := ih hn.2 hd
      simp only [pend]
      by_cases h1 : e.1 ∈ added
      · refine ⟨D, ?_⟩
        simp only [h1, h _ h1, if_true, List.nil_append]; exact hD
      · by_cases h2 : e.1 ∈ added'
        · refine ⟨e.2 ++ D, ?_⟩
          simp only [h1, h2, if_true, if_false, List.nil_append, List.map_append]
          have := List.perm_iff_count.mp hD
          rw [List.perm_iff_count]; intro a
          have h3 := this a
          simp only [List.count_append] at h3 ⊢; omega
        · refine ⟨D, ?_⟩
          simp only [h1, h2, if_false]
          have := List.perm_iff_count.mp hD
          rw [List.perm_iff_count]; intro a
          have h3 := this a
          simp only [List.count_append] at h3 ⊢; omega

theorem sublist_split {α : Type} {L l : List α} (h : L.Sublist l) : ∃ M, l.Perm (L ++ M) := by
  induction h with
  | slnil => exact ⟨[], by simp⟩
  | cons a _ ih =>
    obtain ⟨M, hM⟩ := ih
    exact ⟨a :: M, (List.Perm.cons a hM).trans (List.perm_middle.symm)⟩
  | cons_cons a _ ih =>
    obtain ⟨M, hM⟩ := ih
    exact ⟨M, List.Perm.cons a hM⟩

/-! ### the general accounting (link uuids of the queue pairwise different) -/

structure GInv (P : List PEl) (st : OQ) (lost : List Key) : Prop where
  added_sub : ∀ u ∈ st.added, u ∈ linkIds P
  keys_nodup : (dkeys st.issues).Nodup
  sets_nodup : ∀ e ∈ st.issues, e.2.Nodup
  iss_in : ∀ e ∈ st.issues, ∀ d ∈ e.2, d.link ∈ linkIds P
  perm : P.Perm (st.out ++ pend st.added st.issues ++ lost.map PEl.link)

theorem linkIds_snoc_fg (P : List PEl) (i : Nat) : linkIds (P ++ [.fg i]) = linkIds P := by
  simp [linkIds_append, linkIds]

theorem linkIds_snoc_link (P : List PEl) (k : Key) : linkIds (P ++ [.link k]) = linkIds P ++ [k.link] := by
  simp [linkIds_append, linkIds]

theorem ginv_step (orders : Order) (ords : Nat → List Key) {P : List PEl} {st : OQ} {lost : List Key} (p : PEl)
    (h : GInv P st lost) (hn : (linkIds (P ++ [p])).Nodup) :
    ∃ lost', GInv (P ++ [p]) (oqStep orders ords st p) lost' := by
  cases p with
  | fg i =>
    refine ⟨lost, ?_⟩
    simp only [oqStep]
    refine ⟨by simpa [linkIds_snoc_fg] using h.added_sub, h.keys_nodup, h.sets_nodup, by simpa [linkIds_snoc_fg] using h.iss_in, ?_⟩
    have := List.perm_iff_count.mp h.perm
    rw [List.perm_iff_count]; intro a
    have h3 := this a
    simp only [List.count_append, List.count_cons, List.count_nil] at h3 ⊢; omega
  | link key =>
    rw [linkIds_snoc_link] at hn
    have hu : key.link ∉ linkIds P := by
      intro hh
      exact (List.nodup_append.mp hn).2.2 _ hh _ (by simp) rfl
    have hsubP : ∀ x ∈ linkIds P, x ∈ linkIds (P ++ [.link key]) := by
      intro x hx; rw [linkIds_snoc_link]; exact List.mem_append_left _ hx
    simp only [oqStep]
    cases hfm : firstMissing orders st.added key.link with
    | some k =>
      obtain ⟨hk, _⟩ := firstMissing_some hfm
      refine ⟨lost, ?_⟩
      simp only
      refine ⟨fun u hu' => hsubP u (h.added_sub u hu'), nodup_dkeys_issueAdd h.keys_nodup, issueAdd_sets_nodup h.sets_nodup, ?_, ?_⟩
      · intro e he d hd
        rcases mem_issueAdd he hd with hh | ⟨e', he', hd'⟩
        · rw [hh, linkIds_snoc_link]; simp
        · exact hsubP _ (h.iss_in e' he' d hd')
      · have hp : ∀ e ∈ st.issues, key ∉ e.2 := fun e he hke => hu (h.iss_in e he key hke)
        have h1 := List.perm_iff_count.mp (pend_issueAdd (added := st.added) h.keys_nodup hk hp)
        have h2 := List.perm_iff_count.mp h.perm
        rw [List.perm_iff_count]; intro a
        have h3 := h1 a; have h4 := h2 a
        simp only [List.count_append, List.count_cons, List.count_nil] at h3 h4 ⊢; omega
    | none =>
      have hua : key.link ∉ st.added := fun hh => hu (h.added_sub _ hh)
      simp only
      cases hdg : dget st.issues key.link with
      | none =>
        obtain ⟨D, hD⟩ := pend_mono (added := st.added) (added' := sadd st.added key.link) st.issues
          (fun x hx => mem_sadd.mpr (Or.inl hx))
        refine ⟨lost ++ D, ?_⟩
        simp only
        refine ⟨?_, h.keys_nodup, h.sets_nodup, fun e he d hd => hsubP _ (h.iss_in e he d hd), ?_⟩
        · intro x hx
          rcases mem_sadd.mp hx with hx | hx
          · exact hsubP _ (h.added_sub x hx)
          · rw [hx, linkIds_snoc_link]; simp
        · have h1 := List.perm_iff_count.mp hD
          have h2 := List.perm_iff_count.mp h.perm
          rw [List.perm_iff_count]; intro a
          have h3 := h1 a; have h4 := h2 a
          simp only [List.count_append, List.count_cons, List.count_nil, List.map_append] at h3 h4 ⊢; omega
      | some deps =>
        simp only
        obtain ⟨L, hs, ho, ha⟩ := readd_spec orders (iterSet (ords key.link) deps) (st.out ++ [.link key]) (sadd st.added key.link)
        have hdeps_nodup : deps.Nodup := h.sets_nodup _ (dget_some_mem hdg)
        obtain ⟨M, hM⟩ := sublist_split hs
        have hM' : deps.Perm (L ++ M) := (iterSet_perm hdeps_nodup).symm.trans hM
        have hsub : ∀ x ∈ st.added, x ∈ (readd orders (iterSet (ords key.link) deps) (st.out ++ [.link key], sadd st.added key.link)).2 :=
          fun x hx => (ha x).mpr (Or.inl (mem_sadd.mpr (Or.inl hx)))
        have hu' : key.link ∈ (readd orders (iterSet (ords key.link) deps) (st.out ++ [.link key], sadd st.added key.link)).2 :=
          (ha _).mpr (Or.inl (mem_sadd.mpr (Or.inr rfl)))
        obtain ⟨D, hD⟩ := pend_visit h.keys_nodup hdg hua hu' hsub
        refine ⟨lost ++ M ++ D, ?_⟩
        refine ⟨?_, h.keys_nodup, h.sets_nodup, fun e he d hd => hsubP _ (h.iss_in e he d hd), ?_⟩
        · intro x hx
          rcases (ha x).mp hx with hx | hx
          · rcases mem_sadd.mp hx with hx | hx
            · exact hsubP _ (h.added_sub x hx)
            · rw [hx, linkIds_snoc_link]; simp
          · obtain ⟨d, hd, rfl⟩ := List.mem_map.mp hx
            exact hsubP _ (h.iss_in _ (dget_some_mem hdg) d (mem_iterSet.mp (hs.subset hd)))
        · rw [ho]
          have h1 := List.perm_iff_count.mp hD
          have h2 := List.perm_iff_count.mp h.perm
          have h5 := List.perm_iff_count.mp (hM'.map PEl.link)
          rw [List.perm_iff_count]; intro a
          have h3 := h1 a; have h4 := h2 a; have h6 := h5 a
          simp only [List.count_append, List.count_cons, List.count_nil, List.map_append] at h3 h4 h6 ⊢; omega

theorem ginv_run (orders : Order) (ords : Nat → List Key) (q : List PEl) {P : List PEl} {st : OQ} {lost : List Key}
    (h : GInv P st lost) (hn : (linkIds (P ++ q)).Nodup) :
    ∃ lost', GInv (P ++ q) (oqRun orders ords st q) lost' := by
  induction q generalizing P st lost with
  | nil => exact ⟨lost, by simpa [oqRun] using h⟩
  | cons p r ih =>
    have hn1 : (linkIds (P ++ [p])).Nodup := by
      have : P ++ p :: r = (P ++ [p]) ++ r := by simp
      rw [this, linkIds_append] at hn
      exact (List.nodup_append.mp hn).1
    obtain ⟨lost1, h1⟩ := ginv_step orders ords p h hn1
    have := ih h1 (by simpa using hn)
    simpa [oqRun] using this

/-- G: with pairwise different link uuids the output is the input minus some link entries -/
theorem orderQueue_account (orders : Order) (ords : Nat → List Key) (q : List PEl) (hn : (linkIds q).Nodup) :
    ∃ lost : List Key, q.Perm (orderQueue orders ords q ++ lost.map PEl.link) := by
  have h0 : GInv [] ({} : OQ) [] := ⟨by simp, by simp [dkeys], by simp, by simp, by simp [pend]⟩
  obtain ⟨lost, h⟩ := ginv_run orders ords q h0 (by simpa using hn)
  obtain ⟨K, hK⟩ := pend_eq_map (oqRun orders ords {} q).added (oqRun orders ords {} q).issues
  refine ⟨K ++ lost, ?_⟩
  have := h.perm
  rw [hK] at this
  simpa [orderQueue_eq, List.map_append] using this

theorem linkKeys_perm {a b : List PEl} (h : a.Perm b) : (linkKeys a).Perm (linkKeys b) := by
  induction h with
  | nil => exact List.Perm.refl _
  | cons x _ ih => cases x <;> simp [linkKeys, ih]
  | swap x y l => cases x <;> cases y <;> simp [linkKeys, List.Perm.swap]
  | trans _ _ ih1 ih2 => exact ih1.trans ih2

theorem orderQueue_links_nodup (orders : Order) (ords : Nat → List Key) (q : List PEl) (hn : (linkIds q).Nodup) :
    (linkKeys (orderQueue orders ords q)).Nodup := by
  obtain ⟨lost, h⟩ := orderQueue_account orders ords q hn
  have h1 := linkKeys_perm h
  rw [linkKeys_append, linkKeys_map_link] at h1
  have h2 : (linkKeys q).Nodup := by
    rw [linkIds_eq_map] at hn
    exact List.Pairwise.of_map (fun k : Key => k.link) (fun a b hab h => hab (by rw [h])) hn
  exact (List.nodup_append.mp ((List.Perm.nodup_iff h1).mp h2)).1

end LinkOrder

namespace LinkOrder

/-! ### the permutation theorem: every link waits for at most one link, which itself never waits -/

/-- decidable hypothesis of `C04.link_queue_perm_partial` -/
structure Depth1 (orders : Order) (q : List PEl) : Prop where
  /-- the link uuids of the queue are pairwise different -/
  ids_nodup : (linkIds q).Nodup
  /-- a link uuid is in at most one set of `orders` (it waits for at most one link) -/
  one_wait : ∀ e1 ∈ orders, ∀ e2 ∈ orders, ∀ x ∈ e1.2, x ∈ e2.2 → e1.1 = e2.1
  /-- a key of `orders` that somebody waits for does not wait itself -/
  flat : ∀ e1 ∈ orders, ∀ e2 ∈ orders, e1.2 ≠ [] → e1.1 ∉ e2.2
  /-- a link that a queued link waits for is in the queue -/
  present : ∀ e ∈ orders, ∀ x ∈ linkIds q, x ∈ e.2 → e.1 ∈ linkIds q

theorem readd_all {orders : Order} (ds : List Key) (out : List PEl) (added : List Nat)
    (h : ∀ d ∈ ds, ∀ o ∈ orders, d.link ∈ o.2 → o.1 ∈ added) :
    (readd orders ds (out, added)).1 = out ++ ds.map PEl.link ∧
      ∀ x, x ∈ (readd orders ds (out, added)).2 ↔ x ∈ added ∨ x ∈ ds.map (·.link) := by
  induction ds generalizing out added with
  | nil => simp [readd]
  | cons d r ih =>
    have hm : firstMissing orders added d.link = none :=
      firstMissing_none_iff.mpr (fun o ho hx => h d List.mem_cons_self o ho hx)
    simp only [readd, hm]
    obtain ⟨h1, h2⟩ := ih (out ++ [.link d]) (sadd added d.link)
      (fun d' hd' o ho hx => mem_sadd.mpr (Or.inl (h d' (List.mem_cons_of_mem _ hd') o ho hx)))
    refine ⟨by rw [h1]; simp, ?_⟩
    intro x; rw [h2 x, mem_sadd]; simp only [List.map_cons, List.mem_cons]
    constructor
    · rintro ((hx | hx) | hx)
      · exact Or.inl hx
      · exact Or.inr (Or.inl hx)
      · exact Or.inr (Or.inr hx)
    · rintro (hx | hx | hx)
      · exact Or.inl (Or.inl hx)
      · exact Or.inl (Or.inr hx)
      · exact Or.inr hx

theorem pend_congr {a a' : List Nat} {is : List (Nat × List Key)}
    (h : ∀ e ∈ is, e.2 ≠ [] → (e.1 ∈ a ↔ e.1 ∈ a')) : pend a is = pend a' is := by
  induction is with
  | nil => rfl
  | cons e r ih =>
    simp only [pend]
    rw [ih (fun e' he' => h e' (List.mem_cons_of_mem _ he'))]
    congr 1
    by_cases he : e.2 = []
    · simp [he]
    · have := h e List.mem_cons_self he
      by_cases h1 : e.1 ∈ a
      · simp [h1, this.mp h1]
      · have h2 : e.1 ∉ a' := fun hh => h1 (this.mpr hh)
        simp [h1, h2]

theorem pend_visit_exact {a a' : List Nat} {is : List (Nat × List Key)} {u : Nat} {deps : List Key}
    (hn : (dkeys is).Nodup) (hd : dget is u = some deps) (hu : u ∉ a) (hu' : u ∈ a')
    (h : ∀ e ∈ is, e.1 ≠ u → e.2 ≠ [] → (e.1 ∈ a ↔ e.1 ∈ a')) :
    (pend a is).Perm (deps.map PEl.link ++ pend a' is) := by
  induction is with
  | nil => simp [dget] at hd
  | cons e r ih =>
    simp only [dkeys_cons, List.nodup_cons] at hn
    simp only [dget] at hd
    split at hd
    · rename_i heu
      have : e.2 = deps := Option.some.inj hd
      subst this
      have hr : pend a r = pend a' r := by
        apply pend_congr
        intro e' he' hne
        have : e'.1 ≠ u := by
          intro hh; apply hn.1; rw [heu, ← hh]; exact mem_dkeys.mpr ⟨e'.2, he'⟩
        exact h e' (List.mem_cons_of_mem _ he') this hne
      simp only [pend, heu, hu, hu', if_true, if_false, List.nil_append, hr]
      exact List.Perm.refl _
    · rename_i hne
      have ih' := ih hn.2 hd (fun e' he' => h e' (List.mem_cons_of_mem _ he'))
      have hc : (if e.1 ∈ a then [] else e.2.map PEl.link) = (if e.1 ∈ a' then [] else e.2.map PEl.link) := by
        by_cases he : e.2 = []
        · simp [he]
        · have := h e List.mem_cons_self hne he
          by_cases h1 : e.1 ∈ a
          · simp [h1, this.mp h1]
          · have h2 : e.1 ∉ a' := fun hh => h1 (this.mpr hh)
            simp [h1, h2]
      simp only [pend, hc]
      have := List.perm_iff_count.mp ih'
      rw [List.perm_iff_count]; intro x
      have h3 := this x
      simp only [List.count_append] at h3 ⊢; omega

theorem pend_nil {a : List Nat} {is : List (Nat × List Key)} (h : ∀ e ∈ is, e.1 ∉ a → e.2 = []) : pend a is = [] := by
  induction is with
  | nil => rfl
  | cons e r ih =>
    simp only [pend]
    rw [ih (fun e' he' => h e' (List.mem_cons_of_mem _ he'))]
    by_cases h1 : e.1 ∈ a
    · simp [h1]
    · simp [h1, h e List.mem_cons_self h1]

structure JInv (orders : Order) (P : List PEl) (st : OQ) : Prop where
  g : GInv P st []
  why : ∀ e ∈ st.issues, ∀ d ∈ e.2, ∃ o ∈ orders, o.1 = e.1 ∧ d.link ∈ o.2
  free : ∀ d, PEl.link d ∈ P → (∀ o ∈ orders, d.link ∉ o.2) → d.link ∈ st.added

theorem jinv_step {orders : Order} (ords : Nat → List Key) {P : List PEl} {st : OQ} (p : PEl)
    (h1w : ∀ e1 ∈ orders, ∀ e2 ∈ orders, ∀ x ∈ e1.2, x ∈ e2.2 → e1.1 = e2.1)
    (hflat : ∀ e1 ∈ orders, ∀ e2 ∈ orders, e1.2 ≠ [] → e1.1 ∉ e2.2)
    (h : JInv orders P st) (hn : (linkIds (P ++ [p])).Nodup) :
    JInv orders (P ++ [p]) (oqStep orders ords st p) := by
  cases p with
  | fg i =>
    simp only [oqStep]
    refine ⟨⟨by simpa [linkIds_snoc_fg] using h.g.added_sub, h.g.keys_nodup, h.g.sets_nodup,
      by simpa [linkIds_snoc_fg] using h.g.iss_in, ?_⟩, h.why, ?_⟩
    · have := List.perm_iff_count.mp h.g.perm
      rw [List.perm_iff_count]; intro a
      have h3 := this a
      simp only [List.count_append, List.count_cons, List.count_nil, List.map_nil] at h3 ⊢; omega
    · intro d hd hfree
      rcases List.mem_append.mp hd with hd | hd
      · exact h.free d hd hfree
      · simp at hd
  | link key =>
    rw [linkIds_snoc_link] at hn
    have hu : key.link ∉ linkIds P := by
      intro hh
      exact (List.nodup_append.mp hn).2.2 _ hh _ (by simp) rfl
    have hsubP : ∀ x ∈ linkIds P, x ∈ linkIds (P ++ [.link key]) := by
      intro x hx; rw [linkIds_snoc_link]; exact List.mem_append_left _ hx
    simp only [oqStep]
    cases hfm : firstMissing orders st.added key.link with
    | some k =>
      obtain ⟨hk, eo, heo, heo1, heo2⟩ := firstMissing_some hfm
      simp only
      refine ⟨⟨fun u hu' => hsubP u (h.g.added_sub u hu'), nodup_dkeys_issueAdd h.g.keys_nodup,
        issueAdd_sets_nodup h.g.sets_nodup, ?_, ?_⟩, ?_, ?_⟩
      · intro e he d hd
        rcases mem_issueAdd he hd with hh | ⟨e', he', hd'⟩
        · rw [hh, linkIds_snoc_link]; simp
        · exact hsubP _ (h.g.iss_in e' he' d hd')
      · have hp : ∀ e ∈ st.issues, key ∉ e.2 := fun e he hke => hu (h.g.iss_in e he key hke)
        have h1 := List.perm_iff_count.mp (pend_issueAdd (added := st.added) h.g.keys_nodup hk hp)
        have h2 := List.perm_iff_count.mp h.g.perm
        rw [List.perm_iff_count]; intro a
        have h3 := h1 a; have h4 := h2 a
        simp only [List.count_append, List.count_cons, List.count_nil, List.map_nil] at h3 h4 ⊢; omega
      · -- why
        intro e he d hd
        simp only [issueAdd] at he
        split at he
        · obtain ⟨v, hv, hv'⟩ := (mem_dmodify (k' := e.1) (v' := e.2)).mp he
          rw [hv'] at hd
          split at hd
          · rename_i hek
            split at hd
            · exact h.why _ hv d hd
            · rcases List.mem_append.mp hd with hd | hd
              · exact h.why _ hv d hd
              · simp at hd; subst hd
                exact ⟨eo, heo, by rw [heo1, hek], heo2⟩
          · exact h.why _ hv d hd
        · rcases List.mem_append.mp he with he | he
          · exact h.why e he d hd
          · simp at he; subst he; simp at hd; subst hd
            exact ⟨eo, heo, heo1, heo2⟩
      · intro d hd hfree
        rcases List.mem_append.mp hd with hd | hd
        · exact h.free d hd hfree
        · simp at hd; subst hd
          exact absurd heo2 (hfree eo heo)
    | none =>
      have hua : key.link ∉ st.added := fun hh => hu (h.g.added_sub _ hh)
      simp only
      cases hdg : dget st.issues key.link with
      | none =>
        simp only
        have hpc : pend (sadd st.added key.link) st.issues = pend st.added st.issues := by
          apply pend_congr
          intro e he _
          rw [mem_sadd]
          constructor
          · rintro (hh | hh)
            · exact hh
            · exact absurd (hh ▸ mem_dkeys.mpr ⟨e.2, he⟩) (dget_none_iff.mp hdg)
          · exact Or.inl
        refine ⟨⟨?_, h.g.keys_nodup, h.g.sets_nodup, fun e he d hd => hsubP _ (h.g.iss_in e he d hd), ?_⟩, h.why, ?_⟩
        · intro x hx
          rcases mem_sadd.mp hx with hx | hx
          · exact hsubP _ (h.g.added_sub x hx)
          · rw [hx, linkIds_snoc_link]; simp
        · rw [hpc]
          have h2 := List.perm_iff_count.mp h.g.perm
          rw [List.perm_iff_count]; intro a
          have h4 := h2 a
          simp only [List.count_append, List.count_cons, List.count_nil, List.map_nil] at h4 ⊢; omega
        · intro d hd hfree
          rcases List.mem_append.mp hd with hd | hd
          · exact mem_sadd.mpr (Or.inl (h.free d hd hfree))
          · simp at hd; subst hd; exact mem_sadd.mpr (Or.inr rfl)
      | some deps =>
        simp only
        have hdeps_nodup : deps.Nodup := h.g.sets_nodup _ (dget_some_mem hdg)
        have hwhy : ∀ d ∈ deps, ∃ o ∈ orders, o.1 = key.link ∧ d.link ∈ o.2 :=
          fun d hd => h.why _ (dget_some_mem hdg) d hd
        have hall : ∀ d ∈ iterSet (ords key.link) deps, ∀ o ∈ orders, d.link ∈ o.2 → o.1 ∈ sadd st.added key.link := by
          intro d hd o ho hx
          obtain ⟨ou, hou, hou1, hou2⟩ := hwhy d (mem_iterSet.mp hd)
          rw [h1w o ho ou hou d.link hx hou2, hou1]
          exact mem_sadd.mpr (Or.inr rfl)
        obtain ⟨ho, ha⟩ := readd_all (iterSet (ords key.link) deps) (st.out ++ [.link key]) (sadd st.added key.link) hall
        have hu' : key.link ∈ (readd orders (iterSet (ords key.link) deps) (st.out ++ [.link key], sadd st.added key.link)).2 :=
          (ha _).mpr (Or.inl (mem_sadd.mpr (Or.inr rfl)))
        have hpv := pend_visit_exact (a := st.added)
          (a' := (readd orders (iterSet (ords key.link) deps) (st.out ++ [.link key], sadd st.added key.link)).2)
          h.g.keys_nodup hdg hua hu' (by
            intro e he hne hnn
            constructor
            · intro hh; exact (ha _).mpr (Or.inl (mem_sadd.mpr (Or.inl hh)))
            · intro hh
              rcases (ha _).mp hh with hh | hh
              · rcases mem_sadd.mp hh with hh | hh
                · exact hh
                · exact absurd hh hne
              · exfalso
                obtain ⟨d, hd, hdl⟩ := List.mem_map.mp hh
                obtain ⟨ou, hou, _, hou2⟩ := hwhy d (mem_iterSet.mp hd)
                obtain ⟨d', hd'⟩ := List.exists_mem_of_ne_nil _ hnn
                obtain ⟨o, ho', ho1, ho2⟩ := h.why e he d' hd'
                have hne' : o.2 ≠ [] := List.ne_nil_of_mem ho2
                apply hflat o ho' ou hou hne'
                rw [ho1, ← hdl]; exact hou2)
        refine ⟨⟨?_, h.g.keys_nodup, h.g.sets_nodup, fun e he d hd => hsubP _ (h.g.iss_in e he d hd), ?_⟩, h.why, ?_⟩
        · intro x hx
          rcases (ha x).mp hx with hx | hx
          · rcases mem_sadd.mp hx with hx | hx
            · exact hsubP _ (h.g.added_sub x hx)
            · rw [hx, linkIds_snoc_link]; simp
          · obtain ⟨d, hd, rfl⟩ := List.mem_map.mp hx
            exact hsubP _ (h.g.iss_in _ (dget_some_mem hdg) d (mem_iterSet.mp hd))
        · rw [ho]
          have h1 := List.perm_iff_count.mp hpv
          have h2 := List.perm_iff_count.mp h.g.perm
          have h5 := List.perm_iff_count.mp ((iterSet_perm (ord := ords key.link) hdeps_nodup).map PEl.link)
          rw [List.perm_iff_count]; intro a
          have h3 := h1 a; have h4 := h2 a; have h6 := h5 a
          simp only [List.count_append, List.count_cons, List.count_nil, List.map_nil] at h3 h4 h6 ⊢; omega
        · intro d hd hfree
          rcases List.mem_append.mp hd with hd | hd
          · exact (ha _).mpr (Or.inl (mem_sadd.mpr (Or.inl (h.free d hd hfree))))
          · simp at hd; subst hd; exact hu'

theorem jinv_run {orders : Order} (ords : Nat → List Key) (q : List PEl) {P : List PEl} {st : OQ}
    (h1w : ∀ e1 ∈ orders, ∀ e2 ∈ orders, ∀ x ∈ e1.2, x ∈ e2.2 → e1.1 = e2.1)
    (hflat : ∀ e1 ∈ orders, ∀ e2 ∈ orders, e1.2 ≠ [] → e1.1 ∉ e2.2)
    (h : JInv orders P st) (hn : (linkIds (P ++ q)).Nodup) :
    JInv orders (P ++ q) (oqRun orders ords st q) := by
  induction q generalizing P st with
  | nil => simpa [oqRun] using h
  | cons p r ih =>
    have hn1 : (linkIds (P ++ [p])).Nodup := by
      have : P ++ p :: r = (P ++ [p]) ++ r := by simp
      rw [this, linkIds_append] at hn
      exact (List.nodup_append.mp hn).1
    have := ih (jinv_step ords p h1w hflat h hn1) (by simpa using hn)
    simpa [oqRun] using this

/-- A5: under `Depth1` nothing is lost and nothing is doubled -/
theorem orderQueue_perm_of_depth1 (orders : Order) (ords : Nat → List Key) (q : List PEl) (hD : Depth1 orders q) :
    (orderQueue orders ords q).Perm q := by
  have h0 : JInv orders [] ({} : OQ) :=
    ⟨⟨by simp, by simp [dkeys], by simp, by simp, by simp [pend]⟩, by simp, by simp⟩
  have h := jinv_run ords q hD.one_wait hD.flat h0 (by simpa using hD.ids_nodup)
  simp only [List.nil_append] at h
  have hp : pend (oqRun orders ords {} q).added (oqRun orders ords {} q).issues = [] := by
    apply pend_nil
    intro e he hna
    cases hd : e.2 with
    | nil => rfl
    | cons d r =>
      exfalso
      have hdm : d ∈ e.2 := by rw [hd]; exact List.mem_cons_self
      obtain ⟨o, ho, ho1, ho2⟩ := h.why e he d hdm
      have hin := h.g.iss_in e he d hdm
      have hk := hD.present o ho d.link hin ho2
      obtain ⟨dk, hdk, hdkl⟩ := mem_linkIds.mp hk
      have hfree : ∀ o' ∈ orders, dk.link ∉ o'.2 := by
        intro o' ho'
        rw [hdkl]
        exact hD.flat o ho o' ho' (List.ne_nil_of_mem ho2)
      have := h.free dk hdk hfree
      rw [hdkl, ho1] at this
      exact hna this
  have hperm := h.g.perm
  rw [hp] at hperm
  simpa [orderQueue_eq] using hperm.symm

end LinkOrder
