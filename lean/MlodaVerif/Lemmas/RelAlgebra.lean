
import MlodaVerif.Lemmas.RelPyDict
namespace Rel

/-! ### generic list shuffles -/

theorem flatMap_nil_fun {α β : Type} (l : List α) : l.flatMap (fun _ => ([] : List β)) = [] := by
  induction l with
  | nil => rfl
  | cons a l ih => simp [ih]

theorem flatMap_congr_mem {α β : Type} {l : List α} {f g : α → List β} (h : ∀ a ∈ l, f a = g a) :
    l.flatMap f = l.flatMap g := by
  induction l with
  | nil => rfl
  | cons a l ih =>
    simp only [List.flatMap_cons]
    rw [h a List.mem_cons_self, ih (fun b hb => h b (List.mem_cons_of_mem _ hb))]

theorem flatMap_append_perm {α β : Type} (l : List α) (g h : α → List β) :
    (l.flatMap (fun a => g a ++ h a)).Perm (l.flatMap g ++ l.flatMap h) := by
  induction l with
  | nil => simp
  | cons a l ih =>
    simp only [List.flatMap_cons]
    -- g a ++ h a ++ X  ~  g a ++ G ++ (h a ++ H)
    have : (g a ++ h a ++ List.flatMap (fun a => g a ++ h a) l).Perm (g a ++ h a ++ (List.flatMap g l ++ List.flatMap h l)) :=
      List.Perm.append_left _ ih
    refine this.trans ?_
    rw [List.append_assoc, List.append_assoc]
    refine List.Perm.append_left _ ?_
    rw [← List.append_assoc, ← List.append_assoc]
    exact List.Perm.append_right _ List.perm_append_comm

theorem flatMap_ite_single {α β : Type} (l : List α) (p : α → Bool) (f : α → β) :
    l.flatMap (fun a => if p a then [f a] else []) = (l.filter p).map f := by
  induction l with
  | nil => rfl
  | cons a l ih => by_cases h : p a <;> simp [h, ih]

/-- the nested loop can be run with either table outside -/
theorem flatMap_filter_map_swap {α β γ : Type} (L : List α) (R : List β) (p : α → β → Bool) (f : α → β → γ) :
    (L.flatMap (fun l => (R.filter (p l)).map (f l))).Perm
      (R.flatMap (fun r => (L.filter (fun l => p l r)).map (fun l => f l r))) := by
  induction L with
  | nil => simp [flatMap_nil_fun]
  | cons a L ih =>
    simp only [List.flatMap_cons]
    have h1 : (R.flatMap (fun r => (List.filter (fun l => p l r) (a :: L)).map (fun l => f l r))) =
        R.flatMap (fun r => (if p a r then [f a r] else []) ++ (L.filter (fun l => p l r)).map (fun l => f l r)) := by
      congr 1; funext r
      by_cases h : p a r <;> simp [h]
    rw [h1]
    refine List.Perm.trans ?_ (flatMap_append_perm R _ _).symm
    rw [flatMap_ite_single]
    exact List.Perm.append_left _ ih

/-! ### symmetry of matching and coalescing -/

theorem matchesK_comm (lk rk : List Col) (l r : Row) : matchesK rk lk r l = matchesK lk rk l r := by
  unfold matchesK
  by_cases h : keyOf lk l = keyOf rk r
  · rw [h]
  · have h' : ¬ keyOf rk r = keyOf lk l := fun hh => h hh.symm
    have e1 : (keyOf lk l == keyOf rk r) = false := by simpa using h
    have e2 : (keyOf rk r == keyOf lk l) = false := by simpa using h'
    rw [e1, e2, Bool.and_false, Bool.and_false]

theorem coalesced_comm (lk rk : List Col) : coalesced rk lk = coalesced lk rk := by
  induction lk generalizing rk with
  | nil => cases rk <;> simp [coalesced]
  | cons a lk ih =>
    cases rk with
    | nil => simp [coalesced]
    | cons b rk =>
      rw [coalesced_cons, coalesced_cons, ih]
      by_cases h : a = b
      · subst h; simp
      · have h' : ¬ b = a := fun hh => h hh.symm
        simp [h, h']

theorem matchesK_keys {lk rk : List Col} {l r : Row} (h : matchesK lk rk l r = true) : keyOf lk l = keyOf rk r := by
  unfold matchesK at h
  simp only [Bool.and_eq_true, beq_iff_eq] at h
  exact h.2

/-- a matched pair read left-first or right-first is the same row up to column order -/
theorem rowEq_combine_comm {lk rk : List Col} {l r : Row} (hl : (rcols l).Nodup) (hr : (rcols r).Nodup)
    (hk : keyOf lk l = keyOf rk r) :
    RowEq (combine (coalesced lk rk) l r) (combine (coalesced lk rk) r l) := by
  let co := coalesced lk rk
  let pin : Col × Cell → Bool := fun e => decide (e.1 ∈ co)
  let pout : Col × Cell → Bool := fun e => decide (e.1 ∉ co)
  have hnot : ∀ e : Col × Cell, (!pin e) = pout e := by intro e; simp [pin, pout]
  have splitl : l.Perm (l.filter pin ++ l.filter pout) := by
    have := (List.filter_append_perm pin l).symm
    simpa [hnot] using this
  have splitr : r.Perm (r.filter pin ++ r.filter pout) := by
    have := (List.filter_append_perm pin r).symm
    simpa [hnot] using this
  have hin : RowEq (l.filter pin) (r.filter pin) := by
    refine rowEq_of_cell_eq ?_ ?_ ?_
    · rw [rcols_filter (fun c => decide (c ∈ co))]; exact hl.sublist List.filter_sublist
    · rw [rcols_filter (fun c => decide (c ∈ co))]; exact hr.sublist List.filter_sublist
    · intro c
      rw [cell_filter (fun c => decide (c ∈ co)), cell_filter (fun c => decide (c ∈ co))]
      by_cases hc : c ∈ co
      · simp [hc, cell_eq_of_mem_coalesced hk hc]
      · simp [hc]
  unfold RowEq at hin ⊢
  unfold combine
  rw [core_append, core_append]
  have cl : (core l).Perm (core (l.filter pin) ++ core (l.filter pout)) := by
    rw [← core_append]; exact List.Perm.filter _ splitl
  have cr : (core r).Perm (core (r.filter pin) ++ core (r.filter pout)) := by
    rw [← core_append]; exact List.Perm.filter _ splitr
  -- core l ++ core r_out  ~  (l_in ++ l_out) ++ r_out  ~  (r_in ++ l_out) ++ r_out ~ (r_in ++ r_out) ++ l_out ~ core r ++ core l_out
  refine (List.Perm.append_right _ cl).trans ?_
  refine (List.Perm.append_right _ (List.Perm.append_right _ hin)).trans ?_
  refine List.Perm.trans ?_ (List.Perm.append_right _ cr.symm)
  rw [List.append_assoc, List.append_assoc]
  exact List.Perm.append_left _ List.perm_append_comm

/-! ### algebra of the spec operators -/

theorem innerJoin_comm {lk rk : List Col} {L R : Table} (wfL : RowsWF L) (wfR : RowsWF R) :
    TableEq (innerJoin lk rk L R) (innerJoin rk lk R L) := by
  unfold innerJoin
  refine (TableEq.of_perm (flatMap_filter_map_swap L R (matchesK lk rk) (combine (coalesced lk rk)))).trans ?_
  refine TableEq.flatMap_congr R _ _ ?_
  intro r hr
  have hf : L.filter (fun l => matchesK lk rk l r) = L.filter (matchesK rk lk r) :=
    List.filter_congr (fun l _ => (matchesK_comm lk rk l r).symm)
  rw [hf, coalesced_comm lk rk]
  refine TableEq.map_congr _ _ _ ?_
  intro l hl
  obtain ⟨hlL, hm⟩ := List.mem_filter.mp hl
  rw [matchesK_comm] at hm
  exact rowEq_combine_comm (wfL l hlL) (wfR r hr) (matchesK_keys hm)

/-- RIGHT join = LEFT join with the two sides exchanged -/
theorem rightJoin_eq_leftJoin_swapped {lk rk ls : List Col} {L R : Table} (wfL : RowsWF L) (wfR : RowsWF R) :
    TableEq (rightJoin lk rk ls L R) (leftJoin rk lk ls R L) := by
  unfold rightJoin leftJoin
  refine TableEq.flatMap_congr R _ _ ?_
  intro r hr
  have hf : L.filter (fun l => matchesK lk rk l r) = L.filter (matchesK rk lk r) :=
    List.filter_congr (fun l _ => (matchesK_comm lk rk l r).symm)
  simp only [hf, coalesced_comm lk rk]
  by_cases he : (L.filter (matchesK rk lk r)).isEmpty
  · simp only [he, if_true]
    refine TableEq.single (RowEq.of_core_eq ?_)
    rw [core_padLeft, core_padRight]
  · simp only [he, Bool.false_eq_true, if_false]
    refine TableEq.map_congr _ _ _ ?_
    intro l hl
    obtain ⟨hlL, hm⟩ := List.mem_filter.mp hl
    rw [matchesK_comm] at hm
    exact rowEq_combine_comm (wfL l hlL) (wfR r hr) (matchesK_keys hm)

/-- the inner join consists of exactly one combined row per matching pair (so duplicate keys multiply) -/
theorem mem_innerJoin {lk rk : List Col} {L R : Table} {x : Row} :
    x ∈ innerJoin lk rk L R ↔ ∃ l ∈ L, ∃ r ∈ R, matchesK lk rk l r = true ∧ x = combine (coalesced lk rk) l r := by
  unfold innerJoin
  simp only [List.mem_flatMap, List.mem_map, List.mem_filter]
  constructor
  · rintro ⟨l, hl, r, ⟨hr, hm⟩, rfl⟩; exact ⟨l, hl, r, hr, hm, rfl⟩
  · rintro ⟨l, hl, r, hr, hm, rfl⟩; exact ⟨l, hl, r, ⟨hr, hm⟩, rfl⟩

theorem length_innerJoin (lk rk : List Col) (L R : Table) :
    (innerJoin lk rk L R).length = (L.map (fun l => R.countP (matchesK lk rk l))).sum := by
  unfold innerJoin
  induction L with
  | nil => rfl
  | cons l L ih => simp [List.flatMap_cons, ih, List.countP_eq_length_filter]

/-- LEFT join = INNER join plus one null-padded row for every left row without a partner -/
theorem leftJoin_eq_inner_append_unmatched (lk rk rs : List Col) (L R : Table) :
    (leftJoin lk rk rs L R).Perm
      (innerJoin lk rk L R ++
        (L.filter (fun l => R.all (fun r => !matchesK lk rk l r))).map (padRight (coalesced lk rk) rs)) := by
  unfold leftJoin innerJoin
  have h : ∀ l, (let ms := R.filter (matchesK lk rk l);
      if ms.isEmpty then [padRight (coalesced lk rk) rs l] else ms.map (combine (coalesced lk rk) l)) =
      (R.filter (matchesK lk rk l)).map (combine (coalesced lk rk) l) ++
        (if R.all (fun r => !matchesK lk rk l r) then [padRight (coalesced lk rk) rs l] else []) := by
    intro l
    by_cases he : R.filter (matchesK lk rk l) = []
    · have : R.all (fun r => !matchesK lk rk l r) = true := by
        rw [List.all_eq_true]; intro r hr
        have := (List.filter_eq_nil_iff.mp he) r hr
        simpa using this
      simp [he, this]
    · have : R.all (fun r => !matchesK lk rk l r) = false := by
        rw [Bool.eq_false_iff]
        intro hall
        rw [List.all_eq_true] at hall
        apply he
        rw [List.filter_eq_nil_iff]
        intro r hr; have := hall r hr; simpa using this
      simp [he, this]
  simp only [h]
  refine (flatMap_append_perm L _ _).trans ?_
  rw [flatMap_ite_single]

end Rel
