import MlodaVerif.Lemmas.Graph
/-! `set_direct_parents_for_each_child`, `set_all_parents_for_each_child`, `set_root_parents_by_direct_`:
what a successful run computed, when it succeeds, and that it never succeeds on a cycle. -/
namespace Graph

theorem Reach.first {ch : Nat → List Nat} {a v : Nat} (h : Reach ch a v) : ∃ c ∈ ch a, c = v ∨ Reach ch c v := by
  cases h with
  | edge h => exact ⟨v, h, Or.inl rfl⟩
  | head h r => exact ⟨_, h, Or.inr r⟩

theorem reach_iff_first {ch : Nat → List Nat} {a v : Nat} : Reach ch a v ↔ ∃ c ∈ ch a, c = v ∨ Reach ch c v := by
  constructor
  · exact Reach.first
  · rintro ⟨c, hc, rfl | h⟩
    · exact .edge hc
    · exact .head hc h

/-! ### the direct-parent recursion -/

def directKids (ch : Nat → List Nat) (fuel parent : Nat) (cs : List Nat) (s : PS) : Option PS :=
  cs.foldlM (fun s child => directGo ch fuel child (ch child) { pbd := dadd s.pbd child parent, tch := child :: s.tch }) s

theorem directGo_succ (ch : Nat → List Nat) (fuel parent : Nat) (cs : List Nat) (s : PS) :
    directGo ch (fuel + 1) parent cs s = directKids ch fuel parent cs s := rfl

theorem directKids_cons (ch : Nat → List Nat) (fuel parent c : Nat) (cs : List Nat) (s : PS) :
    directKids ch fuel parent (c :: cs) s =
      (directGo ch fuel c (ch c) { pbd := dadd s.pbd c parent, tch := c :: s.tch }).bind (directKids ch fuel parent cs) := by
  simp [directKids, List.foldlM_cons]
  rfl

structure DirectSpec (ch : Nat → List Nat) (s s' : PS) : Prop where
  sound : ∀ c x, x ∈ dget s'.pbd c → x ∈ dget s.pbd c ∨ c ∈ ch x
  mono : ∀ c x, x ∈ dget s.pbd c → x ∈ dget s'.pbd c
  tch : ∀ x ∈ s'.tch, x ∈ s.tch ∨ ∃ p, x ∈ ch p
  keysNodup : (dkeys s.pbd).Nodup → (dkeys s'.pbd).Nodup
  valsNodup : (∀ k, (dget s.pbd k).Nodup) → ∀ k, (dget s'.pbd k).Nodup

theorem DirectSpec.refl (ch : Nat → List Nat) (s : PS) : DirectSpec ch s s :=
  ⟨fun _ _ h => Or.inl h, fun _ _ h => h, fun _ h => Or.inl h, id, id⟩

theorem DirectSpec.trans {ch : Nat → List Nat} {s1 s2 s3 : PS} (a : DirectSpec ch s1 s2) (b : DirectSpec ch s2 s3) :
    DirectSpec ch s1 s3 := by
  refine ⟨?_, fun c x h => b.mono c x (a.mono c x h), ?_, fun h => b.keysNodup (a.keysNodup h), fun h => b.valsNodup (a.valsNodup h)⟩
  · intro c x h
    rcases b.sound c x h with h | h
    · exact a.sound c x h
    · exact Or.inr h
  · intro x h
    rcases b.tch x h with h | h
    · exact a.tch x h
    · exact Or.inr h

theorem DirectSpec.add {ch : Nat → List Nat} (s : PS) {parent c : Nat} (hc : c ∈ ch parent) :
    DirectSpec ch s { pbd := dadd s.pbd c parent, tch := c :: s.tch } := by
  refine ⟨?_, ?_, ?_, ?_, ?_⟩
  · intro c' x h
    rcases mem_dget_dadd.mp h with h | ⟨rfl, rfl⟩
    · exact Or.inl h
    · exact Or.inr hc
  · intro c' x h; exact mem_dget_dadd.mpr (Or.inl h)
  · intro x h
    rcases List.mem_cons.mp h with rfl | h
    · exact Or.inr ⟨parent, hc⟩
    · exact Or.inl h
  · intro h; exact nodup_dkeys_dset h _ _
  · intro h k
    simp only [dadd, dget_dset]
    split
    · exact nodup_sadd (h _) _
    · exact h k

theorem directGo_spec (ch : Nat → List Nat) : ∀ fuel parent children s s', (∀ c ∈ children, c ∈ ch parent) →
    directGo ch fuel parent children s = some s' → DirectSpec ch s s' ∧ ∀ c ∈ children, parent ∈ dget s'.pbd c := by
  intro fuel
  induction fuel with
  | zero => intro _ _ _ _ _ h; cases h
  | succ fuel ih =>
    intro parent children
    induction children with
    | nil =>
      intro s s' _ h
      rw [directGo_succ] at h
      simp [directKids, List.foldlM] at h; subst h
      exact ⟨DirectSpec.refl ch s, by simp⟩
    | cons c cs ihc =>
      intro s s' hsub h
      rw [directGo_succ, directKids_cons] at h
      cases h2 : directGo ch fuel c (ch c) { pbd := dadd s.pbd c parent, tch := c :: s.tch } with
      | none => rw [h2] at h; cases h
      | some s2 =>
        rw [h2] at h
        have h' : directGo ch (fuel + 1) parent cs s2 = some s' := h
        obtain ⟨sp2, _⟩ := ih c (ch c) _ s2 (fun _ hx => hx) h2
        obtain ⟨sp3, hadd3⟩ := ihc s2 s' (fun x hx => hsub x (List.mem_cons_of_mem _ hx)) h'
        have hc : c ∈ ch parent := hsub c (by simp)
        have sp1 := DirectSpec.add (ch := ch) s hc
        refine ⟨(sp1.trans sp2).trans sp3, ?_⟩
        intro c' hc'
        rcases List.mem_cons.mp hc' with rfl | hc'
        · exact sp3.mono _ _ (sp2.mono _ _ (mem_dget_dadd.mpr (Or.inr ⟨rfl, rfl⟩)))
        · exact hadd3 c' hc'

/-- enough frames on an acyclic graph: the nodes on the Python stack are pairwise different ancestors of the current children -/
theorem directGo_total (ch : Nat → List Nat) (U : List Nat) (hU : ∀ x ∈ U, ∀ y ∈ ch x, y ∈ U) (hac : Acyclic ch) :
    ∀ fuel parent children (S : List Nat) s, S.Nodup → (∀ x ∈ S, x ∈ U) → (∀ c ∈ children, c ∈ U) →
      (∀ x ∈ S, ∀ c ∈ children, Reach ch x c) → U.length + 1 ≤ fuel + S.length →
      (directGo ch fuel parent children s).isSome := by
  intro fuel
  induction fuel with
  | zero =>
    intro _ _ S _ hn hS _ _ hlen
    have := nodup_subset_length_le S U hn hS
    omega
  | succ fuel ih =>
    intro parent children S s hn hS hcs hreach hlen
    rw [directGo_succ]
    apply foldlM_isSome
    intro c hc b
    apply ih c (ch c) (c :: S)
    · refine List.nodup_cons.mpr ⟨?_, hn⟩
      intro hcS
      exact hac c (hreach c hcS c hc)
    · intro x hx
      rcases List.mem_cons.mp hx with rfl | hx
      · exact hcs _ hc
      · exact hS x hx
    · exact fun y hy => hU c (hcs c hc) y hy
    · intro x hx y hy
      rcases List.mem_cons.mp hx with rfl | hx
      · exact .edge hy
      · exact (hreach x hx c hc).tail hy
    · simp only [List.length_cons]; omega

/-- on a cycle (or above one) the recursion runs out of frames, whatever their number -/
theorem directGo_cycle (ch : Nat → List Nat) : ∀ fuel parent s, (∃ v, (parent = v ∨ Reach ch parent v) ∧ Reach ch v v) →
    directGo ch fuel parent (ch parent) s = none := by
  intro fuel
  induction fuel with
  | zero => intro _ _ _; rfl
  | succ fuel ih =>
    intro parent s ⟨v, hpv, hvv⟩
    rw [directGo_succ]
    have hstep : ∃ c ∈ ch parent, c = v ∨ Reach ch c v := by
      rcases hpv with rfl | h
      · exact hvv.first
      · exact h.first
    obtain ⟨c, hc, hcv⟩ := hstep
    apply foldlM_none _ _ c hc
    intro b
    exact ih c _ ⟨v, hcv, hvv⟩

/-! ### the loop of `set_direct_parents_for_each_child` -/

theorem setDirectLoop_spec (fuel : Nat) (adj : Dict) (hn : (dkeys adj).Nodup) :
    ∀ (l : List (Nat × List Nat)) (pbd pbd' : Dict), (∀ e ∈ l, e ∈ adj) → setDirectLoop fuel adj l pbd = .ok pbd' →
      (∀ c x, x ∈ dget pbd' c → x ∈ dget pbd c ∨ c ∈ dget adj x) ∧
      (∀ c x, x ∈ dget pbd c → x ∈ dget pbd' c) ∧
      (∀ e ∈ l, ∀ c ∈ e.2, e.1 ∈ dget pbd' c) ∧
      ((dkeys pbd).Nodup → (dkeys pbd').Nodup) ∧
      ((∀ k, (dget pbd k).Nodup) → ∀ k, (dget pbd' k).Nodup) := by
  intro l
  induction l with
  | nil =>
    intro pbd pbd' _ h
    simp only [setDirectLoop] at h
    injection h with h; subst h
    exact ⟨fun _ _ h => Or.inl h, fun _ _ h => h, by simp, id, id⟩
  | cons e l ih =>
    obtain ⟨parent, children⟩ := e
    intro pbd pbd' hl h
    simp only [setDirectLoop] at h
    cases h2 : directGo (dget adj) fuel parent children { pbd := pbd, tch := [] } with
    | none => rw [h2] at h; cases h
    | some s =>
      rw [h2] at h
      simp only at h
      split at h
      · cases h
      · have hmem : (parent, children) ∈ adj := hl _ (by simp)
        have hch : dget adj parent = children := dget_of_mem hn hmem
        obtain ⟨sp, hadd⟩ := directGo_spec (dget adj) fuel parent children _ s (fun c hc => hch ▸ hc) h2
        obtain ⟨h1, h2', h3, h4, h5⟩ := ih s.pbd pbd' (fun e he => hl e (List.mem_cons_of_mem _ he)) h
        refine ⟨?_, fun c x hx => h2' c x (sp.mono c x hx), ?_, fun hk => h4 (sp.keysNodup hk), fun hv => h5 (sp.valsNodup hv)⟩
        · intro c x hx
          rcases h1 c x hx with hx | hx
          · exact sp.sound c x hx
          · exact Or.inr hx
        · intro e he c hc
          rcases List.mem_cons.mp he with rfl | he
          · exact h2' c _ (hadd c hc)
          · exact h3 e he c hc

theorem setDirectLoop_total (fuel : Nat) (adj : Dict) (U : List Nat) (hU : ∀ x ∈ U, ∀ y ∈ dget adj x, y ∈ U)
    (hac : Acyclic (dget adj)) (hn : (dkeys adj).Nodup) (hkeysU : ∀ k ∈ dkeys adj, k ∈ U)
    (hkids : ∀ p c, c ∈ dget adj p → c ∈ dkeys adj) (hfuel : U.length ≤ fuel) :
    ∀ (l : List (Nat × List Nat)) (pbd : Dict), (∀ e ∈ l, e ∈ adj) → ∃ pbd', setDirectLoop fuel adj l pbd = .ok pbd' := by
  intro l
  induction l with
  | nil => intro pbd _; exact ⟨pbd, rfl⟩
  | cons e l ih =>
    obtain ⟨parent, children⟩ := e
    intro pbd hl
    have hmem : (parent, children) ∈ adj := hl _ (by simp)
    have hch : dget adj parent = children := dget_of_mem hn hmem
    have hpU : parent ∈ U := hkeysU parent (List.mem_map.mpr ⟨_, hmem, rfl⟩)
    have hsome := directGo_total (dget adj) U hU hac fuel parent children [parent] { pbd := pbd, tch := [] }
      (by simp) (by simpa using hpU) (fun c hc => hU parent hpU c (hch ▸ hc))
      (by intro x hx c hc; simp at hx; subst hx; exact .edge (hch ▸ hc)) (by simp; omega)
    simp only [setDirectLoop]
    cases h2 : directGo (dget adj) fuel parent children { pbd := pbd, tch := [] } with
    | none => rw [h2] at hsome; cases hsome
    | some s =>
      simp only
      obtain ⟨sp, _⟩ := directGo_spec (dget adj) fuel parent children _ s (fun c hc => hch ▸ hc) h2
      have htouch : touchAll adj s.tch.reverse = adj := by
        apply touchAll_of_mem
        intro k hk
        rcases sp.tch k (List.mem_reverse.mp hk) with h | ⟨p, hp⟩
        · cases h
        · exact hkids p k hp
      rw [htouch]
      simp only [ne_eq, not_true_eq_false, if_false]
      exact ih s.pbd (fun e he => hl e (List.mem_cons_of_mem _ he))

theorem setDirectLoop_cycle (fuel : Nat) (adj : Dict) (p : Nat)
    (hcyc : ∃ v, (p = v ∨ Reach (dget adj) p v) ∧ Reach (dget adj) v v) :
    ∀ (l : List (Nat × List Nat)) (pbd : Dict), (p, dget adj p) ∈ l → ∃ e, setDirectLoop fuel adj l pbd = .error e := by
  intro l
  induction l with
  | nil => intro _ h; cases h
  | cons e l ih =>
    obtain ⟨parent, children⟩ := e
    intro pbd hmem
    simp only [setDirectLoop]
    rcases List.mem_cons.mp hmem with heq | hmem'
    · injection heq with h1 h2
      subst h1; subst h2
      rw [directGo_cycle (dget adj) fuel p _ hcyc]
      exact ⟨_, rfl⟩
    · cases directGo (dget adj) fuel parent children { pbd := pbd, tch := [] } with
      | none => exact ⟨_, rfl⟩
      | some s =>
        simp only
        split
        · exact ⟨_, rfl⟩
        · exact ih s.pbd hmem'

/-! ### the all-parents recursion -/

def allKids (pb : Nat → List Nat) (fuel : Nat) (ps acc : List Nat) : Option (List Nat) :=
  ps.foldlM (fun acc p => (allGo pb fuel (pb p)).map (sunion acc)) acc

theorem allGo_succ (pb : Nat → List Nat) (fuel : Nat) (parents : List Nat) :
    allGo pb (fuel + 1) parents =
      if parents.isEmpty then some parents
      else match allKids pb fuel parents [] with
        | none => none
        | some rs => some (sunion parents rs) := rfl

theorem allKids_cons (pb : Nat → List Nat) (fuel p : Nat) (ps acc : List Nat) :
    allKids pb fuel (p :: ps) acc = ((allGo pb fuel (pb p)).map (sunion acc)).bind (allKids pb fuel ps) := by
  simp [allKids, List.foldlM_cons]
  rfl

theorem allGo_spec (pb : Nat → List Nat) : ∀ fuel parents r, allGo pb fuel parents = some r →
    (∀ x, x ∈ r ↔ ∃ p ∈ parents, x = p ∨ Reach pb p x) ∧ (parents.Nodup → r.Nodup) := by
  intro fuel
  induction fuel with
  | zero => intro _ _ h; cases h
  | succ fuel ih =>
    intro parents r h
    rw [allGo_succ] at h
    by_cases hemp : parents.isEmpty
    · simp only [hemp, if_true] at h
      injection h with h; subst h
      have : parents = [] := List.isEmpty_iff.mp hemp
      subst this
      exact ⟨by simp, id⟩
    · simp only [hemp] at h
      have hk : ∀ ps acc acc', allKids pb fuel ps acc = some acc' →
          (∀ x, x ∈ acc' ↔ x ∈ acc ∨ ∃ p ∈ ps, ∃ q ∈ pb p, x = q ∨ Reach pb q x) ∧ (acc.Nodup → acc'.Nodup) := by
        intro ps
        induction ps with
        | nil =>
          intro acc acc' h
          simp [allKids, List.foldlM] at h; subst h
          exact ⟨by simp, id⟩
        | cons p ps ihp =>
          intro acc acc' h
          rw [allKids_cons] at h
          cases h2 : allGo pb fuel (pb p) with
          | none => rw [h2] at h; cases h
          | some r1 =>
            rw [h2] at h
            have h' : allKids pb fuel ps (sunion acc r1) = some acc' := h
            obtain ⟨hm1, _⟩ := ih (pb p) r1 h2
            obtain ⟨hm2, hnd2⟩ := ihp _ _ h'
            refine ⟨?_, fun hn => hnd2 (nodup_sunion hn _)⟩
            intro x
            rw [hm2, mem_sunion, hm1]
            constructor
            · rintro ((h | ⟨q, hq, h⟩) | ⟨p', hp', h⟩)
              · exact Or.inl h
              · exact Or.inr ⟨p, by simp, q, hq, h⟩
              · exact Or.inr ⟨p', List.mem_cons_of_mem _ hp', h⟩
            · rintro (h | ⟨p', hp', q, hq, h⟩)
              · exact Or.inl (Or.inl h)
              · rcases List.mem_cons.mp hp' with rfl | hp'
                · exact Or.inl (Or.inr ⟨q, hq, h⟩)
                · exact Or.inr ⟨p', hp', q, hq, h⟩
      cases h2 : allKids pb fuel parents [] with
      | none => rw [h2] at h; cases h
      | some rs =>
        rw [h2] at h
        simp only [Bool.false_eq_true, if_false] at h
        injection h with h; subst h
        obtain ⟨hm, _⟩ := hk parents [] rs h2
        refine ⟨?_, fun hn => nodup_sunion hn _⟩
        intro x
        rw [mem_sunion, hm]
        constructor
        · rintro (h | h | ⟨p, hp, q, hq, h⟩)
          · exact ⟨x, h, Or.inl rfl⟩
          · cases h
          · exact ⟨p, hp, Or.inr (reach_iff_first.mpr ⟨q, hq, h.imp Eq.symm id⟩)⟩
        · rintro ⟨p, hp, rfl | h⟩
          · exact Or.inl hp
          · obtain ⟨q, hq, h⟩ := h.first
            exact Or.inr (Or.inr ⟨p, hp, q, hq, h.imp Eq.symm id⟩)

theorem allGo_total (pb : Nat → List Nat) (U : List Nat) (hU : ∀ x ∈ U, ∀ y ∈ pb x, y ∈ U) (hac : Acyclic pb) :
    ∀ fuel parents (S : List Nat), S.Nodup → (∀ x ∈ S, x ∈ U) → (∀ p ∈ parents, p ∈ U) →
      (∀ x ∈ S, ∀ p ∈ parents, Reach pb x p) → U.length + 1 ≤ fuel + S.length → (allGo pb fuel parents).isSome := by
  intro fuel
  induction fuel with
  | zero =>
    intro _ S hn hS _ _ hlen
    have := nodup_subset_length_le S U hn hS
    omega
  | succ fuel ih =>
    intro parents S hn hS hps hreach hlen
    rw [allGo_succ]
    by_cases hemp : parents.isEmpty
    · simp [hemp]
    · simp only [hemp]
      have hsome : (allKids pb fuel parents []).isSome := by
        apply foldlM_isSome
        intro p hp b
        have := ih (pb p) (p :: S)
          (List.nodup_cons.mpr ⟨fun hpS => hac p (hreach p hpS p hp), hn⟩)
          (by intro x hx; rcases List.mem_cons.mp hx with rfl | hx; exact hps _ hp; exact hS x hx)
          (fun y hy => hU p (hps p hp) y hy)
          (by intro x hx y hy
              rcases List.mem_cons.mp hx with rfl | hx
              · exact .edge hy
              · exact (hreach x hx p hp).tail hy)
          (by simp only [List.length_cons]; omega)
        cases h2 : allGo pb fuel (pb p) with
        | none => rw [h2] at this; cases this
        | some r => simp
      cases h2 : allKids pb fuel parents [] with
      | none => rw [h2] at hsome; cases hsome
      | some rs => simp

/-! ### the loop of `set_all_parents_for_each_child` -/

theorem setAllLoop_spec (fuel : Nat) (pb : Nat → List Nat) :
    ∀ (l : List (Nat × List Nat)) (acc acc' : Dict × List Nat), (dkeys l).Nodup → setAllLoop fuel pb l acc = some acc' →
      (∀ c, (c ∉ dkeys l ∧ dget acc'.1 c = dget acc.1 c) ∨
            ∃ ps r, (c, ps) ∈ l ∧ allGo pb fuel ps = some r ∧ dget acc'.1 c = sunion r ps) ∧
      ((dkeys acc.1).Nodup → (dkeys acc'.1).Nodup) ∧
      (∀ k, k ∈ dkeys acc'.1 ↔ k ∈ dkeys acc.1 ∨ k ∈ dkeys l) := by
  intro l
  induction l with
  | nil =>
    intro acc acc' _ h
    simp only [setAllLoop] at h
    injection h with h; subst h
    exact ⟨fun c => Or.inl ⟨by simp [dkeys], rfl⟩, id, by simp [dkeys]⟩
  | cons e l ih =>
    obtain ⟨child, parents⟩ := e
    intro acc acc' hn h
    simp only [setAllLoop] at h
    simp only [dkeys, List.map_cons, List.nodup_cons] at hn
    cases h2 : allGo pb fuel parents with
    | none => rw [h2] at h; cases h
    | some r =>
      rw [h2] at h
      simp only at h
      obtain ⟨h1, h2', h3⟩ := ih _ acc' hn.2 h
      refine ⟨?_, fun hk => h2' (nodup_dkeys_dset hk _ _), ?_⟩
      · intro c
        rcases h1 c with ⟨hc, heq⟩ | ⟨ps, r', hmem, hr', heq⟩
        · simp only [dget_dset] at heq
          by_cases hcc : child = c
          · subst hcc
            simp only [if_true] at heq
            exact Or.inr ⟨parents, r, by simp, h2, heq⟩
          · simp only [hcc, if_false] at heq
            refine Or.inl ⟨?_, heq⟩
            simp only [dkeys, List.map_cons, List.mem_cons, not_or]
            exact ⟨fun h => hcc h.symm, hc⟩
        · exact Or.inr ⟨ps, r', List.mem_cons_of_mem _ hmem, hr', heq⟩
      · intro k
        rw [h3, mem_dkeys_dset]
        simp only [dkeys, List.map_cons, List.mem_cons]
        constructor
        · rintro ((h | h) | h)
          · exact Or.inl h
          · exact Or.inr (Or.inl h)
          · exact Or.inr (Or.inr h)
        · rintro (h | h | h)
          · exact Or.inl (Or.inl h)
          · exact Or.inl (Or.inr h)
          · exact Or.inr h

theorem setAllLoop_total (fuel : Nat) (pb : Nat → List Nat)
    (hall : ∀ c, (allGo pb fuel (pb c)).isSome) :
    ∀ (l : List (Nat × List Nat)) (acc : Dict × List Nat), (∀ e ∈ l, e.2 = pb e.1) → (setAllLoop fuel pb l acc).isSome := by
  intro l
  induction l with
  | nil => intro acc _; simp [setAllLoop]
  | cons e l ih =>
    obtain ⟨child, parents⟩ := e
    intro acc hl
    simp only [setAllLoop]
    have hp : parents = pb child := hl (child, parents) (by simp)
    have := hall child
    rw [← hp] at this
    cases h2 : allGo pb fuel parents with
    | none => rw [h2] at this; cases this
    | some r =>
      simp only
      exact ih _ (fun e he => hl e (List.mem_cons_of_mem _ he))

/-! ### `set_root_parents_by_direct_` -/

theorem mem_rootsInner (roots : List Nat) (child : Nat) (ps : List Nat) (cwr : Dict) (c x : Nat) :
    x ∈ dget (ps.foldl (fun cwr p => if p ∈ roots then dadd cwr child p else cwr) cwr) c ↔
      x ∈ dget cwr c ∨ (child = c ∧ x ∈ ps ∧ x ∈ roots) := by
  induction ps generalizing cwr with
  | nil => simp
  | cons p ps ih =>
    simp only [List.foldl_cons, ih, List.mem_cons]
    by_cases hp : p ∈ roots
    · simp only [hp, if_true, mem_dget_dadd]
      constructor
      · rintro ((h | ⟨h1, h2⟩) | ⟨h1, h2, h3⟩)
        · exact Or.inl h
        · exact Or.inr ⟨h1, Or.inl h2, h2 ▸ hp⟩
        · exact Or.inr ⟨h1, Or.inr h2, h3⟩
      · rintro (h | ⟨h1, h2 | h2, h3⟩)
        · exact Or.inl (Or.inl h)
        · exact Or.inl (Or.inr ⟨h1, h2⟩)
        · exact Or.inr ⟨h1, h2, h3⟩
    · simp only [hp, if_false]
      constructor
      · rintro (h | ⟨h1, h2, h3⟩)
        · exact Or.inl h
        · exact Or.inr ⟨h1, Or.inr h2, h3⟩
      · rintro (h | ⟨h1, h2 | h2, h3⟩)
        · exact Or.inl h
        · exact absurd (h2 ▸ h3) hp
        · exact Or.inr ⟨h1, h2, h3⟩

theorem mem_setRootsLoop (roots : List Nat) : ∀ (l : List (Nat × List Nat)) (cwr : Dict) (c x : Nat),
    x ∈ dget (setRootsLoop roots l cwr) c ↔ x ∈ dget cwr c ∨ ∃ ps, (c, ps) ∈ l ∧ x ∈ ps ∧ x ∈ roots := by
  intro l
  induction l with
  | nil => intro cwr c x; simp [setRootsLoop]
  | cons e l ih =>
    obtain ⟨child, parents⟩ := e
    intro cwr c x
    simp only [setRootsLoop, ih, mem_rootsInner, List.mem_cons]
    constructor
    · rintro ((h | ⟨h1, h2, h3⟩) | ⟨ps, h1, h2, h3⟩)
      · exact Or.inl h
      · exact Or.inr ⟨parents, Or.inl (by rw [h1]), h2, h3⟩
      · exact Or.inr ⟨ps, Or.inr h1, h2, h3⟩
    · rintro (h | ⟨ps, h1 | h1, h2, h3⟩)
      · exact Or.inl (Or.inl h)
      · injection h1 with h1a h1b
        subst h1a; subst h1b
        exact Or.inl (Or.inr ⟨rfl, h2, h3⟩)
      · exact Or.inr ⟨ps, h1, h2, h3⟩

end Graph
