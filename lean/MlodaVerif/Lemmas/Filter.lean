import MlodaVerif.Model.Filter
/-! Helper lemmas for `Props/C11.lean` (no Mathlib). -/
deriving instance DecidableEq for Except

namespace Filter
open Gen

/-! ### keys and comparisons -/

theorem Val.key_null_iff (x : Val) : x.key = .null ↔ x = .null := by
  cases x <;> simp [Val.key]

theorem Key.le?_isSome (a b : Key) : (Key.le? a b).isSome = true ↔ a.cls = b.cls ∧ a.cls ≠ .null := by
  cases a <;> cases b <;> simp [Key.le?, Key.cls]

theorem Key.lt?_isSome (a b : Key) : (Key.lt? a b).isSome = true ↔ a.cls = b.cls ∧ a.cls ≠ .null := by
  cases a <;> cases b <;> simp [Key.lt?, Key.cls]

theorem comparable_iff (a b : Val) : comparable a b = true ↔ a.cls = b.cls ∧ a.cls ≠ .null := by
  unfold comparable Val.cls; exact Key.le?_isSome _ _

theorem comparable_symm (a b : Val) : comparable a b = comparable b a := by
  rw [Bool.eq_iff_iff, comparable_iff, comparable_iff]
  constructor <;> (rintro ⟨h1, h2⟩; exact ⟨h1.symm, by rw [← h1] at *; first | exact h2 | (rw [h1]; exact h2)⟩)

/-- on comparable operands the partial comparison is the total one -/
theorem le?_of_comparable {a b : Val} (h : comparable a b = true) : Key.le? a.key b.key = some (leB a b) := by
  unfold comparable at h
  unfold leB
  cases hk : Key.le? a.key b.key with
  | none => simp [hk] at h
  | some c => cases c <;> simp

theorem lt?_of_comparable {a b : Val} (h : comparable a b = true) : Key.lt? a.key b.key = some (ltB a b) := by
  have h' : (Key.lt? a.key b.key).isSome = true := by
    rw [Key.lt?_isSome]; exact (comparable_iff a b).mp h
  unfold ltB
  cases hk : Key.lt? a.key b.key with
  | none => simp [hk] at h'
  | some c => cases c <;> simp

theorem leB_null_right (a : Val) : leB a .null = false := by
  unfold leB; cases h : a.key <;> simp [Key.le?, Val.key]

theorem leB_null_left (a : Val) : leB .null a = false := by
  unfold leB; simp [Key.le?, Val.key]

theorem ltB_null_left (a : Val) : ltB .null a = false := by
  unfold ltB; simp [Key.lt?, Val.key]

theorem pyEq_comm (a b : Val) : pyEq a b = pyEq b a := by
  unfold pyEq; exact Bool.beq_comm

theorem pyEq_null_left {v : Val} (h : v ≠ .null) : pyEq .null v = false := by
  unfold pyEq
  cases v <;> simp_all [Val.key]

/-! ### the list comprehension with a raising condition -/

theorem filterE_ok {α : Type} (p : α → Except Err Bool) (q : α → Bool) (l : List α)
    (h : ∀ a ∈ l, p a = .ok (q a)) : filterE p l = .ok (l.filter q) := by
  induction l with
  | nil => rfl
  | cons a as ih =>
    have ha := h a (List.mem_cons_self ..)
    have ih' := ih (fun b hb => h b (List.mem_cons_of_mem _ hb))
    simp only [filterE, ha, ih', List.filter_cons]

theorem filterE_error {α : Type} (p : α → Except Err Bool) (l : List α) (e : Err)
    (hall : ∀ a ∈ l, (∃ b, p a = .ok b) ∨ p a = .error e) (hex : ∃ a ∈ l, p a = .error e) :
    filterE p l = .error e := by
  induction l with
  | nil => obtain ⟨a, ha, _⟩ := hex; cases ha
  | cons a as ih =>
    rcases hall a (List.mem_cons_self ..) with ⟨b, hb⟩ | he
    · obtain ⟨x, hx, hxe⟩ := hex
      have hx' : x ∈ as := by
        rcases List.mem_cons.mp hx with rfl | h
        · rw [hb] at hxe; cases hxe
        · exact h
      have := ih (fun y hy => hall y (List.mem_cons_of_mem _ hy)) ⟨x, hx', hxe⟩
      simp only [filterE, hb, this]
    · simp only [filterE, he]

/-! ### cell conditions of the PythonDict engine against `sat` -/

theorem rangeCell_eq (lo hi : Val) (excl : Bool) (x : Val)
    (h : (Filter.range lo hi excl).comparableWith x = true) :
    PyDict.rangeCell lo hi excl x = .ok (sat (.range lo hi excl) x) := by
  unfold PyDict.rangeCell
  by_cases hx : x = .null
  · subst hx; simp [sat, leB_null_right]
  · simp only [hx, if_false]
    have hb : comparable lo x = true ∧ comparable hi x = true := by
      simpa [Filter.comparableWith, Filter.bounds, hx] using h
    have h1 := le?_of_comparable hb.1
    have hxh : comparable x hi = true := by rw [comparable_symm]; exact hb.2
    rw [h1]
    cases hl : leB lo x
    · simp [sat, hl]
    · cases excl
      · simp [sat, hl, le?_of_comparable hxh, PyDict.ofCmp]
      · simp [sat, hl, lt?_of_comparable hxh, PyDict.ofCmp]

theorem minCell_eq (v x : Val) (h : (Filter.min v).comparableWith x = true) :
    PyDict.minCell v x = .ok (sat (.min v) x) := by
  unfold PyDict.minCell
  by_cases hx : x = .null
  · subst hx; simp [sat, leB_null_right]
  · have hb : comparable v x = true := by simpa [Filter.comparableWith, Filter.bounds, hx] using h
    simp [hx, sat, le?_of_comparable hb, PyDict.ofCmp]

theorem maxCell_eq (v : Val) (excl : Bool) (x : Val) (h : (Filter.max v excl).comparableWith x = true) :
    PyDict.maxCell v excl x = .ok (sat (.max v excl) x) := by
  unfold PyDict.maxCell
  by_cases hx : x = .null
  · subst hx; cases excl <;> simp [sat, leB_null_left, ltB_null_left]
  · have hb : comparable v x = true := by simpa [Filter.comparableWith, Filter.bounds, hx] using h
    have hxv : comparable x v = true := by rw [comparable_symm]; exact hb
    cases excl <;> simp [hx, sat, le?_of_comparable hxv, lt?_of_comparable hxv, PyDict.ofCmp]

/-! ### sequential application -/

/-- an engine that behaves like `filter (p f)` on every sublist of `rows` reachable by filtering -/
theorem applySeq_filterlike (eng : Engine) (exposed : List String) (p : RawFilter → Row → Bool) :
    ∀ (fs : List RawFilter) (rows : List Row),
      (∀ f ∈ fs, exposed.contains f.col = true → ∀ (sub : List Row), (∀ r ∈ sub, r ∈ rows) → eng f sub = .ok (sub.filter (p f))) →
      applySeq eng exposed fs rows =
        .ok (rows.filter (fun r => fs.all (fun f => !exposed.contains f.col || p f r))) := by
  intro fs
  induction fs with
  | nil =>
    intro rows _
    have : rows.filter (fun _ => true) = rows := List.filter_eq_self.mpr (fun _ _ => rfl)
    simp [applySeq, this]
  | cons f fs ih =>
    intro rows h
    unfold applySeq
    by_cases hc : exposed.contains f.col = true
    · have hf := h f (List.mem_cons_self ..) hc rows (fun _ hr => hr)
      simp only [hc, if_true, hf]
      rw [ih (rows.filter (p f))]
      · simp only [List.filter_filter, List.all_cons, hc, Bool.not_true, Bool.false_or]
        congr 1; apply List.filter_congr; intro r _; exact Bool.and_comm _ _
      · intro g hg hgc sub hsub
        exact h g (List.mem_cons_of_mem _ hg) hgc sub (fun r hr => (List.mem_filter.mp (hsub r hr)).1)
    · have hc' : exposed.contains f.col = false := by simpa using hc
      simp only [hc', Bool.false_eq_true, if_false]
      rw [ih rows (fun g hg => h g (List.mem_cons_of_mem _ hg))]
      congr 1; apply List.filter_congr; intro r _
      simp only [List.all_cons, hc', Bool.not_false, Bool.true_or, Bool.true_and]

theorem all_perm {α : Type} (p : α → Bool) {l₁ l₂ : List α} (h : l₁.Perm l₂) : l₁.all p = l₂.all p := by
  rw [Bool.eq_iff_iff, List.all_eq_true, List.all_eq_true]
  exact ⟨fun h1 x hx => h1 x (h.mem_iff.mpr hx), fun h2 x hx => h2 x (h.mem_iff.mp hx)⟩

theorem all_congr_mem {α : Type} {p q : α → Bool} {l : List α} (h : ∀ a ∈ l, p a = q a) : l.all p = l.all q := by
  induction l with
  | nil => rfl
  | cons a as ih =>
    simp only [List.all_cons, h a (List.mem_cons_self ..), ih (fun b hb => h b (List.mem_cons_of_mem _ hb))]

theorem applySeq_unexposed (eng : Engine) (exposed : List String) :
    ∀ (fs : List RawFilter) (rows : List Row), (∀ f ∈ fs, exposed.contains f.col = false) →
      applySeq eng exposed fs rows = .ok rows := by
  intro fs
  induction fs with
  | nil => intro rows _; rfl
  | cons f fs ih =>
    intro rows h
    unfold applySeq
    simp only [h f (List.mem_cons_self ..), Bool.false_eq_true, if_false]
    exact ih rows (fun g hg => h g (List.mem_cons_of_mem _ hg))

/-! ### definitions used to state the C11 theorems -/

/-- the filter that the conjunction of the applicable filters of `fs` defines on a row -/
def conj (exposed : List String) (fs : List RawFilter) (r : Row) : Bool :=
  fs.all (fun f => !exposed.contains f.col || satRaw f (r.get f.col))

/-- guard: every applicable filter is usable and its bounds can be ordered against every cell of its column -/
def SeqGuard (exposed : List String) (fs : List RawFilter) (rows : List Row) : Prop :=
  ∀ raw ∈ fs, exposed.contains raw.col = true →
    ∃ f, raw.parse = .ok f ∧ ∀ r ∈ rows, f.comparableWith (r.get raw.col) = true

/-- guard under which the (assumed) library semantics and the PythonDict engine coincide with `sat`: the column is typed
(`homog`), every bound / value / listed category has the column's class (so no null among the categories, and at least
the typed engines do not raise), regex only on string columns with a pattern that starts with `^` -/
def agreeGuard (ct : ColClass) : Filter → Bool
  | .range lo hi _ => lo.cls == ct.cls && hi.cls == ct.cls
  | .min v => v.cls == ct.cls
  | .max v _ => v.cls == ct.cls
  | .equal v => v.cls == ct.cls
  | .regex p => ct == .str && p.anchored
  | .isin vs => !vs.isEmpty && vs.all (fun v => v.cls == ct.cls)

theorem cls_ne_null_of_eq {v : Val} {ct : ColClass} (h : v.cls = ct.cls) : v ≠ .null := by
  intro hv; subst hv; cases ct <;> simp [Val.cls, Val.key, Key.cls, ColClass.cls] at h

theorem homog_cell {ct : ColClass} {col : String} {rows : List Row} (hh : homog ct col rows = true) :
    ∀ r ∈ rows, r.get col = .null ∨ (r.get col).cls = ct.cls := by
  intro r hr
  have := (List.all_eq_true.mp hh) r hr
  simpa using this

theorem comparable_of_cls {b x : Val} {ct : ColClass} (hb : b.cls = ct.cls) (hx : x.cls = ct.cls) :
    comparable b x = true := by
  rw [comparable_iff]; refine ⟨hb.trans hx.symm, ?_⟩
  rw [hb]; cases ct <;> simp [ColClass.cls]

/-- under the guard, PythonDict's `comparableWith` guard holds on a typed column -/
theorem comparableWith_of_guard {ct : ColClass} {f : Filter} {x : Val} (hg : agreeGuard ct f = true)
    (hx : x = .null ∨ x.cls = ct.cls) : f.comparableWith x = true := by
  unfold Filter.comparableWith
  rcases hx with rfl | hx
  · simp
  · cases f <;> simp only [agreeGuard, Bool.and_eq_true, beq_iff_eq] at hg <;>
      simp only [Filter.bounds, List.all_cons, List.all_nil, Bool.and_true, Bool.or_eq_true, Bool.and_eq_true, beq_iff_eq]
    · exact Or.inr ⟨comparable_of_cls hg.1 hx, comparable_of_cls hg.2 hx⟩
    · exact Or.inr (comparable_of_cls hg hx)
    · exact Or.inr (comparable_of_cls hg hx)
    all_goals simp


/-! ### cell-level agreement of the library semantics with `sat` (no hypothesis on the cell) -/

theorem arrow_range_cell (lo hi x : Val) (excl : Bool) :
    ArrowSem.keep (ArrowSem.and3 (ArrowSem.geC x lo) (if excl then ArrowSem.ltC x hi else ArrowSem.leC x hi)) =
      sat (.range lo hi excl) x := by
  by_cases hx : x = .null
  · subst hx; cases excl <;> simp [ArrowSem.keep, ArrowSem.and3, ArrowSem.geC, ArrowSem.ltC, ArrowSem.leC, ArrowSem.cmp, sat, leB_null_right]
  · cases excl <;> simp [ArrowSem.keep, ArrowSem.and3, ArrowSem.geC, ArrowSem.ltC, ArrowSem.leC, ArrowSem.cmp, sat, hx]

theorem arrow_ge_cell (v x : Val) : ArrowSem.keep (ArrowSem.geC x v) = sat (.min v) x := by
  by_cases hx : x = .null
  · subst hx; simp [ArrowSem.keep, ArrowSem.geC, ArrowSem.cmp, sat, leB_null_right]
  · simp [ArrowSem.keep, ArrowSem.geC, ArrowSem.cmp, sat, hx]

theorem arrow_max_cell (v x : Val) (excl : Bool) :
    ArrowSem.keep (if excl then ArrowSem.ltC x v else ArrowSem.leC x v) = sat (.max v excl) x := by
  by_cases hx : x = .null
  · subst hx; cases excl <;> simp [ArrowSem.keep, ArrowSem.ltC, ArrowSem.leC, ArrowSem.cmp, sat, leB_null_left, ltB_null_left]
  · cases excl <;> simp [ArrowSem.keep, ArrowSem.ltC, ArrowSem.leC, ArrowSem.cmp, sat, hx]

theorem arrow_eq_cell (v x : Val) (hv : v ≠ .null) : ArrowSem.keep (ArrowSem.eqC x v) = sat (.equal v) x := by
  by_cases hx : x = .null
  · subst hx; simp [ArrowSem.keep, ArrowSem.eqC, ArrowSem.cmp, sat, pyEq_null_left hv]
  · simp [ArrowSem.keep, ArrowSem.eqC, ArrowSem.cmp, sat, hx]

theorem arrow_regex_cell (p : Pattern) (x : Val) (ha : p.anchored = true) :
    ArrowSem.keep (if x = .null then none else some (p.search (pyStr x))) = sat (.regex p) x := by
  by_cases hx : x = .null
  · subst hx; simp [ArrowSem.keep, sat]
  · simp [ArrowSem.keep, sat, hx, Pattern.search, Pattern.matchStart, ha]

theorem cls_ne_null {v : Val} {ct : ColClass} (h : v.cls = ct.cls) : (v != .null) = true := by
  have := cls_ne_null_of_eq h
  simpa using this

theorem inferSet_typed {ct : ColClass} {l : List Val} (hne : l.isEmpty = false) (hall : l.all (fun v => v.cls == ct.cls) = true) :
    ArrowSem.inferSet l = some ct.cls := by
  have hmem : ∀ v ∈ l, v.cls = ct.cls := fun v hv => by simpa using (List.all_eq_true.mp hall) v hv
  have hnn : l.filter (· != .null) = l := List.filter_eq_self.mpr (fun v hv => cls_ne_null (hmem v hv))
  unfold ArrowSem.inferSet
  simp only [hnn, hne]
  cases ct
  · have : l.all (fun v => v.cls == Cls.num) = true := by simpa [ColClass.cls] using hall
    simp [this, ColClass.cls]
  · have h1 : l.all (fun v => v.cls == Cls.str) = true := by simpa [ColClass.cls] using hall
    have h2 : l.all (fun v => v.cls == Cls.num) = false := by
      cases l with
      | nil => simp at hne
      | cons a as =>
        have ha : a.cls = Cls.str := by simpa [ColClass.cls] using hmem a (List.mem_cons_self ..)
        simp [ha]
    simp [h1, h2, ColClass.cls]

theorem any_pyEq_null {ct : ColClass} {l : List Val} (hall : l.all (fun v => v.cls == ct.cls) = true) :
    l.any (pyEq .null) = false ∧ l.any (· == Val.null) = false := by
  have hmem : ∀ v ∈ l, v.cls = ct.cls := fun v hv => by simpa using (List.all_eq_true.mp hall) v hv
  constructor
  · rw [Bool.eq_false_iff]; intro h
    obtain ⟨v, hv, he⟩ := List.any_eq_true.mp h
    rw [pyEq_null_left (cls_ne_null_of_eq (hmem v hv))] at he; cases he
  · rw [Bool.eq_false_iff]; intro h
    obtain ⟨v, hv, he⟩ := List.any_eq_true.mp h
    have : v = .null := by simpa using he
    exact cls_ne_null_of_eq (hmem v hv) this

theorem pandas_isin_cell {ct : ColClass} {l : List Val} (hall : l.all (fun v => v.cls == ct.cls) = true) (x : Val) :
    PandasSem.isinCell ct l x = sat (.isin l) x := by
  unfold PandasSem.isinCell
  by_cases hx : x = .null
  · subst hx; simp [sat, (any_pyEq_null hall).1, (any_pyEq_null hall).2]
  · simp [sat, hx]

end Filter
