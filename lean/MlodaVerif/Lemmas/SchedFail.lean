import MlodaVerif.Lemmas.SchedLive
/-! Failure handling (C08), streaming (C13) and dangling requirements (C04) on the orchestrator model. -/

namespace Sched

/-- flags: raise and return exclude each other; a halted run has drained its stream buffer;
`returned` implies every uuid of the plan finished -/
structure FInv (p : Plan) (s : St) : Prop where
  excl : ¬ (s.raised.isSome = true ∧ s.returned = true)
  ret_fin : s.returned = true → (allOuts p).all (· ∈ s.finished) = true
  halt_pending : halted s = true → s.pending = []
  yperm : (s.yielded ++ s.pending).Perm (s.collected.filter (hasResult p))

theorem finv_init (p : Plan) : FInv p init := by
  constructor <;> simp [init, halted]

theorem finv_step {p : Plan} {s : St} (hf : FInv p s) (e : Ev) : FInv p (stepEv p s e) := by
  cases e with
  | scan i =>
    simp only [stepEv]
    split
    · exact hf
    · rename_i hh
      split
      · exact hf
      · rename_i st hst
        split
        · exact hf
        · split
          · exact hf
          · split
            · simp only [markFinished]
              refine ⟨hf.excl, ?_, ?_, ?_⟩
              · intro hr; have := hf.ret_fin hr
                simp only [List.all_eq_true, decide_eq_true_eq] at this ⊢
                intro u hu; simp; exact Or.inl (this u hu)
              · intro hh'; exfalso; apply hh; simpa [halted] using hh'
              · have hres : hasResult p i = (st.kind == .fg && st.result) := by simp [hasResult, hst]
                simp only [List.filter_cons, hres]
                by_cases hk : (st.kind == .fg && st.result) = true
                · simp only [hk, ↓reduceIte]
                  have := hf.yperm
                  rw [← List.append_assoc]
                  exact (List.perm_append_singleton _ _).trans (List.Perm.cons _ this)
                · simp only [hk, ↓reduceIte, Bool.false_eq_true]; exact hf.yperm
            · exact hf
          · split
            · exact ⟨hf.excl, hf.ret_fin, by intro hh'; exfalso; apply hh; simpa [halted] using hh',
                     hf.yperm⟩
            · exact hf
  | begin i => simp only [stepEv]; split
               · exact ⟨hf.excl, hf.ret_fin, hf.halt_pending, hf.yperm⟩
               · exact hf
  | finish i => simp only [stepEv]; split
                · exact ⟨hf.excl, hf.ret_fin, hf.halt_pending, hf.yperm⟩
                · exact hf
  | fail i => simp only [stepEv]; split
              · exact ⟨hf.excl, hf.ret_fin, hf.halt_pending, hf.yperm⟩
              · exact hf
  | loopHead =>
    simp only [stepEv]
    split
    · exact hf
    · rename_i hh
      have hh' : s.raised.isSome = false ∧ s.returned = false := by
        simp only [halted, Bool.or_eq_true, not_or] at hh
        exact ⟨by simpa using hh.1, by simpa using hh.2⟩
      have yp : ((s.yielded ++ s.pending.reverse) ++ ([] : List Nat)).Perm (s.collected.filter (hasResult p)) := by
        simp only [List.append_nil]
        exact (List.Perm.append_left _ (List.reverse_perm _)).trans hf.yperm
      split
      · rename_i hc
        exact ⟨by simp [hh'.1], fun _ => hc.1, fun _ => rfl, yp⟩
      · split
        · exact ⟨by simp [hh'.2], by simp [hh'.2], fun _ => rfl, yp⟩
        · exact ⟨by simp [hh'.1, hh'.2], by simp [hh'.2], fun _ => rfl, yp⟩

theorem finv_reach {p : Plan} {s : St} (hr : Reach p s) : FInv p s := by
  obtain ⟨evs, rfl⟩ := hr
  suffices ∀ s, FInv p s → FInv p (run p s evs) from this init (finv_init p)
  induction evs with
  | nil => intro s h; exact h
  | cons e es ih => intro s h; exact ih _ (finv_step h e)

/-- if every uuid of the plan is finished, no step has failed -/
theorem no_failed_of_all_finished {p : Plan} (hd : DisjointOuts p) (hne : NonemptyOuts p) {s : St} (hi : SInv p s)
    (hall : (allOuts p).all (· ∈ s.finished) = true) : s.failed = [] := by
  cases hfl : s.failed with
  | nil => rfl
  | cons i rest =>
    exfalso
    have hif : i ∈ s.failed := by simp [hfl]
    obtain ⟨st, hst⟩ := hi.started_valid i (hi.failed_sub i hif)
    obtain ⟨u, hu⟩ := List.exists_mem_of_ne_nil _ (hne st (List.mem_of_getElem? hst))
    have hufin : u ∈ s.finished := by
      simp only [List.all_eq_true, decide_eq_true_eq] at hall
      apply hall; simp only [allOuts, List.mem_flatMap]; exact ⟨st, List.mem_of_getElem? hst, hu⟩
    obtain ⟨j, sj, hj1, hj2, hj3⟩ := hi.fin_owner u hufin
    have : j = i := hd j i sj st hj2 hst u hj3 hu
    subst this
    exact hi.done_failed j (hi.coll_sub j hj1) hif

theorem prefix_step (p : Plan) (s : St) (e : Ev) : s.yielded <+: (stepEv p s e).yielded := by
  cases e <;> simp only [stepEv] <;> repeat' split
  all_goals first | exact List.prefix_refl _ | (simp [markFinished]) | exact List.prefix_append _ _

theorem prefix_run (p : Plan) (evs : List Ev) (s : St) : s.yielded <+: (run p s evs).yielded := by
  induction evs generalizing s with
  | nil => exact List.prefix_refl _
  | cons e es ih => exact (prefix_step p s e).trans (ih _)

theorem halted_scan (p : Plan) (s : St) (h : halted s = true) (i : Nat) : stepEv p s (.scan i) = s := by
  simp [stepEv, h]

theorem halted_loopHead (p : Plan) (s : St) (h : halted s = true) : stepEv p s .loopHead = s := by
  simp [stepEv, h]

theorem halted_yielded (p : Plan) (s : St) (h : halted s = true) (e : Ev) : (stepEv p s e).yielded = s.yielded := by
  cases e with
  | scan i => rw [halted_scan p s h]
  | loopHead => rw [halted_loopHead p s h]
  | begin i => simp only [stepEv]; split <;> rfl
  | finish i => simp only [stepEv]; split <;> rfl
  | fail i => simp only [stepEv]; split <;> rfl

theorem halted_mono (p : Plan) (s : St) (e : Ev) (h : halted s = true) : halted (stepEv p s e) = true :=
  (stepEv_le p s e).halted h


theorem run_append (p : Plan) (s : St) (a b : List Ev) : run p s (a ++ b) = run p (run p s a) b := by
  simp [run, List.foldl_append]

theorem failed_mono (p : Plan) (s : St) (e : Ev) {j : Nat} (h : j ∈ s.failed) : j ∈ (stepEv p s e).failed := by
  cases e <;> simp only [stepEv] <;> repeat' split
  all_goals first | exact h | (simp; exact Or.inr h)

theorem failed_mono_run (p : Plan) (evs : List Ev) (s : St) {j : Nat} (h : j ∈ s.failed) :
    j ∈ (run p s evs).failed := by
  induction evs generalizing s with
  | nil => exact h
  | cons e es ih => exact ih _ (failed_mono p s e h)

theorem halted_yielded_run (p : Plan) (evs : List Ev) (s : St) (h : halted s = true) :
    (run p s evs).yielded = s.yielded := by
  induction evs generalizing s with
  | nil => rfl
  | cons e es ih =>
    have := ih (stepEv p s e) (halted_mono p s e h)
    simp only [run, List.foldl_cons] at this ⊢
    rw [this, halted_yielded p s h e]

theorem failed_new {p : Plan} {s : St} {ev : Ev} {e : Nat} (h : e ∈ (stepEv p s ev).failed) (hn : e ∉ s.failed) :
    ev = .fail e := by
  cases ev with
  | fail j =>
    simp only [stepEv] at h; split at h
    · simp at h; rcases h with rfl | h
      · rfl
      · exact absurd h hn
    · exact absurd h hn
  | scan j => simp only [stepEv] at h; repeat' split at h
              all_goals first | exact absurd h hn | (simp only [markFinished] at h; exact absurd h hn)
  | begin j => simp only [stepEv] at h; split at h <;> exact absurd h hn
  | finish j => simp only [stepEv] at h; split at h <;> exact absurd h hn
  | loopHead => simp only [stepEv] at h; repeat' split at h
                all_goals exact absurd h hn

theorem failed_has_fail_event (p : Plan) (evs : List Ev) (s : St) {e : Nat}
    (h : e ∈ (run p s evs).failed) (hn : e ∉ s.failed) : Ev.fail e ∈ evs := by
  induction evs generalizing s with
  | nil => exact absurd h hn
  | cons ev es ih =>
    by_cases hmid : e ∈ (stepEv p s ev).failed
    · have := failed_new hmid hn; subst this; simp
    · have := ih (stepEv p s ev) h hmid; simp [this]

end Sched

namespace Sched

/-- a set `C` of steps each of which waits for a uuid produced by a step of `C` (a wait-for cycle, or a chain into one):
no step of `C` is ever started -/
theorem cyclic_never_starts {p : Plan} (hd : DisjointOuts p) (C : Nat → Prop)
    (hC : ∀ (i : Nat) (st : Step), C i → p[i]? = some st →
      ∃ u ∈ st.req, ∃ j sj, C j ∧ p[j]? = some sj ∧ u ∈ sj.outs)
    (evs : List Ev) : ∀ i, C i → i ∉ (run p init evs).started := by
  suffices ∀ s : St, SInv p s → (∀ i, C i → i ∉ s.started) → ∀ i, C i → i ∉ (run p s evs).started from
    this init (sinv_init p) (by intro i _; simp [init])
  induction evs with
  | nil => intro s _ h; exact h
  | cons e es ih =>
    intro s hi hno
    apply ih (stepEv p s e) (sinv_step hd hi e)
    intro i hci hmem
    have hold := hno i hci
    obtain ⟨_, st, hst, hcan⟩ := started_new hmem hold
    obtain ⟨u, hu, j, sj, hcj, hsj, huj⟩ := hC i st hci hst
    have hufin := canRun_req hcan u hu
    obtain ⟨k, sk, hk1, hk2, hk3⟩ := hi.fin_owner u hufin
    have : k = j := hd k j sk sj hk2 hsj u hk3 huj
    subst this
    exact hno k hcj (hi.begun_sub k (hi.done_sub k (hi.coll_sub k hk1)))

end Sched
