import MlodaVerif.Lemmas.PlanFullOneLink
/-! Any number of links: the structure of the plan after `add_joinstep`, and a uuid rank for it from ranks of buckets and links. -/
namespace PlanFull
open Sched OptGroup PlanCore

def isJoin (s : PStep) : Bool := s.kind == .join

/-- the JoinSteps of a plan -/
def joinsOf (p : List PStep) : List PStep := p.filter isJoin

/-- the link entries of `pre_execution_plan` -/
def linksOfPre : List PreEl → List Key
  | [] => []
  | .link k :: r => k :: linksOfPre r
  | .step _ :: r => linksOfPre r

/-- the plan after `add_joinstep` is, up to order, the plan before + the FeatureGroupSteps + the JoinSteps made, whose uuids are
increasing values of the supply and whose links are (in order) links of link entries -/
theorem addJoinsteps_struct {g : Graph} {t : Trek} {linfo : Nat → LinkInfo} {o : Ord} {fsc : List (List Nat)} :
    ∀ {pre : List PreEl} {s s' : JState}, addJoinsteps g t linfo o fsc pre s = .ok s' →
      ∃ js : List PStep, s'.plan.Perm (s.plan ++ stepsOf pre ++ js) ∧
        (js.map (·.uuid)).Pairwise (· < ·) ∧ (∀ j ∈ js, s.n ≤ j.uuid ∧ j.uuid < s'.n) ∧ s.n ≤ s'.n ∧
        (js.map (·.link)).Sublist ((linksOfPre pre).map (fun k => some k.link)) ∧
        (∀ j ∈ js, j.kind = .join ∧ ∃ l, j.link = some l ∧ j.outs = [j.uuid, l]) := by
  intro pre
  induction pre with
  | nil =>
    intro s s' h
    simp only [addJoinsteps, Except.ok.injEq] at h
    subst h
    exact ⟨[], by simp [stepsOf], by simp, (by intro j hj; cases hj), Nat.le_refl _, by simp [linksOfPre], (by intro j hj; cases hj)⟩
  | cons el r ih =>
    intro s s' h
    cases el with
    | step st =>
      simp only [addJoinsteps] at h
      obtain ⟨js, h1, h2, h3, h4, h5, h6⟩ := ih h
      refine ⟨js, ?_, h2, h3, h4, by simpa [linksOfPre] using h5, h6⟩
      simp only [stepsOf] at h1 ⊢
      refine h1.trans ?_
      simp only [List.append_assoc, List.singleton_append]
      exact List.Perm.refl _
    | link k =>
      simp only [addJoinsteps] at h
      cases hrl : runLink g t linfo o fsc s.n k with
      | error e => rw [hrl] at h; cases h
      | ok res =>
        rw [hrl] at h
        cases res with
        | none =>
          simp only at h
          obtain ⟨js, h1, h2, h3, h4, h5, h6⟩ := ih h
          refine ⟨js, by simpa [stepsOf] using h1, h2, h3, h4, ?_, h6⟩
          simp only [linksOfPre, List.map_cons]
          exact h5.trans (List.sublist_cons_self _ _)
        | some j0 =>
          simp only at h
          obtain ⟨js, h1, h2, h3, h4, h5, h6⟩ := ih h
          simp only at h1 h3 h4
          obtain ⟨lf, rf, ch, l, rr, _, _, hj0⟩ := runLink_some hrl
          have hu : j0.uuid = s.n := by rw [hj0]
          refine ⟨j0 :: js, ?_, ?_, ?_, by omega, ?_, ?_⟩
          · refine h1.trans ?_
            simp only [stepsOf, List.append_assoc, List.singleton_append]
            refine List.Perm.append_left _ ?_
            exact (List.perm_middle).symm
          · simp only [List.map_cons, List.pairwise_cons]
            refine ⟨?_, h2⟩
            intro u hu'
            obtain ⟨j, hj, rfl⟩ := List.mem_map.mp hu'
            have := (h3 j hj).1
            omega
          · intro j hj
            rcases List.mem_cons.mp hj with rfl | hj
            · rw [hu]; exact ⟨Nat.le_refl _, by omega⟩
            · have := h3 j hj; exact ⟨by omega, this.2⟩
          · simp only [linksOfPre, List.map_cons]
            have : j0.link = some k.link := by rw [hj0]
            rw [this]
            exact h5.cons₂ _
          · intro j hj
            rcases List.mem_cons.mp hj with rfl | hj
            · rw [hj0]; exact ⟨rfl, k.link, rfl, rfl⟩
            · exact h6 j hj

end PlanFull

namespace PlanFull
open Sched OptGroup PlanCore

/-- the feature-group entries / the link entries of the queue, in order -/
def fgEntries : List QEl → List (Nat × List (List Nat))
  | [] => []
  | .fg c bs :: r => (c, bs) :: fgEntries r
  | .link _ :: r => fgEntries r

def linksOfQ : List QEl → List Key
  | [] => []
  | .fg _ _ :: r => linksOfQ r
  | .link k :: r => k :: linksOfQ r

theorem stepsOf_append_steps (l : List PStep) (r : List PreEl) : stepsOf (l.map PreEl.step ++ r) = l ++ stepsOf r := by
  induction l with
  | nil => rfl
  | cons a l' ih => simp [stepsOf, ih]

theorem linksOfPre_append_steps (l : List PStep) (r : List PreEl) : linksOfPre (l.map PreEl.step ++ r) = linksOfPre r := by
  induction l with
  | nil => rfl
  | cons a l' ih => simp [linksOfPre, ih]

theorem stepsOf_preSpec_entries (g : Graph) (t : Trek) (o : Ord) (q : List QEl) :
    stepsOf (preSpec g t o q) = fgsOf g t o (fgEntries q) := by
  induction q with
  | nil => rfl
  | cons el r ih =>
    cases el with
    | link k => simpa [preSpec, preOf, stepsOf, fgEntries] using ih
    | fg c bs =>
      simp only [preSpec, List.flatMap_cons, preOf, fgEntries, fgsOf] at ih ⊢
      rw [stepsOf_append_steps, ih]

theorem linksOfPre_preSpec (g : Graph) (t : Trek) (o : Ord) (q : List QEl) : linksOfPre (preSpec g t o q) = linksOfQ q := by
  induction q with
  | nil => rfl
  | cons el r ih =>
    cases el with
    | link k => simpa [preSpec, preOf, linksOfPre, linksOfQ] using ih
    | fg c bs =>
      simp only [preSpec, List.flatMap_cons, preOf, linksOfQ] at ih ⊢
      rw [linksOfPre_append_steps, ih]

theorem nodup_map_inj {α β : Type} (f : α → β) : ∀ (l : List α), (l.map f).Nodup → ∀ a ∈ l, ∀ b ∈ l, f a = f b → a = b := by
  intro l
  induction l with
  | nil => intro _ a ha; cases ha
  | cons x r ih =>
    intro hnd a ha b hb hab
    simp only [List.map_cons, List.nodup_cons, List.mem_map, not_exists, not_and] at hnd
    rcases List.mem_cons.mp ha with hax | ha'
    · rcases List.mem_cons.mp hb with hbx | hb'
      · rw [hax, hbx]
      · exact absurd (by rw [← hab, hax]) (hnd.1 b hb')
    · rcases List.mem_cons.mp hb with hbx | hb'
      · exact absurd (by rw [hab, hbx]) (hnd.1 a ha')
      · exact ih hnd.2 a ha' b hb' hab

/-- uuid rank of the plan before `add_tfs`: features by bucket rank and level, the two uuids of a JoinStep at the rank of its link -/
def phiMany (anc : Nat → List Nat) (B : List (List Nat)) (rb rl : Nat → Nat) (p : List PStep) (u : Nat) : Nat :=
  if u ∈ B.flatten then 2 * base anc B rb u
  else match (joinsOf p).find? (fun s => decide (u ∈ s.outs)) with
    | some j => 2 * (rl (j.link.getD 0) * (B.flatten.length + 1))
    | none => 0

/-- hypotheses of the many-links theorem on the queue `q`, the trekker and the plan `p` / JoinStepCollection `jc` after
`add_joinstep` (all decidable for given ranks `rb`, `r` of features and `rl` of links): buckets as in
`C04.planCore_wellRanked_partial`; the link entries name pairwise different links; every link a FeatureGroupStep waits for has its
JoinStep, and the entry's features are ranked above it; everything a JoinStep waits for - ancestors of its children, the
`order` predecessors, `joinstep_collection` - is a planned feature ranked below its link or an output of a JoinStep of a link
ranked below (`rl` witnesses that `order` and the collection are acyclic); plus the side conditions for the `any_uuid` reset of a
join inside one framework -/
structure ManyOK (g : Graph) (t : Trek) (q : List QEl) (B : List (List Nat)) (p : List PStep) (jc : List (Nat × List Nat))
    (n0 : Nat) (rb r rl : Nat → Nat) : Prop where
  bdef : (fgEntries q).flatMap (·.2) = B
  buckets : BucketsOK g.anc B rb r
  fresh : ∀ f ∈ B.flatten, f < n0
  qlinks : ((linksOfQ q).map (·.link)).Nodup
  linkFresh : ∀ k ∈ linksOfQ q, k.link < n0 ∧ k.link ∉ B.flatten
  needed : ∀ e ∈ t.data, (∃ f ∈ e.2, f ∈ B.flatten) → ∃ js ∈ joinsOf p, js.link = some e.1.link
  above : ∀ e ∈ t.data, ∀ en ∈ fgEntries q, (∃ f ∈ en.2.flatten, f ∈ e.2) → ∀ f ∈ en.2.flatten, rl e.1.link < rb f
  jreq : ∀ js ∈ joinsOf p, ∀ l, js.link = some l → ∀ u ∈ reqExt jc js,
    (u ∈ B.flatten ∧ rb u < rl l) ∨ (∃ js' ∈ joinsOf p, u ∈ js'.outs ∧ ∃ l', js'.link = some l' ∧ rl l' < rl l)
  lrmem : ∀ js ∈ joinsOf p, js.fw = js.fw2 → ∀ x ∈ js.lfu ++ js.rfu, x ∈ B.flatten
  lfu : ∀ js ∈ joinsOf p, js.fw = js.fw2 → ∀ l, js.link = some l → ∀ sv ∈ js.lfu, ∀ a ∈ g.anc sv, rb a < rl l
  reset : ∀ js ∈ joinsOf p, js.fw = js.fw2 → ∀ l, js.link = some l → ∀ en ∈ fgEntries q, ∀ b ∈ en.2, ∀ L ∈ splitLevels b g.anc,
    (∃ x ∈ js.lfu, x ∈ L.flatMap g.anc) → (∃ y ∈ js.rfu, y ∈ L.flatMap g.anc) → ∀ f ∈ en.2.flatten, rl l < rb f

end PlanFull

namespace PlanFull
open Sched OptGroup PlanCore

theorem flatMap_outs_joins_perm : ∀ (J : List PStep), (∀ j ∈ J, ∃ l, j.link = some l ∧ j.outs = [j.uuid, l]) →
    (J.flatMap (·.outs)).Perm (J.map (·.uuid) ++ J.map (fun j => j.link.getD 0)) := by
  intro J
  induction J with
  | nil => intro _; simp
  | cons j r ih =>
    intro h
    obtain ⟨l, hl, ho⟩ := h j (by simp)
    have hrec := ih (fun x hx => h x (List.mem_cons_of_mem _ hx))
    simp only [List.flatMap_cons, List.map_cons, ho, hl, Option.getD_some]
    -- [u, l] ++ REST ~ u :: (us ++ l :: ls)
    have h1 : ([j.uuid, l] ++ List.flatMap (·.outs) r).Perm ([j.uuid, l] ++ (r.map (·.uuid) ++ r.map (fun j => j.link.getD 0))) :=
      List.Perm.append_left _ hrec
    refine h1.trans ?_
    simp only [List.cons_append, List.nil_append]
    exact List.Perm.cons _ (List.perm_middle.symm)

theorem midOK_many {g : Graph} {t : Trek} {linfo : Nat → LinkInfo} {o : Ord} {n0 : Nat} {q : List QEl} {B : List (List Nat)}
    {p : List PStep} {jc : List (Nat × List Nat)} {n : Nat} {rb r rl : Nat → Nat}
    (hmid : planBeforeTfs g t linfo o n0 q = .ok (p, jc, n)) (hok : ManyOK g t q B p jc n0 rb r rl) :
    MidOK g p jc n (phiMany g.anc B rb rl p) := by
  have hB := hok.bdef
  have hBk := hok.buckets
  obtain ⟨jst, _, hjs, rfl, _, rfl⟩ := planBeforeTfs_spec hmid
  obtain ⟨J, hperm, hJu, hJr, hn, hJl, hJs⟩ := addJoinsteps_struct hjs
  simp only [List.nil_append] at hperm hJr hn
  rw [stepsOf_preSpec_entries, linksOfPre_preSpec] at *
  -- the JoinSteps of the plan are the steps `run_link` made
  have hfgk : ∀ s ∈ fgsOf g t o (fgEntries q), s.kind = .fg := by
    intro s hs
    obtain ⟨e, _, b, _, L, _, rfl⟩ := mem_fgsOf.mp hs
    rfl
  have hJperm : (joinsOf jst.plan).Perm J := by
    have h1 := hperm.filter isJoin
    rw [List.filter_append] at h1
    have h2 : (fgsOf g t o (fgEntries q)).filter isJoin = [] := by
      apply List.filter_eq_nil_iff.mpr
      intro s hs; simp [isJoin, hfgk s hs]
    have h3 : J.filter isJoin = J := by
      apply List.filter_eq_self.mpr
      intro j hj; simp [isJoin, (hJs j hj).1]
    rw [h2, h3] at h1
    simpa [joinsOf] using h1
  have hJmem : ∀ j, j ∈ joinsOf jst.plan ↔ j ∈ J := fun j => hJperm.mem_iff
  have hmem : ∀ s, s ∈ jst.plan ↔ s ∈ fgsOf g t o (fgEntries q) ∨ s ∈ J := by
    intro s; rw [hperm.mem_iff, List.mem_append]
  -- links of the JoinSteps
  have hJlk : (J.map (fun j => j.link.getD 0)).Sublist ((linksOfQ q).map (·.link)) := by
    have := hJl.map (fun x : Option Nat => x.getD 0)
    simpa [List.map_map, Function.comp_def] using this
  have hJlnd : (J.map (fun j => j.link.getD 0)).Nodup := hJlk.nodup hok.qlinks
  have hJlq : ∀ j ∈ J, ∀ l, j.link = some l → l < n0 ∧ l ∉ B.flatten := by
    intro j hj l hl
    have : l ∈ (linksOfQ q).map (·.link) := hJlk.subset (List.mem_map.mpr ⟨j, hj, by rw [hl]; rfl⟩)
    obtain ⟨k, hk, rfl⟩ := List.mem_map.mp this
    exact hok.linkFresh k hk
  have hJund : (J.map (·.uuid)).Nodup := hJu.imp (fun h => Nat.ne_of_lt h)
  -- a uuid lies in the outputs of at most one JoinStep (up to its link)
  have huniq : ∀ j ∈ J, ∀ j' ∈ J, ∀ u, u ∈ j.outs → u ∈ j'.outs → j' = j := by
    intro j hj j' hj' u hu hu'
    obtain ⟨_, l, hl, ho⟩ := hJs j hj
    obtain ⟨_, l', hl', ho'⟩ := hJs j' hj'
    rw [ho] at hu; rw [ho'] at hu'
    simp only [List.mem_cons, List.not_mem_nil, or_false] at hu hu'
    rcases hu with rfl | rfl <;> rcases hu' with h' | h'
    · exact nodup_map_inj _ J hJund j' hj' j hj h'.symm
    · have := (hJlq j' hj' l' hl').1; have := (hJr j hj).1; omega
    · have := (hJlq j hj _ hl).1; have := (hJr j' hj').1; omega
    · exact nodup_map_inj _ J hJlnd j' hj' j hj (by simp only [hl, hl', Option.getD_some]; exact h'.symm)
  have hphiJ : ∀ j ∈ J, ∀ l, j.link = some l → ∀ u ∈ j.outs,
      phiMany g.anc B rb rl jst.plan u = 2 * (rl l * (B.flatten.length + 1)) := by
    intro j hj l hl u hu
    have hnotB : u ∉ B.flatten := by
      obtain ⟨_, l0, hl0, ho⟩ := hJs j hj
      rw [hl] at hl0; cases hl0
      rw [ho] at hu
      simp only [List.mem_cons, List.not_mem_nil, or_false] at hu
      rcases hu with rfl | rfl
      · intro h; have := hok.fresh _ h; have := (hJr j hj).1; omega
      · exact (hJlq j hj _ hl).2
    unfold phiMany
    rw [if_neg hnotB]
    cases hf : (joinsOf jst.plan).find? (fun s => decide (u ∈ s.outs)) with
    | none =>
      have := List.find?_eq_none.mp hf j ((hJmem j).mpr hj)
      simp [hu] at this
    | some j' =>
      have hj' : j' ∈ J := (hJmem j').mp (List.mem_of_find?_eq_some hf)
      have hu' : u ∈ j'.outs := by have := List.find?_some hf; simpa using this
      have hjj := huniq j hj j' hj' u hu hu'
      subst hjj
      simp only [hl, Option.getD_some]
  have hphiF : ∀ f ∈ B.flatten, phiMany g.anc B rb rl jst.plan f = 2 * base g.anc B rb f := by
    intro f hf; simp [phiMany, hf]
  have hbB : ∀ e ∈ fgEntries q, ∀ b ∈ e.2, b ∈ B := by
    intro e he b hb; rw [← hB]; exact List.mem_flatMap.mpr ⟨e, he, hb⟩
  have hBe : ∀ b ∈ B, ∃ e ∈ fgEntries q, b ∈ e.2 := by
    intro b hb; rw [← hB] at hb; exact List.mem_flatMap.mp hb
  have hLB : ∀ e ∈ fgEntries q, ∀ b ∈ e.2, ∀ L ∈ splitLevels b g.anc, ∀ f ∈ L, f ∈ B.flatten ∧ f ∈ e.2.flatten := by
    intro e he b hb L hL f hf
    have hfb : f ∈ b := (splitLevels_cover b g.anc).mem_iff.mp (List.mem_flatten.mpr ⟨L, hL, hf⟩)
    exact ⟨List.mem_flatten.mpr ⟨b, hbB e he b hb, hfb⟩, List.mem_flatten.mpr ⟨b, hb, hfb⟩⟩
  have hprod : ∀ u ∈ B.flatten, ∃ sj ∈ jst.plan, u ∈ sj.outs := by
    intro u hu
    obtain ⟨b', hb', j, Lj, hLj, huLj⟩ := level_of_mem (anc := g.anc) hu
    obtain ⟨e', he', hbe'⟩ := hBe b' hb'
    exact ⟨_, (hmem _).mpr (Or.inl (mem_fgsOf.mpr ⟨e', he', b', hbe', Lj, List.mem_of_getElem? hLj, rfl⟩)), huLj⟩
  have hlevel : ∀ e ∈ fgEntries q, ∀ b ∈ e.2, ∀ L ∈ splitLevels b g.anc, ∀ f ∈ L, ∀ v ∈ L, base g.anc B rb f = base g.anc B rb v := by
    intro e he b hb L hL f hf v hv
    obtain ⟨kk, hkk⟩ := List.mem_iff_getElem?.mp hL
    have hfb : f ∈ b := (splitLevels_cover b g.anc).mem_iff.mp (List.mem_flatten.mpr ⟨L, hL, hf⟩)
    have hvb : v ∈ b := (splitLevels_cover b g.anc).mem_iff.mp (List.mem_flatten.mpr ⟨L, hL, hv⟩)
    rw [base_level hBk (hbB e he b hb) hkk hf, base_level hBk (hbB e he b hb) hkk hv, hBk.same b (hbB e he b hb) f hfb v hvb]
  have hancLt : ∀ e ∈ fgEntries q, ∀ b ∈ e.2, ∀ L ∈ splitLevels b g.anc, ∀ f ∈ L, ∀ u ∈ g.anc f, ∀ v ∈ L,
      u ∈ B.flatten ∧ base g.anc B rb u < base g.anc B rb v := by
    intro e he b hb L hL f hf u hu v hv
    obtain ⟨kk, hkk⟩ := List.mem_iff_getElem?.mp hL
    refine ⟨hBk.cl f (hLB e he b hb L hL f hf).1 u hu, ?_⟩
    rw [← hlevel e he b hb L hL f hf v hv]
    exact base_anc_lt hBk (hbB e he b hb) hkk hf hu
  have hK : 1 ≤ B.flatten.length + 1 := Nat.le_add_left _ _
  refine ⟨?_, ?_, ?_, ?_, ?_, ?_, ?_⟩
  · intro s hs
    rcases (hmem s).mp hs with h | h
    · rw [hfgk s h]; simp
    · rw [(hJs s h).1]; simp
  · intro s hs
    rcases (hmem s).mp hs with h | h
    · obtain ⟨e, he, b, hb, L, hL, rfl⟩ := mem_fgsOf.mp h
      exact splitLevels_nonempty b g.anc (hBk.ne b (hbB e he b hb)) L hL
    · obtain ⟨_, l, _, ho⟩ := hJs s h; rw [ho]; simp
  · -- pairwise different outputs
    have h1 : (jst.plan.flatMap (·.outs)).Perm (B.flatten ++ (J.map (·.uuid) ++ J.map (fun j => j.link.getD 0))) := by
      have a1 := hperm.flatMap_right (·.outs)
      rw [List.flatMap_append] at a1
      have a2 := fgsOf_outs_perm g t o (fgEntries q)
      rw [hB] at a2
      exact a1.trans (List.Perm.append a2 (flatMap_outs_joins_perm J (fun j hj => (hJs j hj).2)))
    rw [h1.nodup_iff, List.nodup_append]
    refine ⟨hBk.nd, ?_, ?_⟩
    · rw [List.nodup_append]
      refine ⟨hJund, hJlnd, ?_⟩
      intro u hu v hv
      obtain ⟨j, hj, rfl⟩ := List.mem_map.mp hu
      obtain ⟨j', hj', rfl⟩ := List.mem_map.mp hv
      obtain ⟨_, l', hl', _⟩ := hJs j' hj'
      simp only [hl', Option.getD_some]
      have := (hJlq j' hj' l' hl').1; have := (hJr j hj).1; omega
    · intro u hu v hv
      rcases List.mem_append.mp hv with hv | hv
      · obtain ⟨j, hj, rfl⟩ := List.mem_map.mp hv
        have := hok.fresh u hu; have := (hJr j hj).1; omega
      · obtain ⟨j, hj, rfl⟩ := List.mem_map.mp hv
        obtain ⟨_, l, hl, _⟩ := hJs j hj
        simp only [hl, Option.getD_some]
        exact fun h => (hJlq j hj l hl).2 (h ▸ hu)
  · -- below the supply
    intro u hu
    obtain ⟨s, hs, hus⟩ := List.mem_flatMap.mp hu
    rcases (hmem s).mp hs with h | h
    · obtain ⟨e, he, b, hb, L, hL, rfl⟩ := mem_fgsOf.mp h
      have := hok.fresh u (hLB e he b hb L hL u hus).1; omega
    · obtain ⟨_, l, hl, ho⟩ := hJs s h
      rw [ho] at hus
      simp only [List.mem_cons, List.not_mem_nil, or_false] at hus
      rcases hus with rfl | rfl
      · exact (hJr s h).2
      · have := (hJlq s h _ hl).1; omega
  · -- constant on outputs
    intro s hs u hu v hv
    rcases (hmem s).mp hs with h | h
    · obtain ⟨e, he, b, hb, L, hL, rfl⟩ := mem_fgsOf.mp h
      rw [hphiF u (hLB e he b hb L hL u hu).1, hphiF v (hLB e he b hb L hL v hv).1, hlevel e he b hb L hL u hu v hv]
    · obtain ⟨_, l, hl, _⟩ := hJs s h
      rw [hphiJ s h l hl u hu, hphiJ s h l hl v hv]
  · -- every required uuid is produced two ranks below
    intro s hs u hu
    rcases (hmem s).mp hs with h | h
    · obtain ⟨e, he, b, hb, L, hL, rfl⟩ := mem_fgsOf.mp h
      have hu' : u ∈ L.flatMap g.anc ∨ u ∈ retrieveLinks t.data e.2.flatten := by
        simp only [reqExt, mkFg] at hu
        simpa [List.mem_eraseDups, List.mem_append] using hu
      rcases hu' with hu' | hu'
      · obtain ⟨f, hf, huf⟩ := List.mem_flatMap.mp hu'
        have h0 := hancLt e he b hb L hL f hf u huf
        obtain ⟨v0, hv0⟩ := List.exists_mem_of_ne_nil _ (splitLevels_nonempty b g.anc (hBk.ne b (hbB e he b hb)) L hL)
        obtain ⟨sj, hsj, husj⟩ := hprod u (h0 v0 hv0).1
        refine ⟨sj, hsj, husj, ?_⟩
        intro v hv
        have := (h0 v hv).2
        rw [hphiF u (h0 v hv).1, hphiF v (hLB e he b hb L hL v hv).1]
        omega
      · obtain ⟨f, hf, d, hd, hfd, rfl⟩ := mem_retrieveLinks.mp hu'
        have hfB : f ∈ B.flatten := by
          obtain ⟨b', hb', hfb'⟩ := List.mem_flatten.mp hf
          exact List.mem_flatten.mpr ⟨b', hbB e he b' hb', hfb'⟩
        obtain ⟨js, hjs', hjl⟩ := hok.needed d hd ⟨f, hfd, hfB⟩
        have hjJ := (hJmem js).mp hjs'
        obtain ⟨_, l0, hl0, ho⟩ := hJs js hjJ
        rw [hjl] at hl0; cases hl0
        have hin : d.1.link ∈ js.outs := by rw [ho]; simp
        refine ⟨js, (hmem js).mpr (Or.inr hjJ), hin, ?_⟩
        intro v hv
        have hvv := hLB e he b hb L hL v hv
        have := le_base_of_lt_rb (anc := g.anc) (B := B) (hok.above d hd e he ⟨f, hf, hfd⟩ v hvv.2)
        rw [hphiJ js hjJ _ hjl _ hin, hphiF v hvv.1]
        omega
    · -- a JoinStep
      obtain ⟨_, l, hl, ho⟩ := hJs s h
      rcases hok.jreq s ((hJmem s).mpr h) l hl u hu with ⟨huB, hlt⟩ | ⟨js', hjs', hujs', l', hl', hlt⟩
      · obtain ⟨sj, hsj, husj⟩ := hprod u huB
        refine ⟨sj, hsj, husj, ?_⟩
        intro v hv
        have hb := base_lt_of_rb_lt hBk huB hlt
        rw [hphiJ s h l hl v hv, hphiF u huB]; omega
      · have hjJ' := (hJmem js').mp hjs'
        refine ⟨js', (hmem js').mpr (Or.inr hjJ'), hujs', ?_⟩
        intro v hv
        rw [hphiJ s h l hl v hv, hphiJ js' hjJ' l' hl' u hujs']
        have : (rl l' + 1) * (B.flatten.length + 1) ≤ rl l * (B.flatten.length + 1) := Nat.mul_le_mul_right _ hlt
        have hexp : (rl l' + 1) * (B.flatten.length + 1) = rl l' * (B.flatten.length + 1) + (B.flatten.length + 1) := by
          rw [Nat.add_mul]; simp
        omega
  · -- the parents a FeatureGroupStep gets transform steps for
    intro s hs hsk a ha q' hq _
    rcases (hmem s).mp hs with h | h
    · obtain ⟨e, he, b, hb, L, hL, rfl⟩ := mem_fgsOf.mp h
      rcases ha with ha | ⟨js', hjs', hjk', hsame, sv, hsv, hasv, ⟨x, hx1, hx2⟩, ⟨y, hy1, hy2⟩⟩
      · have hane := splitLevels_nonempty b g.anc (hBk.ne b (hbB e he b hb)) L hL
        have haL : a ∈ L := by
          simp only [mkFg, Option.some.injEq] at ha
          rw [ha]; exact hd_mem o hane
        have h0 := hancLt e he b hb L hL a haL q' hq
        obtain ⟨v0, hv0⟩ := List.exists_mem_of_ne_nil _ hane
        obtain ⟨sj, hsj, husj⟩ := hprod q' (h0 v0 hv0).1
        refine ⟨sj, hsj, husj, ?_⟩
        intro v hv
        have := (h0 v hv).2
        rw [hphiF q' (h0 v hv).1, hphiF v (hLB e he b hb L hL v hv).1]
        omega
      · have hjJ' : js' ∈ J := by
          rcases (hmem js').mp hjs' with h' | h'
          · rw [hfgk js' h'] at hjk'; cases hjk'
          · exact h'
        have hjj : js' ∈ joinsOf jst.plan := (hJmem js').mpr hjJ'
        obtain ⟨_, l', hl', _⟩ := hJs js' hjJ'
        cases hasv
        have hxB := hok.lrmem js' hjj hsame x (List.mem_append_left _ hx1)
        have hyB := hok.lrmem js' hjj hsame y (List.mem_append_right _ hy1)
        have inAnc : ∀ z ∈ B.flatten, z ∈ (mkFg g e.1 (retrieveLinks t.data e.2.flatten) L (hd o L)).req → z ∈ L.flatMap g.anc := by
          intro z hzB hz
          simp only [mkFg, List.mem_eraseDups, List.mem_append] at hz
          rcases hz with hz | hz
          · exact hz
          · exfalso
            obtain ⟨f, hf, d, hd, hfd, rfl⟩ := mem_retrieveLinks.mp hz
            have hfB : f ∈ B.flatten := by
              obtain ⟨b', hb', hfb'⟩ := List.mem_flatten.mp hf
              exact List.mem_flatten.mpr ⟨b', hbB e he b' hb', hfb'⟩
            obtain ⟨js2, hjs2, hjl2⟩ := hok.needed d hd ⟨f, hfd, hfB⟩
            exact (hJlq js2 ((hJmem js2).mp hjs2) _ hjl2).2 hzB
        have habove := hok.reset js' hjj hsame l' hl' e he b hb L hL ⟨x, hx1, inAnc x hxB hx2⟩ ⟨y, hy1, inAnc y hyB hy2⟩
        have hsvB := hok.lrmem js' hjj hsame a (List.mem_append_left _ hsv)
        have hqB : q' ∈ B.flatten := hBk.cl a hsvB q' hq
        obtain ⟨sj, hsj, husj⟩ := hprod q' hqB
        refine ⟨sj, hsj, husj, ?_⟩
        intro v hv
        have hvv := hLB e he b hb L hL v hv
        have h1 := base_lt_of_rb_lt hBk hqB (hok.lfu js' hjj hsame l' hl' a hsv q' hq)
        have h2 := le_base_of_lt_rb (anc := g.anc) (B := B) (habove v hvv.2)
        rw [hphiF q' hqB, hphiF v hvv.1]
        omega
    · rw [(hJs s h).1] at hsk; cases hsk

end PlanFull
