import MlodaVerif.Model.PlanOK
import MlodaVerif.Lemmas.SchedLive
/-! Soundness of the executable plan checks and of trace acceptance. -/
namespace Sched

theorem nonemptyOutsB_sound {p : Plan} (h : nonemptyOutsB p = true) : NonemptyOuts p := by
  intro st hst
  simp only [nonemptyOutsB, List.all_eq_true] at h
  have := h st hst
  intro hnil; simp [hnil] at this

theorem getElem?_mem_allOuts {p : Plan} {i : Nat} {st : Step} (h : p[i]? = some st) {u : Nat} (hu : u ∈ st.outs) :
    u ∈ allOuts p := by
  simp only [allOuts, List.mem_flatMap]; exact ⟨st, List.mem_of_getElem? h, hu⟩

theorem nodup_flatMap_disjoint : ∀ (p : Plan), (allOuts p).Nodup → DisjointOuts p := by
  intro p
  induction p with
  | nil => intro _ i j si sj hi; simp at hi
  | cons st rest ih =>
    intro hnd i j si sj hi hj u hui huj
    simp only [allOuts, List.flatMap_cons] at hnd
    have hnd' := List.nodup_append.mp hnd
    have hrest : (allOuts rest).Nodup := hnd'.2.1
    have hdisj := hnd'.2.2
    cases i with
    | zero =>
      cases j with
      | zero => rfl
      | succ j =>
        simp at hi hj; subst hi
        exact absurd rfl (hdisj u hui u (getElem?_mem_allOuts hj huj))
    | succ i =>
      cases j with
      | zero =>
        simp at hi hj; subst hj
        exact absurd rfl (hdisj u huj u (getElem?_mem_allOuts hi hui))
      | succ j =>
        simp at hi hj
        have := ih hrest i j si sj hi hj u hui huj
        omega

theorem disjointOutsB_sound {p : Plan} (h : disjointOutsB p = true) : DisjointOuts p := by
  simp only [disjointOutsB, decide_eq_true_eq] at h
  exact nodup_flatMap_disjoint p h

theorem checkRank_sound {p : Plan} {ranks : List Nat} (h : checkRank p ranks = true) : WellRanked p := by
  refine ⟨fun i => ranks.getD i 0, ?_⟩
  intro i st hst u hu
  simp only [checkRank, List.all_eq_true, List.mem_range] at h
  have hi := h i (lt_length_of_getElem? hst)
  simp only [hst, List.all_eq_true] at hi
  have := hi u hu
  simp only [List.any_eq_true, List.mem_range, Bool.and_eq_true, decide_eq_true_eq] at this
  obtain ⟨j, hj, hmem, hlt⟩ := this
  have hget : p[j]? = some p[j] := List.getElem?_eq_getElem hj
  refine ⟨j, p[j], hget, ?_, hlt⟩
  simpa [outsOf, hget] using hmem

theorem planOK_sound {p : Plan} (h : planOK p = true) : NonemptyOuts p ∧ DisjointOuts p ∧ WellRanked p := by
  simp only [planOK, Bool.and_eq_true] at h
  exact ⟨nonemptyOutsB_sound h.1.1, disjointOutsB_sound h.1.2, checkRank_sound h.2⟩

theorem parentsCoveredB_sound {p : Plan} {parents : List (Nat × List Nat)} (h : parentsCoveredB p parents = true) :
    ParentsCovered p (parentsOf parents) := by
  intro i st hst f hf a ha
  simp only [parentsCoveredB, List.all_eq_true, decide_eq_true_eq] at h
  exact h st (List.mem_of_getElem? hst) f hf a ha

/-! ### trace acceptance -/

theorem filter_worker_scans (l : List Nat) : (l.map Ev.scan).filter isWorkerEv = [] := by
  induction l with
  | nil => rfl
  | cons x xs ih => simp [isWorkerEv, ih]

theorem collectScans_no_worker (p : Plan) (s : St) : (collectScans p s).filter isWorkerEv = [] :=
  filter_worker_scans _

theorem explain_projection {p : Plan} {s : St} {o : Obs} {evs : List Ev} (h : explain p s o = some evs) :
    evs.filter isWorkerEv = [o.toEv] := by
  cases o with
  | begin i =>
    simp only [explain] at h
    split at h <;>
      (simp at h; obtain ⟨_, rfl⟩ := h
       simp [List.filter_append, collectScans_no_worker, isWorkerEv, Obs.toEv])
  | finish i =>
    simp only [explain] at h
    split at h
    · simp at h; subst h; simp [isWorkerEv, Obs.toEv]
    · simp at h
  | fail i =>
    simp only [explain] at h
    split at h <;>
      (simp at h; obtain ⟨_, rfl⟩ := h
       simp [List.filter_append, collectScans_no_worker, isWorkerEv, Obs.toEv])

/-- an accepted trace *is* a behaviour of the model: the returned event list, run from `s`, has exactly the observed
worker events as its observable projection -/
theorem acceptsGo_sound (p : Plan) (obs : List Obs) (s : St) (evs : List Ev) (h : acceptsGo p s obs = some evs) :
    evs.filter isWorkerEv = obs.map Obs.toEv := by
  induction obs generalizing s evs with
  | nil => simp [acceptsGo] at h; subst h; rfl
  | cons o os ih =>
    simp only [acceptsGo] at h
    split at h
    · simp at h
    · rename_i e1 he1
      split at h
      · simp at h
      · rename_i rest hrest
        simp at h; subst h
        rw [List.filter_append, explain_projection he1, ih _ _ hrest]; rfl

theorem run_snoc (p : Plan) (s : St) (l : List Ev) (e : Ev) : run p s (l ++ [e]) = stepEv p (run p s l) e := by
  simp [run, List.foldl_append]

theorem begin_enabled (p : Plan) (s : St) (i : Nat) (h : i ∈ s.started ∧ i ∉ s.begun ∧ i ∉ s.failed) :
    i ∈ (stepEv p s (.begin i)).begun := by
  simp [stepEv, h.1, h.2.1, h.2.2]

/-- and every observed event was *enabled* where it was placed: an accepted `begin i` really entered `begun` -/
theorem explain_begin_enabled {p : Plan} {s : St} {i : Nat} {evs : List Ev} (h : explain p s (.begin i) = some evs) :
    i ∈ (run p s evs).begun := by
  unfold explain at h
  simp only at h
  generalize (if i ∈ (run p s (collectScans p s)).started then collectScans p s
    else collectScans p s ++ [Ev.scan i]) = pre2 at h
  split at h
  · rename_i hc
    simp only [Option.some.injEq] at h
    subst h
    rw [run_snoc]
    exact begin_enabled p _ i hc
  · simp at h

end Sched
