import MlodaVerif.Model.Links
/-! Helper lemmas for C18 (no Mathlib). -/
namespace Links

/-! ### minOf -/

theorem minOf_eq_none {l : List Nat} : minOf l = none ↔ l = [] := by
  cases l with
  | nil => simp [minOf]
  | cons a as =>
    simp only [minOf]
    cases minOf as <;> simp

theorem minOf_spec {l : List Nat} {m : Nat} (h : minOf l = some m) : m ∈ l ∧ ∀ a ∈ l, m ≤ a := by
  induction l generalizing m with
  | nil => simp [minOf] at h
  | cons a as ih =>
    simp only [minOf] at h
    cases hm : minOf as with
    | none =>
      rw [hm] at h
      have : as = [] := minOf_eq_none.mp hm
      subst this
      simp at h; subst h; simp
    | some k =>
      rw [hm] at h
      simp at h
      obtain ⟨hk1, hk2⟩ := ih hm
      subst h
      constructor
      · by_cases hle : a ≤ k
        · simp [Nat.min_eq_left hle]
        · have : k ≤ a := by omega
          simp [Nat.min_eq_right this, hk1]
      · intro b hb
        simp at hb
        rcases hb with rfl | hb
        · exact Nat.min_le_left _ _
        · exact Nat.le_trans (Nat.min_le_right _ _) (hk2 b hb)

theorem minOf_isSome_of_mem {l : List Nat} {a : Nat} (h : a ∈ l) : ∃ m, minOf l = some m := by
  cases hm : minOf l with
  | none => rw [minOf_eq_none.mp hm] at h; simp at h
  | some m => exact ⟨m, rfl⟩

theorem minOf_perm {l l' : List Nat} (h : l.Perm l') : minOf l = minOf l' := by
  cases h1 : minOf l with
  | none =>
    have : l = [] := minOf_eq_none.mp h1
    subst this
    have : l' = [] := by simpa using h.symm.eq_nil
    subst this; simp [minOf]
  | some m =>
    obtain ⟨hm1, hm2⟩ := minOf_spec h1
    obtain ⟨k, hk⟩ := minOf_isSome_of_mem (h.mem_iff.mp hm1)
    obtain ⟨hk1, hk2⟩ := minOf_spec hk
    have : m = k := Nat.le_antisymm (hm2 k (h.mem_iff.mpr hk1)) (hk2 m (h.mem_iff.mp hm1))
    rw [hk, this]

/-! ### firstPair -/

theorem firstPair_eq_none {p : Link → Link → Bool} {ls : List Link} :
    firstPair p ls = none ↔ ∀ i ∈ ls, ∀ j ∈ ls, p i j = false := by
  unfold firstPair
  rw [List.findSome?_eq_none_iff]
  constructor
  · intro h i hi j hj
    have := h i hi
    simp only [Option.map_eq_none_iff] at this
    have := List.find?_eq_none.mp this j hj
    simpa using this
  · intro h i hi
    simp only [Option.map_eq_none_iff]
    apply List.find?_eq_none.mpr
    intro j hj
    simp [h i hi j hj]

theorem firstPair_some {p : Link → Link → Bool} {ls : List Link} {i j : Link}
    (h : firstPair p ls = some (i, j)) : i ∈ ls ∧ j ∈ ls ∧ p i j = true := by
  unfold firstPair at h
  obtain ⟨a, ha, hf⟩ := List.exists_of_findSome?_eq_some h
  simp only [Option.map_eq_some_iff] at hf
  obtain ⟨b, hb, hab⟩ := hf
  have hb1 := List.mem_of_find?_eq_some hb
  have hb2 := List.find?_some hb
  simp at hab
  obtain ⟨rfl, rfl⟩ := hab
  exact ⟨ha, hb1, hb2⟩

theorem firstPair_isSome {p : Link → Link → Bool} {ls : List Link} :
    (firstPair p ls).isSome = ls.any (fun i => ls.any (fun j => p i j)) := by
  cases h : firstPair p ls with
  | none =>
    have := firstPair_eq_none.mp h
    symm
    simp only [Option.isSome_none]
    rw [Bool.eq_false_iff]
    intro hc
    rw [List.any_eq_true] at hc
    obtain ⟨i, hi, hc⟩ := hc
    rw [List.any_eq_true] at hc
    obtain ⟨j, hj, hc⟩ := hc
    rw [this i hi j hj] at hc
    exact Bool.false_ne_true hc
  | some ij =>
    obtain ⟨i, j⟩ := ij
    obtain ⟨hi, hj, hp⟩ := firstPair_some h
    symm
    simp only [Option.isSome_some]
    rw [List.any_eq_true]
    exact ⟨i, hi, by rw [List.any_eq_true]; exact ⟨j, hj, hp⟩⟩

theorem anyPair_perm {p : Link → Link → Bool} {ls ls' : List Link} (h : ls.Perm ls') :
    ls.any (fun i => ls.any (fun j => p i j)) = ls'.any (fun i => ls'.any (fun j => p i j)) := by
  have : (fun i => ls.any (fun j => p i j)) = (fun i => ls'.any (fun j => p i j)) := by
    funext i; exact h.any_eq
  rw [this]; exact h.any_eq

/-! ### MRO -/

theorem mroAux_head (parent : Cls → Option Cls) (n : Nat) (c : Cls) : ∃ t, mroAux parent n c = c :: t := by
  cases n with
  | zero => exact ⟨[], rfl⟩
  | succ n =>
    simp only [mroAux]
    cases parent c with
    | none => exact ⟨[], rfl⟩
    | some p => exact ⟨_, rfl⟩

theorem mro_head (H : Hier) (c : Cls) : ∃ t, H.mro c = c :: t := mroAux_head _ _ _

theorem isSub_self (H : Hier) (c : Cls) : H.isSub c c = true := by
  obtain ⟨t, ht⟩ := mro_head H c
  simp [Hier.isSub, ht]

theorem dist_self (H : Hier) (c : Cls) : H.dist c c = 0 := by
  obtain ⟨t, ht⟩ := mro_head H c
  simp [Hier.dist, ht, List.idxOf?, List.findIdx?_cons]

/-- with enough fuel the MRO is exactly the ancestor chain -/
theorem mem_mroAux_iff (parent : Cls → Option Cls) (hwf : ∀ c p, parent c = some p → p < c) :
    ∀ (n c : Nat), c ≤ n → ∀ a, a ∈ mroAux parent n c ↔ Anc parent c a := by
  intro n
  induction n with
  | zero =>
    intro c hc a
    have : c = 0 := by omega
    subst this
    simp only [mroAux, List.mem_singleton]
    constructor
    · rintro rfl; exact Anc.refl _
    · intro h
      cases h with
      | refl => rfl
      | step hp _ => exact absurd (hwf _ _ hp) (Nat.not_lt_zero _)
  | succ n ih =>
    intro c hc a
    simp only [mroAux]
    cases hp : parent c with
    | none =>
      simp only [List.mem_singleton]
      constructor
      · rintro rfl; exact Anc.refl _
      · intro h
        cases h with
        | refl => rfl
        | step hp' _ => rw [hp] at hp'; cases hp'
    | some p =>
      have hlt : @LT.lt Nat _ p c := hwf _ _ hp
      have hpn : @LE.le Nat _ p n := by omega
      simp only [List.mem_cons]
      constructor
      · rintro (rfl | h)
        · exact Anc.refl _
        · exact Anc.step hp ((ih p hpn a).mp h)
      · intro h
        cases h with
        | refl => exact Or.inl rfl
        | step hp' h' =>
          rw [hp] at hp'; cases hp'
          exact Or.inr ((ih p hpn a).mpr h')

/-! ### is_a_part_of_ -/

theorem isPartOfLoop_iff {α : Type} [DecidableEq α] (self : List α) :
    ∀ (rest : List α) (cnt : Nat), cnt ≤ self.length → self.length - cnt ≤ rest.length →
      (isPartOfLoop self cnt rest = true ↔ self.drop cnt <+: rest) := by
  intro rest
  induction rest with
  | nil =>
    intro cnt h1 h2
    have : self.length ≤ cnt := by simp at h2; omega
    simp [isPartOfLoop, List.drop_eq_nil_of_le this]
  | cons part rest ih =>
    intro cnt h1 h2
    simp only [isPartOfLoop]
    by_cases hge : (cnt : Int) > (self.length : Int) - 1
    · have : self.length ≤ cnt := by omega
      simp [hge, List.drop_eq_nil_of_le this]
    · have hlt : cnt < self.length := by omega
      simp only [hge, if_false]
      rw [List.getElem?_eq_getElem hlt]
      simp only
      rw [List.drop_eq_getElem_cons hlt, List.cons_prefix_cons]
      by_cases hne : part = self[cnt]
      · subst hne
        simp only [bne_self_eq_false, Bool.false_eq_true, if_false, true_and]
        exact ih (cnt + 1) (by omega) (by simp at h2 ⊢; omega)
      · have : (part != self[cnt]) = true := by simpa using hne
        simp only [this, if_true]
        constructor
        · intro h; cases h
        · rintro ⟨h, _⟩; exact absurd h.symm hne

theorem isPartOf_iff {α : Type} [DecidableEq α] (a b : List α) : isPartOf a b = true ↔ a <+: b := by
  unfold isPartOf
  by_cases h : a.length > b.length
  · simp only [h, if_true, Bool.false_eq_true, false_iff]
    intro hp
    have := hp.length_le
    omega
  · simp only [h, if_false]
    have := isPartOfLoop_iff a b 0 (Nat.zero_le _) (by omega)
    simpa using this

end Links

namespace Links

/-! ### Bool definitions as propositions -/

theorem doubleBad_iff {H : Hier} {i j : Link} :
    doubleBad H i j = true ↔ linkEq H i j = false ∧ i.left = j.right ∧ i.right = j.left ∧ i.jt.stacking = false := by
  simp [doubleBad, and_assoc]

theorem conflictBad_iff {H : Hier} {i j : Link} :
    conflictBad H i j = true ↔ linkEq H i j = false ∧ i.left = j.left ∧ i.right = j.right ∧ i.jt ≠ j.jt := by
  simp [conflictBad, and_assoc]

theorem rightBad_iff {H : Hier} {i j : Link} :
    rightBad H i j = true ↔ i.jt = .right ∧ linkEq H i j = false ∧ (i.left = j.left ∨ i.left = j.right) := by
  simp [rightBad, and_assoc]

theorem differ_iff {i j : Link} :
    Spec.differ i j = true ↔ (i.jt ≠ j.jt ∨ i.left ≠ j.left ∨ i.right ≠ j.right ∨ i.li ≠ j.li ∨ i.ri ≠ j.ri) := by
  simp [Spec.differ, or_assoc]

theorem differ_self (i : Link) : Spec.differ i i = false := by simp [Spec.differ]

theorem twoJoins_iff {i j : Link} :
    Spec.twoJoins i j = true ↔ Spec.differ i j = true ∧
      ((i.left = j.left ∧ i.right = j.right) ∨ (i.left = j.right ∧ i.right = j.left)) ∧
      ¬ (i.jt.stacking = true ∧ j.jt.stacking = true) := by
  simp only [Spec.twoJoins, Spec.samePair, Bool.and_eq_true, Bool.or_eq_true, beq_iff_eq, Bool.not_eq_true',
    Bool.and_eq_false_imp, and_assoc]
  constructor
  · rintro ⟨h1, h2, h3⟩
    refine ⟨h1, h2, ?_⟩
    rintro ⟨a, b⟩
    rw [h3 a] at b; cases b
  · rintro ⟨h1, h2, h3⟩
    refine ⟨h1, h2, ?_⟩
    intro a
    cases hb : j.jt.stacking
    · rfl
    · exact absurd ⟨a, hb⟩ h3

theorem typeConflict_iff {i j : Link} :
    Spec.typeConflict i j = true ↔ i.left = j.left ∧ i.right = j.right ∧ i.jt ≠ j.jt := by
  simp [Spec.typeConflict, and_assoc]

theorem rightShare_iff {i j : Link} :
    Spec.rightShare i j = true ↔ Spec.differ i j = true ∧ i.jt = .right ∧ j.jt = .right ∧ i.left = j.left := by
  simp [Spec.rightShare, and_assoc]

/-- links that are not `__eq__` differ in some field other than the identity (names are a function of the class) -/
theorem differ_of_not_linkEq {H : Hier} {i j : Link} (h : linkEq H i j = false) : Spec.differ i j = true := by
  rw [differ_iff]
  false_or_by_contra
  rename_i hc
  simp only [not_or, Decidable.not_not] at hc
  obtain ⟨h1, h2, h3, h4, h5⟩ := hc
  simp [linkEq, h1, h2, h3, h4, h5] at h

theorem linkEq_symm {H : Hier} {i j : Link} : linkEq H i j = linkEq H j i := by
  simp only [linkEq]
  rw [Bool.eq_iff_iff]
  simp only [Bool.and_eq_true, beq_iff_eq]
  constructor <;> rintro ⟨⟨⟨⟨a, b⟩, c⟩, d⟩, e⟩ <;> exact ⟨⟨⟨⟨a.symm, b.symm⟩, c.symm⟩, d.symm⟩, e.symm⟩

end Links

namespace Links

/-! ### `_select_most_specific_links` / `_find_matching_links` membership -/

theorem mem_select {H : Hier} {ls : List Link} {x y : Cls} {l : Link} :
    l ∈ selectMostSpecific H ls x y ↔
      l ∈ ls ∧ ∃ d, score H x y l = some d ∧ ∀ m ∈ ls, ∀ d', score H x y m = some d' → d ≤ d' := by
  have hld : ∀ (p : Link × Nat), p ∈ ls.filterMap (fun l => (score H x y l).map (fun d => (l, d))) ↔
      p.1 ∈ ls ∧ score H x y p.1 = some p.2 := by
    intro p
    simp only [List.mem_filterMap, Option.map_eq_some_iff]
    constructor
    · rintro ⟨a, ha, d, hd, rfl⟩; exact ⟨ha, hd⟩
    · rintro ⟨h1, h2⟩; exact ⟨p.1, h1, p.2, h2, rfl⟩
  have hds : ∀ d', d' ∈ (ls.filterMap (fun l => (score H x y l).map (fun d => (l, d)))).map (·.2) ↔
      ∃ m ∈ ls, score H x y m = some d' := by
    intro d'
    simp only [List.mem_map]
    constructor
    · rintro ⟨p, hp, rfl⟩; exact ⟨p.1, ((hld p).mp hp).1, ((hld p).mp hp).2⟩
    · rintro ⟨m, hm, hs⟩; exact ⟨(m, d'), (hld (m, d')).mpr ⟨hm, hs⟩, rfl⟩
  unfold selectMostSpecific
  simp only
  cases hmin : minOf ((ls.filterMap (fun l => (score H x y l).map (fun d => (l, d)))).map (·.2)) with
  | none =>
    simp only [List.not_mem_nil, false_iff]
    rintro ⟨hl, d, hd, _⟩
    have : d ∈ (ls.filterMap (fun l => (score H x y l).map (fun d => (l, d)))).map (·.2) := (hds d).mpr ⟨l, hl, hd⟩
    rw [minOf_eq_none.mp hmin] at this
    cases this
  | some m0 =>
    obtain ⟨hm1, hm2⟩ := minOf_spec hmin
    simp only [List.mem_map, List.mem_filter, beq_iff_eq]
    constructor
    · rintro ⟨p, ⟨hp, hpm⟩, rfl⟩
      obtain ⟨h1, h2⟩ := (hld p).mp hp
      refine ⟨h1, m0, hpm ▸ h2, ?_⟩
      intro m hm d' hd'
      exact hm2 d' ((hds d').mpr ⟨m, hm, hd'⟩)
    · rintro ⟨hl, d, hd, hmin'⟩
      obtain ⟨m, hm, hsm⟩ := (hds m0).mp hm1
      have h1 : d ≤ m0 := hmin' m hm m0 hsm
      have h2 : m0 ≤ d := hm2 d ((hds d).mpr ⟨l, hl, hd⟩)
      have : d = m0 := Nat.le_antisymm h1 h2
      exact ⟨(l, d), ⟨(hld (l, d)).mpr ⟨hl, hd⟩, this⟩, rfl⟩

/-- no link of the set has exactly the two classes -/
def NoExact (ls : List Link) (x y : Cls) : Prop := ∀ l ∈ ls, ¬ (l.left = x ∧ l.right = y)

theorem find_of_exact {H : Hier} {ls : List Link} {x y : Cls} (h : ¬ NoExact ls x y) :
    findMatchingLinks H ls x y = ls.filter (fun l => matchesExact l x y) := by
  unfold findMatchingLinks
  simp only
  have : (ls.filter (fun l => matchesExact l x y)).isEmpty = false := by
    rw [Bool.eq_false_iff]
    intro he
    apply h
    intro l hl hc
    have : l ∈ ls.filter (fun l => matchesExact l x y) := by
      simp [List.mem_filter, matchesExact, hl, hc.1, hc.2]
    rw [List.isEmpty_iff.mp he] at this
    cases this
  simp [this]

theorem find_of_noExact {H : Hier} {ls : List Link} {x y : Cls} (h : NoExact ls x y) :
    findMatchingLinks H ls x y = selectMostSpecific H (ls.filter (fun l => matchesPoly H l x y)) x y := by
  unfold findMatchingLinks
  simp only
  have : ls.filter (fun l => matchesExact l x y) = [] := by
    apply List.filter_eq_nil_iff.mpr
    intro l hl
    have := h l hl
    simp only [matchesExact, Bool.and_eq_true, beq_iff_eq]
    exact this
  rw [this]
  simp only [List.isEmpty_nil, Bool.not_true, Bool.false_eq_true, if_false]
  split
  · rename_i he
    rw [List.isEmpty_iff.mp he]
    simp [selectMostSpecific, minOf]
  · rfl

end Links

namespace Links

theorem select_eq_filter (H : Hier) (ls : List Link) (x y : Cls) (m : Nat) :
    ((ls.filterMap (fun l => (score H x y l).map (fun d => (l, d)))).filter (fun p => p.2 == m)).map (·.1)
      = ls.filter (fun l => score H x y l == some m) := by
  induction ls with
  | nil => rfl
  | cons a as ih =>
    simp only [List.filterMap_cons, List.filter_cons]
    cases hs : score H x y a with
    | none => simp [ih]
    | some d =>
      simp only [Option.map_some, List.filter_cons]
      by_cases hd : d = m
      · subst hd; simp [ih]
      · have : (d == m) = false := by simpa using hd
        simp [this, ih]

theorem admissible_poly {H : Hier} {x y : Cls} {l : Link} (h : Spec.admissible H x y l = true) :
    matchesPoly H l x y = true := by
  simp only [Spec.admissible, Bool.and_eq_true] at h
  simp [matchesPoly, h.1.1.1, h.1.1.2]

/-- off the asymmetric input class the coded per-link branch is the documented rule -/
theorem score_eq {H : Hier} {x y : Cls} {l : Link} (hp : matchesPoly H l x y = true)
    (ha : asymmetricAdmitted H x y l = false) :
    score H x y l = if Spec.admissible H x y l then some (H.dist x l.left) else none := by
  simp only [matchesPoly, Bool.and_eq_true] at hp
  simp only [asymmetricAdmitted, matchesPoly, hp.1, hp.2, Bool.and_self, Bool.true_and] at ha
  simp only [score, Spec.admissible, hp.1, hp.2, Bool.and_self, Bool.true_and]
  by_cases h1 : l.left = l.right
  · simp only [h1, beq_self_eq_true, if_true, bne_self_eq_false, Bool.false_or]
    by_cases h2 : x = y <;> by_cases h3 : H.dist x l.right = H.dist y l.right <;> simp [h2, h3]
  · have h1' : (l.left == l.right) = false := by simpa using h1
    have h1'' : (l.left != l.right) = true := by simpa using h1
    simp only [h1', Bool.false_eq_true, if_false, h1'', Bool.true_or, Bool.and_true]
    by_cases h3 : H.dist x l.left = H.dist y l.right
    · simp [h3]
    · have h3' : (H.dist x l.left == H.dist y l.right) = false := by simpa using h3
      have h3'' : (H.dist x l.left != H.dist y l.right) = true := by simpa using h3
      simp only [h1'', h3'', Bool.true_and] at ha
      simp only [h3', Bool.false_eq_true, if_false]
      rw [ha]; simp

end Links

namespace Links

/-! ### set construction -/

theorem linkEq_refl (H : Hier) (a : Link) : linkEq H a a = true := by simp [linkEq]

theorem linkEq_trans {H : Hier} {a b c : Link} (h1 : linkEq H a b = true) (h2 : linkEq H b c = true) :
    linkEq H a c = true := by
  simp only [linkEq, Bool.and_eq_true, beq_iff_eq] at *
  obtain ⟨⟨⟨⟨a1, a2⟩, a3⟩, a4⟩, a5⟩ := h1
  obtain ⟨⟨⟨⟨b1, b2⟩, b3⟩, b4⟩, b5⟩ := h2
  exact ⟨⟨⟨⟨a1.trans b1, a2.trans b2⟩, a3.trans b3⟩, a4.trans b4⟩, a5.trans b5⟩

/-! ### `ResolveLinkValidator.validate_no_conflicting_join_types` -/

def look (seen : List ((Cls × Cls) × JoinType)) (k : Cls × Cls) : Option JoinType :=
  (seen.find? (fun e => e.1 == k)).map (·.2)

theorem look_append (seen : List ((Cls × Cls) × JoinType)) (k k' : Cls × Cls) (jt : JoinType) :
    look (seen ++ [(k', jt)]) k = match look seen k with
      | some r => some r
      | none => if k' = k then some jt else none := by
  unfold look
  rw [List.find?_append]
  cases h : seen.find? (fun e => e.1 == k) with
  | some e => simp
  | none =>
    by_cases hk : k' = k
    · subst hk; simp
    · have : (k' == k) = false := by simpa using hk
      simp [this, hk]

def Conflict (a b : Link) : Prop := a.left = b.left ∧ a.right = b.right ∧ a.jt ≠ b.jt

theorem resolveConflictLoop_iff (ls : List Link) : ∀ seen : List ((Cls × Cls) × JoinType),
    resolveConflictLoop seen ls = true ↔
      (∃ l ∈ ls, ∃ jt, look seen (l.left, l.right) = some jt ∧ jt ≠ l.jt) ∨
      (∃ a ∈ ls, ∃ b ∈ ls, Conflict a b) := by
  induction ls with
  | nil => intro seen; simp [resolveConflictLoop]
  | cons l ls ih =>
    intro seen
    simp only [resolveConflictLoop]
    cases hf : seen.find? (fun e => e.1 == (l.left, l.right)) with
    | some e =>
      have hlook : look seen (l.left, l.right) = some e.2 := by simp [look, hf]
      simp only
      by_cases hjt : e.2 = l.jt
      · have : (e.2 != l.jt) = false := by simpa using hjt
        simp only [this, Bool.false_eq_true, if_false]
        rw [ih seen]
        constructor
        · rintro (⟨l', hl', jt, h1, h2⟩ | ⟨a, ha, b, hb, hc⟩)
          · exact Or.inl ⟨l', List.mem_cons_of_mem _ hl', jt, h1, h2⟩
          · exact Or.inr ⟨a, List.mem_cons_of_mem _ ha, b, List.mem_cons_of_mem _ hb, hc⟩
        · -- a conflict involving `l` shows up as a mismatch with the remembered join type of its pair
          have key : ∀ b ∈ ls, (l.left = b.left ∧ l.right = b.right ∧ l.jt ≠ b.jt) →
              ∃ l' ∈ ls, ∃ jt, look seen (l'.left, l'.right) = some jt ∧ jt ≠ l'.jt := by
            intro b hb hc
            refine ⟨b, hb, e.2, ?_, ?_⟩
            · rw [← hc.1, ← hc.2.1]; exact hlook
            · rw [hjt]; exact hc.2.2
          rintro (⟨l', hl', jt, h1, h2⟩ | ⟨a, ha, b, hb, hc⟩)
          · rcases List.mem_cons.mp hl' with rfl | hl'
            · rw [hlook] at h1; simp at h1; exact absurd (h1 ▸ hjt) h2
            · exact Or.inl ⟨l', hl', jt, h1, h2⟩
          · rcases List.mem_cons.mp ha with rfl | ha' <;> rcases List.mem_cons.mp hb with rfl | hb'
            · exact absurd rfl hc.2.2
            · exact Or.inl (key b hb' hc)
            · exact Or.inl (key a ha' ⟨hc.1.symm, hc.2.1.symm, Ne.symm hc.2.2⟩)
            · exact Or.inr ⟨a, ha', b, hb', hc⟩
      · have : (e.2 != l.jt) = true := by simpa using hjt
        simp only [this, if_true, true_iff]
        exact Or.inl ⟨l, List.mem_cons_self, e.2, hlook, hjt⟩
    | none =>
      have hlook : look seen (l.left, l.right) = none := by simp [look, hf]
      simp only
      rw [ih]
      constructor
      · rintro (⟨l', hl', jt, h1, h2⟩ | ⟨a, ha, b, hb, hc⟩)
        · rw [look_append] at h1
          cases hs : look seen (l'.left, l'.right) with
          | some r =>
            rw [hs] at h1; simp at h1
            exact Or.inl ⟨l', List.mem_cons_of_mem _ hl', r, hs, h1 ▸ h2⟩
          | none =>
            rw [hs] at h1
            by_cases hk : (l.left, l.right) = (l'.left, l'.right)
            · simp [hk] at h1
              simp only [Prod.mk.injEq] at hk
              exact Or.inr ⟨l, List.mem_cons_self, l', List.mem_cons_of_mem _ hl', hk.1, hk.2, h1 ▸ h2⟩
            · simp [hk] at h1
        · exact Or.inr ⟨a, List.mem_cons_of_mem _ ha, b, List.mem_cons_of_mem _ hb, hc⟩
      · have key : ∀ b ∈ ls, (l.left = b.left ∧ l.right = b.right ∧ l.jt ≠ b.jt) →
            ∃ l' ∈ ls, ∃ jt, look (seen ++ [((l.left, l.right), l.jt)]) (l'.left, l'.right) = some jt ∧ jt ≠ l'.jt := by
          intro b hb hc
          refine ⟨b, hb, l.jt, ?_, hc.2.2⟩
          rw [look_append, ← hc.1, ← hc.2.1, hlook]; simp
        rintro (⟨l', hl', jt, h1, h2⟩ | ⟨a, ha, b, hb, hc⟩)
        · rcases List.mem_cons.mp hl' with rfl | hl'
          · rw [hlook] at h1; cases h1
          · refine Or.inl ⟨l', hl', jt, ?_, h2⟩
            rw [look_append, h1]
        · rcases List.mem_cons.mp ha with rfl | ha' <;> rcases List.mem_cons.mp hb with rfl | hb'
          · exact absurd rfl hc.2.2
          · exact Or.inl (key b hb' hc)
          · exact Or.inl (key a ha' ⟨hc.1.symm, hc.2.1.symm, Ne.symm hc.2.2⟩)
          · exact Or.inr ⟨a, ha', b, hb', hc⟩

end Links
